#!/bin/sh
# runs the repository's pinned baseline suite with the verification guard OFF
cd /repo && env -u DEAP_VERIF /venv/bin/python -m pytest -ra -q -p no:cacheprovider --timeout=900 --continue-on-collection-errors "$@"
