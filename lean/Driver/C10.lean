import Driver.Proto
/-! Protocol handler for C10 (stub until the model is built). -/
namespace DriverC10

def handle : List String → String
  | _ => "bad-op"

end DriverC10
