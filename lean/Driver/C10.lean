import DeapModel.Core.RealOps
import DeapModel.Core.RoundedOps
import Driver.Proto
/-!
Protocol handler for C10 (real-coded operators), `Float` instance of `Core/RealOps.lean`.

Floats travel as bit patterns `f:<n>`; lists are comma separated, `-` = empty.  A bound / mu / sigma
argument is a single float token (scalar) or `L<list>` (sequence, `L-` = empty sequence).
The first individual is object 1 with strategy object 3, the second is object 2 with strategy 4.

  blend   <alpha> <genes1> <genes2> <rs>
  sbx     <eta>   <genes1> <genes2> <rs>
  sbxb    <eta>   <genes1> <genes2> <low> <up> <rs>
  esblend <alpha> <genes1> <strat1> <genes2> <strat2> <rs>
  poly    <eta> <genes> <low> <up> <indpb> <rs>
  gauss   <genes> <mu> <sigma> <indpb> <rs> <gs>
  logn    <c> <indpb> <genes> <strat> <rs> <gs>

Answers: `ok <ids> <lists…> <unused draws>` | `IndexError` | `ZeroDivisionError` | `bad-tape` | `bad-op`.
A NaN gene is printed as `nan` (the bit pattern of a NaN is not canonical).

Rounded semantics (`Core/RoundedOps.lean`), on the exact rational values of the doubles:

  xclamp <c> <xl> <xu>                          `min(max(c, xl), xu)` on `XF`  ->  `nan` | `inf` | `-inf` | `n/d`
  xhyp sbxb <eta> <x1> <x2> <xl> <xu> <rand>    first failing clause of `sbxbHyp binary64` (`ok` = the hypotheses of
                                                `C10.sbxb_rounded_locus` hold), `nonfinite` for a non-finite operand
  xhyp poly <eta> <x> <xl> <xu> <rand>          likewise `polyHyp binary64` / `C10.poly_rounded_locus`
  xhyp logn <strategy> <arg>                    first failing clause of `lognMag binary64 s a (lognK a)`
                                                (`ok` = the hypothesis of `C10.lognormal_pos_rounded_locus` holds)
-/
namespace DriverC10
open Proto RealOps

def showF (x : Float) : String := if x.isNaN then "nan" else showFloat x

def fl (l : List Float) : String := showList showF l

/-- a float token as its exact value -/
def parseXF (s : String) : Option RoundedOps.XF :=
  if s.startsWith "f:" then (s.drop 2).toString.toNat?.map (fun n => RoundedOps.XF.ofBits (UInt64.ofNat n)) else none

def showXF : RoundedOps.XF → String
  | .fin q => showRat q
  | .pinf => "inf"
  | .ninf => "-inf"
  | .nan => "nan"

def finite? : RoundedOps.XF → Option Rat
  | .fin q => some q
  | _ => none

def parseBound (s : String) : Option (Bound Float) :=
  if s.startsWith "L" then (parseList parseFloat (s.drop 1).toString).map Bound.seq
  else (parseFloat s).map Bound.scalar

def fin {β : Type} (o : Outcome β) (f : β → String) : String :=
  match o with
  | .ok b => "ok " ++ f b
  | .indexError => "IndexError"
  | .zeroDivision => "ZeroDivisionError"
  | .badTape => "bad-tape"

def showPair (r : Ind Float × Ind Float × List Float) : String :=
  s!"{r.1.oid},{r.2.1.oid} {fl r.1.genes} {fl r.2.1.genes} {r.2.2.length}"

def handle : List String → String
  | ["blend", al, g1, g2, rs] =>
    match (do let a ← parseFloat al; let x ← parseList parseFloat g1; let y ← parseList parseFloat g2
              let r ← parseList parseFloat rs; pure (a, x, y, r)) with
    | some (a, x, y, r) => fin (cxBlend ⟨1, x, 0, []⟩ ⟨2, y, 0, []⟩ a r) showPair
    | none => "bad-op"
  | ["sbx", et, g1, g2, rs] =>
    match (do let a ← parseFloat et; let x ← parseList parseFloat g1; let y ← parseList parseFloat g2
              let r ← parseList parseFloat rs; pure (a, x, y, r)) with
    | some (a, x, y, r) => fin (cxSimulatedBinary ⟨1, x, 0, []⟩ ⟨2, y, 0, []⟩ a r) showPair
    | none => "bad-op"
  | ["sbxb", et, g1, g2, lo, up, rs] =>
    match (do let a ← parseFloat et; let x ← parseList parseFloat g1; let y ← parseList parseFloat g2
              let l ← parseBound lo; let u ← parseBound up
              let r ← parseList parseFloat rs; pure (a, x, y, l, u, r)) with
    | some (a, x, y, l, u, r) => fin (cxSimulatedBinaryBounded ⟨1, x, 0, []⟩ ⟨2, y, 0, []⟩ a l u r) showPair
    | none => "bad-op"
  | ["esblend", al, g1, s1, g2, s2, rs] =>
    match (do let a ← parseFloat al; let x ← parseList parseFloat g1; let sx ← parseList parseFloat s1
              let y ← parseList parseFloat g2; let sy ← parseList parseFloat s2
              let r ← parseList parseFloat rs; pure (a, x, sx, y, sy, r)) with
    | some (a, x, sx, y, sy, r) =>
      fin (cxESBlend ⟨1, x, 3, sx⟩ ⟨2, y, 4, sy⟩ a r) (fun o =>
        s!"{o.1.oid},{o.1.soid},{o.2.1.oid},{o.2.1.soid} {fl o.1.genes} {fl o.1.strategy} {fl o.2.1.genes} {fl o.2.1.strategy} {o.2.2.length}")
    | none => "bad-op"
  | ["poly", et, g, lo, up, pb, rs] =>
    match (do let a ← parseFloat et; let x ← parseList parseFloat g
              let l ← parseBound lo; let u ← parseBound up; let p ← parseFloat pb
              let r ← parseList parseFloat rs; pure (a, x, l, u, p, r)) with
    | some (a, x, l, u, p, r) =>
      fin (mutPolynomialBounded ⟨1, x, 0, []⟩ a l u p r) (fun o => s!"{o.1.oid} {fl o.1.genes} {o.2.length}")
    | none => "bad-op"
  | ["gauss", g, mu, sg, pb, rs, gs] =>
    match (do let x ← parseList parseFloat g; let m ← parseBound mu; let s ← parseBound sg
              let p ← parseFloat pb; let r ← parseList parseFloat rs; let z ← parseList parseFloat gs
              pure (x, m, s, p, r, z)) with
    | some (x, m, s, p, r, z) =>
      fin (mutGaussian ⟨1, x, 0, []⟩ m s p r z)
        (fun o => s!"{o.1.oid} {fl o.1.genes} {o.2.1.length} {o.2.2.length}")
    | none => "bad-op"
  | ["logn", c, pb, g, st, rs, gs] =>
    match (do let cc ← parseFloat c; let p ← parseFloat pb; let x ← parseList parseFloat g
              let s ← parseList parseFloat st; let r ← parseList parseFloat rs
              let z ← parseList parseFloat gs; pure (cc, p, x, s, r, z)) with
    | some (cc, p, x, s, r, z) =>
      fin (mutESLogNormal ⟨1, x, 3, s⟩ cc p r z)
        (fun o => s!"{o.1.oid},{o.1.soid} {fl o.1.genes} {fl o.1.strategy} {o.2.1.length} {o.2.2.length}")
    | none => "bad-op"
  | ["xclamp", c, lo, up] =>
    match (do let x ← parseXF c; let l ← parseXF lo; let u ← parseXF up; pure (x, l, u)) with
    | some (x, l, u) => showXF (RoundedOps.XF.clamp x l u)
    | none => "bad-op"
  | ["xhyp", "sbxb", et, a, b, lo, up, r] =>
    match (do let e ← parseXF et; let x ← parseXF a; let y ← parseXF b; let l ← parseXF lo; let u ← parseXF up
              let d ← parseXF r; pure (e, x, y, l, u, d)) with
    | some (e, x, y, l, u, d) =>
      match (do let e ← finite? e; let x ← finite? x; let y ← finite? y; let l ← finite? l; let u ← finite? u
                let d ← finite? d; pure (RoundedOps.sbxbWhy RoundedOps.binary64 e x y l u d)) with
      | some w => w
      | none => "nonfinite"
    | none => "bad-op"
  | ["xhyp", "poly", et, a, lo, up, r] =>
    match (do let e ← parseXF et; let x ← parseXF a; let l ← parseXF lo; let u ← parseXF up
              let d ← parseXF r; pure (e, x, l, u, d)) with
    | some (e, x, l, u, d) =>
      match (do let e ← finite? e; let x ← finite? x; let l ← finite? l; let u ← finite? u
                let d ← finite? d; pure (RoundedOps.polyWhy RoundedOps.binary64 e x l u d)) with
      | some w => w
      | none => "nonfinite"
    | none => "bad-op"
  | ["xhyp", "logn", st, ar] =>
    match (do let s ← parseXF st; let a ← parseXF ar; pure (s, a)) with
    | some (s, a) =>
      match (do let s ← finite? s; let a ← finite? a; pure (RoundedOps.lognWhy RoundedOps.binary64 s a)) with
      | some w => w
      | none => "nonfinite"
    | none => "bad-op"
  | _ => "bad-op"

end DriverC10
