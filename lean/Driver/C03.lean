import Driver.Proto
/-! Protocol handler for C03 (stub until the model is built). -/
namespace DriverC03

def handle : List String → String
  | _ => "bad-op"

end DriverC03
