import DeapModel.Core.Loops
import DeapModel.Core.LoopsCompose
import Driver.Proto
import Driver.C02
/-!
Protocol handler for C03 (packaged loops) — trace replay.

    C03 simple   <heap> <pop> <evtable> <script> <gens>
    C03 plus     <heap> <pop> <evtable> <script> <mu> <lambda> <gens>
    C03 comma    <heap> <pop> <evtable> <script> <mu> <lambda> <gens>
    C03 plusbest <heap> <pop> <evtable> <script> <mu> <lambda> <gens>
    C03 harm     <heap> <pop> <evtable> <script> <nbrindsmodel> <gens>
    C03 harmr    <heap> <pop> <evtable> <script> <nbrindsmodel> <alpha> <beta> <gamma> <mincutoff> <cutidx> <gens>
    C03 gu       <evtable> <gens>

* `heap`, `pop`, `script`: as for C02 (fitness = weighted values).
* `evtable`: `;`-separated `<genome>><fit>` pairs — the pure function `toolbox.evaluate` restricted to the
  genomes that occur; a genome missing from the table makes the answer `bad-table`.
* `gens`: `+`-separated generations (`-` = none), fields of a generation separated by `/`:
    simple        `<select positions>/<mate bits>/<mutate bits>`
    plus, comma   `<choices>/<select positions>`      choices: `x:i:j` (crossover), `m:i` (mutation), `r:i`
    plusbest      `<choices>`
    harm          `<natural turns>/<accepted turns>`  turns: `p:<acc>`, `x:i:j:<acc1>:<acc2>`, `m:i:<acc>`, `r:i:<acc>`
    harmr         as harm, but every `<acc>` is the bit pattern (decimal UInt64) of the `random()` result that
                  `acceptfunc` compared: the model computes the acceptance threshold itself (IEEE `Float`, the
                  operation order of gp.py 1084-1122); alpha, beta, gamma are `f:<bits>`, `cutidx` is Python's
                  `int(len(population) * rho - 1)`
    gu            `<objs>/<order>`                     objs `;`-separated `<oid>:<genome>|<fit>` — what
                                                       generate() returned (new or persistent individuals)
  lists are comma-separated, `-` = empty.

A loop name with the suffix `-nohof` is the same run with `halloffame=None` (the answer then has `shown=-`).

COMPOSED replay (`Core/LoopsCompose.lean`: the C06 selection models compute the selection, the C08 model of
`HallOfFame(hofsize)` is fed by the loop, list objects have identities, ask/tell protocol state):

    C03 c-simple <heap> <pop> <evtable> <script> <hofsize> <gens>                 gens: `<sel>/<mate bits>/<mutate bits>`
    C03 c-plus   <heap> <pop> <evtable> <script> <mu> <lambda> <hofsize> <gens>   gens: `<choices>/<sel>`
    C03 c-comma  <heap> <pop> <evtable> <script> <mu> <lambda> <hofsize> <gens>
    C03 c-harm   <heap> <pop> <evtable> <script> <nbrindsmodel> <hofsize> <gens>  gens as `harm`
    C03 c-gu     <evtable> <hofsize> <gens>                                        gens as `gu`

  `<sel>`: `b` (tools.selBest), `w` (selWorst), `r:<draws>` (selRandom), `t<tournsize>:<draws>` (selTournament);
  draws = the `random.choice` results (indices) of that call, in call order; `p:<positions>` = any other selector
  (selRoulette, selNSGA2): the positions it chose, read off the trace.
  Answer: `log=… evals=… cb=<C0>+<C1>+… sel=<positions>+… vlog=…` with `Ck = <population oids>|<fits>|<hall of fame>|<ref>`
  (hall of fame: `genome>fit;…` best first; ref: `same` when the variable `population` refers to the caller's list
  object, else `other`; `-` for c-gu), `sel` = the positions the model's selector chose in each generation; for
  c-gu `tells=<asked oids>~<told oid:fit;…>+…` instead of `sel`/`vlog`.

Answer: `log=<gen:nevals,…> evals=<gen:oid,…> shown=<oid:fit;…> bounds=<B0>+<B1>+… vlog=<variation calls>`
(`shown`: what `halloffame.update` received, each individual with the fitness it carried at that moment)
where `Bk = <population oids>|<fit;fit;…>` is the population after generation k (every boundary).
`reject` when the machine does not allow the trace (wrong selection size, position out of range, tape or
script not used up, …), `assert` for eaMuCommaLambda's `lambda_ >= mu`, `bad-op` on malformed input.
-/
namespace DriverC03
open Proto Variation Loops DriverC02

def parseTable (s : String) : Option (List (List Int × List Int)) :=
  if s = "-" then some [] else
  (s.splitOn ";").mapM (fun e =>
    match e.splitOn ">" with
    | [g, f] => do some ((← parseList parseInt g), (← parseList parseInt f))
    | _ => none)

/-- the evaluate function: table lookup; `[]` (no real fitness is empty) marks a missing genome -/
def evOf (tbl : List (List Int × List Int)) (g : List Int) : List Int :=
  match tbl.find? (fun e => e.1 == g) with
  | some e => e.2
  | none => []

def parseBits (s : String) : Option (List Bool) :=
  if s = "-" then some [] else s.toList.mapM (fun c => if c = '1' then some true else if c = '0' then some false else none)

def parseChoice (s : String) : Option Choice :=
  match s.splitOn ":" with
  | ["x", i, j] => do some (Choice.cx (← parseNat i) (← parseNat j))
  | ["m", i] => (parseNat i).map Choice.mutn
  | ["r", i] => (parseNat i).map Choice.rep
  | _ => none

def parseBitsFloat (s : String) : Option Float := s.toNat?.map (fun n => Float.ofBits (UInt64.ofNat n))

def parseTurnR (s : String) : Option (HStep Float) :=
  match s.splitOn ":" with
  | ["p", a] => (parseBitsFloat a).map HStep.pick
  | ["x", i, j, a, b] => do
    some (HStep.cx (← parseNat i) (← parseNat j) (← parseBitsFloat a) (← parseBitsFloat b))
  | ["m", i, a] => do some (HStep.mutn (← parseNat i) (← parseBitsFloat a))
  | ["r", i, a] => do some (HStep.rep (← parseNat i) (← parseBitsFloat a))
  | _ => none

def parseTurn (s : String) : Option (HStep Bool) :=
  match s.splitOn ":" with
  | ["p", a] => (parseBool a).map HStep.pick
  | ["x", i, j, a, b] => do some (HStep.cx (← parseNat i) (← parseNat j) (← parseBool a) (← parseBool b))
  | ["m", i, a] => do some (HStep.mutn (← parseNat i) (← parseBool a))
  | ["r", i, a] => do some (HStep.rep (← parseNat i) (← parseBool a))
  | _ => none

def parseOidObj (s : String) : Option (Nat × Obj) :=
  match s.splitOn ":" with
  | [o, x] => do some ((← parseNat o), (← parseObj x))
  | _ => none

def parseOidObjs (s : String) : Option (List (Nat × Obj)) :=
  if s = "-" then some [] else (s.splitOn ";").mapM parseOidObj

def parseGens {β : Type} (p : List String → Option β) (s : String) : Option (List β) :=
  if s = "-" then some [] else (s.splitOn "+").mapM (fun g => p (g.splitOn "/"))

def showFit (o : Obj) : String := match o.fit with | none => "none" | some f => showList toString f

def showBound (s : LState) : String :=
  showList toString s.pop ++ "|" ++
    (if s.pop.isEmpty then "-" else ";".intercalate (s.pop.map (fun o => showFit (s.st.heap o))))

def showPair (p : Nat × Nat) : String := toString p.1 ++ ":" ++ toString p.2

/-- Run the generations one by one (the fold that `runGens` is), keeping every boundary. -/
def replay (ev : List Int → List Int) : List (Step Script) → Nat → Script → LState → List String →
    Option (Script × LState × List String)
  | [], _, t, s, acc => some (t, s, acc)
  | stp :: rest, g, t, s, acc =>
    match generation ev stp g t s with
    | none => none
    | some (t1, s1) => replay ev rest (g + 1) t1 s1 (acc ++ [showBound s1])

def missing (s : LState) : Bool :=
  s.evals.any (fun e => (s.st.heap e.2).fit == some [])

/-- `top` = the same run through the model's packaged function (`eaSimple`, …): must agree with the
generation-by-generation replay. -/
def showShown (s : LState) : String :=
  if s.shownObj.isEmpty then "-" else
    ";".intercalate (s.shownObj.map (fun e => toString e.1 ++ ":" ++ showFit e.2))

def finish (hof : Bool) (top : Option (Script × LState)) (r : Option (Script × LState × List String)) : String :=
  match r with
  | none => if top.isNone then "reject" else "internal-mismatch"
  | some (t, s, bounds) =>
    if (match top with
        | none => true
        | some (_, s') => !(s'.pop == s.pop && s'.log == s.log && s'.evals == s.evals && s'.shown == s.shown))
    then "internal-mismatch"
    else if !t.ok || !t.calls.isEmpty then "reject"
    else if missing s then "bad-table"
    else
      "log=" ++ showList showPair s.log ++ " evals=" ++ showList showPair s.evals
        ++ " shown=" ++ (if hof then showShown s else "-")
        ++ " bounds=" ++ (if bounds.isEmpty then "-" else "+".intercalate bounds)
        ++ " vlog=" ++ showList showEv s.st.log

structure Common where
  objs : List Obj
  pop : List Nat
  tbl : List (List Int × List Int)
  script : List Call

def parseCommon (heaps pops tbls scr : String) : Option Common := do
  let objs ← parseHeap heaps
  let pop ← parseList parseNat pops
  let tbl ← parseTable tbls
  let sc ← parseScript scr
  if pop.all (· < objs.length) then some ⟨objs, pop, tbl, sc⟩ else none

/-- population-based loops: generation 0, then the given steps from generation 1 -/
def runPopLoop (hof : Bool) (c : Common) (steps : List (Step Script))
    (top : (List Int → List Int) → Script → LState → Option (Script × LState)) : String :=
  let s0 : LState := { st := mkState c.objs, pop := c.pop }
  let ev := evOf c.tbl
  let g0 := gen0 ev s0
  finish hof (top ev ⟨c.script, true⟩ s0) (replay ev steps 1 ⟨c.script, true⟩ g0 [showBound g0])

def handleH (hof : Bool) : List String → String
  | ["simple", heaps, pops, tbls, scr, gens] =>
    match parseCommon heaps pops tbls scr, parseGens (fun
        | [a, b, c] => do some (⟨← parseList parseNat a, ← parseBits b, ← parseBits c⟩ : SimpleDec)
        | _ => none) gens with
    | some c, some ds => runPopLoop hof c (ds.map (simpleStep scripted)) (fun ev t s => eaSimple scripted ev ds t s)
    | _, _ => "bad-op"
  | [kind, heaps, pops, tbls, scr, mus, lams, gens] =>
    match parseCommon heaps pops tbls scr, parseNat mus, parseNat lams with
    | some c, some mu, some lam =>
      if kind = "plusbest" then
        match parseGens (fun | [a] => parseList parseChoice a | _ => none) gens with
        | some ds => runPopLoop hof c (ds.map (plusBestStep scripted mu lam))
            (fun ev t s => eaMuPlusLambdaBest scripted ev mu lam ds t s)
        | none => "bad-op"
      else
        match parseGens (fun
            | [a, b] => do some (⟨← parseList parseChoice a, ← parseList parseNat b⟩ : MuLamDec)
            | _ => none) gens with
        | some ds =>
          if kind = "plus" then
            runPopLoop hof c (ds.map (plusStep scripted mu lam)) (fun ev t s => eaMuPlusLambda scripted ev mu lam ds t s)
          else if kind = "comma" then
            if commaAssert mu lam then
              runPopLoop hof c (ds.map (commaStep scripted mu lam))
                (fun ev t s => eaMuCommaLambda scripted ev mu lam ds t s)
            else "assert"
          else "bad-op"
        | none => "bad-op"
    | _, _, _ => "bad-op"
  | ["harm", heaps, pops, tbls, scr, nbrs, gens] =>
    match parseCommon heaps pops tbls scr, parseNat nbrs, parseGens (fun
        | [a, b] => do some (⟨← parseList parseTurn a, ← parseList parseTurn b⟩ : HarmDec Bool)
        | _ => none) gens with
    | some c, some nbr, some ds =>
      runPopLoop hof c (ds.map (harmStep scripted nbr)) (fun ev t s => harm scripted ev nbr ds t s)
    | _, _, _ => "bad-op"
  | ["harmr", heaps, pops, tbls, scr, nbrs, al, be, ga, mc, ci, gens] =>
    match parseCommon heaps pops tbls scr, parseNat nbrs, parseGens (fun
        | [a, b] => do some (⟨← parseList parseTurnR a, ← parseList parseTurnR b⟩ : HarmDec Float)
        | _ => none) gens,
      (do some (⟨← parseFloat al, ← parseFloat be, ← parseFloat ga, ← parseNat mc, ← parseInt ci⟩ :
        HarmParams Float)) with
    | some c, some nbr, some ds, some p =>
      runPopLoop hof c (ds.map (harmStepR scripted nbr p))
        (fun ev t s => harmR scripted ev nbr (ds.map (fun d => (p, d))) t s)
    | _, _, _, _ => "bad-op"
  | ["gu", tbls, gens] =>
    match parseTable tbls, parseGens (fun
        | [a, b] => do some ((← parseOidObjs a), (← parseList parseNat b))
        | _ => none) gens with
    | some tbl, some gs =>
      let s0 : LState := { st := mkState [], pop := [] }
      finish hof (eaGenerateUpdate (evOf tbl) gs ⟨[], true⟩ (mkState []))
        (replay (evOf tbl) (gs.map (fun g => guStep g.1 g.2)) 0 ⟨[], true⟩ s0 [])
    | _, _ => "bad-op"
  | _ => "bad-op"

/-! ### composed replay -/
section Composed
open LoopsC

def hofBase : Nat := 1000000

def parseSel (s : String) : Option Sel :=
  if s = "b" then some .best
  else if s = "w" then some .worst
  else match s.splitOn ":" with
    | [k, ds] =>
      if k = "r" then (parseList parseNat ds).map Sel.random
      else if k = "p" then (parseList parseNat ds).map Sel.given
      else if k.startsWith "t" then do
        let ts ← (k.drop 1).toString.toNat?
        let d ← parseList parseNat ds
        some (Sel.tournament ts d)
      else none
    | _ => none

def showHof (c : CState) : String :=
  if c.hof.items.isEmpty then "-" else
    ";".intercalate (c.hof.items.map (fun i => showList toString i.genome ++ ">" ++ showList toString i.fit.wvalues))

def showCB (gu : Bool) (c : CState) : String :=
  showBound c.ls ++ "|" ++ showHof c ++ "|" ++ (if gu then "-" else if c.popRef = 0 then "same" else "other")

/-- what the selector of a generation chose, recomputed from the states before and after the generation -/
abbrev SelView := CState → CState → String

def noSel : SelView := fun _ _ => "-"

/-- positions are reported as the harness observes them: an object listed several times among the candidates is
located at its FIRST position (identity, `is`) -/
def showPositions (cand : List Nat) : Option (List Nat) → String
  | some idx => showList toString (idx.map (fun i => match cand[i]? with | some o => cand.idxOf o | none => i))
  | none => "none"

/-- eaSimple: `select(population, len(population))` on the population before the generation -/
def simpleSelView (sel : Sel) : SelView := fun c _ =>
  showPositions c.ls.pop (sel.positions c.ls.st.heap c.ls.pop c.ls.pop.length)

/-- the offspring of the generation = what the hall of fame was shown in it -/
def offOf (c c' : CState) : List Nat := c'.ls.shown.drop c.ls.shown.length

def plusSelView (sel : Sel) (mu : Nat) : SelView := fun c c' =>
  showPositions (c.ls.pop ++ offOf c c') (sel.positions c'.ls.st.heap (c.ls.pop ++ offOf c c') mu)

def commaSelView (sel : Sel) (mu : Nat) : SelView := fun c c' =>
  showPositions (offOf c c') (sel.positions c'.ls.st.heap (offOf c c') mu)

def creplay (ev : List Int → List Int) : List (Step Script × SelView) → Nat → Script → CState → List String →
    List String → Option (Script × CState × List String × List String)
  | [], _, t, c, acc, sels => some (t, c, acc, sels)
  | x :: rest, g, t, c, acc, sels =>
    match cgeneration ev x.1 .slice g t c with
    | none => none
    | some (t1, c1) => creplay ev rest (g + 1) t1 c1 (acc ++ [showCB false c1]) (sels ++ [x.2 c c1])

def join (l : List String) : String := if l.isEmpty then "-" else "+".intercalate l

def finishC (top : Option (Script × CState)) (r : Option (Script × CState × List String × List String)) : String :=
  match r with
  | none => if top.isNone then "reject" else "internal-mismatch"
  | some (t, c, bounds, sels) =>
    if (match top with
        | none => true
        | some (_, c') => !(c'.ls.pop == c.ls.pop && c'.ls.log == c.ls.log && c'.ls.evals == c.ls.evals
            && showHof c' == showHof c && c'.popRef == c.popRef && c'.lists c'.popRef == c.lists c.popRef))
    then "internal-mismatch"
    else if !t.ok || !t.calls.isEmpty then "reject"
    else if missing c.ls then "bad-table"
    else
      "log=" ++ showList showPair c.ls.log ++ " evals=" ++ showList showPair c.ls.evals
        ++ " cb=" ++ join bounds ++ " sel=" ++ join sels ++ " vlog=" ++ showList showEv c.ls.st.log

def runPopLoopC (c : Common) (hofsize : Nat) (steps : List (Step Script × SelView)) : String :=
  let c0 := initState (mkState c.objs) c.pop hofsize hofBase
  let ev := evOf c.tbl
  let top := crunPop ev (steps.map (fun x => (x.1, Assign.slice))) ⟨c.script, true⟩ c0
  match cgen0 ev c0 with
  | none => "hof-raise"
  | some g0 => finishC top (creplay ev steps 1 ⟨c.script, true⟩ g0 [showCB false g0] [])

def showTell (x : Nat × Option (List Nat) × List (Nat × Obj)) : String :=
  (match x.2.1 with | none => "none" | some l => showList toString l) ++ "~" ++
    (if x.2.2.isEmpty then "-" else ";".intercalate (x.2.2.map (fun e => toString e.1 ++ ":" ++ showFit e.2)))

def creplayGU (ev : List Int → List Int) : List (List (Nat × Obj) × List Nat) → Nat → Script → CState →
    List String → Option (Script × CState × List String)
  | [], _, t, c, acc => some (t, c, acc)
  | x :: rest, g, t, c, acc =>
    match guGeneration ev x.1 x.2 g t c with
    | none => none
    | some (t1, c1) => creplayGU ev rest (g + 1) t1 c1 (acc ++ [showCB true c1])

def handleC : List String → String
  | ["c-simple", heaps, pops, tbls, scr, hs, gens] =>
    match parseCommon heaps pops tbls scr, parseNat hs, parseGens (fun
        | [a, b, c] => do some (⟨← parseSel a, ← parseBits b, ← parseBits c⟩ : SimpleSelDec)
        | _ => none) gens with
    | some c, some hofsize, some ds =>
      runPopLoopC c hofsize (ds.map (fun d => (simpleSelStep scripted d, simpleSelView d.sel)))
    | _, _, _ => "bad-op"
  | [kind, heaps, pops, tbls, scr, mus, lams, hs, gens] =>
    match parseCommon heaps pops tbls scr, parseNat mus, parseNat lams, parseNat hs, parseGens (fun
        | [a, b] => do some (⟨← parseList parseChoice a, ← parseSel b⟩ : MuLamSelDec)
        | _ => none) gens with
    | some c, some mu, some lam, some hofsize, some ds =>
      if kind = "c-plus" then
        runPopLoopC c hofsize (ds.map (fun d => (plusSelStep scripted mu lam d, plusSelView d.sel mu)))
      else if kind = "c-comma" then
        if commaAssert mu lam then
          runPopLoopC c hofsize (ds.map (fun d => (commaSelStep scripted mu lam d, commaSelView d.sel mu)))
        else "assert"
      else "bad-op"
    | _, _, _, _, _ => "bad-op"
  | ["c-harm", heaps, pops, tbls, scr, nbrs, hs, gens] =>
    match parseCommon heaps pops tbls scr, parseNat nbrs, parseNat hs, parseGens (fun
        | [a, b] => do some (⟨← parseList parseTurn a, ← parseList parseTurn b⟩ : HarmDec Bool)
        | _ => none) gens with
    | some c, some nbr, some hofsize, some ds =>
      runPopLoopC c hofsize (ds.map (fun d => (harmStep scripted nbr d, noSel)))
    | _, _, _, _ => "bad-op"
  | ["c-gu", tbls, hs, gens] =>
    match parseTable tbls, parseNat hs, parseGens (fun
        | [a, b] => do some ((← parseOidObjs a), (← parseList parseNat b))
        | _ => none) gens with
    | some tbl, some hofsize, some gs =>
      let c0 := initState (mkState []) [] hofsize hofBase
      match creplayGU (evOf tbl) gs 0 (⟨[], true⟩ : Script) c0 [],
            eaGenerateUpdateC (evOf tbl) gs (⟨[], true⟩ : Script) (mkState []) hofsize hofBase with
      | some (_, c, bounds), some (_, c') =>
        if !(c'.ls.pop == c.ls.pop && c'.ls.log == c.ls.log && showHof c' == showHof c) then "internal-mismatch"
        else if missing c.ls then "bad-table"
        else
          "log=" ++ showList showPair c.ls.log ++ " evals=" ++ showList showPair c.ls.evals
            ++ " cb=" ++ join bounds ++ " tells=" ++ join (c.strat.tells.map showTell)
      | none, none => "reject"
      | _, _ => "internal-mismatch"
    | _, _, _ => "bad-op"
  | _ => "bad-op"

end Composed

def handle : List String → String
  | kind :: rest =>
    if kind.startsWith "c-" then handleC (kind :: rest)
    else if kind.endsWith "-nohof" then handleH false ((kind.dropEnd 6).toString :: rest) else handleH true (kind :: rest)
  | [] => "bad-op"

end DriverC03
