import DeapModel.Core.Bench
import DeapModel.Core.BenchMO
import DeapModel.Core.BenchBinary
import DeapModel.Core.BenchTools
import DeapModel.Core.MovingPeaks
import DeapModel.Core.BenchIndicators
import DeapModel.Core.Hypervolume
import Driver.Proto
/-!
Protocol handler for C20 (benchmark functions).  Floats travel as bit patterns (`f:<UInt64>`).

  f <name> <xs>                      single-objective / gp function  → value | error
  shekel <xs> <a;rows> <c>           → value | error
  mo <name> <xs> [M] [alpha]         multi-objective → comma list | error
  bin <name> <bits> [order]          binary functions → integer | error
  b2f <min> <max> <nbits> <bits>     decoded list (min/max exact ratios; printed as doubles) | error
  translate <vector> <xs>            argument handed to the wrapped function
  scale <factor> <xs>                … | error
  rotate <Minv;rows> <xs>            … | error
  noise <rep0|rep1|each:bits> <result> <draws>   → noisy result + number of unused draws | bad-tape
  bound <kind> <xs>                  → xs
  rand <xs> <draws>                  → the draw + number of unused draws | bad-tape
  stack <t> <Minv;rows> <factor> <xs> argument reaching the function under @translate @rotate @scale
  mpinit <dim> <fns> <uh> <uw> {<draw>}*   state built by MovingPeaks.__init__ + unused draws
  mpcall <basis|none> <xs> {<fn> <pos> <h> <w>}*  → value | error
  mpchange … / mpcount …              see `mpChange`, `mpCount`
  mpworld <k> {instance}*k <nops> {op}*  several benchmark objects, each built by `MovingPeaks.init` from its
                                     own arguments and tape, and an interleaved history; see `mpWorld`
  mpmax <basis|none> {<fn> <pos> <h> <w>}*   globalMaximum() and maximums()
  popdiv <pop;rows>                   movingpeaks.diversity(population)
  hist translate|scale|rotate|stack … a decorated function re-parameterised through its setters; see `hist`
  ind diversity <front;rows> <first> <last> | ind convergence <front> <opt> | ind igd <A> <Z>
  hvpop <weights> <values;rows> <ref|none>   benchmarks.tools.hypervolume on exact rationals
-/
namespace DriverC20
open Proto Bench BenchBin BenchTools MovingPeaks BenchInd

def fl (s : String) : Option (List Float) := parseList parseFloat s
def fl2 (s : String) : Option (List (List Float)) := parseList2 parseFloat s
def showFl (l : List Float) : String := showList showFloat l
def showO (o : Option Float) : String := match o with | some v => showFloat v | none => "error"
def showOL (o : Option (List Float)) : String := match o with | some v => showFl v | none => "error"

def parseBits (s : String) : Option (List Bool) :=
  if s = "-" then some [] else s.toList.mapM fun c => if c = '1' then some true else if c = '0' then some false else none

def single (name : String) (x : List Float) : Option (Option Float) :=
  match name with
  | "plane" => some (plane x)
  | "sphere" => some (some (sphere x))
  | "cigar" => some (cigar x)
  | "rosenbrock" => some (some (rosenbrock x))
  | "h1" => some (h1 x)
  | "ackley" => some (ackley x)
  | "bohachevsky" => some (some (bohachevsky x))
  | "griewank" => some (some (griewank x))
  | "rastrigin" => some (some (rastrigin x))
  | "rastrigin_scaled" => some (rastriginScaled x)
  | "rastrigin_skew" => some (some (rastriginSkew x))
  | "schaffer" => some (some (schaffer x))
  | "schwefel" => some (some (schwefel x))
  | "himmelblau" => some (himmelblau x)
  | "kotanchek" => some (kotanchek x)
  | "salustowicz_1d" => some (salustowicz1d x)
  | "salustowicz_2d" => some (salustowicz2d x)
  | "unwrapped_ball" => some (some (unwrappedBall x))
  | "rational_polynomial" => some (rationalPolynomial x)
  | "sin_cos" => some (sinCos x)
  | "ripple" => some (ripple x)
  | "rational_polynomial2" => some (rationalPolynomial2 x)
  | _ => none

def multi (name : String) (x : List Float) (rest : List String) : Option (Option (List Float)) :=
  match name, rest with
  | "kursawe", [] => some (some (kursawe x))
  | "schaffer_mo", [] => some (schafferMo x)
  | "zdt1", [] => some (zdt1 x)
  | "zdt2", [] => some (zdt2 x)
  | "zdt3", [] => some (zdt3 x)
  | "zdt4", [] => some (zdt4 x)
  | "zdt6", [] => some (zdt6 x)
  | "fonseca", [] => some (some (fonseca x))
  | "poloni", [] => some (poloni x)
  | "dent", [lam] => (parseFloat lam).map fun l => dent l x
  | "dtlz1", [m] => (parseNat m).map fun M => dtlz1 x M
  | "dtlz2", [m] => (parseNat m).map fun M => dtlz2 x M
  | "dtlz3", [m] => (parseNat m).map fun M => dtlz3 x M
  | "dtlz4", [m, a] => do let M ← parseNat m; let al ← parseFloat a; pure (dtlz4 x M al)
  | "dtlz5", [m] => (parseNat m).map fun M => dtlz5 x M
  | "dtlz6", [m] => (parseNat m).map fun M => dtlz6 x M
  | "dtlz7", [m] => (parseNat m).map fun M => dtlz7 x M
  | _, _ => none

def showOI (o : Option Int) : String := match o with | some v => toString v | none => "error"

def binary (name : String) (b : List Bool) (rest : List String) : Option String :=
  match name, rest with
  | "trap", [] => some (toString (trap b))
  | "inv_trap", [] => some (toString (invTrap b))
  | "chuang_f1", [] => some (showOI (chuangF1 b))
  | "chuang_f2", [] => some (showOI (chuangF2 b))
  | "chuang_f3", [] => some (showOI (chuangF3 b))
  | "royal_road1", [o] => (parseNat o).map fun k => showOpt toString (royalRoad1 b k)
  | "royal_road2", [o] => (parseNat o).map fun k => showOpt toString (royalRoad2 b k)
  | _, _ => none

def ratToFloat (q : Rat) : Float := Float.ofInt q.num / Float.ofNat q.den

def parseSpec (s : String) : Option NoiseSpec :=
  if s = "rep0" then some (.rep false) else if s = "rep1" then some (.rep true)
  else if s.startsWith "each:" then (parseBits (s.drop 5).toString).map NoiseSpec.each else none

def parseFn (s : String) : Option PFunc :=
  if s = "c" then some .cone else if s = "s" then some .sphere else if s = "f" then some .function1 else none

def showFn : PFunc → String
  | .cone => "c" | .sphere => "s" | .function1 => "f"

/-- `<fn> <pos> <h> <w>` groups -/
def parsePeaks4 : List String → Option (List (Peak Float))
  | [] => some []
  | fn :: pos :: h :: w :: rest => do
    let f ← parseFn fn; let p ← fl pos; let hh ← parseFloat h; let ww ← parseFloat w
    let r ← parsePeaks4 rest
    pure (⟨f, p, hh, ww, []⟩ :: r)
  | _ => none

/-- `n` groups `<fn> <pos> <h> <w> <last>`; returns the remaining tokens -/
def parsePeaks5 : Nat → List String → Option (List (Peak Float) × List String)
  | 0, rest => some ([], rest)
  | n + 1, fn :: pos :: h :: w :: last :: rest => do
    let f ← parseFn fn; let p ← fl pos; let hh ← parseFloat h; let ww ← parseFloat w; let l ← fl last
    let (r, rest') ← parsePeaks5 n rest
    pure (⟨f, p, hh, ww, l⟩ :: r, rest')
  | _, _ => none

def parseDraw (s : String) : Option (Draw Float) :=
  if s.startsWith "r=" then (parseFloat (s.drop 2).toString).map Draw.random
  else if s.startsWith "u=" then (parseFloat (s.drop 2).toString).map Draw.uniform
  else if s.startsWith "g=" then (parseFloat (s.drop 2).toString).map Draw.gauss
  else if s.startsWith "i=" then (parseNat (s.drop 2).toString).map Draw.randrange
  else if s.startsWith "c=" then (parseNat (s.drop 2).toString).map Draw.choice
  else if s.startsWith "s=" then (parseList parseNat (s.drop 2).toString).map Draw.sample
  else none

def parseLimits (s : String) : Option (Option (Int × Int)) :=
  if s = "none" then some none else
    match s.splitOn "," with
    | [a, b] => do let x ← parseInt a; let y ← parseInt b; pure (some (x, y))
    | _ => none

def parseOptFloat (s : String) : Option (Option Float) :=
  if s = "none" then some none else (parseFloat s).map some

def showPeak (p : Peak Float) : String :=
  showFn p.fn ++ "," ++ showFloat p.height ++ "," ++ showFloat p.width ++ "," ++ showFl p.pos ++ "," ++ showFl p.last

/-- run `k` changes, after each one report `<npeaks>,<call value at x>` -/
def mpSteps (cfg : Config Float) (basis : Option Float) (x : List Float) :
    Nat → List (Peak Float) → Tape Float → List String → Option (List String × List (Peak Float) × Tape Float)
  | 0, peaks, t, acc => some (acc.reverse, peaks, t)
  | k + 1, peaks, t, acc =>
    match changePeaks cfg peaks t with
    | none => none
    | some (peaks1, t1) =>
      let v := match call peaks1 basis x with | some v => showFloat v | none => "none"
      mpSteps cfg basis x k peaks1 t1 ((toString peaks1.length ++ "," ++ v) :: acc)

/-- the common tail `<dim> <limits> <sev> <pool> <minC> <maxC> <minH> <maxH> <minW> <maxW> <lambda> <move>
<hsev> <wsev> <basis> <x> <npeaks> {<fn> <pos> <h> <w> <last>}* {<draw>}*` -/
def parseMP (toks : List String) :
    Option (Config Float × Option Float × List Float × List (Peak Float) × Tape Float) :=
  match toks with
  | dim :: lim :: sev :: pool :: minC :: maxC :: minH :: maxH :: minW :: maxW :: lam :: move ::
      hsev :: wsev :: basis :: x :: np :: rest => do
      let dim ← parseNat dim; let lim ← parseLimits lim; let sev ← parseFloat sev
      let pool ← pool.toList.mapM (fun c => parseFn c.toString)
      let minC ← parseFloat minC; let maxC ← parseFloat maxC; let minH ← parseFloat minH
      let maxH ← parseFloat maxH; let minW ← parseFloat minW; let maxW ← parseFloat maxW
      let lam ← parseFloat lam; let move ← parseFloat move; let hsev ← parseFloat hsev
      let wsev ← parseFloat wsev; let basis ← parseOptFloat basis; let x ← fl x; let np ← parseNat np
      let (peaks, rest') ← parsePeaks5 np rest
      let tape ← rest'.mapM parseDraw
      let cfg : Config Float := ⟨dim, lim, sev, pool, minC, maxC, minH, maxH, minW, maxW, lam, move, hsev, wsev,
        pyRoundFloat⟩
      pure (cfg, basis, x, peaks, tape)
  | _ => none

def showPeaks (ps : List (Peak Float)) : String :=
  if ps.isEmpty then "-" else ";".intercalate (ps.map showPeak)

/-- `mpchange <k> <common tail>`: `k` calls of `changePeaks`, after each one `<npeaks>,<call value at x>` -/
def mpChange (toks : List String) : String :=
  match toks with
  | k :: rest =>
    match (do let k ← parseNat k; let r ← parseMP rest; pure (k, r)) with
    | none => "bad-op"
    | some (k, cfg, basis, x, peaks, tape) =>
      match mpSteps cfg basis x k peaks tape [] with
      | none => "bad-tape"
      | some (steps, peaks', t') =>
        (if steps.isEmpty then "-" else ";".intercalate steps) ++ " " ++ showPeaks peaks' ++ " " ++ toString t'.length
  | _ => "bad-op"

/-- `mpcount <n> <period> <nevals0> <common tail>`: `n` counted evaluations of `x`; per evaluation
`<fitness>,<changed>,<nevals>,<npeaks>` -/
def mpCount (toks : List String) : String :=
  match toks with
  | n :: period :: nev0 :: rest =>
    match (do let n ← parseNat n; let p ← parseInt period; let e ← parseNat nev0; let r ← parseMP rest
              pure (n, p, e, r)) with
    | none => "bad-op"
    | some (n, period, nev0, cfg, basis, x, peaks, tape) =>
      -- one evaluation at a time so that the state after each can be reported
      let rec go : Nat → State Float → Tape Float → List String → Option (List String × State Float × Tape Float)
        | 0, st, t, acc => some (acc.reverse, st, t)
        | k + 1, st, t, acc =>
          match evalCounted cfg period (basis.map fun b => fun _ => b) st x t with
          | none => none
          | some (v, ch, st1, t1) =>
            go k st1 t1 ((showFloat v ++ "," ++ showBool ch ++ "," ++ toString st1.nevals ++ "," ++
              toString st1.peaks.length) :: acc)
      match go n ⟨peaks, nev0⟩ tape [] with
      | none => "bad-tape"
      | some (steps, st, t') =>
        (if steps.isEmpty then "-" else ";".intercalate steps) ++ " " ++ showPeaks st.peaks ++ " " ++ toString t'.length
  | _ => "bad-op"

/-! ### several benchmark objects (`mpworld`) -/

def parsePFArg (s : String) : Option PFuncArg :=
  if s.startsWith "one:" then (parseFn (s.drop 4).toString).map PFuncArg.one
  else if s.startsWith "many:" then
    let r := (s.drop 5).toString
    if r = "-" then some (.many []) else (r.toList.mapM fun c => parseFn c.toString).map PFuncArg.many
  else none

/-- `<dim> <lim> <sev> <pfunc> <npeaks> <uh> <uw> <period> <basis|none> <minC> <maxC> <minH> <maxH> <minW> <maxW>
<lambda> <move> <hsev> <wsev> <ndraws> {<draw>}*ndraws`; answers the remaining tokens too.
`Except`: `error` = the constructor raises (`random.sample` of more than the list holds). -/
def parseInstance (toks : List String) : Option (Option (Slot Float) × Bool × List String) :=
  match toks with
  | dim :: lim :: sev :: pf :: np :: uh :: uw :: period :: basis :: minC :: maxC :: minH :: maxH :: minW :: maxW ::
      lam :: move :: hsev :: wsev :: nd :: rest => do
      let dim ← parseNat dim; let lim ← parseLimits lim; let sev ← parseFloat sev; let pf ← parsePFArg pf
      let np ← parseNat np; let uh ← parseFloat uh; let uw ← parseFloat uw; let period ← parseInt period
      let basis ← parseOptFloat basis
      let minC ← parseFloat minC; let maxC ← parseFloat maxC; let minH ← parseFloat minH
      let maxH ← parseFloat maxH; let minW ← parseFloat minW; let maxW ← parseFloat maxW
      let lam ← parseFloat lam; let move ← parseFloat move; let hsev ← parseFloat hsev
      let wsev ← parseFloat wsev; let nd ← parseNat nd
      if rest.length < nd then none else
      let tape ← (rest.take nd).mapM parseDraw
      let base : Config Float := ⟨dim, lim, sev, [], minC, maxC, minH, maxH, minW, maxW, lam, move, hsev, wsev,
        pyRoundFloat⟩
      let raises := match pf with
        | .many fs => decide (fs.length < np)
        | .one _ => false
      match MovingPeaks.init base period (basis.map fun b => fun _ => b) pf np uh uw tape with
      | none => pure (none, raises, rest.drop nd)
      | some (b, t') => pure (some ⟨b, t'⟩, false, rest.drop nd)
  | _ => none

def parseInstances : Nat → List String → Option (List (Option (Slot Float) × Bool) × List String)
  | 0, rest => some ([], rest)
  | k + 1, toks => do
    let (s, r, rest) ← parseInstance toks
    let (ss, rest') ← parseInstances k rest
    pure ((s, r) :: ss, rest')

/-- `<i> ch` | `<i> e <x>` | `<i> c <x>` -/
def parseOps : Nat → List String → Option (List (Nat × Action Float))
  | 0, [] => some []
  | 0, _ :: _ => none
  | n + 1, i :: "ch" :: rest => do
    let i ← parseNat i; let r ← parseOps n rest; pure ((i, .change) :: r)
  | n + 1, i :: "e" :: x :: rest => do
    let i ← parseNat i; let x ← fl x; let r ← parseOps n rest; pure ((i, .eval x) :: r)
  | n + 1, i :: "c" :: x :: rest => do
    let i ← parseNat i; let x ← fl x; let r ← parseOps n rest; pure ((i, .evalCount x) :: r)
  | _, _ => none

def showOut : Out Float → String
  | .changed n => toString n
  | .value v => showFloat v
  | .counted v ch ne np er =>
    showFloat v ++ "," ++ showBool ch ++ "," ++ toString ne ++ "," ++ toString np ++ "," ++
      (match er with | some e => showFloat e | none => "none")

def showSlot (s : Slot Float) : String :=
  showPeaks s.b.st.peaks ++ " " ++ (if s.b.cfg.pool.isEmpty then "-" else String.join (s.b.cfg.pool.map showFn)) ++ " " ++
    toString s.b.st.nevals ++ " " ++ showFloat s.b.err.offline ++ " " ++
    (match offlineError s.b.err s.b.st.nevals with | some v => showFloat v | none => "none") ++ " " ++
    toString s.tape.length

/-- `mpworld <k> {instance}*k <nops> {op}*` → `<out>;…;<out> {<peaks> <pool> <nevals> <offline sum> <offlineError> <unused draws>}*k`
| `error` (a constructor raises) | `bad-tape` -/
def mpWorld (toks : List String) : String :=
  match toks with
  | k :: rest =>
    match (do let k ← parseNat k
              let (insts, rest1) ← parseInstances k rest
              match rest1 with
              | n :: rest2 => do let n ← parseNat n; let ops ← parseOps n rest2; pure (insts, ops)
              | [] => none) with
    | none => "bad-op"
    | some (insts, ops) =>
      if insts.any (fun p => p.1.isNone && p.2) then "error"
      else match insts.mapM (·.1) with
        | none => "bad-tape"
        | some w =>
          match World.run ops w with
          | none => "bad-tape"
          | some (w', outs) =>
            (if outs.isEmpty then "-" else ";".intercalate (outs.map showOut)) ++
              String.join (w'.map fun s => " " ++ showSlot s)
  | _ => "bad-op"

def showVP (vp : Float × List Float) : String := showFl (vp.1 :: vp.2)

/-! ### decorator histories (`hist`) -/

/-- `s <param>` | `c <x>` -/
def parseHOps {P : Type} (pp : String → Option P) : List String → Option (List (HOp P (List Float)))
  | [] => some []
  | "s" :: p :: rest => do let p ← pp p; let r ← parseHOps pp rest; pure (.set p :: r)
  | "c" :: x :: rest => do let x ← fl x; let r ← parseHOps pp rest; pure (.call x :: r)
  | _ => none

/-- `st <v>` | `sr <Minv;rows>` | `ss <factor>` | `c <x>` -/
def parseStackOps : List String → Option (List (HOp (StackParam Float) (List Float)))
  | [] => some []
  | "st" :: p :: rest => do let p ← fl p; let r ← parseStackOps rest; pure (.set (.t p) :: r)
  | "sr" :: p :: rest => do let p ← fl2 p; let r ← parseStackOps rest; pure (.set (.r p) :: r)
  | "ss" :: p :: rest => do let p ← fl p; let r ← parseStackOps rest; pure (.set (.s p) :: r)
  | "c" :: x :: rest => do let x ← fl x; let r ← parseStackOps rest; pure (.call x :: r)
  | _ => none

def showHist (o : Option (Option (List (List Float)))) : String :=
  match o with
  | none => "bad-op"
  | some none => "error"
  | some (some ys) => if ys.isEmpty then "-" else ";".intercalate (ys.map showFl)

/-- `hist translate <v0> {ops}` · `hist scale <f0> {ops}` · `hist rotate <Minv0;rows> {ops}` (the harness hands over
the inverse of every matrix it installs: `inv` is a parameter of the model, here the identity on the given
inverse) · `hist stack <t0> <Minv0> <f0> {stack ops}` → the lists handed to the wrapped function, `;`-separated -/
def hist : List String → String
  | "translate" :: v0 :: rest =>
    showHist (do let v ← fl v0; let ops ← parseHOps fl rest; pure (translateHist v ops))
  | "scale" :: f0 :: rest =>
    showHist (do let f ← fl f0; let ops ← parseHOps fl rest; pure (scaleHist f ops))
  | "rotate" :: m0 :: rest =>
    showHist (do let m ← fl2 m0; let ops ← parseHOps fl2 rest; pure (rotateHist id m ops))
  | "stack" :: t0 :: m0 :: f0 :: rest =>
    showHist (do let t ← fl t0; let m ← fl2 m0; let f ← fl f0; let ops ← parseStackOps rest
                 pure ((scaleFactor f).bind fun r => stackHist id ⟨t, m, r⟩ ops))
  | _ => "bad-op"

def pair2 : List Float → Option (Float × Float)
  | a :: b :: _ => some (a, b)
  | _ => none

def handle : List String → String
  | ["f", name, xs] =>
    match (do let x ← fl xs; single name x) with
    | some r => showO r
    | none => "bad-op"
  | ["shekel", xs, a, c] =>
    match (do let x ← fl xs; let a ← fl2 a; let c ← fl c; pure (shekel x a c)) with
    | some r => showO r
    | none => "bad-op"
  | "mo" :: name :: xs :: rest =>
    match (do let x ← fl xs; multi name x rest) with
    | some r => showOL r
    | none => "bad-op"
  | "bin" :: name :: bits :: rest =>
    match (do let b ← parseBits bits; binary name b rest) with
    | some r => r
    | none => "bad-op"
  | ["b2f", mn, mx, nb, bits] =>
    match (do let a ← parseRat mn; let b ← parseRat mx; let n ← parseNat nb; let x ← parseBits bits
              pure (bin2float a b n x)) with
    | some (some r) => showFl (r.map ratToFloat) ++ " " ++ showList showRat r
    | some none => "error"
    | none => "bad-op"
  | ["translate", v, xs] =>
    match (do let v ← fl v; let x ← fl xs; pure (translateArg v x)) with
    | some r => showFl r
    | none => "bad-op"
  | ["scale", v, xs] =>
    match (do let v ← fl v; let x ← fl xs; pure (scaleArg v x)) with
    | some r => showOL r
    | none => "bad-op"
  | ["rotate", m, xs] =>
    match (do let m ← fl2 m; let x ← fl xs; pure (matVec m x)) with
    | some r => showOL r
    | none => "bad-op"
  | ["noise", spec, res, draws] =>
    match (do let s ← parseSpec spec; let r ← fl res; let d ← fl draws; pure (noise s r d)) with
    | some (some (out, rest)) => showFl out ++ " " ++ toString rest.length
    | some none => "bad-tape"
    | none => "bad-op"
  | ["bound", kind, xs] =>
    match (do
      let k ← (if kind = "mirror" then some BoundKind.mirror else if kind = "wrap" then some BoundKind.wrap
               else if kind = "clip" then some BoundKind.clip else none)
      let x ← fl2 xs; pure (bound k x)) with
    | some r => showList2 showFloat r
    | none => "bad-op"
  | "mpcall" :: basis :: xs :: rest =>
    match (do let b ← parseOptFloat basis; let x ← fl xs; let p ← parsePeaks4 rest; pure (call p b x)) with
    | some r => showO r
    | none => "bad-op"
  | ["rand", xs, draws] =>
    match (do let x ← fl xs; let d ← fl draws; pure (Bench.rand x d)) with
    | some (some (v, rest)) => showFloat v ++ " " ++ toString rest.length
    | some none => "bad-tape"
    | none => "bad-op"
  | ["stack", v, m, f, xs] =>
    match (do let v ← fl v; let m ← fl2 m; let f ← fl f; let x ← fl xs; pure (stackArg v m f x)) with
    | some r => showOL r
    | none => "bad-op"
  | "mpinit" :: dim :: fns :: uh :: uw :: draws =>
    match (do let dim ← parseNat dim
              let fns ← (if fns = "-" then some [] else fns.toList.mapM (fun (c : Char) => parseFn c.toString))
              let uh ← parseFloat uh; let uw ← parseFloat uw
              let tape ← draws.mapM parseDraw
              pure (initPeaks dim fns uh uw tape)) with
    | some (some (peaks, rest)) => showPeaks peaks ++ " " ++ toString rest.length
    | some none => "bad-tape"
    | none => "bad-op"
  | "mpworld" :: rest => mpWorld rest
  | "mpmax" :: basis :: rest =>
    match (do let b ← parseOptFloat basis; let p ← parsePeaks4 rest; pure (b, p)) with
    | some (b, p) =>
      (match globalMaximum p with | some g => showVP g | none => "error") ++ " " ++
        (let ms := maximums p (b.map fun v => fun _ => v)
         if ms.isEmpty then "-" else ";".intercalate (ms.map showVP))
    | none => "bad-op"
  | ["popdiv", pop] =>
    match (do let p ← fl2 pop; pure (popDiversity p)) with
    | some r => showO r
    | none => "bad-op"
  | "hist" :: rest => hist rest
  | ["ind", "diversity", front, first, last] =>
    match (do let f ← fl2 front; let f ← f.mapM pair2; let a ← fl first; let a ← pair2 a
              let b ← fl last; let b ← pair2 b; pure (diversity f a b)) with
    | some r => showO r
    | none => "bad-op"
  | ["ind", "convergence", front, opt] =>
    match (do let f ← fl2 front; let o ← fl2 opt; pure (convergence f o)) with
    | some r => showO r
    | none => "bad-op"
  | ["ind", "igd", a, z] =>
    match (do let a ← fl2 a; let z ← fl2 z; pure (igd a z)) with
    | some r => showO r
    | none => "bad-op"
  | ["hvpop", ws, vs, rs] =>
    match (do let w ← parseList parseRat ws; let v ← parseList2 parseRat vs
              let r ← (if rs = "none" then some none else (parseList parseRat rs).map some); pure (w, v, r)) with
    | some (w, v, r) => if v.isEmpty then "error" else showRat (Hypervolume.populationHV w v r)
    | none => "bad-op"
  | "mpchange" :: rest => mpChange rest
  | "mpcount" :: rest => mpCount rest
  | _ => "bad-op"

end DriverC20
