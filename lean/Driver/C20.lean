import Driver.Proto
/-! Protocol handler for C20 (stub until the model is built). -/
namespace DriverC20

def handle : List String → String
  | _ => "bad-op"

end DriverC20
