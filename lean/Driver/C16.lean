import DeapModel.Core.Heap
import DeapModel.Core.HeapDerive
import DeapModel.Core.Init
import Driver.Proto
/-!
Protocol handler for C16 (object heap: create / clone / pickle / toolbox).

Tokens (after `C16`):
* class table `<ct>`: `;`-separated `kind/inst` with `inst` = `name=cls,…` or `-`; `-` = empty table
* heap `<heap>`: `;`-separated objects in oid order `cls/m/items/attrs`, `m` ∈ {0,1}, `items` =
  comma list of values or `-`, `attrs` = `name=val,…` or `-`; `-` = empty heap
* value: `a<int>` (atom) or `r<oid>` (reference)

Answers
* graph dump (identity-aware): `roots|obj₀|obj₁|…` — the objects allocated by the operation in
  depth-first order from the roots (items first, then attributes by ascending name), references
  printed as `n<k>` (k-th allocated object met), `o<oid>` (an object of the input heap, i.e. shared
  with the original), `u<oid>` (dangling)
* tree dump (identity-free): nested terms `<cls/m/v,v/k=v,k=v>`

* `hist <builtins> <op>…` (the `deap.creator` namespace between dumps and loads): `<builtins>` =
  `;`-separated `name/kind` (classes that pickle by reference; they open every class table); ops
  `c/<name>/<kind>/<inst>/<cls>` (`creator.create`; `inst` = `attr=@<name>` (the class bound to that
  name now) or `attr=#<i>` (by-reference class `i`), `cls` = `attr=<int>`), `d/<name>` (`del`),
  `o/<slot>/<i>/<items>` (an instance of by-reference class `i`), `n/<slot>/<name>/<items>` (an
  instance of the class bound to `name`; items `a<int>` or `s<slot>`), `s/<slot>/<attr>/<items>`
  (replace the items of the object the attribute refers to), `v/<slot>/<attr>/<val>` (set an
  attribute of the object itself), `p/<slot>` (dump), `l/<k>` (load dump `k`).  Answer: for every load the
  loaded graph as a nested term whose classes are printed as identity-free descriptions
  `[name:kind:attr=DESC+…:attr=val,…]`, then `NS:` the bound names with the descriptions of their classes.
* `gp <nodes> <args> <mapping> <history> <tree>`: `renameArguments` history, then the pickle round
  trip of the tree's nodes; nodes `P/name/arity/args/ret/seq` or `T/name/value/ret/conv` (`-` = unset).

* `init <ct> <cls> <shape> <hdr> <mode> <n> <tapes> <count>`: `count` consecutive `tools.initRepeat(creator.C, f, n)` (`mode` = `repeat`),
  `tools.initCycle(creator.C, [f0, f1, …], n)` (`cycle`) or `tools.initIterate(creator.C, g)` (`iterate`: `g()` returns `n` elements) in the
  empty heap (model `Core/Init.lean`).  `tapes` = `;`-separated, one per function: the values its successive calls return (a function is a
  closure over its own list; a call on an exhausted list answers `fail`); `shape` = `seq` | `set` | `dict` (for `dict` a call returns a
  key and a value: two values of the tape), `hdr` = `-` or the value that opens the items of an ndarray.  Answer: graph dump of the
  created objects, then ` calls=<number of calls per function> left=<unused values per function>`.

* `derive <ct> <kind> <dt> <events> <items>`: a history over a chain of creator classes DERIVED FROM creator classes (model
  `Core/HeapDerive.lean`).  `<ct>` = the classes of the per-instance attributes; `<kind>` = kind of the built-in root base; `<dt>` =
  `;`-separated classes `parent/inst` (`parent` = `-` for the root, else the index of the created parent; `inst` = the class's OWN
  `name=cls,…` or `-`); `<events>` = comma list of `c` (the next class of `<dt>` is created) and `i<d>` (class `d` is instantiated with
  `<items>`; it must exist by then).  Answer: graph dump of the created instances in creation order.

Operations: `clone <ct> <heap> <root> <k>`, `pickle <ct> <heap> <root> same|empty`,
`create <ct> <cls> <items> <count>`, `createclone <ct> <cls> <items>` (one instance created in the
empty heap, then cloned; graph dump of the clone relative to the heap after the creation, so the
created objects print as `o<oid>`), `tb …`.  `None` (set by `ConstrainedFitness.__init__`) is the
atom `Heap.noneAtom`.
-/
namespace DriverC16
open Proto Heap

def parseVal (s : String) : Option Val :=
  if s.startsWith "a" then (s.drop 1).toString.toInt?.map Val.atom
  else if s.startsWith "r" then (s.drop 1).toString.toNat?.map Val.ref
  else none

def parseKind : String → Option Kind
  | "plain" => some .plain | "ctor" => some .ctor | "fitness" => some .fitness
  | "cfitness" => some .cfitness | "tree" => some .tree | "nparr" => some .nparr
  | "pyarr" => some .pyarr | "node" => some .node | _ => none

def parsePair {β : Type} (p : String → Option β) (s : String) : Option (Nat × β) :=
  match s.splitOn "=" with
  | [k, v] => do let k ← k.toNat?; let v ← p v; pure (k, v)
  | _ => none

def parseClass (s : String) : Option ClassInfo :=
  match s.splitOn "/" with
  | [k, inst] => do
      let k ← parseKind k
      let inst ← parseList (parsePair parseNat) inst
      pure { kind := k, dictInst := inst, dictCls := [] }
  | _ => none

def parseCt (s : String) : Option ClassTable :=
  if s = "-" then some [] else (s.splitOn ";").mapM parseClass

def parseObj (s : String) : Option Obj :=
  match s.splitOn "/" with
  | [c, m, items, attrs] => do
      let c ← c.toNat?
      let m ← parseBool m
      let items ← parseList parseVal items
      let attrs ← parseList (parsePair parseVal) attrs
      pure { cls := c, items := items, attrs := attrs, mutable := m }
  | _ => none

def parseHeap (s : String) : Option (List Obj) :=
  if s = "-" then some [] else (s.splitOn ";").mapM parseObj

def heapFn (l : List Obj) : Oid → Option Obj := fun y => l[y]?

/-- insertion sort of an attribute list by name (names are unique) -/
def insertAttr (p : Name × Val) : List (Name × Val) → List (Name × Val)
  | [] => [p]
  | q :: r => if p.1 < q.1 then p :: q :: r else if p.1 = q.1 then q :: r else q :: insertAttr p r

def sortAttrs (l : List (Name × Val)) : List (Name × Val) := l.foldr insertAttr []

/-- Depth-first order of the objects allocated at or after `n0` reachable from `v`. -/
def visit (objs : Oid → Option Obj) (n0 : Nat) : Nat → List Oid → Val → List Oid
  | _, seen, .atom _ => seen
  | 0, seen, .ref _ => seen
  | f + 1, seen, .ref x =>
    if x < n0 then seen
    else if seen.contains x then seen
    else match objs x with
      | none => seen ++ [x]
      | some o =>
        (o.items ++ (sortAttrs o.attrs).map (·.2)).foldl (visit objs n0 f) (seen ++ [x])

def indexOf (x : Oid) : List Oid → Nat → Option Nat
  | [], _ => none
  | y :: r, i => if y = x then some i else indexOf x r (i + 1)

def showRef (objs : Oid → Option Obj) (n0 : Nat) (order : List Oid) : Val → String
  | .atom a => "a" ++ toString a
  | .ref x =>
    if x < n0 then "o" ++ toString x
    else match objs x, indexOf x order 0 with
      | some _, some i => "n" ++ toString i
      | _, _ => "u" ++ toString x

def showObj (sv : Val → String) (o : Obj) : String :=
  toString o.cls ++ "/" ++ showBool o.mutable ++ "/" ++ showList sv o.items ++ "/" ++
    showList (fun (p : Name × Val) => toString p.1 ++ "=" ++ sv p.2) (sortAttrs o.attrs)

def graphDump (objs : Oid → Option Obj) (n0 fuel : Nat) (roots : List Val) : String :=
  let order := roots.foldl (visit objs n0 fuel) []
  let sv := showRef objs n0 order
  "|".intercalate (showList sv roots :: order.map (fun x =>
    match objs x with
    | some o => showObj sv o
    | none => "undefined"))

/-- Identity-free nested term; objects below `n0` are printed as `o<oid>`. -/
def treeDump (objs : Oid → Option Obj) (n0 : Nat) : Nat → Val → String
  | _, .atom a => "a" ++ toString a
  | 0, .ref x => "deep" ++ toString x
  | f + 1, .ref x =>
    if x < n0 then "o" ++ toString x
    else match objs x with
      | none => "u" ++ toString x
      | some o => "<" ++ showObj (treeDump objs n0 f) o ++ ">"

def parseKw (s : String) : Option (List (Name × Int)) := parseList (parsePair parseInt) s

def showKw (l : List (Name × Int)) : String :=
  showList (fun (p : Name × Int) => toString p.1 ++ "=" ++ toString p.2) l

/-! ### `hist`: the namespace between dumps and loads -/

def showKind : Kind → String
  | .plain => "plain" | .ctor => "ctor" | .fitness => "fitness" | .cfitness => "cfitness"
  | .tree => "tree" | .nparr => "nparr" | .pyarr => "pyarr" | .node => "node"

def showAtomVal : Val → String
  | .atom a => "a" ++ toString a
  | .ref x => "r" ++ toString x

def insertBy {β : Type} (p : Nat × β) : List (Nat × β) → List (Nat × β)
  | [] => [p]
  | q :: r => if p.1 < q.1 then p :: q :: r else if p.1 = q.1 then q :: r else q :: insertBy p r

def sortBy {β : Type} (l : List (Nat × β)) : List (Nat × β) := l.foldr insertBy []

mutual
def showDesc : CDesc → String
  | .mk nm k inst cls =>
    "[" ++ toString nm ++ ":" ++ showKind k ++ ":" ++ showInsts inst ++ ":" ++
      showList (fun (p : Name × Val) => toString p.1 ++ "=" ++ showAtomVal p.2) (sortAttrs cls) ++ "]"
def showInsts : List (Name × CDesc) → String
  | [] => "-"
  | (a, d) :: r => toString a ++ "=" ++ showDesc d ++ (match r with | [] => "" | _ => "+" ++ showInsts r)
end

/-- The description of class `c` of the module, `dict_inst` in ascending attribute-name order. -/
def classText (m : Module) (c : ClsId) : String :=
  let ct := m.classes.map (fun ci => { ci with dictInst := sortBy ci.dictInst })
  match describe ct m.names (m.classes.length + 1) c with
  | some d => showDesc d
  | none => "?" ++ toString c

/-- Identity-free nested term with class descriptions; objects below `n0` are printed as `o<oid>`. -/
def descDump (m : Module) (objs : Oid → Option Obj) (n0 : Nat) : Nat → Val → String
  | _, .atom a => "a" ++ toString a
  | 0, .ref x => "deep" ++ toString x
  | f + 1, .ref x =>
    if x < n0 then "o" ++ toString x
    else match objs x with
      | none => "u" ++ toString x
      | some o =>
        let sv := descDump m objs n0 f
        "<" ++ classText m o.cls ++ "/" ++ showBool o.mutable ++ "/" ++ showList sv o.items ++ "/" ++
          showList (fun (p : Name × Val) => toString p.1 ++ "=" ++ sv p.2) (sortAttrs o.attrs) ++ ">"

structure HSt where
  m : Module
  st : State
  slots : List (Nat × Oid)
  pickles : List Pickle
  out : List String

def parseBuiltin (s : String) : Option (Name × ClassInfo) :=
  match s.splitOn "/" with
  | [n, k] => do
      let n ← n.toNat?
      let k ← parseKind k
      pure (n, { kind := k, dictInst := [], dictCls := [] })
  | _ => none

def parseInstRef (m : Module) (nb : Nat) (s : String) : Option ClsId :=
  if s.startsWith "@" then (s.drop 1).toString.toNat?.bind (fun n => lookup n m.bound)
  else if s.startsWith "#" then (s.drop 1).toString.toNat?.bind (fun i => if i < nb then some i else none)
  else none

def parseItem (slots : List (Nat × Oid)) (s : String) : Option Val :=
  if s.startsWith "a" then (s.drop 1).toString.toInt?.map Val.atom
  else if s.startsWith "s" then (s.drop 1).toString.toNat?.bind (fun k => (lookup k slots).map Val.ref)
  else none

def setSlotOf (slots : List (Nat × Oid)) (k : Nat) (x : Oid) : List (Nat × Oid) :=
  (k, x) :: slots.filter (fun p => p.1 != k)

def histStep (nb : Nat) (h : HSt) (op : String) : Option HSt :=
  match op.splitOn "/" with
  | ["c", name, kind, inst, cls] => do
      let name ← name.toNat?
      let k ← parseKind kind
      let inst ← parseList (parsePair (parseInstRef h.m nb)) inst
      let cls ← parseList (parsePair parseInt) cls
      pure { h with m := (metaCreate h.m name
        { kind := k, dictInst := inst, dictCls := cls.map (fun p => (p.1, Val.atom p.2)) }).1 }
  | ["d", name] => do
      let name ← name.toNat?
      pure { h with m := unbind h.m name }
  | ["o", slot, cls, items] => do
      let slot ← slot.toNat?
      let c ← parseInstRef h.m nb cls
      let items ← parseList (parseItem h.slots) items
      let (st', x) ← create h.m.classes h.st c items
      pure { h with st := st', slots := setSlotOf h.slots slot x }
  | ["n", slot, name, items] => do
      let slot ← slot.toNat?
      let name ← name.toNat?
      let c ← lookup name h.m.bound
      let items ← parseList (parseItem h.slots) items
      let (st', x) ← create h.m.classes h.st c items
      pure { h with st := st', slots := setSlotOf h.slots slot x }
  | ["s", slot, attr, items] => do
      let slot ← slot.toNat?
      let attr ← attr.toNat?
      let items ← parseList (parseItem h.slots) items
      let x ← lookup slot h.slots
      let o ← h.st.objs x
      match lookup attr o.attrs with
      | some (.ref y) => do
          let oy ← h.st.objs y
          pure { h with st := { h.st with objs := write h.st.objs y { oy with items := items } } }
      | _ => none
  | ["v", slot, attr, val] => do
      let slot ← slot.toNat?
      let attr ← attr.toNat?
      let v ← parseItem h.slots val
      let x ← lookup slot h.slots
      let o ← h.st.objs x
      pure { h with st := { h.st with objs := write h.st.objs x { o with attrs := dictSet attr v o.attrs } } }
  | ["p", slot] => do
      let slot ← slot.toNat?
      let x ← lookup slot h.slots
      let P ← dumpP h.m nb h.st.objs (h.st.next + 2) (.ref x)
      pure { h with pickles := h.pickles ++ [P] }
  | ["l", k] => do
      let k ← k.toNat?
      let P ← h.pickles[k]?
      let (m'', objs', next', v') ← loadP h.m P h.st.objs h.st.next
      pure { h with m := m'', st := { objs := objs', next := next', memo := [] },
                    out := h.out ++ [descDump m'' objs' h.st.next (next' + 2) v'] }
  | _ => none

def histRun (nb : Nat) : HSt → List String → Option HSt
  | h, [] => some h
  | h, op :: ops =>
    match histStep nb h op with
    | none => none
    | some h' => histRun nb h' ops

/-! ### `gp`: node objects -/

def parseOptInt (s : String) : Option (Option Int) :=
  if s = "-" then some none else s.toInt?.map some

def parseNode (s : String) : Option Gp.Node :=
  match s.splitOn "/" with
  | ["P", a, b, c, d, e] => do
      let a ← parseOptInt a; let b ← parseOptInt b; let c ← parseOptInt c
      let d ← parseOptInt d; let e ← parseOptInt e
      pure (.prim a b c d e)
  | ["T", a, b, c, d] => do
      let a ← parseOptInt a; let b ← parseOptInt b; let c ← parseOptInt c; let d ← parseOptInt d
      pure (.term a b c d)
  | _ => none

def parsePairI {β : Type} (p : String → Option β) (s : String) : Option (Int × β) :=
  match s.splitOn "=" with
  | [k, v] => do let k ← k.toInt?; let v ← p v; pure (k, v)
  | _ => none

def showOptInt : Option Int → String
  | none => "-"
  | some a => toString a

def showNode : Gp.Node → String
  | .prim a b c d e => "P/" ++ "/".intercalate [showOptInt a, showOptInt b, showOptInt c, showOptInt d, showOptInt e]
  | .term a b c d => "T/" ++ "/".intercalate [showOptInt a, showOptInt b, showOptInt c, showOptInt d]

/-! ### `tools.initRepeat` / `initCycle` / `initIterate` (`init`) -/

structure TapeSt where
  tapes : List (List Val)
  calls : List Nat
  ok : Bool := true

/-- the `j`-th function: a closure over its own list of values; every call hands out the next `w` of them -/
def popFn (j w : Nat) : Init.Func TapeSt (List Val) := fun t =>
  let tp := t.tapes.getD j []
  if t.ok && w ≤ tp.length then
    ({ t with tapes := t.tapes.set j (tp.drop w), calls := t.calls.set j (t.calls.getD j 0 + 1) }, tp.take w)
  else ({ t with ok := false }, [])

def parseShape : String → Option Init.Shape
  | "seq" => some .seq | "set" => some .set | "dict" => some .dict | _ => none

def initOne (ct : ClassTable) (c : ClsId) (shape : Init.Shape) (hdr : List Val) (mode : String) (n : Nat) (nf : Nat)
    (t : TapeSt) (st : State) : Option (TapeSt × State × Oid) :=
  let w := if shape = .dict then 2 else 1
  let container : List (List Val) → List Val := fun res => hdr ++ Init.contentOf shape res.flatten
  let r : Option (TapeSt × List Val) :=
    if mode = "repeat" then some (Init.initRepeat container (popFn 0 w) n t)
    else if mode = "cycle" then some (Init.initCycle container ((List.range nf).map (fun j => popFn j w)) n t)
    else if mode = "iterate" then some (Init.initIterate (fun (l : List (List Val)) => container l) (fun t => let r := popFn 0 (n * w) t; (r.1, [r.2])) t)
    else none
  match r with
  | none => none
  | some (t1, items) =>
    if !t1.ok then none else
    match create ct st c items with
    | none => none
    | some (st1, x) => some (t1, st1, x)

def initMany (ct : ClassTable) (c : ClsId) (shape : Init.Shape) (hdr : List Val) (mode : String) (n nf : Nat) :
    Nat → TapeSt → State → List Val → Option (TapeSt × State × List Val)
  | 0, t, st, roots => some (t, st, roots)
  | k + 1, t, st, roots =>
    match initOne ct c shape hdr mode n nf t st with
    | none => none
    | some (t1, st1, x) => initMany ct c shape hdr mode n nf k t1 st1 (roots ++ [Val.ref x])

/-- `derive`: parse one class of the hierarchy. -/
def parseDClass (k : Kind) (s : String) : Option DClass :=
  match s.splitOn "/" with
  | [par, inst] => do
      let p ← (if par = "-" then some none else par.toNat?.map some)
      let inst ← parseList (parsePair parseNat) inst
      pure { parent := p, kind := k, dictInst := inst, dictCls := [] }
  | _ => none

def parseDEvent (items : List Val) (s : String) : Option DEvent :=
  if s = "c" then some .create
  else if s.startsWith "i" then (s.drop 1).toString.toNat?.map (fun d => DEvent.inst d items)
  else none

def handleDerive : List String → String
  | [cts, ks, dts, evs, items] =>
    match (do let ct ← parseCt cts; let k ← parseKind ks
              let dt ← (dts.splitOn ";").mapM (parseDClass k)
              let it ← parseList parseVal items
              let ev ← parseList (parseDEvent it) evs
              -- a class is created after its parent
              if (dt.zipIdx.all (fun (p : DClass × Nat) => match p.1.parent with | none => true | some q => decide (q < p.2)))
              then pure (ct, dt, ev) else none) with
    | some (ct, dt, ev) =>
      match runEvents ct dt ev 0 { objs := fun _ => none, next := 0, memo := [] } [] with
      | some (st, roots) => graphDump st.objs 0 (st.next + 2) roots
      | none => "fail"
    | none => "bad-op"
  | _ => "bad-op"

def handle : List String → String
  | "derive" :: rest => handleDerive rest
  | ["init", cts, cs, shapes, hdrs, mode, ns, tapes, counts] =>
    match (do let ct ← parseCt cts; let c ← cs.toNat?; let sh ← parseShape shapes
              let hdr ← (if hdrs = "-" then some [] else (parseVal hdrs).map (fun v => [v]))
              let n ← ns.toNat?; let k ← counts.toNat?
              let tp ← (tapes.splitOn ";").mapM (parseList parseVal)
              if mode = "repeat" ∨ mode = "cycle" ∨ mode = "iterate" then pure (ct, c, sh, hdr, n, k, tp) else none) with
    | some (ct, c, sh, hdr, n, k, tp) =>
      match initMany ct c sh hdr mode n tp.length k { tapes := tp, calls := tp.map (fun _ => 0) }
          { objs := fun _ => none, next := 0, memo := [] } [] with
      | some (t, st, roots) =>
        graphDump st.objs 0 (st.next + 2) roots ++ " calls=" ++ showList toString t.calls
          ++ " left=" ++ showList (fun (l : List Val) => toString l.length) t.tapes
      | none => "fail"
    | none => "bad-op"
  | ["clone", cts, hs, root, ks] =>
    match (do let ct ← parseCt cts; let h ← parseHeap hs; let v ← parseVal root; let k ← ks.toNat?
              pure (ct, h, v, k)) with
    | some (ct, h, v, k) =>
      let fuel := h.length + 2
      match cloneChain ct fuel k (heapFn h) h.length v with
      | some (objs, next, vs) => graphDump objs h.length (next + 2) vs
      | none => "fail"
    | none => "bad-op"
  | ["pickle", cts, hs, root, target] =>
    match (do let ct ← parseCt cts; let h ← parseHeap hs; let v ← parseVal root
              let same ← (if target = "same" then some true else if target = "empty" then some false else none)
              pure (ct, h, v, same)) with
    | some (ct, h, v, same) =>
      let fuel := h.length + 2
      let (objs0, n0) : (Oid → Option Obj) × Nat := if same then (heapFn h, h.length) else (fun _ => none, 0)
      match pickleRoundTrip ct fuel (heapFn h) v objs0 n0 with
      | some (objs, next, v') => treeDump objs n0 (next + 2) v'
      | none => "fail"
    | none => "bad-op"
  | ["create", cts, cs, items, counts] =>
    match (do let ct ← parseCt cts; let c ← cs.toNat?; let it ← parseList parseVal items
              let k ← counts.toNat?; pure (ct, c, it, k)) with
    | some (ct, c, it, k) =>
      let step := fun (acc : Option (State × List Val)) (_ : Nat) =>
        match acc with
        | none => none
        | some (st, roots) =>
          match create ct st c it with
          | none => none
          | some (st', x) => some (st', roots ++ [Val.ref x])
      match (List.range k).foldl step (some ({ objs := fun _ => none, next := 0, memo := [] }, [])) with
      | some (st, roots) => graphDump st.objs 0 (st.next + 2) roots
      | none => "fail"
    | none => "bad-op"
  | ["createclone", cts, cs, items] =>
    match (do let ct ← parseCt cts; let c ← cs.toNat?; let it ← parseList parseVal items
              pure (ct, c, it)) with
    | some (ct, c, it) =>
      match create ct { objs := fun _ => none, next := 0, memo := [] } c it with
      | none => "fail"
      | some (st, x) =>
        match clone ct (ct.length + 3) st.objs st.next (Val.ref x) with
        | some (objs, next, v') => graphDump objs st.next (next + 2) [v']
        | none => "fail"
    | none => "bad-op"
  | "hist" :: bs :: ops =>
    match (if bs = "-" then some [] else (bs.splitOn ";").mapM parseBuiltin) with
    | some bl =>
      let m0 : Module := { classes := bl.map (·.2), bound := [], names := bl.map (·.1) }
      let h0 : HSt := { m := m0, st := { objs := fun _ => none, next := 0, memo := [] }, slots := [],
                        pickles := [], out := [] }
      match histRun bl.length h0 ops with
      | some h =>
        ";".intercalate (h.out ++ ["NS:" ++ showList (fun (p : Name × ClsId) =>
          toString p.1 ++ "=" ++ classText h.m p.2) (sortBy h.m.bound)])
      | none => "bad-op"
    | none => "bad-op"
  | ["gp", nodes, args, mapping, hist, tree] =>
    match (do let ns ← (if nodes = "-" then some [] else (nodes.splitOn ";").mapM parseNode)
              let a ← parseList parseInt args
              let mp ← parseList (parsePairI parseNat) mapping
              let hs ← (if hist = "-" then some [] else
                          (hist.splitOn ";").mapM (parseList (parsePairI parseInt)))
              let t ← parseList parseNat tree
              pure (ns, a, mp, hs, t)) with
    | some (ns, a, mp, hs, t) =>
      match Gp.renameHistory { nodes := ns, arguments := a, mapping := mp } hs with
      | none => "fail"
      | some ps =>
        match Gp.treeRoundTrip ps t with
        | none => "fail"
        | some loaded =>
          showList toString ps.arguments ++ "|" ++ showList (fun (p : Int × Nat) => toString p.1) ps.mapping
            ++ "|" ++ (if loaded.isEmpty then "-" else ";".intercalate (loaded.map showNode))
    | none => "bad-op"
  | ["tb", args, kw, ndec, cargs, ckw] =>
    match (do let a ← parseList parseInt args; let k ← parseKw kw; let n ← ndec.toNat?
              let ca ← parseList parseInt cargs; let ck ← parseKw ckw; pure (a, k, n, ca, ck)) with
    | some (a, k, n, ca, ck) =>
      -- the registered function records what it is called with; decorator `i` tags its result
      let apply := fun (f : List Nat) (xs : List Int) (kws : List (Name × Int)) =>
        showList toString xs ++ " " ++ showKw kws ++ " " ++ showList toString f
      let tb : List (Name × Partial (List Nat) Int) := register [] 7 [] a k
      let ds : List (List Nat → List Nat) := (List.range n).map (fun i => fun f => f ++ [i + 1])
      match (decorate tb 7 ds).bind (fun tb' => call apply tb' 7 ca ck) with
      | some s => s
      | none => "fail"
    | none => "bad-op"
  | _ => "bad-op"

end DriverC16
