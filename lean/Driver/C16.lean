import DeapModel.Core.Heap
import Driver.Proto
/-!
Protocol handler for C16 (object heap: create / clone / pickle / toolbox).

Tokens (after `C16`):
* class table `<ct>`: `;`-separated `kind/inst` with `inst` = `name=cls,…` or `-`; `-` = empty table
* heap `<heap>`: `;`-separated objects in oid order `cls/m/items/attrs`, `m` ∈ {0,1}, `items` =
  comma list of values or `-`, `attrs` = `name=val,…` or `-`; `-` = empty heap
* value: `a<int>` (atom) or `r<oid>` (reference)

Answers
* graph dump (identity-aware): `roots|obj₀|obj₁|…` — the objects allocated by the operation in
  depth-first order from the roots (items first, then attributes by ascending name), references
  printed as `n<k>` (k-th allocated object met), `o<oid>` (an object of the input heap, i.e. shared
  with the original), `u<oid>` (dangling)
* tree dump (identity-free): nested terms `<cls/m/v,v/k=v,k=v>`

Operations: `clone <ct> <heap> <root> <k>`, `pickle <ct> <heap> <root> same|empty`,
`create <ct> <cls> <items> <count>`, `createclone <ct> <cls> <items>` (one instance created in the
empty heap, then cloned; graph dump of the clone relative to the heap after the creation, so the
created objects print as `o<oid>`), `tb …`.  `None` (set by `ConstrainedFitness.__init__`) is the
atom `Heap.noneAtom`.
-/
namespace DriverC16
open Proto Heap

def parseVal (s : String) : Option Val :=
  if s.startsWith "a" then (s.drop 1).toString.toInt?.map Val.atom
  else if s.startsWith "r" then (s.drop 1).toString.toNat?.map Val.ref
  else none

def parseKind : String → Option Kind
  | "plain" => some .plain | "ctor" => some .ctor | "fitness" => some .fitness
  | "cfitness" => some .cfitness | "tree" => some .tree | "nparr" => some .nparr
  | "pyarr" => some .pyarr | "node" => some .node | _ => none

def parsePair {β : Type} (p : String → Option β) (s : String) : Option (Nat × β) :=
  match s.splitOn "=" with
  | [k, v] => do let k ← k.toNat?; let v ← p v; pure (k, v)
  | _ => none

def parseClass (s : String) : Option ClassInfo :=
  match s.splitOn "/" with
  | [k, inst] => do
      let k ← parseKind k
      let inst ← parseList (parsePair parseNat) inst
      pure { kind := k, dictInst := inst, dictCls := [] }
  | _ => none

def parseCt (s : String) : Option ClassTable :=
  if s = "-" then some [] else (s.splitOn ";").mapM parseClass

def parseObj (s : String) : Option Obj :=
  match s.splitOn "/" with
  | [c, m, items, attrs] => do
      let c ← c.toNat?
      let m ← parseBool m
      let items ← parseList parseVal items
      let attrs ← parseList (parsePair parseVal) attrs
      pure { cls := c, items := items, attrs := attrs, mutable := m }
  | _ => none

def parseHeap (s : String) : Option (List Obj) :=
  if s = "-" then some [] else (s.splitOn ";").mapM parseObj

def heapFn (l : List Obj) : Oid → Option Obj := fun y => l[y]?

/-- insertion sort of an attribute list by name (names are unique) -/
def insertAttr (p : Name × Val) : List (Name × Val) → List (Name × Val)
  | [] => [p]
  | q :: r => if p.1 < q.1 then p :: q :: r else if p.1 = q.1 then q :: r else q :: insertAttr p r

def sortAttrs (l : List (Name × Val)) : List (Name × Val) := l.foldr insertAttr []

/-- Depth-first order of the objects allocated at or after `n0` reachable from `v`. -/
def visit (objs : Oid → Option Obj) (n0 : Nat) : Nat → List Oid → Val → List Oid
  | _, seen, .atom _ => seen
  | 0, seen, .ref _ => seen
  | f + 1, seen, .ref x =>
    if x < n0 then seen
    else if seen.contains x then seen
    else match objs x with
      | none => seen ++ [x]
      | some o =>
        (o.items ++ (sortAttrs o.attrs).map (·.2)).foldl (visit objs n0 f) (seen ++ [x])

def indexOf (x : Oid) : List Oid → Nat → Option Nat
  | [], _ => none
  | y :: r, i => if y = x then some i else indexOf x r (i + 1)

def showRef (objs : Oid → Option Obj) (n0 : Nat) (order : List Oid) : Val → String
  | .atom a => "a" ++ toString a
  | .ref x =>
    if x < n0 then "o" ++ toString x
    else match objs x, indexOf x order 0 with
      | some _, some i => "n" ++ toString i
      | _, _ => "u" ++ toString x

def showObj (sv : Val → String) (o : Obj) : String :=
  toString o.cls ++ "/" ++ showBool o.mutable ++ "/" ++ showList sv o.items ++ "/" ++
    showList (fun (p : Name × Val) => toString p.1 ++ "=" ++ sv p.2) (sortAttrs o.attrs)

def graphDump (objs : Oid → Option Obj) (n0 fuel : Nat) (roots : List Val) : String :=
  let order := roots.foldl (visit objs n0 fuel) []
  let sv := showRef objs n0 order
  "|".intercalate (showList sv roots :: order.map (fun x =>
    match objs x with
    | some o => showObj sv o
    | none => "undefined"))

/-- Identity-free nested term; objects below `n0` are printed as `o<oid>`. -/
def treeDump (objs : Oid → Option Obj) (n0 : Nat) : Nat → Val → String
  | _, .atom a => "a" ++ toString a
  | 0, .ref x => "deep" ++ toString x
  | f + 1, .ref x =>
    if x < n0 then "o" ++ toString x
    else match objs x with
      | none => "u" ++ toString x
      | some o => "<" ++ showObj (treeDump objs n0 f) o ++ ">"

def parseKw (s : String) : Option (List (Name × Int)) := parseList (parsePair parseInt) s

def showKw (l : List (Name × Int)) : String :=
  showList (fun (p : Name × Int) => toString p.1 ++ "=" ++ toString p.2) l

def handle : List String → String
  | ["clone", cts, hs, root, ks] =>
    match (do let ct ← parseCt cts; let h ← parseHeap hs; let v ← parseVal root; let k ← ks.toNat?
              pure (ct, h, v, k)) with
    | some (ct, h, v, k) =>
      let fuel := h.length + 2
      match cloneChain ct fuel k (heapFn h) h.length v with
      | some (objs, next, vs) => graphDump objs h.length (next + 2) vs
      | none => "fail"
    | none => "bad-op"
  | ["pickle", cts, hs, root, target] =>
    match (do let ct ← parseCt cts; let h ← parseHeap hs; let v ← parseVal root
              let same ← (if target = "same" then some true else if target = "empty" then some false else none)
              pure (ct, h, v, same)) with
    | some (ct, h, v, same) =>
      let fuel := h.length + 2
      let (objs0, n0) : (Oid → Option Obj) × Nat := if same then (heapFn h, h.length) else (fun _ => none, 0)
      match pickleRoundTrip ct fuel (heapFn h) v objs0 n0 with
      | some (objs, next, v') => treeDump objs n0 (next + 2) v'
      | none => "fail"
    | none => "bad-op"
  | ["create", cts, cs, items, counts] =>
    match (do let ct ← parseCt cts; let c ← cs.toNat?; let it ← parseList parseVal items
              let k ← counts.toNat?; pure (ct, c, it, k)) with
    | some (ct, c, it, k) =>
      let step := fun (acc : Option (State × List Val)) (_ : Nat) =>
        match acc with
        | none => none
        | some (st, roots) =>
          match create ct st c it with
          | none => none
          | some (st', x) => some (st', roots ++ [Val.ref x])
      match (List.range k).foldl step (some ({ objs := fun _ => none, next := 0, memo := [] }, [])) with
      | some (st, roots) => graphDump st.objs 0 (st.next + 2) roots
      | none => "fail"
    | none => "bad-op"
  | ["createclone", cts, cs, items] =>
    match (do let ct ← parseCt cts; let c ← cs.toNat?; let it ← parseList parseVal items
              pure (ct, c, it)) with
    | some (ct, c, it) =>
      match create ct { objs := fun _ => none, next := 0, memo := [] } c it with
      | none => "fail"
      | some (st, x) =>
        match clone ct (ct.length + 3) st.objs st.next (Val.ref x) with
        | some (objs, next, v') => graphDump objs st.next (next + 2) [v']
        | none => "fail"
    | none => "bad-op"
  | ["tb", args, kw, ndec, cargs, ckw] =>
    match (do let a ← parseList parseInt args; let k ← parseKw kw; let n ← ndec.toNat?
              let ca ← parseList parseInt cargs; let ck ← parseKw ckw; pure (a, k, n, ca, ck)) with
    | some (a, k, n, ca, ck) =>
      -- the registered function records what it is called with; decorator `i` tags its result
      let apply := fun (f : List Nat) (xs : List Int) (kws : List (Name × Int)) =>
        showList toString xs ++ " " ++ showKw kws ++ " " ++ showList toString f
      let tb : List (Name × Partial (List Nat) Int) := register [] 7 [] a k
      let ds : List (List Nat → List Nat) := (List.range n).map (fun i => fun f => f ++ [i + 1])
      match (decorate tb 7 ds).bind (fun tb' => call apply tb' 7 ca ck) with
      | some s => s
      | none => "fail"
    | none => "bad-op"
  | _ => "bad-op"

end DriverC16
