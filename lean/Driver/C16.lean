import Driver.Proto
/-! Protocol handler for C16 (stub until the model is built). -/
namespace DriverC16

def handle : List String → String
  | _ => "bad-op"

end DriverC16
