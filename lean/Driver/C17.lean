import DeapModel.Core.Resume
import DeapModel.Core.Migration
import Driver.Proto
/-! Protocol handler for C17 (checkpoint algebra, order-preserving parallel map). -/
namespace DriverC17
open Proto Resume Migration

/-- The mapped function of the `pmap` op. -/
def f (x : Int) : Int := 3 * x + 1

def parsePair (s : String) : Option (Int × Int) :=
  match s.splitOn "," with
  | [a, b] => do let x ← parseInt a; let y ← parseInt b; pure (x, y)
  | _ => none

def showPair (p : Int × Int) : String := toString p.1 ++ "," ++ toString p.2

def parseDrop (s : String) : Option Bool :=
  if s = "0" then some false else if s = "1" then some true else none

def parseInd (s : String) : Option (Nat × Nat) :=
  match s.splitOn "." with
  | [a, b] => do let x ← parseNat a; let y ← parseNat b; pure (x, y)
  | _ => none

/-- demes: `;`-separated lists (`-` = an empty deme), `.` = no deme at all -/
def parseDemes (s : String) : Option (List (List (Nat × Nat))) :=
  if s = "." then some [] else (s.splitOn ";").mapM (parseList parseInd)

def showDemes (l : List (List (Nat × Nat))) : String :=
  if l.isEmpty then "." else ";".intercalate (l.map (showList (fun x => toString x.2)))

def handle : List String → String
  | ["pmap", xs, sched] =>
    match (do let l ← parseList parseInt xs; let sc ← parseList parseNat sched; pure (l, sc)) with
    | some (l, sc) => showOpt (showList toString) (pmap f l sc)
    | none => "bad-op"
  | ["resume", ns, ks, s0, ds] =>
    match (do let n ← parseNat ns; let k ← parseNat ks; let s ← parsePair s0
              let d ← parseDrop ds; if k ≤ n then pure (n, k, s, d) else none) with
    | some (n, k, s, d) =>
      let r := toyRun d
      showPair (run r n s) ++ " " ++ showOpt showPair (resumeFrom r k n s)
    | none => "bad-op"
  | ["hresume", us, ns, ks, vs, hs, h0s] =>
    -- hidden-state toy: uninterrupted run, kill/new-process resume (hidden = h0), second run, same-process restore
    match (do let u ← parseDrop us; let n ← parseNat ns; let k ← parseNat ks; let v ← parseInt vs
              let h ← parseDrop hs; let h0 ← parseDrop h0s; if k ≤ n then pure (u, n, k, v, h, h0) else none) with
    | some (u, n, k, v, h, h0) =>
      let r := toyHidden u
      let sh := fun (p : Int × Bool) => toString p.1 ++ "," ++ showBool p.2
      sh (hrun r n (v, h)) ++ " " ++ showOpt sh (hresumeFrom r h0 k n (v, h)) ++ " " ++ sh (hrerun r n v h) ++ " " ++
        showOpt sh (hrestoreSame r k n (v, h))
    | none => "bad-op"
  | ["mig", ps, es, is, ma] =>
    -- individuals are `key.oid`; emigrants / immigrants are the recorded results of the selection / replacement calls
    match (do let p ← parseDemes ps; let e ← parseDemes es; let i ← parseDemes is
              let m ← (if ma = "none" then some none else (parseList parseNat ma).map some); pure (p, e, i, m)) with
    | some (p, e, i, m) =>
      showOpt showDemes (migRingWith (fun x : Nat × Nat => x.1) p e i m)
    | none => "bad-op"
  | _ => "bad-op"

end DriverC17
