import DeapModel.Core.Resume
import Driver.Proto
/-! Protocol handler for C17 (checkpoint algebra, order-preserving parallel map). -/
namespace DriverC17
open Proto Resume

/-- The mapped function of the `pmap` op. -/
def f (x : Int) : Int := 3 * x + 1

def parsePair (s : String) : Option (Int × Int) :=
  match s.splitOn "," with
  | [a, b] => do let x ← parseInt a; let y ← parseInt b; pure (x, y)
  | _ => none

def showPair (p : Int × Int) : String := toString p.1 ++ "," ++ toString p.2

def parseDrop (s : String) : Option Bool :=
  if s = "0" then some false else if s = "1" then some true else none

def handle : List String → String
  | ["pmap", xs, sched] =>
    match (do let l ← parseList parseInt xs; let sc ← parseList parseNat sched; pure (l, sc)) with
    | some (l, sc) => showOpt (showList toString) (pmap f l sc)
    | none => "bad-op"
  | ["resume", ns, ks, s0, ds] =>
    match (do let n ← parseNat ns; let k ← parseNat ks; let s ← parsePair s0
              let d ← parseDrop ds; if k ≤ n then pure (n, k, s, d) else none) with
    | some (n, k, s, d) =>
      let r := toyRun d
      showPair (run r n s) ++ " " ++ showOpt showPair (resumeFrom r k n s)
    | none => "bad-op"
  | _ => "bad-op"

end DriverC17
