import Driver.Proto
/-! Protocol handler for C17 (stub until the model is built). -/
namespace DriverC17

def handle : List String → String
  | _ => "bad-op"

end DriverC17
