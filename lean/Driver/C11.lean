import DeapModel.Core.GpTree
import Driver.Proto
/-!
Protocol handler for C11 (GP trees).

node    `name:ret:a.b.c:kind:text`   (kind p|t|e; args / text may be empty)
nodes   comma-separated nodes, `-` = empty list
pset    six tokens: `<sub> <prims> <terms> <ret> <terms_count> <prims_count>`
        sub   = `a.b,a.b,…` all pairs with issubclass(a, b)
        pools = `τ=nodes;τ=nodes;…` (`τ=` empty list), `-` = empty dict
tape    comma-separated draws `r<bits>` | `i<a>.<b>.<x>` | `g<a>.<b>.<x>` | `c<n>.<i>`
-/
namespace DriverC11
open Proto GpTree

def parseKind : String → Option Kind
  | "p" => some .prim
  | "t" => some .term
  | "e" => some .eph
  | _ => none

def showKind : Kind → String
  | .prim => "p"
  | .term => "t"
  | .eph => "e"

def parseDots {β : Type} (p : String → Option β) (s : String) : Option (List β) :=
  if s = "" then some [] else (s.splitOn ".").mapM p

def parseNode (s : String) : Option Prim :=
  match s.splitOn ":" with
  | [name, ret, args, kind, text] => do
    let r ← parseNat ret
    let a ← parseDots parseNat args
    let k ← parseKind kind
    if name = "" then none else some ⟨name, r, a, k, text⟩
  | _ => none

def showNode (p : Prim) : String :=
  p.name ++ ":" ++ toString p.ret ++ ":" ++ ".".intercalate (p.args.map toString) ++ ":" ++ showKind p.kind ++ ":" ++ p.text

def parseNodes (s : String) : Option (List Prim) := parseList parseNode s
def showNodes (l : List Prim) : String := showList showNode l

def parsePool (s : String) : Option (List (Nat × List Prim)) :=
  if s = "-" then some [] else
  (s.splitOn ";").mapM (fun e =>
    match e.splitOn "=" with
    | [t, ns] => do
      let τ ← parseNat t
      let l ← if ns = "" then some [] else parseNodes ns
      some (τ, l)
    | _ => none)

def parseSub (s : String) : Option (List (Nat × Nat)) :=
  parseList (fun e => match e.splitOn "." with
    | [a, b] => do let x ← parseNat a; let y ← parseNat b; some (x, y)
    | _ => none) s

def mkSub (pairs : List (Nat × Nat)) : Nat → Nat → Bool := fun a b => pairs.contains (a, b)

def parsePset (sub prims terms ret tc pc : String) : Option Pset := do
  let sp ← parseSub sub
  let pr ← parsePool prims
  let te ← parsePool terms
  let r ← parseNat ret
  let t ← parseNat tc
  let p ← parseNat pc
  some ⟨mkSub sp, dictGet pr, dictGet te, r, t, p⟩

def parseDraw (s : String) : Option Draw :=
  let body := (s.drop 1).toString
  match (s.take 1).toString with
  | "r" => body.toNat?.map (fun n => Draw.rnd (Float.ofBits (UInt64.ofNat n)))
  | "i" => match body.splitOn "." with
    | [a, b, x] => do let a ← parseInt a; let b ← parseInt b; let x ← parseInt x; some (.randint a b x)
    | _ => none
  | "g" => match body.splitOn "." with
    | [a, b, x] => do let a ← parseNat a; let b ← parseNat b; let x ← parseNat x; some (.randrange a b x)
    | _ => none
  | "c" => match body.splitOn "." with
    | [n, i] => do let n ← parseNat n; let i ← parseNat i; some (.choice n i)
    | _ => none
  | _ => none

def parseTape (s : String) : Option Tape := parseList parseDraw s

def parseMode : String → Option (Option GenMode)
  | "full" => some (some .full)
  | "grow" => some (some .grow)
  | "half" => some none
  | _ => none

def runGen (m : Option GenMode) (ps : Pset) (mn mx τ : Nat) (tp : Tape) : R (List Prim × Tape) :=
  match m with
  | some .full => genFull ps mn mx τ tp
  | some .grow => genGrow ps mn mx τ tp
  | none => genHalfAndHalf ps mn mx τ tp

/-- every fault (exception of the code, exhausted / ill-typed tape) answers `none` -/
def show1 : R (List Prim × Tape) → String
  | .ok (l, tp) => showNodes l ++ " " ++ toString tp.length
  | .error _ => "none"

def show2 : R (List Prim × List Prim × Tape) → String
  | .ok (a, b, tp) => showNodes a ++ " " ++ showNodes b ++ " " ++ toString tp.length
  | .error _ => "none"

def showMany : R (List (List Prim) × Tape) → String
  | .ok (ls, tp) => " ".intercalate (ls.map showNodes) ++ " " ++ toString tp.length
  | .error _ => "none"

def lift1 : R (List Prim × Tape) → R (List (List Prim) × Tape)
  | .ok (l, tp) => .ok ([l], tp)
  | .error e => .error e
def lift2 : R (List Prim × List Prim × Tape) → R (List (List Prim) × Tape)
  | .ok (a, b, tp) => .ok ([a, b], tp)
  | .error e => .error e

/-- an operator line (without the tape), as a function of the argument trees and the tape -/
def parseOp : List String → Option (List (List Prim) × (List (List Prim) → Tape → R (List (List Prim) × Tape)))
  | ["cx", a, b] => do
    let a ← parseNodes a; let b ← parseNodes b
    some ([a, b], fun args tp => match args with | [x, y] => lift2 (cxOnePoint x y tp) | _ => .error .raised)
  | ["cxlb", a, b, pb] => do
    let a ← parseNodes a; let b ← parseNodes b; let pb ← parseFloat pb
    some ([a, b], fun args tp => match args with | [x, y] => lift2 (cxOnePointLeafBiased x y pb tp) | _ => .error .raised)
  | ["mutu", s, p, t, r, tc, pc, ind, mode, mn, mx] => do
    let ps ← parsePset s p t r tc pc
    let ind ← parseNodes ind; let m ← parseMode mode; let mn ← parseNat mn; let mx ← parseNat mx
    some ([ind], fun args tp => match args with
      | [x] => lift1 (mutUniform x (fun τ tp => runGen m ps mn mx τ tp) tp) | _ => .error .raised)
  | ["mutn", s, p, t, r, tc, pc, ind] => do
    let ps ← parsePset s p t r tc pc
    let ind ← parseNodes ind
    some ([ind], fun args tp => match args with | [x] => lift1 (mutNodeReplacement x ps tp) | _ => .error .raised)
  | ["mute", ind, mode] => do
    let ind ← parseNodes ind
    let one ← if mode = "one" then some true else if mode = "all" then some false else none
    some ([ind], fun args tp => match args with | [x] => lift1 (mutEphemeral x one tp) | _ => .error .raised)
  | ["muti", s, p, t, r, tc, pc, ind] => do
    let ps ← parsePset s p t r tc pc
    let ind ← parseNodes ind
    some ([ind], fun args tp => match args with | [x] => lift1 (mutInsert x ps tp) | _ => .error .raised)
  | ["muts", ind] => do
    let ind ← parseNodes ind
    some ([ind], fun args tp => match args with | [x] => lift1 (mutShrink x tp) | _ => .error .raised)
  | _ => none

def parseKey : String → Option (List Prim → Option Nat)
  | "len" => some (fun l => some l.length)
  | "height" => some heightL
  | _ => none

def dropLast (l : List String) : Option (List String × String) :=
  match l.reverse with
  | [] => none
  | x :: r => some (r.reverse, x)

def handle : List String → String
  | ["gen", s, p, t, r, tc, pc, mode, mn, mx, ty, tape] =>
    match (do let ps ← parsePset s p t r tc pc; let m ← parseMode mode; let mn ← parseNat mn
              let mx ← parseNat mx; let τ ← parseNat ty; let tp ← parseTape tape; pure (ps, m, mn, mx, τ, tp)) with
    | some (ps, m, mn, mx, τ, tp) => show1 (runGen m ps mn mx τ tp)
    | none => "bad-op"
  | ["search", ind, i] =>
    match (do let l ← parseNodes ind; let i ← parseNat i; pure (l, i)) with
    | some (l, i) => match searchSubtree l i with
      | some (b, e) => toString b ++ " " ++ toString e
      | none => "none"
    | none => "bad-op"
  | ["height", ind] =>
    match parseNodes ind with
    | some l => showOpt toString (heightL l)
    | none => "bad-op"
  | ["root", ind] =>
    match parseNodes ind with
    | some l => showOpt showNode (rootL l)
    | none => "bad-op"
  | ["check", sub, slot, ind] =>
    -- completeness and typing of a node list (the list-level checkers the theorems speak about)
    match (do let sp ← parseSub sub; let s ← parseNat slot; let l ← parseNodes ind; pure (sp, s, l)) with
    | some (sp, s, l) => showBool (complete l) ++ showBool (typed (mkSub sp) [s] l)
    | none => "bad-op"
  | ["setslice", ind, b, e, val] =>
    match (do let l ← parseNodes ind; let b ← parseNat b; let e ← parseNat e; let v ← parseNodes val; pure (l, b, e, v)) with
    | some (l, b, e, v) => showOpt showNodes (setSlice l b e v)
    | none => "bad-op"
  | ["setitem", ind, i, val] =>
    match (do let l ← parseNodes ind; let i ← parseNat i; let v ← parseNode val; pure (l, i, v)) with
    | some (l, i, v) => showOpt showNodes (setItem l i v)
    | none => "bad-op"
  | ["add", sub, nodes, τs] =>
    -- `_add` of the nodes in order, then the pools of the listed types
    match (do let sp ← parseSub sub; let l ← parseNodes nodes; let ts ← parseList parseNat τs; pure (sp, l, ts)) with
    | some (sp, l, ts) =>
      let ds := l.foldl (addPrim (mkSub sp)) ⟨[], []⟩
      ";".intercalate (ts.map (fun τ => toString τ ++ "=" ++ ",".intercalate ((dictGet ds.prims τ).map (·.name))
        ++ "/" ++ ",".intercalate ((dictGet ds.terms τ).map (·.name))))
    | none => "bad-op"
  | "slim" :: key :: maxv :: npos :: rest =>
    -- npos = how many of the operator's trees are passed positionally
    match (do
      let k ← parseKey key; let m ← parseNat maxv; let np ← parseNat npos
      let (opToks, tape) ← dropLast rest
      let (args, op) ← parseOp opToks
      let tp ← parseTape tape
      pure (k, m, np, args, op, tp)) with
    | some (k, m, np, args, op, tp) => showMany (staticLimit k m np op args tp)
    | none => "bad-op"
  | toks =>
    match (do
      let (opToks, tape) ← dropLast toks
      let (args, op) ← parseOp opToks
      let tp ← parseTape tape
      pure (args, op, tp)) with
    | some (args, op, tp) => showMany (op args tp)
    | none => "bad-op"

end DriverC11
