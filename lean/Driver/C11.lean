import Driver.Proto
/-! Protocol handler for C11 (stub until the model is built). -/
namespace DriverC11

def handle : List String → String
  | _ => "bad-op"

end DriverC11
