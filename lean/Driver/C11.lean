import DeapModel.Core.GpTree
import DeapModel.Core.GpSemantic
import DeapModel.Core.GpPset
import Driver.Proto
/-!
Protocol handler for C11 (GP trees).

node    `name:ret:a.b.c:kind:text`   (kind p|t|e; args / text may be empty)
nodes   comma-separated nodes, `-` = empty list
pset    six tokens: `<sub> <prims> <terms> <ret> <terms_count> <prims_count>`
        sub   = `a.b,a.b,…` all pairs with issubclass(a, b)
        pools = `τ=nodes;τ=nodes;…` (`τ=` empty list), `-` = empty dict
tape    comma-separated draws `r<bits>` | `i<a>.<b>.<x>` | `g<a>.<b>.<x>` | `c<n>.<i>`
semmap  `name=node;name=node;…` (`-` = none): the entries of `pset.mapping` under the names `lf`, `mul`, `add`, `sub`
decls   `;`-separated declarations, fields separated by `|` (see `parseDecl`)
-/
namespace DriverC11
open Proto GpTree

def parseKind : String → Option Kind
  | "p" => some .prim
  | "t" => some .term
  | "e" => some .eph
  | _ => none

def showKind : Kind → String
  | .prim => "p"
  | .term => "t"
  | .eph => "e"

def parseDots {β : Type} (p : String → Option β) (s : String) : Option (List β) :=
  if s = "" then some [] else (s.splitOn ".").mapM p

def parseNode (s : String) : Option Prim :=
  match s.splitOn ":" with
  | [name, ret, args, kind, text] => do
    let r ← parseNat ret
    let a ← parseDots parseNat args
    let k ← parseKind kind
    if name = "" then none else some ⟨name, r, a, k, text⟩
  | _ => none

def showNode (p : Prim) : String :=
  p.name ++ ":" ++ toString p.ret ++ ":" ++ ".".intercalate (p.args.map toString) ++ ":" ++ showKind p.kind ++ ":" ++ p.text

def parseNodes (s : String) : Option (List Prim) := parseList parseNode s
def showNodes (l : List Prim) : String := showList showNode l

def parsePool (s : String) : Option (List (Nat × List Prim)) :=
  if s = "-" then some [] else
  (s.splitOn ";").mapM (fun e =>
    match e.splitOn "=" with
    | [t, ns] => do
      let τ ← parseNat t
      let l ← if ns = "" then some [] else parseNodes ns
      some (τ, l)
    | _ => none)

def parseSub (s : String) : Option (List (Nat × Nat)) :=
  parseList (fun e => match e.splitOn "." with
    | [a, b] => do let x ← parseNat a; let y ← parseNat b; some (x, y)
    | _ => none) s

def mkSub (pairs : List (Nat × Nat)) : Nat → Nat → Bool := fun a b => pairs.contains (a, b)

def parsePset (sub prims terms ret tc pc : String) : Option Pset := do
  let sp ← parseSub sub
  let pr ← parsePool prims
  let te ← parsePool terms
  let r ← parseNat ret
  let t ← parseNat tc
  let p ← parseNat pc
  some ⟨mkSub sp, dictGet pr, dictGet te, r, t, p⟩

def parseDraw (s : String) : Option Draw :=
  let body := (s.drop 1).toString
  match (s.take 1).toString with
  | "r" => body.toNat?.map (fun n => Draw.rnd (Float.ofBits (UInt64.ofNat n)))
  | "i" => match body.splitOn "." with
    | [a, b, x] => do let a ← parseInt a; let b ← parseInt b; let x ← parseInt x; some (.randint a b x)
    | _ => none
  | "g" => match body.splitOn "." with
    | [a, b, x] => do let a ← parseNat a; let b ← parseNat b; let x ← parseNat x; some (.randrange a b x)
    | _ => none
  | "c" => match body.splitOn "." with
    | [n, i] => do let n ← parseNat n; let i ← parseNat i; some (.choice n i)
    | _ => none
  | _ => none

def parseTape (s : String) : Option Tape := parseList parseDraw s

def parseMode : String → Option (Option GenMode)
  | "full" => some (some .full)
  | "grow" => some (some .grow)
  | "half" => some none
  | _ => none

/-- every fault (exception of the code, exhausted / ill-typed tape) answers `none` -/
def show1 : R (List Prim × Tape) → String
  | .ok (l, tp) => showNodes l ++ " " ++ toString tp.length
  | .error _ => "none"

def show2 : R (List Prim × List Prim × Tape) → String
  | .ok (a, b, tp) => showNodes a ++ " " ++ showNodes b ++ " " ++ toString tp.length
  | .error _ => "none"

def showMany : R (List (List Prim) × Tape) → String
  | .ok (ls, tp) => " ".intercalate (ls.map showNodes) ++ " " ++ toString tp.length
  | .error _ => "none"

def parseOne (s : String) : Option Bool :=
  if s = "one" then some true else if s = "all" then some false else none

/-- an operator line (without the tape), as a function of the argument trees and the tape -/
def parseOp : List String → Option (List (List Prim) × (List (List Prim) → Tape → R (List (List Prim) × Tape)))
  | ["cx", a, b] => do
    let a ← parseNodes a; let b ← parseNodes b
    some ([a, b], fun args tp => match args with | [x, y] => lift2 (cxOnePoint x y tp) | _ => .error .raised)
  | ["cxlb", a, b, pb] => do
    let a ← parseNodes a; let b ← parseNodes b; let pb ← parseFloat pb
    some ([a, b], fun args tp => match args with | [x, y] => lift2 (cxOnePointLeafBiased x y pb tp) | _ => .error .raised)
  | ["mutu", s, p, t, r, tc, pc, ind, mode, mn, mx] => do
    let ps ← parsePset s p t r tc pc
    let ind ← parseNodes ind; let m ← parseMode mode; let mn ← parseNat mn; let mx ← parseNat mx
    some ([ind], fun args tp => match args with
      | [x] => lift1 (mutUniform x (fun τ tp => runGen m ps mn mx τ tp) tp) | _ => .error .raised)
  | ["mutn", s, p, t, r, tc, pc, ind] => do
    let ps ← parsePset s p t r tc pc
    let ind ← parseNodes ind
    some ([ind], fun args tp => match args with | [x] => lift1 (mutNodeReplacement x ps tp) | _ => .error .raised)
  | ["mute", ind, mode] => do
    let ind ← parseNodes ind
    let one ← parseOne mode
    some ([ind], fun args tp => match args with | [x] => lift1 (mutEphemeral x one tp) | _ => .error .raised)
  | ["muti", s, p, t, r, tc, pc, ind] => do
    let ps ← parsePset s p t r tc pc
    let ind ← parseNodes ind
    some ([ind], fun args tp => match args with | [x] => lift1 (mutInsert x ps tp) | _ => .error .raised)
  | ["muts", ind] => do
    let ind ← parseNodes ind
    some ([ind], fun args tp => match args with | [x] => lift1 (mutShrink x tp) | _ => .error .raised)
  | _ => none

def parseKey : String → Option (List Prim → Option Nat)
  | "len" => some (fun l => some l.length)
  | "height" => some heightL
  | _ => none

def showSpan : Option (Int × Int) → String
  | some (b, e) => toString b ++ " " ++ toString e
  | none => "none"

def showSpanC : Option (Int × Int) → String
  | some (b, e) => toString b ++ ":" ++ toString e
  | none => "none"

/-- operator part of a history step: `cx|i|j`, `cxlb|i|j|<float>`, `mutu|i|<mode>|<min>|<max>`, `mutn|i`,
`mute|i|one` / `all`, `muti|i`, `muts|i` -/
def parseStepOp : List String → Option Op
  | ["cx", i, j] => do let i ← parseNat i; let j ← parseNat j; some (.cx i j)
  | ["cxlb", i, j, pb] => do let i ← parseNat i; let j ← parseNat j; let pb ← parseFloat pb; some (.cxlb i j pb)
  | ["mutu", i, m, mn, mx] => do
    let i ← parseNat i; let m ← parseMode m; let mn ← parseNat mn; let mx ← parseNat mx; some (.mutu i m mn mx)
  | ["mutn", i] => do let i ← parseNat i; some (.mutn i)
  | ["mute", i, mode] => do let i ← parseNat i; let one ← parseOne mode; some (.mute i one)
  | ["muti", i] => do let i ← parseNat i; some (.muti i)
  | ["muts", i] => do let i ← parseNat i; some (.muts i)
  | _ => none

/-- a history step, fields separated by `|`; an optional prefix `slim|<key>|<max>|<npos>|` wraps the operator by
`staticLimit`.  A crossover of a position with itself is malformed. -/
def parseStep (s : String) : Option Step :=
  match s.splitOn "|" with
  | "slim" :: key :: maxv :: npos :: rest => do
    let k ← parseKey key; let m ← parseNat maxv; let np ← parseNat npos
    let op ← parseStepOp rest
    if op.distinct then some ⟨op, some ⟨k, m, np⟩⟩ else none
  | toks => do
    let op ← parseStepOp toks
    if op.distinct then some ⟨op, none⟩ else none

def dropLast (l : List String) : Option (List String × String) :=
  match l.reverse with
  | [] => none
  | x :: r => some (r.reverse, x)


/-! ### geometric semantic operators, declaration histories -/

def parseSemMap (s : String) : Option (String → Option Prim) :=
  if s = "-" then some (fun _ => none) else do
  let l ← (s.splitOn ";").mapM (fun e =>
    match e.splitOn "=" with
    | [k, n] => do let p ← parseNode n; some (k, p)
    | _ => none)
  some (fun k => (l.find? (fun e => e.1 == k)).map (·.2))

/-- the text under which a float constant created by the operators travels: `F<bits>` (Python's `repr` of a double
is not modelled; the harness prints the value of such a node the same way) -/
def reprBits (x : Float) : String := "F" ++ toString x.toBits.toNat

def parseMs (s : String) : Option (Option Float) :=
  if s = "none" then some none else (parseFloat s).map some

def parseOptName (s : String) : Option (Option String) :=
  if s = "~" then some none else some (some s)

def parseTVal (s : String) : Option TVal :=
  match (s.take 1).toString, (s.drop 1).toString with
  | "i", r => r.toInt?.map TVal.int
  | "b", "1" => some (.bool true)
  | "b", "0" => some (.bool false)
  | "f", r => r.toNat?.map (fun n => TVal.flt (Float.ofBits (UInt64.ofNat n)))
  | "o", _ => some .other
  | _, _ => none

def parseKargs (s : String) : Option (List (String × String)) :=
  if s = "-" then some [] else
  (s.splitOn ",").mapM (fun e => match e.splitOn ">" with | [a, b] => some (a, b) | _ => none)

/-- `P|name|obj|args|ret`, `T|name or ~|obj|tval|str|repr|ret`, `E|name|func|ret`, `A|name|ins|ret`,
`R|old>new,old>new`, `p|name|obj|arity`, `t|name or ~|obj|tval|str|repr`, `e|name|func`, `rP|τ`, `rT|τ` -/
def parseDecl (s : String) : Option Decl :=
  match s.splitOn "|" with
  | ["P", name, obj, args, ret] => do
    let o ← parseNat obj; let a ← parseDots parseNat args; let r ← parseNat ret; some (.prim name o a r)
  | ["T", name, obj, v, st, rp, ret] => do
    let n ← parseOptName name; let o ← parseNat obj; let v ← parseTVal v; let r ← parseNat ret
    some (.term n o v st rp r)
  | ["E", name, f, ret] => do let f ← parseNat f; let r ← parseNat ret; some (.eph name f r)
  | ["A", name, ins, ret] => do let a ← parseDots parseNat ins; let r ← parseNat ret; some (.adf name a r)
  | ["R", kargs] => do let k ← parseKargs kargs; some (.rename k)
  | ["p", name, obj, arity] => do let o ← parseNat obj; let a ← parseNat arity; some (.uprim name o a)
  | ["t", name, obj, v, st, rp] => do
    let n ← parseOptName name; let o ← parseNat obj; let v ← parseTVal v; some (.uterm n o v st rp)
  | ["e", name, f] => do let f ← parseNat f; some (.ueph name f)
  | ["rP", t] => do let t ← parseNat t; some (.touchP t)
  | ["rT", t] => do let t ← parseNat t; some (.touchT t)
  | _ => none

def showPool (d : List (Nat × List Prim)) : String :=
  if d.isEmpty then "-" else ";".intercalate (d.map (fun e => toString e.1 ++ "=" ++ ",".intercalate (e.2.map showNode)))

/-- the whole state: pools (in insertion order of the keys), mapping, context names, arguments, counters, ratio -/
def showState (st : PState) : String :=
  showPool st.dicts.prims ++ " " ++ showPool st.dicts.terms ++ " " ++
  (if st.mapping.isEmpty then "-" else ";".intercalate (st.mapping.map (fun e => e.1 ++ "=" ++ showNode e.2))) ++ " " ++
  (if st.context.isEmpty then "-" else ",".intercalate (st.context.map (fun e => e.1 ++ "=" ++ toString e.2))) ++ " " ++
  (if st.arguments.isEmpty then "-" else ",".intercalate st.arguments) ++ " " ++
  toString st.termsCount ++ " " ++ toString st.primsCount ++ " " ++ showOpt showFloat st.terminalRatio

def handle : List String → String
  | ["gen", s, p, t, r, tc, pc, mode, mn, mx, ty, tape] =>
    match (do let ps ← parsePset s p t r tc pc; let m ← parseMode mode; let mn ← parseNat mn
              let mx ← parseNat mx; let τ ← parseNat ty; let tp ← parseTape tape; pure (ps, m, mn, mx, τ, tp)) with
    | some (ps, m, mn, mx, τ, tp) => show1 (runGen m ps mn mx τ tp)
    | none =>
      if mode = "ramped" then
        match (do let ps ← parsePset s p t r tc pc; let mn ← parseNat mn
                  let mx ← parseNat mx; let τ ← parseNat ty; let tp ← parseTape tape; pure (ps, mn, mx, τ, tp)) with
        | some (ps, mn, mx, τ, tp) => show1 (genRamped ps mn mx τ tp)
        | none => "bad-op"
      else "bad-op"
  | ["search", ind, i] =>
    -- any Python int index (negative ones as a list is indexed)
    match (do let l ← parseNodes ind; let i ← parseInt i; pure (l, i)) with
    | some (l, i) => showSpan (searchSubtreePy l i)
    | none => "bad-op"
  | ["spans", ind] =>
    -- searchSubtree(i) for every i in range(-len, len), then the height
    match parseNodes ind with
    | some l =>
      let n : Int := (l.length : Int)
      let idx := (List.range (2 * l.length)).map (fun (k : Nat) => (k : Int) - n)
      ",".intercalate (idx.map (fun i => showSpanC (searchSubtreePy l i))) ++ " " ++ showOpt toString (heightL l)
    | none => "bad-op"
  | "hist" :: s :: p :: t :: r :: tc :: pc :: npop :: rest =>
    -- a whole history on one population: `<npop> <tree>… <nsteps> <step>… <tape>`
    match (do
      let ps ← parsePset s p t r tc pc
      let n ← parseNat npop
      if rest.length < n + 2 then none
      let pop ← (rest.take n).mapM parseNodes
      let rest := rest.drop n
      let k ← parseNat (rest.headD "")
      let rest := rest.drop 1
      if rest.length ≠ k + 1 then none
      let steps ← (rest.take k).mapM parseStep
      let tp ← parseTape ((rest.drop k).headD "")
      pure (ps, pop, steps, tp)) with
    | some (ps, pop, steps, tp) => showMany (runHistory ps steps pop tp)
    | none => "bad-op"
  | ["height", ind] =>
    match parseNodes ind with
    | some l => showOpt toString (heightL l)
    | none => "bad-op"
  | ["root", ind] =>
    match parseNodes ind with
    | some l => showOpt showNode (rootL l)
    | none => "bad-op"
  | ["check", sub, slot, ind] =>
    -- completeness and typing of a node list (the list-level checkers the theorems speak about)
    match (do let sp ← parseSub sub; let s ← parseNat slot; let l ← parseNodes ind; pure (sp, s, l)) with
    | some (sp, s, l) => showBool (complete l) ++ showBool (typed (mkSub sp) [s] l)
    | none => "bad-op"
  | ["setslice", ind, b, e, val] =>
    match (do let l ← parseNodes ind; let b ← parseNat b; let e ← parseNat e; let v ← parseNodes val; pure (l, b, e, v)) with
    | some (l, b, e, v) => showOpt showNodes (setSlice l b e v)
    | none => "bad-op"
  | ["setitem", ind, i, val] =>
    match (do let l ← parseNodes ind; let i ← parseNat i; let v ← parseNode val; pure (l, i, v)) with
    | some (l, i, v) => showOpt showNodes (setItem l i v)
    | none => "bad-op"
  | ["add", sub, nodes, τs] =>
    -- `_add` of the nodes in order, then the pools of the listed types
    match (do let sp ← parseSub sub; let l ← parseNodes nodes; let ts ← parseList parseNat τs; pure (sp, l, ts)) with
    | some (sp, l, ts) =>
      let ds := l.foldl (addPrim (mkSub sp)) ⟨[], []⟩
      ";".intercalate (ts.map (fun τ => toString τ ++ "=" ++ ",".intercalate ((dictGet ds.prims τ).map (·.name))
        ++ "/" ++ ",".intercalate ((dictGet ds.terms τ).map (·.name))))
    | none => "bad-op"
  | ["msem", m, ind, s, p, t, r, tc, pc, mode, mn, mx, ms, tape] =>
    -- mutSemantic(ind, gen_func, pset, ms, min, max); the generator is called with the default type (`pset.ret`)
    match (do let mp ← parseSemMap m; let ind ← parseNodes ind; let ps ← parsePset s p t r tc pc; let md ← parseMode mode
              let mn ← parseNat mn; let mx ← parseNat mx; let ms ← parseMs ms; let tp ← parseTape tape
              pure (mp, ind, ps, md, mn, mx, ms, tp)) with
    | some (mp, ind, ps, md, mn, mx, ms, tp) =>
      show1 (mutSemantic mp reprBits ind (fun tp => runGen md ps mn mx ps.ret tp) ms tp)
    | none => "bad-op"
  | ["cxsem", m, a, b, s, p, t, r, tc, pc, mode, mn, mx, tape] =>
    match (do let mp ← parseSemMap m; let a ← parseNodes a; let b ← parseNodes b; let ps ← parsePset s p t r tc pc
              let md ← parseMode mode; let mn ← parseNat mn; let mx ← parseNat mx; let tp ← parseTape tape
              pure (mp, a, b, ps, md, mn, mx, tp)) with
    | some (mp, a, b, ps, md, mn, mx, tp) =>
      show2 (cxSemantic mp reprBits a b (fun tp => runGen md ps mn mx ps.ret tp) tp)
    | none => "bad-op"
  | ["decls", sub, untyped, ins, pre, ds] =>
    -- a declaration history from the constructor on: `untyped` = 1 for `PrimitiveSet(name, arity)` (`ins` = arity)
    match (do let sp ← parseSub sub; let u ← parseBool untyped
              let st0 ← (if u then (parseNat ins).map (fun n => PState.initU (mkSub sp) n (if pre = "~" then "" else pre))
                         else (if ins = "-" then some [] else parseDots parseNat ins).map (fun l => PState.init (mkSub sp) l (if pre = "~" then "" else pre)))
              let dl ← (if ds = "-" then some [] else (ds.splitOn ";").mapM parseDecl)
              pure (mkSub sp, st0, dl)) with
    | some (sb, st0, dl) => showOpt showState (runDecls sb st0 dl)
    | none => "bad-op"
  | "slim" :: key :: maxv :: npos :: rest =>
    -- npos = how many of the operator's trees are passed positionally
    match (do
      let k ← parseKey key; let m ← parseNat maxv; let np ← parseNat npos
      let (opToks, tape) ← dropLast rest
      let (args, op) ← parseOp opToks
      let tp ← parseTape tape
      pure (k, m, np, args, op, tp)) with
    | some (k, m, np, args, op, tp) => showMany (staticLimit k m np op args tp)
    | none => "bad-op"
  | toks =>
    match (do
      let (opToks, tape) ← dropLast toks
      let (args, op) ← parseOp opToks
      let tp ← parseTape tape
      pure (args, op, tp)) with
    | some (args, op, tp) => showMany (op args tp)
    | none => "bad-op"

end DriverC11
