import DeapModel.Core.VariationOps
import DeapModel.Core.History
import Driver.Proto
import Driver.C11
/-!
Protocol handler for C02 (variation).

    C02 and <pop> <heap> <cxpb> <mutpb> <draws> <script>
    C02 or  <pop> <heap> <lambda> <cxpb> <mutpb> <tape> <script>

* `pop`    comma list of oids (positions of the population; repeats allowed), `-` = empty
* `heap`   `;`-separated objects for the oids 0,1,…: `<genome>|<fit>`; genome = comma list of ints
           (`-` = empty), fit = `none` or a comma list of ints; `-` = no object
* `cxpb`, `mutpb`, every `random()` result: `f:<bits>` (IEEE replay of the comparison)
* `draws`  (and) comma list of `random()` results
* `tape`   (or) comma list of `r:<bits>` (random), `s:<i>:<j>` (sample → positions), `c:<i>` (choice)
* `script` `;`-separated recorded operator calls, in call order:
           `M/<a>/<b>/<ra>/<rb>/<obj a>/<obj b>/<obj ra>/<obj rb>`  mate called on oids a b, returned ra rb
           `U/<a>/<ra>/<obj a>/<obj ra>`                            mutate called on a, returned ra
           (`<obj x>` = `<genome>|<fit>` of object x right after the operator returned; a returned oid that is
           not an argument is an object the operator allocated.)  The scripted operator refuses (→ `bad-tape`)
           a call whose arguments differ from the record.

    C02 andc <fmt> <pop> <heap> <cxpb> <mutpb> <draws> <mate> <mlim> <mutate> <ulim> <optape>
    C02 orc  <fmt> <pop> <heap> <lambda> <cxpb> <mutpb> <tape> <mate> <mlim> <mutate> <ulim> <optape>

  the COMPOSED model: `varAnd` / `varOr` run end to end with the operator models of `Core/VariationOps.lean`
  (no script: the operators compute the genomes themselves from the operator tape).
* `fmt`     `i` integer genes; `f` float genes (`f:<bits>`, stored in the heap as bit patterns); `e` evolution-strategy
            individuals `<n>,<n float genes>,<strategy floats>`; `t` GP trees: a gene is a node token of the C11 protocol
            (`name:ret:a.b:kind:text`, stored in the heap as the number `encStr` of that text), `optape` is then the GP tape
            of the C11 protocol and six more tokens follow: the primitive set `<sub> <prims> <terms> <ret> <tc> <pc>`;
            `mate` is `gp.cxOnePoint` / `gp.cxOnePointLeafBiased/<termpb>`, `mutate` is `gp.mutUniform/<full|grow|half>/<min>/<max>`
            / `gp.mutNodeReplacement` / `gp.mutEphemeral/<one|all>` / `gp.mutInsert` / `gp.mutShrink`, a limit is `height/<max>`
* `mate`    `cxOnePoint` `cxTwoPoint` `cxTwoPoints` `cxUniform/<indpb>` `cxPartialyMatched`
            `cxUniformPartialyMatched/<indpb>` `cxOrdered` `cxMessyOnePoint` `cxESTwoPoint` `cxESTwoPoints` `cxBlend/<alpha>`
            `cxSimulatedBinary/<eta>` `cxSimulatedBinaryBounded/<eta>/<low>/<up>` `cxESBlend/<alpha>`
* `mutate`  `mutShuffleIndexes/<indpb>` `mutFlipBit/<indpb>` `mutUniformInt/<low>/<up>/<indpb>` `mutInversion`
            `mutGaussian/<mu>/<sigma>/<indpb>` `mutPolynomialBounded/<eta>/<low>/<up>/<indpb>` `mutESLogNormal/<c>/<indpb>`
            (a bound is `s<value>` = a number or `l<comma list>` = a sequence)
* `mlim`, `ulim`  `-` or `len/<max>` / `sum/<max>`: the operator is decorated with `gp.staticLimit(key, max)`
* `optape`  comma list of the operators' draws in call order: `r:f:<bits>` random(), `i:<int>` randint / randrange /
            element of sample / index of choice, `g:f:<bits>` gauss
  Answer: `off=<names> objs=< o <genome> <fit>…> par=<…> log=<events> rest=<unused operator draws>`; an object is named
  `p<oid>` (an input), `k<j>` (the j-th clone `toolbox.clone` made) or `x` (allocated by an operator); `bad-tape` when
  an operator call raised in the model or a tape does not fit.

    C02 hist <heap> <dm> <du> <init> <gens> <queries>

  a HISTORY of `varAnd` / `varOr` calls with operators decorated by one `tools.History()` (model `Core/History.lean`).
* `heap`    as above, an object is `<genome>|<fit>|<hidx>` (`hidx` = its `history_index`, `-` = no such attribute)
* `dm`, `du` `1` = `toolbox.decorate("mate" / "mutate", history.decorator)`
* `init`    `-` or the oids of a first `history.update(population)`
* `gens`    `#`-separated generations (`-` = none): `and@<pop>@<cxpb>@<mutpb>@<draws>@<script>@<evals>` /
            `or@<pop>@<lambda>@<cxpb>@<mutpb>@<tape>@<script>@<evals>`; `script` as for `and` / `or` with three-field objects (the `hidx` of an
            object that existed before the operator call is ignored: the model keeps its own; for an object the operator allocated it is what
            the object carried when the operator returned it); `evals` = `;`-separated `<oid>=<fit>` assigned AFTER the generation (`-` = none)
* `queries` `;`-separated `<root index>:<max_depth | inf>` for `getGenealogy` (`-` = none)
  Answer: per generation `off=<oids> objs=<obj;…> log=<events>` joined by ` | `, then ` index=<genealogy_index> tree=<k>t.t;… hist=<k:oid:obj>;…
  q=<k>p.p;…/…` (dict order; `recursion` when the recursion does not end within 5000 frames).

Answer: `off=<oids> cls=<f|i<k>…> objs=<obj;…> par=<obj;…> log=<events>`; `bad-tape` when the tape or
the script does not fit the model's run, `assert` for varOr's `cxpb + mutpb <= 1.0`, `bad-op` on
malformed input.
-/
namespace DriverC02
open Proto Variation

inductive Call where
  | mate (a b ra rb : Nat) (oa ob ora orb : Obj)
  | mutate (a ra : Nat) (oa ora : Obj)

structure Script where
  calls : List Call
  ok : Bool := true

def scripted : Ops Script where
  mate := fun t h n a b =>
    match t.ok, t.calls with
    | true, Call.mate a' b' ra rb oa ob ora orb :: rest =>
      if a = a' ∧ b = b' then
        ⟨⟨rest, true⟩, (((h.set a oa).set b ob).set ra ora).set rb orb, max n (max (ra + 1) (rb + 1)), ra, rb⟩
      else ⟨⟨rest, false⟩, h, n, a, b⟩
    | _, _ => ⟨⟨[], false⟩, h, n, a, b⟩
  mutate := fun t h n a =>
    match t.ok, t.calls with
    | true, Call.mutate a' ra oa ora :: rest =>
      if a = a' then ⟨⟨rest, true⟩, (h.set a oa).set ra ora, max n (ra + 1), ra⟩
      else ⟨⟨rest, false⟩, h, n, a⟩
    | _, _ => ⟨⟨[], false⟩, h, n, a⟩

def parseObj (s : String) : Option Obj :=
  match s.splitOn "|" with
  | [g, f] => do
    let genome ← parseList parseInt g
    let fit ← if f = "none" then some none else (parseList parseInt f).map some
    some ⟨genome, fit, none⟩
  | _ => none

def parseHeap (s : String) : Option (List Obj) :=
  if s = "-" then some [] else (s.splitOn ";").mapM parseObj

def parseCall (s : String) : Option Call :=
  match s.splitOn "/" with
  | ["M", a, b, ra, rb, oa, ob, ora, orb] => do
    some (Call.mate (← parseNat a) (← parseNat b) (← parseNat ra) (← parseNat rb)
      (← parseObj oa) (← parseObj ob) (← parseObj ora) (← parseObj orb))
  | ["U", a, ra, oa, ora] => do
    some (Call.mutate (← parseNat a) (← parseNat ra) (← parseObj oa) (← parseObj ora))
  | _ => none

def parseScript (s : String) : Option (List Call) :=
  if s = "-" then some [] else (s.splitOn ";").mapM parseCall

def parseDraw (s : String) : Option Draw :=
  match s.splitOn ":" with
  | ["r", "f", b] => (parseFloat ("f:" ++ b)).map Draw.rnd
  | ["s", i, j] => do some (Draw.sample (← parseNat i) (← parseNat j))
  | ["c", i] => (parseNat i).map Draw.choice
  | _ => none

def showObj (o : Obj) : String :=
  showList toString o.genome ++ "|" ++ (match o.fit with | none => "none" | some f => showList toString f)

def showEv : Ev → String
  | .clone a b => "c" ++ toString a ++ ">" ++ toString b
  | .mate a b => "m" ++ toString a ++ "&" ++ toString b
  | .mutate a => "u" ++ toString a

def mkState (objs : List Obj) : St :=
  { heap := fun o => (objs[o]?).getD ⟨[], none, none⟩, next := objs.length }

def showRes (pop : List Nat) (n0 : Nat) (r : Res Script) : String :=
  if !r.tape.ok || !r.tape.calls.isEmpty then "bad-tape" else
  let cls := r.off.map (fun o => if o < n0 then "i" ++ toString (pop.idxOf o) else "f")
  "off=" ++ showList toString r.off ++ " cls=" ++ showList id cls
    ++ " objs=" ++ (if r.off.isEmpty then "-" else ";".intercalate (r.off.map (fun o => showObj (r.st.heap o))))
    ++ " par=" ++ (if n0 = 0 then "-" else ";".intercalate ((List.range n0).map (fun o => showObj (r.st.heap o))))
    ++ " log=" ++ showList showEv r.st.log

/-! ### the composed model (`andc` / `orc`) -/

/-- a gene: an integer, or a float `f:<bits>` stored as its bit pattern -/
def parseGene (s : String) : Option Int :=
  if s.startsWith "f:" then (s.drop 2).toString.toNat?.map Int.ofNat else parseInt s

/-- a tree node: the number of its (canonical) protocol token -/
def parseNodeGene (s : String) : Option Int :=
  (DriverC11.parseNode s).map (fun p => Int.ofNat (encStr (DriverC11.showNode p)))

def parseObjC (fmt : String) (s : String) : Option Obj :=
  match s.splitOn "|" with
  | [g, f] => do
    let genome ← parseList (if fmt = "t" then parseNodeGene else parseGene) g
    let fit ← if f = "none" then some none else (parseList parseInt f).map some
    some ⟨genome, fit, none⟩
  | _ => none

def parseHeapC (fmt : String) (s : String) : Option (List Obj) :=
  if s = "-" then some [] else (s.splitOn ";").mapM (parseObjC fmt)

def parseODraw (s : String) : Option ODraw :=
  match s.splitOn ":" with
  | ["r", "f", b] => (parseFloat ("f:" ++ b)).map ODraw.rnd
  | ["g", "f", b] => (parseFloat ("f:" ++ b)).map ODraw.gauss
  | ["i", v] => (parseInt v).map ODraw.int
  | _ => none

def parseIBound (s : String) : Option CrossMut.Bound :=
  if s.startsWith "s" then (parseInt (s.drop 1).toString).map CrossMut.Bound.scalar
  else if s.startsWith "l" then (parseList parseInt (s.drop 1).toString).map CrossMut.Bound.seq
  else none

def parseFBound (s : String) : Option (RealOps.Bound Float) :=
  if s.startsWith "s" then (parseFloat (s.drop 1).toString).map RealOps.Bound.scalar
  else if s.startsWith "l" then (parseList parseFloat (s.drop 1).toString).map RealOps.Bound.seq
  else none

def parseMate (s : String) : Option LibMate :=
  match s.splitOn "/" with
  | ["cxOnePoint"] => some .cxOnePoint
  | ["cxTwoPoint"] => some .cxTwoPoint
  | ["cxTwoPoints"] => some .cxTwoPoints
  | ["cxUniform", p] => (parseFloat p).map .cxUniform
  | ["cxPartialyMatched"] => some .cxPartialyMatched
  | ["cxUniformPartialyMatched", p] => (parseFloat p).map .cxUniformPartialyMatched
  | ["cxOrdered"] => some .cxOrdered
  | ["cxMessyOnePoint"] => some .cxMessyOnePoint
  | ["cxESTwoPoint"] => some .cxESTwoPoint
  | ["cxESTwoPoints"] => some .cxESTwoPoints
  | ["cxBlend", a] => (parseFloat a).map .cxBlend
  | ["cxSimulatedBinary", e] => (parseFloat e).map .cxSimulatedBinary
  | ["cxSimulatedBinaryBounded", e, lo, up] => do
    some (.cxSimulatedBinaryBounded (← parseFloat e) (← parseFBound lo) (← parseFBound up))
  | ["cxESBlend", a] => (parseFloat a).map .cxESBlend
  | ["gp.cxOnePoint"] => some .gpCxOnePoint
  | ["gp.cxOnePointLeafBiased", pb] => (parseFloat pb).map .gpCxOnePointLeafBiased
  | _ => none

def parseMut (ps : Option GpTree.Pset) (s : String) : Option LibMut :=
  match s.splitOn "/" with
  | ["gp.mutUniform", mode, mn, mx] => do
    let ps ← ps
    let m ← DriverC11.parseMode mode
    let mn ← parseNat mn
    let mx ← parseNat mx
    some (.gpMutUniform (fun τ tp => GpTree.runGen m ps mn mx τ tp))
  | ["gp.mutNodeReplacement"] => ps.map .gpMutNodeReplacement
  | ["gp.mutEphemeral", mode] =>
    if mode = "one" then some (.gpMutEphemeral true) else if mode = "all" then some (.gpMutEphemeral false) else none
  | ["gp.mutInsert"] => ps.map .gpMutInsert
  | ["gp.mutShrink"] => some .gpMutShrink
  | ["mutShuffleIndexes", p] => (parseFloat p).map .mutShuffleIndexes
  | ["mutFlipBit", p] => (parseFloat p).map .mutFlipBit
  | ["mutUniformInt", lo, up, p] => do some (.mutUniformInt (← parseIBound lo) (← parseIBound up) (← parseFloat p))
  | ["mutInversion"] => some .mutInversion
  | ["mutGaussian", m, sg, p] => do some (.mutGaussian (← parseFBound m) (← parseFBound sg) (← parseFloat p))
  | ["mutPolynomialBounded", e, lo, up, p] => do
    some (.mutPolynomialBounded (← parseFloat e) (← parseFBound lo) (← parseFBound up) (← parseFloat p))
  | ["mutESLogNormal", c, p] => do some (.mutESLogNormal (← parseFloat c) (← parseFloat p))
  | _ => none

def parseLimit (s : String) : Option (Option (LimitKey × Int)) :=
  if s = "-" then some none else
  match s.splitOn "/" with
  | ["len", m] => (parseInt m).map (fun k => some (LimitKey.len, k))
  | ["sum", m] => (parseInt m).map (fun k => some (LimitKey.sum, k))
  | ["height", m] => (parseInt m).map (fun k => some (LimitKey.height, k))
  | _ => none

def parseLib (ps : Option GpTree.Pset) (mate mlim mutn ulim : String) : Option Lib := do
  some { mate := ← parseMate mate, mutate := ← parseMut ps mutn, mateLimit := ← parseLimit mlim, mutLimit := ← parseLimit ulim }

/-- floats as bit patterns; a tree node as the number of its protocol token (a gene that is no such number is no node) -/
def driverViews : Views where
  tree :=
    { dec := fun g => g.filterMap (fun i => DriverC11.parseNode (decStr i.toNat))
      enc := fun l => l.map (fun p => Int.ofNat (encStr (DriverC11.showNode p))) }

def showGenes (fmt : String) (g : List Int) : String :=
  let fl := fun (x : Int) => "f:" ++ toString x.toNat
  if fmt = "i" then showList toString g
  else if fmt = "t" then showList (fun x => decStr x.toNat) g
  else if fmt = "f" then showList fl g
  else
    match g with
    | [] => "-"
    | n :: r => ",".intercalate (toString n :: r.map fl)

def showObjC (fmt : String) (o : Obj) : String :=
  " o " ++ showGenes fmt o.genome ++ " " ++ (match o.fit with | none => "none" | some f => showList toString f)

def cloneOids : List Ev → List Nat
  | [] => []
  | .clone _ n :: l => n :: cloneOids l
  | _ :: l => cloneOids l

def nameOf (n0 : Nat) (clones : List Nat) (o : Nat) : String :=
  if o < n0 then "p" ++ toString o
  else if clones.contains o then "k" ++ toString (clones.idxOf o)
  else "x"

def showEvC (n0 : Nat) (clones : List Nat) : Ev → String
  | .clone a _ => "c" ++ nameOf n0 clones a
  | .mate a b => "m" ++ nameOf n0 clones a ++ "&" ++ nameOf n0 clones b
  | .mutate a => "u" ++ nameOf n0 clones a

def showResC (fmt : String) (n0 : Nat) (r : Res LTape) : String :=
  if !r.tape.ok then "bad-tape" else
  let clones := cloneOids r.st.log
  "off=" ++ showList (nameOf n0 clones) r.off
    ++ " dup=" ++ (if r.off.eraseDups.length = r.off.length then "0" else "1")
    ++ " objs=" ++ String.join (r.off.map (fun o => showObjC fmt (r.st.heap o)))
    ++ " par=" ++ String.join ((List.range n0).map (fun o => showObjC fmt (r.st.heap o)))
    ++ " log=" ++ showList (showEvC n0 clones) r.st.log
    ++ " rest=" ++ toString (r.tape.draws.length + r.tape.gp.length)

/-- `andc` (`lams = none`) / `orc`: the composed run -/
def composed (fmt pops heaps : String) (lams : Option String) (cx mu dec mate mlim mutn ulim : String)
    (ot : Option (List ODraw)) (gt : Option GpTree.Tape) (ps : Option GpTree.Pset) : String :=
  match (do
    let pop ← parseList parseNat pops
    let objs ← parseHeapC fmt heaps
    let cxpb ← parseFloat cx
    let mutpb ← parseFloat mu
    let lib ← parseLib ps mate mlim mutn ulim
    let ot ← ot
    let gt ← gt
    if pop.all (· < objs.length) then pure (pop, objs, cxpb, mutpb, lib, ot, gt) else none) with
  | none => "bad-op"
  | some (pop, objs, cxpb, mutpb, lib, ot, gt) =>
    let t0 : LTape := { draws := ot, gp := gt }
    match lams with
    | none =>
      match parseList parseFloat dec with
      | none => "bad-op"
      | some ds =>
        match decodeAnd cxpb mutpb pop.length ds with
        | none => "bad-tape"
        | some (mateD, mutD) =>
          match varAnd (lib.ops driverViews) t0 (mkState objs) pop mateD mutD with
          | none => "bad-tape"
          | some r => showResC fmt objs.length r
    | some lams =>
      match parseNat lams, parseList parseDraw dec with
      | some lam, some ds =>
        if !orAssert cxpb mutpb then "assert" else
        match decodeOr cxpb mutpb lam ds with
        | none => "bad-tape"
        | some choices =>
          match varOr (lib.ops driverViews) t0 (mkState objs) pop lam choices with
          | none => "bad-tape"
          | some r => showResC fmt objs.length r
      | _, _ => "bad-op"

/-! ### `tools.History` (`hist`) -/

section Hist
open History

def parseObjH (s : String) : Option Obj :=
  match s.splitOn "|" with
  | [g, f, x] => do
    let genome ← parseList parseInt g
    let fit ← if f = "none" then some none else (parseList parseInt f).map some
    let hx ← if x = "-" then some none else (parseNat x).map some
    some ⟨genome, fit, hx⟩
  | _ => none

def showObjH (o : Obj) : String :=
  showObj o ++ "|" ++ (match o.hidx with | none => "-" | some k => toString k)

def parseCallH (s : String) : Option Call :=
  match s.splitOn "/" with
  | ["M", a, b, ra, rb, oa, ob, ora, orb] => do
    some (Call.mate (← parseNat a) (← parseNat b) (← parseNat ra) (← parseNat rb)
      (← parseObjH oa) (← parseObjH ob) (← parseObjH ora) (← parseObjH orb))
  | ["U", a, ra, oa, ora] => do
    some (Call.mutate (← parseNat a) (← parseNat ra) (← parseObjH oa) (← parseObjH ora))
  | _ => none

/-- an operator does not touch `history_index`: an object that existed before the call keeps the one it has in the model's heap -/
def keepH (h : Heap) (n o : Nat) (x : Obj) : Obj := if o < n then { x with hidx := (h o).hidx } else x

def scriptedH : Ops Script where
  mate := fun t h n a b =>
    match t.ok, t.calls with
    | true, Call.mate a' b' ra rb oa ob ora orb :: rest =>
      if a = a' ∧ b = b' then
        ⟨⟨rest, true⟩, (((h.set a (keepH h n a oa)).set b (keepH h n b ob)).set ra (keepH h n ra ora)).set rb (keepH h n rb orb),
          max n (max (ra + 1) (rb + 1)), ra, rb⟩
      else ⟨⟨rest, false⟩, h, n, a, b⟩
    | _, _ => ⟨⟨[], false⟩, h, n, a, b⟩
  mutate := fun t h n a =>
    match t.ok, t.calls with
    | true, Call.mutate a' ra oa ora :: rest =>
      if a = a' then ⟨⟨rest, true⟩, (h.set a (keepH h n a oa)).set ra (keepH h n ra ora), max n (ra + 1), ra⟩
      else ⟨⟨rest, false⟩, h, n, a⟩
    | _, _ => ⟨⟨[], false⟩, h, n, a⟩

def parseEval (s : String) : Option (Nat × List Int) :=
  match s.splitOn "=" with
  | [o, f] => do some ((← parseNat o), (← parseList parseInt f))
  | _ => none

def applyEvals (h : Heap) : List (Nat × List Int) → Heap
  | [] => h
  | (o, f) :: r => applyEvals (h.set o { h o with fit := some f }) r

structure HRun where
  st : St
  H : Hist
  out : List String := []

def showGenH (r : Res (Script × Hist)) : String :=
  "off=" ++ showList toString r.off
    ++ " objs=" ++ (if r.off.isEmpty then "-" else ";".intercalate (r.off.map (fun o => showObjH (r.st.heap o))))
    ++ " log=" ++ showList showEv r.st.log

/-- one generation; `.error "bad-op"` = malformed, `.error "bad-tape"` / `"assert"` = the model's run does not fit -/
def runGenH (dm du : Bool) (x : HRun) (g : String) : Except String HRun :=
  let finish (r : Res (Script × Hist)) (evs : List (Nat × List Int)) : Except String HRun :=
    if !r.tape.1.ok || !r.tape.1.calls.isEmpty then .error "bad-tape"
    else if !(evs.all (fun e => e.1 < r.st.next)) then .error "bad-op"
    else .ok { st := { heap := applyEvals r.st.heap evs, next := r.st.next, log := [] }, H := r.tape.2, out := x.out ++ [showGenH r] }
  let s0 : St := { x.st with log := [] }
  match g.splitOn "@" with
  | ["and", pops, cx, mu, draws, scr, evs] =>
    match (do
      let pop ← parseList parseNat pops
      let cxpb ← parseFloat cx
      let mutpb ← parseFloat mu
      let ds ← parseList parseFloat draws
      let sc ← if scr = "-" then some [] else (scr.splitOn ";").mapM parseCallH
      let ev ← if evs = "-" then some [] else (evs.splitOn ";").mapM parseEval
      if pop.all (· < s0.next) then pure (pop, cxpb, mutpb, ds, sc, ev) else none) with
    | none => .error "bad-op"
    | some (pop, cxpb, mutpb, ds, sc, ev) =>
      match decodeAnd cxpb mutpb pop.length ds with
      | none => .error "bad-tape"
      | some (mateD, mutD) =>
        match varAnd (histOps dm du scriptedH) (⟨sc, true⟩, x.H) s0 pop mateD mutD with
        | none => .error "bad-tape"
        | some r => finish r ev
  | ["or", pops, lams, cx, mu, tape, scr, evs] =>
    match (do
      let pop ← parseList parseNat pops
      let lam ← parseNat lams
      let cxpb ← parseFloat cx
      let mutpb ← parseFloat mu
      let ds ← parseList parseDraw tape
      let sc ← if scr = "-" then some [] else (scr.splitOn ";").mapM parseCallH
      let ev ← if evs = "-" then some [] else (evs.splitOn ";").mapM parseEval
      if pop.all (· < s0.next) then pure (pop, lam, cxpb, mutpb, ds, sc, ev) else none) with
    | none => .error "bad-op"
    | some (pop, lam, cxpb, mutpb, ds, sc, ev) =>
      if !orAssert cxpb mutpb then .error "assert" else
      match decodeOr cxpb mutpb lam ds with
      | none => .error "bad-tape"
      | some choices =>
        match varOr (histOps dm du scriptedH) (⟨sc, true⟩, x.H) s0 pop lam choices with
        | none => .error "bad-tape"
        | some r => finish r ev
  | _ => .error "bad-op"

def runGensH (dm du : Bool) : HRun → List String → Except String HRun
  | x, [] => .ok x
  | x, g :: gs =>
    match runGenH dm du x g with
    | .error e => .error e
    | .ok x1 => runGensH dm du x1 gs

def showTreeH (d : Dict (List Nat)) : String :=
  if d.isEmpty then "-" else
    ";".intercalate (d.map (fun e => toString e.1 ++ ">" ++ (if e.2.isEmpty then "" else ".".intercalate (e.2.map toString))))

def parseQueryH (s : String) : Option (Nat × Option Nat) :=
  match s.splitOn ":" with
  | [r, m] => do
    let root ← parseNat r
    let md ← if m = "inf" then some none else (parseNat m).map some
    some (root, md)
  | _ => none

def histOp (heaps dms dus inits gens qs : String) : String :=
  match (do
    let objs ← if heaps = "-" then some [] else (heaps.splitOn ";").mapM parseObjH
    let dm ← parseBool dms
    let du ← parseBool dus
    let init ← if inits = "-" then some none else (parseList parseNat inits).map some
    let q ← if qs = "-" then some [] else (qs.splitOn ";").mapM parseQueryH
    let okInit := match init with | none => true | some l => l.all (· < objs.length)
    if okInit then pure (objs, dm, du, init, q) else none) with
  | none => "bad-op"
  | some (objs, dm, du, init, q) =>
    let st0 : St := { heap := fun o => (objs[o]?).getD ⟨[], none, none⟩, next := objs.length }
    let x0 : HRun :=
      match init with
      | none => { st := st0, H := {} }
      | some l =>
        let u := update {} st0.heap st0.next l
        { st := { heap := u.heap, next := u.next }, H := u.hist }
    match runGensH dm du x0 (if gens = "-" then [] else gens.splitOn "#") with
    | .error e => e
    | .ok x =>
      let H := x.H
      (if x.out.isEmpty then "-" else " | ".intercalate x.out)
        ++ " index=" ++ toString H.index
        ++ " tree=" ++ showTreeH H.tree
        ++ " hist=" ++ (if H.hist.isEmpty then "-" else
            ";".intercalate (H.hist.map (fun e => toString e.1 ++ ":" ++ toString e.2 ++ ":" ++ showObjH (x.st.heap e.2))))
        ++ " q=" ++ (if q.isEmpty then "-" else
            "/".intercalate (q.map (fun e =>
              match getGenealogy H 5000 e.1 e.2 with
              | none => "recursion"
              | some g => showTreeH g)))

end Hist

def handle : List String → String
  | ["hist", heaps, dm, du, init, gens, qs] => histOp heaps dm du init gens qs
  | ["and", pops, heaps, cx, mu, draws, scr] =>
    match (do
      let pop ← parseList parseNat pops
      let objs ← parseHeap heaps
      let cxpb ← parseFloat cx
      let mutpb ← parseFloat mu
      let ds ← parseList parseFloat draws
      let sc ← parseScript scr
      if pop.all (· < objs.length) then pure (pop, objs, cxpb, mutpb, ds, sc) else none) with
    | none => "bad-op"
    | some (pop, objs, cxpb, mutpb, ds, sc) =>
      match decodeAnd cxpb mutpb pop.length ds with
      | none => "bad-tape"
      | some (mateD, mutD) =>
        match varAnd scripted ⟨sc, true⟩ (mkState objs) pop mateD mutD with
        | none => "bad-tape"
        | some r => showRes pop objs.length r
  | ["or", pops, heaps, lams, cx, mu, tape, scr] =>
    match (do
      let pop ← parseList parseNat pops
      let objs ← parseHeap heaps
      let lam ← parseNat lams
      let cxpb ← parseFloat cx
      let mutpb ← parseFloat mu
      let ds ← parseList parseDraw tape
      let sc ← parseScript scr
      if pop.all (· < objs.length) then pure (pop, objs, lam, cxpb, mutpb, ds, sc) else none) with
    | none => "bad-op"
    | some (pop, objs, lam, cxpb, mutpb, ds, sc) =>
      if !orAssert cxpb mutpb then "assert" else
      match decodeOr cxpb mutpb lam ds with
      | none => "bad-tape"
      | some choices =>
        match varOr scripted ⟨sc, true⟩ (mkState objs) pop lam choices with
        | none => "bad-tape"
        | some r => showRes pop objs.length r
  | ["andc", fmt, pops, heaps, cx, mu, draws, mate, mlim, mutn, ulim, optape] =>
    if fmt = "i" ∨ fmt = "f" ∨ fmt = "e" then
      composed fmt pops heaps none cx mu draws mate mlim mutn ulim (parseList parseODraw optape) (some []) none
    else "bad-op"
  | ["orc", fmt, pops, heaps, lams, cx, mu, tape, mate, mlim, mutn, ulim, optape] =>
    if fmt = "i" ∨ fmt = "f" ∨ fmt = "e" then
      composed fmt pops heaps (some lams) cx mu tape mate mlim mutn ulim (parseList parseODraw optape) (some []) none
    else "bad-op"
  | ["andc", "t", pops, heaps, cx, mu, draws, mate, mlim, mutn, ulim, gptape, s, p, t, r, tc, pc] =>
    match DriverC11.parsePset s p t r tc pc with
    | none => "bad-op"
    | some ps =>
      composed "t" pops heaps none cx mu draws mate mlim mutn ulim (some []) (DriverC11.parseTape gptape) (some ps)
  | ["orc", "t", pops, heaps, lams, cx, mu, tape, mate, mlim, mutn, ulim, gptape, s, p, t, r, tc, pc] =>
    match DriverC11.parsePset s p t r tc pc with
    | none => "bad-op"
    | some ps =>
      composed "t" pops heaps (some lams) cx mu tape mate mlim mutn ulim (some []) (DriverC11.parseTape gptape) (some ps)
  | _ => "bad-op"

end DriverC02
