import DeapModel.Core.Variation
import Driver.Proto
/-!
Protocol handler for C02 (variation).

    C02 and <pop> <heap> <cxpb> <mutpb> <draws> <script>
    C02 or  <pop> <heap> <lambda> <cxpb> <mutpb> <tape> <script>

* `pop`    comma list of oids (positions of the population; repeats allowed), `-` = empty
* `heap`   `;`-separated objects for the oids 0,1,…: `<genome>|<fit>`; genome = comma list of ints
           (`-` = empty), fit = `none` or a comma list of ints; `-` = no object
* `cxpb`, `mutpb`, every `random()` result: `f:<bits>` (IEEE replay of the comparison)
* `draws`  (and) comma list of `random()` results
* `tape`   (or) comma list of `r:<bits>` (random), `s:<i>:<j>` (sample → positions), `c:<i>` (choice)
* `script` `;`-separated recorded operator calls, in call order:
           `M/<a>/<b>/<ra>/<rb>/<obj a>/<obj b>/<obj ra>/<obj rb>`  mate called on oids a b, returned ra rb
           `U/<a>/<ra>/<obj a>/<obj ra>`                            mutate called on a, returned ra
           (`<obj x>` = `<genome>|<fit>` of object x right after the operator returned; a returned oid that is
           not an argument is an object the operator allocated.)  The scripted operator refuses (→ `bad-tape`)
           a call whose arguments differ from the record.

Answer: `off=<oids> cls=<f|i<k>…> objs=<obj;…> par=<obj;…> log=<events>`; `bad-tape` when the tape or
the script does not fit the model's run, `assert` for varOr's `cxpb + mutpb <= 1.0`, `bad-op` on
malformed input.
-/
namespace DriverC02
open Proto Variation

inductive Call where
  | mate (a b ra rb : Nat) (oa ob ora orb : Obj)
  | mutate (a ra : Nat) (oa ora : Obj)

structure Script where
  calls : List Call
  ok : Bool := true

def scripted : Ops Script where
  mate := fun t h n a b =>
    match t.ok, t.calls with
    | true, Call.mate a' b' ra rb oa ob ora orb :: rest =>
      if a = a' ∧ b = b' then
        ⟨⟨rest, true⟩, (((h.set a oa).set b ob).set ra ora).set rb orb, max n (max (ra + 1) (rb + 1)), ra, rb⟩
      else ⟨⟨rest, false⟩, h, n, a, b⟩
    | _, _ => ⟨⟨[], false⟩, h, n, a, b⟩
  mutate := fun t h n a =>
    match t.ok, t.calls with
    | true, Call.mutate a' ra oa ora :: rest =>
      if a = a' then ⟨⟨rest, true⟩, (h.set a oa).set ra ora, max n (ra + 1), ra⟩
      else ⟨⟨rest, false⟩, h, n, a⟩
    | _, _ => ⟨⟨[], false⟩, h, n, a⟩

def parseObj (s : String) : Option Obj :=
  match s.splitOn "|" with
  | [g, f] => do
    let genome ← parseList parseInt g
    let fit ← if f = "none" then some none else (parseList parseInt f).map some
    some ⟨genome, fit⟩
  | _ => none

def parseHeap (s : String) : Option (List Obj) :=
  if s = "-" then some [] else (s.splitOn ";").mapM parseObj

def parseCall (s : String) : Option Call :=
  match s.splitOn "/" with
  | ["M", a, b, ra, rb, oa, ob, ora, orb] => do
    some (Call.mate (← parseNat a) (← parseNat b) (← parseNat ra) (← parseNat rb)
      (← parseObj oa) (← parseObj ob) (← parseObj ora) (← parseObj orb))
  | ["U", a, ra, oa, ora] => do
    some (Call.mutate (← parseNat a) (← parseNat ra) (← parseObj oa) (← parseObj ora))
  | _ => none

def parseScript (s : String) : Option (List Call) :=
  if s = "-" then some [] else (s.splitOn ";").mapM parseCall

def parseDraw (s : String) : Option Draw :=
  match s.splitOn ":" with
  | ["r", "f", b] => (parseFloat ("f:" ++ b)).map Draw.rnd
  | ["s", i, j] => do some (Draw.sample (← parseNat i) (← parseNat j))
  | ["c", i] => (parseNat i).map Draw.choice
  | _ => none

def showObj (o : Obj) : String :=
  showList toString o.genome ++ "|" ++ (match o.fit with | none => "none" | some f => showList toString f)

def showEv : Ev → String
  | .clone a b => "c" ++ toString a ++ ">" ++ toString b
  | .mate a b => "m" ++ toString a ++ "&" ++ toString b
  | .mutate a => "u" ++ toString a

def mkState (objs : List Obj) : St :=
  { heap := fun o => (objs[o]?).getD ⟨[], none⟩, next := objs.length }

def showRes (pop : List Nat) (n0 : Nat) (r : Res Script) : String :=
  if !r.tape.ok || !r.tape.calls.isEmpty then "bad-tape" else
  let cls := r.off.map (fun o => if o < n0 then "i" ++ toString (pop.idxOf o) else "f")
  "off=" ++ showList toString r.off ++ " cls=" ++ showList id cls
    ++ " objs=" ++ (if r.off.isEmpty then "-" else ";".intercalate (r.off.map (fun o => showObj (r.st.heap o))))
    ++ " par=" ++ (if n0 = 0 then "-" else ";".intercalate ((List.range n0).map (fun o => showObj (r.st.heap o))))
    ++ " log=" ++ showList showEv r.st.log

def handle : List String → String
  | ["and", pops, heaps, cx, mu, draws, scr] =>
    match (do
      let pop ← parseList parseNat pops
      let objs ← parseHeap heaps
      let cxpb ← parseFloat cx
      let mutpb ← parseFloat mu
      let ds ← parseList parseFloat draws
      let sc ← parseScript scr
      if pop.all (· < objs.length) then pure (pop, objs, cxpb, mutpb, ds, sc) else none) with
    | none => "bad-op"
    | some (pop, objs, cxpb, mutpb, ds, sc) =>
      match decodeAnd cxpb mutpb pop.length ds with
      | none => "bad-tape"
      | some (mateD, mutD) =>
        match varAnd scripted ⟨sc, true⟩ (mkState objs) pop mateD mutD with
        | none => "bad-tape"
        | some r => showRes pop objs.length r
  | ["or", pops, heaps, lams, cx, mu, tape, scr] =>
    match (do
      let pop ← parseList parseNat pops
      let objs ← parseHeap heaps
      let lam ← parseNat lams
      let cxpb ← parseFloat cx
      let mutpb ← parseFloat mu
      let ds ← parseList parseDraw tape
      let sc ← parseScript scr
      if pop.all (· < objs.length) then pure (pop, objs, lam, cxpb, mutpb, ds, sc) else none) with
    | none => "bad-op"
    | some (pop, objs, lam, cxpb, mutpb, ds, sc) =>
      if !orAssert cxpb mutpb then "assert" else
      match decodeOr cxpb mutpb lam ds with
      | none => "bad-tape"
      | some choices =>
        match varOr scripted ⟨sc, true⟩ (mkState objs) pop lam choices with
        | none => "bad-tape"
        | some r => showRes pop objs.length r
  | _ => "bad-op"

end DriverC02
