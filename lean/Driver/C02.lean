import Driver.Proto
/-! Protocol handler for C02 (stub until the model is built). -/
namespace DriverC02

def handle : List String → String
  | _ => "bad-op"

end DriverC02
