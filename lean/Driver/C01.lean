import DeapModel.Core.Fitness
import DeapModel.Core.FitClass
import Driver.Proto
/-! Protocol handler for C01 (Fitness). -/
namespace DriverC01
open Proto Fitness

/-- A fitness argument: `-` = no values assigned. -/
def mkFit (weights : List Rat) (s : String) : Option (Fit Rat) := do
  let v ← parseList parseRat s
  if v.isEmpty then some ⟨[]⟩ else setValues weights v

def parseCv (s : String) : Option (Option (List Int)) :=
  if s = "none" then some none else (parseList parseInt s).map some

def mkCFit (weights : List Rat) (vs cvs : String) : Option (CFit Rat) := do
  let f ← mkFit weights vs
  let cv ← parseCv cvs
  some ⟨f.wvalues, cv⟩


/-! #### `fam`: a history over a family of related fitness classes (Core/FitClass.lean) -/

def parseBox (s : String) : Option Box :=
  if s = "t" then some .tuple else if s = "l" then some .list else if s = "a" then some .ndarray
  else if s = "d" then some .deque else none

def parseWOp (s : String) : Option (WOp Rat) :=
  match s.splitOn ":" with
  | ["class", p, w] => do
      let parent ← if p = "b" then some none else (parseNat p).map some
      let weights ← if w = "none" then some none else (parseList parseRat w).map some
      some (.defclass ⟨weights, parent⟩)
  | ["new", slot, c, box, vs] => do
      some (.new (← parseNat slot) (← parseNat c) ⟨← parseBox box, ← parseList parseRat vs⟩)
  | ["set", slot, box, vs] => do some (.set (← parseNat slot) ⟨← parseBox box, ← parseList parseRat vs⟩)
  | ["del", slot] => (parseNat slot).map .del
  | ["get", slot] => (parseNat slot).map .get
  | ["str", slot] => (parseNat slot).map .str
  | ["cmp", i, j] => do some (.cmp (← parseNat i) (← parseNat j))
  | ["dom", i, j, ia, ib] => do
      some (.dom (← parseNat i) (← parseNat j) (← parseList parseNat ia) (← parseList parseNat ib))
  | ["clone", i, k] => do some (.clone (← parseNat i) (← parseNat k))
  | _ => none

def showOut : Out Rat → String
  | .ok => "ok"
  | .err => "err"
  | .values w v ok => showList showRat w ++ "|" ++ showList showRat v ++ "|" ++ showBool ok
  | .shown v => "s|" ++ showList showRat v
  | .bits l => showBits l

def handleFam (ops : List String) : String :=
  match ops.mapM parseWOp with
  | some os => " ".intercalate ((wrun (World.empty : World Rat) os).2.map showOut)
  | none => "bad-op"

/-! #### `rclone`: IEEE replay of a clone (weights and values are arbitrary doubles in the normal range, sent as
bit patterns).  The model runs over `Fitness.R64` (exact operation + one rounding to 53 bits); every number it
produces is cross-checked against the machine's own `Float` arithmetic (last token). -/

def r64List (l : List Float) : List R64 := l.map (fun x => ⟨floatToRat x⟩)
def showR64s (l : List R64) : String := showList showRat (l.map (·.q))

def handleRclone (ws vs : String) : String :=
  match (do let w ← parseList parseFloat ws; let v ← parseList parseFloat vs; pure (w, v)) with
  | some (wF, vF) =>
    let w := r64List wF
    match setValues w (r64List vF) with
    | none => "assert"
    | some f =>
      let c := deepcopy f
      let idx := List.range f.wvalues.length
      let rd := (reclone w f).getD ⟨[]⟩
      let ri := (recloneInv ⟨1⟩ w f).getD ⟨[]⟩
      -- the same three computations on the machine's doubles, Python's operation order
      let wvF := List.zipWith (· * ·) vF wF
      let rdF := List.zipWith (· * ·) (List.zipWith (· / ·) wvF wF) wF
      let riF := List.zipWith (· * ·) (List.zipWith (· * ·) wvF (wF.map (1.0 / ·))) wF
      let agree := decide (wvF.map floatToRat = f.wvalues.map (·.q)) && decide (rdF.map floatToRat = rd.wvalues.map (·.q))
        && decide (riF.map floatToRat = ri.wvalues.map (·.q))
      showR64s f.wvalues ++ " " ++ showR64s c.wvalues ++ " " ++ showR64s rd.wvalues ++ " " ++ showR64s ri.wvalues ++ " "
        ++ showBits [eq c f, ne c f, lt c f, gt c f, dominates f c idx idx, dominates c f idx idx, valid c] ++ " " ++ showBool agree
  | none => "bad-op"

def handle : List String → String
  | "fam" :: ops => handleFam ops
  | ["rclone", ws, vs] => handleRclone ws vs
  | ["cmp", ws, a, b] =>
    match (do let w ← parseList parseRat ws; let x ← mkFit w a; let y ← mkFit w b; pure (x, y)) with
    | some (x, y) => showBits [lt x y, le x y, gt x y, ge x y, eq x y, ne x y]
    | none => "bad-op"
  | ["dom", ws, a, b, ia, ib] =>
    match (do let w ← parseList parseRat ws; let x ← mkFit w a; let y ← mkFit w b
              let i ← parseList parseNat ia; let j ← parseList parseNat ib; pure (x, y, i, j)) with
    | some (x, y, i, j) => showBool (dominates x y i j)
    | none => "bad-op"
  | ["vals", ws, a] =>
    match (do let w ← parseList parseRat ws; let x ← mkFit w a; pure (w, x)) with
    | some (w, x) => showList showRat x.wvalues ++ " " ++ showList showRat (getValues w x) ++ " "
        ++ showBool (valid x) ++ " " ++ showBool (eq (deepcopy x) x) ++ " "
        ++ showBool (decide (hashKey (deepcopy x) = hashKey x))
    | none => "bad-op"
  | "hist" :: ws :: ops =>
    match (do
      let w ← parseList parseRat ws
      let os ← ops.mapM (fun s => if s = "del" then some (Op.del : Op Rat) else (parseList parseRat s).map Op.set)
      pure (w, os)) with
    | some (w, os) =>
      -- validity after every prefix of the history
      let states := os.foldl (fun (acc : Fit Rat × List Bool) o =>
        let f := step w acc.1 o; (f, acc.2 ++ [valid f])) (⟨[]⟩, [])
      showBits states.2 ++ " " ++ showList showRat (getValues w states.1)
    | none => "bad-op"
  | ["ccmp", ws, a, cva, b, cvb] =>
    match (do let w ← parseList parseRat ws; let x ← mkCFit w a cva; let y ← mkCFit w b cvb; pure (x, y)) with
    | some (x, y) => showBits [clt x y, cle x y, cgt x y, cge x y, ceq x y, cne x y] ++ " "
        ++ showBool (cdominates x y) ++ " " ++ showBool (violates x) ++ showBool (violates y) ++ " "
        ++ showBool (ceq (cdeepcopy x) x) ++ showBool (violates (cdeepcopy x))
    | none => "bad-op"
  | "chist" :: ws :: ops =>
    match (do
      let w ← parseList parseRat ws
      let os ← ops.mapM (fun s =>
        if s = "del" then some (COp.del : COp Rat)
        else if s.startsWith "cv=" then (parseCv (s.drop 3).toString).map COp.setCv
        else (parseList parseRat s).map COp.set)
      pure (w, os)) with
    | some (w, os) =>
      let st := os.foldl (fun (acc : CFit Rat × List String) o =>
        let f := cstep w acc.1 o
        (f, acc.2 ++ [showBool (valid f.base) ++ showBool (violates f) ++ (if f.cv.isSome then "c" else "n")])) (⟨[], none⟩, [])
      ",".intercalate st.2 ++ " " ++ showList showRat (getValues w st.1.base)
    | none => "bad-op"
  | _ => "bad-op"

end DriverC01
