import DeapModel.Core.Selection
import DeapModel.Core.SelectionHist
import Driver.Proto
/-!
Protocol handler for C06 (selection operators).

Populations travel as the `;`-separated list of the individuals' weighted-value tuples
(`fitness.wvalues`, exact ratios); sizes / crowding distances as parallel `,`-lists.  The tape is
the rest of the line, one token per recorded `random.*` call:
`c:<i>` choice, `s:<i,j,…>` sample, `p:<i,j,…>` shuffle, `r:<q>` random()/uniform draw.
A request may be prefixed by `canon <map>` (see `canonAnswer`).
`hist <segment> | <segment> | …` is a session (`Selection.runHistory`): a segment is `class <weights|inh> <parent|root>`
or `call <class> [canon <map>] <request>` where the request is one of the above with `@` in place of the weights
(they are resolved from the class table through the MRO); ONE tape — the segments' tapes concatenated — is threaded
through all calls.  Answer: the calls' results separated by `|`, then the number of unread tape entries.
Answers: the selected population indices, then the number of unread tape entries; `none` when
the model has no result (bad tape / Python exception).
-/
namespace DriverC06
open Proto Selection

def parseDraw (s : String) : Option Draw :=
  match s.splitOn ":" with
  | ["c", x] => (parseNat x).map Draw.choice
  | ["s", x] => (parseList parseNat x).map Draw.sample
  | ["p", x] => (parseList parseNat x).map Draw.shuffle
  | ["r", x] => (parseRat x).map Draw.random
  | _ => none

def parseTape (l : List String) : Option Tape := l.mapM parseDraw

def mkPop (wvs : String) : Option Pop := (parseList2 parseRat wvs).map (List.map (fun v => ({ wv := v } : Ind)))

def mkPopSized (wvs sizes : String) : Option Pop := do
  let v ← parseList2 parseRat wvs
  let s ← parseList parseNat sizes
  if v.length = s.length then some (List.zipWith (fun a b => ({ wv := a, size := b } : Ind)) v s) else none

def mkPopCd (wvs cds : String) : Option Pop := do
  let v ← parseList2 parseRat wvs
  let c ← parseList parseRat cds
  if v.length = c.length then some (List.zipWith (fun a b => ({ wv := a, cd := b } : Ind)) v c) else none

def parseRule (s : String) : Option Rule :=
  if s = "exact" then some Rule.exact
  else if s = "auto" then some Rule.auto
  else match s.splitOn ":" with
    | ["eps", x] => (parseRat x).map Rule.eps
    | _ => none

def showRes : Option (List Nat × Tape) → String
  | none => "none"
  | some (l, t) => showList toString l ++ " " ++ toString t.length

def handleCore : List String → String
  | ["best", ps, ks] =>
    match (do let p ← mkPop ps; let k ← parseNat ks; pure (p, k)) with
    | some (p, k) => showList toString (selBest p k)
    | none => "bad-op"
  | ["worst", ps, ks] =>
    match (do let p ← mkPop ps; let k ← parseNat ks; pure (p, k)) with
    | some (p, k) => showList toString (selWorst p k)
    | none => "bad-op"
  | "random" :: ns :: ks :: tape =>
    match (do let n ← parseNat ns; let k ← parseNat ks; let t ← parseTape tape; pure (n, k, t)) with
    | some (n, k, t) => showRes (selRandom n k t)
    | none => "bad-op"
  | "tourn" :: ps :: ks :: ts :: tape =>
    match (do let p ← mkPop ps; let k ← parseNat ks; let s ← parseNat ts; let t ← parseTape tape
              pure (p, k, s, t)) with
    | some (p, k, s, t) => showRes (selTournament p k s t)
    | none => "bad-op"
  | "roulette" :: ws :: ps :: ks :: tape =>
    match (do let w ← parseList parseRat ws; let p ← mkPop ps; let k ← parseNat ks
              let t ← parseTape tape; pure (w, p, k, t)) with
    | some (w, p, k, t) => showRes (selRoulette w p k t)
    | none => "bad-op"
  | "sus" :: ws :: ps :: ks :: tape =>
    match (do let w ← parseList parseRat ws; let p ← mkPop ps; let k ← parseNat ks
              let t ← parseTape tape; pure (w, p, k, t)) with
    | some (w, p, k, t) => showRes (selSUS w p k t)
    | none => "bad-op"
  | "dtourn" :: ps :: szs :: ks :: fss :: pss :: ffs :: tape =>
    match (do let p ← mkPopSized ps szs; let k ← parseNat ks; let fs ← parseNat fss
              let par ← parseRat pss; let ff ← parseBool ffs; let t ← parseTape tape
              pure (p, k, fs, par, ff, t)) with
    | some (p, k, fs, par, ff, t) => showRes (selDoubleTournament p k fs par ff t)
    | none => "bad-op"
  | "lex" :: rs :: ws :: ps :: ks :: tape =>
    match (do let r ← parseRule rs; let w ← parseList parseRat ws; let p ← mkPop ps
              let k ← parseNat ks; let t ← parseTape tape; pure (r, w, p, k, t)) with
    | some (r, w, p, k, t) => showRes (selLexicaseWith r w p k t)
    | none => "bad-op"
  | "dcd" :: ps :: cds :: ks :: tape =>
    match (do let p ← mkPopCd ps cds; let k ← parseNat ks; let t ← parseTape tape; pure (p, k, t)) with
    | some (p, k, t) => showRes (selTournamentDCD p k t)
    | none => "bad-op"
  | _ => "bad-op"

/-- `canon <map> <request…>`: the population lists some object more than once; `map[i]` is the first
position holding the object of position `i`.  The selected positions are reported through `map`
(what identity by `is` can observe). -/
def canonAnswer (m : List Nat) (ans : String) : String :=
  match ans.splitOn " " with
  | first :: rest =>
    match parseList parseNat first with
    | some l =>
      match l.mapM (fun i => m[i]?) with
      | some l' => " ".intercalate (showList toString l' :: rest)
      | none => "bad-op"
    | none => ans
  | [] => ans

/-! ### Sessions -/

def splitBar : List String → List (List String)
  | [] => [[]]
  | "|" :: rest => [] :: splitBar rest
  | x :: rest =>
    match splitBar rest with
    | [] => [[x]]
    | s :: ss => (x :: s) :: ss

/-- A request of a session: population, selector, and the request's own stretch of the tape. -/
def parseReq : List String → Option (Pop × Sel × Tape)
  | ["best", ps, ks] => do let p ← mkPop ps; let k ← parseNat ks; pure (p, Sel.best k, [])
  | ["worst", ps, ks] => do let p ← mkPop ps; let k ← parseNat ks; pure (p, Sel.worst k, [])
  | "random" :: ns :: ks :: tape => do
    let n ← parseNat ns; let k ← parseNat ks; let t ← parseTape tape
    pure (List.replicate n ({ wv := [] } : Ind), Sel.random k, t)
  | "tourn" :: ps :: ks :: ts :: tape => do
    let p ← mkPop ps; let k ← parseNat ks; let s ← parseNat ts; let t ← parseTape tape
    pure (p, Sel.tourn k s, t)
  | "roulette" :: "@" :: ps :: ks :: tape => do
    let p ← mkPop ps; let k ← parseNat ks; let t ← parseTape tape; pure (p, Sel.roulette k, t)
  | "sus" :: "@" :: ps :: ks :: tape => do
    let p ← mkPop ps; let k ← parseNat ks; let t ← parseTape tape; pure (p, Sel.sus k, t)
  | "dtourn" :: ps :: szs :: ks :: fss :: pss :: ffs :: tape => do
    let p ← mkPopSized ps szs; let k ← parseNat ks; let fs ← parseNat fss
    let par ← parseRat pss; let ff ← parseBool ffs; let t ← parseTape tape
    pure (p, Sel.dtourn k fs par ff, t)
  | "lex" :: rs :: "@" :: ps :: ks :: tape => do
    let r ← parseRule rs; let p ← mkPop ps; let k ← parseNat ks; let t ← parseTape tape
    pure (p, Sel.lex r k, t)
  | "dcd" :: ps :: cds :: ks :: tape => do
    let p ← mkPopCd ps cds; let k ← parseNat ks; let t ← parseTape tape; pure (p, Sel.dcd k, t)
  | _ => none

/-- A segment: the event, the canon map of a call (`none` for a class statement), its tape. -/
def parseSeg : List String → Option (Event × Option (List Nat) × Tape)
  | ["class", ws, ps] => do
    let w ← if ws = "inh" then pure none else (parseList parseRat ws).map some
    let p ← if ps = "root" then pure none else (parseNat ps).map some
    pure (Event.defclass ⟨w, p⟩, none, [])
  | "call" :: cs :: "canon" :: ms :: rest => do
    let c ← parseNat cs; let m ← parseList parseNat ms; let (p, s, t) ← parseReq rest
    if m.length = p.length then pure (Event.call c p s, some m, t) else none
  | "call" :: cs :: rest => do
    let c ← parseNat cs; let (p, s, t) ← parseReq rest
    pure (Event.call c p s, some (List.range p.length), t)
  | _ => none

def canonList (m : List Nat) (l : List Nat) : Option (List Nat) := l.mapM (fun i => m[i]?)

def handleHist (toks : List String) : String :=
  match (splitBar toks).mapM parseSeg with
  | none => "bad-op"
  | some segs =>
    let events := segs.map (fun s => s.1)
    let maps := segs.filterMap (fun s => s.2.1)
    let tape := (segs.map (fun s => s.2.2)).flatten
    match runHistory [] events tape with
    | none => "none"
    | some (_, outs, t) =>
      if outs.length = maps.length then
        match (List.zip maps outs).mapM (fun mo => canonList mo.1 mo.2) with
        | some ls => "|".intercalate (ls.map (showList toString)) ++ " " ++ toString t.length
        | none => "bad-op"
      else "bad-op"

def handle : List String → String
  | "hist" :: rest => handleHist rest
  | "canon" :: ms :: rest =>
    match parseList parseNat ms with
    | some m => canonAnswer m (handleCore rest)
    | none => "bad-op"
  | req => handleCore req

end DriverC06
