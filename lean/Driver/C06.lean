import Driver.Proto
/-! Protocol handler for C06 (stub until the model is built). -/
namespace DriverC06

def handle : List String → String
  | _ => "bad-op"

end DriverC06
