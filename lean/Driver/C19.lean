import DeapModel.Core.Penalty
import Driver.Proto
/-!
Protocol handler for C19 (penalty decorators).

Individuals are ids (`0` = the individual passed to the decorated function, `cid` = what the
closest-point function returns for it, possibly `0` again); the extras `*args, **kwargs` are the
pair (shift, tag): the undecorated function returns its table value for the individual with
`shift` added to every objective, `tag` is opaque.

* `delta <feas> <weights> <delta> <dist> <f0> <shift> <tag>`
* `closest <feas> <weights> <alpha> <dist> <cid> <f0> <fc> <shift> <tag>`

`<delta>` = `s:<rat>` | `v:<list>`; `<dist>` = `none` | `s:<rat>` | `v:<list>` (what the distance
function returns for the individual, resp. for `(cid, 0)`); answer `<result> | <calls>` with
`<result>` = list or `raise`, `<calls>` = `id:shift:tag,…` or `-`.
-/
namespace DriverC19
open Proto Penalty

def parseSV (s : String) : Option (SV Rat) :=
  if s.startsWith "s:" then (parseRat (s.drop 2).toString).map SV.scalar
  else if s.startsWith "v:" then (parseList parseRat (s.drop 2).toString).map SV.seq
  else none

def parseDist (s : String) : Option (Option (SV Rat)) :=
  if s = "none" then some none else (parseSV s).map some

abbrev Extras := Rat × String

def showOut (o : Out Nat Extras Rat) : String :=
  (match o.result with | none => "raise" | some r => showList showRat r) ++ " | " ++
  showList (fun (c : Nat × Extras) => toString c.1 ++ ":" ++ showRat c.2.1 ++ ":" ++ c.2.2) o.calls

def evalFn (table : Nat → List Rat) (i : Nat) (a : Extras) : List Rat := (table i).map (· + a.1)

def handle : List String → String
  | ["delta", feas, ws, delta, dist, f0, shift, tag] =>
    match (do
      let fe ← parseBool feas; let w ← parseList parseRat ws; let d ← parseSV delta
      let di ← parseDist dist; let t0 ← parseList parseRat f0; let sh ← parseRat shift
      pure (fe, w, d, di, t0, sh)) with
    | some (fe, w, d, di, t0, sh) =>
      showOut (deltaPenalty (fun _ => fe) d (di.map fun v _ => v) (fun _ => w)
        (evalFn fun _ => t0) 0 (sh, tag))
    | none => "bad-op"
  | ["closest", feas, ws, alpha, dist, cid, f0, fc, shift, tag] =>
    match (do
      let fe ← parseBool feas; let w ← parseList parseRat ws; let al ← parseRat alpha
      let di ← parseDist dist; let c ← parseNat cid
      let t0 ← parseList parseRat f0; let tc ← parseList parseRat fc; let sh ← parseRat shift
      if c > 1 then none else pure (fe, w, al, di, c, t0, tc, sh)) with
    | some (fe, w, al, di, c, t0, tc, sh) =>
      showOut (closestValidPenalty (fun _ => fe) (fun _ => c) al
        (di.map fun v fi x => if fi = c ∧ x = 0 then v else .seq [])
        (fun _ => w) (evalFn fun i => if i = 0 then t0 else tc) 0 (sh, tag))
    | none => "bad-op"
  | _ => "bad-op"

end DriverC19
