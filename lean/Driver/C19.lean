import Driver.Proto
/-! Protocol handler for C19 (stub until the model is built). -/
namespace DriverC19

def handle : List String → String
  | _ => "bad-op"

end DriverC19
