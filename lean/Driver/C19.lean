import DeapModel.Core.Penalty
import Driver.Proto
/-!
Protocol handler for C19 (penalty decorators).

Individuals are ids (`0` = the individual passed to the decorated function, `cid` = what the
closest-point function returns for it, possibly `0` again); the extras `*args, **kwargs` are the
pair (shift, tag): the undecorated function returns its table value for the individual with
`shift` added to every objective, `tag` is opaque.

* `delta <feas> <weights> <delta> <dist> <f0> <shift> <tag>`
* `closest <feas> <weights> <alpha> <dist> <cid> <f0> <fc> <shift> <tag>`

* `fam <classes> <cls> delta|closest …` with `@` in the place of `<weights>`: the individual's fitness is an
  instance of class number `<cls>` of the family `<classes>` = `;`-separated `<parent|b>:<weights|none>` in creation
  order (`b` = derives from `base.Fitness`, `none` = no `weights` entry of its own); the weights are what that class
  resolves to (`Fitness.lookupWeights`).

`<delta>` = `s:<rat>` | `v:<list>`; `<dist>` = `none` | `s:<rat>` | `v:<list>` (what the distance
function returns for the individual, resp. for `(cid, 0)`); answer `<result> | <calls>` with
`<result>` = list or `raise`, `<calls>` = `id:shift:tag,…` or `-`.
-/
namespace DriverC19
open Proto Penalty

def parseSV (s : String) : Option (SV Rat) :=
  if s.startsWith "s:" then (parseRat (s.drop 2).toString).map SV.scalar
  else if s.startsWith "v:" then (parseList parseRat (s.drop 2).toString).map SV.seq
  else none

def parseDist (s : String) : Option (Option (SV Rat)) :=
  if s = "none" then some none else (parseSV s).map some

abbrev Extras := Rat × String

def showOut (o : Out Nat Extras Rat) : String :=
  (match o.result with | none => "raise" | some r => showList showRat r) ++ " | " ++
  showList (fun (c : Nat × Extras) => toString c.1 ++ ":" ++ showRat c.2.1 ++ ":" ++ c.2.2) o.calls

def evalFn (table : Nat → List Rat) (i : Nat) (a : Extras) : List Rat := (table i).map (· + a.1)

def parseClass (s : String) : Option (Fitness.FitClass Rat) :=
  match s.splitOn ":" with
  | [p, w] => do
      let parent ← if p = "b" then some none else (parseNat p).map some
      let weights ← if w = "none" then some none else (parseList parseRat w).map some
      some ⟨weights, parent⟩
  | _ => none

/-- the class statements in creation order; a parent that does not exist yet is malformed input -/
def parseTable (s : String) : Option (Fitness.ClassTable Rat) := do
  let ks ← (s.splitOn ";").mapM parseClass
  ks.foldlM Fitness.defClass []

def handle : List String → String
  | ["fam", tbl, cls, "delta", feas, "@", delta, dist, f0, shift, tag] =>
    match (do
      let t ← parseTable tbl; let c ← parseNat cls
      let fe ← parseBool feas; let d ← parseSV delta
      let di ← parseDist dist; let t0 ← parseList parseRat f0; let sh ← parseRat shift
      deltaPenaltyCls t (fun (_ : Nat) => c) (fun _ => fe) d (di.map fun v _ => v)
        (evalFn fun _ => t0) 0 (sh, tag)) with
    | some o => showOut o
    | none => "bad-op"
  | ["fam", tbl, cls, "closest", feas, "@", alpha, dist, cid, f0, fc, shift, tag] =>
    match (do
      let t ← parseTable tbl; let k ← parseNat cls
      let fe ← parseBool feas; let al ← parseRat alpha
      let di ← parseDist dist; let c ← parseNat cid
      let t0 ← parseList parseRat f0; let tc ← parseList parseRat fc; let sh ← parseRat shift
      if c > 1 then none else
      closestValidPenaltyCls t (fun (_ : Nat) => k) (fun _ => fe) (fun _ => c) al
        (di.map fun v fi x => if fi = c ∧ x = 0 then v else .seq [])
        (evalFn fun i => if i = 0 then t0 else tc) 0 (sh, tag)) with
    | some o => showOut o
    | none => "bad-op"
  | ["delta", feas, ws, delta, dist, f0, shift, tag] =>
    match (do
      let fe ← parseBool feas; let w ← parseList parseRat ws; let d ← parseSV delta
      let di ← parseDist dist; let t0 ← parseList parseRat f0; let sh ← parseRat shift
      pure (fe, w, d, di, t0, sh)) with
    | some (fe, w, d, di, t0, sh) =>
      showOut (deltaPenalty (fun _ => fe) d (di.map fun v _ => v) (fun _ => w)
        (evalFn fun _ => t0) 0 (sh, tag))
    | none => "bad-op"
  | ["closest", feas, ws, alpha, dist, cid, f0, fc, shift, tag] =>
    match (do
      let fe ← parseBool feas; let w ← parseList parseRat ws; let al ← parseRat alpha
      let di ← parseDist dist; let c ← parseNat cid
      let t0 ← parseList parseRat f0; let tc ← parseList parseRat fc; let sh ← parseRat shift
      if c > 1 then none else pure (fe, w, al, di, c, t0, tc, sh)) with
    | some (fe, w, al, di, c, t0, tc, sh) =>
      showOut (closestValidPenalty (fun _ => fe) (fun _ => c) al
        (di.map fun v fi x => if fi = c ∧ x = 0 then v else .seq [])
        (fun _ => w) (evalFn fun i => if i = 0 then t0 else tc) 0 (sh, tag))
    | none => "bad-op"
  | _ => "bad-op"

end DriverC19
