import Driver.Proto
/-! Protocol handler for C09 (stub until the model is built). -/
namespace DriverC09

def handle : List String → String
  | _ => "bad-op"

end DriverC09
