import DeapModel.Core.CrossMut
import DeapModel.Core.CrossMutBuf
import Driver.Proto
/-!
Protocol handler for C09 (discrete crossovers and mutations).

Requests (tokens after `C09`), lists are comma separated, `-` = empty list:

* `onepoint L1 L2 cx`, `twopoint L1 L2 c1 c2`, `messy L1 L2 c1 c2` (integer genes)
* `uniform L1 L2 indpb RS` (`indpb` and the `random()` results `RS` as float bit patterns)
* `estwopoint G1 S1 G2 S2 c1 c2`; `twopoints …` / `estwopoints …` = the documented former names
* `pmx L1 L2 c1 c2`, `upmx L1 L2 indpb RS`, `ox L1 L2 a b` (natural-number genes)
* `shuffle L indpb RS VS`, `flip L indpb RS`, `flipb L indpb RS` (Boolean genes), `flipf` (float-coded
  genes; flip answers carry the gene-type signature of the mutant as an extra token),
  `uniformint L LOW UP indpb RS VS` (`LOW`,`UP` = `s:<int>` or `q:<list>`), `inversion L i1 i2`

* `buf <op> <the arguments of op>`: the same operator over the buffer model (`Core/Buffer.lean`,
  `Core/CrossMutBuf.lean`) under BOTH slice disciplines; answer `copy <R> view <R>` with `R` = the contents
  of the argument objects after the call and the returned ids, or `raise:<Exception> <contents>` when the
  run raised (the contents as the exception left them); for `estwopoint(s)` the answer is
  `cc <R> vv <R> vc <R>` (disciplines of the individuals and of their strategies);
  `bufc <op> …` answers the `copy` (`cc`) part only
* `hist <event> <event> …`: a HISTORY of events in one process, run on the machine `OpHistory` (state = the heaps of
  objects only).  Event tokens (fields separated by `/`): `nP/L` `nG/L` `nS/L` (the caller creates a permutation /
  integer / strategy object; these come first), `sP/id/L` … (the caller stores into its object), `P/d/<op>/…` and
  `G/d/<op>/…` (generic operator on permutation / integer objects, `d` = `c` copy or `v` view, the arguments are object
  ids then the draws), `pmx/d/i1/i2/c1/c2`, `upmx/d/i1/i2/indpb/RS`, `ox/d/i1/i2/a/b`, `ui/d/i/LOW/UP/indpb/RS/VS`
  (`LOW`,`UP` = `s:<int>` or `o:<id>`: a bound OBJECT, read when the call is made), `es/dg/ds/i1/i2/s1/s2/p1/p2`, `ess/…`,
  `rf/<Exception>/P|G/ids` (a call that raised before it touched an object).  Answer: for every event
  `ok:<returned ids>` or `raise:<Exception>` followed by the contents of the objects it names, events separated by ` | `,
  then `end` and every object of the process

Answers: the contents of the argument objects after the call followed by the ids of the returned
objects (the arguments carry the ids 0,1,… in argument order; ES strategies 2,3);
`reject` when the guard of the operator fails (the Python code raises / the draws are impossible);
`bad-op` for anything malformed.
-/
namespace DriverC09
open Proto CrossMut

def showInts (l : List Int) : String := showList (fun (x : Int) => toString x) l
def showNats (l : List Nat) : String := showList (fun (x : Nat) => toString x) l
def showBools (l : List Bool) : String := showList showBool l

/-- the heap holding the arguments as objects 0 and 1 -/
def heap2 {α : Type} (l1 l2 : List α) : Heap α := fun o => if o = 0 then l1 else if o = 1 then l2 else []

def answer2 {α : Type} (sh : List α → String) (f : List α → List α → List α × List α) (l1 l2 : List α) : String :=
  let r := inPlace2 f (heap2 l1 l2) 0 1
  sh (r.2 0) ++ " " ++ sh (r.2 1) ++ " " ++ toString r.1.1 ++ " " ++ toString r.1.2

def answer1 {α : Type} (sh : List α → String) (f : List α → List α) (l : List α) : String :=
  let r := inPlace1 f (heap2 l []) 0
  sh (r.2 0) ++ " " ++ toString r.1

/-- `type(x)(not x)` keeps the gene type: the type signature of the mutant (one letter per gene) -/
def typeSig (c : Char) (n : Nat) : String := if n = 0 then "-" else String.ofList (List.replicate n c)

def answerFlip {α : Type} (sh : List α → String) (c : Char) (f : List α → List α) (l : List α) : String :=
  let r := inPlace1 f (heap2 l []) 0
  sh (r.2 0) ++ " " ++ typeSig c (r.2 0).length ++ " " ++ toString r.1

def parseBound (s : String) : Option Bound :=
  if s.startsWith "s:" then (parseInt (s.drop 2).toString).map Bound.scalar
  else if s.startsWith "q:" then (parseList parseInt (s.drop 2).toString).map Bound.seq
  else none

/-! ### the buffer model under both disciplines -/
section Buf
open Buffer

def showErr : Err → String
  | .index => "IndexError"
  | .value => "ValueError"
  | .tape => "tape"

def res2 {α : Type} (sh : List α → String) : Res (Buffer.Heap α) (Nat × Nat) → String
  | .ok v h => sh (h.cell 0) ++ " " ++ sh (h.cell 1) ++ " " ++ toString v.1 ++ " " ++ toString v.2
  | .raise e h => "raise:" ++ showErr e ++ " " ++ sh (h.cell 0) ++ " " ++ sh (h.cell 1)

def res1 {α : Type} (sh : List α → String) : Res (Buffer.Heap α) Nat → String
  | .ok v h => sh (h.cell 0) ++ " " ++ toString v
  | .raise e h => "raise:" ++ showErr e ++ " " ++ sh (h.cell 0)

def both2 {α : Type} (sh : List α → String) (op : Disc → M α (Nat × Nat)) (l1 l2 : List α) : String :=
  "copy " ++ res2 sh (op .copy (Buffer.heap2 l1 l2)) ++ " view " ++ res2 sh (op .view (Buffer.heap2 l1 l2))

def both1 {α : Type} (sh : List α → String) (op : Disc → M α Nat) (l : List α) : String :=
  "copy " ++ res1 sh (op .copy (Buffer.heap1 l)) ++ " view " ++ res1 sh (op .view (Buffer.heap1 l))

/-- the strategy attributes are the objects 0, 1 of the second heap; they are written in place and keep the
ids 2, 3 of the protocol (the convention of `inPlaceES`) -/
def resES : Res (Buffer.Heap Int × Buffer.Heap Int) (Nat × Nat) → String
  | .ok v h => showInts (h.1.cell 0) ++ " " ++ showInts (h.2.cell 0) ++ " " ++ showInts (h.1.cell 1) ++ " "
      ++ showInts (h.2.cell 1) ++ " " ++ toString v.1 ++ " " ++ toString v.2 ++ " 2 3"
  | .raise e h => "raise:" ++ showErr e ++ " " ++ showInts (h.1.cell 0) ++ " " ++ showInts (h.2.cell 0) ++ " "
      ++ showInts (h.1.cell 1) ++ " " ++ showInts (h.2.cell 1)

def handleBuf : List String → String
  | ["onepoint", a, b, c] =>
    match (do let l1 ← parseList parseInt a; let l2 ← parseList parseInt b; let cx ← parseNat c; pure (l1, l2, cx)) with
    | some (l1, l2, cx) =>
      if cxOnePointOk l1 l2 cx then both2 showInts (fun d => CrossMutBuf.cxOnePoint d 0 1 cx) l1 l2 else "reject"
    | none => "bad-op"
  | ["twopoint", a, b, c, d] =>
    match (do let l1 ← parseList parseInt a; let l2 ← parseList parseInt b; let c1 ← parseNat c; let c2 ← parseNat d
              pure (l1, l2, c1, c2)) with
    | some (l1, l2, c1, c2) =>
      if cxTwoPointOk l1 l2 c1 c2 then both2 showInts (fun d => CrossMutBuf.cxTwoPoint d 0 1 c1 c2) l1 l2 else "reject"
    | none => "bad-op"
  | ["twopoints", a, b, c, d] =>
    match (do let l1 ← parseList parseInt a; let l2 ← parseList parseInt b; let c1 ← parseNat c; let c2 ← parseNat d
              pure (l1, l2, c1, c2)) with
    | some (l1, l2, c1, c2) =>
      if cxTwoPointOk l1 l2 c1 c2 then both2 showInts (fun d => CrossMutBuf.cxTwoPoints d 0 1 c1 c2) l1 l2 else "reject"
    | none => "bad-op"
  | ["messy", a, b, c, d] =>
    match (do let l1 ← parseList parseInt a; let l2 ← parseList parseInt b; let c1 ← parseNat c; let c2 ← parseNat d
              pure (l1, l2, c1, c2)) with
    | some (l1, l2, c1, c2) =>
      if cxMessyOnePointOk l1 l2 c1 c2 then both2 showInts (fun d => CrossMutBuf.cxMessyOnePoint d 0 1 c1 c2) l1 l2
      else "reject"
    | none => "bad-op"
  | [es, g1, s1, g2, s2, c, d] =>
    if es = "estwopoint" || es = "estwopoints" then
      match (do let a1 ← parseList parseInt g1; let b1 ← parseList parseInt s1
                let a2 ← parseList parseInt g2; let b2 ← parseList parseInt s2
                let c1 ← parseNat c; let c2 ← parseNat d; pure (a1, b1, a2, b2, c1, c2)) with
      | some (a1, b1, a2, b2, c1, c2) =>
        if cxESTwoPointOk (⟨a1, b1⟩ : ESInd Int Int) ⟨a2, b2⟩ c1 c2 then
          let run := fun (dg ds : Disc) =>
            if es = "estwopoint" then
              CrossMutBuf.cxESTwoPoint dg ds 0 1 0 1 c1 c2 (Buffer.heap2 a1 a2, Buffer.heap2 b1 b2)
            else CrossMutBuf.cxESTwoPoints dg ds 0 1 0 1 c1 c2 (Buffer.heap2 a1 a2, Buffer.heap2 b1 b2)
          "cc " ++ resES (run .copy .copy) ++ " vv " ++ resES (run .view .view) ++ " vc " ++ resES (run .view .copy)
        else "reject"
      | none => "bad-op"
    else if es = "uniformint" then
      match (do let l ← parseList parseInt g1; let low ← parseBound s1; let up ← parseBound g2; let pb ← parseFloat s2
                let rs ← parseList parseFloat c; let vs ← parseList parseInt d; pure (l, low, up, pb, rs, vs)) with
      | some (l, low, up, pb, rs, vs) =>
        match mutUniformIntR l low up pb rs vs with
        | some _ => both1 showInts (fun dd => CrossMutBuf.mutUniformInt dd 0 low up (drawOpts pb rs vs)) l
        | none => "reject"
      | none => "bad-op"
    else "bad-op"
  | ["uniform", a, b, p, r] =>
    match (do let l1 ← parseList parseInt a; let l2 ← parseList parseInt b; let pb ← parseFloat p
              let rs ← parseList parseFloat r; pure (l1, l2, pb, rs)) with
    | some (l1, l2, pb, rs) =>
      if cxUniformOk l1 l2 (decisions pb rs) then
        both2 showInts (fun d => CrossMutBuf.cxUniform d 0 1 (decisions pb rs)) l1 l2 else "reject"
    | none => "bad-op"
  | ["pmx", a, b, c, d] =>
    match (do let l1 ← parseList parseNat a; let l2 ← parseList parseNat b; let c1 ← parseNat c; let c2 ← parseNat d
              pure (l1, l2, c1, c2)) with
    | some (l1, l2, c1, c2) =>
      if cxPartialyMatchedOk l1 l2 c1 c2 then both2 showNats (fun d => CrossMutBuf.cxPartialyMatched d 0 1 c1 c2) l1 l2
      else "reject"
    | none => "bad-op"
  | ["upmx", a, b, p, r] =>
    match (do let l1 ← parseList parseNat a; let l2 ← parseList parseNat b; let pb ← parseFloat p
              let rs ← parseList parseFloat r; pure (l1, l2, pb, rs)) with
    | some (l1, l2, pb, rs) =>
      if cxUniformPartialyMatchedOk l1 l2 (decisions pb rs) then
        both2 showNats (fun d => CrossMutBuf.cxUniformPartialyMatched d 0 1 (decisions pb rs)) l1 l2 else "reject"
    | none => "bad-op"
  | ["ox", a, b, c, d] =>
    match (do let l1 ← parseList parseNat a; let l2 ← parseList parseNat b; let c1 ← parseNat c; let c2 ← parseNat d
              pure (l1, l2, c1, c2)) with
    | some (l1, l2, c1, c2) =>
      if cxOrderedOk l1 l2 c1 c2 then both2 showNats (fun d => CrossMutBuf.cxOrdered d 0 1 c1 c2) l1 l2 else "reject"
    | none => "bad-op"
  | ["shuffle", a, p, r, v] =>
    match (do let l ← parseList parseInt a; let pb ← parseFloat p; let rs ← parseList parseFloat r
              let vs ← parseList parseNat v; pure (l, pb, rs, vs)) with
    | some (l, pb, rs, vs) =>
      if mutShuffleIndexesOk l (drawOpts pb rs vs) then
        both1 showInts (fun d => CrossMutBuf.mutShuffleIndexes d 0 (drawOpts pb rs vs)) l
      else "reject"
    | none => "bad-op"
  | ["flip", a, p, r] =>
    match (do let l ← parseList parseInt a; let pb ← parseFloat p; let rs ← parseList parseFloat r; pure (l, pb, rs)) with
    | some (l, pb, rs) =>
      if mutFlipBitOk l (decisions pb rs) then both1 showInts (fun d => CrossMutBuf.mutFlipBit d 0 (decisions pb rs)) l
      else "reject"
    | none => "bad-op"
  | ["flipf", a, p, r] =>
    match (do let l ← parseList parseInt a; let pb ← parseFloat p; let rs ← parseList parseFloat r; pure (l, pb, rs)) with
    | some (l, pb, rs) =>
      if mutFlipBitOk l (decisions pb rs) then both1 showInts (fun d => CrossMutBuf.mutFlipBit d 0 (decisions pb rs)) l
      else "reject"
    | none => "bad-op"
  | ["flipb", a, p, r] =>
    match (do let l ← parseList parseBool a; let pb ← parseFloat p; let rs ← parseList parseFloat r; pure (l, pb, rs)) with
    | some (l, pb, rs) =>
      if mutFlipBitOk l (decisions pb rs) then both1 showBools (fun d => CrossMutBuf.mutFlipBit d 0 (decisions pb rs)) l
      else "reject"
    | none => "bad-op"
  | ["inversion", a, c, d] =>
    match (do let l ← parseList parseInt a; let i1 ← parseNat c; let i2 ← parseNat d; pure (l, i1, i2)) with
    | some (l, i1, i2) =>
      if mutInversionOk l i1 i2 then both1 showInts (fun dd => CrossMutBuf.mutInversion dd 0 i1 i2) l else "reject"
    | none => "bad-op"
  | _ => "bad-op"

end Buf

/-! ### histories (`hist`): several calls in ONE process over the machine `OpHistory` of `Core/CrossMutBuf.lean` -/
section Hist
open Buffer OpHistory

def parseDisc (s : String) : Option Disc :=
  if s = "c" then some .copy else if s = "v" then some .view else none

def parseErr (s : String) : Option Err :=
  if s = "IndexError" then some .index else if s = "ValueError" then some .value else none

def parseBRef (s : String) : Option BRef :=
  if s.startsWith "s:" then (parseInt (s.drop 2).toString).map BRef.scalar
  else if s.startsWith "o:" then (parseNat (s.drop 2).toString).map BRef.obj
  else none

/-- a generic operator and the ids of the objects it names -/
def parseGen : List String → Option (Gen × List Nat)
  | ["onepoint", a, b, c] => do
    let i1 ← parseNat a; let i2 ← parseNat b; let cx ← parseNat c; pure (.onepoint i1 i2 cx, [i1, i2])
  | ["twopoint", a, b, c, d] => do
    let i1 ← parseNat a; let i2 ← parseNat b; let c1 ← parseNat c; let c2 ← parseNat d; pure (.twopoint i1 i2 c1 c2, [i1, i2])
  | ["twopoints", a, b, c, d] => do
    let i1 ← parseNat a; let i2 ← parseNat b; let c1 ← parseNat c; let c2 ← parseNat d; pure (.twopoints i1 i2 c1 c2, [i1, i2])
  | ["messy", a, b, c, d] => do
    let i1 ← parseNat a; let i2 ← parseNat b; let c1 ← parseNat c; let c2 ← parseNat d; pure (.messy i1 i2 c1 c2, [i1, i2])
  | ["uniform", a, b, p, r] => do
    let i1 ← parseNat a; let i2 ← parseNat b; let pb ← parseFloat p; let rs ← parseList parseFloat r
    pure (.uniform i1 i2 (decisions pb rs), [i1, i2])
  | ["shuffle", a, p, r, v] => do
    let i ← parseNat a; let pb ← parseFloat p; let rs ← parseList parseFloat r; let vs ← parseList parseNat v
    pure (.shuffle i (drawOpts pb rs vs), [i])
  | ["flip", a, p, r] => do
    let i ← parseNat a; let pb ← parseFloat p; let rs ← parseList parseFloat r; pure (.flip i (decisions pb rs), [i])
  | ["inversion", a, c, d] => do
    let i ← parseNat a; let i1 ← parseNat c; let i2 ← parseNat d; pure (.inversion i i1 i2, [i])
  | _ => none

/-- what is printed after an event: the objects it names, heap by heap -/
structure Watch where
  perm : List Nat := []
  gene : List Nat := []
  strat : List Nat := []

def brefObjs : BRef → List Nat
  | .scalar _ => []
  | .obj id => [id]

def parseEvent (tok : String) : Option (Event × Watch) :=
  match tok.splitOn "/" with
  | ["nP", l] => (parseList parseNat l).map fun v => (.newP v, {})
  | ["nG", l] => (parseList parseInt l).map fun v => (.newG v, {})
  | ["nS", l] => (parseList parseInt l).map fun v => (.newS v, {})
  | ["sP", i, l] => do let id ← parseNat i; let v ← parseList parseNat l; pure (.storeP id v, {})
  | ["sG", i, l] => do let id ← parseNat i; let v ← parseList parseInt l; pure (.storeG id v, {})
  | ["sS", i, l] => do let id ← parseNat i; let v ← parseList parseInt l; pure (.storeS id v, {})
  | ["rf", e, slot, l] => do
    let err ← parseErr e; let ids ← parseList parseNat l
    if slot = "P" then pure (.refused err, { perm := ids })
    else if slot = "G" then pure (.refused err, { gene := ids })
    else none
  | "P" :: d :: rest => do let dd ← parseDisc d; let g ← parseGen rest; pure (.permOp dd g.1, { perm := g.2 })
  | "G" :: d :: rest => do let dd ← parseDisc d; let g ← parseGen rest; pure (.geneOp dd g.1, { gene := g.2 })
  | ["pmx", d, a, b, c, e] => do
    let dd ← parseDisc d; let i1 ← parseNat a; let i2 ← parseNat b; let c1 ← parseNat c; let c2 ← parseNat e
    pure (.pmx dd i1 i2 c1 c2, { perm := [i1, i2] })
  | ["upmx", d, a, b, p, r] => do
    let dd ← parseDisc d; let i1 ← parseNat a; let i2 ← parseNat b; let pb ← parseFloat p; let rs ← parseList parseFloat r
    pure (.upmx dd i1 i2 (decisions pb rs), { perm := [i1, i2] })
  | ["ox", d, a, b, c, e] => do
    let dd ← parseDisc d; let i1 ← parseNat a; let i2 ← parseNat b; let c1 ← parseNat c; let c2 ← parseNat e
    pure (.ox dd i1 i2 c1 c2, { perm := [i1, i2] })
  | ["ui", d, a, lo, hi, p, r, v] => do
    let dd ← parseDisc d; let i ← parseNat a; let low ← parseBRef lo; let up ← parseBRef hi; let pb ← parseFloat p
    let rs ← parseList parseFloat r; let vs ← parseList parseInt v
    pure (.uniformint dd i low up (drawOpts pb rs vs), { gene := [i] ++ brefObjs low ++ brefObjs up })
  | [es, dg, ds, a, b, c, d, e, f] => do
    let g ← parseDisc dg; let s ← parseDisc ds; let i1 ← parseNat a; let i2 ← parseNat b; let s1 ← parseNat c
    let s2 ← parseNat d; let p1 ← parseNat e; let p2 ← parseNat f
    if es = "es" then pure (.es g s i1 i2 s1 s2 p1 p2, { gene := [i1, i2], strat := [s1, s2] })
    else if es = "ess" then pure (.ess g s i1 i2 s1 s2 p1 p2, { gene := [i1, i2], strat := [s1, s2] })
    else none
  | _ => none

def showOutcome : Outcome → String
  | .ok ret => "ok:" ++ showNats ret
  | .raise e => "raise:" ++ showErr e

def showWatch (st : State) (w : Watch) : String :=
  String.join (w.perm.map fun id => " P" ++ toString id ++ "=" ++ showNats (st.perm.cell id))
  ++ String.join (w.gene.map fun id => " G" ++ toString id ++ "=" ++ showInts (st.gene.cell id))
  ++ String.join (w.strat.map fun id => " S" ++ toString id ++ "=" ++ showInts (st.strat.cell id))

/-- every object the caller created (the `new` events come first, so these are the ids below the counts) -/
def dump (st : State) (np ng ns : Nat) : String :=
  showWatch st { perm := List.range np, gene := List.range ng, strat := List.range ns }

def runHist : List (Event × Watch) → State → Nat × Nat × Nat → List String → String
  | [], st, (np, ng, ns), acc => " | ".intercalate (acc.reverse ++ ["end" ++ dump st np ng ns])
  | (e, w) :: rest, st, (np, ng, ns), acc =>
    let r := step st e
    let cnt := match e with
      | .newP _ => (np + 1, ng, ns)
      | .newG _ => (np, ng + 1, ns)
      | .newS _ => (np, ng, ns + 1)
      | _ => (np, ng, ns)
    runHist rest r.2 cnt ((showOutcome r.1 ++ showWatch r.2 w) :: acc)

def handleHist (toks : List String) : String :=
  match toks.mapM parseEvent with
  | some evs => if evs.isEmpty then "bad-op" else runHist evs OpHistory.init (0, 0, 0) []
  | none => "bad-op"

end Hist

/-- the `copy` part of a `buf` answer only (`bufc`): for a call whose numpy run behaved like the list run -/
def copyPart (ans : String) : String :=
  match (ans.splitOn " view ") with
  | a :: _ :: _ => a
  | _ =>
    match (ans.splitOn " vv ") with
    | a :: _ :: _ => a
    | _ => ans

def handle : List String → String
  | "buf" :: rest => handleBuf rest
  | "hist" :: rest => handleHist rest
  | "bufc" :: rest => copyPart (handleBuf rest)
  | ["onepoint", a, b, c] =>
    match (do let l1 ← parseList parseInt a; let l2 ← parseList parseInt b; let cx ← parseNat c; pure (l1, l2, cx)) with
    | some (l1, l2, cx) =>
      if cxOnePointOk l1 l2 cx then answer2 showInts (fun x y => cxOnePoint x y cx) l1 l2 else "reject"
    | none => "bad-op"
  | ["twopoint", a, b, c, d] =>
    match (do let l1 ← parseList parseInt a; let l2 ← parseList parseInt b; let c1 ← parseNat c; let c2 ← parseNat d
              pure (l1, l2, c1, c2)) with
    | some (l1, l2, c1, c2) =>
      if cxTwoPointOk l1 l2 c1 c2 then answer2 showInts (fun x y => cxTwoPoint x y c1 c2) l1 l2 else "reject"
    | none => "bad-op"
  | ["twopoints", a, b, c, d] =>
    -- the documented former name `cxTwoPoints`
    match (do let l1 ← parseList parseInt a; let l2 ← parseList parseInt b; let c1 ← parseNat c; let c2 ← parseNat d
              pure (l1, l2, c1, c2)) with
    | some (l1, l2, c1, c2) =>
      if cxTwoPointOk l1 l2 c1 c2 then answer2 showInts (fun x y => cxTwoPoints x y c1 c2) l1 l2 else "reject"
    | none => "bad-op"
  | ["estwopoints", g1, s1, g2, s2, c, d] =>
    -- the documented former name `cxESTwoPoints` (ids by the convention of `inPlaceES`)
    match (do let a1 ← parseList parseInt g1; let b1 ← parseList parseInt s1
              let a2 ← parseList parseInt g2; let b2 ← parseList parseInt s2
              let c1 ← parseNat c; let c2 ← parseNat d; pure (a1, b1, a2, b2, c1, c2)) with
    | some (a1, b1, a2, b2, c1, c2) =>
      if cxESTwoPointOk (⟨a1, b1⟩ : ESInd Int Int) ⟨a2, b2⟩ c1 c2 then
        let r := cxESTwoPoints (⟨a1, b1⟩ : ESInd Int Int) ⟨a2, b2⟩ c1 c2
        showInts r.1.genes ++ " " ++ showInts r.1.strategy ++ " " ++ showInts r.2.genes ++ " "
          ++ showInts r.2.strategy ++ " 0 1 2 3"
      else "reject"
    | none => "bad-op"
  | ["messy", a, b, c, d] =>
    match (do let l1 ← parseList parseInt a; let l2 ← parseList parseInt b; let c1 ← parseNat c; let c2 ← parseNat d
              pure (l1, l2, c1, c2)) with
    | some (l1, l2, c1, c2) =>
      if cxMessyOnePointOk l1 l2 c1 c2 then answer2 showInts (fun x y => cxMessyOnePoint x y c1 c2) l1 l2 else "reject"
    | none => "bad-op"
  | ["uniform", a, b, p, r] =>
    match (do let l1 ← parseList parseInt a; let l2 ← parseList parseInt b; let pb ← parseFloat p
              let rs ← parseList parseFloat r; pure (l1, l2, pb, rs)) with
    | some (l1, l2, pb, rs) =>
      if cxUniformOk l1 l2 (decisions pb rs) then answer2 showInts (fun x y => cxUniformR x y pb rs) l1 l2 else "reject"
    | none => "bad-op"
  | ["estwopoint", g1, s1, g2, s2, c, d] =>
    match (do let a1 ← parseList parseInt g1; let b1 ← parseList parseInt s1
              let a2 ← parseList parseInt g2; let b2 ← parseList parseInt s2
              let c1 ← parseNat c; let c2 ← parseNat d; pure (a1, b1, a2, b2, c1, c2)) with
    | some (a1, b1, a2, b2, c1, c2) =>
      if cxESTwoPointOk (⟨a1, b1⟩ : ESInd Int Int) ⟨a2, b2⟩ c1 c2 then
        let hg : Heap Int := heap2 a1 a2
        let hs : Heap Int := fun o => if o = 2 then b1 else if o = 3 then b2 else []
        let r := inPlaceES hg hs 0 1 2 3 c1 c2
        showInts (r.2.2.1 0) ++ " " ++ showInts (r.2.2.2 2) ++ " " ++ showInts (r.2.2.1 1) ++ " "
          ++ showInts (r.2.2.2 3) ++ " " ++ toString r.1.1 ++ " " ++ toString r.1.2 ++ " "
          ++ toString r.2.1.1 ++ " " ++ toString r.2.1.2
      else "reject"
    | none => "bad-op"
  | ["pmx", a, b, c, d] =>
    match (do let l1 ← parseList parseNat a; let l2 ← parseList parseNat b; let c1 ← parseNat c; let c2 ← parseNat d
              pure (l1, l2, c1, c2)) with
    | some (l1, l2, c1, c2) =>
      if cxPartialyMatchedOk l1 l2 c1 c2 then answer2 showNats (fun x y => cxPartialyMatched x y c1 c2) l1 l2 else "reject"
    | none => "bad-op"
  | ["upmx", a, b, p, r] =>
    match (do let l1 ← parseList parseNat a; let l2 ← parseList parseNat b; let pb ← parseFloat p
              let rs ← parseList parseFloat r; pure (l1, l2, pb, rs)) with
    | some (l1, l2, pb, rs) =>
      if cxUniformPartialyMatchedOk l1 l2 (decisions pb rs) then
        answer2 showNats (fun x y => cxUniformPartialyMatchedR x y pb rs) l1 l2 else "reject"
    | none => "bad-op"
  | ["ox", a, b, c, d] =>
    match (do let l1 ← parseList parseNat a; let l2 ← parseList parseNat b; let c1 ← parseNat c; let c2 ← parseNat d
              pure (l1, l2, c1, c2)) with
    | some (l1, l2, c1, c2) =>
      if cxOrderedOk l1 l2 c1 c2 then answer2 showNats (fun x y => cxOrdered x y c1 c2) l1 l2 else "reject"
    | none => "bad-op"
  | ["shuffle", a, p, r, v] =>
    match (do let l ← parseList parseInt a; let pb ← parseFloat p; let rs ← parseList parseFloat r
              let vs ← parseList parseNat v; pure (l, pb, rs, vs)) with
    | some (l, pb, rs, vs) =>
      if mutShuffleIndexesOk l (drawOpts pb rs vs) then
        match mutShuffleIndexesR l pb rs vs with
        | some _ => answer1 showInts (fun x => (mutShuffleIndexesR x pb rs vs).getD x) l
        | none => "reject"
      else "reject"
    | none => "bad-op"
  | ["flip", a, p, r] =>
    match (do let l ← parseList parseInt a; let pb ← parseFloat p; let rs ← parseList parseFloat r; pure (l, pb, rs)) with
    | some (l, pb, rs) =>
      if mutFlipBitOk l (decisions pb rs) then answerFlip showInts 'i' (fun x => mutFlipBitR x pb rs) l else "reject"
    | none => "bad-op"
  | ["flipf", a, p, r] =>
    -- float-coded genes (integral values travel as integers): `float(not x)` is `1.0` for `0.0`, else `0.0`
    match (do let l ← parseList parseInt a; let pb ← parseFloat p; let rs ← parseList parseFloat r; pure (l, pb, rs)) with
    | some (l, pb, rs) =>
      if mutFlipBitOk l (decisions pb rs) then answerFlip showInts 'f' (fun x => mutFlipBitR x pb rs) l else "reject"
    | none => "bad-op"
  | ["flipb", a, p, r] =>
    match (do let l ← parseList parseBool a; let pb ← parseFloat p; let rs ← parseList parseFloat r; pure (l, pb, rs)) with
    | some (l, pb, rs) =>
      if mutFlipBitOk l (decisions pb rs) then answerFlip showBools 'b' (fun x => mutFlipBitR x pb rs) l else "reject"
    | none => "bad-op"
  | ["uniformint", a, lo, hi, p, r, v] =>
    match (do let l ← parseList parseInt a; let low ← parseBound lo; let up ← parseBound hi; let pb ← parseFloat p
              let rs ← parseList parseFloat r; let vs ← parseList parseInt v; pure (l, low, up, pb, rs, vs)) with
    | some (l, low, up, pb, rs, vs) =>
      match mutUniformIntR l low up pb rs vs with
      | some _ =>
        -- the mutation as a heap transformer (its result is known to be `out` at this point)
        answer1 showInts (fun x => (mutUniformIntR x low up pb rs vs).getD x) l
      | none => "reject"
    | none => "bad-op"
  | ["inversion", a, c, d] =>
    match (do let l ← parseList parseInt a; let i1 ← parseNat c; let i2 ← parseNat d; pure (l, i1, i2)) with
    | some (l, i1, i2) =>
      if mutInversionOk l i1 i2 then answer1 showInts (fun x => mutInversion x i1 i2) l else "reject"
    | none => "bad-op"
  | _ => "bad-op"

end DriverC09
