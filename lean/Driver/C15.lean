import DeapModel.Core.Hypervolume
import DeapModel.Core.HvSweep
import DeapModel.Core.HvC
import Driver.Proto
/-!
Protocol handler for C15 (hypervolume).

  hv    <ref> <pts>              → hvSlice ref pts                       (executable definition)
  cells <ref> <pts>              → hvCells ref pts                       (specification; small inputs)
  ie    <ref> <pts>              → hvIE ref pts                          (inclusion–exclusion; small inputs)
  sweep <ref> <pts>              → the transcribed pyhv algorithm (`HvSweep.computeSt`): value, number of
                                   hvRecursive calls per dimIndex, final node order of every dimension list,
                                   ignore flags, area and volume caches per node, bounds  (needs ≥ 1 dimension, ≥ 1 point)
  chv   <ref> <pts>              → the transcribed C routine `_hv.c` (`HvC.fpliHv`): first token `ok` iff its value equals
                                   `hvSlice ref pts` (else `differs-from-hvSlice:<hvSlice>`), then the value  (≥ 1 dimension, ≥ 1 point)
  chvst <ref> <pts>              → `HvC.fpliHvSt`: value, `hv_recursive` calls per dim, node order of every dimension list,
                                   ignore flags, area, vol, bound, domr  (used to validate the transcription against an
                                   instrumented build of `_hv.c`; the check itself compares values only)
  hvtol <ref> <pts> <value> <tol>    → `within` iff |value − hvSlice ref pts| ≤ tol · hvSlice ref pts (float regime:
                                       the doubles travel as their exact rational values), else `off:<exact>`
  lootol <ref> <pts> <idx> <tol>     → `within` iff idx is an index whose exact leave-one-out loss exceeds the least
                                       one by at most tol · hvSlice ref pts, else `off:<first least contributor>`
  pop   <weights> <vals> <ref|none>  → populationHV  and the reference point used
  ind   <weights> <vals> <ref|none>  → leastContributor  and the leave-one-out hypervolumes

`<ref>`, `<weights>`: comma-separated rationals; `<pts>`, `<vals>`: `;`-separated points, `-` = no point.
Every point must have the length of the reference point / weights, otherwise `bad-op`.
-/
namespace DriverC15
open Proto Hypervolume

def parsePts (d : Nat) (s : String) : Option (List Pt) := do
  let pts ← parseList2 parseRat s
  if pts.all (fun p => p.length == d) then some pts else none

def parseRefOpt (d : Nat) (s : String) : Option (Option (List Rat)) :=
  if s = "none" then some none else do
    let r ← parseList parseRat s
    if r.length == d then some (some r) else none

/-- walk `next[i]` from the sentinel (fuel `n + 1`) -/
def walk (S : HvSweep.St) (i : Nat) : Nat → Nat → List Nat
  | 0, _ => []
  | f + 1, a => let b := HvSweep.nx S i a; if b = 0 then [] else b :: walk S i f b

def showSweep (n dims : Nat) (r : Option (Rat × HvSweep.St)) : String :=
  match r with
  | none => "fuel-exhausted"
  | some (v, S) =>
    let ids := (List.range n).map (· + 1)
    showRat v ++ " " ++ showList toString S.calls ++ " "
      ++ showList2 toString ((List.range dims).map (fun i => walk S i (n + 1) 0)) ++ " "
      ++ showList toString (ids.map (HvSweep.ign S)) ++ " "
      ++ showList2 showRat (ids.map (fun a => (List.range dims).map (HvSweep.ar S a))) ++ " "
      ++ showList2 showRat (ids.map (fun a => (List.range dims).map (HvSweep.vl S a))) ++ " "
      ++ showList (fun b => match b with | none => "-inf" | some x => showRat x) S.bounds

/-- walk `next[i]` of the C model from the list head (fuel `n + 1`) -/
def walkC (S : HvC.St) (i : Nat) : Nat → Nat → List Nat
  | 0, _ => []
  | f + 1, a => let b := HvC.nx S i a; if b = 0 then [] else b :: walkC S i f b

def showC (n dims : Nat) (r : Option (Rat × HvC.St)) : String :=
  match r with
  | none => "fuel-exhausted"
  | some (v, S) =>
    let ids := (List.range n).map (· + 1)
    showRat v ++ " " ++ showList toString S.calls ++ " "
      ++ showList2 toString ((List.range dims).map (fun i => walkC S i (n + 1) 0)) ++ " "
      ++ showList toString (ids.map (HvC.ign S)) ++ " "
      ++ showList2 showRat (ids.map (fun a => (List.range dims).map (HvC.ar S a))) ++ " "
      ++ showList2 showRat (ids.map (fun a => (List.range dims).map (HvC.vl S a))) ++ " "
      ++ showList (fun b => match b with | none => "-inf" | some x => showRat x) S.bound ++ " "
      ++ showList showRat (ids.map (HvC.dr S))

def absRat (q : Rat) : Rat := if q < 0 then -q else q

def minRat : List Rat → Rat
  | [] => 0
  | x :: xs => xs.foldl (fun a b => if b < a then b else a) x

def handle : List String → String
  | ["hvtol", rs, ps, vs, ts] =>
    match (do let r ← parseList parseRat rs; let p ← parsePts r.length ps; let v ← parseRat vs; let t ← parseRat ts
              pure (r, p, v, t)) with
    | some (r, p, v, t) =>
      let hv := hvSlice r p
      if absRat (v - hv) ≤ t * hv then "within" else "off:" ++ showRat hv
    | none => "bad-op"
  | ["lootol", rs, ps, is, ts] =>
    match (do let r ← parseList parseRat rs; let p ← parsePts r.length ps; let i ← parseNat is; let t ← parseRat ts
              pure (r, p, i, t)) with
    | some (r, p, i, t) =>
      if p.isEmpty then "bad-op"
      else
        let total := hvSlice r p
        let losses := (looValues r p).map (fun x => total - x)
        if i < p.length && decide (losses.getD i 0 - minRat losses ≤ t * total) then "within"
        else "off:" ++ toString (argmaxFirst (looValues r p))
    | none => "bad-op"
  | ["sweep", rs, ps] =>
    match (do let r ← parseList parseRat rs; let p ← parsePts r.length ps; pure (r, p)) with
    | some (r, p) =>
      if r.isEmpty || p.isEmpty then "bad-op"
      else
        let res := HvSweep.computeSt p r
        -- first token: the transcribed algorithm against the executable specification
        (match res with
         | some (v, _) => if v = hvSlice r p then "ok" else "differs-from-hvSlice:" ++ showRat (hvSlice r p)
         | none => "ok") ++ " " ++ showSweep p.length r.length res
    | none => "bad-op"
  | ["chv", rs, ps] =>
    match (do let r ← parseList parseRat rs; let p ← parsePts r.length ps; pure (r, p)) with
    | some (r, p) =>
      if r.isEmpty || p.isEmpty then "bad-op"
      else
        match HvC.fpliHv p r with
        | some v => (if v = hvSlice r p then "ok" else "differs-from-hvSlice:" ++ showRat (hvSlice r p)) ++ " " ++ showRat v
        | none => "fuel-exhausted"
    | none => "bad-op"
  | ["chvst", rs, ps] =>
    match (do let r ← parseList parseRat rs; let p ← parsePts r.length ps; pure (r, p)) with
    | some (r, p) =>
      if r.isEmpty || p.isEmpty then "bad-op"
      else showC p.length r.length (HvC.fpliHvSt p r)
    | none => "bad-op"
  | ["hv", rs, ps] =>
    match (do let r ← parseList parseRat rs; let p ← parsePts r.length ps; pure (r, p)) with
    | some (r, p) => showRat (hvSlice r p)
    | none => "bad-op"
  | ["cells", rs, ps] =>
    match (do let r ← parseList parseRat rs; let p ← parsePts r.length ps; pure (r, p)) with
    | some (r, p) => showRat (hvCells r p)
    | none => "bad-op"
  | ["ie", rs, ps] =>
    match (do let r ← parseList parseRat rs; let p ← parsePts r.length ps; pure (r, p)) with
    | some (r, p) => showRat (hvIE r p)
    | none => "bad-op"
  | ["pop", ws, vs, rs] =>
    match (do let w ← parseList parseRat ws; let v ← parsePts w.length vs
              let r ← parseRefOpt w.length rs; pure (w, v, r)) with
    | some (w, v, r) =>
      if v.isEmpty && r.isNone then "bad-op"          -- numpy.max of an empty array raises
      else showRat (populationHV w v r) ++ " " ++ showList showRat (r.getD (defaultRef (wobj w v)))
    | none => "bad-op"
  | ["ind", ws, vs, rs] =>
    match (do let w ← parseList parseRat ws; let v ← parsePts w.length vs
              let r ← parseRefOpt w.length rs; pure (w, v, r)) with
    | some (w, v, r) =>
      if v.isEmpty then "bad-op"                      -- numpy.argmax of an empty list raises
      else toString (leastContributor w v r) ++ " "
        ++ showList showRat (looValues (r.getD (defaultRef (wobj w v))) (wobj w v))
    | none => "bad-op"
  | _ => "bad-op"

end DriverC15
