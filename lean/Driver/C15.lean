import DeapModel.Core.Hypervolume
import Driver.Proto
/-!
Protocol handler for C15 (hypervolume).

  hv    <ref> <pts>              → hvSlice ref pts                       (executable definition)
  cells <ref> <pts>              → hvCells ref pts                       (specification; small inputs)
  ie    <ref> <pts>              → hvIE ref pts                          (inclusion–exclusion; small inputs)
  pop   <weights> <vals> <ref|none>  → populationHV  and the reference point used
  ind   <weights> <vals> <ref|none>  → leastContributor  and the leave-one-out hypervolumes

`<ref>`, `<weights>`: comma-separated rationals; `<pts>`, `<vals>`: `;`-separated points, `-` = no point.
Every point must have the length of the reference point / weights, otherwise `bad-op`.
-/
namespace DriverC15
open Proto Hypervolume

def parsePts (d : Nat) (s : String) : Option (List Pt) := do
  let pts ← parseList2 parseRat s
  if pts.all (fun p => p.length == d) then some pts else none

def parseRefOpt (d : Nat) (s : String) : Option (Option (List Rat)) :=
  if s = "none" then some none else do
    let r ← parseList parseRat s
    if r.length == d then some (some r) else none

def handle : List String → String
  | ["hv", rs, ps] =>
    match (do let r ← parseList parseRat rs; let p ← parsePts r.length ps; pure (r, p)) with
    | some (r, p) => showRat (hvSlice r p)
    | none => "bad-op"
  | ["cells", rs, ps] =>
    match (do let r ← parseList parseRat rs; let p ← parsePts r.length ps; pure (r, p)) with
    | some (r, p) => showRat (hvCells r p)
    | none => "bad-op"
  | ["ie", rs, ps] =>
    match (do let r ← parseList parseRat rs; let p ← parsePts r.length ps; pure (r, p)) with
    | some (r, p) => showRat (hvIE r p)
    | none => "bad-op"
  | ["pop", ws, vs, rs] =>
    match (do let w ← parseList parseRat ws; let v ← parsePts w.length vs
              let r ← parseRefOpt w.length rs; pure (w, v, r)) with
    | some (w, v, r) =>
      if v.isEmpty && r.isNone then "bad-op"          -- numpy.max of an empty array raises
      else showRat (populationHV w v r) ++ " " ++ showList showRat (r.getD (defaultRef (wobj w v)))
    | none => "bad-op"
  | ["ind", ws, vs, rs] =>
    match (do let w ← parseList parseRat ws; let v ← parsePts w.length vs
              let r ← parseRefOpt w.length rs; pure (w, v, r)) with
    | some (w, v, r) =>
      if v.isEmpty then "bad-op"                      -- numpy.argmax of an empty list raises
      else toString (leastContributor w v r) ++ " "
        ++ showList showRat (looValues (r.getD (defaultRef (wobj w v))) (wobj w v))
    | none => "bad-op"
  | _ => "bad-op"

end DriverC15
