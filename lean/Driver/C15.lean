import Driver.Proto
/-! Protocol handler for C15 (stub until the model is built). -/
namespace DriverC15

def handle : List String → String
  | _ => "bad-op"

end DriverC15
