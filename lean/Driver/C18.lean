import Driver.Proto
/-! Protocol handler for C18 (stub until the model is built). -/
namespace DriverC18

def handle : List String → String
  | _ => "bad-op"

end DriverC18
