import DeapModel.Core.Logbook
import DeapModel.Core.LogbookText
import DeapModel.Core.StatsHist
import Driver.Proto
/-!
Protocol handler for C18 (Logbook and Statistics).

`hist <def> … <op> …` runs a history on a fresh logbook and answers, for every operation,
`<observation>;<state>;w=<columns_len tree>[;x=<text>]` (joined by ` | `).  Names are numbers, name `0` is the
record id.

Definitions (all before the first operation): `N:<name>=<code points joined by .>` (`N:<name>=` is the empty
string) gives the Python string of a name, `V:<code>=<value>` says that the integer code stands for a value that
is not a plain integer: `n` None, `s<code points joined by .>` a string, `f+<num>/<den>` / `f-<num>/<den>` a
finite double by its exact ratio (`f-0/1` is `-0.0`), `finf`, `f-inf`, `fnan`.
`x=` is the VERBATIM text that `stream` / `str()` returned (the lines joined by newline), escaped injectively
(`\\`, `\s` space, `\t` tab, `\n` newline); `x!` when `__txt__` raises.  `w=` is `[columns_len:chapters…]`
recursively (`N` = None), chapters sorted by name.

`fmtval <value>` renders one value (`Val.format`), `center <cps> <w>`, `ljust <cps> <w>`, `etlen <cps>`
(= `len(s.expandtabs())`) are the Python string functions the text model uses.

Operations
* `R:<entry>`  record; entry = items joined by `,`: `k=v`, `k<` (open a dict under key k), `>` (close);
  `-` is the empty entry
* `L:<path>:<names>`  select on the chapter reached by `path` (`.`-separated, `-` = the logbook itself)
* `S` stream, `C:<path>` stream of the chapter at the (non-empty) path, `P` str(), `Q` str() on a logbook that need not be
  aligned (observation `-`, then the text or `x!`), `O:<i>` pop(i), `D:<i>` del [i], `X:<i,j,…>` del [slice] (index list of the slice),
  `K` pickle round trip, `H:<names|none>` set header, `G:<0|1>` set log_header

Observation: `-`; `L:<col>` / `T:<col>;<col>…` / `nopath` (None printed as `N`); `t<h>:<record ids>` for the
emitted text (h = header flag); `ok:<row>` / `raise` for pop; `ok` / `raise` for deletions.
State: `[buffindex(*):rows:chapters]` recursively (`*` = header_streamed set) (rows `/`-separated, dicts sorted by key, chapters sorted
by name as `<name>[…]`), then `;<header>;<log_header>;<header_streamed>`.

`stats k:<key> r:<name>:<fn>:<args> … d:<data>` and
`multi s:<sname>:<key> … r:<target|*>:<name>:<fn>:<args> … d:<data>` compile statistics
(tokens are applied in order; data = `;`-separated individuals, each a `,`-separated int list).

`mhist <op> …` replays a history on a fresh `MultiStatistics()` (`Core/StatsHist.lean`) and answers, for every
operation, `<observation>;<dict>` (joined by ` | `).  Objects are numbered in the order of their creation.
Operations: `n:<key>` `Statistics(key)`; `g:<id>:<name>:<fn>:<args>` `obj.register`; `R:<name>:<fn>:<args>` `ms.register`;
`s:<k>:<id>` `ms[k] = obj`; `x:<k>` `del ms[k]`; `u:<k>=<id>,…` `ms.update` (`u:-` empty); `i:<k>=<id>,…` `ms |= …`;
`t:<k>:<id>` `ms.setdefault`; `p:<k>` `ms.pop(k)`; `q` `ms.popitem()`; `c` `ms.clear()`; `f` `ms.fields`;
`F:<id>` `obj.fields`; `d:<data>` `ms.compile(data)`.
Observation: `-` None, `!` raised, `o<id>` an object, `<k>><id>` an item, `[n,n,…]` names, `{…}` the compiled record
(`<sname>{<name>=<value>,…}` separated by blanks, in dict order).  Dict: `<k>><id>,…` in insertion order, `e` when empty.
-/
namespace DriverC18
open Proto Logbook

/-! ### parsing -/

def parseItems : Nat → Bool → List String → Row → List (Name × Entry) → Option (Entry × List String)
  | 0, _, _, _, _ => none
  | _ + 1, inside, [], sc, ds => if inside then none else some (.mk sc ds, [])
  | f + 1, inside, t :: ts, sc, ds =>
    if t = ">" then (if inside then some (.mk sc ds, ts) else none)
    else if t.endsWith "<" then do
      let k ← parseNat (t.dropEnd 1).toString
      let (sub, rest) ← parseItems f true ts [] []
      parseItems f inside rest sc (ds ++ [(k, sub)])
    else match t.splitOn "=" with
      | [k, v] => do
        let k ← parseNat k
        let v ← parseInt v
        parseItems f inside ts (sc ++ [(k, v)]) ds
      | _ => none

def parseEntry (s : String) : Option Entry :=
  if s = "-" then some (.mk [] []) else
  let toks := s.splitOn ","
  match parseItems (toks.length + 1) false toks [] [] with
  | some (e, []) => some e
  | _ => none

def parsePath (s : String) : Option (List Name) :=
  if s = "-" then some [] else (s.splitOn ".").mapM parseNat

def parseOp (s : String) : Option Op :=
  match s.splitOn ":" with
  | ["R", e] => (parseEntry e).map Op.record
  | ["L", p, ns] => do pure (Op.select (← parsePath p) (← parseList parseNat ns))
  | ["S"] => some .stream
  | ["C", p] => do
      match (← parsePath p) with
      | c :: rest => pure (Op.streamAt c rest)
      | [] => none
  | ["P"] => some .str
  | ["O", i] => (parseInt i).map Op.pop
  | ["D", i] => (parseInt i).map Op.delIndex
  | ["X", idx] => (parseList parseNat idx).map Op.delSlice
  | ["K"] => some .pickle
  | ["H", h] => if h = "none" then some (.setHeader none) else (parseList parseNat h).map (fun l => Op.setHeader (some l))
  | ["G", b] => (parseBool b).map Op.setLogHeader
  | _ => none

/-! ### printing -/

def sortRow (r : Row) : Row := r.mergeSort (fun a b => a.1 ≤ b.1)

def showRow (r : Row) : String :=
  if r.isEmpty then "e" else ",".intercalate ((sortRow r).map fun p => toString p.1 ++ "=" ++ toString p.2)

def showRows (rs : List Row) : String := if rs.isEmpty then "-" else "/".intercalate (rs.map showRow)

partial def showLB (lb : LB) : String :=
  let chs := lb.chapters.mergeSort (fun a b => a.1 ≤ b.1)
  "[" ++ toString lb.buffindex ++ (if lb.headerStreamed then "*" else "") ++ ":" ++ showRows lb.rows ++ ":" ++
    (if chs.isEmpty then "-" else String.join (chs.map fun p => toString p.1 ++ showLB p.2)) ++ "]"

def showState (lb : LB) : String :=
  showLB lb ++ ";" ++ (match lb.header with | none => "none" | some h => showList toString h) ++ ";" ++
    showBool lb.logHeader ++ ";" ++ showBool lb.headerStreamed

/-- `None` (a missing name, or a field whose value is Python's `None`, which travels as the reserved
code 900001 — `dict.get(name, None)` cannot tell the two apart) is printed as `N` -/
def showCol (c : List (Option Int)) : String :=
  showList (fun (v : Option Int) => match v with | none => "N" | some 900001 => "N" | some x => toString x) c

def showObs : Obs → String
  | .none => "-"
  | .sel none => "nopath"
  | .sel (some (.single c)) => "L:" ++ showCol c
  | .sel (some (.multi cs)) => "T:" ++ (if cs.isEmpty then "-" else ";".intercalate (cs.map showCol))
  | .text t => "t" ++ showBool t.header ++ ":" ++
      showList (fun (r : Row) => match dictGet r 0 with | some v => toString v | none => "?") t.rows
  | .textAt none => "nopath"
  | .textAt (some t) => "t" ++ showBool t.header ++ ":" ++
      showList (fun (r : Row) => match dictGet r 0 with | some v => toString v | none => "?") t.rows
  | .popped none => "raise"
  | .popped (some r) => "ok:" ++ showRow r
  | .raised true => "raise"
  | .raised false => "ok"

/-! ### text -/

/-- a string from its code points joined by `.` (the empty token is the empty string) -/
def parseCps (s : String) : Option String :=
  if s = "" then some "" else
    ((s.splitOn ".").mapM parseNat).map fun l => String.ofList (l.map Char.ofNat)

def parseVal (s : String) : Option Val :=
  if s = "n" then some .none
  else if s = "finf" then some (.inf false)
  else if s = "f-inf" then some (.inf true)
  else if s = "fnan" then some .nan
  else if s.startsWith "s" then (parseCps (s.drop 1).toString).map Val.str
  else if s.startsWith "f+" ∨ s.startsWith "f-" then
    match ((s.drop 2).toString).splitOn "/" with
    | [n, d] => do
        let n ← parseNat n
        let d ← parseNat d
        if d = 0 then none else some (.float (s.startsWith "f-") n d)
    | _ => none
  else if s.startsWith "i" then (parseInt (s.drop 1).toString).map Val.int
  else none

/-- the leading definitions of a `hist` line and the remaining tokens -/
def parseDefs : List String → List (Name × String) → List (Int × Val) →
    Option (List (Name × String) × List (Int × Val) × List String)
  | [], ns, vs => some (ns, vs, [])
  | t :: ts, ns, vs =>
    if t.startsWith "N:" then
      match ((t.drop 2).toString).splitOn "=" with
      | [k, cps] => do
          let k ← parseNat k
          let str ← parseCps cps
          parseDefs ts (ns ++ [(k, str)]) vs
      | _ => none
    else if t.startsWith "V:" then
      match ((t.drop 2).toString).splitOn "=" with
      | [c, v] => do
          let c ← parseInt c
          let v ← parseVal v
          parseDefs ts ns (vs ++ [(c, v)])
      | _ => none
    else some (ns, vs, t :: ts)

/-- injective escaping of a text for the one-line answer -/
def escape (s : String) : String :=
  String.join (s.toList.map fun c =>
    if c = '\\' then "\\\\" else if c = ' ' then "\\s" else if c = '\t' then "\\t"
    else if c = '\n' then "\\n" else String.singleton c)

def showText : TextObs → String
  | .silent => ""
  | .lines none => ";x!"
  | .lines (some ls) => ";x=" ++ escape ("\n".intercalate ls)

partial def showCL (lb : LB) (cl : CL) : String :=
  let chs := lb.chapters.mergeSort (fun a b => a.1 ≤ b.1)
  "[" ++ (match cl.len with | none => "N" | some l => showList toString l) ++ ":" ++
    (if chs.isEmpty then "-" else String.join (chs.map fun p => toString p.1 ++ showCL p.2 (clChild p.1 cl.chapters))) ++ "]"

/-- every name that can reach the text has a definition (a missing one would be rendered by a placeholder) -/
def namesDefined (ns : List (Name × String)) (ops : List Op) : Bool :=
  let rec entryNames : Nat → Entry → List Name
    | 0, _ => []
    | f + 1, .mk sc ds => sc.map (·.1) ++ ds.flatMap fun q => q.1 :: entryNames f q.2
  ops.all fun o => match o with
    | .record e => (entryNames 64 e).all fun k => (ns.lookup k).isSome
    | .setHeader (some h) => h.all fun k => (ns.lookup k).isSome
    | _ => true

/-- `Q` is `str()` too, shown without the abstract observation -/
def parseOpR (s : String) : Option (Op × Bool) :=
  if s = "Q" then some (.str, true) else (parseOp s).map fun o => (o, false)

def runHist (fmt : Fmt) (ops : List (Op × Bool)) : String :=
  let r := ops.foldl (fun (acc : (LB × CL) × List String) o =>
    let s := stepT fmt acc.1 o.1
    (s.1, ((if o.2 then "-" else showObs s.2.1) ++ ";" ++ showState s.1.1 ++ ";w=" ++ showCL s.1.1 s.1.2 ++
      showText s.2.2) :: acc.2))
    ((LB.empty, CL.empty), [])
  " | ".intercalate r.2.reverse

def handleHist (toks : List String) : Option String := do
  let (ns, vs, rest) ← parseDefs toks [] []
  if rest.isEmpty then return "empty"
  let ops ← rest.mapM parseOpR
  if !namesDefined ns (ops.map (·.1)) then failure
  return runHist (Fmt.ofBooks ns vs) ops

def handleFmt : List String → Option String
  | ["fmtval", v] => (parseVal v).map fun x => escape x.format
  | ["center", cps, w] => do pure (escape (center (← parseCps cps) (← parseNat w)))
  | ["ljust", cps, w] => do pure (escape (ljust (← parseCps cps) (← parseNat w)))
  | ["etlen", cps] => do pure (toString (expandtabsLen (← parseCps cps)))
  | ["etlen"] => some "0"
  | _ => none

/-! ### statistics -/

def keyFn (code : String) : Option (List Int → Int) :=
  match code with
  | "id" => some fun l => l.headD 0          -- plain numbers travel as singleton lists
  | "item0" => some fun l => l.headD 0
  | "last" => some fun l => l.getLastD 0
  | "len" => some fun l => (l.length : Int)
  | "sum" => some fun l => l.foldl (· + ·) 0
  | _ => none

def isum (l : List Int) : Int := l.foldl (· + ·) 0

/-- the statistical functions of the harness, `fn args values` = `function(*args, values, **kargs)` -/
def statFn (code : String) : Option (List Int → List Int → Int) :=
  match code with
  | "sum" => some fun _ v => isum v
  | "len" => some fun _ v => (v.length : Int)
  | "max" => some fun _ v => v.foldl max (v.headD 0)
  | "min" => some fun _ v => v.foldl min (v.headD 0)
  | "lin" => some fun a v => a.headD 0 * isum v + (a.drop 1).headD 0      -- lin(a, values, b=0)
  | "lin2" => some fun a v => a.headD 0 * isum v + (a.drop 1).headD 0     -- lin2(a, b, values): two frozen positionals
  | "cnt" => some fun a v => ((v.filter (fun x => decide (a.headD 0 ≤ x))).length : Int)
  | "nth" => some fun a v => if v.isEmpty then 0 else v.getD ((a.headD 0).toNat % v.length) 0
  | "wsum" => some fun _ v => isum (v.zipIdx.map fun p => ((p.2 : Int) + 1) * p.1)
  | _ => none

abbrev St := Stats.Statistics (List Int) Int (List Int) Int


def parseArgs (s : String) : Option (List Int) :=
  if s = "-" then some [] else (s.splitOn "_").mapM parseInt

def showRec (r : List (Name × Int)) : String :=
  if r.isEmpty then "e" else ",".intercalate (r.map fun p => toString p.1 ++ "=" ++ toString p.2)

def parseData (s : String) : Option (List (List Int)) := parseList2 parseInt (s.drop 2).toString

/-- tuple-valued keys (like `ind.fitness.values`): `fit1` = the 1-tuple `(ind[0],)`, `fit2` = `(ind[0], ind[-1])` -/
def keyFnT (code : String) : Option (List Int → List Int) :=
  match code with
  | "fit1" => some fun l => [l.headD 0]
  | "fit2" => some fun l => [l.headD 0, l.getLastD 0]
  | _ => none

/-- functions on a tuple of tuples -/
def statFnT (code : String) : Option (List Int → List (List Int) → Int) :=
  match code with
  | "tlen" => some fun _ v => (v.length : Int)
  | "tsum" => some fun _ v => isum (v.map isum)
  | "tmax0" => some fun _ v => (v.map (·.headD 0)).foldl max ((v.headD []).headD 0)
  | "twidth" => some fun _ v => ((v.headD []).length : Int)
  | "tlin" => some fun a v => a.headD 0 * isum (v.map isum) + (a.drop 1).headD 0
  | _ => none

abbrev StT := Stats.Statistics (List Int) (List Int) (List Int) Int

def handleStatsT (toks : List String) : Option String := do
  let mut st : Option StT := none
  let mut out : Option String := none
  for t in toks do
    match t.splitOn ":" with
    | ["k", code] =>
      if st.isSome || out.isSome then failure
      st := some (Stats.new (← keyFnT code))
    | ["r", name, fn, args] =>
      if out.isSome then failure
      let s ← st
      st := some (Stats.register s (← parseNat name) (← statFnT fn) (← parseArgs args))
    | ["d", _] =>
      if out.isSome then failure
      let s ← st
      out := some (showRec (Stats.compile s (← parseData t)))
    | _ => failure
  out

def handleStats (toks : List String) : Option String := do
  let mut st : Option St := none
  let mut out : Option String := none
  for t in toks do
    match t.splitOn ":" with
    | ["k", code] =>
      if st.isSome || out.isSome then failure
      st := some (Stats.new (← keyFn code))
    | ["r", name, fn, args] =>
      if out.isSome then failure
      let s ← st
      st := some (Stats.register s (← parseNat name) (← statFn fn) (← parseArgs args))
    | ["d", _] =>
      if out.isSome then failure
      let s ← st
      out := some (showRec (Stats.compile s (← parseData t)))
    | _ => failure
  out

def regIn (target : Name) (name : Name) (fn : List Int → List Int → Int) (args : List Int) :
    Stats.Multi (List Int) Int (List Int) Int → Option (Stats.Multi (List Int) Int (List Int) Int)
  | [] => none
  | (k, s) :: rest =>
    if k = target then some ((k, Stats.register s name fn args) :: rest)
    else (regIn target name fn args rest).map ((k, s) :: ·)

def handleMulti (toks : List String) : Option String := do
  let mut m : Stats.Multi (List Int) Int (List Int) Int := []
  let mut out : Option String := none
  for t in toks do
    match t.splitOn ":" with
    | ["s", sname, code] =>
      if out.isSome then failure
      let n ← parseNat sname
      if m.any (·.1 == n) then failure
      m := m ++ [(n, Stats.new (← keyFn code))]
    | ["r", target, name, fn, args] =>
      if out.isSome then failure
      let nm ← parseNat name
      let f ← statFn fn
      let a ← parseArgs args
      if target = "*" then m := Stats.Multi.register m nm f a
      else m ← regIn (← parseNat target) nm f a m
    | ["d", _] =>
      if out.isSome then failure
      let r := Stats.Multi.compile m (← parseData t)
      out := some (if r.isEmpty then "e" else
        " ".intercalate (r.map fun p => toString p.1 ++ "{" ++ showRec p.2 ++ "}"))
    | _ => failure
  out

/-! ### histories over a MultiStatistics -/

abbrev MSt := Stats.MS (List Int) Int (List Int) Int
abbrev MOpI := Stats.MOp (List Int) Int (List Int) Int

def parsePairs (s : String) : Option Stats.Dict :=
  if s = "-" then some [] else
    (s.splitOn ",").mapM fun t =>
      match t.splitOn "=" with
      | [k, v] => do pure ((← parseNat k), (← parseNat v))
      | _ => none

def parseMOp (t : String) : Option MOpI :=
  match t.splitOn ":" with
  | ["n", code] => do pure (.alloc (← keyFn code))
  | ["g", id, name, fn, args] => do
    pure (.regObj (← parseNat id) (← parseNat name) (← statFn fn) (← parseArgs args))
  | ["R", name, fn, args] => do pure (.register (← parseNat name) (← statFn fn) (← parseArgs args))
  | ["s", k, id] => do pure (.setItem (← parseNat k) (← parseNat id))
  | ["x", k] => do pure (.delItem (← parseNat k))
  | ["u", e] => do pure (.update (← parsePairs e))
  | ["i", e] => do pure (.ior (← parsePairs e))
  | ["t", k, id] => do pure (.setDefault (← parseNat k) (← parseNat id))
  | ["p", k] => do pure (.pop (← parseNat k))
  | ["q"] => some .popItem
  | ["c"] => some .clear
  | ["f"] => some .fields
  | ["F", id] => do pure (.objFields (← parseNat id))
  | ["d", _] => do pure (.compile (← parseData t))
  | _ => none

/-- every object id an operation mentions is on the heap (anything else has no Python counterpart) -/
def mopOk (st : MSt) : MOpI → Bool
  | .regObj id _ _ _ => id < st.heap.length
  | .setItem _ id => id < st.heap.length
  | .update e => Stats.idsOk st.heap.length e
  | .ior e => Stats.idsOk st.heap.length e
  | .setDefault _ id => id < st.heap.length
  | .objFields id => id < st.heap.length
  | _ => true

def showMObs : Stats.MObs Int → String
  | .none => "-"
  | .raised => "!"
  | .obj id => "o" ++ toString id
  | .item k id => toString k ++ ">" ++ toString id
  | .names l => "[" ++ ",".intercalate (l.map toString) ++ "]"
  | .record r => "{" ++ " ".intercalate (r.map fun p => toString p.1 ++ "{" ++ showRec p.2 ++ "}") ++ "}"

def showDict (d : Stats.Dict) : String :=
  if d.isEmpty then "e" else ",".intercalate (d.map fun p => toString p.1 ++ ">" ++ toString p.2)

def handleMHist (toks : List String) : Option String := do
  let mut st : MSt := Stats.MS.empty
  let mut out : List String := []
  for t in toks do
    let op ← parseMOp t
    if !mopOk st op then failure
    let r := Stats.step st op
    st := r.1
    out := out ++ [showMObs r.2 ++ ";" ++ showDict st.map]
  pure (if out.isEmpty then "empty" else " | ".intercalate out)

def handle : List String → String
  | "hist" :: toks => (handleHist toks).getD "bad-op"
  | "fmtval" :: toks => (handleFmt ("fmtval" :: toks)).getD "bad-op"
  | "center" :: toks => (handleFmt ("center" :: toks)).getD "bad-op"
  | "ljust" :: toks => (handleFmt ("ljust" :: toks)).getD "bad-op"
  | "etlen" :: toks => (handleFmt ("etlen" :: toks)).getD "bad-op"
  | "stats" :: toks => (handleStats toks).getD "bad-op"
  | "statst" :: toks => (handleStatsT toks).getD "bad-op"
  | "multi" :: toks => (handleMulti toks).getD "bad-op"
  | "mhist" :: toks => (handleMHist toks).getD "bad-op"
  | _ => "bad-op"

end DriverC18
