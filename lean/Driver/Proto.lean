/-
Line-protocol helpers shared by the per-property drivers.  Import-free.

Tokens are separated by single spaces.  Lists are comma-separated, `-` is the empty list /
absent value depending on the position, nested lists are `;`-separated lists of lists.
Rationals are `n` or `n/d`.  Every malformed line answers `bad-op` — never a default.
-/
namespace Proto

def parseInt (s : String) : Option Int := s.toInt?
def parseNat (s : String) : Option Nat := s.toNat?

def parseRat (s : String) : Option Rat :=
  match s.splitOn "/" with
  | [n] => n.toInt?.map (fun k => (k : Rat))
  | [n, d] => do
      let k ← n.toInt?
      let m ← d.toNat?
      if m = 0 then none else some (mkRat k m)
  | _ => none

def parseList {β : Type} (p : String → Option β) (s : String) : Option (List β) :=
  if s = "-" || s = "" then some [] else (s.splitOn ",").mapM p

def parseList2 {β : Type} (p : String → Option β) (s : String) : Option (List (List β)) :=
  if s = "-" || s = "" then some [] else (s.splitOn ";").mapM (parseList p)

def parseBool (s : String) : Option Bool :=
  if s = "1" || s = "T" then some true else if s = "0" || s = "F" then some false else none

def showRat (q : Rat) : String :=
  if q.den = 1 then toString q.num else toString q.num ++ "/" ++ toString q.den

/-- Floats travel as their IEEE-754 bit pattern `f:<decimal UInt64>` in both directions (exact). -/
def showFloat (x : Float) : String := "f:" ++ toString x.toBits.toNat

def parseFloat (s : String) : Option Float :=
  if s.startsWith "f:" then (s.drop 2).toString.toNat?.map (fun n => Float.ofBits (UInt64.ofNat n)) else none

def showBool (b : Bool) : String := if b then "1" else "0"

def showList {β : Type} (f : β → String) (l : List β) : String :=
  if l.isEmpty then "-" else ",".intercalate (l.map f)

def showList2 {β : Type} (f : β → String) (l : List (List β)) : String :=
  if l.isEmpty then "-" else ";".intercalate (l.map (showList f))

def showBits (l : List Bool) : String := String.join (l.map showBool)

def showOpt {β : Type} (f : β → String) : Option β → String
  | none => "none"
  | some x => f x

end Proto
