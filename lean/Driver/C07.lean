import Driver.Proto
/-! Protocol handler for C07 (stub until the model is built). -/
namespace DriverC07

def handle : List String → String
  | _ => "bad-op"

end DriverC07
