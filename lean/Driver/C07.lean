import DeapModel.Core.Spea2
import DeapModel.Core.Nsga3
import Driver.Proto
/-! Protocol handler for C07 (SPEA2, NSGA-III, reference points).

ops (tokens after `C07`):
* `spea2 <wvalues;…> <k> <fits,…|-> <D;…>`      → positions returned by `selSPEA2V` (an entry of `D` is a
  rational or `inf` = the float sum of squares overflowed)
* `spea2e <weights,…> <wvalues;…> <k> <pivot draws,…|->` → positions returned by `selSPEA2E` (strengths, raw
  fitness, squared distances, quick-select and densities computed by the model, exact rationals) | `none`
* `qsel <array,…> <begin> <end> <i> <draws,…|->` → `_randomizedSelect` value or `none`
* `niching <L> <k> <nref> <niches> <dist f:…> <counts0> <tape|none>` → `<selected> <counts>` | `err:…`
* `nsga3 <fronts;…> <k> <niches> <dist f:…> <nref> <tape|none>`      → chosen ids | `err:…`
* `assoc <fits;…> <refs;…> <best> <intercepts>`  → `<niches> <dists>` (floats as bit patterns)
* `assocd …`                                     → `<dists>` only
* `refs <M> <p> <scaling|none>`                  → points (floats as bit patterns)
* `mem <rows;…> <best> <worst>`                  → `<best'> <worst'>`
* `norm <fits;…> <membest|none> <memworst|none> <memext;…|none> <sing|x,…>`
                                                 → `<best> <worst> <extreme;…> <intercepts>` (the last
  argument is what `numpy.linalg.solve` answered: the model's `solve` parameter)
* `nassoc <fits;…> <refs;…> <membest|none> <memworst|none> <memext|none> <sing|x,…>`
                                                 → `<niches> <dists>` with the model's own normalisation
* `nassocd …`                                    → `<dists>` only
* `nsga3f <fronts;…> <k> <fits by id;…> <refs;…> <membest|none> <memworst|none> <memext|none> <sing|x,…> <tape|none>`
                                                 → chosen ids: normalisation → association → niching
* `nsga3e <std|log> <wvalues by id;… (exact rationals)> <k> <refs;…> <membest|none> <memworst|none> <memext|none>
  <sing|x,…> <tape|none>`                        → chosen ids: the model's own non-dominated sort (C04 model) →
  `-wvalues` → normalisation → association → niching
* `icpt <extreme;…> <best> <worst> <frontworst> <sing|x,…>` → `find_intercepts`
-/
namespace DriverC07
open Proto

/-- a computed squared distance: a non-negative rational, or `inf` (the float sum overflowed) -/
def parseDVal (s : String) : Option (Spea2.DVal Rat) :=
  if s = "inf" then some Spea2.DVal.inf
  else match parseRat s with
    | some q => if q < 0 then none else some (Spea2.DVal.fin q)
    | none => none

def parseTape (s : String) : Option (List (List Nat)) :=
  if s = "none" then some [] else (s.splitOn ";").mapM (parseList parseNat)

def showErr : Nsga3.Err → String
  | .badTape => "err:bad-tape"
  | .raised => "err:raised"
  | .fuel => "err:fuel"

def ratToFloat (q : Rat) : Float := Float.ofInt q.num / Float.ofNat q.den

def rect {β : Type} (rows : List (List β)) (w : Nat) : Bool := rows.all (fun r => r.length == w)

def parseOptList (s : String) : Option (Option (List Float)) :=
  if s = "none" then some none else (parseList parseFloat s).map some

def parseOptList2 (s : String) : Option (Option (List (List Float))) :=
  if s = "none" then some none else (parseList2 parseFloat s).map some

def parseSolve (s : String) : Option (Option (List Float)) :=
  if s = "sing" then some none else (parseList parseFloat s).map some

structure NormArgs where
  fits : List (List Float)
  mb : Option (List Float)
  mw : Option (List Float)
  me : Option (List (List Float))
  sol : Option (List Float)

def parseNorm (fs bs ws es ss : String) : Option NormArgs := do
  let f ← parseList2 parseFloat fs
  let mb ← parseOptList bs
  let mw ← parseOptList ws
  let me ← parseOptList2 es
  let sol ← parseSolve ss
  let m := (f.headD []).length
  if f.isEmpty || m = 0 || !(rect f m) then none
  else if !(mb.all (·.length == m)) || !(mw.all (·.length == m)) || !(me.all (fun e => rect e m)) then none
  else if !(sol.all (·.length == m)) then none
  else some ⟨f, mb, mw, me, sol⟩

def runNorm (a : NormArgs) : List Float × List Float × List (List Float) × List Float :=
  Nsga3.normalisation (fun _ _ => a.sol) a.fits a.mb a.mw a.me

def handle : List String → String
  | ["icpt", es, bs, ws, fws, ss] =>
    match (do
      let e ← parseList2 parseFloat es
      let b ← parseList parseFloat bs
      let w ← parseList parseFloat ws
      let fw ← parseList parseFloat fws
      let sol ← parseSolve ss
      pure (e, b, w, fw, sol)) with
    | some (e, b, w, fw, sol) =>
      let m := b.length
      if m = 0 || w.length != m || fw.length != m || !(rect e m) || e.length != m then "bad-op" else
      showList showFloat (Nsga3.findIntercepts (fun _ _ => sol) e b w fw)
    | none => "bad-op"
  | ["nsga3f", frs, ks, fs, rs, bs, ws, es, ss, ts] =>
    match parseNorm fs bs ws es ss, parseList2 parseNat frs, parseNat ks, parseList2 parseFloat rs, parseTape ts with
    | some a, some fr, some k, some r, some t =>
      let m := (a.fits.headD []).length
      if r.isEmpty || !(rect r m) || fr.flatten.any (fun i => decide (a.fits.length ≤ i)) then "bad-op" else
      match Nsga3.selNSGA3Full (fun _ _ => a.sol) fr k (fun i => a.fits.getD i []) r a.mb a.mw a.me t with
      | .error e => showErr e
      | .ok ch => showList toString ch
    | _, _, _, _, _ => "bad-op"
  | ["nsga3e", nds, wvs, ks, rs, bs, ws, es, ss, ts] =>
    match parseList2 parseRat wvs, parseNat ks, parseList2 parseFloat rs, parseOptList bs, parseOptList ws,
        parseOptList2 es, parseSolve ss, parseTape ts with
    | some wv, some k, some r, some mb, some mw, some me, some sol, some t =>
      let m := (wv.headD []).length
      if !(nds = "std" || nds = "log") || wv.isEmpty || m = 0 || (nds = "log" && m < 2) || !(rect wv m)
          || r.isEmpty || !(rect r m) || !(mb.all (·.length == m)) || !(mw.all (·.length == m))
          || !(me.all (fun e => rect e m)) || !(sol.all (·.length == m)) then "bad-op" else
      match Nsga3.selNSGA3E ratToFloat (fun _ _ => sol) (nds = "log") wv k r mb mw me t with
      | .error e => showErr e
      | .ok ch => showList toString ch
    | _, _, _, _, _, _, _, _ => "bad-op"
  | ["norm", fs, bs, ws, es, ss] =>
    match parseNorm fs bs ws es ss with
    | some a =>
      let (b, w, e, i) := runNorm a
      showList showFloat b ++ " " ++ showList showFloat w ++ " " ++ showList2 showFloat e ++ " "
        ++ showList showFloat i
    | none => "bad-op"
  | ["spea2", ws, ks, fs, ds] =>
    match (do
      let w ← parseList2 parseRat ws
      let k ← parseNat ks
      let f ← parseList parseRat fs
      let d ← parseList2 parseDVal ds
      pure (w, k, f, d)) with
    | some (w, k, f, d) =>
      let n := w.length
      if n = 0 || !(rect d n) || d.length != n || !(f.isEmpty || f.length == n) then "bad-op"
      else
        showList toString
          (Spea2.selSPEA2V (Spea2.domW w) n k (fun i => f.getD i 0)
            (fun i j => (d.getD i []).getD j Spea2.DVal.inf))
    | none => "bad-op"
  | ["spea2e", wts, ws, ks, ts] =>
    match (do
      let wt ← parseList parseRat wts
      let w ← parseList2 parseRat ws
      let k ← parseNat ks
      let t ← parseList parseNat ts
      pure (wt, w, k, t)) with
    | some (wt, w, k, t) =>
      let m := wt.length
      if w.isEmpty || m = 0 || !(rect w m) || wt.any (fun x => decide (x = 0)) then "bad-op"
      else showOpt (showList toString) (Spea2.selSPEA2E (fun n => (n : Rat)) wt w k t)
    | none => "bad-op"
  | ["qsel", as, bs, es, is, ts] =>
    match (do
      let a ← parseList parseRat as
      let b ← parseNat bs
      let e ← parseNat es
      let i ← parseRat is
      let t ← parseList parseNat ts
      pure (a, b, e, i, t)) with
    | some (a, b, e, i, t) =>
      showOpt showRat (Spea2.randomizedSelect (fun n => (n : Rat)) (a.length + 2) a b e i t)
    | none => "bad-op"
  | ["niching", ls, ks, rs, ns, ds, cs, ts] =>
    match (do
      let l ← parseNat ls
      let k ← parseNat ks
      let r ← parseNat rs
      let n ← parseList parseNat ns
      let d ← parseList parseFloat ds
      let c ← parseList parseNat cs
      let t ← parseTape ts
      pure (l, k, r, n, d, c, t)) with
    | some (l, k, r, n, d, c, t) =>
      if n.length != l || d.length != l || c.length != r then "bad-op" else
      match Nsga3.niching l k r (fun p => n.getD p 0) (fun p => d.getD p 0.0) (fun j => c.getD j 0) t with
      | .error e => showErr e
      | .ok st => showList toString st.selected ++ " " ++ showList toString ((List.range r).map st.counts)
    | none => "bad-op"
  | ["nsga3", frs, ks, ns, ds, rs, ts] =>
    match (do
      let fr ← parseList2 parseNat frs
      let k ← parseNat ks
      let n ← parseList parseNat ns
      let d ← parseList parseFloat ds
      let r ← parseNat rs
      let t ← parseTape ts
      pure (fr, k, n, d, r, t)) with
    | some (fr, k, n, d, r, t) =>
      let tot := fr.flatten.length
      if n.length != tot || d.length != tot then "bad-op" else
      match Nsga3.selNSGA3 fr k n d 0.0 r t with
      | .error e => showErr e
      | .ok ch => showList toString ch
    | none => "bad-op"
  | [op, fs, rs, bs, is] =>
    if op != "assoc" && op != "assocd" then "bad-op" else
    match (do
      let f ← parseList2 parseFloat fs
      let r ← parseList2 parseFloat rs
      let b ← parseList parseFloat bs
      let i ← parseList parseFloat is
      pure (f, r, b, i)) with
    | some (f, r, b, i) =>
      let m := b.length
      if m = 0 || i.length != m || !(rect f m) || !(rect r m) || r.isEmpty then "bad-op" else
      let res := Nsga3.associate f r b i
      if op == "assoc" then
        showList toString (res.map (·.1)) ++ " " ++ showList showFloat (res.map (·.2))
      else showList showFloat (res.map (·.2))
    | none => "bad-op"
  | ["refs", ms, ps, ss] =>
    match (do
      let m ← parseNat ms
      let p ← parseNat ps
      let s ← if ss = "none" then some none else (parseRat ss).map some
      pure (m, p, s)) with
    | some (m, p, s) =>
      if m = 0 || p = 0 then "bad-op" else
      showList2 (fun q => showFloat (ratToFloat q)) (Nsga3.uniformRefPoints m p s)
    | none => "bad-op"
  | ["mem", rs, bs, ws] =>
    match (do
      let r ← parseList2 parseFloat rs
      let b ← parseList parseFloat bs
      let w ← parseList parseFloat ws
      pure (r, b, w)) with
    | some (r, b, w) =>
      let m := b.length
      if m = 0 || w.length != m || !(rect r m) then "bad-op" else
      showList showFloat (Nsga3.colMin r b) ++ " " ++ showList showFloat (Nsga3.colMax r w)
    | none => "bad-op"
  | [op, fs, rs, bs, ws, es, ss] =>
    if op != "nassoc" && op != "nassocd" then "bad-op" else
    match parseNorm fs bs ws es ss, parseList2 parseFloat rs with
    | some a, some r =>
      let m := (a.fits.headD []).length
      if r.isEmpty || !(rect r m) then "bad-op" else
      let (b, _, _, i) := runNorm a
      let res := Nsga3.associate a.fits r b i
      if op == "nassoc" then
        showList toString (res.map (·.1)) ++ " " ++ showList showFloat (res.map (·.2))
      else showList showFloat (res.map (·.2))
    | _, _ => "bad-op"
  | _ => "bad-op"

end DriverC07
