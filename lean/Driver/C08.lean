import DeapModel.Core.Archive
import Driver.Proto
/-!
Protocol handler for C08 (HallOfFame / ParetoFront).

`C08 <hof|pf> <maxsize> <sim> <cmd> …` runs a script on one archive that starts empty and answers
one token per executed command: the archive state after it, or `raise` (the script stops there).

* individual  `oid:genome:wvalues`   (genome = comma list of ints, wvalues = comma list of rationals, `-` = empty)
* commands    `u=<ind>;<ind>;…` (update; `u=-` = empty population), `i=<ind>` (insert),
              `r=<int>` (remove), `c` (clear)
* similarity  `eq` (equal genomes), `mod<k>` (equal genome sums modulo k), `fit` (equal fitness),
              `near<d>` (|sum difference| ≤ d; not transitive), `lt` (sum(a) < sum(b); not symmetric),
              `never`, `always`
* state       `<item>;…#<key>;…` with item = `genome:wvalues:<f|s>` (`f` = object id allocated by the
              archive, `s` = id of a submitted object), key = wvalues; empty lists are `-`
-/
namespace DriverC08
open Proto Archive Fitness

abbrev I := Ind (List Int) Rat
abbrev H := HoF (List Int) Rat

/-- identities of archive copies start here; submitted objects must have smaller ids -/
def base : Nat := 1000000

def parseInd (s : String) : Option I :=
  match s.splitOn ":" with
  | [o, g, w] => do
      let oid ← parseNat o
      if oid ≥ base then none
      let genome ← parseList parseInt g
      let wv ← parseList parseRat w
      some ⟨oid, genome, ⟨wv⟩⟩
  | _ => none

def parseBatch (s : String) : Option (List I) :=
  if s = "-" then some [] else (s.splitOn ";").mapM parseInd

def gsum (x : I) : Int := x.genome.foldl (· + ·) 0

def parseSim (s : String) : Option (I → I → Bool) :=
  if s = "eq" then some (fun a b => decide (a.genome = b.genome))
  else if s = "fit" then some (fun a b => Fitness.eq a.fit b.fit)
  else if s = "never" then some (fun _ _ => false)
  else if s = "always" then some (fun _ _ => true)
  else if s = "lt" then some (fun a b => decide (gsum a < gsum b))
  else if s.startsWith "mod" then
    match (s.drop 3).toString.toNat? with
    | some k => if k = 0 then none else some (fun a b => decide (gsum a % (k : Int) = gsum b % (k : Int)))
    | none => none
  else if s.startsWith "near" then
    match (s.drop 4).toString.toNat? with
    | some d => some (fun a b => decide ((gsum a - gsum b).natAbs ≤ d))
    | none => none
  else none

inductive Cmd where
  | upd (b : List I)
  | ins (x : I)
  | rem (i : Int)
  | clr

def parseCmd (s : String) : Option Cmd :=
  if s = "c" then some .clr
  else if s.startsWith "u=" then (parseBatch (s.drop 2).toString).map .upd
  else if s.startsWith "i=" then (parseInd (s.drop 2).toString).map .ins
  else if s.startsWith "r=" then (parseInt (s.drop 2).toString).map .rem
  else none

def showItem (x : I) : String :=
  showList toString x.genome ++ ":" ++ showList showRat x.fit.wvalues ++ ":" ++ (if x.oid ≥ base then "f" else "s")

def showState (h : H) : String :=
  (if h.items.isEmpty then "-" else ";".intercalate (h.items.map showItem)) ++ "#" ++
  (if h.keys.isEmpty then "-" else ";".intercalate (h.keys.map (fun k => showList showRat k.wvalues)))

def exec (pf : Bool) (sim : I → I → Bool) (h : H) : Cmd → Option H
  | .upd b => if pf then pfUpdate sim h b else update sim h b
  | .ins x => some (insert h x)
  | .rem i => remove h i
  | .clr => some (clear h)

def runScript (pf : Bool) (sim : I → I → Bool) : H → List Cmd → List String
  | _, [] => []
  | h, c :: cs =>
    match exec pf sim h c with
    | none => ["raise"]
    | some h' => showState h' :: runScript pf sim h' cs

def handle : List String → String
  | kind :: ms :: ss :: cmds =>
    match (do
      let pf ← (if kind = "hof" then some false else if kind = "pf" then some true else none)
      let m ← parseNat ms
      let sim ← parseSim ss
      let cs ← cmds.mapM parseCmd
      if cs.isEmpty then none
      pure (pf, m, sim, cs)) with
    | some (pf, m, sim, cs) => " ".intercalate (runScript pf sim (empty m base) cs)
    | none => "bad-op"
  | _ => "bad-op"

end DriverC08
