import Driver.Proto
/-! Protocol handler for C08 (stub until the model is built). -/
namespace DriverC08

def handle : List String → String
  | _ => "bad-op"

end DriverC08
