import DeapModel.Core.Archive
import DeapModel.Core.ArchiveHeap
import Driver.Proto
/-!
Protocol handler for C08 (HallOfFame / ParetoFront).

`C08 <hof|pf> <maxsize> <sim> <cmd> …` runs a script on one archive that starts empty and answers
one token per executed command: the archive state after it, or `raise` (the script stops there).

* individual  `oid:genome:wvalues`   (genome = comma list of ints, wvalues = comma list of rationals, `-` = empty)
* commands    `u=<ind>;<ind>;…` (update; `u=-` = empty population), `i=<ind>` (insert),
              `r=<int>` (remove), `c` (clear)
* similarity  `eq` (equal genomes), `mod<k>` (equal genome sums modulo k), `fit` (equal fitness),
              `near<d>` (|sum difference| ≤ d; not transitive), `lt` (sum(a) < sum(b); not symmetric),
              `never`, `always`
* state       `<item>;…#<key>;…` with item = `genome:wvalues:<f|s>` (`f` = object id allocated by the
              archive, `s` = id of a submitted object), key = wvalues; empty lists are `-`

`C08 heap <hof|pf> <maxsize> <sim> <ct> <fitName> <nums> <ev> …` runs a history of events on the *heap-level*
archive of `Core/ArchiveHeap.lean` (members are object graphs in the heap of `Core/Heap.lean`, `insert` is
`deepcopy`), starting from an empty heap, and answers one token per `u` / `q` event.

* `<ct>`      class table as for C16: `;`-separated `kind/inst`, `inst` = `name=cls,…` or `-`
* `<nums>`    comma list of rationals: the atom `a<i>` (0 ≤ i) denotes `nums[i]`; every other atom is a symbol
* object      `cls/m/items/attrs`, `m` ∈ {0,1}, `items` = comma list of values or `-`, `attrs` = `name=val,…` or `-`;
              value = `a<int>` (atom) or `c<k>` (the k-th object the caller allocated)
* events      `a=<obj>` (the caller allocates an object), `w<k>=<obj>` (in-place modification of the caller's k-th
              object), `u=<k>,<k>,…` / `u=-` (update with those objects), `q` (no action, answers the state)
* similarity  as above, computed on the pure values: `eq` = equal items (recursively, attributes ignored)
* state       `<member>;…#<key>;…`; member = identity-free term `<cls/m/items/attrs>` (attributes by ascending
              name) in which an object of the caller prints as `c<k>`; key = `c<k>` when the key object is an
              object of the caller, else `v:<wvalues it holds now>`; `raise` when the event raises
-/
namespace DriverC08
open Proto Archive Fitness

abbrev I := Ind (List Int) Rat
abbrev H := HoF (List Int) Rat

/-- identities of archive copies start here; submitted objects must have smaller ids -/
def base : Nat := 1000000

def parseInd (s : String) : Option I :=
  match s.splitOn ":" with
  | [o, g, w] => do
      let oid ← parseNat o
      if oid ≥ base then none
      let genome ← parseList parseInt g
      let wv ← parseList parseRat w
      some ⟨oid, genome, ⟨wv⟩⟩
  | _ => none

def parseBatch (s : String) : Option (List I) :=
  if s = "-" then some [] else (s.splitOn ";").mapM parseInd

def gsum (x : I) : Int := x.genome.foldl (· + ·) 0

def parseSim (s : String) : Option (I → I → Bool) :=
  if s = "eq" then some (fun a b => decide (a.genome = b.genome))
  else if s = "fit" then some (fun a b => Fitness.eq a.fit b.fit)
  else if s = "never" then some (fun _ _ => false)
  else if s = "always" then some (fun _ _ => true)
  else if s = "lt" then some (fun a b => decide (gsum a < gsum b))
  else if s.startsWith "mod" then
    match (s.drop 3).toString.toNat? with
    | some k => if k = 0 then none else some (fun a b => decide (gsum a % (k : Int) = gsum b % (k : Int)))
    | none => none
  else if s.startsWith "near" then
    match (s.drop 4).toString.toNat? with
    | some d => some (fun a b => decide ((gsum a - gsum b).natAbs ≤ d))
    | none => none
  else none

inductive Cmd where
  | upd (b : List I)
  | ins (x : I)
  | rem (i : Int)
  | clr

def parseCmd (s : String) : Option Cmd :=
  if s = "c" then some .clr
  else if s.startsWith "u=" then (parseBatch (s.drop 2).toString).map .upd
  else if s.startsWith "i=" then (parseInd (s.drop 2).toString).map .ins
  else if s.startsWith "r=" then (parseInt (s.drop 2).toString).map .rem
  else none

def showItem (x : I) : String :=
  showList toString x.genome ++ ":" ++ showList showRat x.fit.wvalues ++ ":" ++ (if x.oid ≥ base then "f" else "s")

def showState (h : H) : String :=
  (if h.items.isEmpty then "-" else ";".intercalate (h.items.map showItem)) ++ "#" ++
  (if h.keys.isEmpty then "-" else ";".intercalate (h.keys.map (fun k => showList showRat k.wvalues)))

def exec (pf : Bool) (sim : I → I → Bool) (h : H) : Cmd → Option H
  | .upd b => if pf then pfUpdate sim h b else update sim h b
  | .ins x => some (insert h x)
  | .rem i => remove h i
  | .clr => some (clear h)

def runScript (pf : Bool) (sim : I → I → Bool) : H → List Cmd → List String
  | _, [] => []
  | h, c :: cs =>
    match exec pf sim h c with
    | none => ["raise"]
    | some h' => showState h' :: runScript pf sim h' cs

/-! ### The heap-level archive -/

namespace HeapOp
open Heap ArchiveHeap

def parseKind : String → Option Kind
  | "plain" => some .plain | "ctor" => some .ctor | "fitness" => some .fitness
  | "cfitness" => some .cfitness | "tree" => some .tree | "nparr" => some .nparr
  | "pyarr" => some .pyarr | "node" => some .node | _ => none

def parsePair {β : Type} (p : String → Option β) (s : String) : Option (Nat × β) :=
  match s.splitOn "=" with
  | [k, v] => do let k ← k.toNat?; let v ← p v; pure (k, v)
  | _ => none

def parseClass (s : String) : Option ClassInfo :=
  match s.splitOn "/" with
  | [k, inst] => do
      let k ← parseKind k
      let inst ← parseList (parsePair parseNat) inst
      pure { kind := k, dictInst := inst, dictCls := [] }
  | _ => none

def parseCt (s : String) : Option ClassTable :=
  if s = "-" then some [] else (s.splitOn ";").mapM parseClass

/-- a value of the caller: an atom, or the k-th object the caller allocated (`tbl` = their oids) -/
def parseVal (tbl : List Oid) (s : String) : Option Val :=
  if s.startsWith "a" then (s.drop 1).toString.toInt?.map Val.atom
  else if s.startsWith "c" then
    match (s.drop 1).toString.toNat? with
    | some k => (tbl[k]?).map Val.ref
    | none => none
  else none

def parseObj (tbl : List Oid) (s : String) : Option Obj :=
  match s.splitOn "/" with
  | [c, m, items, attrs] => do
      let c ← c.toNat?
      let m ← parseBool m
      let items ← parseList (parseVal tbl) items
      let attrs ← parseList (parsePair (parseVal tbl)) attrs
      pure { cls := c, items := items, attrs := attrs, mutable := m }
  | _ => none

def insertAttr (p : Name × Val) : List (Name × Val) → List (Name × Val)
  | [] => [p]
  | q :: r => if p.1 < q.1 then p :: q :: r else if p.1 = q.1 then q :: r else q :: insertAttr p r

def sortAttrs (l : List (Name × Val)) : List (Name × Val) := l.foldr insertAttr []

def indexOf (x : Oid) : List Oid → Nat → Option Nat
  | [], _ => none
  | y :: r, i => if y = x then some i else indexOf x r (i + 1)

/-- identity-free term of a value; objects of the caller print as `c<k>` -/
def dump (objs : Oid → Option Obj) (tbl : List Oid) : Nat → Val → String
  | _, .atom a => "a" ++ toString a
  | 0, .ref x => "deep" ++ toString x
  | f + 1, .ref x =>
    match indexOf x tbl 0 with
    | some k => "c" ++ toString k
    | none =>
      match objs x with
      | none => "u" ++ toString x
      | some o =>
        "<" ++ toString o.cls ++ "/" ++ showBool o.mutable ++ "/" ++ showList (dump objs tbl f) o.items ++ "/" ++
          showList (fun (p : Name × Val) => toString p.1 ++ "=" ++ dump objs tbl f p.2) (sortAttrs o.attrs) ++ ">"

/-- a key: `c<k>` when the key object is an object of the caller, else the `wvalues` it holds now -/
def showKey (hs : HState) (tbl : List Oid) (k : Oid) : String :=
  match indexOf k tbl 0 with
  | some c => "c" ++ toString c
  | none =>
    match hs.objs k with
    | some o => "v:" ++ showList (dump hs.objs tbl (hs.next + 2)) o.items
    | none => "u" ++ toString k

def showStateH (hs : HState) (tbl : List Oid) : String :=
  (if hs.items.isEmpty then "-" else
    ";".intercalate (hs.items.map (fun x => dump hs.objs tbl (hs.next + 2) (.ref x)))) ++ "#" ++
  (if hs.keys.isEmpty then "-" else ";".intercalate (hs.keys.map (showKey hs tbl)))

/-- the items of a pure value as a string: what `==` on list / set / dict individuals compares -/
def pvKey : Nat → PV → String
  | _, .atom a => "a" ++ toString a
  | _, .bot => "?"
  | _, .absent => "!"
  | 0, .node _ _ _ _ => "?"
  | f + 1, .node _ _ items _ => "[" ++ ",".intercalate (items.map (pvKey f)) ++ "]"

/-- sum of the numbers in the items of a pure value (the harness' `gsum`) -/
def pvSum (val : Int → Rat) : Nat → PV → Rat
  | _, .atom a => val a
  | _, .bot => 0
  | _, .absent => 0
  | 0, .node _ _ _ _ => 0
  | f + 1, .node _ _ items _ => (items.map (pvSum val f)).foldl (· + ·) 0

def isInt (q : Rat) : Bool := q.den == 1

def parseSimH (val : Int → Rat) (d : Nat) (s : String) : Option (Ind PV Rat → Ind PV Rat → Bool) :=
  let gs := fun (x : Ind PV Rat) => pvSum val d x.genome
  if s = "eq" then some (fun a b => pvKey d a.genome == pvKey d b.genome)
  else if s = "fit" then some (fun a b => Fitness.eq a.fit b.fit)
  else if s = "never" then some (fun _ _ => false)
  else if s = "always" then some (fun _ _ => true)
  else if s = "lt" then some (fun a b => decide (gs a < gs b))
  else if s.startsWith "mod" then
    match (s.drop 3).toString.toNat? with
    | some k => if k = 0 then none else some (fun a b => isInt ((gs a - gs b) / (k : Rat)))
    | none => none
  else if s.startsWith "near" then
    match (s.drop 4).toString.toNat? with
    | some dd => some (fun a b => decide (gs a - gs b ≤ (dd : Rat) ∧ gs b - gs a ≤ (dd : Rat)))
    | none => none
  else none

/-- run the events; `tbl` = oids of the caller's objects in allocation order -/
def runEvents (P : Params Rat) (pf : Bool) : HState → List Oid → List String → Option (List String)
  | _, _, [] => some []
  | hs, tbl, e :: es =>
    if e = "q" then (runEvents P pf hs tbl es).map (fun r => showStateH hs tbl :: r)
    else if e.startsWith "u=" then
      match parseList (fun (t : String) => t.toNat?.bind (fun k => tbl[k]?)) (e.drop 2).toString with
      | none => none
      | some pop =>
        match execEv P pf hs (.upd pop) with
        | none => some ["raise"]
        | some hs' => (runEvents P pf hs' tbl es).map (fun r => showStateH hs' tbl :: r)
    else if e.startsWith "a=" then
      match parseObj tbl (e.drop 2).toString with
      | none => none
      | some o =>
        match execEv P pf hs (.alloc o) with
        | none => none
        | some hs' => runEvents P pf hs' (tbl ++ [hs.next]) es
    else if e.startsWith "w" then
      match (e.drop 1).toString.splitOn "=" with
      | ks :: o1 :: orest =>
        match ks.toNat?.bind (fun k => tbl[k]?), parseObj tbl ("=".intercalate (o1 :: orest)) with
        | some x, some o =>
          match execEv P pf hs (.write x o) with
          | none => none
          | some hs' => runEvents P pf hs' tbl es
        | _, _ => none
      | _ => none
    else none

def handle : List String → String
  | kind :: ms :: ss :: cts :: fns :: nums :: evs =>
    match (do
      let pf ← (if kind = "hof" then some false else if kind = "pf" then some true else none)
      let m ← parseNat ms
      let ct ← parseCt cts
      let fitName ← parseNat fns
      let tblN ← parseList parseRat nums
      let val : Int → Rat := fun a => if a < 0 then 0 else (tblN[a.toNat]?).getD 0
      let depth := 8
      let sim ← parseSimH val depth ss
      if evs.isEmpty then none
      let P : Params Rat := ⟨ct, 64, fitName, val, depth, sim⟩
      let out ← runEvents P pf (emptyH m (fun _ => none) 0) [] evs
      pure out) with
    | some out => " ".intercalate out
    | none => "bad-op"
  | _ => "bad-op"

end HeapOp

def handle : List String → String
  | "heap" :: rest => HeapOp.handle rest
  | kind :: ms :: ss :: cmds =>
    match (do
      let pf ← (if kind = "hof" then some false else if kind = "pf" then some true else none)
      let m ← parseNat ms
      let sim ← parseSim ss
      let cs ← cmds.mapM parseCmd
      if cs.isEmpty then none
      pure (pf, m, sim, cs)) with
    | some (pf, m, sim, cs) => " ".intercalate (runScript pf sim (empty m base) cs)
    | none => "bad-op"
  | _ => "bad-op"

end DriverC08
