import DeapModel.Core.Crowding
import Driver.Proto
/-!
Protocol handler for C05 (NSGA-II selection).

* `crowd <vals>`   exact crowding distances of one front (`inf` or a rational), in input order
* `crowdf <vals>`  the same, as `m<mask of infinities> <finite distances as float bit patterns>`
* `cut <fronts> <dists> <k>`  emo.py:44-50 on fronts given as id lists, with the distances of the last front
* `sel <weights> <pop> <k> <nd>`  whole `selNSGA2` (`nd` = `std` | `log`): ids in the order returned
-/
namespace DriverC05
open Proto NDSort Crowding

def parseDist (s : String) : Option (Dist Rat) :=
  if s = "inf" then some none else (parseRat s).map some

def showDist : Dist Rat → String
  | none => "inf"
  | some q => showRat q

def ratToFloat (q : Rat) : Float := Float.ofInt q.num / Float.ofNat q.den

def wellFormed (ws : List (List Rat)) (lo : Nat) : Bool :=
  match ws with
  | [] => true
  | w :: _ => decide (lo ≤ w.length) && ws.all (fun v => v.length == w.length)

def mkPop (ws : List (List Rat)) : List (Ind Rat) :=
  (List.range ws.length).zipWith (fun i w => ⟨i, w⟩) ws

def showIds (l : List (Ind Rat)) : String := showList toString (l.map (·.id))

def handle : List String → String
  | ["crowd", vs] =>
    match (parseList2 parseRat vs).bind (fun v => if wellFormed v 1 then some v else none) with
    | some v => showList showDist (assignCrowdingDist v)
    | none => "bad-op"
  | ["crowdf", vs] =>
    match (parseList2 parseRat vs).bind (fun v => if wellFormed v 1 then some v else none) with
    | some v =>
      let d := assignCrowdingDist v
      "m" ++ showBits (d.map (fun (x : Dist Rat) => x.isNone)) ++ " " ++ showList (fun q => showFloat (ratToFloat q)) (d.filterMap id)
    | none => "bad-op"
  | ["cut", fs, ds, ks] =>
    match (do
      let ids ← parseList2 parseNat fs
      let d ← parseList parseDist ds
      let k ← parseNat ks
      let fronts : List (List (Ind Rat)) := ids.map (fun f => f.map (fun i => ⟨i, []⟩))
      if (fronts.getLast?.getD []).length != d.length then none
      pure (fronts, d, k)) with
    | some (fronts, d, k) => showIds (cutWith fronts d k)
    | none => "bad-op"
  | ["sel", wss, ps, ks, nd] =>
    match (do
      let w ← parseList parseRat wss
      let ws ← parseList2 parseRat ps
      let k ← parseNat ks
      if !(nd = "std" || nd = "log") then none
      if !(wellFormed ws (if nd = "log" then 2 else 1)) then none
      if ws.any (fun v => v.length != w.length) || w.any (· == 0) then none
      if nd = "log" && ws.isEmpty then none
      pure (w, mkPop ws, k)) with
    | some (w, pop, k) =>
      match selNSGA2 w pop k (nd = "log") with
      | some l => showIds l
      | none => "nonterm"
    | none => "bad-op"
  | _ => "bad-op"

end DriverC05
