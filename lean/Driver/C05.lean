import Driver.Proto
/-! Protocol handler for C05 (stub until the model is built). -/
namespace DriverC05

def handle : List String → String
  | _ => "bad-op"

end DriverC05
