import DeapModel.Core.GpCompile
import Driver.C11
/-!
Protocol handler for C12 (GP printing / parsing / compilation).

nodes, sub      as in C11
text            a Python `str`, percent-encoded (`%XX` for every byte outside `[A-Za-z0-9_.-]`)
mapping         `key=node;key=node;…` (`-` = empty) — `pset.mapping` keyed by token text (encoded)
littypes        `<int>.<bool>.<float>` the type ids `eval` gives to int / bool / float literals
funs            `name=op,name=op,…` the callables of `pset.context` by builtin op id
vars            `name=val,…` named terminals of `pset.context`
val             `i<int>` | `b0` | `b1` | `f<bits>`
-/
namespace DriverC12
open Proto GpTree GpCompile DriverC11

/-! ### text transport -/

def hexVal (c : Char) : Option Nat :=
  if '0' ≤ c ∧ c ≤ '9' then some (c.toNat - '0'.toNat)
  else if 'a' ≤ c ∧ c ≤ 'f' then some (c.toNat - 'a'.toNat + 10)
  else if 'A' ≤ c ∧ c ≤ 'F' then some (c.toNat - 'A'.toNat + 10)
  else none

def decodeGo : List Char → Option (List Char)
  | [] => some []
  | '%' :: a :: b :: rest => do
    let x ← hexVal a; let y ← hexVal b
    let r ← decodeGo rest
    some (Char.ofNat (16 * x + y) :: r)
  | '%' :: _ => none
  | c :: rest => (decodeGo rest).map (c :: ·)

def decodeText (s : String) : Option Str := if s = "-" then some [] else decodeGo s.toList

def hexDigit (n : Nat) : Char := if n < 10 then Char.ofNat (48 + n) else Char.ofNat (87 + n)

def plain (c : Char) : Bool := c.isAlphanum || c == '_' || c == '.' || c == '-'

def encodeText (s : Str) : String :=
  if s.isEmpty then "-" else
  String.ofList (s.flatMap (fun c => if plain c then [c] else ['%', hexDigit (c.toNat / 16), hexDigit (c.toNat % 16)]))

/-! ### literals: `eval(token)` for ints, dyadic floats, bools -/

def allDigits (l : List Char) : Bool := !l.isEmpty && l.all Char.isDigit

def digitsVal (l : List Char) : Nat := l.foldl (fun n c => 10 * n + (c.toNat - '0'.toNat)) 0

inductive Lit
  | int (i : Int)
  | bool (b : Bool)
  /-- sign, integer digits, fraction digits, decimal exponent, and the exponent text (empty = none) -/
  | flt (neg : Bool) (ip : List Char) (fp : List Char) (exp : Int) (etext : List Char)

def stripLeading0 (l : List Char) : List Char :=
  match l.dropWhile (· == '0') with
  | [] => ['0']
  | r => r

def stripTrailing0 (l : List Char) : List Char :=
  match (l.reverse.dropWhile (· == '0')).reverse with
  | [] => ['0']
  | r => r

def parseExp (l : List Char) : Option Int :=
  match l with
  | '-' :: r => if allDigits r then some (-(digitsVal r : Int)) else none
  | '+' :: r => if allDigits r then some (digitsVal r : Int) else none
  | r => if allDigits r then some (digitsVal r : Int) else none

def parseLit (s : Str) : Option Lit :=
  if s = "True".toList then some (.bool true)
  else if s = "False".toList then some (.bool false)
  else
    let (neg, body) := match s with | '-' :: r => (true, r) | r => (false, r)
    let (mant, etext) := body.span (fun c => c != 'e' && c != 'E')
    let exp? : Option Int := match etext with | [] => some 0 | _ :: r => parseExp r
    match exp? with
    | none => none
    | some ex =>
    match mant.span (· != '.') with
    | (ip, []) =>
      if etext.isEmpty then
        -- an int literal; Python rejects leading zeros ("007" is a SyntaxError)
        if allDigits ip ∧ (ip.length = 1 ∨ ip.head? ≠ some '0') then
          some (.int (if neg then -(digitsVal ip : Int) else digitsVal ip))
        else none
      else if allDigits ip then some (.flt neg ip [] ex etext) else none       -- `1e-17`
    | (ip, _ :: fp) =>
      -- Python accepts `1.` and `.5` (not a bare `.`)
      if ip.all Char.isDigit ∧ fp.all Char.isDigit ∧ ¬ (ip.isEmpty ∧ fp.isEmpty) then some (.flt neg ip fp ex etext) else none

/-- `repr` of the value (for exponent forms the token is assumed canonical, as `repr` prints it) -/
def reprLit : Lit → Str
  | .int i => (toString i).toList
  | .bool true => "True".toList
  | .bool false => "False".toList
  | .flt neg ip fp _ etext =>
    if etext.isEmpty then (if neg then ['-'] else []) ++ stripLeading0 ip ++ ['.'] ++ stripTrailing0 fp
    else (if neg then ['-'] else []) ++ ip ++ (if fp.isEmpty then [] else '.' :: fp) ++ etext

/-- the double nearest to `n / d` (round half to even) — what Python's `float("…")` / `eval` of a decimal
literal returns; by exact integer arithmetic (normal range; outside it, the quotient of the two conversions) -/
def ratToFloat (n d : Nat) : Float :=
  if n = 0 ∨ d = 0 then 0.0 else
  let e0 : Int := (Nat.log2 n : Int) - (Nat.log2 d : Int) - 52
  let quo (e : Int) : Nat × Nat × Nat :=
    if e ≥ 0 then (n / (d * 2 ^ e.toNat), n % (d * 2 ^ e.toNat), d * 2 ^ e.toNat)
    else ((n * 2 ^ (-e).toNat) / d, (n * 2 ^ (-e).toNat) % d, d)
  let e := if (quo e0).1 ≥ 2 ^ 52 then e0 else e0 - 1
  let (q, r, den) := quo e
  let q1 := if 2 * r > den ∨ (2 * r = den ∧ q % 2 = 1) then q + 1 else q
  let (q2, e2) := if q1 ≥ 2 ^ 53 then (q1 / 2, e + 1) else (q1, e)
  let E : Int := e2 + 52 + 1023
  if E ≤ 0 ∨ E ≥ 2047 then Float.ofNat n / Float.ofNat d
  else Float.ofBits (UInt64.ofNat (E.toNat * 2 ^ 52 + (q2 - 2 ^ 52)))

def litVal : Lit → Val
  | .int i => .int i
  | .bool b => .bool b
  | .flt neg ip fp ex _ =>
    let m := digitsVal (ip ++ fp)
    let sc : Int := ex - fp.length
    let x := if sc ≥ 0 then ratToFloat (m * 10 ^ sc.toNat) 1 else ratToFloat m (10 ^ (-sc).toNat)
    .flt (if neg then -x else x)

def evLit (tInt tBool tFloat : Nat) (s : Str) : Option (Nat × Str) :=
  (parseLit s).map (fun l => (match l with | .int _ => tInt | .bool _ => tBool | .flt .. => tFloat, reprLit l))

/-! ### values and the builtin callables -/

def showVal : Val → String
  | .int i => "i" ++ toString i
  | .bool b => if b then "b1" else "b0"
  | .flt x => "f" ++ toString x.toBits.toNat

def parseVal (s : String) : Option Val :=
  let body := (s.drop 1).toString
  match (s.take 1).toString with
  | "i" => body.toInt?.map Val.int
  | "b" => if body = "1" then some (.bool true) else if body = "0" then some (.bool false) else none
  | "f" => body.toNat?.map (fun n => Val.flt (Float.ofBits (UInt64.ofNat n)))
  | _ => none

/-! ### parsing of the request pieces -/

def parseAssoc {β : Type} (pv : String → Option β) (s : String) : Option (List (Str × β)) :=
  if s = "-" then some [] else
  (s.splitOn ",").mapM (fun e => match e.splitOn "=" with
    | [k, v] => do let k ← decodeText k; let v ← pv v; some (k, v)
    | _ => none)

def parseMapping (s : String) : Option (List (Str × Prim)) :=
  if s = "-" then some [] else
  (s.splitOn ";").mapM (fun e => match e.splitOn "=" with
    | [k, v] => do let k ← decodeText k; let v ← parseNode v; some (k, v)
    | _ => none)

def lookup {β : Type} (l : List (Str × β)) (k : Str) : Option β := (l.find? (fun e => e.1 == k)).map (·.2)

def parseLitTypes (s : String) : Option (Nat × Nat × Nat) :=
  match s.splitOn "." with
  | [a, b, c] => do let a ← parseNat a; let b ← parseNat b; let c ← parseNat c; some (a, b, c)
  | _ => none

def parseNames (s : String) : Option (List Str) := parseList decodeText s

def parseTuples (s : String) : Option (List (List Val)) :=
  (s.splitOn ";").mapM (fun t => parseList parseVal t)

/-- prefix list → tree (by arity), for evaluation -/
def parseTreeGo : Nat → List Prim → Option (Tree × List Prim)
  | 0, _ => none
  | _ + 1, [] => none
  | fuel + 1, p :: rest =>
    let rec kids (n : Nat) (l : List Prim) : Option (List Tree × List Prim) :=
      match n with
      | 0 => some ([], l)
      | n + 1 => match parseTreeGo fuel l with
        | none => none
        | some (t, l') => (kids n l').map (fun (ts, l'') => (t :: ts, l''))
    (kids p.arity rest).map (fun (ts, l) => (.node p ts, l))

def parseTree (l : List Prim) : Option Tree :=
  match parseTreeGo (l.length + 1) l with
  | some (t, []) => some t
  | _ => none

def mkEnv (funs : List (Str × String)) (vars : List (Str × Val)) : Env where
  funs := fun x => (lookup funs x).map applyOp
  vars := lookup vars
  lit := fun x => (parseLit x).map litVal

def showRes : Option Val → String
  | some v => showVal v
  | none => "none"

/-- the psets of an `adf` request: groups of five tokens -/
def parseCPsets : List String → Option (List (CPset × Tree))
  | [] => some []
  | name :: args :: funs :: vars :: nodes :: rest => do
    let name ← decodeText name
    let args ← parseNames args
    let f ← parseAssoc some funs
    let v ← parseAssoc parseVal vars
    let l ← parseNodes nodes
    let t ← parseTree l
    let more ← parseCPsets rest
    some ((⟨name, args, mkEnv f v⟩, t) :: more)
  | _ => none

def handle : List String → String
  | ["str", nodes] =>
    match parseNodes nodes with
    | some l => encodeText (strBuilder l)
    | none => "bad-op"
  | ["render", nodes] =>
    -- the recursive text of the parsed tree (must equal `str`)
    match parseNodes nodes with
    | some l => match parseTree l with
      | some t => encodeText (render t)
      | none => "none"
    | none => "bad-op"
  | ["src", args, nodes] =>
    match (do let a ← parseNames args; let l ← parseNodes nodes; pure (a, l)) with
    | some (a, l) => encodeText (compileSrc a l)
    | none => "bad-op"
  | ["lit", text] =>
    -- `eval` of a literal token: the value (exact double) and its `repr`
    match decodeText text with
    | some s => match parseLit s with
      | some l => showVal (litVal l) ++ " " ++ encodeText (reprLit l)
      | none => "none"
    | none => "bad-op"
  | ["tokens", text] =>
    match decodeText text with
    | some s => showList encodeText (tokens s)
    | none => "bad-op"
  | ["fs", sub, mapping, lt, text] =>
    match (do let sp ← parseSub sub; let m ← parseMapping mapping; let t ← parseLitTypes lt
              let s ← decodeText text; pure (sp, m, t, s)) with
    | some (sp, m, (ti, tb, tf), s) =>
      match fromString ⟨lookup m, mkSub sp, evLit ti tb tf⟩ s with
      | some l => showNodes l
      | none => "none"
    | none => "bad-op"
  | ["ev", funs, vars, args, nodes, tuples] =>
    match (do let f ← parseAssoc some funs; let v ← parseAssoc parseVal vars; let a ← parseNames args
              let l ← parseNodes nodes; let tu ← parseTuples tuples; pure (f, v, a, l, tu)) with
    | some (f, v, a, l, tu) =>
      match parseTree l with
      | some t => ",".intercalate (tu.map (fun vals => showRes (compile (mkEnv f v) a t vals)))
      | none => "none"
    | none => "bad-op"
  | "adf" :: tuples :: rest =>
    match (do let tu ← parseTuples tuples; let pts ← parseCPsets rest; pure (tu, pts)) with
    | some (tu, pts) =>
      match compileADF pts with
      | some f => ",".intercalate (tu.map (fun vals => showRes (f vals)))
      | none => "none"
    | none => "bad-op"
  | "adfs" :: tuples :: rest =>
    -- a session: the first half of the groups is individual A, the second half individual B (same sets);
    -- answers fA's values (called AFTER B was compiled) and fB's values
    match (do let tu ← parseTuples tuples; let pts ← parseCPsets rest; pure (tu, pts)) with
    | some (tu, pts) =>
      let n := pts.length / 2
      let a := pts.take n
      let b := pts.drop n
      if pts.length ≠ 2 * n then "bad-op" else
      let sigs := a.map (fun x => (⟨x.1.name, x.1.arguments⟩ : PSig))
      let cs := a.map (fun x => x.1.env)
      let sA := sessGo (mkItems sigs cs (a.map (·.2)))
      let sB := sessGo (mkItems sigs sA.2.1 (b.map (·.2)))
      match sA.2.2, sB.2.2 with
      | some fa, some fb =>
        ",".intercalate (tu.map (fun vals => showRes (fa vals))) ++ "|" ++ ",".intercalate (tu.map (fun vals => showRes (fb vals)))
      | _, _ => "none"
    | none => "bad-op"
  | _ => "bad-op"

end DriverC12
