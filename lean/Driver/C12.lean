import Driver.Proto
/-! Protocol handler for C12 (stub until the model is built). -/
namespace DriverC12

def handle : List String → String
  | _ => "bad-op"

end DriverC12
