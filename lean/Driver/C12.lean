import DeapModel.Core.GpCompile
import DeapModel.Core.GpGraph
import DeapModel.Core.GpSemantic
import Driver.C11
/-!
Protocol handler for C12 (GP printing / parsing / compilation).

nodes, sub      as in C11
text            a Python `str`, percent-encoded (`%XX` for every byte outside `[A-Za-z0-9_.-]`)
mapping         `key=node;key=node;…` (`-` = empty) — `pset.mapping` keyed by token text (encoded)
littypes        `<int>.<bool>.<float>.<str>` the type ids `eval` gives to int / bool / float / str literals
funs            `name=op,name=op,…` the callables of `pset.context` by builtin op id
vars            `name=val,…` named terminals of `pset.context`
val             `i<int>` | `b0` | `b1` | `f<bits>` | `s<text>` | `n` (None)
src             a source text (percent-encoded) as DEAP hands it to `eval`
dump            the canonical AST text of `PyLang.dump` (the harness prints `ast.parse` of CPython the same way)

pyparse src                      → dump of `PyLang.parseExpr src`, or `none`
pysound src dump|none            → `sound` when the model rejects `src` or returns exactly `dump`, else `unsound:<dump>`
pyeval funs vars hasargs src tuples   → values of `PyLang.evalSrc` (parse the text, evaluate the AST in the namespace)
pyadf tuples (name args funs vars src)*   → values of `pyCompileADFSrc` (compileADF through the source texts)
graph nodes                      → `<edges> <labels>` of `gp.graph`: edges `i.j,…` (`-` = none), labels percent-encoded
semden mut|cx funs vars args pieces trees… text tuples → values of the model's semantic offspring and of the closed formula
hist funs vars names0 steps nodes tuples → a session on ONE tree object and ONE set (`GpCompile.runSession`): `steps` =
                                   `;`-separated `c` (compile) | `s` (str) | `r~old=new,…` (renameArguments); a node named `@i` is a
                                   REFERENCE to the terminal of argument position `i` (its text is ignored).  Answers
                                   `<observations> <final names> <values of compile under the final names> <values of evalRef>`
srcok args nodes                 → `1` iff the hypotheses of `C12.parse_compileSrc` hold (`wf`, `ArgsOK`, `SrcOK`)
-/
namespace DriverC12
open Proto GpTree GpCompile DriverC11
open PyLang (allDigits digitsVal decToFloat PyEnv PyObj)

/-! ### text transport -/

def hexVal (c : Char) : Option Nat :=
  if '0' ≤ c ∧ c ≤ '9' then some (c.toNat - '0'.toNat)
  else if 'a' ≤ c ∧ c ≤ 'f' then some (c.toNat - 'a'.toNat + 10)
  else if 'A' ≤ c ∧ c ≤ 'F' then some (c.toNat - 'A'.toNat + 10)
  else none

def decodeGo : List Char → Option (List Char)
  | [] => some []
  | '%' :: a :: b :: rest => do
    let x ← hexVal a; let y ← hexVal b
    let r ← decodeGo rest
    some (Char.ofNat (16 * x + y) :: r)
  | '%' :: _ => none
  | c :: rest => (decodeGo rest).map (c :: ·)

def decodeText (s : String) : Option Str := if s = "-" then some [] else decodeGo s.toList

def hexDigit (n : Nat) : Char := if n < 10 then Char.ofNat (48 + n) else Char.ofNat (87 + n)

def plain (c : Char) : Bool := c.isAlphanum || c == '_' || c == '.' || c == '-'

def encodeText (s : Str) : String :=
  if s.isEmpty then "-" else
  String.ofList (s.flatMap (fun c => if plain c then [c] else ['%', hexDigit (c.toNat / 16), hexDigit (c.toNat % 16)]))

/-! ### literals: `eval(token)` for ints, dyadic floats, bools -/

inductive Lit
  | int (i : Int)
  | bool (b : Bool)
  /-- sign, integer digits, fraction digits, decimal exponent, and the exponent text (empty = none) -/
  | flt (neg : Bool) (ip : List Char) (fp : List Char) (exp : Int) (etext : List Char)
  | str (s : List Char)

def stripLeading0 (l : List Char) : List Char :=
  match l.dropWhile (· == '0') with
  | [] => ['0']
  | r => r

def stripTrailing0 (l : List Char) : List Char :=
  match (l.reverse.dropWhile (· == '0')).reverse with
  | [] => ['0']
  | r => r

def parseExp (l : List Char) : Option Int :=
  match l with
  | '-' :: r => if allDigits r then some (-(digitsVal r : Int)) else none
  | '+' :: r => if allDigits r then some (digitsVal r : Int) else none
  | r => if allDigits r then some (digitsVal r : Int) else none

/-- a quoted string without escapes: `'…'` or `"…"` -/
def parseStrLit (s : Str) : Option Str :=
  match s with
  | q :: rest =>
    if (q == '\'' || q == '"') && rest.getLast? == some q then
      let body := rest.dropLast
      if body.all (fun c => c != q && c != '\\' && c != '\n' && c != '\r') then some body else none
    else none
  | [] => none

def parseLit (s : Str) : Option Lit :=
  if s = "True".toList then some (.bool true)
  else if s = "False".toList then some (.bool false)
  else if let some body := parseStrLit s then some (.str body)
  else
    let (neg, body) := match s with | '-' :: r => (true, r) | r => (false, r)
    let (mant, etext) := body.span (fun c => c != 'e' && c != 'E')
    let exp? : Option Int := match etext with | [] => some 0 | _ :: r => parseExp r
    match exp? with
    | none => none
    | some ex =>
    match mant.span (· != '.') with
    | (ip, []) =>
      if etext.isEmpty then
        -- an int literal; Python rejects leading zeros ("007" is a SyntaxError)
        if allDigits ip ∧ (ip.length = 1 ∨ ip.head? ≠ some '0') then
          some (.int (if neg then -(digitsVal ip : Int) else digitsVal ip))
        else none
      else if allDigits ip then some (.flt neg ip [] ex etext) else none       -- `1e-17`
    | (ip, _ :: fp) =>
      -- Python accepts `1.` and `.5` (not a bare `.`)
      if ip.all Char.isDigit ∧ fp.all Char.isDigit ∧ ¬ (ip.isEmpty ∧ fp.isEmpty) then some (.flt neg ip fp ex etext) else none

/-- `repr` of the value (for exponent forms the token is assumed canonical, as `repr` prints it) -/
def reprLit : Lit → Str
  | .int i => (toString i).toList
  | .bool true => "True".toList
  | .bool false => "False".toList
  | .flt neg ip fp _ etext =>
    if etext.isEmpty then (if neg then ['-'] else []) ++ stripLeading0 ip ++ ['.'] ++ stripTrailing0 fp
    else (if neg then ['-'] else []) ++ ip ++ (if fp.isEmpty then [] else '.' :: fp) ++ etext
  | .str s =>
    -- `repr` of a str: double quotes only when the text has a single quote and no double quote
    if s.contains '\'' && !s.contains '"' then ['"'] ++ s ++ ['"'] else ['\''] ++ s ++ ['\'']

def litVal : Lit → Val
  | .int i => .int i
  | .bool b => .bool b
  | .flt neg ip fp ex _ =>
    let x := decToFloat (digitsVal (ip ++ fp)) (ex - fp.length)
    .flt (if neg then -x else x)
  | .str s => .str s

def evLit (tInt tBool tFloat tStr : Nat) (s : Str) : Option (Nat × Str) :=
  (parseLit s).map (fun l => (match l with | .int _ => tInt | .bool _ => tBool | .flt .. => tFloat | .str _ => tStr,
    reprLit l))

/-! ### values and the builtin callables -/

def showVal : Val → String
  | .int i => "i" ++ toString i
  | .bool b => if b then "b1" else "b0"
  | .flt x => "f" ++ toString x.toBits.toNat
  | .str s => "s" ++ PyLang.encD s
  | .pynone => "n"

def parseVal (s : String) : Option Val :=
  let body := (s.drop 1).toString
  match (s.take 1).toString with
  | "i" => body.toInt?.map PyLang.Val.int
  | "b" => if body = "1" then some (.bool true) else if body = "0" then some (.bool false) else none
  | "f" => body.toNat?.map (fun n => PyLang.Val.flt (Float.ofBits (UInt64.ofNat n)))
  | "s" => (decodeGo body.toList).map PyLang.Val.str
  | "n" => if body = "" then some .pynone else none
  | _ => none

/-! ### parsing of the request pieces -/

def parseAssoc {β : Type} (pv : String → Option β) (s : String) : Option (List (Str × β)) :=
  if s = "-" then some [] else
  (s.splitOn ",").mapM (fun e => match e.splitOn "=" with
    | [k, v] => do let k ← decodeText k; let v ← pv v; some (k, v)
    | _ => none)

def parseMapping (s : String) : Option (List (Str × Prim)) :=
  if s = "-" then some [] else
  (s.splitOn ";").mapM (fun e => match e.splitOn "=" with
    | [k, v] => do let k ← decodeText k; let v ← parseNode v; some (k, v)
    | _ => none)

def lookup {β : Type} (l : List (Str × β)) (k : Str) : Option β := (l.find? (fun e => e.1 == k)).map (·.2)

def parseLitTypes (s : String) : Option (Nat × Nat × Nat × Nat) :=
  match s.splitOn "." with
  | [a, b, c, d] => do
    let a ← parseNat a; let b ← parseNat b; let c ← parseNat c; let d ← parseNat d; some (a, b, c, d)
  | _ => none

def parseNames (s : String) : Option (List Str) := parseList decodeText s

def parseTuples (s : String) : Option (List (List Val)) :=
  (s.splitOn ";").mapM (fun t => parseList parseVal t)

/-- prefix list → tree (by arity), for evaluation -/
def parseTreeGo : Nat → List Prim → Option (Tree × List Prim)
  | 0, _ => none
  | _ + 1, [] => none
  | fuel + 1, p :: rest =>
    let rec kids (n : Nat) (l : List Prim) : Option (List Tree × List Prim) :=
      match n with
      | 0 => some ([], l)
      | n + 1 => match parseTreeGo fuel l with
        | none => none
        | some (t, l') => (kids n l').map (fun (ts, l'') => (t :: ts, l''))
    (kids p.arity rest).map (fun (ts, l) => (.node p ts, l))

def parseTree (l : List Prim) : Option Tree :=
  match parseTreeGo (l.length + 1) l with
  | some (t, []) => some t
  | _ => none

/-- the Python namespace `pset.context`: callables by op id, named values (a value wins when a key is listed
twice, as the later `dict` entry does not exist: keys are unique) -/
def mkPyEnv (funs : List (Str × String)) (vars : List (Str × Val)) : PyEnv where
  globals := fun x => match lookup vars x with
    | some v => some (.val v)
    | none => (lookup funs x).map (fun op => PyObj.fn (applyOp op))
  locals := []

/-- the `evalTree` environment of that namespace (`envOfPy`: only identifiers are reachable, literals have the
value `PyLang.litOf` gives them) -/
def mkEnv (funs : List (Str × String)) (vars : List (Str × Val)) : Env := envOfPy (mkPyEnv funs vars)

def showRes : Option Val → String
  | some v => showVal v
  | none => "none"

/-- the psets of an `adf` request: groups of five tokens -/
def parseCPsets : List String → Option (List (CPset × Tree))
  | [] => some []
  | name :: args :: funs :: vars :: nodes :: rest => do
    let name ← decodeText name
    let args ← parseNames args
    let f ← parseAssoc some funs
    let v ← parseAssoc parseVal vars
    let l ← parseNodes nodes
    let t ← parseTree l
    let more ← parseCPsets rest
    some ((⟨name, args, mkEnv f v⟩, t) :: more)
  | _ => none

/-- the psets of a `pyadf` request: groups of five tokens, the last one the source text -/
def parsePySets : List String → Option (List (PyCPset × Str))
  | [] => some []
  | name :: args :: funs :: vars :: src :: rest => do
    let name ← decodeText name
    let args ← parseNames args
    let f ← parseAssoc some funs
    let v ← parseAssoc parseVal vars
    let s ← decodeText src
    let more ← parsePySets rest
    some ((⟨name, args, mkPyEnv f v⟩, s) :: more)
  | _ => none


/-! ### `gp.graph`, denotation of the semantic offspring -/

def showEdges (l : List (Nat × Nat)) : String :=
  if l.isEmpty then "-" else ",".intercalate (l.map (fun e => toString e.1 ++ "." ++ toString e.2))

/-- a float prints as `f:<bits>` here (compared with a tolerance: the logistic function goes through `exp`) -/
def showResT : Option Val → String
  | some (.flt x) => showFloat x
  | some v => showVal v
  | none => "none"

def piecesOf : List Prim → Option SemPieces
  | [lf, mul, add, sub] => some ⟨lf, mul, add, sub⟩
  | _ => none

def call1 (env : Env) (p : Prim) (a : Option Val) : Option Val :=
  match env.funs p.name.toList, a with
  | some f, some x => f [x]
  | _, _ => none

def call2 (env : Env) (p : Prim) (a b : Option Val) : Option Val :=
  match env.funs p.name.toList, a, b with
  | some f, some x, some y => f [x, y]
  | _, _, _ => none

/-- a node named `@i` is a reference to the terminal the set created for argument position `i` -/
def argIxOf (p : Prim) : Option Nat :=
  match p.name.toList with
  | '@' :: r => (String.ofList r).toNat?
  | _ => none

def parseHStep (s : String) : Option HStep :=
  if s = "c" then some .compile
  else if s = "s" then some .str
  else match s.splitOn "~" with
    | ["r", kv] => (parseAssoc decodeText kv).map HStep.rename
    | _ => none

def handle : List String → String
  | ["hist", funs, vars, names0, steps, nodes, tuples] =>
    match (do let f ← parseAssoc some funs; let v ← parseAssoc parseVal vars; let a ← parseNames names0
              let st ← (steps.splitOn ";").mapM parseHStep
              let l ← parseNodes nodes; let tu ← parseTuples tuples; pure (f, v, a, st, l, tu)) with
    | some (f, v, a, st, l, tu) =>
      match parseTree l with
      | some t =>
        let r := runSession argIxOf l a st
        let env := mkEnv f v
        showList encodeText r.1 ++ " " ++ showList encodeText r.2 ++ " " ++
          ",".intercalate (tu.map (fun vals => showRes (compile env r.2 (viewTree argIxOf r.2 t) vals))) ++ " " ++
          ",".intercalate (tu.map (fun vals => showRes (evalRef env argIxOf vals t)))
      | none => "none"
    | none => "bad-op"
  | ["str", nodes] =>
    match parseNodes nodes with
    | some l => encodeText (strBuilder l)
    | none => "bad-op"
  | ["render", nodes] =>
    -- the recursive text of the parsed tree (must equal `str`)
    match parseNodes nodes with
    | some l => match parseTree l with
      | some t => encodeText (render t)
      | none => "none"
    | none => "bad-op"
  | ["src", args, nodes] =>
    match (do let a ← parseNames args; let l ← parseNodes nodes; pure (a, l)) with
    | some (a, l) => encodeText (compileSrc a l)
    | none => "bad-op"
  | ["lit", text] =>
    -- `eval` of a literal token: the value (exact double) and its `repr`
    match decodeText text with
    | some s => match parseLit s with
      | some l => showVal (litVal l) ++ " " ++ encodeText (reprLit l)
      | none => "none"
    | none => "bad-op"
  | ["tokens", text] =>
    match decodeText text with
    | some s => showList encodeText (tokens s)
    | none => "bad-op"
  | ["fs", sub, mapping, lt, text] =>
    match (do let sp ← parseSub sub; let m ← parseMapping mapping; let t ← parseLitTypes lt
              let s ← decodeText text; pure (sp, m, t, s)) with
    | some (sp, m, (ti, tb, tf, ts), s) =>
      match fromString ⟨lookup m, mkSub sp, evLit ti tb tf ts⟩ s with
      | some l => showNodes l
      | none => "none"
    | none => "bad-op"
  | ["ev", funs, vars, args, nodes, tuples] =>
    match (do let f ← parseAssoc some funs; let v ← parseAssoc parseVal vars; let a ← parseNames args
              let l ← parseNodes nodes; let tu ← parseTuples tuples; pure (f, v, a, l, tu)) with
    | some (f, v, a, l, tu) =>
      match parseTree l with
      | some t => ",".intercalate (tu.map (fun vals => showRes (compile (mkEnv f v) a t vals)))
      | none => "none"
    | none => "bad-op"
  | "adf" :: tuples :: rest =>
    match (do let tu ← parseTuples tuples; let pts ← parseCPsets rest; pure (tu, pts)) with
    | some (tu, pts) =>
      match compileADF pts with
      | some f => ",".intercalate (tu.map (fun vals => showRes (f vals)))
      | none => "none"
    | none => "bad-op"
  | "adfs" :: tuples :: rest =>
    -- a session: the first half of the groups is individual A, the second half individual B (same sets);
    -- answers fA's values (called AFTER B was compiled) and fB's values
    match (do let tu ← parseTuples tuples; let pts ← parseCPsets rest; pure (tu, pts)) with
    | some (tu, pts) =>
      let n := pts.length / 2
      let a := pts.take n
      let b := pts.drop n
      if pts.length ≠ 2 * n then "bad-op" else
      let sigs := a.map (fun x => (⟨x.1.name, x.1.arguments⟩ : PSig))
      let cs := a.map (fun x => x.1.env)
      let sA := sessGo (mkItems sigs cs (a.map (·.2)))
      let sB := sessGo (mkItems sigs sA.2.1 (b.map (·.2)))
      match sA.2.2, sB.2.2 with
      | some fa, some fb =>
        ",".intercalate (tu.map (fun vals => showRes (fa vals))) ++ "|" ++ ",".intercalate (tu.map (fun vals => showRes (fb vals)))
      | _, _ => "none"
    | none => "bad-op"
  | ["pyparse", src] =>
    match decodeText src with
    | some s => match PyLang.parseExpr s with
      | some e => PyLang.dump e
      | none => "none"
    | none => "bad-op"
  | ["pysound", src, d] =>
    match decodeText src with
    | some s => match PyLang.parseExpr s with
      | some e => if PyLang.dump e = d then "sound" else "unsound:" ++ PyLang.dump e
      | none => "sound"
    | none => "bad-op"
  | ["pyeval", funs, vars, hasargs, src, tuples] =>
    match (do let f ← parseAssoc some funs; let v ← parseAssoc parseVal vars; let h ← parseBool hasargs
              let s ← decodeText src; let tu ← parseTuples tuples; pure (f, v, h, s, tu)) with
    | some (f, v, h, s, tu) =>
      ",".intercalate (tu.map (fun vals => showRes (PyLang.evalSrc (mkPyEnv f v) h s vals)))
    | none => "bad-op"
  | "pyadf" :: tuples :: rest =>
    match (do let tu ← parseTuples tuples; let pts ← parsePySets rest; pure (tu, pts)) with
    | some (tu, pts) =>
      match pyCompileADFSrc pts with
      | some f => ",".intercalate (tu.map (fun vals => showRes (f vals)))
      | none => "none"
    | none => "bad-op"
  | ["graph", nodes] =>
    match parseNodes nodes with
    | some l => showEdges (graphEdges l) ++ " " ++ showList (fun x => encodeText x.toList) (graphLabels l) ++ " " ++
        toString (graphNodes l).length
    | none => "bad-op"
  | ["semden", "mut", funs, vars, args, pieces, ind, tr1, tr2, text, tuples] =>
    -- the child the MODEL builds from the parts, evaluated, and `ind + ms * (lf(tr1) - lf(tr2))` from the parts' values
    match (do let f ← parseAssoc some funs; let v ← parseAssoc parseVal vars; let a ← parseNames args
              let pc ← (parseNodes pieces).bind piecesOf
              let ti ← (parseNodes ind).bind parseTree; let t1 ← (parseNodes tr1).bind parseTree
              let t2 ← (parseNodes tr2).bind parseTree; let tx ← decodeText text
              let tu ← parseTuples tuples; pure (f, v, a, pc, ti, t1, t2, tx, tu)) with
    | some (f, v, a, pc, ti, t1, t2, tx, tu) =>
      let env := mkEnv f v
      let msN := constNode (String.ofList tx)
      let child := semMutList pc msN (flatten ti) (flatten t1) (flatten t2)
      match parseTree child with
      | none => "none"
      | some tc =>
        ",".intercalate (tu.map (fun vals => showResT (compile env a tc vals))) ++ "|" ++
        ",".intercalate (tu.map (fun vals =>
          let e := { env with vars := bindArgs a vals env.vars, funs := shadowFuns a vals env.funs }
          showResT (call2 e pc.add (compile env a ti vals)
            (call2 e pc.mul (env.lit tx) (call2 e pc.sub (call1 e pc.lf (compile env a t1 vals))
              (call1 e pc.lf (compile env a t2 vals)))))))
    | none => "bad-op"
  | ["semden", "cx", funs, vars, args, pieces, ind1, ind2, tr, text, tuples] =>
    match (do let f ← parseAssoc some funs; let v ← parseAssoc parseVal vars; let a ← parseNames args
              let pc ← (parseNodes pieces).bind piecesOf
              let ta ← (parseNodes ind1).bind parseTree; let tb ← (parseNodes ind2).bind parseTree
              let t ← (parseNodes tr).bind parseTree; let tx ← decodeText text
              let tu ← parseTuples tuples; pure (f, v, a, pc, ta, tb, t, tx, tu)) with
    | some (f, v, a, pc, ta, tb, t, tx, tu) =>
      let env := mkEnv f v
      let one := constNode (String.ofList tx)
      let c1 := semCxList pc one (flatten ta) (flatten tb) (flatten t)
      let c2 := semCxList pc one (flatten tb) c1 (flatten t)
      match parseTree c1, parseTree c2 with
      | some t1, some t2 =>
        let form (vals : List Val) : Option Val × Option Val :=
          let e := { env with vars := bindArgs a vals env.vars, funs := shadowFuns a vals env.funs }
          let r := call1 e pc.lf (compile env a t vals)
          let av := compile env a ta vals
          let bv := compile env a tb vals
          let w := call2 e pc.sub (env.lit tx) r
          let v1 := call2 e pc.add (call2 e pc.mul av r) (call2 e pc.mul w bv)
          (v1, call2 e pc.add (call2 e pc.mul bv r) (call2 e pc.mul w v1))
        ",".intercalate (tu.map (fun vals => showResT (compile env a t1 vals))) ++ "|" ++
        ",".intercalate (tu.map (fun vals => showResT (compile env a t2 vals))) ++ "|" ++
        ",".intercalate (tu.map (fun vals => showResT (form vals).1)) ++ "|" ++
        ",".intercalate (tu.map (fun vals => showResT (form vals).2))
      | _, _ => "none"
    | none => "bad-op"
  | ["srcok", args, nodes] =>
    match (do let a ← parseNames args; let l ← parseNodes nodes; pure (a, l)) with
    | some (a, l) =>
      match parseTree l with
      | some t => showBool (wf t && ArgsOK a && l.all SrcOK)
      | none => "0"
    | none => "bad-op"
  | _ => "bad-op"

end DriverC12
