import DeapModel.Core.NDSort
import Driver.Proto
/-!
Protocol handler for C04 (non-dominated sorting).

* `run <proc> <pop> <ks> <ffos>`  proc = `std` (model A) | `log` (model B) | `spec` (peeling);
  `pop` = `;`-separated weighted-value tuples (ids = positions); answers, for every `k` in `ks` and every
  flag in `ffos` (`first_front_only`), the fronts as sorted id lists, joined by `|`.
* `cert <pop> <fronts>`  runs the certificate checker on a complete list of fronts (id lists).
-/
namespace DriverC04
open Proto NDSort

def mkPop (ws : List (List Rat)) : List (Ind Rat) :=
  (List.range ws.length).zipWith (fun i w => ⟨i, w⟩) ws

/-- all tuples have the same length `m ≥ lo` -/
def wellFormed (ws : List (List Rat)) (lo : Nat) : Bool :=
  match ws with
  | [] => true
  | w :: _ => decide (lo ≤ w.length) && ws.all (fun v => v.length == w.length)

def sortIds (l : List (Ind Rat)) : List Nat := (l.map (·.id)).mergeSort (fun a b => decide (a ≤ b))

def showFront (f : List (Ind Rat)) : String := showList toString (sortIds f)

def showFronts (fs : List (List (Ind Rat))) : String :=
  if fs.isEmpty then "[]" else ";".intercalate (fs.map showFront)

def showRes : Option (List (List (Ind Rat))) → String
  | none => "nonterm"
  | some fs => showFronts fs

def runOne (proc : String) (pop : List (Ind Rat)) (k : Nat) (ffo : Bool) : String :=
  if proc = "std" then showRes (sortStd pop k ffo)
  else if proc = "log" then
    if ffo then
      (if k = 0 then showRes (sortLogFirst pop k |>.map fun _ => [])
       else showRes ((sortLogFirst pop k).map fun f => [f]))
    else showRes (sortLog pop k)
  else if ffo then (if k = 0 then "[]" else showFronts [nondom domI pop])
  else showFronts (leading (peel domI pop) k)

def handle : List String → String
  | ["run", proc, ps, kss, ffs] =>
    match (do
      let ws ← parseList2 parseRat ps
      let ks ← parseList parseNat kss
      let ffos ← parseList parseBool ffs
      if !(proc = "std" || proc = "log" || proc = "spec") then none
      if !(wellFormed ws (if proc = "log" then 2 else 1)) then none
      if proc = "log" && ws.isEmpty then none
      pure (mkPop ws, ks, ffos)) with
    | some (pop, ks, ffos) =>
      "|".intercalate (ks.flatMap fun k => ffos.map fun f => runOne proc pop k f)
    | none => "bad-op"
  | ["cert", ps, fs] =>
    match (do
      let ws ← parseList2 parseRat ps
      let ids ← parseList2 parseNat fs
      if !(wellFormed ws 1) then none
      let pop := mkPop ws
      let fronts ← ids.mapM (fun (f : List Nat) => f.mapM (fun i => pop[i]?))
      pure (pop, fronts)) with
    | some (pop, fronts) => showBool (checkRanking domI pop fronts)
    | none => "bad-op"
  | _ => "bad-op"

end DriverC04
