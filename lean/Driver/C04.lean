import Driver.Proto
/-! Protocol handler for C04 (stub until the model is built). -/
namespace DriverC04

def handle : List String → String
  | _ => "bad-op"

end DriverC04
