import Driver.Proto
/-! Protocol handler for C13 (stub until the model is built). -/
namespace DriverC13

def handle : List String → String
  | _ => "bad-op"

end DriverC13
