import DeapModel.Core.Cma
import Driver.Proto
/-!
Protocol handler for C13 (`deap.cma.Strategy`), `Float` instance of `Core/Cma.lean`.

Vectors and matrices are printed *normalised*: first the scale `m = max |entry|`, then the entries
divided by `m` (so the harness' relative/absolute tolerance is relative to the size of the whole
quantity, not of one entry that may be the result of cancellation); `m = 0` prints the raw entries.

  params  dim lambda mu|- scheme cs|- damps|- ccum|- ccov1|- ccovmu|-
  init    centroid sigma lambda|- mu|- scheme cs|- damps|- ccum|- ccov1|- ccovmu|- cmatrix|- w V indx
  update  <state> keys pop w V indx          (code form + eigen post-processing)
  spec    <state> keys pop                   (published form)
  generate dim lambda centroid sigma BD tape     (answers `bad-tape` when the tape is shorter than lambda·dim)
  sort    keys
  relambda dim oldlambda newlambda mu|- scheme cs|- damps|- ccum|- ccov1|- ccovmu|-   (lambda_ = new; computeParams(params))
  <state> = dim mu weights mueff cc cs ccov1 ccovmu damps chiN count centroid sigma pc ps C B diagD
-/
namespace DriverC13
open Proto Cma

def fabs (x : Float) : Float := Float.abs x

def maxAbs (v : List Float) : Float := v.foldl (fun m x => if fabs x > m then fabs x else m) 0.0

def showScaled (m : Float) (v : List Float) : String :=
  if m > 0.0 && m.isFinite then showList showFloat (v.map (· / m)) else showList showFloat v

def showVecN (v : List Float) : String :=
  let m := maxAbs v
  showFloat m ++ " " ++ showScaled m v

def showMatN (M : List (List Float)) : String :=
  let m := maxAbs (M.map maxAbs)
  showFloat m ++ " " ++ (if M.isEmpty then "-" else ";".intercalate (M.map (showScaled m)))

def optFloat (s : String) : Option (Option Float) :=
  if s = "-" then some none else (parseFloat s).map some

def optNat (s : String) : Option (Option Nat) :=
  if s = "-" then some none else (parseNat s).map some

def vec (s : String) : Option (List Float) := parseList parseFloat s
def mat (s : String) : Option (List (List Float)) := parseList2 parseFloat s

def showParams (p : Params Float) : String :=
  toString p.mu ++ " " ++ showVecN p.weights ++ " " ++ " ".intercalate
    [showFloat p.mueff, showFloat p.cc, showFloat p.cs, showFloat p.ccov1, showFloat p.ccovmu, showFloat p.damps]

def parseOver (lam mu scheme cs damps ccum ccov1 ccovmu : String) (cm : Option (List (List Float))) :
    Option (Option (Over Float)) := do
  let lam ← optNat lam
  let mu ← optNat mu
  let cs ← optFloat cs
  let damps ← optFloat damps
  let ccum ← optFloat ccum
  let ccov1 ← optFloat ccov1
  let ccovmu ← optFloat ccovmu
  match Scheme.ofString? scheme with
  | none => pure none          -- RuntimeError("Unknown weights")
  | some sch => pure (some { lambda_ := lam, mu := mu, cmatrix := cm, scheme := sch, cs := cs, damps := damps,
                             ccum := ccum, ccov1 := ccov1, ccovmu := ccovmu })

def parseState (t : List String) : Option (State Float) :=
  match t with
  | [dim, mu, weights, mueff, cc, cs, ccov1, ccovmu, damps, chiN, count, centroid, sigma, pc, ps, C, B, diagD] => do
    let dim ← parseNat dim
    let mu ← parseNat mu
    let weights ← vec weights
    let mueff ← parseFloat mueff
    let cc ← parseFloat cc
    let cs ← parseFloat cs
    let ccov1 ← parseFloat ccov1
    let ccovmu ← parseFloat ccovmu
    let damps ← parseFloat damps
    let sigma ← parseFloat sigma
    let chiN ← parseFloat chiN
    let count ← parseNat count
    let par : Params Float := { mu := mu, weights := weights, mueff := mueff, cc := cc, cs := cs, ccov1 := ccov1, ccovmu := ccovmu, damps := damps }
    let centroid ← vec centroid
    let pc ← vec pc
    let ps ← vec ps
    let C ← mat C
    let B ← mat B
    let diagD ← vec diagD
    if !(isVec dim centroid && isVec dim pc && isVec dim ps && isVec dim diagD && isMat dim dim C && isMat dim dim B
         && isVec mu weights) then none
    else pure { dim := dim, centroid := centroid, sigma := sigma, pc := pc, ps := ps,
                chiN := chiN, C := C, diagD := diagD, B := B, BD := [], cond := 0.0, lambda_ := 0,
                updateCount := count, par := par }
  | _ => none

def parsePop (s : State Float) (keys pop : String) : Option (List (FitKey Float × List Float)) := do
  let ks ← mat keys
  let xs ← mat pop
  if ks.length != xs.length then none else
  let p := (ks.map FitKey.mk).zip xs
  if popOk s p then pure p else none

def showCore (c : Core Float) : String :=
  " ".intercalate [showVecN c.centroid, showVecN c.ps, showFloat c.hsig, showVecN c.pc, showMatN c.C, showFloat c.sigma]

def showEig (e : Eig Float) : String :=
  " ".intercalate [showVecN e.diagD, showMatN e.B, showMatN e.BD, showFloat e.cond]

def handle : List String → String
  | ["params", dim, lam, mu, scheme, cs, damps, ccum, ccov1, ccovmu] =>
    match (do let d ← parseNat dim; let l ← parseNat lam
              let o ← parseOver "-" mu scheme cs damps ccum ccov1 ccovmu none; pure (d, l, o)) with
    | some (d, l, some o) =>
      if o.mu.getD (l / 2) = 0 then "error ZeroDivisionError" else showParams (computeParams d l o)
    | some (_, _, none) => "error RuntimeError"
    | none => "bad-op"
  | ["init", centroid, sigma, lam, mu, scheme, cs, damps, ccum, ccov1, ccovmu, cmatrix, w, V, indx] =>
    match (do
      let c ← vec centroid
      let sg ← parseFloat sigma
      let cm ← if cmatrix = "-" then some none else (mat cmatrix).map some
      let o ← parseOver lam mu scheme cs damps ccum ccov1 ccovmu cm
      let w ← vec w; let V ← mat V; let indx ← parseList parseNat indx
      let cmOk := match cm with
        | some m => isMat c.length c.length m
        | none => true
      if !(isVec c.length w && isMat c.length c.length V && cmOk) then none else
      pure (c, sg, o, w, V, indx)) with
    | some (c, sg, some o, w, V, indx) =>
      let s := init (fun _ => (w, V)) (fun _ => indx) c sg o
      if s.par.mu = 0 then "error ZeroDivisionError" else
      " ".intercalate [toString s.dim, toString s.lambda_, showFloat s.chiN, showVecN s.pc, showVecN s.ps, showMatN s.C,
        showVecN s.diagD, showMatN s.B, showMatN s.BD, showFloat s.cond, toString s.updateCount,
        showBool (isArgsort s.dim w indx), showParams s.par]
    | some (_, _, none, _, _, _) => "error RuntimeError"
    | none => "bad-op"
  | "update" :: rest =>
    if rest.length != 23 then "bad-op" else
    match (do
      let s ← parseState (rest.take 18)
      let p ← parsePop s (rest.getD 18 "") (rest.getD 19 "")
      let w ← vec (rest.getD 20 ""); let V ← mat (rest.getD 21 ""); let indx ← parseList parseNat (rest.getD 22 "")
      if !(isVec s.dim w && isMat s.dim s.dim V) then none else
      pure (s, p, w, V, indx)) with
    | some (s, p, w, V, indx) =>
      let s' := update (fun _ => (w, V)) (fun _ => indx) s p
      " ".intercalate [showVecN s'.centroid, showVecN s'.ps, showVecN s'.pc, showMatN s'.C, showFloat s'.sigma,
        toString s'.updateCount, showEig ⟨s'.diagD, s'.B, s'.BD, s'.cond⟩, showBool (isArgsort s.dim w indx)]
    | none => "bad-op"
  | "spec" :: rest =>
    if rest.length != 20 then "bad-op" else
    match (do
      let s ← parseState (rest.take 18)
      let p ← parsePop s (rest.getD 18 "") (rest.getD 19 "")
      pure (s, p)) with
    | some (s, p) => showCore (updateSpec s (selectBest s.par.mu p))
    | none => "bad-op"
  | ["generate", dim, lam, centroid, sigma, BD, tape] =>
    match (do
      let d ← parseNat dim
      let l ← parseNat lam
      let c ← vec centroid; let sg ← parseFloat sigma; let bd ← mat BD; let z ← vec tape
      if !(isVec d c && isMat d d bd) then none else
      pure (d, l, c, sg, bd, z)) with
    | some (d, l, c, sg, bd, z) =>
      let s : State Float := { dim := d, centroid := c, sigma := sg, pc := [], ps := [], chiN := 0.0, C := [], diagD := [], B := [], BD := bd, cond := 0.0, lambda_ := l, updateCount := 0, par := { mu := 0, weights := [], mueff := 0.0, cc := 0.0, cs := 0.0, ccov1 := 0.0, ccovmu := 0.0, damps := 0.0 } }
      match generate s z (fun x => x) with
      | some (pts, rest) => toString pts.length ++ " " ++ toString rest.length ++ " " ++ showMatN pts
      | none => "bad-tape"
    | none => "bad-op"
  | ["relambda", dim, oldlam, newlam, mu, scheme, cs, damps, ccum, ccov1, ccovmu] =>
    match (do let d ← parseNat dim; let l0 ← parseNat oldlam; let l ← parseNat newlam
              let o ← parseOver "-" mu scheme cs damps ccum ccov1 ccovmu none; pure (d, l0, l, o)) with
    | some (d, l0, l, some o) =>
      if o.mu.getD (l / 2) = 0 then "error ZeroDivisionError" else
      let s0 : State Float := { dim := d, centroid := [], sigma := 0.0, pc := [], ps := [], chiN := 0.0, C := [], diagD := [], B := [], BD := [], cond := 0.0, lambda_ := l0, updateCount := 0, par := computeParams d l0 o }
      let s := relambda s0 l o
      toString s.lambda_ ++ " " ++ showParams s.par
    | some (_, _, _, none) => "error RuntimeError"
    | none => "bad-op"
  | ["sort", keys] =>
    match mat keys with
    | some ks =>
      let p : List (FitKey Float × Nat) := (ks.map FitKey.mk).zip (List.range ks.length)
      showList toString ((sortDesc p).map Prod.snd)
    | none => "bad-op"
  | _ => "bad-op"

end DriverC13
