import Driver.C01
/-!
Line-protocol driver: one request per line (`<property> <op> <args…>`), one answer per line.
Imports only the import-free `DeapModel.Core` models, so it links as a compiled executable.
-/

def dispatch (line : String) : String :=
  match (line.trimAscii.toString.splitOn " ") with
  | "C01" :: rest => DriverC01.handle rest
  | ["ping"] => "pong"
  | _ => "bad-op"

partial def loop (h : IO.FS.Stream) (out : IO.FS.Stream) : IO Unit := do
  let line ← h.getLine
  if line.isEmpty then return ()
  out.putStrLn (dispatch line)
  loop h out

def main : IO Unit := do
  let out ← IO.getStdout
  loop (← IO.getStdin) out
  out.flush
