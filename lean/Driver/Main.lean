import Driver.C01
import Driver.C02
import Driver.C03
import Driver.C04
import Driver.C05
import Driver.C06
import Driver.C07
import Driver.C08
import Driver.C09
import Driver.C10
import Driver.C11
import Driver.C12
import Driver.C13
import Driver.C14
import Driver.C15
import Driver.C16
import Driver.C17
import Driver.C18
import Driver.C19
import Driver.C20
/-!
Line-protocol driver: one request per line (`<property> <op> <args…>`), one answer per line.
Imports only the import-free `DeapModel.Core` models, so it links as a compiled executable.
-/

def dispatch (line : String) : String :=
  match (line.trimAscii.toString.splitOn " ") with
  | "C01" :: rest => DriverC01.handle rest
  | "C02" :: rest => DriverC02.handle rest
  | "C03" :: rest => DriverC03.handle rest
  | "C04" :: rest => DriverC04.handle rest
  | "C05" :: rest => DriverC05.handle rest
  | "C06" :: rest => DriverC06.handle rest
  | "C07" :: rest => DriverC07.handle rest
  | "C08" :: rest => DriverC08.handle rest
  | "C09" :: rest => DriverC09.handle rest
  | "C10" :: rest => DriverC10.handle rest
  | "C11" :: rest => DriverC11.handle rest
  | "C12" :: rest => DriverC12.handle rest
  | "C13" :: rest => DriverC13.handle rest
  | "C14" :: rest => DriverC14.handle rest
  | "C15" :: rest => DriverC15.handle rest
  | "C16" :: rest => DriverC16.handle rest
  | "C17" :: rest => DriverC17.handle rest
  | "C18" :: rest => DriverC18.handle rest
  | "C19" :: rest => DriverC19.handle rest
  | "C20" :: rest => DriverC20.handle rest
  | ["ping"] => "pong"
  | _ => "bad-op"

partial def loop (h : IO.FS.Stream) (out : IO.FS.Stream) : IO Unit := do
  let line ← h.getLine
  if line.isEmpty then return ()
  out.putStrLn (dispatch line)
  loop h out

def main : IO Unit := do
  let out ← IO.getStdout
  loop (← IO.getStdin) out
  out.flush
