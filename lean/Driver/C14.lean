import Driver.Proto
/-! Protocol handler for C14 (stub until the model is built). -/
namespace DriverC14

def handle : List String → String
  | _ => "bad-op"

end DriverC14
