import DeapModel.Core.CmaElitist
import DeapModel.Core.CmaSelectLib
import Driver.Proto
/-! Protocol handler for C14 (elitist / multi-objective CMA-ES), `Float` instance of the model.

Tokens: a float is `f:<bits>`; a vector is a comma list; a matrix a `;` list of rows; a list of
matrices a `|` list (input only; answers print one matrix per token); a fitness is a vector of
weighted values (`none` = invalid / absent).  `raise` answers a modelled exception. -/
namespace DriverC14
open Proto CmaElitist

abbrev V := List Float
abbrev M := List (List Float)

def pVec (s : String) : Option V := parseList parseFloat s
def pMat (s : String) : Option M := parseList2 parseFloat s
def pMats (s : String) : Option (List M) :=
  if s = "-" || s = "" then some [] else (s.splitOn "|").mapM pMat
def pNats (s : String) : Option (List Nat) := parseList parseNat s
def pNats2 (s : String) : Option (List (List Nat)) := parseList2 parseNat s
def pOptVec (s : String) : Option (Option V) := if s = "none" then some none else (pVec s).map some
def pOptMat (s : String) : Option (Option M) := if s = "none" then some none else (pMat s).map some
def pOptVecs (s : String) : Option (List (Option V)) :=
  if s = "-" || s = "" then some [] else (s.splitOn ";").mapM pOptVec
def pOptMats (s : String) : Option (List (Option M)) :=
  if s = "-" || s = "" then some [] else (s.splitOn "|").mapM pOptMat
/-- rows of flags, one row per individual (`-` = an empty flag tuple, `x` = the fitness has no
`constraint_violation` attribute): (hasattr, flags) -/
def pBools2 (s : String) : Option (List (Bool × List Bool)) :=
  (s.splitOn ";").mapM (fun r => if r = "x" then some (false, []) else (parseList parseBool r).map (fun l => (true, l)))

def sF := showFloat
def sVec (v : V) : String := showList showFloat v
def sMat (m : M) : String := showList2 showFloat m
def sMats (l : List M) : String := if l.isEmpty then "-" else " ".intercalate (l.map sMat)
def sNats (l : List Nat) : String := showList toString l
def sOptVec : Option V → String
  | none => "none"
  | some v => sVec v

/-- Lexicographic tuple comparison of weighted values (`Fitness.__lt__` / `__le__`; no NaN). -/
def lexLt : V → V → Bool
  | [], [] => false
  | [], _ :: _ => true
  | _ :: _, [] => false
  | a :: as, b :: bs => if a == b then lexLt as bs else a < b
def lexLe : V → V → Bool
  | [], _ => true
  | _ :: _, [] => false
  | a :: as, b :: bs => if a == b then lexLe as bs else a ≤ b
def ord : FitOrd V := ⟨lexLe, lexLt⟩

def allLen {β : Type} (n : Nat) (l : List (List β)) : Bool := l.all (fun r => r.length == n)
def square (n : Nat) (m : M) : Bool := m.length == n && allLen n m

/-! #### (1+λ) -/

def pOPParams : List String → Option (OnePlus.Params Float)
  | [l, d, pt, cp, cc, ccov, pth] => do
    let l ← parseNat l
    some ⟨l, ← parseFloat d, ← parseFloat pt, ← parseFloat cp, ← parseFloat cc, ← parseFloat ccov,
          ← parseFloat pth⟩
  | _ => none

def mkInds (ids : List Nat) (fits : List V) (xs : M) : Option (List (Ind V Float)) :=
  if ids.length = fits.length ∧ ids.length = xs.length then
    some ((List.zip ids (List.zip fits xs)).map (fun t => { id := t.1, x := t.2.2, fit := t.2.1 }))
  else none

def opUpd (args : List String) : Option String := do
  match args with
  | [l, d, pt, cp, cc, ccov, pth, pid, pfit, px, sigma, C, A, pc, psucc, ids, fits, xs, cholA] =>
    let prm ← pOPParams [l, d, pt, cp, cc, ccov, pth]
    let px ← pVec px
    let n := px.length
    let C ← pMat C; let A ← pMat A; let pc ← pVec pc; let cholA ← pMat cholA
    let xs ← pMat xs
    if !(square n C && square n A && square n cholA && pc.length == n && allLen n xs) then none
    let pop ← mkInds (← pNats ids) (← parseList2 parseFloat fits) xs
    let s : OnePlus.State V Float :=
      { parent := { id := ← parseNat pid, x := px, fit := ← pVec pfit }, sigma := ← parseFloat sigma,
        C := C, A := A, pc := pc, psucc := ← parseFloat psucc, prm := prm }
    match OnePlus.update ord (fun _ => cholA) s pop with
    | none => some "raise"
    | some o =>
      some (" ".intercalate [sNats (o.sorted.map (·.id)), toString o.lambdaSucc, showBool o.replaced,
        toString o.st.parent.id, sVec o.st.parent.fit, sVec o.st.parent.x, sF o.st.psucc,
        sF o.st.sigma, sVec o.st.pc, sMat o.st.C, sMat o.st.A])
  | _ => none

/-- Whole-history elitism: only fitnesses and ids matter (dimension-0 numerics). -/
def opElit (lam pid pfit : String) (rounds : List String) : Option String := do
  let lam ← parseNat lam
  let s0 : OnePlus.State V Float :=
    OnePlus.init { id := ← parseNat pid, x := [], fit := ← pVec pfit } 1.0 (OnePlus.defaultParams 1 lam)
  let pops ← rounds.mapM (fun r => match r.splitOn "|" with
    | [ids, fits] => do
      let ids ← pNats ids
      let fits ← parseList2 parseFloat fits
      mkInds ids fits (ids.map (fun _ => []))
    | _ => none)
  let rec go (s : OnePlus.State V Float) (ps : List (List (Ind V Float))) (acc : List String) : List String :=
    match ps with
    | [] => acc.reverse
    | p :: rest =>
      match OnePlus.update ord (fun c => c) s p with
      | none => ("raise" :: acc).reverse
      | some o => go o.st rest
          ((toString o.st.parent.id ++ "/" ++ toString o.lambdaSucc ++ "/" ++ sNats (o.sorted.map (·.id))) :: acc)
  some (if pops.isEmpty then "-" else " ".intercalate (go s0 pops []))

/-! #### MO -/

def pMOParams : List String → Option (MO.Params Float)
  | [mu, l, d, pt, cp, cc, ccov, pth] => do
    some ⟨← parseNat mu, ← parseNat l, ← parseFloat d, ← parseFloat pt, ← parseFloat cp, ← parseFloat cc,
          ← parseFloat ccov, ← parseFloat pth⟩
  | _ => none

/-- tag token `o3` / `p1`. -/
def pTag (s : String) : Option (Bool × Nat) :=
  if s.startsWith "o" then (parseNat (s.drop 1).toString).map (fun n => (true, n))
  else if s.startsWith "p" then (parseNat (s.drop 1).toString).map (fun n => (false, n))
  else none
def sTag (i : MO.MInd Float) : String := (if i.off then "o" else "p") ++ toString i.pidx

def mkMInds (start : Nat) (xs wvs : M) (tags : List (Bool × Nat)) : Option (List (MO.MInd Float)) :=
  if xs.length = wvs.length ∧ xs.length = tags.length then
    some ((List.zipIdx (List.zip xs (List.zip wvs tags))).map (fun t =>
      { id := start + t.2, x := t.1.1, wv := t.1.2.1, off := t.1.2.2.1, pidx := t.1.2.2.2 }))
  else none

/-- The indicator answers as an association list `len:idx`. -/
def pAssoc (s : String) : Option (List (Nat × Nat)) :=
  parseList (fun t => match t.splitOn ":" with
    | [a, b] => do some (← parseNat a, ← parseNat b)
    | _ => none) s

def tapeInd {ι : Type} (tape : List (Nat × Nat)) (l : List ι) : Nat :=
  match tape.lookup l.length with
  | some i => i
  | none => l.length   -- unanswered call: out of range, the model answers `raise`

def byIds {ι : Type} (ids : List (List Nat)) (cands : List ι) : Option (List (List ι)) :=
  ids.mapM (fun f => f.mapM (fun i => cands[i]?))

def opMoSel (mu ncand fronts tape : String) : Option String := do
  let mu ← parseNat mu; let n ← parseNat ncand
  let fr ← pNats2 fronts; let tape ← pAssoc tape
  if !(fr.all (fun f => f.all (fun i => i < n))) then none
  match MO.selectFronts mu fr (tapeInd tape) (List.range n) with
  | none => some "raise"
  | some (c, nc) => some (sNats c ++ " " ++ sNats nc)

/-- `mo-sel-lib <mu> <nobj> <wvalues>`: `_select` end to end through the COMPOSED model
(`MOLib.select`: C04's `sortLog` as the ranking, C15's `leastContributor` as the indicator) on exact
rational weighted values; answers the chosen and the not-chosen candidate positions, in order. -/
def opMoSelLib (mu nobj ws : String) : Option String := do
  let mu ← parseNat mu; let nobj ← parseNat nobj
  let ws ← parseList2 parseRat ws
  if !(decide (2 ≤ nobj) && ws.all (fun w => w.length == nobj)) then none
  match MOLib.select mu nobj (MOLib.mkCands ws) with
  | none => some "raise"
  | some (c, nc) => some (sNats (c.map (·.id)) ++ " " ++ sNats (nc.map (·.id)))

/-- raw `_ps` token of a parent before `generate`: `o3` / `p1` as left by an earlier update or an
earlier strategy (any index), `n` = the individual has no `_ps` attribute (any value will do, it is
overwritten before it is read; the driver uses `p0`). -/
def pRawTag (s : String) : Option (Bool × Nat) := if s = "n" then some (false, 0) else pTag s

/-- `mo-upd`: one `update` on parents already tagged by `generate`.
`mo-round` (`raw = true`): the parents carry the RAW tags they had before `generate` (stale tags of
an earlier strategy after a restart, `o`-tags of promoted offspring, none); the model installs them
(`MO.setTags`), then runs the whole round `MO.round` = `generate`'s unconditional re-tagging of every
parent followed by `update` (theorem `mo_alignment_any_initial_tags`). -/
def opMoUpd (raw : Bool) (args : List String) : Option String := do
  match args with
  | [dim, nobj, mu, l, d, pt, cp, cc, ccov, pth, pxs, pwvs, ptags, sigmas, As, invs, pcs, psuccs,
     oxs, owvs, otags, fronts, tape] =>
    let dim ← parseNat dim; let nobj ← parseNat nobj
    let prm ← pMOParams [mu, l, d, pt, cp, cc, ccov, pth]
    let pxs ← pMat pxs; let oxs ← pMat oxs
    let m := pxs.length
    let rawTags ← parseList (if raw then pRawTag else pTag) ptags
    let parents ← mkMInds oxs.length pxs (← pMat pwvs) (if raw then rawTags.map (fun _ => (false, 0)) else rawTags)
    let pop ← mkMInds 0 oxs (← pMat owvs) (← parseList pTag otags)
    let sigmas ← pVec sigmas; let As ← pMats As; let invs ← pMats invs
    let pcs ← pMat pcs; let psuccs ← pVec psuccs
    if !(sigmas.length == m && As.length == m && invs.length == m && pcs.length == m && psuccs.length == m
         && As.all (square dim) && invs.all (square dim) && allLen dim pcs && allLen dim pxs
         && allLen dim oxs) then none
    if !((pop ++ parents).all (fun i => i.wv.length == nobj && i.pidx < m)) then none
    if !(pop.all (fun i => i.off)) && raw then none
    let fr ← pNats2 fronts; let tape ← pAssoc tape
    let s : MO.State Float := { dim := dim, parents := parents, sigmas := sigmas, A := As, invCh := invs,
                                pc := pcs, psucc := psuccs, prm := prm }
    -- the sort answers (a tape of candidate positions) are resolved against what `update` is handed:
    -- the offspring and the parents as `generate` has tagged them
    let cands := pop ++ (if raw then (MO.retag (MO.setTags s rawTags)).parents else parents)
    let frI ← byIds fr cands
    match (if raw then MO.round (MO.setTags s rawTags) nobj (fun _ => frI) (fun l _ => tapeInd tape l) pop
           else MO.update s nobj (fun _ => frI) (fun l _ => tapeInd tape l) pop) with
    | none => some "raise"
    | some (s', nc) =>
      some (" ".intercalate [sNats (s'.parents.map (·.id)), sNats (nc.map (·.id)),
        sVec (MO.refPoint nobj cands), sVec s'.sigmas, sVec s'.psucc, sMat s'.pc, sMats s'.A, sMats s'.invCh])
  | _ => none

def opMoGen (args : List String) : Option String := do
  match args with
  | [dim, mu, l, pxs, sigmas, As, arz, ff, draws] =>
    let dim ← parseNat dim; let mu ← parseNat mu; let l ← parseNat l
    let pxs ← pMat pxs; let m := pxs.length
    let sigmas ← pVec sigmas; let As ← pMats As; let arz ← pMat arz
    let ff ← pNats ff; let draws ← pNats draws
    if !(sigmas.length == m && As.length == m && As.all (square dim) && allLen dim pxs && allLen dim arz
         && arz.length == l && ff.all (· < m)) then none
    if l != mu && !(draws.length == l && draws.all (· < ff.length)) then none
    let parents : List (MO.MInd Float) := (List.zipIdx pxs).map (fun t => ⟨t.2, t.1, [], false, 0⟩)
    let s : MO.State Float := { dim := dim, parents := parents, sigmas := sigmas, A := As, invCh := As,
                                pc := [], psucc := [], prm := { (MO.defaultParams dim mu l) with } }
    let r := MO.generate s arz (fun ps => ff.filterMap (fun i => ps[i]?)) draws
    some (sNats (r.1.map (·.pidx)) ++ " " ++ sMat (r.2.map (·.1)) ++ " " ++ sNats (r.2.map (·.2)))
  | _ => none

/-! #### active (1+λ) -/

def pActParams : List String → Option (Active.Params Float)
  | [l, cc, ccovp, ccovn, cconst, pth, d, pt, cp, beta] => do
    some ⟨← parseNat l, ← parseFloat cc, ← parseFloat ccovp, ← parseFloat ccovn, ← parseFloat cconst,
          ← parseFloat pth, ← parseFloat d, ← parseFloat pt, ← parseFloat cp, ← parseFloat beta⟩
  | _ => none

/-- `numpy.around` on a double: round half to even. -/
def around (x : Float) : Float :=
  let f := x.floor
  let d := x - f
  if d < 0.5 then f else if 0.5 < d then f + 1.0
  else if (f / 2.0).floor * 2.0 == f then f else f + 1.0

def opActUpd (args : List String) : Option String := do
  match args with
  | [l, cc, ccovp, ccovn, cconst, pth, d, pt, cp, beta,
     pid, pfit, px, sigma, A, invA, pc, psucc, sInt, iIR, cvecs, anc,
     ids, fits, cvs, xs, ys, zs, invTape] =>
    let prm ← pActParams [l, cc, ccovp, ccovn, cconst, pth, d, pt, cp, beta]
    let px ← pVec px; let n := px.length
    let A ← pMat A; let invA ← pMat invA; let pc ← pVec pc; let sInt ← pVec sInt
    let cvecs ← pOptMat cvecs
    let ids ← pNats ids; let fits ← pOptVecs fits; let cvs ← pBools2 cvs
    let xs ← pMat xs; let ys ← pMat ys; let zs ← pMat zs
    let k := ids.length
    if !(square n A && square n invA && pc.length == n && sInt.length == n && fits.length == k
         && cvs.length == k && xs.length == k && ys.length == k && zs.length == k && allLen n xs
         && allLen n ys && allLen n zs) then none
    if !(match cvecs with | none => true | some c => allLen n c) then none
    let invT ← pOptMats invTape
    let pop : List (Active.AInd V Float) :=
      (List.zip ids (List.zip fits (List.zip cvs (List.zip xs (List.zip ys zs))))).map (fun t =>
        { id := t.1, fit := t.2.1, cv := t.2.2.1.2, hasCv := t.2.2.1.1, x := t.2.2.2.1, y := t.2.2.2.2.1,
          z := t.2.2.2.2.2 })
    let s : Active.State V Float :=
      { dim := n, parentId := ← parseNat pid, parentX := px, parentFit := ← pOptVec pfit,
        sigma := ← parseFloat sigma, A := A, invA := invA, pc := pc, psucc := ← parseFloat psucc,
        sInt := sInt, iIR := ← pNats iIR, constraintVecs := cvecs,
        ancestors := ← parseList2 parseFloat anc, prm := prm }
    let o := Active.update ord (fun k _ => (invT.getD k none)) s pop
    let t := o.st
    some (" ".intercalate [toString t.parentId, sOptVec t.parentFit, sVec t.parentX, sF t.sigma, sF t.psucc,
      sVec t.pc, sMat t.A, sMat t.invA,
      (match t.constraintVecs with | none => "none" | some c => sMat c),
      showList2 showFloat t.ancestors, sNats t.iIR, sNats o.sortedValid, toString o.lambdaSucc])
  | _ => none

def opActGen (px sigma A sInt zs rInt : String) : Option String := do
  let px ← pVec px; let n := px.length
  let A ← pMat A; let sInt ← pVec sInt; let zs ← pMat zs; let rInt ← pMat rInt
  if !(square n A && sInt.length == n && allLen n zs && allLen n rInt && zs.length == rInt.length) then none
  let s : Active.State V Float :=
    { (Active.init 0 px (none : Option V) (← parseFloat sigma) sInt (Active.defaultParams n 1)) with A := A }
  let r := Active.generate s around zs rInt
  some (sMat (r.map (·.1)) ++ " " ++ sMat (r.map (·.2)))

def opActIntMut (dim lam iIR rands geoms signs : String) : Option String := do
  let dim ← parseNat dim; let lam ← parseNat lam
  let iIR ← pNats iIR; let rands ← pVec rands; let geoms ← pNats geoms; let signs ← pNats2 signs
  if !(rands.length == (if iIR.isEmpty then 0 else lam) && iIR.all (· < dim)
       && (iIR.isEmpty || (signs.length == lam && allLen dim signs))) then none
  let s0 : Active.State V Float :=
    Active.init 0 (List.replicate dim 0.0) (none : Option V) 1.0 (List.replicate dim 0.0)
      (Active.defaultParams dim lam)
  let s := { s0 with iIR := iIR }
  some (sMat (Active.integerMutation s rands geoms signs))

def handle : List String → String
  | ["op-params", dim, lam] =>
    match (do let d ← parseNat dim; let l ← parseNat lam; pure (d, l)) with
    | some (d, l) =>
      let p : OnePlus.Params Float := OnePlus.defaultParams d l
      " ".intercalate ([p.d, p.ptarg, p.cp, p.cc, p.ccov, p.pthresh].map sF)
    | none => "bad-op"
  | ["op-gen", px, sigma, A, arz] =>
    match (do
      let px ← pVec px; let A ← pMat A; let arz ← pMat arz
      if !(square px.length A && allLen px.length arz) then none
      let s : OnePlus.State V Float :=
        { (OnePlus.init { id := 0, x := px, fit := [] } (← parseFloat sigma) (OnePlus.defaultParams px.length 1))
          with A := A }
      pure (sMat (OnePlus.generate s arz))) with
    | some r => r
    | none => "bad-op"
  | "op-upd" :: args => (opUpd args).getD "bad-op"
  | "elit" :: lam :: pid :: pfit :: rounds => (opElit lam pid pfit rounds).getD "bad-op"
  | ["mo-params", dim, mu, lam] =>
    match (do pure (← parseNat dim, ← parseNat mu, ← parseNat lam)) with
    | some (d, m, l) =>
      let p : MO.Params Float := MO.defaultParams d m l
      " ".intercalate ([p.d, p.ptarg, p.cp, p.cc, p.ccov, p.pthresh].map sF)
    | none => "bad-op"
  | ["mo-sel", mu, ncand, fronts, tape] => (opMoSel mu ncand fronts tape).getD "bad-op"
  | ["mo-sel-lib", mu, nobj, ws] => (opMoSelLib mu nobj ws).getD "bad-op"
  | ["mo-r1", invCh, A, alpha, beta, v] =>
    match (do
      let v ← pVec v; let invCh ← pMat invCh; let A ← pMat A
      if !(square v.length invCh && square v.length A) then none
      let r := MO.rankOneUpdate v.length invCh A (← parseFloat alpha) (← parseFloat beta) v
      pure (sMat r.1 ++ " " ++ sMat r.2)) with
    | some r => r
    | none => "bad-op"
  | "mo-gen" :: args => (opMoGen args).getD "bad-op"
  | "mo-upd" :: args => (opMoUpd false args).getD "bad-op"
  | "mo-round" :: args => (opMoUpd true args).getD "bad-op"
  | ["act-params", dim, lam] =>
    match (do pure (← parseNat dim, ← parseNat lam)) with
    | some (d, l) =>
      let p : Active.Params Float := Active.defaultParams d l
      " ".intercalate ([p.cc, p.ccovp, p.ccovn, p.cconst, p.pthresh, p.d, p.ptarg, p.cp, p.beta].map sF)
    | none => "bad-op"
  | ["act-init", px, sigma, steps] =>
    match (do
      let px ← pVec px; let st ← pVec steps
      if px.length != st.length then none
      let s : Active.State V Float :=
        Active.init 0 px (none : Option V) (← parseFloat sigma) st (Active.defaultParams px.length 1)
      pure (sNats s.iIR)) with
    | some r => r
    | none => "bad-op"
  | ["act-intmut", dim, lam, iIR, rands, geoms, signs] =>
    (opActIntMut dim lam iIR rands geoms signs).getD "bad-op"
  | ["act-gen", px, sigma, A, sInt, zs, rInt] => (opActGen px sigma A sInt zs rInt).getD "bad-op"
  | "act-upd" :: args => (opActUpd args).getD "bad-op"
  | _ => "bad-op"

end DriverC14
