/-
C07 — SPEA2 and NSGA-III select exactly k, best fronts first, niches balanced; the reference-point
generator returns exactly C(M+p-1, p) distinct non-negative points summing to 1.

Property theorems only.  Models: `Core/Spea2.lean`, `Core/Nsga3.lean`; helper lemmas:
`Lemmas/C07*.lean`.  Individuals are their positions in the input list, so "an input object, none
twice" is "a duplicate-free list of positions `< N`".
-/
import DeapModel.Lemmas.C07Spea2
import DeapModel.Lemmas.C07Nsga3
import DeapModel.Lemmas.C07Refs
import DeapModel.Lemmas.C07Assoc
import DeapModel.Lemmas.C07Select
import DeapModel.Lemmas.C07Norm
import DeapModel.Lemmas.C07Transl
import DeapModel.Lemmas.C07Full
import DeapModel.Lemmas.C07Mem
import DeapModel.Lemmas.C07Depth
import DeapModel.Lemmas.C07Ovf
import DeapModel.Lemmas.C07QSel
import DeapModel.Lemmas.C07E2E
import DeapModel.Lemmas.C07E2EN
import DeapModel.Lemmas.C07Gen

set_option linter.unusedSectionVars false
set_option linter.unusedVariables false

namespace C07
open Spea2 Nsga3 C07L NDSort

/-! ## SPEA2 (`selSPEA2`, emo.py:708-824)

`dom` is the dominance test between two positions, `fits` the line-759 values (raw fitness plus
density), `D` the squared distances — the theorems hold for **every** `fits` and `D` and every
scalar type with a decidable `<` (no order axioms), so the quick-select, `sqrt(N)` and all float
arithmetic are irrelevant to them. -/

section SPEA2
variable {α : Type} [DecidableEq α] [LT α] [DecidableLT α]

/-- `selSPEA2` returns exactly `k` individuals for `1 ≤ k ≤ N` (all three branches). -/
theorem spea2_len (dom : Nat → Nat → Bool) (N k : Nat) (fits : Nat → α) (D : Nat → Nat → α)
    (hk : 1 ≤ k) (hkN : k ≤ N) : (selSPEA2 dom N k fits D).length = k :=
  selSPEA2_length dom N k fits D hk hkN

example : (1 : Nat) ≤ 2 ∧ 2 ≤ 3 := by decide
/-- the three branches on concrete populations (weighted values, maximisation): one non-dominated
individual for `k = 2` (fill), two for `k = 2` (exact), three for `k = 2` (truncate). -/
example : chosen0 (domW [[1, 2], [2, 1], [3, 3]]) 3 = [2] ∧
    chosen0 (domW [[1, 2], [2, 1], [0, 0]]) 3 = [0, 1] ∧
    chosen0 (domW [[1, 2], [2, 1], [0, 3]]) 3 = [0, 1, 2] := by decide
example : selSPEA2 (domW [[1, 2], [2, 1], [0, 0]]) 3 2 (fun _ => (0 : Int)) (fun _ _ => 0) = [0, 1] := by
  decide

/-- every returned individual is an input object and none is returned twice. -/
theorem spea2_sub_perm (dom : Nat → Nat → Bool) (N k : Nat) (fits : Nat → α) (D : Nat → Nat → α)
    (hk : 1 ≤ k) (hkN : k ≤ N) :
    (selSPEA2 dom N k fits D).Nodup ∧ ∀ i ∈ selSPEA2 dom N k fits D, i < N :=
  selSPEA2_nodup dom N k fits D hk hkN

example : (1 : Nat) ≤ 1 ∧ 1 ≤ 4 := by decide

/-- the truncation loop of the "archive too large" branch removes `N - k` pairwise distinct
positions (the invariant: a removed position has an all-`inf` row and is never `min_pos` again). -/
theorem spea2_to_remove_distinct (D : Nat → Nat → α) (N k : Nat) (hk : 1 ≤ k) (hkN : k ≤ N) :
    (toRemove D N k).Nodup ∧ (∀ r ∈ toRemove D N k, r < N) ∧ (toRemove D N k).length = N - k :=
  toRemove_spec D N k hk hkN

example : toRemove (fun i j => ((i + 2 * j : Nat) : Int)) 4 2 = [0, 1] := by decide

/-- the number of non-dominated individuals -/
def ndCount (dom : Nat → Nat → Bool) (N : Nat) : Nat :=
  ((List.range N).filter (fun i => decide (NonDom dom N i))).length

/-- when at most `k` individuals are non-dominated, every one of them is returned. -/
theorem spea2_all_nd_when_few (dom : Nat → Nat → Bool) (N k : Nat) (fits : Nat → α)
    (D : Nat → Nat → α) (hasym : ∀ i j, dom i j = true → dom j i = false)
    (hk : 1 ≤ k) (hkN : k ≤ N) (hfew : ndCount dom N ≤ k) :
    ∀ i, i < N → NonDom dom N i → i ∈ selSPEA2 dom N k fits D := by
  apply selSPEA2_all_nd dom N k fits D hasym hk hkN
  rw [chosen0_eq_filter dom N hasym]; exact hfew

example : ndCount (domW [[1, 2], [2, 1], [0, 0]]) 3 = 2 := by decide

/-- when at least `k` individuals are non-dominated, only non-dominated ones are returned. -/
theorem spea2_only_nd_when_many (dom : Nat → Nat → Bool) (N k : Nat) (fits : Nat → α)
    (D : Nat → Nat → α) (hasym : ∀ i j, dom i j = true → dom j i = false)
    (hk : 1 ≤ k) (hmany : k ≤ ndCount dom N) :
    ∀ i ∈ selSPEA2 dom N k fits D, NonDom dom N i := by
  apply selSPEA2_only_nd dom N k fits D hasym hk
  rw [chosen0_eq_filter dom N hasym]; exact hmany

example : (1 : Nat) ≤ 1 ∧ 1 ≤ ndCount (domW [[1, 2], [2, 1], [0, 0]]) 3 := by decide

/-- Pareto dominance of weighted values (the C01 model) is asymmetric, so the two theorems above
apply to every population of evaluated individuals. -/
theorem domW_asymmetric {β : Type} [LinearOrder β] (pop : List (List β)) :
    ∀ i j, domW pop i j = true → domW pop j i = false := domW_asymm pop

/-- the two nd-clauses for a concrete population given by its weighted values. -/
theorem spea2_nd_clauses {β : Type} [LinearOrder β] (pop : List (List β)) (k : Nat)
    (fits : Nat → β) (D : Nat → Nat → β) (hk : 1 ≤ k) (hkN : k ≤ pop.length) :
    (ndCount (domW pop) pop.length ≤ k →
      ∀ i, i < pop.length → NonDom (domW pop) pop.length i →
        i ∈ selSPEA2 (domW pop) pop.length k fits D) ∧
    (k ≤ ndCount (domW pop) pop.length →
      ∀ i ∈ selSPEA2 (domW pop) pop.length k fits D, NonDom (domW pop) pop.length i) :=
  ⟨fun h => spea2_all_nd_when_few _ _ _ _ _ (domW_asymm pop) hk hkN h,
   fun h => spea2_only_nd_when_many _ _ _ _ _ (domW_asymm pop) hk h⟩

example : (1 : Nat) ≤ 2 ∧ 2 ≤ [[1, 2], [2, 1], [0, 0]].length := by decide

/-! ### squared distances that overflowed to `float("inf")`

`selSPEA2V` takes the *computed* matrix entries as float values: `fin a` or `inf` (objective values
beyond ~1e154: `val * val` overflows).  Then a surviving row can tie with a removed all-`inf` row and
`to_remove` can repeat position 0; the deletion loop still removes one element per entry.  The four
clauses of the property hold for EVERY matrix of computed entries. -/

/-- without overflow `selSPEA2V` is `selSPEA2`. -/
theorem spea2V_no_overflow (dom : Nat → Nat → Bool) (N k : Nat) (fits : Nat → α) (D : Nat → Nat → α) :
    selSPEA2V dom N k fits (fun i j => DVal.fin (D i j)) = selSPEA2 dom N k fits D :=
  selSPEA2V_fin dom N k fits D

/-- exactly `k` individuals, whatever overflowed. -/
theorem spea2V_len (dom : Nat → Nat → Bool) (N k : Nat) (fits : Nat → α) (D : Nat → Nat → DVal α)
    (hk : 1 ≤ k) (hkN : k ≤ N) : (selSPEA2V dom N k fits D).length = k :=
  selSPEA2V_length dom N k fits D hk hkN

/-- six mutually non-dominated individuals, every distance overflowed, `k = 2`: `to_remove` is
`[0, 0, 0, 0]` and the four deletions of position 0 leave the last two individuals. -/
example : toRemoveV (fun _ _ => (DVal.inf : DVal Int)) 6 2 = [0, 0, 0, 0] ∧
    chosen0 (domW [[0, -5], [-1, -4], [-2, -3], [-3, -2], [-4, -1], [-5, 0]]) 6 = [0, 1, 2, 3, 4, 5] ∧
    delDesc [0, 1, 2, 3, 4, 5] [0, 0, 0, 0] = [4, 5] := by
  refine ⟨by decide, by decide, ?_⟩
  simp [delDesc, List.mergeSort, List.MergeSort.Internal.splitInTwo]

/-- input objects, none twice, whatever overflowed. -/
theorem spea2V_sub_perm (dom : Nat → Nat → Bool) (N k : Nat) (fits : Nat → α) (D : Nat → Nat → DVal α)
    (hk : 1 ≤ k) (hkN : k ≤ N) :
    (selSPEA2V dom N k fits D).Nodup ∧ ∀ i ∈ selSPEA2V dom N k fits D, i < N :=
  selSPEA2V_nodup dom N k fits D hk hkN

example : (1 : Nat) ≤ 2 ∧ 2 ≤ 6 := by decide

/-- the truncation loop for arbitrary computed entries appends `N - k` positions `< N`; a position
other than 0 is never appended twice (`min_pos` leaves its initial value 0 only for a row that wins
a strict comparison, which an all-`inf` row never does). -/
theorem spea2_to_remove_overflow (D : Nat → Nat → DVal α) (N k : Nat) (hk : 1 ≤ k) (hkN : k ≤ N) :
    ((toRemoveV D N k).filter (fun r => decide (r ≠ 0))).Nodup ∧ (∀ r ∈ toRemoveV D N k, r < N) ∧
    (toRemoveV D N k).length = N - k :=
  toRemoveV_spec D N k hk hkN

example : toRemoveV (fun i j => if i + j = 3 then DVal.fin (1 : Int) else DVal.inf) 5 2 = [0, 1, 0] := by
  decide

/-- the deletion loop `for index in reversed(sorted(to_remove)): del chosen_indices[index]` on a list
of positions in which only 0 repeats: every `del` is in range and removes one element. -/
theorem spea2_deletion_loop (chosen rem : List Nat)
    (hnz : (rem.filter (fun r => decide (r ≠ 0))).Nodup) (hlt : ∀ r ∈ rem, r < chosen.length)
    (hlen : rem.length ≤ chosen.length) :
    (delDesc chosen rem).length = chosen.length - rem.length ∧ (delDesc chosen rem).Sublist chosen :=
  delDesc_spec_dup chosen rem hnz hlt hlen

example : delDesc [10, 11, 12, 13, 14] [0, 3, 0] = [12, 14] := by
  simp [delDesc, List.mergeSort, List.MergeSort.Internal.splitInTwo]

/-- every non-dominated individual when at most `k` are, whatever overflowed. -/
theorem spea2V_all_nd_when_few (dom : Nat → Nat → Bool) (N k : Nat) (fits : Nat → α)
    (D : Nat → Nat → DVal α) (hasym : ∀ i j, dom i j = true → dom j i = false)
    (hk : 1 ≤ k) (hkN : k ≤ N) (hfew : ndCount dom N ≤ k) :
    ∀ i, i < N → NonDom dom N i → i ∈ selSPEA2V dom N k fits D := by
  apply selSPEA2V_all_nd dom N k fits D hasym hk hkN
  rw [chosen0_eq_filter dom N hasym]; exact hfew

example : ndCount (domW [[1, 2], [2, 1], [0, 0]]) 3 ≤ 2 := by decide

/-- only non-dominated individuals when at least `k` are, whatever overflowed. -/
theorem spea2V_only_nd_when_many (dom : Nat → Nat → Bool) (N k : Nat) (fits : Nat → α)
    (D : Nat → Nat → DVal α) (hasym : ∀ i j, dom i j = true → dom j i = false)
    (hk : 1 ≤ k) (hmany : k ≤ ndCount dom N) :
    ∀ i ∈ selSPEA2V dom N k fits D, NonDom dom N i := by
  apply selSPEA2V_only_nd dom N k fits D hasym hk
  rw [chosen0_eq_filter dom N hasym]; exact hmany

example : (1 : Nat) ≤ 2 ∧
    2 ≤ ndCount (domW [[0, -5], [-1, -4], [-2, -3], [-3, -2], [-4, -1], [-5, 0]]) 6 := by decide

end SPEA2

/-! ### the quick-select behind `kth_dist` (`_randomizedSelect`, emo.py:827-862)

A tape entry is the offset of the `random.randint(begin, end)` draw, read modulo the range size,
so the theorems are for every sequence of pivot draws. -/

section Select
variable {β : Type} [LinearOrder β] [Sub β]

/-- the quick-select terminates on any pivot tape, never indexes outside the array … -/
theorem quickselect_terminates (ofNat : Nat → β) (a : List β) (b e : Nat) (i : β) (tape : List Nat)
    (hbe : b ≤ e) (he : e < a.length) (ht : e - b ≤ tape.length) :
    (randomizedSelect ofNat (a.length + 2) a b e i tape).isSome :=
  randomizedSelect_isSome ofNat a b e i tape hbe he ht

example : randomizedSelect (fun n => (n : Int)) 8 [7, 2, 9, 2, 5, 1] 0 5 3 [4, 2, 1, 0, 3] = some 5 := by
  decide

/-- … and returns an element of the array. -/
theorem quickselect_mem (ofNat : Nat → β) (fuel : Nat) (a : List β) (b e : Nat) (i : β)
    (tape : List Nat) (v : β) (h : randomizedSelect ofNat fuel a b e i tape = some v) : v ∈ a :=
  randomizedSelect_mem ofNat fuel a b e i tape v h

/-- the Hoare partition returns a split point `begin ≤ q < end` and permutes the array. -/
theorem partition_split (a : List β) (b e d : Nat) (hbe : b < e) (he : e < a.length) :
    ∃ a' q, randomizedPartition a b e d = some (a', q) ∧ a'.length = a.length ∧ b ≤ q ∧ q < e ∧
      a'.Perm a :=
  randomizedPartition_spec a b e d hbe he

example : randomizedPartition [3, 5, 1, 4, 1, 3] 0 5 3 = some ([3, 1, 1, 3, 5, 4], 3) := by decide

end Select

/-! ### the quick-select returns the order statistic -/

section SelectCorrect
variable {β : Type} [Ring β] [LinearOrder β] [IsStrictOrderedRing β]

/-- `_randomizedSelect(array, begin, end, i)` with `r ≤ i < r + 1` (`r = ⌊i⌋`, `r ≤ end - begin`): on
every pivot tape (each draw is read modulo the size of its range, so every tape stays in range) with
at least `end - begin` draws it terminates, and it returns entry `r` of the sorted sub-array
`sorted(array[begin..end])` — the `r`-th smallest element (0-based). -/
theorem randomizedSelect_correct (a : List β) (b e : Nat) (i : β) (r : Nat) (tape : List Nat)
    (hbe : b ≤ e) (he : e < a.length) (hr : r ≤ e - b) (hi1 : (r : β) ≤ i) (hi2 : i < (r : β) + 1)
    (ht : e - b ≤ tape.length) :
    ∃ v, randomizedSelect (fun n => (n : β)) (a.length + 2) a b e i tape = some v ∧
      (((a.drop b).take (e + 1 - b)).mergeSort (fun x y => decide (x ≤ y)))[r]? = some v := by
  have hs := randomizedSelect_isSome (fun n => (n : β)) a b e i tape hbe he ht
  obtain ⟨v, hv⟩ := Option.isSome_iff_exists.1 hs
  exact ⟨v, hv, randomizedSelect_correct_aux _ a b e i r tape v hbe he hr hi1 hi2 hv⟩

example : (0 : Nat) ≤ 5 ∧ 5 < ([7, 2, 9, 2, 5, 1] : List ℚ).length ∧ (2 : Nat) ≤ 5 - 0 ∧
    ((2 : Nat) : ℚ) ≤ 5 / 2 ∧ (5 / 2 : ℚ) < ((2 : Nat) : ℚ) + 1 ∧ 5 - 0 ≤ [4, 2, 1, 0, 3].length := by
  refine ⟨by decide, by decide, by decide, by norm_num, by norm_num, by decide⟩

/-- … and whenever it answers at all (any fuel, any tape, even a short one) the answer is that
order statistic. -/
theorem quickselect_answer_correct (fuel : Nat) (a : List β) (b e : Nat) (i : β) (r : Nat)
    (tape : List Nat) (v : β) (hbe : b ≤ e) (he : e < a.length) (hr : r ≤ e - b)
    (hi1 : (r : β) ≤ i) (hi2 : i < (r : β) + 1)
    (h : randomizedSelect (fun n => (n : β)) fuel a b e i tape = some v) :
    (((a.drop b).take (e + 1 - b)).mergeSort (fun x y => decide (x ≤ y)))[r]? = some v :=
  randomizedSelect_correct_aux fuel a b e i r tape v hbe he hr hi1 hi2 h

/-- index 5/2 on `[7, 2, 9, 2, 5, 1]`: the answer 2 is entry 2 of `[1, 2, 2, 5, 7, 9]`. -/
example : randomizedSelect (fun n => ((n : Nat) : ℚ)) 8 [7, 2, 9, 2, 5, 1] 0 5 (5 / 2) [4, 2, 1, 0, 3] = some 2 := by
  decide +kernel

/-- the order statistic is permutation invariant: the sorted form depends on the multiset only. -/
theorem order_statistic_perm_invariant (l l' : List β) (h : l.Perm l') :
    l.mergeSort (fun x y => decide (x ≤ y)) = l'.mergeSort (fun x y => decide (x ≤ y)) ∧
    (l.mergeSort (fun x y => decide (x ≤ y))).Pairwise (· ≤ ·) ∧
    (l.mergeSort (fun x y => decide (x ≤ y))).Perm l :=
  ⟨sortL_eq_of_perm h, sortL_pairwise l, sortL_perm l⟩

example : ([3, 1, 2] : List ℚ).Perm [1, 2, 3] := by decide

/-- the selection reads only the integer part of its index argument: `K = sqrt(N)` behaves as
`⌊sqrt N⌋` (the code only compares `K - c < k` with integers `c`, `k`). -/
theorem quickselect_floor (fuel : Nat) (a : List β) (b e : Nat) (i : β) (r : Nat) (tape : List Nat)
    (hi1 : (r : β) ≤ i) (hi2 : i < (r : β) + 1) :
    randomizedSelect (fun n => (n : β)) fuel a b e i tape =
      randomizedSelect (fun n => (n : β)) fuel a b e (r : β) tape :=
  randomizedSelect_floor fuel a b e i r tape hi1 hi2

example : ((1 : Nat) : ℚ) ≤ 3 / 2 ∧ (3 / 2 : ℚ) < ((1 : Nat) : ℚ) + 1 := by constructor <;> norm_num

end SelectCorrect

/-- the quick-select that hands back the rest of the tape (consecutive calls of `selSPEA2` draw from
one generator) returns the same value, and the rest is a suffix of the tape. -/
theorem quickselect_threaded {β : Type} [LinearOrder β] [Sub β] (ofNat : Nat → β) (fuel : Nat)
    (a : List β) (b e : Nat) (i : β) (tape : List Nat) :
    (randomizedSelectT ofNat fuel a b e i tape).map Prod.fst = randomizedSelect ofNat fuel a b e i tape ∧
    ∀ v rest, randomizedSelectT ofNat fuel a b e i tape = some (v, rest) → rest.IsSuffix tape :=
  ⟨randomizedSelectT_fst ofNat fuel a b e i tape,
   fun v rest h => randomizedSelectT_suffix ofNat fuel a b e i tape v rest h⟩

/-! ### `selSPEA2` end to end (`selSPEA2E`): strengths, raw fitness, distances, quick-select and
densities computed by the model from the weights and the weighted values -/

section SPEA2E
variable {β : Type} [Field β] [LinearOrder β] [IsStrictOrderedRing β]

/-- whatever `selSPEA2E` answers — on every tape of pivot draws — satisfies every SPEA2 clause of the
property: exactly `k` input objects, none twice, all non-dominated ones when at most `k` are, only
non-dominated ones when at least `k` are. -/
theorem spea2_e2e_spec (w : List β) (wv : List (List β)) (k : Nat) (tape : List Nat) (res : List Nat)
    (h : selSPEA2E (fun n => (n : β)) w wv k tape = some res) (hk : 1 ≤ k) (hkN : k ≤ wv.length) :
    res.length = k ∧ res.Nodup ∧ (∀ i ∈ res, i < wv.length) ∧
    (ndCount (domW wv) wv.length ≤ k →
      ∀ i, i < wv.length → NonDom (domW wv) wv.length i → i ∈ res) ∧
    (k ≤ ndCount (domW wv) wv.length → ∀ i ∈ res, NonDom (domW wv) wv.length i) := by
  obtain ⟨fits, rfl, _⟩ := selSPEA2E_eq w wv k tape res h
  exact ⟨spea2_len _ _ _ _ _ hk hkN, (spea2_sub_perm _ _ _ _ _ hk hkN).1,
    (spea2_sub_perm _ _ _ _ _ hk hkN).2,
    (spea2_nd_clauses wv k fits (distE w wv) hk hkN).1, (spea2_nd_clauses wv k fits (distE w wv) hk hkN).2⟩

example : selSPEA2E (fun n => ((n : Nat) : ℚ)) [1, 1] [[1, 2], [2, 1], [0, 0]] 2 [] = some [0, 1] := by
  decide +kernel

/-- `selSPEA2E` is `selSPEA2` for the squared distances of the fitness values and — archive too
small — for the line-759 values `raw fitness + 1 / (kth + 2)`, where `kth` is entry `⌊sqrt N⌋` of the
sorted row `[0.0] * (i + 1) + [dist(i, j) for j > i]` (the `⌊sqrt N⌋`-th nearest "neighbour" as the
code defines it). -/
theorem spea2_e2e_density (w : List β) (wv : List (List β)) (k : Nat) (tape : List Nat) (res : List Nat)
    (h : selSPEA2E (fun n => (n : β)) w wv k tape = some res) :
    ∃ fits : Nat → β,
      res = selSPEA2 (domW wv) wv.length k fits (distE w wv) ∧
      ((chosen0 (domW wv) wv.length).length < k → 2 ≤ wv.length →
        ∀ t, t < wv.length → ∃ kth,
          ((distRow (fun n => (n : β)) (fun i => valuesOf w (wv.getD i [])) wv.length t).mergeSort
            (fun x y => decide (x ≤ y)))[Nat.sqrt wv.length]? = some kth ∧
          fits t = (rawFit (domW wv) wv.length t : β) + 1 / (kth + 2)) :=
  selSPEA2E_eq w wv k tape res h

/-- `selSPEA2E` answers on every tape with `N (N - 1)` pivot draws (each of the `N` selections needs
at most `N - 1`). -/
theorem spea2_e2e_terminates (w : List β) (wv : List (List β)) (k : Nat) (tape : List Nat)
    (ht : wv.length * (wv.length - 1) ≤ tape.length) :
    (selSPEA2E (fun n => (n : β)) w wv k tape).isSome :=
  selSPEA2E_total w wv k tape ht

/-- archive too small (two non-dominated individuals, `k = 3`): an answer exists on the all-zero tape. -/
example : ∃ res, selSPEA2E (fun n => ((n : Nat) : ℚ)) [1, 1] [[1, 2], [2, 1], [0, 0], [0, 1]] 3
    (List.replicate 12 0) = some res :=
  Option.isSome_iff_exists.1 (spea2_e2e_terminates _ _ _ _ (by decide))

end SPEA2E

/-! ## NSGA-III (`niching`, `selNSGA3`, emo.py:492-573, 643-677)

`tape` carries the result of every `numpy.random.shuffle`; all theorems are for every tape. -/

section NSGA3
variable {α : Type} [LT α] [DecidableLT α]

/-- `niching` returns exactly `k` individuals. -/
theorem niching_len (L k nref : Nat) (niches : Nat → Nat) (dist : Nat → α) (counts0 : Nat → Nat)
    (tape : Tape) (st : NState) (h : niching L k nref niches dist counts0 tape = .ok st) :
    st.selected.length = k :=
  (niching_spec L k nref niches dist counts0 tape st h).2

example : (match niching 3 2 2 (fun p => p % 2) (fun p => p) (fun _ => 0) [[1, 0], [1], [2, 0]] with
    | .ok st => st.selected | .error _ => []) = [1, 0] := by decide

/-- `niching` selects pairwise distinct members of the last front. -/
theorem niching_distinct (L k nref : Nat) (niches : Nat → Nat) (dist : Nat → α)
    (counts0 : Nat → Nat) (tape : Tape) (st : NState)
    (h : niching L k nref niches dist counts0 tape = .ok st) :
    st.selected.Nodup ∧ ∀ p ∈ st.selected, p < L :=
  ⟨(niching_spec L k nref niches dist counts0 tape st h).1.nodup,
   (niching_spec L k nref niches dist counts0 tape st h).1.lt⟩

/-- `niching` terminates and raises nothing: whatever the tape, the only failure is a tape that
does not fit (a draw that is not a permutation of the shuffled array, or too few draws). -/
theorem niching_terminates (L k nref : Nat) (niches : Nat → Nat) (dist : Nat → α)
    (counts0 : Nat → Nat) (tape : Tape) (hkL : k ≤ L) (hn : ∀ p, p < L → niches p < nref) :
    ∀ e, niching L k nref niches dist counts0 tape = .error e → e = Err.badTape :=
  niching_fine L k nref niches dist counts0 tape hkL hn

example : (2 : Nat) ≤ 3 ∧ ∀ p, p < 3 → p % 2 < 2 := ⟨by decide, fun p _ => Nat.mod_lt _ (by decide)⟩

/-- niche balance: the final count of a niche is its initial count plus its selected last-front
members (`niche_counts` as mutated in place); a niche that received a member never ends more than
one above a niche that still has an unselected candidate. -/
theorem niche_balance (L k nref : Nat) (niches : Nat → Nat) (dist : Nat → α) (counts0 : Nat → Nat)
    (tape : Tape) (st : NState) (h : niching L k nref niches dist counts0 tape = .ok st) :
    (∀ j, st.counts j = counts0 j + st.selected.countP (fun p => niches p == j)) ∧
    ∀ a b, (∃ p ∈ st.selected, niches p = a) →
      (∃ q, q < L ∧ q ∉ st.selected ∧ niches q = b) → st.counts a ≤ st.counts b + 1 := by
  have inv := (niching_spec L k nref niches dist counts0 tape st h).1
  refine ⟨inv.counts, ?_⟩
  intro a b ha ⟨q, hqL, hqs, hqb⟩
  exact inv.bal a b ha ⟨q, hqL, (inv.avail_iff q hqL).2 hqs, hqb⟩

/-- the premises of `niche_balance` on a concrete run: 3 last-front members (niches 0,1,0), k = 2:
niche 1 received member 1, niche 0 received member 0 and still has the unselected candidate 2;
final counts 1 and 1. -/
example : (match niching 3 2 2 (fun p => p % 2) (fun p => p) (fun _ => 0) [[1, 0], [1], [2, 0]] with
    | .ok st => decide ((∃ p ∈ st.selected, p % 2 = 1) ∧ (∃ q ∈ List.range 3, q ∉ st.selected ∧ q % 2 = 0) ∧
        st.counts 1 ≤ st.counts 0 + 1)
    | .error _ => false) = true := by decide

/-- `selNSGA3` returns exactly `k` individuals (the fronts before the last hold fewer than `k`). -/
theorem nsga3_len (fronts : List (List Nat)) (k : Nat) (niches : List Nat) (dist : List α)
    (dflt : α) (nref : Nat) (tape : Tape) (res : List Nat)
    (hk : fronts.dropLast.flatten.length ≤ k)
    (h : selNSGA3 fronts k niches dist dflt nref tape = .ok res) : res.length = k :=
  selNSGA3_length fronts k niches dist dflt nref tape res hk h

example : (match selNSGA3 [[3, 1], [0, 2, 4]] 4 [0, 1, 0, 1, 1] [1, 2, 3, 1, 2] (0 : Nat) 2
    [[0, 1], [0], [2, 1]] with | .ok r => r | .error _ => []) = [3, 1, 0, 4] := by decide

/-- every returned individual is an input object and none is returned twice. -/
theorem nsga3_sub_perm (fronts : List (List Nat)) (k : Nat) (niches : List Nat) (dist : List α)
    (dflt : α) (nref : Nat) (tape : Tape) (res : List Nat) (hnd : fronts.flatten.Nodup)
    (h : selNSGA3 fronts k niches dist dflt nref tape = .ok res) :
    res.Nodup ∧ ∀ x ∈ res, x ∈ fronts.flatten :=
  selNSGA3_nodup fronts k niches dist dflt nref tape res hnd h

example : ([[3, 1], [0, 2, 4]] : List (List Nat)).flatten.Nodup := by decide

/-- front priority: an individual of a strictly better front than some front handed to the
selection is always returned — in particular none is left out in favour of a worse-front one. -/
theorem nsga3_front_priority (fronts : List (List Nat)) (k : Nat) (niches : List Nat)
    (dist : List α) (dflt : α) (nref : Nat) (tape : Tape) (res : List Nat)
    (h : selNSGA3 fronts k niches dist dflt nref tape = .ok res)
    (f1 f2 : Nat) (h12 : f1 < f2) (h2 : f2 < fronts.length) (y : Nat)
    (hy : y ∈ fronts.getD f1 []) : y ∈ res :=
  selNSGA3_front_priority fronts k niches dist dflt nref tape res h f1 f2 h12 h2 y hy

example : (0 : Nat) < 1 ∧ 1 < ([[3, 1], [0, 2, 4]] : List (List Nat)).length ∧
    3 ∈ ([[3, 1], [0, 2, 4]] : List (List Nat)).getD 0 [] := by decide

/-- niche balance on the result of `selNSGA3`: the niche counts are those of all selected
individuals (earlier fronts + chosen last-front members). -/
theorem nsga3_niche_balance (fronts : List (List Nat)) (k : Nat) (niches : List Nat)
    (dist : List α) (dflt : α) (nref : Nat) (tape : Tape) (res : List Nat)
    (h : selNSGA3 fronts k niches dist dflt nref tape = .ok res) :
    ∃ (last sel : List Nat), fronts.getLast? = some last ∧
      res = fronts.dropLast.flatten ++ sel.map (fun p => last.getD p 0) ∧
      sel.Nodup ∧ (∀ p ∈ sel, p < last.length) ∧
      ∀ a b, (∃ p ∈ sel, nichesL fronts niches p = a) →
        (∃ q, q < last.length ∧ q ∉ sel ∧ nichesL fronts niches q = b) →
        counts0L niches last a + sel.countP (fun p => nichesL fronts niches p == a) ≤
          counts0L niches last b + sel.countP (fun p => nichesL fronts niches p == b) + 1 :=
  selNSGA3_balance fronts k niches dist dflt nref tape res h

/-- the premises on a concrete run: last front {0, 2, 4} with niches 0, 1, 1; members 0 (niche 0) and
4 (niche 1) are selected, member 2 (niche 1) is left: both niches received, niche 1 has a candidate
left; final counts 2 and 2. -/
example : (match selNSGA3 [[3, 1], [0, 2, 4]] 4 [0, 1, 0, 1, 1] [1, 2, 3, 1, 2] (0 : Nat) 2
    [[0, 1], [0], [2, 1]] with
    | .ok r => decide (0 ∈ r ∧ 4 ∈ r ∧ 2 ∉ r ∧ r.length = 4) | .error _ => false) = true := by decide

/-- `selNSGA3` (after sorting and association) terminates and raises nothing for `k ≤ n`. -/
theorem nsga3_terminates (fronts : List (List Nat)) (k : Nat) (niches : List Nat) (dist : List α)
    (dflt : α) (nref : Nat) (tape : Tape) (last : List Nat)
    (hl : fronts.getLast? = some last) (hk : k ≤ fronts.flatten.length)
    (hn : ∀ j ∈ niches, j < nref) (hlen : niches.length = fronts.flatten.length) :
    ∀ e, selNSGA3 fronts k niches dist dflt nref tape = .error e → e = Err.badTape :=
  selNSGA3_fine fronts k niches dist dflt nref tape last hl hk hn hlen

example : ([[3, 1], [0, 2, 4]] : List (List Nat)).getLast? = some [0, 2, 4] ∧
    4 ≤ ([[3, 1], [0, 2, 4]] : List (List Nat)).flatten.length ∧
    (∀ j ∈ [0, 1, 0, 1, 1], j < 2) ∧
    [0, 1, 0, 1, 1].length = ([[3, 1], [0, 2, 4]] : List (List Nat)).flatten.length := by decide

end NSGA3

/-! ## association (`associate_to_niche`, emo.py:623-641), over ℝ -/

/-- the coded distance is the Euclidean distance of the normalised point to its orthogonal
projection on the reference direction … -/
theorem associate_formula (fn r : List ℝ) (hlen : fn.length = r.length) (hr : ∃ x ∈ r, x ≠ 0) :
    perpDist fn r =
      Real.sqrt ((List.zipWith (fun f x => (f - (sdot fn r / sdot r r) * x) ^ 2) fn r).sum) :=
  perpDist_eq fn r hlen hr

example : ([(3 : ℝ), 4].length = [(1 : ℝ), 0].length) ∧ ∃ x ∈ [(1 : ℝ), 0], x ≠ 0 :=
  ⟨rfl, 1, List.mem_cons_self, one_ne_zero⟩

/-- … i.e. the distance to the *line* through the origin and the reference point. -/
theorem associate_line_distance (fn r : List ℝ) (hlen : fn.length = r.length)
    (hr : ∃ x ∈ r, x ≠ 0) (t : ℝ) :
    perpDist fn r ≤ Real.sqrt ((List.zipWith (fun f x => (f - t * x) ^ 2) fn r).sum) :=
  perpDist_le_line fn r hlen hr t

/-- each individual is associated with a reference point of smallest perpendicular distance
(the first one on ties) and the reported distance is that distance. -/
theorem associate_argmin (refs : List (List ℝ)) (best intercepts f : List ℝ) (hne : refs ≠ []) :
    let fn := normalise best intercepts f
    (associate1 refs best intercepts f).1 < refs.length ∧
    (∀ r ∈ refs, (associate1 refs best intercepts f).2 ≤ perpDist fn r) ∧
    (associate1 refs best intercepts f).2
      = perpDist fn (refs.getD (associate1 refs best intercepts f).1 []) :=
  associate1_argmin refs best intercepts f hne

example : [[(1 : ℝ), 0], [0, 1]] ≠ [] := List.cons_ne_nil _ _

/-! ## normalisation (`selNSGA3` 546-557, `find_extreme_points` 577-593, `find_intercepts`
596-620), over ℝ; `numpy.linalg.solve` is the parameter `solve` -/

/-- the ideal point is the componentwise minimum of the population (and of the remembered ideal
point in the memory variant): a lower bound that is attained. -/
theorem ideal_min (r0 : List ℝ) (rs : List (List ℝ)) (hrect : ∀ r ∈ rs, r.length = r0.length) :
    ((idealPoint (r0 :: rs) none).length = r0.length ∧
      ∀ j (hj : j < r0.length) (h : j < (idealPoint (r0 :: rs) none).length),
        (∀ r ∈ r0 :: rs, ∀ hr : j < r.length, (idealPoint (r0 :: rs) none)[j] ≤ r[j]) ∧
        (∃ r ∈ r0 :: rs, ∃ hr : j < r.length, (idealPoint (r0 :: rs) none)[j] = r[j])) ∧
    (∀ m : List ℝ, m.length = r0.length →
      (idealPoint (r0 :: rs) (some m)).length = m.length ∧
      ∀ j (hj : j < m.length) (h : j < (idealPoint (r0 :: rs) (some m)).length),
        (idealPoint (r0 :: rs) (some m))[j] ≤ m[j] ∧
        (∀ r ∈ r0 :: rs, ∀ hr : j < r.length, (idealPoint (r0 :: rs) (some m))[j] ≤ r[j]) ∧
        ((idealPoint (r0 :: rs) (some m))[j] = m[j] ∨
          ∃ r ∈ r0 :: rs, ∃ hr : j < r.length, (idealPoint (r0 :: rs) (some m))[j] = r[j])) := by
  refine ⟨idealPoint_nomem r0 rs hrect, fun m hm => idealPoint_mem (r0 :: rs) m ?_⟩
  intro r hr
  rcases List.mem_cons.1 hr with h | h
  · rw [h, hm]
  · rw [hrect r h, hm]

example : ∀ r ∈ [[(2 : ℝ), 7]], r.length = [(4 : ℝ), 1].length := by simp

/-- the extreme point of axis `j` is the first row (population, then remembered extreme points)
minimising the achievement scalarising function `max_m (f_m - ideal_m) · (1 if m = j else 1e6)`. -/
theorem extreme_argmin (fits : List (List ℝ)) (best : List ℝ) (ext : Option (List (List ℝ)))
    (hne : extRows fits ext ≠ []) (j : Nat) (hj : j < best.length) :
    ∃ i, i < (extRows fits ext).length ∧
      (findExtremePoints fits best ext).getD j [] = (extRows fits ext).getD i [] ∧
      (∀ r ∈ extRows fits ext,
        asf best.length j (List.zipWith (· - ·) ((extRows fits ext).getD i []) best) ≤
          asf best.length j (List.zipWith (· - ·) r best)) ∧
      (∀ i', i' < i →
        asf best.length j (List.zipWith (· - ·) ((extRows fits ext).getD i []) best) <
          asf best.length j (List.zipWith (· - ·) ((extRows fits ext).getD i' []) best)) :=
  findExtremePoints_spec fits best ext hne j hj

example : extRows [[(1 : ℝ), 2]] none ≠ [] ∧ 1 < [(0 : ℝ), 0].length := ⟨List.cons_ne_nil _ _, by simp⟩

/-- `find_intercepts` answers the worst point (singular system), the front's worst point (a zero
component or a failed acceptance test), or `1/x + ideal` for a solution that passed the acceptance
test (fix F21: the hyperplane intercepts are made absolute). -/
theorem intercepts_cases (solve : List (List ℝ) → List ℝ → Option (List ℝ))
    (extreme : List (List ℝ)) (best worst frontWorst : List ℝ) :
    let A := extreme.map (fun r => List.zipWith (· - ·) r best)
    let b := List.replicate best.length (RealLike.ofNat 1 : ℝ)
    (solve A b = none ∧ findIntercepts solve extreme best worst frontWorst = worst) ∨
    (findIntercepts solve extreme best worst frontWorst = frontWorst) ∨
    (∃ x, solve A b = some x ∧ x.any isZero = false ∧ acceptIntercepts A x best worst = true ∧
      findIntercepts solve extreme best worst frontWorst =
        List.zipWith (· + ·) (x.map (fun v => RealLike.ofNat 1 / v)) best) :=
  findIntercepts_cases solve extreme best worst frontWorst

/-- accepted hyperplane intercepts: the contract `A·x = 1` holds up to `allclose`, every intercept
(measured from the ideal point) exceeds `1e-6`, and ideal + intercept stays within the worst point. -/
theorem intercepts_pos (A : List (List ℝ)) (x best worst : List ℝ)
    (h : acceptIntercepts A x best worst = true) :
    (∀ row ∈ A, |dot row x - 1| ≤ 1 / 100000000 + 1 / 100000 * |(1 : ℝ)|) ∧
    (∀ v ∈ x, (1 : ℝ) / 1000000 < 1 / v) ∧
    (∀ p ∈ List.zip (List.zipWith (· + ·) (x.map (fun v => (1 : ℝ) / v)) best) worst, p.1 ≤ p.2) :=
  acceptIntercepts_spec A x best worst h

example : acceptIntercepts [[(3 : ℝ), 0], [0, 3]] [1 / 3, 1 / 3] [5, 5] [8, 8] = true := accept_example

/-- the two fallback answers of the model's own normalisation are componentwise ≥ its ideal point. -/
theorem fallback_ge_ideal (r0 : List ℝ) (rs : List (List ℝ)) (hrect : ∀ r ∈ rs, r.length = r0.length) :
    (∀ p ∈ List.zip (colMax0 (r0 :: rs)) (idealPoint (r0 :: rs) none), p.2 ≤ p.1) ∧
    (∀ mb mw : List ℝ, mb.length = r0.length → mw.length = r0.length →
      (∀ p ∈ List.zip (colMax0 (r0 :: rs)) (idealPoint (r0 :: rs) (some mb)), p.2 ≤ p.1) ∧
      (∀ p ∈ List.zip (worstPoint (r0 :: rs) (some mw)) (idealPoint (r0 :: rs) (some mb)), p.2 ≤ p.1)) :=
  ⟨fallback_ge_ideal_nomem r0 rs hrect, fun mb mw hb hw => fallback_ge_ideal_mem r0 rs mb mw hrect hb hw⟩

example : ∀ r ∈ [[(2 : ℝ), 7]], r.length = [(4 : ℝ), 1].length := by simp

/-- the normalisation (line 627) never divides by a non-positive number: for every answer of
`solve`, every remembered extreme-point set, with and without memory, each denominator
`intercept - ideal + eps` of the model's own normalisation is positive. -/
theorem norm_denominator_pos (solve : List (List ℝ) → List ℝ → Option (List ℝ))
    (r0 : List ℝ) (rs : List (List ℝ)) (hrect : ∀ r ∈ rs, r.length = r0.length)
    (me : Option (List (List ℝ))) :
    (∀ d ∈ List.zipWith (fun i b => i - b + (eps : ℝ))
        (normalisation solve (r0 :: rs) none none me).2.2.2
        (normalisation solve (r0 :: rs) none none me).1, 0 < d) ∧
    (∀ mb mw : List ℝ, mb.length = r0.length → mw.length = r0.length →
      ∀ d ∈ List.zipWith (fun i b => i - b + (eps : ℝ))
        (normalisation solve (r0 :: rs) (some mb) (some mw) me).2.2.2
        (normalisation solve (r0 :: rs) (some mb) (some mw) me).1, 0 < d) :=
  normalisation_denominator_pos solve r0 rs hrect me

example : ∀ r ∈ [[(8 : ℝ), 5], [5, 8]], r.length = [(6 : ℝ), 6].length := by simp

/-- translation invariance of the association: shifting every objective vector, the remembered
ideal / worst point and the remembered extreme points by one constant vector `c` leaves every niche
and every distance unchanged — for the SAME `solve` on both sides (nothing is assumed about it: it
only ever sees `extreme - ideal` and the vector of ones, which the translation does not change). -/
theorem association_translation_invariant
    (solve : List (List ℝ) → List ℝ → Option (List ℝ))
    (fits refs : List (List ℝ)) (c : List ℝ)
    (mb mw : Option (List ℝ)) (me : Option (List (List ℝ)))
    (hne : fits ≠ [])
    (hfits : ∀ r ∈ fits, r.length = c.length)
    (hmb : ∀ m, mb = some m → m.length = c.length)
    (hmw : ∀ m, mw = some m → m.length = c.length)
    (hme : ∀ e, me = some e → ∀ r ∈ e, r.length = c.length) :
    let n  := normalisation solve fits mb mw me
    let n' := normalisation solve (fits.map (Transl.shift c)) (mb.map (Transl.shift c))
                (mw.map (Transl.shift c)) (me.map (List.map (Transl.shift c)))
    associate (fits.map (Transl.shift c)) refs n'.1 n'.2.2.2 = associate fits refs n.1 n.2.2.2 :=
  Transl.association_translation_invariant solve fits refs c mb mw me hne hfits hmb hmw hme

example : ([[1, 2], [3, 0]] : List (List ℝ)) ≠ [] ∧
    ∀ r ∈ ([[1, 2], [3, 0]] : List (List ℝ)), r.length = ([5, 7] : List ℝ).length :=
  ⟨List.cons_ne_nil _ _, by intro r hr; simp only [List.mem_cons, List.not_mem_nil, or_false] at hr
                            rcases hr with rfl | rfl <;> rfl⟩

/-- the formula BEFORE fix F21 (accepted intercepts returned as `1/x`, relative to the ideal point,
and the ideal point subtracted again in line 627): denominators positive for every accepted `x`. -/
def old_formula_denominator_pos : Prop :=
  ∀ (A : List (List ℝ)) (x best worst : List ℝ), acceptIntercepts A x best worst = true →
    ∀ d ∈ List.zipWith (fun i b => i - b + (eps : ℝ)) (x.map (fun v => (1 : ℝ) / v)) best, 0 < d

/-- the old formula was wrong: ideal (5,5), extreme points (8,5),(5,8), worst (8,8) — accepted
intercepts (3,3), denominators `3 - 5 + eps < 0`. -/
theorem old_formula_refuted : ¬ old_formula_denominator_pos := by
  intro h
  have d0 := h [[3, 0], [0, 3]] [1 / 3, 1 / 3] [5, 5] [8, 8] accept_example
    ((1 : ℝ) / (1 / 3) - 5 + eps) (by simp)
  have he : (eps : ℝ) < 1 := by unfold eps; rw [RealLike.real_ofRatio]; norm_num
  norm_num at d0
  linarith

/-! ## NSGA-III end to end: Pareto depth (C04), own normalisation and association -/

/-- front priority in terms of the Pareto depth of C04: whenever the fronts handed to the
selection are the depth classes of the population (`hfr`, which is what C04 proves for both
sorting back-ends), no omitted individual has a strictly smaller depth — lies in a strictly
better front — than a selected one. -/
theorem nsga3_depth_priority {β : Type} [DecidableEq β] {γ : Type} [LT γ] [DecidableLT γ]
    (dom : β → β → Bool) (S : List β) (idOf : β → Nat)
    (hinj : ∀ x ∈ S, ∀ y ∈ S, idOf x = idOf y → x = y)
    (fr : List (List β))
    (hfr : ∀ i f, fr[i]? = some f → ∀ x, x ∈ f ↔ x ∈ S ∧ depth dom S x = i)
    (k : Nat) (niches : List Nat) (dist : List γ) (dflt : γ) (nref : Nat) (tape : Tape) (res : List Nat)
    (h : selNSGA3 (fr.map (·.map idOf)) k niches dist dflt nref tape = .ok res) :
    ∀ x ∈ S, ∀ y ∈ S, idOf x ∈ res → depth dom S y < depth dom S x → idOf y ∈ res :=
  selNSGA3_depth_priority dom S idOf hinj fr hfr k niches dist dflt nref tape res h

/-- … with the fronts computed by `sortNondominated` (C04 model `sortStd`): the population
`exPopD` has depths 0,1,1,2; with `k = 2` the second front is cut. -/
theorem nsga3_depth_priority_std {α : Type} [LinearOrder α] {γ : Type} [LT γ] [DecidableLT γ]
    (pop : List (Ind α)) (hne : pop ≠ []) (m : Nat) (hlen : ∀ x ∈ pop, x.w.length = m)
    (hid : (pop.map (·.id)).Nodup) (k : Nat) (fr : List (List (Ind α)))
    (hs : sortStd pop k false = some fr)
    (niches : List Nat) (dist : List γ) (dflt : γ) (nref : Nat) (tape : Tape) (res : List Nat)
    (h : selNSGA3 (fr.map (·.map (·.id))) k niches dist dflt nref tape = .ok res) :
    ∀ x ∈ pop, ∀ y ∈ pop, x.id ∈ res → depth domI pop y < depth domI pop x → y.id ∈ res :=
  selNSGA3_depth_priority_std pop hne m hlen hid k fr hs niches dist dflt nref tape res h

example : exPopD ≠ [] ∧ (∀ x ∈ exPopD, x.w.length = 2) ∧ (exPopD.map (·.id)).Nodup ∧
    sortStd exPopD 2 false = some [[⟨0, [2, 2]⟩], [⟨1, [1, 0]⟩, ⟨2, [0, 1]⟩]] := by decide

/-- … and by `sortLogNondominated` (C04 model `sortLog`, at least two objectives). -/
theorem nsga3_depth_priority_log {𝕜 : Type} [Field 𝕜] [LinearOrder 𝕜] [IsStrictOrderedRing 𝕜]
    [Inhabited 𝕜] {γ : Type} [LT γ] [DecidableLT γ]
    (pop : List (Ind 𝕜)) (m : Nat) (hm : 2 ≤ m) (hne : pop ≠ []) (hlen : ∀ x ∈ pop, x.w.length = m)
    (hid : (pop.map (·.id)).Nodup) (k : Nat) (fr : List (List (Ind 𝕜)))
    (hs : sortLog pop k = some fr)
    (niches : List Nat) (dist : List γ) (dflt : γ) (nref : Nat) (tape : Tape) (res : List Nat)
    (h : selNSGA3 (fr.map (·.map (·.id))) k niches dist dflt nref tape = .ok res) :
    ∀ x ∈ pop, ∀ y ∈ pop, x.id ∈ res → depth domI pop y < depth domI pop x → y.id ∈ res :=
  selNSGA3_depth_priority_log pop m hm hne hlen hid k fr hs niches dist dflt nref tape res h

example : (2 : Nat) ≤ 2 ∧ ([⟨0, [2, 2]⟩, ⟨1, [1, 0]⟩, ⟨2, [1, 0]⟩] : List (Ind ℚ)) ≠ [] ∧
    (([⟨0, [2, 2]⟩, ⟨1, [1, 0]⟩, ⟨2, [1, 0]⟩] : List (Ind ℚ)).map (·.id)).Nodup := by decide

section Full
variable {α : Type} [RealLike α]

/-- `selNSGA3Full` = normalisation → association → niching, nothing taken as input but the fronts,
the objective vectors, the reference points, the memory, `solve` and the tape: exactly `k`
individuals, input objects none twice, earlier fronts whole, and niche balance where the niche of
an individual is the reference index ITS OWN association (`assocOf`) gives it and the counts are
those of the returned selection. -/
theorem nsga3_full_spec (solve : List (List α) → List α → Option (List α)) (fronts : List (List Nat))
    (k : Nat) (fitOf : Nat → List α) (refs : List (List α)) (mb mw : Option (List α))
    (me : Option (List (List α))) (tape : Tape) (res : List Nat)
    (h : selNSGA3Full solve fronts k fitOf refs mb mw me tape = .ok res) :
    (fronts.dropLast.flatten.length ≤ k → res.length = k) ∧
    (fronts.flatten.Nodup → res.Nodup ∧ ∀ x ∈ res, x ∈ fronts.flatten) ∧
    (∀ f1 f2, f1 < f2 → f2 < fronts.length → ∀ y ∈ fronts.getD f1 [], y ∈ res) ∧
    ∃ (last sel : List Nat), fronts.getLast? = some last ∧
      res = fronts.dropLast.flatten ++ sel.map (fun p => last.getD p 0) ∧
      sel.Nodup ∧ (∀ p ∈ sel, p < last.length) ∧
      ∀ a b,
        (∃ p ∈ sel, (assocOf solve fronts fitOf refs mb mw me (fitOf (last.getD p 0))).1 = a) →
        (∃ q, q < last.length ∧ q ∉ sel ∧
          (assocOf solve fronts fitOf refs mb mw me (fitOf (last.getD q 0))).1 = b) →
        (res.map (fun i => (assocOf solve fronts fitOf refs mb mw me (fitOf i)).1)).count a ≤
          (res.map (fun i => (assocOf solve fronts fitOf refs mb mw me (fitOf i)).1)).count b + 1 :=
  selNSGA3Full_spec solve fronts k fitOf refs mb mw me tape res h

example : ([[3], [0, 1, 2]] : List (List Nat)).dropLast.flatten.length ≤ 3 ∧
    ([[3], [0, 1, 2]] : List (List Nat)).flatten.Nodup ∧
    (0 < 1 ∧ 1 < ([[3], [0, 1, 2]] : List (List Nat)).length ∧ 3 ∈ ([[3], [0, 1, 2]] : List (List Nat)).getD 0 []) := by
  decide

/-- `selNSGA3Full` terminates and raises nothing for `k ≤ n` and a non-empty reference set — the
niche numbers it consumes are valid by construction. -/
theorem nsga3_full_terminates (solve : List (List α) → List α → Option (List α))
    (fronts : List (List Nat)) (k : Nat) (fitOf : Nat → List α) (refs : List (List α))
    (mb mw : Option (List α)) (me : Option (List (List α))) (tape : Tape) (last : List Nat)
    (hl : fronts.getLast? = some last) (hk : k ≤ fronts.flatten.length) (hne : refs ≠ []) :
    ∀ e, selNSGA3Full solve fronts k fitOf refs mb mw me tape = .error e → e = Err.badTape :=
  selNSGA3Full_fine solve fronts k fitOf refs mb mw me tape last hl hk hne

example : ([[3], [0, 1, 2]] : List (List Nat)).getLast? = some [0, 1, 2] ∧
    3 ≤ ([[3], [0, 1, 2]] : List (List Nat)).flatten.length ∧
    ([[0.0, 1.0], [1.0, 0.0]] : List (List Float)) ≠ [] := ⟨by decide, by decide, List.cons_ne_nil _ _⟩

end Full

/-! ### `selNSGA3` end to end (`selNSGA3E`): the non-dominated sort included -/

section NSGA3E
variable {α : Type} [RealLike α]
variable {𝕜 : Type} [Field 𝕜] [LinearOrder 𝕜] [IsStrictOrderedRing 𝕜] [Inhabited 𝕜]

/-- `selNSGA3E` = the C04 model of `sortNondominated` / `sortLogNondominated` on the weighted values →
`-wvalues` → normalisation → association → niching, nothing taken from the implementation but `solve`
and the shuffles.  Whatever it answers: exactly `k` individuals (for `k ≤ n`), input objects none
twice, no omitted individual of a strictly better front (smaller Pareto depth) than a selected one,
and it is an answer of `selNSGA3Full` on the fronts the sort computed — so the balance and
association clauses of `nsga3_full_spec` / `nsga3_full_association` hold for it. -/
theorem nsga3_e2e_spec (toF : 𝕜 → α) (solve : List (List α) → List α → Option (List α))
    (logSort : Bool) (wv : List (List 𝕜)) (k : Nat) (refs : List (List α)) (mb mw : Option (List α))
    (me : Option (List (List α))) (tape : Tape) (res : List Nat)
    (h : selNSGA3E toF solve logSort wv k refs mb mw me tape = .ok res)
    (hne : wv ≠ []) (m : Nat) (hlen : ∀ x ∈ wv, x.length = m) (hm : logSort = true → 2 ≤ m)
    (hk : 1 ≤ k) (hkN : k ≤ wv.length) :
    res.length = k ∧ res.Nodup ∧ (∀ i ∈ res, i < wv.length) ∧
    (∀ x ∈ mkPop wv, ∀ y ∈ mkPop wv, x.id ∈ res →
      depth domI (mkPop wv) y < depth domI (mkPop wv) x → y.id ∈ res) ∧
    ∃ fronts, sortBy logSort wv k = some fronts ∧
      selNSGA3Full solve fronts k (fun i => (wv.getD i []).map (fun x => - toF x)) refs mb mw me tape
        = .ok res := by
  obtain ⟨⟨fronts, hs, hf⟩, hd⟩ := selNSGA3E_spec toF solve logSort wv k refs mb mw me tape res h hne m hlen hm
  obtain ⟨s1, s2, s3, _⟩ := sortBy_shape logSort wv k hne m hlen hm fronts hs
  obtain ⟨f1, f2, _, _⟩ := selNSGA3Full_spec solve fronts k _ refs mb mw me tape res hf
  have hdl : fronts.dropLast.flatten.length ≤ k := by
    by_cases hfe : fronts = []
    · subst hfe; simp
    · exact Nat.le_of_lt (s3 hfe)
  exact ⟨f1 hdl, (f2 s1).1, fun i hi => s2 i ((f2 s1).2 i hi), hd, fronts, hs, hf⟩

example : sortBy false ([[2, 2], [1, 0], [0, 1], [0, 0]] : List (List ℚ)) 2 = some [[0], [1, 2]] ∧
    ([[2, 2], [1, 0], [0, 1], [0, 0]] : List (List ℚ)) ≠ [] ∧
    (∀ x ∈ ([[2, 2], [1, 0], [0, 1], [0, 0]] : List (List ℚ)), x.length = 2) := by
  refine ⟨by decide +kernel, by simp, by decide⟩

/-- `selNSGA3E` terminates and raises nothing (1 ≤ k ≤ n, a non-empty reference set): the sort
terminates (C04) and the only failure left is a tape that does not fit. -/
theorem nsga3_e2e_terminates (toF : 𝕜 → α) (solve : List (List α) → List α → Option (List α))
    (logSort : Bool) (wv : List (List 𝕜)) (k : Nat) (refs : List (List α)) (mb mw : Option (List α))
    (me : Option (List (List α))) (tape : Tape)
    (hne : wv ≠ []) (m : Nat) (hlen : ∀ x ∈ wv, x.length = m) (hm : logSort = true → 2 ≤ m)
    (hk : 1 ≤ k) (hkN : k ≤ wv.length) (hr : refs ≠ []) :
    ∀ e, selNSGA3E toF solve logSort wv k refs mb mw me tape = .error e → e = Err.badTape := by
  intro e he
  have hsome := sortBy_isSome logSort wv k hne m hlen hm
  obtain ⟨fronts, hs⟩ := Option.isSome_iff_exists.1 hsome
  obtain ⟨_, _, _, s4⟩ := sortBy_shape logSort wv k hne m hlen hm fronts hs
  have hkf : k ≤ fronts.flatten.length := by rw [Nat.min_eq_left hkN] at s4; exact s4
  have hfne : fronts ≠ [] := by intro h0; subst h0; simp at hkf; omega
  obtain ⟨last, hl⟩ : ∃ last, fronts.getLast? = some last := by
    cases hg : fronts.getLast? with
    | none => exact absurd (List.getLast?_eq_none_iff.1 hg) hfne
    | some l => exact ⟨l, rfl⟩
  unfold selNSGA3E at he
  rw [hs] at he
  exact selNSGA3Full_fine solve fronts k _ refs mb mw me tape last hl hkf hr e he

example : (1 : Nat) ≤ 2 ∧ 2 ≤ ([[2, 2], [1, 0], [0, 1], [0, 0]] : List (List ℚ)).length ∧
    ([[0.0, 1.0], [1.0, 0.0]] : List (List Float)) ≠ [] := ⟨by decide, by decide, List.cons_ne_nil _ _⟩

end NSGA3E

/-- the association with every dimension explicit: all vectors have `M` coordinates (so no
`zipWith` truncation), the reference directions are non-zero, the denominators of the normalisation
are non-zero.  Then the normalised point has the `M` coordinates `(f_m - z_m)/(a_m - z_m + eps)`,
the chosen niche is a valid index, its reported distance is ≤ the distance from the normalised
point to EVERY point `t·r` of EVERY reference line, and equals the distance to the orthogonal
projection on the chosen line. -/
theorem associate_correct (M : Nat) (refs : List (List ℝ)) (best intercepts f : List ℝ)
    (hne : refs ≠ [])
    (hrefs : ∀ r ∈ refs, r.length = M ∧ ∃ x ∈ r, x ≠ 0)
    (hb : best.length = M) (hi : intercepts.length = M) (hf : f.length = M)
    (hden : ∀ d ∈ List.zipWith (fun i b => i - b + (eps : ℝ)) intercepts best, d ≠ 0) :
    let fn := normalise best intercepts f
    let res := associate1 refs best intercepts f
    fn.length = M ∧
    (∀ m (hm : m < M) (h1 : m < fn.length) (h2 : m < f.length) (h3 : m < best.length)
        (h4 : m < intercepts.length),
        fn[m] = (f[m] - best[m]) / (intercepts[m] - best[m] + eps)) ∧
    res.1 < refs.length ∧
    (∀ r ∈ refs, ∀ t : ℝ,
      res.2 ≤ Real.sqrt ((List.zipWith (fun a x => (a - t * x) ^ 2) fn r).sum)) ∧
    res.2 = Real.sqrt ((List.zipWith (fun a x =>
      (a - (sdot fn (refs.getD res.1 []) / sdot (refs.getD res.1 []) (refs.getD res.1 [])) * x) ^ 2)
        fn (refs.getD res.1 [])).sum) :=
  C07L.associate_correct M refs best intercepts f hne hrefs hb hi hf hden

example : ([[1, 0], [0, 1]] : List (List ℝ)) ≠ [] ∧
    (∀ r ∈ ([[1, 0], [0, 1]] : List (List ℝ)), r.length = 2 ∧ ∃ x ∈ r, x ≠ 0) := by
  refine ⟨List.cons_ne_nil _ _, ?_⟩
  intro r hr
  simp only [List.mem_cons, List.not_mem_nil, or_false] at hr
  rcases hr with rfl | rfl
  · exact ⟨rfl, 1, by simp, one_ne_zero⟩
  · exact ⟨rfl, 1, by simp, one_ne_zero⟩

/-- every niche consumed by `selNSGA3Full` is the association of that individual with the model's
own ideal point and intercepts (`assocOf … = associate1 refs best intercepts`), hence — dimensions
as in `associate_correct` — a reference direction of smallest perpendicular distance in the
normalised objective space. -/
theorem nsga3_full_association (solve : List (List ℝ) → List ℝ → Option (List ℝ))
    (fronts : List (List Nat)) (fitOf : Nat → List ℝ) (refs : List (List ℝ))
    (mb mw : Option (List ℝ)) (me : Option (List (List ℝ))) (f : List ℝ) :
    assocOf solve fronts fitOf refs mb mw me f =
      associate1 refs (normalisation solve (fronts.flatten.map fitOf) mb mw me).1
        (normalisation solve (fronts.flatten.map fitOf) mb mw me).2.2.2 f := rfl

/-- `selNSGA3WithMemory` over any sequence of calls: the remembered ideal point is the
componentwise minimum of every objective vector seen in all calls so far (a lower bound that is
attained), the remembered worst point the componentwise maximum. -/
theorem memory_after_calls (solve : List (List ℝ) → List ℝ → Option (List ℝ))
    (calls : List (List (List ℝ))) (M : Nat) (hne : calls ≠ [])
    (hrect : ∀ fits ∈ calls, fits ≠ [] ∧ ∀ r ∈ fits, r.length = M) :
    (∃ b, (memAfter solve Mem.init calls).best = some b ∧ b.length = M ∧
      ∀ j (hj : j < M) (hb : j < b.length),
        (∀ fits ∈ calls, ∀ r ∈ fits, ∀ hr : j < r.length, b[j] ≤ r[j]) ∧
        (∃ fits ∈ calls, ∃ r ∈ fits, ∃ hr : j < r.length, b[j] = r[j])) ∧
    (∃ w, (memAfter solve Mem.init calls).worst = some w ∧ w.length = M ∧
      ∀ j (hj : j < M) (hw : j < w.length),
        (∀ fits ∈ calls, ∀ r ∈ fits, ∀ hr : j < r.length, r[j] ≤ w[j]) ∧
        (∃ fits ∈ calls, ∃ r ∈ fits, ∃ hr : j < r.length, w[j] = r[j])) :=
  ⟨memAfter_best solve calls M hne hrect, memAfter_worst solve calls M hne hrect⟩

example : ([[[1, 2], [3, 0]], [[0, 5]]] : List (List (List ℝ))) ≠ [] ∧
    ∀ fits ∈ ([[[1, 2], [3, 0]], [[0, 5]]] : List (List (List ℝ))), fits ≠ [] ∧ ∀ r ∈ fits, r.length = 2 := by
  refine ⟨List.cons_ne_nil _ _, ?_⟩
  intro fits hf
  simp only [List.mem_cons, List.not_mem_nil, or_false] at hf
  rcases hf with rfl | rfl
  · refine ⟨List.cons_ne_nil _ _, ?_⟩
    intro r hr; simp only [List.mem_cons, List.not_mem_nil, or_false] at hr
    rcases hr with rfl | rfl <;> rfl
  · refine ⟨List.cons_ne_nil _ _, ?_⟩
    intro r hr; simp only [List.mem_cons, List.not_mem_nil, or_false] at hr
    rcases hr with rfl; rfl

/-! ## reference points (`uniform_reference_points`, emo.py:680-701) -/

/-- exactly C(M+p-1, p) points. -/
theorem refpoints_card (nobj p : Nat) (hn : 1 ≤ nobj) (hp : 1 ≤ p) (s : Option Rat) :
    (uniformRefPoints nobj p s).length = Nat.choose (nobj + p - 1) p :=
  refs_length nobj p hn hp s

example : (uniformRefPoints 3 2 none).length = 6 := by decide

/-- pairwise distinct (with a scaling factor: whenever it is non-zero). -/
theorem refpoints_nodup (nobj p : Nat) (hn : 1 ≤ nobj) (hp : 1 ≤ p) :
    (uniformRefPoints nobj p none).Nodup ∧
    ∀ s : Rat, s ≠ 0 → (uniformRefPoints nobj p (some s)).Nodup :=
  ⟨refs_nodup nobj p hn hp, fun s hs => refs_nodup_scaled nobj p hn hp s hs⟩

example : (1 : Nat) ≤ 3 ∧ (1 : Nat) ≤ 2 ∧ (1 / 2 : Rat) ≠ 0 := by
  refine ⟨by decide, by decide, by norm_num⟩

/-- on the simplex: `nobj` coordinates, all non-negative (with scaling `0 ≤ s ≤ 1`: shrinking
towards the centroid), summing to 1 (for every scaling factor). -/
theorem refpoints_simplex (nobj p : Nat) (hn : 1 ≤ nobj) (hp : 1 ≤ p) :
    (∀ s, ∀ pt ∈ uniformRefPoints nobj p s, pt.length = nobj ∧ pt.sum = 1) ∧
    (∀ pt ∈ uniformRefPoints nobj p none, ∀ x ∈ pt, 0 ≤ x) ∧
    (∀ s : Rat, 0 ≤ s → s ≤ 1 → ∀ pt ∈ uniformRefPoints nobj p (some s), ∀ x ∈ pt, 0 ≤ x) :=
  ⟨fun s pt hpt => ⟨refs_coord_count nobj p hn s pt hpt, refs_sum_one nobj p hn hp s pt hpt⟩,
   refs_nonneg nobj p hn hp, fun s h0 h1 => refs_nonneg_scaled nobj p hn hp s h0 h1⟩

example : (0 : Rat) ≤ 1 / 2 ∧ (1 / 2 : Rat) ≤ 1 := by constructor <;> norm_num

/-! ## memory of `selNSGA3WithMemory` -/

section Memory
variable {β : Type} [LinearOrder β]

/-- the remembered best point is the componentwise minimum of everything seen: it never gets
worse and does not depend on the order of the individuals. -/
theorem memory_best (rows rows' : List (List β)) (mem : List β)
    (hrect : ∀ r ∈ rows, r.length = mem.length) :
    (colMin rows mem).length = mem.length ∧
    (∀ j (hj : j < mem.length) (h : j < (colMin rows mem).length),
      (colMin rows mem)[j] ≤ mem[j] ∧ ∀ r ∈ rows, ∀ hr : j < r.length, (colMin rows mem)[j] ≤ r[j]) ∧
    (rows.Perm rows' → colMin rows mem = colMin rows' mem) :=
  ⟨colMin_length rows mem hrect,
   fun j hj _ => ⟨(colMin_getElem rows mem hrect j hj).1, (colMin_getElem rows mem hrect j hj).2.1⟩,
   fun hp => colMin_perm rows rows' mem hrect hp⟩

/-- the remembered worst point likewise (componentwise maximum). -/
theorem memory_worst (rows rows' : List (List β)) (mem : List β)
    (hrect : ∀ r ∈ rows, r.length = mem.length) :
    (colMax rows mem).length = mem.length ∧
    (∀ j (hj : j < mem.length) (h : j < (colMax rows mem).length),
      mem[j] ≤ (colMax rows mem)[j] ∧ ∀ r ∈ rows, ∀ hr : j < r.length, r[j] ≤ (colMax rows mem)[j]) ∧
    (rows.Perm rows' → colMax rows mem = colMax rows' mem) :=
  ⟨colMax_length rows mem hrect,
   fun j hj _ => ⟨(colMax_getElem rows mem hrect j hj).1, (colMax_getElem rows mem hrect j hj).2.1⟩,
   fun hp => colMax_perm rows rows' mem hrect hp⟩

example : (∀ r ∈ [[3, 1], [2, 5]], r.length = [(4 : Nat), 0].length) ∧
    [[(3 : Nat), 1], [2, 5]].Perm [[2, 5], [3, 1]] := ⟨by decide, List.Perm.swap _ _ _⟩

end Memory

end C07
