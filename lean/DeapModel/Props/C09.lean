/-
C09 — Discrete crossovers and mutations conserve genes, lengths and permutations.
Property theorems only; the list model is `DeapModel/Core/CrossMut.lean`, the representation-aware
model (buffers with the slice disciplines `copy` = list / array.array and `view` = numpy.ndarray)
is `DeapModel/Core/Buffer.lean` + `DeapModel/Core/CrossMutBuf.lean` (section "Representation" at the
end of this file); helper lemmas are in `DeapModel/Lemmas/C09*.lean`.

Every theorem quantifies over all parents (any gene type with decidable equality, any length)
and over all draws inside the range the `random` function in question can return (the `…Ok`
guards of the model); nothing is bounded.
-/
import DeapModel.Core.CrossMut
import DeapModel.Lemmas.C09Basic
import DeapModel.Lemmas.C09PMX
import DeapModel.Lemmas.C09OX
import DeapModel.Lemmas.C09BufferOps
import DeapModel.Lemmas.C09Hist
import DeapModel.Lemmas.C09Gen

set_option linter.unusedSectionVars false
set_option linter.unusedSimpArgs false
set_option linter.unusedVariables false
set_option linter.unnecessarySeqFocus false

namespace C09
open CrossMut C09L

variable {α : Type}

/-! ## cxOnePoint -/

/-- the combined multiset of genes is unchanged.  Unguarded on purpose: the statement after the
draw consists of slice operations only, and Python slices clamp exactly like `take`/`drop`, so
no raised error is swallowed for any `cx` (the `ValueError` of `randint(1, size-1)` for
`size < 2` happens before, that is what `cxOnePointOk` excludes in `onepoint_locus/lengths`). -/
theorem onepoint_multiset [DecidableEq α] (ind1 ind2 : List α) (cx : Nat) :
    ((cxOnePoint ind1 ind2 cx).1 ++ (cxOnePoint ind1 ind2 cx).2).Perm (ind1 ++ ind2) := by
  simp only [cxOnePoint]
  rw [List.perm_iff_count]
  intro z
  have ea := congrArg (List.count z) (List.take_append_drop cx ind1)
  have eb := congrArg (List.count z) (List.take_append_drop cx ind2)
  simp only [List.count_append] at ea eb ⊢
  omega

/-- each locus holds the two parental genes of that locus -/
theorem onepoint_locus (ind1 ind2 : List α) (cx : Nat) (h : cxOnePointOk ind1 ind2 cx) :
    Locus (cxOnePoint ind1 ind2 cx) (ind1, ind2) := by
  obtain ⟨h1, h2⟩ := h
  intro j
  simp only [cxOnePoint]
  by_cases hj : j < cx
  · left
    constructor <;>
      rw [List.getElem?_append_left (by simp only [List.length_take]; omega), List.getElem?_take, if_pos hj]
  · right
    constructor <;>
    · rw [List.getElem?_append_right (by simp only [List.length_take]; omega), List.getElem?_drop]
      simp only [List.length_take]
      congr 1; omega

/-- the lengths are exchanged: child 1 is as long as parent 2 and vice versa -/
theorem onepoint_lengths (ind1 ind2 : List α) (cx : Nat) (h : cxOnePointOk ind1 ind2 cx) :
    (cxOnePoint ind1 ind2 cx).1.length = ind2.length ∧ (cxOnePoint ind1 ind2 cx).2.length = ind1.length := by
  obtain ⟨h1, h2⟩ := h
  simp only [cxOnePoint, List.length_append, List.length_take, List.length_drop]
  omega

example : cxOnePointOk [1, 2, 3] [4, 5, 6, 7, 8] 2 := by decide
example : cxOnePoint [1, 2, 3] [4, 5, 6, 7, 8] 2 = ([1, 2, 6, 7, 8], [4, 5, 3]) := by decide

/-! ## cxTwoPoint -/

theorem twopoint_multiset [DecidableEq α] (ind1 ind2 : List α) (c1 c2 : Nat) (h : cxTwoPointOk ind1 ind2 c1 c2) :
    ((cxTwoPoint ind1 ind2 c1 c2).1 ++ (cxTwoPoint ind1 ind2 c1 c2).2).Perm (ind1 ++ ind2) := by
  obtain ⟨h1, h2, h3, h4⟩ := h
  have hn := normCx_spec c1 c2 _ h1 h2 h3 h4
  exact slice_exchange_perm ind1 ind2 _ _ (by omega)

theorem twopoint_locus (ind1 ind2 : List α) (c1 c2 : Nat) (h : cxTwoPointOk ind1 ind2 c1 c2) :
    Locus (cxTwoPoint ind1 ind2 c1 c2) (ind1, ind2) := by
  obtain ⟨h1, h2, h3, h4⟩ := h
  have hn := normCx_spec c1 c2 _ h1 h2 h3 h4
  intro j
  simp only [cxTwoPoint]
  rw [sliceAssign_getElem? ind1 ind2 _ _ (by omega) (by omega) (by omega),
    sliceAssign_getElem? ind2 ind1 _ _ (by omega) (by omega) (by omega)]
  split <;> simp

/-- both children keep the length of "their" parent -/
theorem twopoint_lengths (ind1 ind2 : List α) (c1 c2 : Nat) (h : cxTwoPointOk ind1 ind2 c1 c2) :
    (cxTwoPoint ind1 ind2 c1 c2).1.length = ind1.length ∧ (cxTwoPoint ind1 ind2 c1 c2).2.length = ind2.length := by
  obtain ⟨h1, h2, h3, h4⟩ := h
  have hn := normCx_spec c1 c2 _ h1 h2 h3 h4
  simp only [cxTwoPoint]
  exact ⟨sliceAssign_length ind1 ind2 _ _ (by omega) (by omega) (by omega),
    sliceAssign_length ind2 ind1 _ _ (by omega) (by omega) (by omega)⟩

example : cxTwoPointOk [1, 2, 3, 4] [5, 6, 7, 8, 9] 4 1 := by decide
example : cxTwoPoint [1, 2, 3, 4] [5, 6, 7, 8, 9] 4 1 = ([1, 6, 7, 8], [5, 2, 3, 4, 9]) := by decide

/-- the documented former name `cxTwoPoints` is the same operator, so every statement above holds
for that call form too -/
theorem twopoints_alias (ind1 ind2 : List α) (c1 c2 : Nat) :
    cxTwoPoints ind1 ind2 c1 c2 = cxTwoPoint ind1 ind2 c1 c2 := rfl

/-! ## cxUniform -/

/-- unguarded: the loop index runs over `range(min(len1, len2))`, so both item accesses exist for
every decision list (a list of the wrong length is a tape that does not fit, not an error) -/
theorem uniform_multiset [DecidableEq α] (ind1 ind2 : List α) (ds : List Bool) :
    ((cxUniform ind1 ind2 ds).1 ++ (cxUniform ind1 ind2 ds).2).Perm (ind1 ++ ind2) :=
  cxUniform_inv (fun p => (p.1 ++ p.2).Perm (ind1 ++ ind2)) ind1 ind2 ds (List.Perm.refl _)
    (fun p i _ hp => (swapAt2_perm i p).trans hp)

theorem uniform_lengths (ind1 ind2 : List α) (ds : List Bool) :
    (cxUniform ind1 ind2 ds).1.length = ind1.length ∧ (cxUniform ind1 ind2 ds).2.length = ind2.length :=
  cxUniform_inv (fun p => p.1.length = ind1.length ∧ p.2.length = ind2.length) ind1 ind2 ds ⟨rfl, rfl⟩
    (fun p i _ hp => ⟨by rw [(swapAt2_length i p).1, hp.1], by rw [(swapAt2_length i p).2, hp.2]⟩)

theorem uniform_locus (ind1 ind2 : List α) (ds : List Bool) :
    Locus (cxUniform ind1 ind2 ds) (ind1, ind2) := by
  refine (cxUniform_inv (fun p => (p.1.length = ind1.length ∧ p.2.length = ind2.length) ∧ Locus p (ind1, ind2))
    ind1 ind2 ds ⟨⟨rfl, rfl⟩, fun j => Or.inl ⟨rfl, rfl⟩⟩ ?_).2
  intro p i hlt hp
  refine ⟨⟨by rw [(swapAt2_length i p).1, hp.1.1], by rw [(swapAt2_length i p).2, hp.1.2]⟩, ?_⟩
  intro j
  have hs := swapAt2_getElem? i p (by rw [hp.1.1]; omega) (by rw [hp.1.2]; omega) j
  rw [hs.1, hs.2]
  by_cases e : j = i
  · simp only [e, if_true]
    rcases hp.2 i with h | h
    · right; exact ⟨h.2, h.1⟩
    · left; exact ⟨h.2, h.1⟩
  · simp only [e, if_false]; exact hp.2 j

/-- exact form: locus `j` is exchanged iff the `j`-th `random()` was `< indpb` (there are exactly
`size = min(len1, len2)` draws) -/
theorem uniform_exact (ind1 ind2 : List α) (ds : List Bool) (h : cxUniformOk ind1 ind2 ds) (j : Nat) :
    (cxUniform ind1 ind2 ds).1[j]? = (if ds[j]?.getD false = true then ind2[j]? else ind1[j]?) ∧
    (cxUniform ind1 ind2 ds).2[j]? = (if ds[j]?.getD false = true then ind1[j]? else ind2[j]?) := by
  unfold cxUniformOk at h
  have := swapLoop_exact ds 0 (min ind1.length ind2.length) (ind1, ind2) (by simp) j
  simp only [cxUniform, List.range_eq_range']
  rw [this.1, this.2]
  have c : (0 ≤ j ∧ j < 0 + min ind1.length ind2.length ∧ ds[j - 0]?.getD false = true) ↔
      ds[j]?.getD false = true := by
    constructor
    · rintro ⟨_, _, c⟩; simpa using c
    · intro c
      refine ⟨by omega, ?_, by simpa using c⟩
      by_contra hlt
      rw [List.getElem?_eq_none (by omega)] at c
      simp at c
  simp only [c, and_self]

/-- the decisions are the comparisons `random() < indpb`: a draw `r ≥ indpb` never exchanges its
locus, a draw `r < indpb` always does — for every `indpb` (in particular `0` and `1`) -/
theorem uniformR_exact {ρ : Type} [LT ρ] [DecidableLT ρ] (ind1 ind2 : List α) (indpb : ρ) (rs : List ρ)
    (h : rs.length = min ind1.length ind2.length) (j : Nat) (hj : j < rs.length) :
    (rs[j] < indpb → (cxUniformR ind1 ind2 indpb rs).1[j]? = ind2[j]? ∧ (cxUniformR ind1 ind2 indpb rs).2[j]? = ind1[j]?) ∧
    (¬ rs[j] < indpb → (cxUniformR ind1 ind2 indpb rs).1[j]? = ind1[j]? ∧ (cxUniformR ind1 ind2 indpb rs).2[j]? = ind2[j]?) := by
  have hx := uniform_exact ind1 ind2 (decisions indpb rs) (by simp [cxUniformOk, decisions, h]) j
  have hd : (decisions indpb rs)[j]?.getD false = decide (rs[j] < indpb) := by
    simp [decisions, hj]
  rw [hd] at hx
  constructor
  · intro hlt; simpa [cxUniformR, hlt] using hx
  · intro hlt; simpa [cxUniformR, hlt] using hx

example : cxUniformOk [1, 2, 3] [4, 5] [true, false] := by decide
example : ([0, 1] : List Nat).length = min [1, 2, 3].length [4, 5].length ∧ 1 < ([0, 1] : List Nat).length := by decide
example : cxUniformR [1, 2, 3] [4, 5] (1 : Nat) [0, 1] = ([4, 2, 3], [1, 5]) := by decide

/-! ## cxMessyOnePoint -/

/-- unguarded: slices clamp, nothing can raise after the draws -/
theorem messy_multiset [DecidableEq α] (ind1 ind2 : List α) (c1 c2 : Nat) :
    ((cxMessyOnePoint ind1 ind2 c1 c2).1 ++ (cxMessyOnePoint ind1 ind2 c1 c2).2).Perm (ind1 ++ ind2) := by
  simp only [cxMessyOnePoint]
  rw [List.perm_iff_count]
  intro z
  have ea := congrArg (List.count z) (List.take_append_drop c1 ind1)
  have eb := congrArg (List.count z) (List.take_append_drop c2 ind2)
  simp only [List.count_append] at ea eb ⊢
  omega

/-- the heads stay, the tails are exchanged; hence the lengths are `c1 + (len2 - c2)` and `c2 + (len1 - c1)` -/
theorem messy_structure (ind1 ind2 : List α) (c1 c2 : Nat) (h : cxMessyOnePointOk ind1 ind2 c1 c2) :
    (cxMessyOnePoint ind1 ind2 c1 c2).1 = ind1.take c1 ++ ind2.drop c2 ∧
    (cxMessyOnePoint ind1 ind2 c1 c2).2 = ind2.take c2 ++ ind1.drop c1 ∧
    (cxMessyOnePoint ind1 ind2 c1 c2).1.length = c1 + (ind2.length - c2) ∧
    (cxMessyOnePoint ind1 ind2 c1 c2).2.length = c2 + (ind1.length - c1) := by
  obtain ⟨h1, h2⟩ := h
  simp only [cxMessyOnePoint, List.length_append, List.length_take, List.length_drop, true_and]
  omega

example : cxMessyOnePointOk [1, 2, 3] [4, 5] 3 0 := by decide
example : cxMessyOnePoint [1, 2, 3] [4, 5] 3 0 = ([1, 2, 3, 4, 5], []) := by decide

/-! ## cxESTwoPoint -/
section ES
variable {σ : Type}

/-- gene `i` and strategy value `i` travel together: zipping a child with its strategy is the same
as applying the plain two-point crossover to the parents zipped with their strategies -/
theorem es_pairs (ind1 ind2 : ESInd α σ) (pt1 pt2 : Nat)
    (hs1 : ind1.genes.length = ind1.strategy.length) (hs2 : ind2.genes.length = ind2.strategy.length) :
    List.zip (cxESTwoPoint ind1 ind2 pt1 pt2).1.genes (cxESTwoPoint ind1 ind2 pt1 pt2).1.strategy
      = (cxTwoPoint (List.zip ind1.genes ind1.strategy) (List.zip ind2.genes ind2.strategy) pt1 pt2).1 ∧
    List.zip (cxESTwoPoint ind1 ind2 pt1 pt2).2.genes (cxESTwoPoint ind1 ind2 pt1 pt2).2.strategy
      = (cxTwoPoint (List.zip ind1.genes ind1.strategy) (List.zip ind2.genes ind2.strategy) pt1 pt2).2 := by
  simp only [cxESTwoPoint, cxTwoPoint]
  exact ⟨zip_sliceAssign _ _ _ _ _ _ hs1 hs2, zip_sliceAssign _ _ _ _ _ _ hs2 hs1⟩

/-- the genes alone undergo exactly `cxTwoPoint` -/
theorem es_genes (ind1 ind2 : ESInd α σ) (pt1 pt2 : Nat) :
    ((cxESTwoPoint ind1 ind2 pt1 pt2).1.genes, (cxESTwoPoint ind1 ind2 pt1 pt2).2.genes)
      = cxTwoPoint ind1.genes ind2.genes pt1 pt2 := rfl

/-- the multiset of (gene, strategy value) pairs is conserved -/
theorem es_pairs_multiset [DecidableEq α] [DecidableEq σ] (ind1 ind2 : ESInd α σ) (pt1 pt2 : Nat)
    (h : cxESTwoPointOk ind1 ind2 pt1 pt2)
    (hs1 : ind1.genes.length = ind1.strategy.length) (hs2 : ind2.genes.length = ind2.strategy.length) :
    (List.zip (cxESTwoPoint ind1 ind2 pt1 pt2).1.genes (cxESTwoPoint ind1 ind2 pt1 pt2).1.strategy ++
     List.zip (cxESTwoPoint ind1 ind2 pt1 pt2).2.genes (cxESTwoPoint ind1 ind2 pt1 pt2).2.strategy).Perm
    (List.zip ind1.genes ind1.strategy ++ List.zip ind2.genes ind2.strategy) := by
  rw [(es_pairs ind1 ind2 pt1 pt2 hs1 hs2).1, (es_pairs ind1 ind2 pt1 pt2 hs1 hs2).2]
  exact twopoint_multiset _ _ pt1 pt2 (es_okZip ind1 ind2 pt1 pt2 h hs1 hs2)

/-- each locus of the children holds the two parental (gene, strategy) pairs of that locus -/
theorem es_pairs_locus (ind1 ind2 : ESInd α σ) (pt1 pt2 : Nat) (h : cxESTwoPointOk ind1 ind2 pt1 pt2)
    (hs1 : ind1.genes.length = ind1.strategy.length) (hs2 : ind2.genes.length = ind2.strategy.length) :
    Locus (List.zip (cxESTwoPoint ind1 ind2 pt1 pt2).1.genes (cxESTwoPoint ind1 ind2 pt1 pt2).1.strategy,
           List.zip (cxESTwoPoint ind1 ind2 pt1 pt2).2.genes (cxESTwoPoint ind1 ind2 pt1 pt2).2.strategy)
          (List.zip ind1.genes ind1.strategy, List.zip ind2.genes ind2.strategy) := by
  rw [(es_pairs ind1 ind2 pt1 pt2 hs1 hs2).1, (es_pairs ind1 ind2 pt1 pt2 hs1 hs2).2]
  exact twopoint_locus _ _ pt1 pt2 (es_okZip ind1 ind2 pt1 pt2 h hs1 hs2)

/-- individuals and strategies keep their lengths -/
theorem es_lengths (ind1 ind2 : ESInd α σ) (pt1 pt2 : Nat) (h : cxESTwoPointOk ind1 ind2 pt1 pt2)
    (hs1 : ind1.genes.length = ind1.strategy.length) (hs2 : ind2.genes.length = ind2.strategy.length) :
    (cxESTwoPoint ind1 ind2 pt1 pt2).1.genes.length = ind1.genes.length ∧
    (cxESTwoPoint ind1 ind2 pt1 pt2).2.genes.length = ind2.genes.length ∧
    (cxESTwoPoint ind1 ind2 pt1 pt2).1.strategy.length = ind1.strategy.length ∧
    (cxESTwoPoint ind1 ind2 pt1 pt2).2.strategy.length = ind2.strategy.length := by
  obtain ⟨h1, h2, h3, h4⟩ := h
  have hn := normCx_spec pt1 pt2 _ h1 h2 h3 h4
  simp only [cxESTwoPoint]
  exact ⟨sliceAssign_length _ _ _ _ (by omega) (by omega) (by omega),
    sliceAssign_length _ _ _ _ (by omega) (by omega) (by omega),
    sliceAssign_length _ _ _ _ (by omega) (by omega) (by omega),
    sliceAssign_length _ _ _ _ (by omega) (by omega) (by omega)⟩

example : (⟨[1, 2, 3], [10, 20, 30]⟩ : ESInd Nat Nat).genes.length = (⟨[1, 2, 3], [10, 20, 30]⟩ : ESInd Nat Nat).strategy.length := rfl
example : cxESTwoPointOk (⟨[1, 2, 3], [10, 20, 30]⟩ : ESInd Nat Nat) ⟨[4, 5, 6, 7], [40, 50, 60, 70]⟩ 1 2 := by decide
example : cxESTwoPoint (⟨[1, 2, 3], [10, 20, 30]⟩ : ESInd Nat Nat) ⟨[4, 5, 6, 7], [40, 50, 60, 70]⟩ 1 2
    = (⟨[1, 5, 6], [10, 50, 60]⟩, ⟨[4, 2, 3, 7], [40, 20, 30, 70]⟩) := by decide

/-- the documented former name `cxESTwoPoints` is the same operator — in particular it carries the
strategies: all statements of this section hold for that call form -/
theorem estwopoints_alias (ind1 ind2 : ESInd α σ) (pt1 pt2 : Nat) :
    cxESTwoPoints ind1 ind2 pt1 pt2 = cxESTwoPoint ind1 ind2 pt1 pt2 := rfl

/-- spelled out for the clause the alias could lose: gene and strategy value travel together -/
theorem estwopoints_pairs_multiset [DecidableEq α] [DecidableEq σ] (ind1 ind2 : ESInd α σ) (pt1 pt2 : Nat)
    (h : cxESTwoPointOk ind1 ind2 pt1 pt2)
    (hs1 : ind1.genes.length = ind1.strategy.length) (hs2 : ind2.genes.length = ind2.strategy.length) :
    (List.zip (cxESTwoPoints ind1 ind2 pt1 pt2).1.genes (cxESTwoPoints ind1 ind2 pt1 pt2).1.strategy ++
     List.zip (cxESTwoPoints ind1 ind2 pt1 pt2).2.genes (cxESTwoPoints ind1 ind2 pt1 pt2).2.strategy).Perm
    (List.zip ind1.genes ind1.strategy ++ List.zip ind2.genes ind2.strategy) ∧
    Locus (List.zip (cxESTwoPoints ind1 ind2 pt1 pt2).1.genes (cxESTwoPoints ind1 ind2 pt1 pt2).1.strategy,
           List.zip (cxESTwoPoints ind1 ind2 pt1 pt2).2.genes (cxESTwoPoints ind1 ind2 pt1 pt2).2.strategy)
          (List.zip ind1.genes ind1.strategy, List.zip ind2.genes ind2.strategy) := by
  rw [estwopoints_alias]
  exact ⟨es_pairs_multiset ind1 ind2 pt1 pt2 h hs1 hs2, es_pairs_locus ind1 ind2 pt1 pt2 h hs1 hs2⟩

example : cxESTwoPoints (⟨[1, 2, 3], [10, 20, 30]⟩ : ESInd Nat Nat) ⟨[4, 5, 6, 7], [40, 50, 60, 70]⟩ 1 2
    = (⟨[1, 5, 6], [10, 50, 60]⟩, ⟨[4, 2, 3, 7], [40, 20, 30, 70]⟩) := by decide

end ES

/-! ## cxPartialyMatched, cxUniformPartialyMatched -/

/-- PMX maps two permutations of `0..n-1` to two permutations of `0..n-1` — each child is a
permutation of "its" parent — for every pair of cut points `randint` can return -/
theorem pmx_perm (n : Nat) (ind1 ind2 : List Nat) (c1 c2 : Nat)
    (h1 : ind1.Perm (List.range n)) (h2 : ind2.Perm (List.range n))
    (hc : cxPartialyMatchedOk ind1 ind2 c1 c2) :
    (cxPartialyMatched ind1 ind2 c1 c2).1.Perm (List.range n) ∧
    (cxPartialyMatched ind1 ind2 c1 c2).2.Perm (List.range n) := by
  have l1 : ind1.length = n := by simpa using h1.length_eq
  have l2 : ind2.length = n := by simpa using h2.length_eq
  obtain ⟨_, hn, hc1, hc2⟩ := hc
  simp only [l1, l2, Nat.min_self] at hn hc1 hc2
  have hcx := normCx_spec0 c1 c2 n hn hc1 hc2
  simp only [cxPartialyMatched, l1, l2, Nat.min_self]
  have key : PMInv n ind1 ind2 ((List.range' (normCx c1 c2).1 ((normCx c1 c2).2 - (normCx c1 c2).1)).foldl pmStep
      ⟨ind1, ind2, (pmInit n ind1 ind2).1, (pmInit n ind1 ind2).2⟩) := by
    refine foldl_inv (PMInv n ind1 ind2) pmStep _ _ (pmInv_init n ind1 ind2 h1 h2) ?_
    intro s i hi hs
    have : i < n := by
      have := (List.mem_range'_1.1 hi).2
      omega
    exact pmStep_inv n ind1 ind2 s i this hs
  exact ⟨key.2.2.1.trans h1, key.2.2.2.trans h2⟩

example : cxPartialyMatchedOk [2, 0, 1, 3] [3, 2, 1, 0] 4 1 := by decide
example : cxPartialyMatched [2, 0, 1, 3] [3, 2, 1, 0] 4 1 = ([0, 3, 1, 2], [2, 0, 1, 3]) := by decide
example : [2, 0, 1, 3].Perm (List.range 4) := by decide

/-- UPMX likewise, for every decision vector -/
theorem upmx_perm (n : Nat) (ind1 ind2 : List Nat) (ds : List Bool)
    (h1 : ind1.Perm (List.range n)) (h2 : ind2.Perm (List.range n)) :
    (cxUniformPartialyMatched ind1 ind2 ds).1.Perm (List.range n) ∧
    (cxUniformPartialyMatched ind1 ind2 ds).2.Perm (List.range n) := by
  have l1 : ind1.length = n := by simpa using h1.length_eq
  have l2 : ind2.length = n := by simpa using h2.length_eq
  simp only [cxUniformPartialyMatched, l1, l2, Nat.min_self]
  have key : PMInv n ind1 ind2 (((List.range n).zip ds).foldl
      (fun s (id : Nat × Bool) => if id.2 then pmStep s id.1 else s)
      ⟨ind1, ind2, (pmInit n ind1 ind2).1, (pmInit n ind1 ind2).2⟩) := by
    refine foldl_inv (PMInv n ind1 ind2) _ _ _ (pmInv_init n ind1 ind2 h1 h2) ?_
    intro s id hid hs
    have : id.1 < n := by
      have := (List.of_mem_zip hid).1
      simpa using this
    by_cases hd : id.2 = true
    · simp only [hd, if_true]; exact pmStep_inv n ind1 ind2 s id.1 this hs
    · simp only [hd, if_false]; exact hs
  exact ⟨key.2.2.1.trans h1, key.2.2.2.trans h2⟩

/-- the permutations pass the `IndexError` guard of the two operators, so the hypothesis
`cxPartialyMatchedOk` above only restricts the cut points -/
theorem pm_guard (n : Nat) (ind1 ind2 : List Nat) (h1 : ind1.Perm (List.range n)) (h2 : ind2.Perm (List.range n)) :
    pmGenesOk ind1 ind2 := pmGenesOk_of_perm n ind1 ind2 h1 h2

example : cxUniformPartialyMatchedOk [2, 0, 1] [0, 2, 1] [true, false, true] := by decide
example : cxUniformPartialyMatched [2, 0, 1] [0, 2, 1] [true, false, true] = ([0, 2, 1], [2, 0, 1]) := by decide

/-! ## cxOrdered -/

/-- OX — with the aliasing `temp1, temp2 = ind1, ind2` of the code, i.e. reading from the lists
it is writing to — maps two permutations of `0..n-1` to two permutations of `0..n-1`, for every
ordered sample `(a0, b0)` of two different positions -/
theorem ox_perm (n : Nat) (ind1 ind2 : List Nat) (a0 b0 : Nat)
    (h1 : ind1.Perm (List.range n)) (h2 : ind2.Perm (List.range n))
    (hc : cxOrderedOk ind1 ind2 a0 b0) :
    (cxOrdered ind1 ind2 a0 b0).1.Perm (List.range n) ∧ (cxOrdered ind1 ind2 a0 b0).2.Perm (List.range n) := by
  have l1 : ind1.length = n := by simpa using h1.length_eq
  have l2 : ind2.length = n := by simpa using h2.length_eq
  obtain ⟨_, hne, ha, hb⟩ := hc
  simp only [l1, l2, Nat.min_self] at ha hb
  simp only [cxOrdered, l1, l2, Nat.min_self]
  by_cases hgt : a0 > b0
  · simp only [hgt, if_true]
    exact ox_core n b0 a0 ind1 ind2 h1 h2 (by omega) ha
  · simp only [hgt, if_false]
    exact ox_core n a0 b0 ind1 ind2 h1 h2 (by omega) hb

example : cxOrderedOk [0, 1, 2, 3, 4] [4, 3, 2, 1, 0] 3 1 := by decide
example : cxOrdered [0, 1, 2, 3, 4] [4, 3, 2, 1, 0] 3 1 = ([0, 3, 2, 1, 4], [4, 1, 2, 3, 0]) := by decide

/-! ## mutShuffleIndexes -/

/-- whenever the call goes through (`some`), the mutant is a permutation of the individual and as
long; in particular a permutation of `0..n-1` stays one.  `none` is the raising call: see
`shuffle_raises`, `shuffle_total`. -/
theorem shuffle_perm [DecidableEq α] (individual out : List α) (ds : List (Option Nat))
    (h : mutShuffleIndexes individual ds = some out) : out.Perm individual ∧ out.length = individual.length := by
  simp only [mutShuffleIndexes] at h
  refine foldl_inv
    (fun acc : Option (List α) => ∀ l, acc = some l → l.Perm individual ∧ l.length = individual.length)
    (shuffleStep individual.length) ((List.range individual.length).zip ds) (some individual)
    (by intro l hl; cases hl; exact ⟨List.Perm.refl _, rfl⟩) ?_ out h
  intro acc id _ hacc l hl
  cases acc with
  | none => simp [shuffleStep] at hl
  | some ind =>
    obtain ⟨hp, hlen⟩ := hacc ind rfl
    cases hd : id.2 with
    | none => simp only [shuffleStep, hd, Option.some.injEq] at hl; subst hl; exact ⟨hp, hlen⟩
    | some s =>
      simp only [shuffleStep, hd] at hl
      split at hl
      · obtain ⟨q1, q2⟩ := pySwap?_perm ind l _ _ hl
        exact ⟨q1.trans hp, by rw [q2, hlen]⟩
      · cases hl

theorem shuffle_perm_range (n : Nat) (individual out : List Nat) (ds : List (Option Nat))
    (hp : individual.Perm (List.range n)) (h : mutShuffleIndexes individual ds = some out) :
    out.Perm (List.range n) :=
  (shuffle_perm individual out ds h).1.trans hp

/-- under the guard (one `random()` per gene, every `randint` answer in `[0, size-2]`) the call
goes through: the partner index `swap_indx` (after `>= i: += 1`) is an existing position -/
theorem shuffle_total [DecidableEq α] (individual : List α) (ds : List (Option Nat)) (h : mutShuffleIndexesOk individual ds) :
    (mutShuffleIndexes individual ds).isSome = true := by
  obtain ⟨_, hds⟩ := h
  simp only [mutShuffleIndexes]
  have key := foldl_inv
    (fun acc : Option (List α) => ∃ l, acc = some l ∧ l.length = individual.length)
    (shuffleStep individual.length) ((List.range individual.length).zip ds) (some individual)
    ⟨individual, rfl, rfl⟩
    (by
      intro acc id hid ⟨l, hl, hlen⟩
      subst hl
      have hi : id.1 < individual.length := by
        have := (List.of_mem_zip hid).1
        simpa using this
      cases hd : id.2 with
      | none => exact ⟨l, by simp [shuffleStep, hd], hlen⟩
      | some s =>
        have hs := hds id.2 (List.of_mem_zip hid).2 s hd
        have hsome : (pySwap? l id.1 (if s ≥ id.1 then s + 1 else s)).isSome = true := by
          rw [pySwap?_isSome, hlen]
          exact ⟨hi, by split <;> omega⟩
        obtain ⟨l', hl'⟩ := Option.isSome_iff_exists.1 hsome
        exact ⟨l', by simp [shuffleStep, hd, hs, hl'], by rw [(pySwap?_perm l l' _ _ hl').2, hlen]⟩)
  obtain ⟨l, hl, _⟩ := key
  rw [hl]; rfl

/-- the raising case made explicit: a selected gene in an individual of length `< 2`
(`randint(0, size-2)` is a `ValueError`) makes the model answer `none`, it does not "swap nothing" -/
theorem shuffle_raises (x : α) (s : Nat) : mutShuffleIndexes [x] [some s] = none := by
  simp [mutShuffleIndexes, shuffleStep, List.range_succ]

example : mutShuffleIndexesOk [0, 1, 2, 3] [some 2, none, some 0, none] := by decide
example : mutShuffleIndexes [0, 1, 2, 3] [some 2, none, some 0, none] = some [2, 1, 3, 0] := by decide
example : [2, 1, 0].Perm (List.range 3) := by decide

/-- under the guard the partner index is a different, existing position (`swap_indx >= i: += 1`) -/
theorem shuffle_partner (size i s : Nat) (hi : i < size) (hs : s + 2 ≤ size) :
    (if s ≥ i then s + 1 else s) ≠ i ∧ (if s ≥ i then s + 1 else s) < size := by
  split <;> omega

example : (2 : Nat) < 4 ∧ 1 + 2 ≤ 4 := by decide

/-- the selection pattern of the `random()`/`randint` tape: with enough `randint` answers on the
tape there is one entry per gene, and gene `j` is selected iff `rs[j] < indpb` -/
theorem drawOpts_selected {ρ β : Type} [LT ρ] [DecidableLT ρ] (indpb : ρ) (rs : List ρ) (vs : List β)
    (h : (rs.filter (fun r => decide (r < indpb))).length ≤ vs.length) :
    (drawOpts indpb rs vs).length = rs.length ∧
    ∀ j (hj : j < rs.length), ((drawOpts indpb rs vs)[j]?.getD none).isSome = decide (rs[j] < indpb) := by
  induction rs generalizing vs with
  | nil => simp [drawOpts]
  | cons r rs ih =>
    by_cases hr : r < indpb
    · cases vs with
      | nil => simp [hr] at h
      | cons v vs =>
        have h' : (rs.filter (fun r => decide (r < indpb))).length ≤ vs.length := by
          simpa [hr] using h
        obtain ⟨i1, i2⟩ := ih vs h'
        simp only [drawOpts, hr, if_true, List.length_cons, i1, true_and]
        intro j hj
        cases j with
        | zero => simp [hr]
        | succ j => simpa using i2 j (by simpa using hj)
    · have h' : (rs.filter (fun r => decide (r < indpb))).length ≤ vs.length := by
        simpa [hr] using h
      obtain ⟨i1, i2⟩ := ih vs h'
      simp only [drawOpts, hr, if_false, List.length_cons, i1, true_and]
      intro j hj
      cases j with
      | zero => simp [hr]
      | succ j => simpa using i2 j (by simpa using hj)

example : drawOpts (1 : Nat) [0, 1, 0] [7, 8] = [some 7, none, some 8] := by decide

/-! ## mutInversion -/

/-- unguarded: only slice operations, which clamp like `take`/`drop` (no error is swallowed);
`mutInversionOk` restricts the draws to what `randrange(size)` returns, see `inversion_exact` -/
theorem inversion_perm [DecidableEq α] (individual : List α) (i1 i2 : Nat) :
    (mutInversion individual i1 i2).Perm individual := by
  unfold mutInversion
  split
  · exact List.Perm.refl _
  · have hle : min i1 i2 ≤ max i1 i2 := by omega
    have hm : max (min i1 i2) (max i1 i2) = max i1 i2 := by omega
    simp only [sliceAssign, pySlice, hm]
    rw [List.perm_iff_count]
    intro z
    have e := congrArg (List.count z) (split3 individual (min i1 i2) (max i1 i2) hle)
    simp only [List.count_append, List.count_reverse] at e ⊢
    omega

theorem inversion_perm_range (n : Nat) (individual : List Nat) (i1 i2 : Nat)
    (h : individual.Perm (List.range n)) : (mutInversion individual i1 i2).Perm (List.range n) :=
  (inversion_perm individual i1 i2).trans h

/-- what the slice assignment does: the genes in `[min, max)` appear in reverse order, the rest stays -/
theorem inversion_exact (individual : List α) (i1 i2 : Nat) (h : mutInversionOk individual i1 i2) :
    mutInversion individual i1 i2
      = individual.take (min i1 i2) ++ ((individual.take (max i1 i2)).drop (min i1 i2)).reverse
          ++ individual.drop (max i1 i2) := by
  unfold mutInversion
  split
  · next h0 =>
    have : individual = [] := List.eq_nil_of_length_eq_zero h0
    subst this; simp
  · have hm : max (min i1 i2) (max i1 i2) = max i1 i2 := by omega
    simp only [sliceAssign, pySlice, hm]

example : mutInversionOk [0, 1, 2, 3, 4] 3 1 := by decide
example : mutInversion [0, 1, 2, 3, 4] 3 1 = [0, 2, 1, 3, 4] := by decide

/-! ## mutFlipBit -/

/-- exact form: gene `j` becomes `type(x)(not x)` iff the `j`-th `random()` was `< indpb` -/
theorem flip_exact [PyNot α] (individual : List α) (ds : List Bool) (h : mutFlipBitOk individual ds) (j : Nat) :
    (mutFlipBit individual ds)[j]? =
      if ds[j]?.getD false = true then (individual[j]?).map PyNot.pyNot else individual[j]? := by
  unfold mutFlipBitOk at h
  have hfb : mutFlipBit individual ds = ((List.range' 0 individual.length).zip ds).foldl
      (fun (l : List α) (id : Nat × Bool) =>
          match l[id.1]? with
          | some x => l.set id.1 (if id.2 = true then PyNot.pyNot x else x)
          | none => l) individual := by
    unfold mutFlipBit
    rw [List.range_eq_range']
    congr 1
    funext ind id
    cases hd : id.2 with
    | true => simp only [if_true]; rfl
    | false =>
      cases hl : ind[id.1]? with
      | none => simp
      | some x =>
        obtain ⟨hlt, rfl⟩ := List.getElem?_eq_some_iff.1 hl
        simp
  rw [hfb]
  refine (foldl_pointwise (fun (_ : Nat) (d : Bool) (x : α) => if d = true then PyNot.pyNot x else x)
    ds 0 individual.length individual j).trans ?_
  by_cases hj : j < individual.length
  · have c : 0 ≤ j ∧ j - 0 < min individual.length ds.length := by omega
    rw [dif_pos c]
    have : ds[j]?.getD false = ds[j - 0]'(by omega) := by simp [List.getElem?_eq_getElem (by omega : j < ds.length)]
    rw [this]
    cases ds[j - 0]'(by omega) <;> simp [List.getElem?_eq_getElem hj]
  · have c : ¬ (0 ≤ j ∧ j - 0 < min individual.length ds.length) := by omega
    rw [dif_neg c, List.getElem?_eq_none (by omega)]
    simp

/-- in terms of the raw draws: gene `j` is flipped iff `rs[j] < indpb` -/
theorem flipR_exact {ρ : Type} [LT ρ] [DecidableLT ρ] [PyNot α] (individual : List α) (indpb : ρ) (rs : List ρ)
    (h : rs.length = individual.length) (j : Nat) (hj : j < rs.length) :
    (rs[j] < indpb → (mutFlipBitR individual indpb rs)[j]? = (individual[j]?).map PyNot.pyNot) ∧
    (¬ rs[j] < indpb → (mutFlipBitR individual indpb rs)[j]? = individual[j]?) := by
  have hx := flip_exact individual (decisions indpb rs) (by simp [mutFlipBitOk, decisions, h]) j
  have hd : (decisions indpb rs)[j]?.getD false = decide (rs[j] < indpb) := by
    simp [decisions, hj]
  rw [hd] at hx
  constructor
  · intro hlt; simpa [mutFlipBitR, hlt] using hx
  · intro hlt; simpa [mutFlipBitR, hlt] using hx

example : mutFlipBitR [1, 0, (1 : Int)] (1 : Nat) [0, 0, 1] = [0, 1, 1] := by decide

/-- the length is kept -/
theorem flip_length [PyNot α] (individual : List α) (ds : List Bool) :
    (mutFlipBit individual ds).length = individual.length := by
  simp only [mutFlipBit]
  refine foldl_inv (fun l : List α => l.length = individual.length) _ _ _ rfl ?_
  intro l id _ hl
  split
  · split <;> simp [hl]
  · exact hl

/-- every gene of the mutant is the old gene or its complement `type(x)(not x)` -/
theorem flip_complement [PyNot α] (individual : List α) (ds : List Bool) (h : mutFlipBitOk individual ds)
    (j : Nat) (hj : j < individual.length) :
    (mutFlipBit individual ds)[j]? = some individual[j] ∨
    (mutFlipBit individual ds)[j]? = some (PyNot.pyNot individual[j]) := by
  rw [flip_exact individual ds h j]
  split
  · right; simp [List.getElem?_eq_getElem hj]
  · left; simp [List.getElem?_eq_getElem hj]

/-- on `{0,1}` the complement is `1 - x`, on `bool` it is negation; flipping twice gives the gene back -/
theorem pyNot_int_binary (x : Int) (h : x = 0 ∨ x = 1) :
    PyNot.pyNot x = 1 - x ∧ PyNot.pyNot (PyNot.pyNot x) = x := by
  rcases h with rfl | rfl <;> decide

theorem pyNot_bool (x : Bool) : PyNot.pyNot x = !x := rfl

example : mutFlipBitOk [1, 0, (1 : Int)] [true, true, false] := by decide
example : mutFlipBit [1, 0, (1 : Int)] [true, true, false] = [0, 1, 1] := by decide

/-! ## mutUniformInt -/

/-- the length is kept, and every gene is either unchanged or an integer inside the bounds that
belong to its position — scalar bounds, per-gene bounds, or one of each -/
theorem uniform_int_bounds (individual : List Int) (low up : Bound) (ds : List (Option Int)) (out : List Int)
    (h : mutUniformInt individual low up ds = some out) :
    out.length = individual.length ∧
    ∀ i (hi : i < individual.length), out[i]? = some individual[i] ∨
      ∃ v xl xu, out[i]? = some v ∧ boundAt low i = some xl ∧ boundAt up i = some xu ∧ xl ≤ v ∧ v ≤ xu := by
  unfold mutUniformInt at h
  cases hlo : low.toSeq individual.length with
  | none => simp [hlo] at h
  | some lo =>
    cases hhi : up.toSeq individual.length with
    | none => simp [hlo, hhi] at h
    | some hi' =>
      simp only [hlo, hhi] at h
      split at h
      · next hlen =>
        refine mutUniformIntLoop_inv
          (fun l => l.length = individual.length ∧
            ∀ i (hi : i < individual.length), l[i]? = some individual[i] ∨
              ∃ v xl xu, l[i]? = some v ∧ boundAt low i = some xl ∧ boundAt up i = some xu ∧ xl ≤ v ∧ v ≤ xu)
          _ ds individual out ⟨rfl, fun i hi => Or.inl (List.getElem?_eq_getElem hi)⟩ ?_ h
        intro l i xl xu v hmem hlv hvu ⟨hl, hP⟩
        refine ⟨by simp [hl], ?_⟩
        intro k hk
        -- the triple zipped to index `i` carries the bounds of position `i`
        have hmem' := List.mem_iff_getElem?.1 hmem
        obtain ⟨m, hm⟩ := hmem'
        rw [List.getElem?_zip_eq_some] at hm
        obtain ⟨hm1, hm2⟩ := hm
        rw [List.getElem?_zip_eq_some] at hm2
        have hmi : m = i ∧ m < individual.length := by
          obtain ⟨hlt, he⟩ := List.getElem?_eq_some_iff.1 hm1
          simp only [List.length_range] at hlt
          simp only [List.getElem_range] at he
          exact ⟨he, hlt⟩
        obtain ⟨rfl, hmlt⟩ := hmi
        by_cases e : k = m
        · subst e
          right
          refine ⟨v, xl, xu, by simp [List.getElem?_set, hl, hk], ?_, ?_, hlv, hvu⟩
          · rw [← (toSeq_get low _ lo hlo k hk).2]; exact hm2.1
          · rw [← (toSeq_get up _ hi' hhi k hk).2]; exact hm2.2
        · have : (l.set m v)[k]? = l[k]? := by simp [List.getElem?_set, Ne.symm e]
          rw [this]; exact hP k hk
      · cases h

/-- the model REJECTS a `randint` answer outside the bounds zipped to its position (`randint`'s
contract is an assumption of the model, not something `uniform_int_bounds` proves): so
`uniform_int_bounds` is a statement about *alignment* — the draw made for gene `i` is checked
against `low[i]`, `up[i]` and (see `uniform_int_exact`) written to gene `i` -/
theorem uniform_int_rejects (individual : List Int) (low up : Bound) (ds : List (Option Int))
    (k : Nat) (hk : k < individual.length) (v xl xu : Int) (hv : ds[k]? = some (some v))
    (hl : boundAt low k = some xl) (hu : boundAt up k = some xu) (hout : ¬ (xl ≤ v ∧ v ≤ xu)) :
    mutUniformInt individual low up ds = none := by
  simp only [mutUniformInt]
  cases hlo : low.toSeq individual.length with
  | none => rfl
  | some lo =>
    cases hhi : up.toSeq individual.length with
    | none => rfl
    | some hi =>
      simp only
      split
      · have g1 := toSeq_get low _ lo hlo k hk
        have g2 := toSeq_get up _ hi hhi k hk
        have hkl : k < ((List.range individual.length).zip (lo.zip hi)).length := by
          simp only [List.length_zip, List.length_range]; omega
        apply mutUniformIntLoop_reject _ ds individual k hkl v hv
        simp only [List.getElem_zip]
        have e1 : lo[k]'g1.1 = xl := by
          have := g1.2; rw [hl, List.getElem?_eq_getElem g1.1] at this; exact Option.some.inj this
        have e2 : hi[k]'g2.1 = xu := by
          have := g2.2; rw [hu, List.getElem?_eq_getElem g2.1] at this; exact Option.some.inj this
        rw [e1, e2]; exact hout
      · rfl

/-- exact form: gene `j` is the `randint` answer made for position `j` if it was selected, else unchanged -/
theorem uniform_int_exact (individual : List Int) (low up : Bound) (ds : List (Option Int)) (out : List Int)
    (h : mutUniformInt individual low up ds = some out) (j : Nat) (hj : j < individual.length) :
    out[j]? = (match ds[j]? with | some (some v) => some v | _ => individual[j]?) := by
  unfold mutUniformInt at h
  cases hlo : low.toSeq individual.length with
  | none => simp [hlo] at h
  | some lo =>
    cases hhi : up.toSeq individual.length with
    | none => simp [hlo, hhi] at h
    | some hi =>
      simp only [hlo, hhi] at h
      split at h
      · have g1 := toSeq_get low _ lo hlo
        have g2 := toSeq_get up _ hi hhi
        have hn : individual.length ≤ (lo.zip hi).length := by
          simp only [List.length_zip]
          have := (g1 j hj).1; have := (g2 j hj).1
          by_cases h0 : individual.length = 0
          · omega
          · have := (g1 (individual.length - 1) (by omega)).1
            have := (g2 (individual.length - 1) (by omega)).1
            omega
        rw [List.range_eq_range'] at h
        have := mutUniformIntLoop_exact individual.length 0 (lo.zip hi) ds individual out hn (by omega) h j
        rw [this, if_pos (by omega), Nat.sub_zero]
        rcases ds[j]? with _ | _ | _ <;> rfl
      · cases h

/-- scalar bounds `low ≤ up` -/
theorem uniform_int_bounds_scalar (individual : List Int) (low up : Int) (ds : List (Option Int)) (out : List Int)
    (h : mutUniformInt individual (.scalar low) (.scalar up) ds = some out) (i : Nat) (hi : i < out.length) :
    out.length = individual.length ∧ (out[i]? = individual[i]? ∨ (low ≤ out[i] ∧ out[i] ≤ up)) := by
  obtain ⟨hl, hb⟩ := uniform_int_bounds individual _ _ ds out h
  refine ⟨hl, ?_⟩
  rcases hb i (by omega) with h1 | ⟨v, xl, xu, hv, h1, h2, h3, h4⟩
  · left; rw [h1, List.getElem?_eq_getElem (by omega)]
  · right
    simp only [boundAt, Option.some.injEq] at h1 h2
    obtain ⟨_, rfl⟩ := List.getElem?_eq_some_iff.1 hv
    omega

/-- per-gene bounds: both sequences are at least as long as the individual (otherwise `IndexError`),
and gene `i` is unchanged or inside `[low[i], up[i]]` -/
theorem uniform_int_bounds_seq (individual : List Int) (low up : List Int) (ds : List (Option Int)) (out : List Int)
    (h : mutUniformInt individual (.seq low) (.seq up) ds = some out) :
    out.length = individual.length ∧ individual.length ≤ low.length ∧ individual.length ≤ up.length ∧
    ∀ i (hi : i < out.length) (h1 : i < low.length) (h2 : i < up.length),
      out[i]? = individual[i]? ∨ (low[i] ≤ out[i] ∧ out[i] ≤ up[i]) := by
  obtain ⟨hl, hb⟩ := uniform_int_bounds individual _ _ ds out h
  have hlens : individual.length ≤ low.length ∧ individual.length ≤ up.length := by
    unfold mutUniformInt at h
    simp only [Bound.toSeq] at h
    by_cases c1 : low.length < individual.length
    · simp [c1] at h
    · by_cases c2 : up.length < individual.length
      · simp [c1, c2] at h
      · omega
  refine ⟨hl, hlens.1, hlens.2, ?_⟩
  intro i hi h1 h2
  rcases hb i (by omega) with g1 | ⟨v, xl, xu, hv, g1, g2, g3, g4⟩
  · left; rw [g1, List.getElem?_eq_getElem (by omega)]
  · right
    simp only [boundAt] at g1 g2
    obtain ⟨_, rfl⟩ := List.getElem?_eq_some_iff.1 hv
    obtain ⟨_, rfl⟩ := List.getElem?_eq_some_iff.1 g1
    obtain ⟨_, rfl⟩ := List.getElem?_eq_some_iff.1 g2
    exact ⟨g3, g4⟩

/-- the call goes through (the theorems above are not vacuous): bounds long enough, one decision
per gene, every `randint` answer inside its bounds -/
theorem uniform_int_total (individual : List Int) (low up : Bound) (ds : List (Option Int))
    (lo hi : List Int) (hlo : low.toSeq individual.length = some lo) (hhi : up.toSeq individual.length = some hi)
    (hlen : ds.length = individual.length)
    (hds : ∀ (k : Nat) v, ds[k]? = some (some v) → ∃ xl xu, lo[k]? = some xl ∧ hi[k]? = some xu ∧ xl ≤ v ∧ v ≤ xu) :
    (mutUniformInt individual low up ds).isSome = true := by
  unfold mutUniformInt
  simp only [hlo, hhi, hlen, if_true]
  apply mutUniformIntLoop_isSome
  · have h1 := (toSeq_get low _ lo hlo)
    have h2 := (toSeq_get up _ hi hhi)
    simp only [List.length_zip, List.length_range]
    by_cases h0 : individual.length = 0
    · omega
    · have := (h1 (individual.length - 1) (by omega)).1
      have := (h2 (individual.length - 1) (by omega)).1
      omega
  · intro k hk v hv
    obtain ⟨xl, xu, e1, e2, e3, e4⟩ := hds k v hv
    simp only [List.getElem_zip]
    obtain ⟨_, rfl⟩ := List.getElem?_eq_some_iff.1 e1
    obtain ⟨_, rfl⟩ := List.getElem?_eq_some_iff.1 e2
    exact ⟨e3, e4⟩

example : mutUniformInt [7, 7, 7] (.scalar 0) (.seq [1, 3, 5, 9]) [some 1, none, some 4] = some [1, 7, 4] := by decide
example : Bound.toSeq 3 (.scalar 0) = some [0, 0, 0] ∧ Bound.toSeq 3 (.seq [1, 3, 5, 9]) = some [1, 3, 5, 9] := by decide
example : mutUniformInt [7, 7, 7] (.scalar 0) (.seq [1, 3]) [none, none, none] = none := by decide
example : mutUniformInt [7, 7, 7] (.scalar 0) (.seq [1, 3, 5]) [none, some 4, none] = none := by decide

/-! ## In place: the model's convention

The three statements below only record how the model lifts a pure operator to objects (the
operator writes the one or two objects it was given and returns their ids): they hold for *every*
`f`, so they are facts about `inPlace1/2/ES`, not about DEAP.  That the real operators return the
very objects they were given, change them through item/slice assignment only and never rebind a
name to a copy (`ind1 = ind1[:]`) or replace a `strategy` object is NOT proved here: it is
checked on the real objects by the harness (`is`-identity of every returned object and of the
strategy attributes, contents read back from the argument objects) on every explored case. -/

/-- a crossover called on two different objects `o1`, `o2` returns `(o1, o2)`; afterwards these two
objects hold the children, and no other object was written -/
theorem in_place2 (f : List α → List α → List α × List α) (h : Heap α) (o1 o2 : Nat) (hne : o1 ≠ o2) :
    (inPlace2 f h o1 o2).1 = (o1, o2) ∧
    (inPlace2 f h o1 o2).2 o1 = (f (h o1) (h o2)).1 ∧
    (inPlace2 f h o1 o2).2 o2 = (f (h o1) (h o2)).2 ∧
    ∀ o, o ≠ o1 → o ≠ o2 → (inPlace2 f h o1 o2).2 o = h o := by
  refine ⟨rfl, ?_, ?_, ?_⟩
  · simp [inPlace2, Heap.write, hne]
  · simp [inPlace2, Heap.write]
  · intro o h1 h2; simp [inPlace2, Heap.write, h1, h2]

/-- a mutation returns the 1-tuple of the object it was given, which now holds the mutant -/
theorem in_place1 (f : List α → List α) (h : Heap α) (o : Nat) :
    (inPlace1 f h o).1 = o ∧ (inPlace1 f h o).2 o = f (h o) ∧ ∀ o', o' ≠ o → (inPlace1 f h o).2 o' = h o' := by
  refine ⟨rfl, by simp [inPlace1, Heap.write], ?_⟩
  intro o' h1; simp [inPlace1, Heap.write, h1]

/-- `cxESTwoPoint` returns its two arguments, whose `strategy` attributes are still the same two
list objects, now holding the crossed strategies -/
theorem in_place_es {σ : Type} (hg : Heap α) (hs : Heap σ) (o1 o2 s1 s2 pt1 pt2 : Nat) (hne : o1 ≠ o2) (hns : s1 ≠ s2) :
    let r := inPlaceES hg hs o1 o2 s1 s2 pt1 pt2
    let c := cxESTwoPoint ⟨hg o1, hs s1⟩ ⟨hg o2, hs s2⟩ pt1 pt2
    r.1 = (o1, o2) ∧ r.2.1 = (s1, s2) ∧
    r.2.2.1 o1 = c.1.genes ∧ r.2.2.1 o2 = c.2.genes ∧ r.2.2.2 s1 = c.1.strategy ∧ r.2.2.2 s2 = c.2.strategy ∧
    (∀ o, o ≠ o1 → o ≠ o2 → r.2.2.1 o = hg o) ∧ (∀ o, o ≠ s1 → o ≠ s2 → r.2.2.2 o = hs o) := by
  refine ⟨rfl, rfl, ?_, ?_, ?_, ?_, ?_, ?_⟩
  · simp [inPlaceES, Heap.write, hne]
  · simp [inPlaceES, Heap.write]
  · simp [inPlaceES, Heap.write, hns]
  · simp [inPlaceES, Heap.write]
  · intro o h1 h2; simp [inPlaceES, Heap.write, h1, h2]
  · intro o h1 h2; simp [inPlaceES, Heap.write, h1, h2]

example : (0 : Nat) ≠ 1 := by decide


/-! ## Representation: list / array.array (slices are copies) versus numpy.ndarray (slices are views)

`Core/Buffer.lean` models the individuals as buffers in a heap with the two slice disciplines,
`Core/CrossMutBuf.lean` re-expresses every operator over that interface as the Python code is
written (namespace `CrossMutBuf`).  Heap-level statements: the individuals are any two different
buffers `ind1 ≠ ind2` of any heap `h`; `Frame…` says what else is left alone.  `run2` / `run1` /
`runES` are the special case the driver executes (argument objects 0, 1 of a fresh heap). -/
section Repr
open Buffer C09B

/-! ### `copy` (list, array.array): every operator is the list model -/

/-- one-point crossover on two different list / array.array objects: the call completes, returns its
arguments, which now hold the children of the list model; no other existing object is written -/
theorem copy_refines_list_onepoint (ind1 ind2 : Nat) (hne : ind1 ≠ ind2) (h : Buffer.Heap α)
    (h1 : ind1 < h.next) (h2 : ind2 < h.next) (cx : Nat) :
    ∃ h', CrossMutBuf.cxOnePoint .copy ind1 ind2 cx h = .ok (ind1, ind2) h' ∧
      (h'.cell ind1, h'.cell ind2) = cxOnePoint (h.cell ind1) (h.cell ind2) cx ∧ Frame2A ind1 ind2 h h' :=
  onepoint_copy_sim ind1 ind2 hne h h1 h2 cx

theorem copy_refines_list_twopoint (ind1 ind2 : Nat) (hne : ind1 ≠ ind2) (h : Buffer.Heap α)
    (h1 : ind1 < h.next) (h2 : ind2 < h.next) (c1 c2 : Nat) :
    ∃ h', CrossMutBuf.cxTwoPoint .copy ind1 ind2 c1 c2 h = .ok (ind1, ind2) h' ∧
      (h'.cell ind1, h'.cell ind2) = cxTwoPoint (h.cell ind1) (h.cell ind2) c1 c2 ∧ Frame2A ind1 ind2 h h' :=
  twopoint_copy_sim ind1 ind2 hne h h1 h2 c1 c2

theorem copy_refines_list_messy (ind1 ind2 : Nat) (hne : ind1 ≠ ind2) (h : Buffer.Heap α)
    (h1 : ind1 < h.next) (h2 : ind2 < h.next) (c1 c2 : Nat) :
    ∃ h', CrossMutBuf.cxMessyOnePoint .copy ind1 ind2 c1 c2 h = .ok (ind1, ind2) h' ∧
      (h'.cell ind1, h'.cell ind2) = cxMessyOnePoint (h.cell ind1) (h.cell ind2) c1 c2 ∧ Frame2A ind1 ind2 h h' :=
  messy_copy_sim ind1 ind2 hne h h1 h2 c1 c2

/-- ES two-point crossover: individuals in one heap, their `strategy` objects in another -/
theorem copy_refines_list_es {σ : Type} (ind1 ind2 s1 s2 : Nat) (hne : ind1 ≠ ind2) (hns : s1 ≠ s2)
    (h : Buffer.Heap α × Buffer.Heap σ) (h1 : ind1 < h.1.next) (h2 : ind2 < h.1.next) (h3 : s1 < h.2.next) (h4 : s2 < h.2.next)
    (pt1 pt2 : Nat) :
    ∃ h', CrossMutBuf.cxESTwoPoint .copy .copy ind1 ind2 s1 s2 pt1 pt2 h = .ok (ind1, ind2) h' ∧
      ((⟨h'.1.cell ind1, h'.2.cell s1⟩ : ESInd α σ), (⟨h'.1.cell ind2, h'.2.cell s2⟩ : ESInd α σ))
        = cxESTwoPoint ⟨h.1.cell ind1, h.2.cell s1⟩ ⟨h.1.cell ind2, h.2.cell s2⟩ pt1 pt2 ∧
      Frame2A ind1 ind2 h.1 h'.1 ∧ Frame2A s1 s2 h.2 h'.2 :=
  es_copy_sim ind1 ind2 s1 s2 hne hns h h1 h2 h3 h4 pt1 pt2

theorem copy_refines_list_inversion (ind : Nat) (h : Buffer.Heap α) (hlt : ind < h.next) (i1 i2 : Nat) :
    ∃ h', CrossMutBuf.mutInversion .copy ind i1 i2 h = .ok ind h' ∧
      h'.cell ind = mutInversion (h.cell ind) i1 i2 ∧
      (∀ o, o < h.next → o ≠ ind → h'.cell o = h.cell o) ∧ h.next ≤ h'.next :=
  inversion_copy_sim ind h hlt i1 i2

example : (0 : Nat) ≠ 1 ∧ 0 < (heap2 [1, 2] [3, 4]).next ∧ 1 < (heap2 [1, 2] [3, 4]).next := by decide

/-! ### the item-wise operators: the same for EVERY backing

These operators reach the heap through `len`, `getItem`, `setItem` only, and a one-dimensional numpy
array hands out scalars: for every discipline `d` the run completes under the operator's guard and
computes the list model.  (The discipline parameter is not even used: see
`elementwise_repr_independent`.) -/

theorem refines_list_uniform (d : Disc) (ind1 ind2 : Nat) (hne : ind1 ≠ ind2) (ds : List Bool) (h : Buffer.Heap α) :
    ∃ h', CrossMutBuf.cxUniform d ind1 ind2 ds h = .ok (ind1, ind2) h' ∧
      (h'.cell ind1, h'.cell ind2) = cxUniform (h.cell ind1) (h.cell ind2) ds ∧ Frame2 ind1 ind2 h h' :=
  uniform_sim d ind1 ind2 hne ds h

/-- PMX: under the guard (`pmGenesOk`: the first `size` genes index the position tables; possible
cut points) no subscript fails — for permutations see `pm_guard` — and the children are the list
model's -/
theorem refines_list_pmx (d : Disc) (ind1 ind2 : Nat) (hne : ind1 ≠ ind2) (h : Buffer.Heap Nat) (c1 c2 : Nat)
    (hok : cxPartialyMatchedOk (h.cell ind1) (h.cell ind2) c1 c2) :
    ∃ h', CrossMutBuf.cxPartialyMatched d ind1 ind2 c1 c2 h = .ok (ind1, ind2) h' ∧
      (h'.cell ind1, h'.cell ind2) = cxPartialyMatched (h.cell ind1) (h.cell ind2) c1 c2 ∧ Frame2 ind1 ind2 h h' :=
  pmx_sim d ind1 ind2 hne h c1 c2 hok

theorem refines_list_upmx (d : Disc) (ind1 ind2 : Nat) (hne : ind1 ≠ ind2) (h : Buffer.Heap Nat) (ds : List Bool)
    (hg : pmGenesOk (h.cell ind1) (h.cell ind2)) :
    ∃ h', CrossMutBuf.cxUniformPartialyMatched d ind1 ind2 ds h = .ok (ind1, ind2) h' ∧
      (h'.cell ind1, h'.cell ind2) = cxUniformPartialyMatched (h.cell ind1) (h.cell ind2) ds ∧
      Frame2 ind1 ind2 h h' :=
  upmx_sim d ind1 ind2 hne h ds hg

/-- OX with its aliasing `temp1, temp2 = ind1, ind2`: reads and writes of the filling loop go to the same buffer -/
theorem refines_list_ox (d : Disc) (ind1 ind2 : Nat) (hne : ind1 ≠ ind2) (h : Buffer.Heap Nat) (a0 b0 : Nat)
    (hok : cxOrderedOk (h.cell ind1) (h.cell ind2) a0 b0) :
    ∃ h', CrossMutBuf.cxOrdered d ind1 ind2 a0 b0 h = .ok (ind1, ind2) h' ∧
      (h'.cell ind1, h'.cell ind2) = cxOrdered (h.cell ind1) (h.cell ind2) a0 b0 ∧ Frame2 ind1 ind2 h h' :=
  ox_sim d ind1 ind2 hne h a0 b0 hok

theorem refines_list_shuffle (d : Disc) (ind : Nat) (ds : List (Option Nat)) (h : Buffer.Heap α)
    (hok : mutShuffleIndexesOk (h.cell ind) ds) :
    ∃ h', CrossMutBuf.mutShuffleIndexes d ind ds h = .ok ind h' ∧
      mutShuffleIndexes (h.cell ind) ds = some (h'.cell ind) ∧ Frame1 ind h h' :=
  shuffle_sim d ind ds h hok

theorem refines_list_flip [PyNot α] (d : Disc) (ind : Nat) (ds : List Bool) (h : Buffer.Heap α) :
    ∃ h', CrossMutBuf.mutFlipBit d ind ds h = .ok ind h' ∧
      h'.cell ind = mutFlipBit (h.cell ind) ds ∧ Frame1 ind h h' :=
  flip_sim d ind ds h

/-- whenever the list model goes through (bounds long enough, possible draws), so does the buffer run -/
theorem refines_list_uniform_int (d : Disc) (ind : Nat) (low up : Bound) (ds : List (Option Int)) (h : Buffer.Heap Int)
    (out : List Int) (hm : mutUniformInt (h.cell ind) low up ds = some out) :
    ∃ h', CrossMutBuf.mutUniformInt d ind low up ds h = .ok ind h' ∧ h'.cell ind = out ∧ Frame1 ind h h' :=
  uniformInt_sim d ind low up ds h out hm

example : cxPartialyMatchedOk ((heap2 [2, 0, 1, 3] [3, 2, 1, 0]).cell 0) ((heap2 [2, 0, 1, 3] [3, 2, 1, 0]).cell 1) 4 1 := by decide
example : pmGenesOk ((heap2 [2, 0, 1] [0, 2, 1]).cell 0) ((heap2 [2, 0, 1] [0, 2, 1]).cell 1) := by decide
example : cxOrderedOk ((heap2 [0, 1, 2, 3, 4] [4, 3, 2, 1, 0]).cell 0) ((heap2 [0, 1, 2, 3, 4] [4, 3, 2, 1, 0]).cell 1) 3 1 := by decide
example : mutShuffleIndexesOk ((heap1 [0, 1, 2, 3]).cell 0) [some 2, none, some 0, none] := by decide
example : mutUniformInt ((heap1 [7, 7, 7]).cell 0) (.scalar 0) (.seq [1, 3, 5, 9]) [some 1, none, some 4] = some [1, 7, 4] := by decide

/-- the item-wise operators do not depend on the slice discipline at all: as functions of the heap,
the numpy (`view`) operator IS the list / array.array (`copy`) operator.  Hence every clause proved
for the list model holds for numpy-backed individuals too (`*_any_backing` below). -/
theorem elementwise_repr_independent (d : Disc) :
    (∀ (ind1 ind2 : Nat) (ds : List Bool),
      (CrossMutBuf.cxUniform d ind1 ind2 ds : M α (Nat × Nat)) = CrossMutBuf.cxUniform .copy ind1 ind2 ds) ∧
    (∀ ind1 ind2 c1 c2, CrossMutBuf.cxPartialyMatched d ind1 ind2 c1 c2 = CrossMutBuf.cxPartialyMatched .copy ind1 ind2 c1 c2) ∧
    (∀ ind1 ind2 ds, CrossMutBuf.cxUniformPartialyMatched d ind1 ind2 ds = CrossMutBuf.cxUniformPartialyMatched .copy ind1 ind2 ds) ∧
    (∀ ind1 ind2 a0 b0, CrossMutBuf.cxOrdered d ind1 ind2 a0 b0 = CrossMutBuf.cxOrdered .copy ind1 ind2 a0 b0) ∧
    (∀ (ind : Nat) (ds : List (Option Nat)),
      (CrossMutBuf.mutShuffleIndexes d ind ds : M α Nat) = CrossMutBuf.mutShuffleIndexes .copy ind ds) ∧
    (∀ [PyNot α] (ind : Nat) (ds : List Bool),
      (CrossMutBuf.mutFlipBit d ind ds : M α Nat) = CrossMutBuf.mutFlipBit .copy ind ds) ∧
    (∀ ind low up ds, CrossMutBuf.mutUniformInt d ind low up ds = CrossMutBuf.mutUniformInt .copy ind low up ds) :=
  ⟨fun _ _ _ => rfl, fun _ _ _ _ => rfl, fun _ _ _ => rfl, fun _ _ _ _ => rfl, fun _ _ => rfl, fun _ _ => rfl,
    fun _ _ _ _ => rfl⟩

/-- summary in the form the driver executes (argument objects 0 and 1 of a fresh heap): under the
`copy` discipline each buffer-level operator equals the list model, so every theorem of this file
about the list model is a theorem about list- and array.array-backed individuals.  (The item-wise
operators for every discipline `d`, in particular for `d = copy`.) -/
theorem copy_refines_list (d : Disc) :
    (∀ (l1 l2 : List α) cx, run2 (CrossMutBuf.cxOnePoint .copy 0 1 cx) l1 l2 = some (cxOnePoint l1 l2 cx)) ∧
    (∀ (l1 l2 : List α) c1 c2, run2 (CrossMutBuf.cxTwoPoint .copy 0 1 c1 c2) l1 l2 = some (cxTwoPoint l1 l2 c1 c2)) ∧
    (∀ (l1 l2 : List α) c1 c2, run2 (CrossMutBuf.cxTwoPoints .copy 0 1 c1 c2) l1 l2 = some (cxTwoPoints l1 l2 c1 c2)) ∧
    (∀ (l1 l2 : List α) c1 c2, run2 (CrossMutBuf.cxMessyOnePoint .copy 0 1 c1 c2) l1 l2 = some (cxMessyOnePoint l1 l2 c1 c2)) ∧
    (∀ (σ : Type) (i1 i2 : ESInd α σ) c1 c2,
      CrossMutBuf.runES .copy .copy i1.genes i1.strategy i2.genes i2.strategy c1 c2 = some (cxESTwoPoint i1 i2 c1 c2)) ∧
    (∀ (l1 l2 : List α) ds, run2 (CrossMutBuf.cxUniform d 0 1 ds) l1 l2 = some (cxUniform l1 l2 ds)) ∧
    (∀ l1 l2 c1 c2, cxPartialyMatchedOk l1 l2 c1 c2 →
      run2 (CrossMutBuf.cxPartialyMatched d 0 1 c1 c2) l1 l2 = some (cxPartialyMatched l1 l2 c1 c2)) ∧
    (∀ l1 l2 ds, pmGenesOk l1 l2 →
      run2 (CrossMutBuf.cxUniformPartialyMatched d 0 1 ds) l1 l2 = some (cxUniformPartialyMatched l1 l2 ds)) ∧
    (∀ l1 l2 a0 b0, cxOrderedOk l1 l2 a0 b0 →
      run2 (CrossMutBuf.cxOrdered d 0 1 a0 b0) l1 l2 = some (cxOrdered l1 l2 a0 b0)) ∧
    (∀ (l : List α) ds, mutShuffleIndexesOk l ds →
      (run1 (CrossMutBuf.mutShuffleIndexes d 0 ds) l) = mutShuffleIndexes l ds) ∧
    (∀ [PyNot α] (l : List α) ds, run1 (CrossMutBuf.mutFlipBit d 0 ds) l = some (mutFlipBit l ds)) ∧
    (∀ l low up ds out, mutUniformInt l low up ds = some out →
      run1 (CrossMutBuf.mutUniformInt d 0 low up ds) l = some out) ∧
    (∀ (l : List α) i1 i2, run1 (CrossMutBuf.mutInversion .copy 0 i1 i2) l = some (mutInversion l i1 i2)) := by
  have ne : (0 : Nat) ≠ 1 := by decide
  refine ⟨?_, ?_, ?_, ?_, ?_, ?_, ?_, ?_, ?_, ?_, ?_, ?_, ?_⟩
  · intro l1 l2 cx
    obtain ⟨h', e, c, _⟩ := onepoint_copy_sim 0 1 ne (heap2 l1 l2) (show 0 < 2 by omega) (show 1 < 2 by omega) cx
    rw [run2_of_ok e, c]; rfl
  · intro l1 l2 c1 c2
    obtain ⟨h', e, c, _⟩ := twopoint_copy_sim 0 1 ne (heap2 l1 l2) (show 0 < 2 by omega) (show 1 < 2 by omega) c1 c2
    rw [run2_of_ok e, c]; rfl
  · intro l1 l2 c1 c2
    obtain ⟨h', e, c, _⟩ := twopoint_copy_sim 0 1 ne (heap2 l1 l2) (show 0 < 2 by omega) (show 1 < 2 by omega) c1 c2
    show run2 (CrossMutBuf.cxTwoPoint .copy 0 1 c1 c2) l1 l2 = _
    rw [run2_of_ok e, c]; rfl
  · intro l1 l2 c1 c2
    obtain ⟨h', e, c, _⟩ := messy_copy_sim 0 1 ne (heap2 l1 l2) (show 0 < 2 by omega) (show 1 < 2 by omega) c1 c2
    rw [run2_of_ok e, c]; rfl
  · intro σ i1 i2 c1 c2
    obtain ⟨h', e, c, _⟩ := es_copy_sim 0 1 0 1 ne ne (heap2 i1.genes i2.genes, heap2 i1.strategy i2.strategy)
      (show 0 < 2 by omega) (show 1 < 2 by omega) (show 0 < 2 by omega) (show 1 < 2 by omega) c1 c2
    simp only [CrossMutBuf.runES, e]
    rw [c]; rfl
  · intro l1 l2 ds
    obtain ⟨h', e, c, _⟩ := uniform_sim d 0 1 ne ds (heap2 l1 l2)
    rw [run2_of_ok e, c]; rfl
  · intro l1 l2 c1 c2 hok
    obtain ⟨h', e, c, _⟩ := pmx_sim d 0 1 ne (heap2 l1 l2) c1 c2 hok
    rw [run2_of_ok e, c]; rfl
  · intro l1 l2 ds hok
    obtain ⟨h', e, c, _⟩ := upmx_sim d 0 1 ne (heap2 l1 l2) ds hok
    rw [run2_of_ok e, c]; rfl
  · intro l1 l2 a0 b0 hok
    obtain ⟨h', e, c, _⟩ := ox_sim d 0 1 ne (heap2 l1 l2) a0 b0 hok
    rw [run2_of_ok e, c]; rfl
  · intro l ds hok
    obtain ⟨h', e, c, _⟩ := shuffle_sim d 0 ds (heap1 l) hok
    rw [run1_of_ok e]; exact c.symm
  · intro _ l ds
    obtain ⟨h', e, c, _⟩ := flip_sim d 0 ds (heap1 l)
    rw [run1_of_ok e, c]; rfl
  · intro l low up ds out hm
    obtain ⟨h', e, c, _⟩ := uniformInt_sim d 0 low up ds (heap1 l) out hm
    rw [run1_of_ok e, c]
  · intro l i1 i2
    obtain ⟨h', e, c, _⟩ := inversion_copy_sim 0 (heap1 l) (show 0 < 1 by omega) i1 i2
    rw [run1_of_ok e, c]; rfl

/-! ### `view` (numpy.ndarray): the slice-swapping crossovers lose genes, the inversion does not -/

/-- `mutInversion` slices, but is representation independent all the same: under the guard (draws of
`randrange(size)`) the numpy run and the list / array.array run both complete and leave the list
model's mutant in the individual.  (`individual[start:end][::-1]` is a reversed window onto the
individual itself; numpy's slice assignment reads an overlapping right-hand side completely before
writing.) -/
theorem inversion_repr_independent (ind : Nat) (h : Buffer.Heap α) (hlt : ind < h.next) (i1 i2 : Nat)
    (hok : mutInversionOk (h.cell ind) i1 i2) :
    ∃ hv hc, CrossMutBuf.mutInversion .view ind i1 i2 h = .ok ind hv ∧
      CrossMutBuf.mutInversion .copy ind i1 i2 h = .ok ind hc ∧
      hv.cell ind = hc.cell ind ∧ hv.cell ind = mutInversion (h.cell ind) i1 i2 ∧
      (∀ o, o ≠ ind → hv.cell o = h.cell o) ∧ hv.next = h.next := by
  obtain ⟨hv, ev, cv, fv, nv⟩ := inversion_view_sim ind h i1 i2 hok
  obtain ⟨hc, ec, cc, _⟩ := inversion_copy_sim ind h hlt i1 i2
  exact ⟨hv, hc, ev, ec, by rw [cv, cc], cv, fv, nv⟩

example : mutInversionOk ((heap1 [0, 1, 2, 3, 4]).cell 0) 3 1 ∧ 0 < (heap1 [0, 1, 2, 3, 4]).next := by decide
example : run1 (CrossMutBuf.mutInversion (α := Nat) .view 0 3 1) [0, 1, 2, 3, 4] = some [0, 2, 1, 3, 4] := by decide

/-- the two-point crossover on numpy-backed individuals, for every pair of parents and every possible
pair of draws: the call completes, child 1 is the child the list model computes, and child 2 is
STILL PARENT 2 — the segment of parent 1 is gone (`doc/tutorials/advanced/numpy.rst`) -/
theorem twopoint_view_exact (ind1 ind2 : Nat) (hne : ind1 ≠ ind2) (h : Buffer.Heap α) (c1 c2 : Nat)
    (hok : cxTwoPointOk (h.cell ind1) (h.cell ind2) c1 c2) :
    ∃ h', CrossMutBuf.cxTwoPoint .view ind1 ind2 c1 c2 h = .ok (ind1, ind2) h' ∧
      h'.cell ind1 = (cxTwoPoint (h.cell ind1) (h.cell ind2) c1 c2).1 ∧ h'.cell ind2 = h.cell ind2 ∧
      Frame2 ind1 ind2 h h' :=
  twopoint_view_sim ind1 ind2 hne h c1 c2 hok

/-- likewise the one-point crossover on numpy-backed individuals of equal length -/
theorem onepoint_view_exact (ind1 ind2 : Nat) (hne : ind1 ≠ ind2) (h : Buffer.Heap α) (cx : Nat)
    (hlen : (h.cell ind1).length = (h.cell ind2).length) :
    ∃ h', CrossMutBuf.cxOnePoint .view ind1 ind2 cx h = .ok (ind1, ind2) h' ∧
      h'.cell ind1 = (cxOnePoint (h.cell ind1) (h.cell ind2) cx).1 ∧ h'.cell ind2 = h.cell ind2 ∧
      Frame2 ind1 ind2 h h' :=
  onepoint_view_sim ind1 ind2 hne h cx hlen

/-- and the strategy-carrying variant with numpy individuals and numpy strategies: individual 2 keeps
its genes and its strategy -/
theorem es_view_exact {σ : Type} (ind1 ind2 s1 s2 : Nat) (hne : ind1 ≠ ind2) (hns : s1 ≠ s2)
    (h : Buffer.Heap α × Buffer.Heap σ) (pt1 pt2 : Nat)
    (hok : cxTwoPointOk (h.1.cell ind1) (h.1.cell ind2) pt1 pt2)
    (hl1 : (h.1.cell ind1).length = (h.2.cell s1).length) (hl2 : (h.1.cell ind2).length = (h.2.cell s2).length) :
    ∃ h', CrossMutBuf.cxESTwoPoint .view .view ind1 ind2 s1 s2 pt1 pt2 h = .ok (ind1, ind2) h' ∧
      (⟨h'.1.cell ind1, h'.2.cell s1⟩ : ESInd α σ)
        = (cxESTwoPoint ⟨h.1.cell ind1, h.2.cell s1⟩ ⟨h.1.cell ind2, h.2.cell s2⟩ pt1 pt2).1 ∧
      h'.1.cell ind2 = h.1.cell ind2 ∧ h'.2.cell s2 = h.2.cell s2 ∧
      Frame2 ind1 ind2 h.1 h'.1 ∧ Frame2 s1 s2 h.2 h'.2 :=
  es_view_sim ind1 ind2 s1 s2 hne hns h pt1 pt2 hok hl1 hl2

example : cxTwoPointOk ((heap2 [1, 2, 3, 4] [5, 6, 7, 8]).cell 0) ((heap2 [1, 2, 3, 4] [5, 6, 7, 8]).cell 1) 1 2 := by decide
example : ((heap2 [1, 2] [3, 4]).cell 0).length = ((heap2 [1, 2] [3, 4]).cell 1).length := by decide
example : cxTwoPointOk ((heap2 [1, 2, 3] [4, 5, 6], heap2 [10, 20, 30] [40, 50, 60]).1.cell 0)
      ((heap2 [1, 2, 3] [4, 5, 6], heap2 [10, 20, 30] [40, 50, 60]).1.cell 1) 1 1 ∧
    ((heap2 [1, 2, 3] [4, 5, 6], heap2 [10, 20, 30] [40, 50, 60]).1.cell 0).length
      = ((heap2 [1, 2, 3] [4, 5, 6], heap2 [10, 20, 30] [40, 50, 60]).2.cell 0).length := by decide

/-- the boundary, exactly: on numpy-backed parents the two-point crossover conserves the combined
multiset of genes iff the two exchanged segments happen to hold the same genes -/
theorem twopoint_view_conserves_iff [DecidableEq α] (ind1 ind2 : Nat) (hne : ind1 ≠ ind2) (h h' : Buffer.Heap α)
    (c1 c2 : Nat) (hok : cxTwoPointOk (h.cell ind1) (h.cell ind2) c1 c2) (r : Nat × Nat)
    (hrun : CrossMutBuf.cxTwoPoint .view ind1 ind2 c1 c2 h = .ok r h') :
    (h'.cell ind1 ++ h'.cell ind2).Perm (h.cell ind1 ++ h.cell ind2) ↔
      (pySlice (h.cell ind2) (normCx c1 c2).1 (normCx c1 c2).2).Perm
        (pySlice (h.cell ind1) (normCx c1 c2).1 (normCx c1 c2).2) := by
  obtain ⟨h'', e, k1, k2, _⟩ := twopoint_view_sim ind1 ind2 hne h c1 c2 hok
  have : h'' = h' := by
    rw [e] at hrun
    cases hrun; rfl
  subst this
  obtain ⟨g1, g2, g3, g4⟩ := hok
  have hn := normCx_spec c1 c2 _ g1 g2 g3 g4
  rw [k1, k2]
  simp only [cxTwoPoint, CrossMut.sliceAssign, pySlice]
  generalize normCx c1 c2 = c at hn
  rw [show max c.1 c.2 = c.2 by omega]
  rw [List.perm_iff_count, List.perm_iff_count]
  have sp := fun z => congrArg (List.count z) (split3 (h.cell ind1) c.1 c.2 (by omega))
  constructor
  · intro hh z
    have := hh z; have := sp z
    simp only [List.count_append] at *
    omega
  · intro hh z
    have := hh z; have := sp z
    simp only [List.count_append] at *
    omega

example : ∃ r h', CrossMutBuf.cxTwoPoint .view 0 1 1 2 (heap2 [1, 2, 3, 4] [5, 6, 7, 8]) = .ok r h' := by
  obtain ⟨h', e, _⟩ := twopoint_view_exact 0 1 (by decide) (heap2 [1, 2, 3, 4] [5, 6, 7, 8]) 1 2 (by decide)
  exact ⟨_, h', e⟩

/-- concrete witnesses inside every guard: under the `view` discipline the slice-swapping crossovers
do NOT conserve the combined multiset of genes (equal lengths: the second child is the unchanged
second parent), and for parents of different lengths the one-point and the messy crossover raise
numpy's `ValueError` (no broadcast) — after the first store already changed the first parent.  The
documented restriction (numpy.rst: re-implement these operators with explicit copies) is exactly
the boundary: the positive statements `*_multiset`, `*_locus`, `es_pairs*` are claimed for the
`copy` discipline only (`copy_refines_list`), the item-wise operators and the inversion for both. -/
theorem slice_swap_view_loses_genes :
    -- cxOnePoint
    (cxOnePointOk [1, 2] [3, 4] 1 ∧
      run2 (CrossMutBuf.cxOnePoint .view 0 1 1) [1, 2] [3, 4] = some ([1, 4], [3, 4]) ∧
      ¬ ([1, 4] ++ [3, 4]).Perm ([1, 2] ++ [3, 4])) ∧
    (cxOnePointOk [1, 2, 3] [4, 5] 1 ∧ run2 (CrossMutBuf.cxOnePoint .view 0 1 1) [1, 2, 3] [4, 5] = none) ∧
    -- cxTwoPoint (the example of numpy.rst: `a[1:3], b[1:3] = b[1:3], a[1:3]`)
    (cxTwoPointOk [1, 2, 3, 4] [5, 6, 7, 8] 1 2 ∧
      run2 (CrossMutBuf.cxTwoPoint .view 0 1 1 2) [1, 2, 3, 4] [5, 6, 7, 8] = some ([1, 6, 7, 4], [5, 6, 7, 8]) ∧
      ¬ ([1, 6, 7, 4] ++ [5, 6, 7, 8]).Perm ([1, 2, 3, 4] ++ [5, 6, 7, 8])) ∧
    -- cxMessyOnePoint
    (cxMessyOnePointOk [1, 2] [3, 4] 1 1 ∧
      run2 (CrossMutBuf.cxMessyOnePoint .view 0 1 1 1) [1, 2] [3, 4] = some ([1, 4], [3, 4]) ∧
      ¬ ([1, 4] ++ [3, 4]).Perm ([1, 2] ++ [3, 4])) ∧
    (cxMessyOnePointOk [1, 2, 3] [4, 5] 0 1 ∧ run2 (CrossMutBuf.cxMessyOnePoint .view 0 1 0 1) [1, 2, 3] [4, 5] = none) ∧
    -- cxESTwoPoint: the (gene, strategy) pairs of the first parent's segment are lost
    (cxESTwoPointOk (⟨[1, 2, 3], [10, 20, 30]⟩ : ESInd Nat Nat) ⟨[4, 5, 6], [40, 50, 60]⟩ 1 1 ∧
      CrossMutBuf.runES .view .view [1, 2, 3] [10, 20, 30] [4, 5, 6] [40, 50, 60] 1 1
        = some (⟨[1, 5, 3], [10, 50, 30]⟩, ⟨[4, 5, 6], [40, 50, 60]⟩) ∧
      ¬ (List.zip [1, 5, 3] [10, 50, 30] ++ List.zip [4, 5, 6] [40, 50, 60]).Perm
          (List.zip [1, 2, 3] [10, 20, 30] ++ List.zip [4, 5, 6] [40, 50, 60])) ∧
    -- numpy individuals with list strategies: gene and strategy value no longer travel together
    (CrossMutBuf.runES .view .copy [1, 2, 3] [10, 20, 30] [4, 5, 6] [40, 50, 60] 1 1
        = some (⟨[1, 5, 3], [10, 50, 30]⟩, ⟨[4, 5, 6], [40, 20, 60]⟩)) ∧
    -- the same inputs under `copy`
    (run2 (CrossMutBuf.cxTwoPoint .copy 0 1 1 2) [1, 2, 3, 4] [5, 6, 7, 8] = some ([1, 6, 7, 4], [5, 2, 3, 8])) := by
  decide

/-! ### the clauses of the property for every backing (list, array.array, numpy.ndarray) -/

/-- uniform crossover: the call completes and multiset, loci and lengths are conserved -/
theorem uniform_any_backing [DecidableEq α] (d : Disc) (l1 l2 : List α) (ds : List Bool) :
    ∃ c, run2 (CrossMutBuf.cxUniform d 0 1 ds) l1 l2 = some c ∧ (c.1 ++ c.2).Perm (l1 ++ l2) ∧
      Locus c (l1, l2) ∧ c.1.length = l1.length ∧ c.2.length = l2.length := by
  obtain ⟨h', e, c, _⟩ := uniform_sim d 0 1 (by decide) ds (heap2 l1 l2)
  refine ⟨_, run2_of_ok e, ?_⟩
  rw [c]
  exact ⟨uniform_multiset l1 l2 ds, uniform_locus l1 l2 ds, uniform_lengths l1 l2 ds⟩

theorem pmx_any_backing (d : Disc) (n : Nat) (l1 l2 : List Nat) (c1 c2 : Nat)
    (h1 : l1.Perm (List.range n)) (h2 : l2.Perm (List.range n)) (hc : cxPartialyMatchedOk l1 l2 c1 c2) :
    ∃ c, run2 (CrossMutBuf.cxPartialyMatched d 0 1 c1 c2) l1 l2 = some c ∧
      c.1.Perm (List.range n) ∧ c.2.Perm (List.range n) := by
  obtain ⟨h', e, c, _⟩ := pmx_sim d 0 1 (by decide) (heap2 l1 l2) c1 c2 hc
  refine ⟨_, run2_of_ok e, ?_⟩
  rw [c]
  exact pmx_perm n l1 l2 c1 c2 h1 h2 hc

theorem upmx_any_backing (d : Disc) (n : Nat) (l1 l2 : List Nat) (ds : List Bool)
    (h1 : l1.Perm (List.range n)) (h2 : l2.Perm (List.range n)) :
    ∃ c, run2 (CrossMutBuf.cxUniformPartialyMatched d 0 1 ds) l1 l2 = some c ∧
      c.1.Perm (List.range n) ∧ c.2.Perm (List.range n) := by
  obtain ⟨h', e, c, _⟩ := upmx_sim d 0 1 (by decide) (heap2 l1 l2) ds (pm_guard n l1 l2 h1 h2)
  refine ⟨_, run2_of_ok e, ?_⟩
  rw [c]
  exact upmx_perm n l1 l2 ds h1 h2

theorem ox_any_backing (d : Disc) (n : Nat) (l1 l2 : List Nat) (a0 b0 : Nat)
    (h1 : l1.Perm (List.range n)) (h2 : l2.Perm (List.range n)) (hc : cxOrderedOk l1 l2 a0 b0) :
    ∃ c, run2 (CrossMutBuf.cxOrdered d 0 1 a0 b0) l1 l2 = some c ∧
      c.1.Perm (List.range n) ∧ c.2.Perm (List.range n) := by
  obtain ⟨h', e, c, _⟩ := ox_sim d 0 1 (by decide) (heap2 l1 l2) a0 b0 hc
  refine ⟨_, run2_of_ok e, ?_⟩
  rw [c]
  exact ox_perm n l1 l2 a0 b0 h1 h2 hc

theorem shuffle_any_backing [DecidableEq α] (d : Disc) (l : List α) (ds : List (Option Nat))
    (hok : mutShuffleIndexesOk l ds) :
    ∃ out, run1 (CrossMutBuf.mutShuffleIndexes d 0 ds) l = some out ∧ out.Perm l ∧ out.length = l.length := by
  obtain ⟨h', e, c, _⟩ := shuffle_sim d 0 ds (heap1 l) hok
  exact ⟨_, run1_of_ok e, shuffle_perm l _ ds c⟩

/-- inversion: for both disciplines (it slices, but see `inversion_repr_independent`) -/
theorem inversion_any_backing [DecidableEq α] (d : Disc) (l : List α) (i1 i2 : Nat) (hok : mutInversionOk l i1 i2) :
    ∃ out, run1 (CrossMutBuf.mutInversion d 0 i1 i2) l = some out ∧ out.Perm l := by
  cases d with
  | copy =>
    obtain ⟨h', e, c, _⟩ := inversion_copy_sim 0 (heap1 l) (show 0 < 1 by omega) i1 i2
    refine ⟨_, run1_of_ok e, ?_⟩
    rw [c]; exact inversion_perm l i1 i2
  | view =>
    obtain ⟨h', e, c, _⟩ := inversion_view_sim 0 (heap1 l) i1 i2 hok
    refine ⟨_, run1_of_ok e, ?_⟩
    rw [c]; exact inversion_perm l i1 i2

theorem flip_any_backing [PyNot α] (d : Disc) (l : List α) (ds : List Bool) (hok : mutFlipBitOk l ds) :
    ∃ out, run1 (CrossMutBuf.mutFlipBit d 0 ds) l = some out ∧ out.length = l.length ∧
      ∀ j (hj : j < l.length), out[j]? = some l[j] ∨ out[j]? = some (PyNot.pyNot l[j]) := by
  obtain ⟨h', e, c, _⟩ := flip_sim d 0 ds (heap1 l)
  refine ⟨_, run1_of_ok e, ?_⟩
  rw [c]
  exact ⟨flip_length l ds, fun j hj => flip_complement l ds hok j hj⟩

theorem uniform_int_any_backing (d : Disc) (l : List Int) (low up : Bound) (ds : List (Option Int)) (out : List Int)
    (hm : mutUniformInt l low up ds = some out) :
    run1 (CrossMutBuf.mutUniformInt d 0 low up ds) l = some out ∧ out.length = l.length ∧
    ∀ i (hi : i < l.length), out[i]? = some l[i] ∨
      ∃ v xl xu, out[i]? = some v ∧ boundAt low i = some xl ∧ boundAt up i = some xu ∧ xl ≤ v ∧ v ≤ xu := by
  obtain ⟨h', e, c, _⟩ := uniformInt_sim d 0 low up ds (heap1 l) out hm
  refine ⟨by rw [run1_of_ok e, c], ?_⟩
  exact uniform_int_bounds l low up ds out hm

example : [2, 0, 1, 3].Perm (List.range 4) ∧ [3, 2, 1, 0].Perm (List.range 4) ∧ cxPartialyMatchedOk [2, 0, 1, 3] [3, 2, 1, 0] 4 1 := by decide
example : run2 (CrossMutBuf.cxPartialyMatched .view 0 1 4 1) [2, 0, 1, 3] [3, 2, 1, 0] = some ([0, 3, 1, 2], [2, 0, 1, 3]) := by decide
example : cxOrderedOk [0, 1, 2, 3, 4] [4, 3, 2, 1, 0] 3 1 := by decide
example : run2 (CrossMutBuf.cxOrdered .view 0 1 3 1) [0, 1, 2, 3, 4] [4, 3, 2, 1, 0] = some ([0, 3, 2, 1, 4], [4, 1, 2, 3, 0]) := by decide
example : mutShuffleIndexesOk [0, 1, 2, 3] [some 2, none, some 0, none] := by decide
example : mutFlipBitOk [1, 0, (1 : Int)] [true, true, false] := by decide
example : run1 (CrossMutBuf.mutFlipBit .view 0 [true, true, false]) [1, 0, (1 : Int)] = some [0, 1, 1] := by decide
example : mutUniformInt [7, 7, 7] (.scalar 0) (.seq [1, 3, 5, 9]) [some 1, none, some 4] = some [1, 7, 4] := by decide

end Repr

/-! ## Histories: the operators are functions of (their arguments NOW, the draws) only

`OpHistory` (`Core/CrossMutBuf.lean`) is a process in which operators are called one after the other on
objects the caller keeps, reuses and edits in place (`storeP/G/S`), some calls raising midway and leaving
the heap as the exception left it, some being refused before they touch anything.  Its state is nothing but
the heaps of the caller's objects.  `C09H.Valid st e` are the hypotheses of the statement for the call `e`,
read on the contents the objects have in `st`; `C09H.Post st ret st' e` says that the arguments hold what
the list model (for which all the theorems above are proved) computes from the contents they had in `st`,
that the objects returned are the arguments, and that every other object of the caller is untouched. -/
section Histories
open Buffer OpHistory C09H

/-- Whatever happened before in the process — any number of calls of any operators, completed or aborted by
an exception (the heap is then in the partial state the copy/view model predicts), refused calls, the caller
overwriting individuals or bound lists in place — a call whose arguments meet the hypotheses NOW completes,
returns its arguments, and leaves in them exactly what the list model computes from their current contents
(for `mutUniformInt`: from the contents the bound objects have now).  Nothing a module could remember from
earlier calls (bounds memoised by object identity, hole markers left dirty by an aborted call) is an input. -/
theorem op_result_history_independent (hist : List Event) (s0 : State) (e : Event) (hv : Valid (run hist s0) e) :
    ∃ ret st', step (run hist s0) e = (.ok ret, st') ∧ Post (run hist s0) ret st' e :=
  call_determined (run hist s0) e hv

-- hypotheses satisfiable: an aborted `cxOrdered` (a tour numbered 1..5: IndexError midway) followed by a valid one
example : Valid (run [.newP [3, 1, 2, 0, 4], .newP [2, 3, 5, 4, 1], .newP [1, 2, 4, 3, 0], .ox .copy 0 1 1 3] init)
    (.ox .copy 0 2 2 4) := by
  show (0 : Nat) ≠ 2 ∧ cxOrderedOk _ _ 2 4
  decide
example : (step (run [.newP [3, 1, 2, 0, 4], .newP [2, 3, 5, 4, 1], .newP [1, 2, 4, 3, 0]] init) (.ox .copy 0 1 1 3)).1
    = .raise .index := by decide

/-- two processes with different pasts: if the two parents hold the same permutations now, `cxOrdered` leaves
the same children (which `ox_perm` shows to be permutations) -/
theorem ox_result_depends_on_current_contents_only (hist1 hist2 : List Event) (s1 s2 : State) (d1 d2 : Disc)
    (i1 i2 j1 j2 a b : Nat) (hi : i1 ≠ i2) (hj : j1 ≠ j2)
    (e1 : (run hist1 s1).perm.cell i1 = (run hist2 s2).perm.cell j1)
    (e2 : (run hist1 s1).perm.cell i2 = (run hist2 s2).perm.cell j2)
    (hok : cxOrderedOk ((run hist1 s1).perm.cell i1) ((run hist1 s1).perm.cell i2) a b) :
    ∃ t1 t2, step (run hist1 s1) (.ox d1 i1 i2 a b) = (.ok [i1, i2], t1) ∧
      step (run hist2 s2) (.ox d2 j1 j2 a b) = (.ok [j1, j2], t2) ∧
      t1.perm.cell i1 = t2.perm.cell j1 ∧ t1.perm.cell i2 = t2.perm.cell j2 := by
  have hok2 : cxOrderedOk ((run hist2 s2).perm.cell j1) ((run hist2 s2).perm.cell j2) a b := by rw [← e1, ← e2]; exact hok
  obtain ⟨r1, t1, q1, p1⟩ := call_determined (run hist1 s1) (.ox d1 i1 i2 a b) ⟨hi, hok⟩
  obtain ⟨r2, t2, q2, p2⟩ := call_determined (run hist2 s2) (.ox d2 j1 j2 a b) ⟨hj, hok2⟩
  obtain ⟨rfl, c1, _⟩ := p1
  obtain ⟨rfl, c2, _⟩ := p2
  refine ⟨t1, t2, q1, q2, ?_, ?_⟩
  · have := congrArg Prod.fst c1; have h2 := congrArg Prod.fst c2; simp only at this h2; rw [this, h2, e1, e2]
  · have := congrArg Prod.snd c1; have h2 := congrArg Prod.snd c2; simp only at this h2; rw [this, h2, e1, e2]

example : (0 : Nat) ≠ 1 ∧ cxOrderedOk ((run [.newP [0, 1, 2, 3, 4], .newP [4, 3, 2, 1, 0]] init).perm.cell 0)
    ((run [.newP [0, 1, 2, 3, 4], .newP [4, 3, 2, 1, 0]] init).perm.cell 1) 3 1 := by decide

/-- the bounds of `mutUniformInt` are read when the call is made: after the caller has overwritten the bound
objects `lo`, `hi` (in place, same objects as in every earlier call), the mutant is what the list model
computes from the NEW bounds — so its changed genes lie inside them (`uniform_int_bounds`) -/
theorem uniform_int_reads_bounds_at_call_time (hist : List Event) (s0 : State) (d : Disc) (i lo hi : Nat)
    (vlo vhi : List Int) (ds : List (Option Int)) (hne : lo ≠ hi) (hil : i ≠ lo) (hih : i ≠ hi) (out : List Int)
    (hm : mutUniformInt ((run hist s0).gene.cell i) (.seq vlo) (.seq vhi) ds = some out) :
    ∃ st', step (run (hist ++ [.storeG lo vlo, .storeG hi vhi]) s0) (.uniformint d i (.obj lo) (.obj hi) ds)
        = (.ok [i], st') ∧ st'.gene.cell i = out := by
  have hl : (run (hist ++ [.storeG lo vlo, .storeG hi vhi]) s0).gene.cell lo = vlo := by
    rw [run_append]; simp [run, step, Buffer.Heap.write, hne]
  have hh : (run (hist ++ [.storeG lo vlo, .storeG hi vhi]) s0).gene.cell hi = vhi := by
    rw [run_append]; simp [run, step, Buffer.Heap.write]
  have hc : (run (hist ++ [.storeG lo vlo, .storeG hi vhi]) s0).gene.cell i = (run hist s0).gene.cell i := by
    rw [run_append]; simp [run, step, Buffer.Heap.write, hil, hih]
  have hv : Valid (run (hist ++ [.storeG lo vlo, .storeG hi vhi]) s0) (.uniformint d i (.obj lo) (.obj hi) ds) :=
    ⟨out, by simp only [BRef.now]; rw [hl, hh, hc]; exact hm⟩
  obtain ⟨ret, st', q, p⟩ := call_determined _ _ hv
  obtain ⟨rfl, c, _⟩ := p
  refine ⟨st', q, ?_⟩
  simp only [BRef.now] at c; rw [hl, hh, hc, hm] at c
  exact (Option.some.inj c).symm

example : mutUniformInt ((run [.newG [6, 3, 6, 5], .newG [0, 0, 0, 0], .newG [9, 9, 9, 9],
      .uniformint .copy 0 (.obj 1) (.obj 2) [some 1, none, some 7, none]] init).gene.cell 0)
    (.seq [66, -52, 25, 61]) (.seq [69, -52, 28, 61]) [some 67, some (-52), none, some 61] = some [67, -52, 7, 61] := by decide

end Histories

end C09
