/-
C15 — Hypervolume is the exact dominated volume; the indicator finds the least contributor.
Property theorems only.  Model: `DeapModel/Core/Hypervolume.lean` (a SPECIFICATION-level model: the
dimension-sweep implementations `_hv.c` / `pyhv.py` are validated against it by the correspondence
run, they are not verified).  Lemmas: `DeapModel/Lemmas/C15Grid.lean` (grid refinement, discrete
Fubini, inclusion–exclusion), `C15Measure.lean` (Lebesgue measure), `C15Wrap.lean` (wrappers).

Reading of the objects: a point is a `List ℚ`, its `j`-th coordinate is `p.getD j 0`; the dimension is
`ref.length`; minimisation is implicit, the box of `p` is `∏ⱼ [pⱼ, refⱼ)`.
-/
import DeapModel.Lemmas.C15Wrap
import DeapModel.Lemmas.C15Measure
import DeapModel.Lemmas.C15Sweep2d
import DeapModel.Lemmas.C15Sweep3d
import DeapModel.Lemmas.C15Gen7
import DeapModel.Lemmas.C15HvCTop
import DeapModel.Lemmas.C15HvCSearch
import DeapModel.Lemmas.C15HvCFinal

namespace C15
open Hypervolume MeasureTheory

/-! ### The specification is the Lebesgue measure of the union of the boxes (every dimension) -/

/-- **`hvCells` is the dominated volume**: for every reference point, every dimension `d = ref.length`
and every finite list of points, the Lebesgue measure on `ℝ^d` of `⋃ₚ ∏ⱼ [pⱼ, refⱼ)` equals the
finite cell sum `hvCells ref pts`.  (No hypothesis: a point beyond the reference in some coordinate
has an empty box on both sides.) -/
theorem hvCells_eq_volume (ref : List ℚ) (pts : List Pt) :
    volume (⋃ p ∈ pts, Set.pi Set.univ
        (fun j : Fin ref.length => Set.Ico (((p.getD j 0 : ℚ)) : ℝ) (((ref.getD j 0 : ℚ)) : ℝ)))
      = ENNReal.ofReal ((hvCells ref pts : ℚ) : ℝ) :=
  volume_unionBoxes ref pts.length pts (le_refl _)

/-- **Discrete Fubini**: the executable slicing recursion (the reference the implementations are
diffed against) computes the specification — so it inherits every statement below. -/
theorem hvSlice_eq_hvCells (ref : List ℚ) (pts : List Pt) : hvSlice ref pts = hvCells ref pts :=
  hvSlice_eq_hvCells' ref pts

/-- The executable definition is the Lebesgue measure of the union of the boxes. -/
theorem hvSlice_eq_volume (ref : List ℚ) (pts : List Pt) :
    volume (⋃ p ∈ pts, Set.pi Set.univ
        (fun j : Fin ref.length => Set.Ico (((p.getD j 0 : ℚ)) : ℝ) (((ref.getD j 0 : ℚ)) : ℝ)))
      = ENNReal.ofReal ((hvSlice ref pts : ℚ) : ℝ) := by
  rw [hvSlice_eq_hvCells]; exact hvCells_eq_volume ref pts

/-! ### Invariances: order, duplicates, dominated points, boundary points, monotonicity -/

/-- The hypervolume depends only on the *set* of points. -/
theorem hvCells_set (ref : List ℚ) (S T : List Pt) (h : ∀ p, p ∈ S ↔ p ∈ T) : hvCells ref S = hvCells ref T :=
  hvCells_of_mem_iff ref S T h

example : ∀ p : Pt, p ∈ [[1, 2], [2, 1], [1, 2]] ↔ p ∈ [[2, 1], [1, 2]] := by
  intro p; simp only [List.mem_cons, List.not_mem_nil, or_false]; tauto

/-- Permutation invariance. -/
theorem hvCells_perm (ref : List ℚ) (S T : List Pt) (h : S.Perm T) : hvCells ref S = hvCells ref T :=
  hvCells_of_mem_iff ref S T (fun _ => h.mem_iff)

example : ([[1, 2], [2, 1], [0, 3]] : List Pt).Perm [[0, 3], [1, 2], [2, 1]] := by decide

/-- A duplicate changes nothing. -/
theorem hvCells_dup (ref : List ℚ) (S : List Pt) (p : Pt) (h : p ∈ S) : hvCells ref (p :: S) = hvCells ref S :=
  hvCells_of_mem_iff ref _ _ (fun q => by simp only [List.mem_cons]; constructor
                                          · rintro (rfl | hq); exact h; exact hq
                                          · exact Or.inr)

example : ([1, 2] : Pt) ∈ ([[2, 1], [1, 2]] : List Pt) := by simp

/-- Adding a point weakly dominated by a member changes nothing. -/
theorem hvCells_dominated (ref : List ℚ) (S : List Pt) (p q : Pt) (hp : p ∈ S)
    (hd : ∀ j < ref.length, p.getD j 0 ≤ q.getD j 0) : hvCells ref (q :: S) = hvCells ref S :=
  hvCells_dominated' ref S p q hp ((dom_iff ref p q).mpr hd)

example : ∀ j < ([4, 4] : List ℚ).length, ([1, 2] : Pt).getD j 0 ≤ ([1, 3] : Pt).getD j 0 := by
  intro j hj
  have : j = 0 ∨ j = 1 := by simp at hj; omega
  rcases this with rfl | rfl <;> norm_num

/-- A point with a coordinate equal to (or beyond) the reference contributes nothing. -/
theorem hvCells_boundary (ref : List ℚ) (S : List Pt) (q : Pt)
    (hb : ∃ j < ref.length, ref.getD j 0 ≤ q.getD j 0) : hvCells ref (q :: S) = hvCells ref S :=
  hvCells_boundary' ref S q ((onBoundary_iff ref q).mpr hb)

example : ∃ j < ([4, 4] : List ℚ).length, ([4, 4] : List ℚ).getD j 0 ≤ ([1, 4] : Pt).getD j 0 :=
  ⟨1, by simp, by norm_num⟩

/-- Monotone in the point set, and non-negative. -/
theorem hv_mono (ref : List ℚ) (S T : List Pt) (h : S ⊆ T) : hvCells ref S ≤ hvCells ref T :=
  hvCells_mono' ref S T h

example : ([[1, 2]] : List Pt) ⊆ [[2, 1], [1, 2]] := by simp

theorem hv_nonneg (ref : List ℚ) (pts : List Pt) : 0 ≤ hvCells ref pts := hvCells_nonneg ref pts

/-- One point: the volume of its box. -/
theorem hv_single (ref : List ℚ) (q : Pt) : hvCells ref [q] = boxVol ref q := hvCells_single ref q

/-- Inclusion–exclusion step: `hv(q :: S) = hv(S) + vol[q, ref) − hv({max(p, q) | p ∈ S})`. -/
theorem hv_inclusion_exclusion (ref : List ℚ) (q : Pt) (S : List Pt) :
    hvCells ref (q :: S) = hvCells ref S + boxVol ref q - hvCells ref (S.map (fun p => pmax ref p q)) :=
  hvCells_ie ref q S

/-- The exponential inclusion–exclusion recursion computes the same number. -/
theorem hvIE_eq_hvCells (ref : List ℚ) (S : List Pt) : hvIE ref S = hvCells ref S :=
  (hvCells_eq_hvIE ref S.length S (le_refl _)).symm

/-! ### Low dimensions -/

/-- `d = 1`: the hypervolume is `ref − min` (the fold starts at `ref`, so points at or beyond the
reference and the empty set give 0). -/
theorem hv_1d (r : ℚ) (xs : List ℚ) : hvCells [r] (xs.map (fun x => [x])) = r - xs.foldr min r := by
  rw [hvCells_1d, List.map_map]
  have : ((fun p : Pt => p.headD 0) ∘ fun x : ℚ => [x]) = id := by funext x; rfl
  rw [this, List.map_id]

/-- `d = 1`, the guarded form of the statement: at least one point, all at or below the reference:
`ref −` the least coordinate. -/
theorem hv_1d_min (r : ℚ) (xs : List ℚ) (hne : xs ≠ []) (hle : ∀ x ∈ xs, x ≤ r) :
    ∃ m ∈ xs, (∀ x ∈ xs, m ≤ x) ∧ hvCells [r] (xs.map (fun x => [x])) = r - m := by
  rw [hv_1d]
  rcases foldr_min_mem_or r xs with h | h
  · -- the fold stayed at r: every point equals r
    cases xs with
    | nil => exact absurd rfl hne
    | cons x xs =>
      have hx : r ≤ x := by rw [← h]; exact foldr_min_le_mem r _ x (by simp)
      have hxr : x = r := le_antisymm (hle x (by simp)) hx
      refine ⟨x, by simp, ?_, by rw [h, hxr]⟩
      intro y hy
      rw [hxr, ← h]; exact foldr_min_le_mem r _ y hy
  · exact ⟨_, h, fun x hx => foldr_min_le_mem r xs x hx, rfl⟩

example : ([1, 3, 2] : List ℚ) ≠ [] ∧ ∀ x ∈ ([1, 3, 2] : List ℚ), x ≤ 3 := by
  refine ⟨by simp, ?_⟩
  intro x hx
  simp only [List.mem_cons, List.not_mem_nil, or_false] at hx
  rcases hx with rfl | rfl | rfl <;> norm_num

/-- `d = 2`, the staircase formula: sweep over the distinct abscissae `x₀ < x₁ < … ≤ r₁` (the last slab
ends at `r₁`); the height of the staircase over `[xᵢ, xᵢ₊₁)` is `r₂ −` the least ordinate among the
points with abscissa `≤ xᵢ`. -/
theorem hv_2d (r₁ r₂ : ℚ) (pts : List (ℚ × ℚ)) :
    hvCells [r₁, r₂] (pts.map (fun p => [p.1, p.2]))
      = stepSum (axisOf r₁ (pts.map (fun p => p.1)))
          (fun x => r₂ - ((pts.filter (fun p => decide (p.1 ≤ x))).map (fun p => p.2)).foldr min r₂) := by
  rw [hvCells_cons, List.map_map]
  apply stepSum_congr
  intro x
  rw [hvCells_1d]
  congr 2
  unfold sub
  rw [List.filter_map, List.map_map, List.map_map]
  rfl

/-! ### The indicator (`tools.indicator.hypervolume`) -/

/-- **Least contributor**: for a non-empty population (the code needs two individuals: with one, the
compiled extension rejects the empty leave-one-out set), the returned index `i` is a valid index, it
minimises the contribution `hv(all) − hv(all ∖ k)` over all `k` (equivalently maximises the
leave-one-out hypervolume), it is the *first* such index (`numpy.argmax`), and its contribution is
non-negative.  `r` is the reference actually used (given, or max + 1 per objective). -/
theorem indicator_least (w : List ℚ) (vals : List (List ℚ)) (ref : Option (List ℚ)) (hne : vals ≠ []) :
    let pts := wobj w vals
    let r := ref.getD (defaultRef pts)
    let i := leastContributor w vals ref
    i < vals.length ∧
    (∀ k < vals.length,
      hvCells r pts - hvCells r (pts.eraseIdx i) ≤ hvCells r pts - hvCells r (pts.eraseIdx k)) ∧
    (∀ k < i, hvCells r (pts.eraseIdx k) < hvCells r (pts.eraseIdx i)) ∧
    0 ≤ hvCells r pts - hvCells r (pts.eraseIdx i) := by
  intro pts r i
  have hlen : pts.length = vals.length := by simp [pts, wobj]
  have hi : i = argmaxFirst (looValues r pts) := by
    cases ref <;> rfl
  have hne' : looValues r pts ≠ [] := by
    intro h
    have := congrArg List.length h
    rw [looValues_length, hlen] at this
    exact hne (List.length_eq_zero_iff.mp this)
  obtain ⟨h1, h2, h3⟩ := argmaxFirst_spec (looValues r pts) hne'
  rw [← hi, looValues_length] at h1
  rw [← hi] at h2 h3
  rw [looValues_length] at h2
  refine ⟨hlen ▸ h1, ?_, ?_, ?_⟩
  · intro k hk
    have := h2 k (hlen ▸ hk)
    rw [looValues_getD r pts k (hlen ▸ hk), looValues_getD r pts i h1, hvSlice_eq_hvCells,
      hvSlice_eq_hvCells] at this
    linarith
  · intro k hk
    have hk' : k < pts.length := lt_trans hk h1
    have := h3 k hk
    rwa [looValues_getD r pts k hk', looValues_getD r pts i h1, hvSlice_eq_hvCells,
      hvSlice_eq_hvCells] at this
  · have := hv_mono r (pts.eraseIdx i) pts (List.eraseIdx_subset)
    linarith

example : ([[1, 2], [2, 1]] : List (List ℚ)) ≠ [] := by simp

/-! ### The population hypervolume (`benchmarks.tools.hypervolume`) -/

/-- Sign handling, for any mixture of minimised (`w < 0`) and maximised (`w > 0`) objectives: coordinate
`j` of the point handed to the hypervolume routine is `−(value · weight)`, i.e. the value itself for
weight −1 and its negation for weight +1 — smaller is better in every coordinate. -/
theorem population_coord (w v : List ℚ) (j : ℕ) :
    ((wobj w [v]).headD []).getD j 0 = -(v.getD j 0 * w.getD j 0) := by
  simp only [wobj, List.map_cons, List.map_nil, List.headD_cons]
  exact wobj_coord w v j

/-- **Population hypervolume**: `benchmarks.tools.hypervolume(front, ref)` is the grid specification
taken on the negated weighted values, with the reference given or `max + 1` per coordinate. -/
theorem population_hv (w : List ℚ) (vals : List (List ℚ)) (ref : Option (List ℚ)) :
    populationHV w vals ref = hvCells (ref.getD (defaultRef (wobj w vals))) (wobj w vals) := by
  cases ref <;> exact hvSlice_eq_hvCells _ _

/-- … hence the Lebesgue measure of the region dominated by the population's weighted objectives. -/
theorem population_hv_volume (w : List ℚ) (vals : List (List ℚ)) (ref : List ℚ) :
    volume (⋃ p ∈ wobj w vals, Set.pi Set.univ
        (fun j : Fin ref.length => Set.Ico (((p.getD j 0 : ℚ)) : ℝ) (((ref.getD j 0 : ℚ)) : ℝ)))
      = ENNReal.ofReal ((populationHV w vals (some ref) : ℚ) : ℝ) := by
  rw [population_hv]; exact hvCells_eq_volume ref _

/-- The default reference point (`ref=None`): in every objective it is the worst (largest) coordinate
of the population plus one, so every individual strictly dominates it. -/
theorem population_default_ref (w : List ℚ) (vals : List (List ℚ)) (hne : vals ≠ [])
    (hlen : ∀ v ∈ vals, v.length = w.length) :
    (defaultRef (wobj w vals)).length = w.length ∧
    ∀ j < w.length, (∀ q ∈ wobj w vals, q.getD j 0 + 1 ≤ (defaultRef (wobj w vals)).getD j 0) ∧
      (∃ q ∈ wobj w vals, (defaultRef (wobj w vals)).getD j 0 = q.getD j 0 + 1) := by
  apply defaultRef_spec
  · intro h; exact hne (List.map_eq_nil_iff.mp h)
  · intro q hq
    simp only [wobj, List.mem_map] at hq
    obtain ⟨v, hv, rfl⟩ := hq
    simp [wvalues, hlen v hv]

example : ([[1, 2], [2, 1]] : List (List ℚ)) ≠ [] ∧ ∀ v ∈ ([[1, 2], [2, 1]] : List (List ℚ)), v.length = ([1, -1] : List ℚ).length := by
  refine ⟨by simp, ?_⟩
  intro v hv
  simp only [List.mem_cons, List.not_mem_nil, or_false] at hv
  rcases hv with rfl | rfl <;> rfl

/-! ### The algorithm: the transcription `Core/HvSweep.lean` of `pyhv._HyperVolume`

`HvSweep.compute front ref` runs `preProcess` (multi-linked list, node ids for pointers) and
`hvRecursive` (base cases `dimIndex == 0`, `== 1`, general case with bounds pruning, `ignore` marking,
`remove` / `reinsert`) exactly as pyhv.py does; the correspondence run diffs it against pyhv's value AND
observable final state on every hypervolume case.  Proved here: it terminates in every dimension and hands
the lists back intact, and — `sweep_eq_hvCells` — it returns the specification `hvCells` in EVERY dimension.
The proof (Lemmas/C15Gen1-7) is an induction over the levels of `hvRecursive` with an invariant on the
multi-list state: in every dimension `i` the linked list is the static order restricted to the nodes present;
the `area[i]` / `volume[i]` caches of every node strictly below `bounds[i]` hold the `i`-dimensional hypervolume
of the nodes at or before it and the accumulated slabs (`CV`); a node with `ignore = m ≥ 1` is weakly dominated
in the coordinates `0..m` by a present node that precedes it in the orders `1..m` (`IG`).  `sweep_1d/2d/3d` and
`sweep_eq_hvCells_partial` are kept as the low-dimensional instances proved directly. -/

open HvSweep in
/-- **Termination in every dimension**: with the fuel `n + 1` that `compute` supplies, no pointer-following
loop of the transcription ever runs out of fuel — on any input, of any dimension. -/
theorem sweep_terminates (front : List (List ℚ)) (ref : List ℚ) : ∃ v, compute front ref = some v := by
  obtain ⟨v, S', h, _⟩ := computeSt_terminates front ref
  exact ⟨v, by unfold compute; rw [h]; rfl⟩

open HvSweep in
/-- … and when it returns, every `next` / `prev` pointer of the multi-list is what `preProcess` built:
each `remove` has been undone by its `reinsert` (the dancing-links discipline of the sweep). -/
theorem sweep_restores_lists (front : List (List ℚ)) (ref : List ℚ) :
    ∃ v S', computeSt front ref = some (v, S') ∧
      ∀ i a, nx S' i a = nx (preProcess ([] :: translate front ref) ref.length front.length) i a ∧
             pv S' i a = pv (preProcess ([] :: translate front ref) ref.length front.length) i a :=
  computeSt_terminates front ref

open HvSweep in
/-- **`sweep_1d`**: in one dimension the transcribed algorithm returns the specification. -/
theorem sweep_1d (r : ℚ) (xs : List ℚ) (hle : ∀ x ∈ xs, x ≤ r) :
    compute (xs.map (fun x => [x])) [r] = some (hvCells [r] (xs.map (fun x => [x]))) :=
  sweep_1d' r xs hle

example : ∀ x ∈ ([1, 3, 2] : List ℚ), x ≤ 3 := by
  intro x hx
  simp only [List.mem_cons, List.not_mem_nil, or_false] at hx
  rcases hx with rfl | rfl | rfl <;> norm_num

open HvSweep in
/-- **`sweep_2d`**: in two dimensions the transcribed algorithm (`preProcess`, then the staircase loop of
`dimIndex == 1` over the list sorted by the second coordinate) returns the specification. -/
theorem sweep_2d (r₁ r₂ : ℚ) (pts : List (ℚ × ℚ)) (hle : ∀ p ∈ pts, p.1 ≤ r₁ ∧ p.2 ≤ r₂) :
    compute (pts.map toPt) [r₁, r₂] = some (hvCells [r₁, r₂] (pts.map toPt)) :=
  sweep_2d' r₁ r₂ pts hle

example : ∀ p ∈ ([(1, 2), (2, 1), (3, 3)] : List (ℚ × ℚ)), p.1 ≤ (3 : ℚ) ∧ p.2 ≤ (3 : ℚ) := by
  intro p hp
  simp only [List.mem_cons, List.not_mem_nil, or_false] at hp
  rcases hp with rfl | rfl | rfl <;> norm_num

/-- the 2-D staircase in pyhv's orientation (ascending second coordinate, running minimum of the first) -/
theorem hv_2d_sweep (r₁ r₂ : ℚ) (p : ℚ × ℚ) (rest : List (ℚ × ℚ))
    (hsorted : (p :: rest).Pairwise (fun a b => a.2 ≤ b.2)) (hx : p.1 ≤ r₁) (hy : ∀ q ∈ p :: rest, q.2 ≤ r₂) :
    stairXY r₁ r₂ rest p.2 (p.1 - r₁) 0 = hvCells [r₁, r₂] ((p :: rest).map toPt) :=
  stairXY_eq_hvCells r₁ r₂ p rest hsorted hx hy

example : ([(2, 1), (1, 2)] : List (ℚ × ℚ)).Pairwise (fun a b => a.2 ≤ b.2) ∧ ((2 : ℚ), (1 : ℚ)).1 ≤ (3 : ℚ) ∧
    ∀ q ∈ ([(2, 1), (1, 2)] : List (ℚ × ℚ)), q.2 ≤ (3 : ℚ) := by
  refine ⟨by simp, by norm_num, ?_⟩
  intro q hq
  simp only [List.mem_cons, List.not_mem_nil, or_false] at hq
  rcases hq with rfl | rfl <;> norm_num

/-- **The recursive step, every dimension**: adding a point whose leading coordinate is the largest adds the
slab `(r − z) × ((d−1)-dimensional hypervolume with the point − without it)`. -/
theorem hv_slab_step (r : ℚ) (ref : List ℚ) (P : List Pt) (p : Pt)
    (hz : ∀ s ∈ P, s.headD 0 ≤ p.headD 0) (hr : p.headD 0 ≤ r) :
    hvCells (r :: ref) (p :: P) = hvCells (r :: ref) P
      + (r - p.headD 0) * (hvCells ref ((p :: P).map List.tail) - hvCells ref (P.map List.tail)) :=
  hvCells_add_top_slab r ref P p hz hr

example : (∀ s ∈ ([[1, 2, 0]] : List Pt), s.headD 0 ≤ ([2, 0, 1] : Pt).headD 0) ∧ ([2, 0, 1] : Pt).headD 0 ≤ (3 : ℚ) := by
  refine ⟨?_, by norm_num⟩
  intro s hs
  simp only [List.mem_singleton] at hs
  rw [hs]; norm_num

/-- **Slab decomposition, every dimension** — the specification of the sweep's general step: for points
sorted by the swept coordinate, `hv_d = Σ over the points of hv_{d−1}(prefix) × thickness of the slab`
(`slabFold` accumulates exactly as the loop l.163-176 does: `hvol += area(prefix) · (z_next − z)`). -/
theorem hv_slab_decomposition (r : ℚ) (ref : List ℚ) (p : Pt) (rest : List Pt)
    (hsorted : (p :: rest).Pairwise (fun a b => a.headD 0 ≤ b.headD 0)) (hr : ∀ s ∈ p :: rest, s.headD 0 ≤ r) :
    slabFold r ref rest [p] (p.headD 0) 0 = hvCells (r :: ref) (p :: rest) :=
  slabFold_eq_hvCells r ref p rest hsorted hr

example : ([[1, 2, 0], [2, 0, 1]] : List Pt).Pairwise (fun a b => a.headD 0 ≤ b.headD 0) ∧
    ∀ s ∈ ([[1, 2, 0], [2, 0, 1]] : List Pt), s.headD 0 ≤ (3 : ℚ) := by
  refine ⟨by simp, ?_⟩
  intro s hs
  simp only [List.mem_cons, List.not_mem_nil, or_false] at hs
  rcases hs with rfl | rfl <;> norm_num

/-- **Coordinate symmetry**: moving the leading coordinate to the end does not change the hypervolume (so the
choice of the swept coordinate is immaterial; the implementations sweep on the last one). -/
theorem hvCells_coordinate_symmetry (r : ℚ) (ref : List ℚ) (S : List Pt) (hl : ∀ p ∈ S, p.length = ref.length + 1) :
    hvCells (ref ++ [r]) (S.map rot) = hvCells (r :: ref) S :=
  hvCells_rot r ref S hl

example : ∀ p ∈ ([[1, 2, 0], [2, 0, 1]] : List Pt), p.length = ([3, 3] : List ℚ).length + 1 := by
  intro p hp
  simp only [List.mem_cons, List.not_mem_nil, or_false] at hp
  rcases hp with rfl | rfl <;> rfl

/-- **The recursive step along the LAST coordinate** — exactly what the general case of the sweep adds when it
reinserts the node with the next larger last coordinate. -/
theorem hv_slab_step_last (r : ℚ) (ref : List ℚ) (P : List Pt) (p : Pt)
    (hl : ∀ s ∈ p :: P, s.length = ref.length + 1)
    (hz : ∀ s ∈ P, s.getLastD 0 ≤ p.getLastD 0) (hr : p.getLastD 0 ≤ r) :
    hvCells (ref ++ [r]) (p :: P) = hvCells (ref ++ [r]) P
      + (r - p.getLastD 0) * (hvCells ref ((p :: P).map List.dropLast) - hvCells ref (P.map List.dropLast)) :=
  hvCells_add_top_slab_last r ref P p hl hz hr

example : (∀ s ∈ ([2, 0, 2] : Pt) :: ([[1, 2, 1]] : List Pt), s.length = ([3, 3] : List ℚ).length + 1) ∧
    (∀ s ∈ ([[1, 2, 1]] : List Pt), s.getLastD 0 ≤ ([2, 0, 2] : Pt).getLastD 0) ∧ ([2, 0, 2] : Pt).getLastD 0 ≤ (3 : ℚ) := by
  refine ⟨?_, ?_, by norm_num⟩
  · intro s hs
    simp only [List.mem_cons, List.not_mem_nil, or_false] at hs
    rcases hs with rfl | rfl <;> rfl
  · intro s hs
    simp only [List.mem_singleton] at hs
    rw [hs]; norm_num

open HvSweep in
/-- **`sweep_3d`**: in three dimensions the transcribed algorithm — `preProcess`, then the GENERAL case of
`hvRecursive` at `dimIndex = 2` (reset of the ignore flags, removal of all nodes but the first from the lists
0 and 1, reinsertion in the order of the third coordinate, the 2-D staircase on the nodes present after each
reinsertion, `hvol += area × thickness`) — returns the specification. -/
theorem sweep_3d (r₀ r₁ r₂ : ℚ) (pts : List (ℚ × ℚ × ℚ)) (hle : ∀ p ∈ pts, p.1 ≤ r₀ ∧ p.2.1 ≤ r₁ ∧ p.2.2 ≤ r₂) :
    compute (pts.map toPt3) [r₀, r₁, r₂] = some (hvCells [r₀, r₁, r₂] (pts.map toPt3)) :=
  sweep_3d' r₀ r₁ r₂ pts hle

example : ∀ p ∈ ([(1, 2, 0), (2, 0, 1), (0, 1, 3)] : List (ℚ × ℚ × ℚ)), p.1 ≤ (3 : ℚ) ∧ p.2.1 ≤ (3 : ℚ) ∧ p.2.2 ≤ (3 : ℚ) := by
  intro p hp
  simp only [List.mem_cons, List.not_mem_nil, or_false] at hp
  rcases hp with rfl | rfl | rfl <;> norm_num

/-- The full correctness statement of the transcribed algorithm: for every dimension `d ≥ 1`, every list of
points of that dimension at or below the reference, it returns the specification. -/
def sweep_eq_hvCells_Statement : Prop :=
  ∀ (ref : List ℚ) (front : List (List ℚ)), 1 ≤ ref.length → (∀ p ∈ front, p.length = ref.length) →
    (∀ p ∈ front, ∀ j < ref.length, p.getD j 0 ≤ ref.getD j 0) →
    HvSweep.compute front ref = some (hvCells ref front)

/-- the proved part: dimensions 1, 2 and 3 (extra hypothesis `ref.length ≤ 3`) -/
theorem sweep_eq_hvCells_partial (ref : List ℚ) (front : List (List ℚ)) (hd : 1 ≤ ref.length) (hd2 : ref.length ≤ 3)
    (hlen : ∀ p ∈ front, p.length = ref.length)
    (hle : ∀ p ∈ front, ∀ j < ref.length, p.getD j 0 ≤ ref.getD j 0) :
    HvSweep.compute front ref = some (hvCells ref front) := by
  match ref, hd, hd2 with
  | [r], _, _ =>
    have hfront : front = (front.map (fun p => p.headD 0)).map (fun x => [x]) := by
      rw [List.map_map]
      conv_lhs => rw [← List.map_id front]
      apply List.map_congr_left
      intro p hp
      exact HvSweep.list_len1 p (hlen p hp)
    rw [hfront]
    apply sweep_1d
    intro x hx
    obtain ⟨p, hp, rfl⟩ := List.mem_map.mp hx
    have := hle p hp 0 (by simp)
    cases p <;> simpa using this
  | [r₁, r₂], _, _ =>
    have hfront : front = (front.map (fun p => (p.getD 0 0, p.getD 1 0))).map toPt := by
      rw [List.map_map]
      conv_lhs => rw [← List.map_id front]
      apply List.map_congr_left
      intro p hp
      exact HvSweep.list_len2 p (hlen p hp)
    rw [hfront]
    apply sweep_2d
    intro q hq
    obtain ⟨p, hp, rfl⟩ := List.mem_map.mp hq
    exact ⟨by simpa using hle p hp 0 (by simp), by simpa using hle p hp 1 (by simp)⟩
  | [r₀, r₁, r₂], _, _ =>
    have hfront : front = (front.map (fun p => (p.getD 0 0, p.getD 1 0, p.getD 2 0))).map HvSweep.toPt3 := by
      rw [List.map_map]
      conv_lhs => rw [← List.map_id front]
      apply List.map_congr_left
      intro p hp
      exact HvSweep.list_len3 p (hlen p hp)
    rw [hfront]
    apply sweep_3d
    intro q hq
    obtain ⟨p, hp, rfl⟩ := List.mem_map.mp hq
    exact ⟨by simpa using hle p hp 0 (by simp), by simpa using hle p hp 1 (by simp), by simpa using hle p hp 2 (by simp)⟩

example : 1 ≤ ([3, 3] : List ℚ).length ∧ ([3, 3] : List ℚ).length ≤ 3 ∧
    (∀ p ∈ ([[1, 2], [2, 1]] : List (List ℚ)), p.length = ([3, 3] : List ℚ).length) := by
  refine ⟨by simp, by simp, ?_⟩
  intro p hp
  simp only [List.mem_cons, List.not_mem_nil, or_false] at hp
  rcases hp with rfl | rfl <;> rfl

/-- **`sweep_eq_hvCells`: the transcribed dimension-sweep algorithm of pyhv (`preProcess`, `hvRecursive` with its
bounds pruning, cached areas / volumes, `ignore` marking, `remove` / `reinsert`) returns the specification in
EVERY dimension** — for every reference point of dimension `d ≥ 1` and every list of points of that dimension at
or below it. -/
theorem sweep_eq_hvCells : sweep_eq_hvCells_Statement := by
  intro ref front hd hlen hle
  rcases Nat.lt_or_ge ref.length 2 with h | h
  · exact sweep_eq_hvCells_partial ref front hd (by omega) hlen hle
  · exact HvSweep.sweep_general ref front h hlen hle

/-- … hence the transcribed algorithm returns the Lebesgue measure of the union of the boxes. -/
theorem sweep_eq_volume (ref : List ℚ) (front : List (List ℚ)) (hd : 1 ≤ ref.length)
    (hlen : ∀ p ∈ front, p.length = ref.length) (hle : ∀ p ∈ front, ∀ j < ref.length, p.getD j 0 ≤ ref.getD j 0) :
    ∃ v : ℚ, HvSweep.compute front ref = some v ∧
      volume (⋃ p ∈ front, Set.pi Set.univ
        (fun j : Fin ref.length => Set.Ico (((p.getD j 0 : ℚ)) : ℝ) (((ref.getD j 0 : ℚ)) : ℝ))) = ENNReal.ofReal (v : ℝ) :=
  ⟨hvCells ref front, sweep_eq_hvCells ref front hd hlen hle, hvCells_eq_volume ref front⟩

example : 1 ≤ ([4, 4, 4, 4, 4] : List ℚ).length ∧
    (∀ p ∈ ([[0, 0, 1, 3, 0], [1, 2, 0, 3, 2], [1, 2, 0, 0, 3]] : List (List ℚ)), p.length = ([4, 4, 4, 4, 4] : List ℚ).length) := by
  refine ⟨by simp, ?_⟩
  intro p hp
  simp only [List.mem_cons, List.not_mem_nil, or_false] at hp
  rcases hp with rfl | rfl | rfl <;> rfl

/-! ### The COMPILED routine: the transcription `Core/HvC.lean` of `deap/tools/_hypervolume/_hv.c`

`HvC.fpliHv data ref` runs `fpli_hv` (l.1456-1490) as the C source does: `setup_cdllist` (one circular doubly linked
list per coordinate, node ids for pointers), `filter` (unlinks the points that do not strictly dominate the
reference), the cases `n == 0` / `n == 1`, and `hv_recursive` (VARIANT 4: general case with `bound` / `vol` / `area`
caches, `ignore` marks, `delete(_dom)` / `reinsert(_dom)`; base cases `dim == 2` with the AVL tree, `dim == 1`,
`dim == 0`).  The AVL library is abstracted to the ordered sequence it represents (`HvC.St.tree`; see the header of
`Core/HvC.lean`) — that is the one thing about `_hv.c` that is not modelled.  The correspondence run diffs
`HvC.fpliHv` against the extension rebuilt from the working tree on every hypervolume case.

Proved below: in EVERY dimension what `setup_cdllist` + `filter` leave (`hvC_setup_filter`) and the answer when at
most one point survives (`hvC_le_one_point`); for one, two and three objectives the full statement
`hvC_eq_hvCells_partial` (all three base cases of `hv_recursive`: `dim == 0`, `dim == 1`, and `dim == 2` — the sweep
along the third coordinate with the 2-D staircase in the tree — entered with `bound[2] = -DBL_MAX`); and, since round 7,
**`hvC_eq_hvCells`: the transcription returns the specification for EVERY number of objectives** (`hvC_eq_hvCells_dim4` is
the instance the correspondence exercises most).  The proof is an induction over the levels of `hv_recursive` with the
level contract `HvC.InvC` / `HvC.PostC` (`Lemmas/C15HvCInv.lean`): in every dimension `2 ≤ i ≤ k` the linked list is the
static order restricted to the nodes present; the `area[i]` / `vol[i]` caches of every node strictly below `bound[i]` hold the
hypervolume of the nodes at or before it (`CVc`); a mark `ignore = m ≥ 2` is witnessed by a present node that weakly
dominates in the coordinates 0, 1 and precedes in the orders `2..m` (`IGc`; a marked node has `domr = x[2]`); and for a node
strictly below `bound[2]` the cached `domr` is the third coordinate from which on it is beaten, in the staircase of the first
two coordinates, by a present node below the bound — `≥ bound[2]` if there is none (`DMc`).  `hvC_dim3_reentry`: the 3-D base
case entered with ANY `bound[2]` meets the contract (it rebuilds the staircase from the nodes with `domr ≥ bound[2]`, reads
`vol[2]` / `area[2]` of the last node below the bound, and sweeps the rest; `Lemmas/C15HvCRe*`); `hvC_general_step`: the
general case at level `j + 1` meets it if level `j` does (`delete` / `delete_dom`, `reinsert` / `reinsert_dom`, the bound
rule of the deletion loop, the cached start, the promotion of marks; `Lemmas/C15HvCGen*`); `hvC_levels`: every level does.
Totality (`hvC_total`) follows.  The hypothesis that the points lie at or below the reference point is not needed
(`hvC_eq_hvCells_all`): `filter` drops the others, whose boxes are empty; the static context of the proof uses the points
clamped to the reference (`HvC.clC`), which agree with the points themselves on every node that survives `filter`. -/

/-- **`setup_cdllist` + `filter`, every dimension**: for every coordinate `j` the linked list of dimension `j` is a
well-formed circular doubly linked list whose nodes are, in ascending order of coordinate `j`, exactly the input
points that lie strictly below the reference point in every coordinate; the count handed to `hv_recursive` is their
number; nothing but `next` / `prev` has been written. -/
theorem hvC_setup_filter (data : List (List ℚ)) (ref : List ℚ) :
    let C : HvC.Cargo := [] :: data
    let r := HvC.filter C ref ref.length data.length (HvC.setupCdllist C ref.length data.length)
    r.1 = (data.filter (HvC.strictlyBelow ref)).length ∧
    HvC.SameData (HvC.initSt ref.length data.length) r.2 ∧
    ∀ j < ref.length, ∃ G : List ℕ, HvC.DLc data.length r.2 j G ∧ G.length = r.1 ∧
      G.Pairwise (fun a b => HvC.cg C a j ≤ HvC.cg C b j) ∧
      (∀ a, a ∈ G ↔ (1 ≤ a ∧ a ≤ data.length ∧ HvC.strictlyBelow ref (HvC.ptOf C a) = true)) := by
  intro C r
  have hR := HvC.ready data ref
  refine ⟨by rw [hR.count, HvC.count_good], hR.same, ?_⟩
  intro j hj
  obtain ⟨L, hO, hD⟩ := hR.lists j hj
  refine ⟨L.filter (HvC.goodUpTo C ref ref.length), hD, ?_, hO.sorted.filter _, ?_⟩
  · rw [hR.count]; exact HvC.length_filter_perm hO.perm _
  · intro a
    rw [List.mem_filter, hO.perm.mem_iff, HvSweep.mem_ids]
    constructor
    · rintro ⟨⟨h1, h2⟩, h3⟩; exact ⟨h1, h2, h3⟩
    · rintro ⟨h1, h2, h3⟩; exact ⟨⟨h1, h2⟩, h3⟩

/-- **every dimension**: when at most one input point lies strictly below the reference point, `fpli_hv` returns
the specification (0, or the volume of the one box; points on or beyond the reference boundary contribute nothing). -/
theorem hvC_le_one_point (data : List (List ℚ)) (ref : List ℚ) (hd : 1 ≤ ref.length)
    (h : (data.filter (HvC.strictlyBelow ref)).length ≤ 1) : HvC.fpliHv data ref = some (hvCells ref data) :=
  HvC.fpliHv_le_one data ref hd h

example : 1 ≤ ([3, 3, 3, 3, 3] : List ℚ).length ∧
    (([[0, 1, 2, 1, 0], [1, 3, 1, 0, 2], [3, 0, 0, 0, 0]] : List (List ℚ)).filter (HvC.strictlyBelow [3, 3, 3, 3, 3])).length ≤ 1 := by
  decide

/-- **`hvC_base_dim1`** (`hv_recursive`, `dim == 0`): one objective. -/
theorem hvC_base_dim1 (data : List (List ℚ)) (r : ℚ) : HvC.fpliHv data [r] = some (hvCells [r] data) :=
  HvC.fpliHv_dim1 data r

/-- **`hvC_base_dim2`** (`hv_recursive`, `dim == 1`, the staircase loop l.995-1011): two objectives. -/
theorem hvC_base_dim2 (data : List (List ℚ)) (r₁ r₂ : ℚ) (hlen : ∀ p ∈ data, p.length = 2) :
    HvC.fpliHv data [r₁, r₂] = some (hvCells [r₁, r₂] data) :=
  HvC.fpliHv_dim2 data r₁ r₂ hlen

example : ∀ p ∈ ([[1, 2], [2, 1], [3, 3]] : List (List ℚ)), p.length = 2 := by
  intro p hp
  simp only [List.mem_cons, List.not_mem_nil, or_false] at hp
  rcases hp with rfl | rfl | rfl <;> rfl

/-- **the 3-D base case over the abstract ordered set** (`hv_recursive`, `dim == 2`, l.825-992, entered with
`bound[2] = -DBL_MAX` and all `ignore` flags 0): on ANY state whose list of dimension 2 is a well-formed list of nodes
sorted by the third coordinate and strictly below the reference, it returns the hypervolume of those nodes — the
staircase of the first two coordinates kept in the tree, its area updated by l.955-982, times the slab thickness. -/
theorem hvC_base_dim3_fresh (C : HvC.Cargo) (R : List ℚ) (d n fuel : ℕ) (S : HvC.St) (a₁ : ℕ) (rest : List ℕ)
    (hD : HvC.DLc n S 2 (a₁ :: rest))
    (hs : (a₁ :: rest).Pairwise (fun a b => HvC.cg C a 2 ≤ HvC.cg C b 2))
    (hfacts : ∀ a ∈ a₁ :: rest, HvC.cg C a 0 < HvC.rf R 0 ∧ HvC.cg C a 1 < HvC.rf R 1 ∧ HvC.cg C a 2 < HvC.rf R 2 ∧
      (HvC.ptOf C a).length = 3)
    (hbound : S.bound.getD 2 none = none) (hign : ∀ a, HvC.ign S a = 0)
    (hd : 2 < d) (hvol : HvSweep.Shaped (n + 1) d S.vol) (harea : HvSweep.Shaped (n + 1) d S.area)
    (hfuel : n < fuel) :
    ∃ S', HvC.dim3 C R fuel S
      = some (hvCells [HvC.rf R 0, HvC.rf R 1, HvC.rf R 2] ((a₁ :: rest).map (HvC.ptOf C)), S') :=
  HvC.dim3_fresh C R d n fuel S a₁ rest hD hs hfacts hbound hign hd hvol harea hfuel

/-- the hypotheses of `hvC_base_dim3_fresh` are what `setup_cdllist` + `filter` establish (here: three points) -/
example : ∃ (S : HvC.St) (a₁ : ℕ) (rest : List ℕ),
    let C : HvC.Cargo := [[], [1, 2, 0], [2, 0, 1], [0, 1, 2]]
    HvC.DLc 3 S 2 (a₁ :: rest) ∧ (a₁ :: rest).Pairwise (fun a b => HvC.cg C a 2 ≤ HvC.cg C b 2) ∧
    S.bound.getD 2 none = none ∧ (∀ a, HvC.ign S a = 0) := by
  have h := hvC_setup_filter [[1, 2, 0], [2, 0, 1], [0, 1, 2]] [3, 3, 3]
  obtain ⟨h1, ⟨e1, _, _, e4, _⟩, h3⟩ := h
  obtain ⟨G, hD, hlen, hs, _⟩ := h3 2 (by decide)
  have hG : G.length = 3 := by rw [hlen, h1]; decide
  match G, hG with
  | a :: rest, _ =>
    refine ⟨_, a, rest, hD, hs, ?_, ?_⟩
    · rw [e4]; exact HvC.getD_replicate_none _ _
    · intro x
      show (HvC.St.ignore _).getD x 0 = 0
      rw [e1]; exact HvC.getD_replicate_int _ _

/-- **`hvC_base_dim3`**: three objectives (the AVL-tree sweep as the base case of `fpli_hv`). -/
theorem hvC_base_dim3 (data : List (List ℚ)) (r₀ r₁ r₂ : ℚ) (hlen : ∀ p ∈ data, p.length = 3) :
    HvC.fpliHv data [r₀, r₁, r₂] = some (hvCells [r₀, r₁, r₂] data) :=
  HvC.fpliHv_dim3 data r₀ r₁ r₂ hlen

example : ∀ p ∈ ([[1, 2, 0], [2, 0, 1], [0, 1, 3]] : List (List ℚ)), p.length = 3 := by
  intro p hp
  simp only [List.mem_cons, List.not_mem_nil, or_false] at hp
  rcases hp with rfl | rfl | rfl <;> rfl

/-- The full correctness statement of the transcribed C routine: for every dimension `d ≥ 1` and every list of
points of that dimension at or below the reference (weakly dominating it), it returns the specification.
Proved: `hvC_eq_hvCells` below (round 7; until then only `hvC_eq_hvCells_partial`, `d ≤ 3`). -/
def hvC_eq_hvCells_Statement : Prop :=
  ∀ (ref : List ℚ) (data : List (List ℚ)), 1 ≤ ref.length → (∀ p ∈ data, p.length = ref.length) →
    (∀ p ∈ data, ∀ j < ref.length, p.getD j 0 ≤ ref.getD j 0) →
    HvC.fpliHv data ref = some (hvCells ref data)

/-- the proved part: one, two and three objectives (extra hypothesis `ref.length ≤ 3`; the hypothesis that the
points weakly dominate the reference is not even needed: `filter` drops the others, whose boxes are empty) -/
theorem hvC_eq_hvCells_partial (ref : List ℚ) (data : List (List ℚ)) (hd : 1 ≤ ref.length) (hd3 : ref.length ≤ 3)
    (hlen : ∀ p ∈ data, p.length = ref.length) : HvC.fpliHv data ref = some (hvCells ref data) := by
  match ref, hd, hd3 with
  | [r], _, _ => exact hvC_base_dim1 data r
  | [r₁, r₂], _, _ => exact hvC_base_dim2 data r₁ r₂ hlen
  | [r₀, r₁, r₂], _, _ => exact hvC_base_dim3 data r₀ r₁ r₂ hlen

example : 1 ≤ ([3, 3, 3] : List ℚ).length ∧ ([3, 3, 3] : List ℚ).length ≤ 3 ∧
    (∀ p ∈ ([[1, 2, 0], [2, 0, 1], [3, 1, 1]] : List (List ℚ)), p.length = ([3, 3, 3] : List ℚ).length) := by
  refine ⟨by simp, by simp, ?_⟩
  intro p hp
  simp only [List.mem_cons, List.not_mem_nil, or_false] at hp
  rcases hp with rfl | rfl | rfl <;> rfl

/-- … hence, for up to three objectives, the transcribed C routine returns the Lebesgue measure of the union of
the boxes. -/
theorem hvC_eq_volume_partial (ref : List ℚ) (data : List (List ℚ)) (hd : 1 ≤ ref.length) (hd3 : ref.length ≤ 3)
    (hlen : ∀ p ∈ data, p.length = ref.length) :
    ∃ v : ℚ, HvC.fpliHv data ref = some v ∧
      volume (⋃ p ∈ data, Set.pi Set.univ
        (fun j : Fin ref.length => Set.Ico (((p.getD j 0 : ℚ)) : ℝ) (((ref.getD j 0 : ℚ)) : ℝ))) = ENNReal.ofReal (v : ℝ) :=
  ⟨hvCells ref data, hvC_eq_hvCells_partial ref data hd hd3 hlen, hvCells_eq_volume ref data⟩

example : 1 ≤ ([4, 4] : List ℚ).length ∧ ([4, 4] : List ℚ).length ≤ 3 ∧
    (∀ p ∈ ([[1, 2], [2, 1]] : List (List ℚ)), p.length = ([4, 4] : List ℚ).length) := by
  refine ⟨by simp, by simp, ?_⟩
  intro p hp
  simp only [List.mem_cons, List.not_mem_nil, or_false] at hp
  rcases hp with rfl | rfl <;> rfl

/-- Total-ness of the transcription: with the fuel `n + 2` that `fpliHvSt` supplies, no pointer-following loop runs
out of fuel (the loop l.855-857 of the re-entered 3-D base case terminates for a semantic reason: some node has
`domr ≥ bound[2]`).  Proved: `hvC_total` below (round 7; until then only `hvC_total_partial`, `d ≤ 3`). -/
def hvC_total_Statement : Prop :=
  ∀ (ref : List ℚ) (data : List (List ℚ)), 1 ≤ ref.length → (∀ p ∈ data, p.length = ref.length) →
    ∃ v, HvC.fpliHv data ref = some v

/-- the proved part: one, two and three objectives -/
theorem hvC_total_partial (ref : List ℚ) (data : List (List ℚ)) (hd : 1 ≤ ref.length) (hd3 : ref.length ≤ 3)
    (hlen : ∀ p ∈ data, p.length = ref.length) : ∃ v, HvC.fpliHv data ref = some v :=
  ⟨_, hvC_eq_hvCells_partial ref data hd hd3 hlen⟩

example : 1 ≤ ([2] : List ℚ).length ∧ ([2] : List ℚ).length ≤ 3 ∧
    (∀ p ∈ ([[1], [1], [2], [0]] : List (List ℚ)), p.length = ([2] : List ℚ).length) := by
  refine ⟨by simp, by simp, ?_⟩
  intro p hp
  simp only [List.mem_cons, List.not_mem_nil, or_false] at hp
  rcases hp with rfl | rfl | rfl | rfl <;> rfl

/-! #### four and more objectives: the level contract of `hv_recursive` (`Lemmas/C15HvCInv.lean`) -/

/-- **the 3-D base case RE-ENTERED** (`hv_recursive`, `dim == 2`, l.825-992, with ANY `bound[2]` and any sound marks):
on every state that satisfies the level invariant `HvC.InvC … S 2 A` (list of dimension 2 = static order restricted to
`A`; `area[2]` / `vol[2]` of the nodes strictly below `bound[2]` = area / volume of their prefixes; `domr` of those nodes
valid; marks witnessed) with at least two nodes, it returns the 3-D hypervolume of `A` and re-establishes the invariant
(`HvC.PostC`: same pointers, new `bound[2]` = third coordinate of the last node, all caches of level 2 valid, nothing
written outside `A` / above level 2). -/
theorem hvC_dim3_reentry (C : HvC.Cargo) (R : List ℚ) (d n : ℕ) (O : ℕ → List ℕ) (F : ℕ) (c : HvC.CCtx C R d n O)
    (hF : n + 2 ≤ F) (S : HvC.St) (A : List ℕ) (inv : HvC.InvC C R d n O S 2 A) (h2 : 2 ≤ A.length) :
    ∃ v S', HvC.hvRecursive C R F 2 A.length S = some (v, S') ∧ HvC.PostC C R d n O S S' 2 A v :=
  HvC.dim3_ok C R d n O F c hF S A inv h2

/-- the hypotheses of `hvC_dim3_reentry` are what `setup_cdllist` + `filter` establish for three objectives -/
example : ∃ (C : HvC.Cargo) (R : List ℚ) (d n : ℕ) (O : ℕ → List ℕ) (S : HvC.St) (A : List ℕ),
    HvC.CCtx C R d n O ∧ HvC.InvC C R d n O S 2 A ∧ 2 ≤ A.length := by
  obtain ⟨O, G, c, inv, hlen, hG⟩ := HvC.ready_ctx [[1, 2, 0], [2, 0, 1], [0, 1, 2]] [3, 3, 3] (by decide)
    (by intro p hp; simp only [List.mem_cons, List.not_mem_nil, or_false] at hp; rcases hp with rfl | rfl | rfl <;> rfl)
  refine ⟨_, _, _, _, O, _, G, c, inv, ?_⟩
  rw [hG]; decide

/-- **the general case** (`hv_recursive`, `dim > 2`, l.710-819: reset of the marks below the level, deletion down to the
bound with `delete` / `delete_dom`, the cached start or `c == 1`, reinsertion with `reinsert` / `reinsert_dom`, the
recursive calls, the promotion of marks, `bound[dim]`) **at level `j + 1` meets the level contract if level `j` does.** -/
theorem hvC_general_step (C : HvC.Cargo) (R : List ℚ) (d n : ℕ) (O : ℕ → List ℕ) (F j : ℕ) (c : HvC.CCtx C R d n O)
    (hF : n + 2 ≤ F) (hj : 2 ≤ j) (hjd : j + 1 < d) (hrec : HvC.LevelOKC C R d n O F j) :
    HvC.LevelOKC C R d n O F (j + 1) :=
  HvC.generalStep_ok C R d n O F j c hF hj hjd hrec

/-- **every level `2 ≤ k < d` of `hv_recursive` meets the level contract** (induction over the levels) -/
theorem hvC_levels (C : HvC.Cargo) (R : List ℚ) (d n : ℕ) (O : ℕ → List ℕ) (F : ℕ) (c : HvC.CCtx C R d n O)
    (hF : n + 2 ≤ F) (k : ℕ) (h2 : 2 ≤ k) (hk : k < d) : HvC.LevelOKC C R d n O F k :=
  HvC.levels_ok c F hF k h2 hk

/-- the hypotheses of `hvC_general_step` / `hvC_levels` are satisfiable (four objectives, level 2 is `hvC_dim3_reentry`) -/
example : ∃ (C : HvC.Cargo) (R : List ℚ) (d n : ℕ) (O : ℕ → List ℕ) (F : ℕ),
    HvC.CCtx C R d n O ∧ n + 2 ≤ F ∧ 2 + 1 < d ∧ HvC.LevelOKC C R d n O F 2 := by
  obtain ⟨O, G, c, inv, hlen, hG⟩ := HvC.ready_ctx [[1, 2, 0, 1], [2, 0, 1, 0]] [3, 3, 3, 3] (by decide)
    (by intro p hp; simp only [List.mem_cons, List.not_mem_nil, or_false] at hp; rcases hp with rfl | rfl <;> rfl)
  exact ⟨_, _, _, _, O, 4, c, by decide, by decide, hvC_levels _ _ _ _ O 4 c (by decide) 2 (le_refl _) (by decide)⟩

/-- **`hvC_eq_hvCells_dim4`**: four objectives, all inputs (also points beyond the reference point: `filter` drops them). -/
theorem hvC_eq_hvCells_dim4 (data : List (List ℚ)) (r₀ r₁ r₂ r₃ : ℚ) (hlen : ∀ p ∈ data, p.length = 4) :
    HvC.fpliHv data [r₀, r₁, r₂, r₃] = some (hvCells [r₀, r₁, r₂, r₃] data) :=
  HvC.fpliHv_ge3_all data [r₀, r₁, r₂, r₃] (by simp) hlen

example : ∀ p ∈ ([[1, 2, 0, 1], [2, 0, 1, 0], [0, 1, 3, 5]] : List (List ℚ)), p.length = 4 := by
  intro p hp
  simp only [List.mem_cons, List.not_mem_nil, or_false] at hp
  rcases hp with rfl | rfl | rfl <;> rfl

/-- **every number of objectives, ALL inputs**: for every reference point of dimension `d ≥ 1` and every list of points
of that dimension — wherever they lie relative to the reference point — the transcribed C routine returns the
specification (points not strictly below the reference are removed by `filter`, and their boxes are empty). -/
theorem hvC_eq_hvCells_all (ref : List ℚ) (data : List (List ℚ)) (hd : 1 ≤ ref.length)
    (hlen : ∀ p ∈ data, p.length = ref.length) : HvC.fpliHv data ref = some (hvCells ref data) := by
  rcases Nat.lt_or_ge ref.length 4 with h | h
  · exact hvC_eq_hvCells_partial ref data hd (by omega) hlen
  · exact HvC.fpliHv_ge3_all data ref (by omega) hlen

example : 1 ≤ ([4, 4, 4, 4, 4] : List ℚ).length ∧
    (∀ p ∈ ([[0, 0, 1, 3, 0], [1, 2, 0, 3, 2], [1, 2, 0, 0, 7]] : List (List ℚ)), p.length = ([4, 4, 4, 4, 4] : List ℚ).length) := by
  refine ⟨by simp, ?_⟩
  intro p hp
  simp only [List.mem_cons, List.not_mem_nil, or_false] at hp
  rcases hp with rfl | rfl | rfl <;> rfl

/-- **`hvC_eq_hvCells`: the transcribed C routine `fpli_hv` (`setup_cdllist`, `filter`, `hv_recursive` VARIANT 4 with its
`bound` / `vol` / `area` / `domr` caches, `ignore` marks, `delete(_dom)` / `reinsert(_dom)`, and the AVL-tree sweep as
3-D base case) returns the specification for EVERY number of objectives** — for every reference point of dimension
`d ≥ 1` and every list of points of that dimension at or below it. -/
theorem hvC_eq_hvCells : hvC_eq_hvCells_Statement := by
  intro ref data hd hlen _
  exact hvC_eq_hvCells_all ref data hd hlen

/-- … hence the transcribed C routine returns the Lebesgue measure of the union of the boxes, in every dimension. -/
theorem hvC_eq_volume (ref : List ℚ) (data : List (List ℚ)) (hd : 1 ≤ ref.length)
    (hlen : ∀ p ∈ data, p.length = ref.length) :
    ∃ v : ℚ, HvC.fpliHv data ref = some v ∧
      volume (⋃ p ∈ data, Set.pi Set.univ
        (fun j : Fin ref.length => Set.Ico (((p.getD j 0 : ℚ)) : ℝ) (((ref.getD j 0 : ℚ)) : ℝ))) = ENNReal.ofReal (v : ℝ) :=
  ⟨hvCells ref data, hvC_eq_hvCells_all ref data hd hlen, hvCells_eq_volume ref data⟩

example : 1 ≤ ([4, 4, 4, 4] : List ℚ).length ∧
    (∀ p ∈ ([[1, 2, 3, 0], [2, 1, 0, 3]] : List (List ℚ)), p.length = ([4, 4, 4, 4] : List ℚ).length) := by
  refine ⟨by simp, ?_⟩
  intro p hp
  simp only [List.mem_cons, List.not_mem_nil, or_false] at hp
  rcases hp with rfl | rfl <;> rfl

/-- **`hvC_total`: totality in every dimension** — with the fuel `n + 2` that `fpliHvSt` supplies, no pointer-following
loop of the transcription runs out of fuel, on any input of any dimension (in particular the loop l.855-857 of the
re-entered 3-D base case always finds a node with `domr ≥ bound[2]`). -/
theorem hvC_total : hvC_total_Statement := by
  intro ref data hd hlen
  exact ⟨_, hvC_eq_hvCells_all ref data hd hlen⟩

/-- **The abstraction of `avl_search_closest` is not observable.**  `HvC.Admissible C search` says what a descent
through any search tree over the ordered sequence can answer: a neighbour of the insertion position together with
its side (successor with `-1`, or predecessor with `+1`).  On a tree that is a staircase (what the 3-D sweep keeps),
the body of the main loop l.899-989 returns the same value, area and state for EVERY admissible search as for the
walk `HvC.searchClosest` used by the model — so nothing about the shape of the AVL tree enters the result. -/
theorem hvC_search_choice (C : HvC.Cargo) (R : List ℚ) (search : HvC.St → ℚ × ℚ → ℕ × ℤ) (hadm : HvC.Admissible C search)
    (tfuel pp : ℕ) (hyperv hypera : ℚ) (S : HvC.St)
    (hne : S.tree ≠ []) (hnd : S.tree.Nodup) (h0 : 0 ∉ S.tree) (hpp : pp ∉ S.tree)
    (hst : HvC.Stair (S.tree.map (HvC.item C))) :
    HvC.sweepBodyWith search C R tfuel pp hyperv hypera S = HvC.sweepBody C R tfuel pp hyperv hypera S :=
  HvC.sweepBodyWith_admissible C R search hadm tfuel pp hyperv hypera S hne hnd h0 hpp hst

/-- the walk of the model is itself admissible (so the hypothesis of `hvC_search_choice` is satisfiable) -/
theorem hvC_search_walk_admissible (C : HvC.Cargo) : HvC.Admissible C (HvC.searchClosest C) :=
  HvC.admissible_searchClosest C

example : ∃ (C : HvC.Cargo) (search : HvC.St → ℚ × ℚ → ℕ × ℤ) (S : HvC.St), HvC.Admissible C search ∧
    S.tree ≠ [] ∧ S.tree.Nodup ∧ 0 ∉ S.tree ∧ 3 ∉ S.tree ∧ HvC.Stair (S.tree.map (HvC.item C)) := by
  refine ⟨[[], [0, 2, 0], [1, 1, 1], [2, 0, 2]], HvC.searchClosest _, { HvC.initSt 3 3 with tree := [1, 2] },
    hvC_search_walk_admissible _, by simp, by simp, by simp, by simp, ?_⟩
  simp only [HvC.Stair, HvC.item, HvC.cg, HvSweep.tget, List.map_cons, List.map_nil]
  norm_num [List.getD]

/-- the update formula of l.955-982 in isolation: replacing the run `D` of staircase members dominated by the new
point `p` changes the strip sum by `−Σ_D (y_prev − y_e)(x_next − x_e) + (y_prev(p) − y_p)(x_next − x_p)`. -/
theorem hvC_staircase_update (r₀ r₁ : ℚ) (A D B : List (ℚ × ℚ)) (p : ℚ × ℚ) :
    HvC.hArea r₀ r₁ (A ++ p :: B)
      = HvC.hArea r₀ r₁ (A ++ D ++ B) - HvC.hArea (HvC.headX r₀ B) (HvC.lastY r₁ A) D
        + (HvC.lastY r₁ A - p.2) * (HvC.headX r₀ B - p.1) :=
  HvC.area_update r₀ r₁ A D B p

/-- the strip sum kept in `hypera` is the area dominated by the staircase in the tree -/
theorem hvC_staircase_area (r₀ r₁ : ℚ) (T : List (ℚ × ℚ)) (hs : HvC.Stair T) (hle : ∀ t ∈ T, t.1 ≤ r₀ ∧ t.2 ≤ r₁) :
    HvC.hArea r₀ r₁ T = hvCells [r₀, r₁] (T.map toPt) :=
  HvC.stair_area r₀ r₁ T hs hle

example : HvC.Stair [((0 : ℚ), (2 : ℚ)), (1, 1), (2, 0)] ∧
    ∀ t ∈ [((0 : ℚ), (2 : ℚ)), (1, 1), (2, 0)], t.1 ≤ (3 : ℚ) ∧ t.2 ≤ (3 : ℚ) := by
  refine ⟨by simp [HvC.Stair], ?_⟩
  intro t ht
  simp only [List.mem_cons, List.not_mem_nil, or_false] at ht
  rcases ht with rfl | rfl | rfl <;> norm_num

end C15
