/-
C06 — Selection operators return exactly k references and respect their ordering.
Property theorems only; the model is `DeapModel/Core/Selection.lean`, helper lemmas are in
`DeapModel/Lemmas/C06*.lean`.

Reading of the result type: an operator returns *population indices* (`List Nat`).  "The very
objects of the input, never copies" is `refs_*` (every returned index is `< pop.length`); "leaves
the population unmodified" is structural: every operator is a function of the immutable population,
the parameters and the tape and returns indices (and the unread tape) only.
-/
import DeapModel.Lemmas.C06
import DeapModel.Lemmas.C06Wheel
import DeapModel.Lemmas.C06Lex
import DeapModel.Lemmas.C06Dcd
import DeapModel.Lemmas.C06Double
import DeapModel.Lemmas.C06Hist
import DeapModel.Lemmas.C06Gen

set_option linter.unusedSectionVars false
set_option linter.unusedSimpArgs false
set_option linter.unusedVariables false

namespace C06
open Selection C06L

/-! ### k = 0 gives the empty selection (F6 for universal sampling) -/

/-- Operators that read no draw for `k = 0` return `[]` and leave the tape untouched. -/
theorem k0 (pop : Pop) (w : List Rat) (ts fs : Nat) (rule : Rule) (t : Tape) :
    selRandom pop.length 0 t = some ([], t) ∧ selBest pop 0 = [] ∧ selWorst pop 0 = [] ∧
    selTournament pop 0 ts t = some ([], t) ∧ selSUS w pop 0 t = some ([], t) ∧
    selLexicaseWith rule w pop 0 t = some ([], t) := by
  refine ⟨rfl, by simp [selBest], by simp [selWorst], rfl, by simp [selSUS], rfl⟩

/-- Roulette with `k = 0` on evaluated individuals (`sum_fits` is computed before the loop). -/
theorem k0_roulette (pop : Pop) (w : List Rat) (t : Tape) (fs : List Rat) (h : firstVals w pop = some fs) :
    selRoulette w pop 0 t = some ([], t) := by
  simp [selRoulette, h, Selection.repeatM]

/-- Double tournament with `k = 0` for an admissible parsimony size. -/
theorem k0_double (pop : Pop) (fs : Nat) (ps : Rat) (ff : Bool) (t : Tape) (h : 1 ≤ ps ∧ ps ≤ 2) :
    selDoubleTournament pop 0 fs ps ff t = some ([], t) := by
  cases ff <;> simp [selDoubleTournament, h, sizeTournament, fitTournament, Selection.repeatM]

/-- The crowding tournament with `k = 0` still draws its two samples and returns `[]`. -/
theorem k0_dcd (pop : Pop) (t t' : Tape) (res : List Nat) (h : selTournamentDCD pop 0 t = some (res, t')) :
    res = [] := by
  unfold selTournamentDCD at h
  simp only [Nat.not_lt_zero, ↓reduceIte, Nat.zero_mod] at h
  split at h
  · simp at h
  · cases h1 : popSample pop.length t with
    | none => simp [h1] at h
    | some p =>
      obtain ⟨i1, t1⟩ := p
      simp only [h1] at h
      cases h2 : popSample pop.length t1 with
      | none => simp [h2] at h
      | some q =>
        obtain ⟨i2, t2⟩ := q
        simp only [h2] at h
        simp [dcdLoop] at h
        exact h.1

example : firstVals [1] [⟨[3], 0, 0⟩, ⟨[2], 0, 0⟩] = some [3, 2] := by norm_num [firstVals, values]
example : (1 : Rat) ≤ 7 / 5 ∧ (7 / 5 : Rat) ≤ 2 := by norm_num
example : selTournamentDCD [⟨[1], 0, 0⟩] 0 [Draw.sample [0], Draw.sample [0]] = some ([], []) := by decide

/-! ### Exact length -/

theorem length_best (pop : Pop) (k : Nat) : (selBest pop k).length = min k pop.length := by
  simp [selBest, (sortedDesc_perm _ _).length_eq]

theorem length_worst (pop : Pop) (k : Nat) : (selWorst pop k).length = min k pop.length := by
  simp [selWorst, (sortedAsc_perm _ _).length_eq]

theorem length_random (n k : Nat) (t t' : Tape) (res : List Nat) (h : selRandom n k t = some (res, t')) :
    res.length = k := repeatM_length _ h

theorem length_tournament (pop : Pop) (k ts : Nat) (t t' : Tape) (res : List Nat)
    (h : selTournament pop k ts t = some (res, t')) : res.length = k := repeatM_length _ h

theorem length_double (pop : Pop) (k fs : Nat) (ps : Rat) (ff : Bool) (t t' : Tape) (res : List Nat)
    (h : selDoubleTournament pop k fs ps ff t = some (res, t')) : res.length = k := by
  unfold selDoubleTournament at h
  split at h
  · cases ff
    · exact repeatM_length _ h
    · exact repeatM_length _ h
  · simp at h

theorem length_lexicase (rule : Rule) (w : List Rat) (pop : Pop) (k : Nat) (t t' : Tape) (res : List Nat)
    (h : selLexicaseWith rule w pop k t = some (res, t')) : res.length = k := repeatM_length _ h

example : selRandom 3 2 [Draw.choice 0, Draw.choice 2] = some ([0, 2], []) := by decide

/-- `selRandom` is total on valid tapes: it returns exactly the drawn individuals. -/
theorem random_total (n : Nat) (l : List Nat) (hl : ∀ i ∈ l, i < n) (t : Tape) :
    selRandom n l.length (l.map Draw.choice ++ t) = some (l, t) :=
  selRandom_spec.2 ⟨rfl, rfl, hl⟩

example : ∀ i ∈ [0, 2, 2], i < 3 := by decide
example : selDoubleTournament [⟨[1], 2, 0⟩, ⟨[3], 1, 0⟩] 0 2 1 false [] = some ([], []) := by
  simp [selDoubleTournament, fitTournament, Selection.repeatM]

/-! ### The elements are input objects (indices `< n`) -/

theorem refs_best (pop : Pop) (k : Nat) : ∀ i ∈ selBest pop k, i < pop.length := by
  intro i hi
  exact (mem_sortedDesc_range pop _ i).1 (List.mem_of_mem_take hi)

theorem refs_worst (pop : Pop) (k : Nat) : ∀ i ∈ selWorst pop k, i < pop.length := by
  intro i hi
  exact (mem_sortedAsc_range pop _ i).1 (List.mem_of_mem_take hi)

theorem refs_random (n k : Nat) (t t' : Tape) (res : List Nat) (h : selRandom n k t = some (res, t')) :
    ∀ i ∈ res, i < n := (selRandom_spec.1 h).2.2

theorem refs_tournament (pop : Pop) (k ts : Nat) (t t' : Tape) (res : List Nat)
    (h : selTournament pop k ts t = some (res, t')) : ∀ i ∈ res, i < pop.length := by
  refine repeatM_forall _ (fun i => i < pop.length) ?_ h
  intro t x t' hx
  obtain ⟨asp, h1, h2, _⟩ := tournStep_spec hx
  exact (selRandom_spec.1 h1).2.2 x h2

theorem refs_double (pop : Pop) (k fs : Nat) (ps : Rat) (ff : Bool) (t t' : Tape) (res : List Nat)
    (h : selDoubleTournament pop k fs ps ff t = some (res, t')) : ∀ i ∈ res, i < pop.length := by
  unfold selDoubleTournament at h
  split at h
  · cases ff
    · exact (fitTournament_ok (sizeTournament_ok (selRandom_ok _)) _ _ _ _ h).2
    · exact (sizeTournament_ok (fitTournament_ok (selRandom_ok _)) _ _ _ _ h).2
  · simp at h

/-! ### Best / worst: the k extreme individuals in fitness order -/

/-- `selBest` lists distinct individuals in descending fitness order (no element is worse than a
later one), and no omitted individual is better than a kept one. -/
theorem best_sorted (pop : Pop) (k : Nat) :
    (selBest pop k).Nodup ∧
    (selBest pop k).Pairwise (fun i j => fitLt pop i j = false) ∧
    ∀ i, i < pop.length → i ∉ selBest pop k → ∀ j ∈ selBest pop k, fitLt pop j i = false := by
  refine ⟨(nodup_sortedDesc_range pop _).sublist (List.take_sublist _ _),
    (sortedDesc_pairwise pop _).sublist (List.take_sublist _ _), ?_⟩
  intro i hi hni j hj
  have hmem : i ∈ sortedDesc (fitLt pop) (List.range pop.length) := (mem_sortedDesc_range pop _ i).2 hi
  rw [← List.take_append_drop k (sortedDesc (fitLt pop) (List.range pop.length)), List.mem_append] at hmem
  rcases hmem with h | h
  · exact absurd h hni
  · exact take_rel_drop (sortedDesc_pairwise pop _) k j hj i h

/-- Dually for `selWorst`: ascending order, no omitted individual is worse than a kept one. -/
theorem worst_sorted (pop : Pop) (k : Nat) :
    (selWorst pop k).Nodup ∧
    (selWorst pop k).Pairwise (fun i j => fitLt pop j i = false) ∧
    ∀ i, i < pop.length → i ∉ selWorst pop k → ∀ j ∈ selWorst pop k, fitLt pop i j = false := by
  refine ⟨(nodup_sortedAsc_range pop _).sublist (List.take_sublist _ _),
    (sortedAsc_pairwise pop _).sublist (List.take_sublist _ _), ?_⟩
  intro i hi hni j hj
  have hmem : i ∈ sortedAsc (fitLt pop) (List.range pop.length) := (mem_sortedAsc_range pop _ i).2 hi
  rw [← List.take_append_drop k (sortedAsc (fitLt pop) (List.range pop.length)), List.mem_append] at hmem
  rcases hmem with h | h
  · exact absurd h hni
  · exact take_rel_drop (sortedAsc_pairwise pop _) k j hj i h

/-- The model's comparison is the lexicographic order of the weighted-value tuples (C01). -/
theorem fitLt_is_tuple_order (pop : Pop) (i j : Nat) : fitLt pop i j = true ↔ wvAt pop i < wvAt pop j :=
  fitLt_iff pop i j

/-! ### Tournament: the winner is a best individual among those sampled for it -/

/-- The tape splits into `k` groups of `tournsize` choices; the `j`-th selected individual is a
member of the `j`-th group and no member of that group has a better fitness. -/
theorem tournament_winner (pop : Pop) (k ts : Nat) (t t' : Tape) (res : List Nat)
    (h : selTournament pop k ts t = some (res, t')) :
    ∃ groups : List (List Nat), t = (groups.flatten.map Draw.choice) ++ t' ∧
      List.Forall₂ (fun w g => g.length = ts ∧ w ∈ g ∧ (∀ a ∈ g, a < pop.length) ∧
        ∀ a ∈ g, fitLt pop w a = false) res groups := by
  unfold selTournament at h
  induction k generalizing t res with
  | zero =>
    simp only [Selection.repeatM, Option.some.injEq, Prod.mk.injEq] at h
    obtain ⟨rfl, rfl⟩ := h
    exact ⟨[], by simp, List.Forall₂.nil⟩
  | succ k ih =>
    obtain ⟨x, t1, l', h1, h2, rfl⟩ := (repeatM_succ_some _).1 h
    obtain ⟨asp, ha, hx, hmax⟩ := tournStep_spec h1
    obtain ⟨rfl, hlen, hlt⟩ := selRandom_spec.1 ha
    obtain ⟨groups, rfl, hall⟩ := ih _ _ h2
    exact ⟨asp :: groups, by simp, List.Forall₂.cons ⟨hlen, hx, hlt, hmax⟩ hall⟩

example : selTournament [⟨[1], 0, 0⟩, ⟨[3], 0, 0⟩, ⟨[2], 0, 0⟩] 2 2
    [Draw.choice 0, Draw.choice 2, Draw.choice 1, Draw.choice 1] = some ([2, 1], []) := by decide

/-- For `tournsize ≥ 1` every tape of valid choices yields a result (no exception). -/
theorem tournament_total (pop : Pop) (ts : Nat) (hts : 0 < ts) (groups : List (List Nat))
    (hg : ∀ g ∈ groups, g.length = ts ∧ ∀ a ∈ g, a < pop.length) (t : Tape) :
    ∃ res, selTournament pop groups.length ts (groups.flatten.map Draw.choice ++ t) = some (res, t) := by
  unfold selTournament
  induction groups with
  | nil => exact ⟨[], rfl⟩
  | cons g gs ih =>
    obtain ⟨res, hres⟩ := ih (fun g' hg' => hg g' (by simp [hg']))
    obtain ⟨hlen, hlt⟩ := hg g (by simp)
    have hne : g ≠ [] := by intro h0; rw [h0] at hlen; simp at hlen; omega
    obtain ⟨w, hw⟩ := pyMax_isSome pop hne
    refine ⟨w :: res, ?_⟩
    rw [List.length_cons, repeatM_succ_some]
    refine ⟨w, gs.flatten.map Draw.choice ++ t, res, ?_, hres, rfl⟩
    unfold tournStep
    have : selRandom pop.length ts (((g :: gs).flatten.map Draw.choice) ++ t)
        = some (g, gs.flatten.map Draw.choice ++ t) :=
      selRandom_spec.2 ⟨by simp, hlen, hlt⟩
    simp only [this, hw]

example : ∀ g ∈ [[0, 2], [1, 1]], g.length = 2 ∧ ∀ a ∈ g, a < ([⟨[1], 0, 0⟩, ⟨[3], 0, 0⟩, ⟨[2], 0, 0⟩] : Pop).length := by
  decide

/-- Double tournament, size tournament first: each selected individual is a fitness-best among the
`fitness_size` winners of the size tournaments that fed its fitness tournament. -/
theorem double_winner_size_first (pop : Pop) (k fs : Nat) (ps : Rat) (t t' : Tape) (res : List Nat)
    (h : selDoubleTournament pop k fs ps false t = some (res, t')) :
    ∀ win ∈ res, ∃ asp : List Nat, asp.length = fs ∧ win ∈ asp ∧
      ∀ a ∈ asp, a < pop.length ∧ fitLt pop win a = false := by
  unfold selDoubleTournament at h
  split at h
  · simp only [Bool.false_eq_true, ↓reduceIte] at h
    refine repeatM_forall _ _ ?_ h
    intro t1 win t2 hstep
    obtain ⟨asp, h1, h2, h3⟩ := fitTournStep_spec hstep
    obtain ⟨hl, hlt⟩ := sizeTournament_ok (selRandom_ok _) _ _ _ _ h1
    exact ⟨asp, hl, h2, fun a ha => ⟨hlt a ha, h3 a ha⟩⟩
  · simp at h

/-- Double tournament, fitness tournament first: each selected individual is the fitness-best of a
group of `fitness_size` sampled individuals (one of the two groups whose winners met in the size
tournament). -/
theorem double_winner_fitness_first (pop : Pop) (k fs : Nat) (ps : Rat) (t t' : Tape) (res : List Nat)
    (h : selDoubleTournament pop k fs ps true t = some (res, t')) :
    ∀ win ∈ res, ∃ g : List Nat, g.length = fs ∧ win ∈ g ∧
      ∀ a ∈ g, a < pop.length ∧ fitLt pop win a = false := by
  unfold selDoubleTournament at h
  split at h
  · simp only [↓reduceIte] at h
    refine repeatM_forall _ _ ?_ h
    intro t1 win t2 hstep
    obtain ⟨i1, i2, t3, r, hsel, _, hw⟩ := sizeTournStep_spec hstep
    have hP := repeatM_forall _ (fun i => ∃ g : List Nat, g.length = fs ∧ i ∈ g ∧
        ∀ a ∈ g, a < pop.length ∧ fitLt pop i a = false) ?_ hsel
    · rcases hw with rfl | rfl
      · exact hP _ (by simp)
      · exact hP _ (by simp)
    · intro t4 x t5 hx
      obtain ⟨asp, h1, h2, h3⟩ := fitTournStep_spec hx
      obtain ⟨_, hl, hlt⟩ := selRandom_spec.1 h1
      exact ⟨asp, hl, h2, fun a ha => ⟨hlt a ha, h3 a ha⟩⟩
  · simp at h

/-! #### The parsimony stage

`parsimonyPick pop ps i1 i2 r` (`Lemmas/C06Double.lean`) is the statement's size tournament: the
smaller of the two individuals wins iff `r < parsimony_size / 2`; with equal sizes the first one wins
iff `r < 1/2`.  The two theorems characterise the operator completely in tape terms. -/

/-- Size tournament first: the tape consists, per selected individual, of `fitness_size` triples
(choice, choice, coin); each triple yields its parsimony pick, and the selected individual is
`max(…, key=fitness)` (first maximum) of these picks.  Conversely every such tape yields that result. -/
theorem double_size_first_iff (pop : Pop) (k fs : Nat) (ps : Rat) (t t' : Tape) (res : List Nat) :
    selDoubleTournament pop k fs ps false t = some (res, t') ↔
      (1 ≤ ps ∧ ps ≤ 2) ∧ ∃ trace : List (List (Nat × Nat × Rat)),
        t = trace.flatMap (fun trips => trips.flatMap enc3) ++ t' ∧ trace.length = k ∧
        List.Forall₂ (fun win trips => trips.length = fs ∧ (∀ d ∈ trips, Valid3 pop.length d) ∧
          pyMax (fitGt pop) (trips.map (fun d => parsimonyPick pop ps d.1 d.2.1 d.2.2)) = some win) res trace := by
  unfold selDoubleTournament
  by_cases hps : 1 ≤ ps ∧ ps ≤ 2
  · simp only [hps, and_self, ↓reduceIte, Bool.false_eq_true, true_and]
    exact repeatM_iff_trace _ (fun trips : List (Nat × Nat × Rat) => trips.flatMap enc3) _
      (fun t x t' => fitStep_size_iff pop ps fs t t' x) k t res t'
  · simp [hps]

/-- Fitness tournament first: per selected individual the tape holds two groups of `fitness_size`
choices and a coin; the selected individual is the parsimony pick between the two groups' fitness
winners (`max`, first maximum). -/
theorem double_fitness_first_iff (pop : Pop) (k fs : Nat) (ps : Rat) (t t' : Tape) (res : List Nat) :
    selDoubleTournament pop k fs ps true t = some (res, t') ↔
      (1 ≤ ps ∧ ps ≤ 2) ∧ ∃ trace : List (List Nat × List Nat × Rat),
        t = trace.flatMap encF ++ t' ∧ trace.length = k ∧
        List.Forall₂ (fun win d => d.1.length = fs ∧ d.2.1.length = fs ∧
          (∀ a ∈ d.1, a < pop.length) ∧ (∀ a ∈ d.2.1, a < pop.length) ∧ 0 ≤ d.2.2 ∧ d.2.2 < 1 ∧
          ∃ w1 w2, pyMax (fitGt pop) d.1 = some w1 ∧ pyMax (fitGt pop) d.2.1 = some w2 ∧
            win = parsimonyPick pop ps w1 w2 d.2.2) res trace := by
  unfold selDoubleTournament
  by_cases hps : 1 ≤ ps ∧ ps ≤ 2
  · simp only [hps, and_self, ↓reduceIte, true_and]
    exact repeatM_iff_trace _ encF _ (fun t x t' => sizeStep_fit_iff pop ps fs t t' x) k t res t'
  · simp [hps]

/-- The parsimony rule itself: the smaller individual wins exactly for `r < parsimony_size/2`,
with equal sizes the first one exactly for `r < 1/2`. -/
theorem parsimony_rule (pop : Pop) (ps : Rat) (i1 i2 : Nat) (r : Rat) :
    (sizeAt pop i1 < sizeAt pop i2 → (parsimonyPick pop ps i1 i2 r = i1 ↔ r < ps / 2) ∧
        (r < ps / 2 → parsimonyPick pop ps i1 i2 r = i1) ∧ (¬ r < ps / 2 → parsimonyPick pop ps i1 i2 r = i2)) ∧
    (sizeAt pop i2 < sizeAt pop i1 →
        (r < ps / 2 → parsimonyPick pop ps i1 i2 r = i2) ∧ (¬ r < ps / 2 → parsimonyPick pop ps i1 i2 r = i1)) ∧
    (sizeAt pop i1 = sizeAt pop i2 →
        (r < 1 / 2 → parsimonyPick pop ps i1 i2 r = i1) ∧ (¬ r < 1 / 2 → parsimonyPick pop ps i1 i2 r = i2)) := by
  unfold parsimonyPick
  refine ⟨?_, ?_, ?_⟩
  · intro h
    have hne : sizeAt pop i1 ≠ sizeAt pop i2 := by omega
    simp only [hne, h, ↓reduceIte]
    refine ⟨?_, fun hr => by simp [hr], fun hr => by simp [hr]⟩
    by_cases hr : r < ps / 2
    · simp [hr]
    · simp only [hr, ↓reduceIte, iff_false]
      intro he; rw [he] at h; omega
  · intro h
    have hne : sizeAt pop i1 ≠ sizeAt pop i2 := by omega
    have hnl : ¬ sizeAt pop i1 < sizeAt pop i2 := by omega
    simp only [hne, hnl, ↓reduceIte]
    exact ⟨fun hr => by simp [hr], fun hr => by simp [hr]⟩
  · intro h
    simp only [h, ↓reduceIte]
    exact ⟨fun hr => if_pos hr, fun hr => if_neg hr⟩

/-- Totality, size tournament first: for an admissible parsimony size, `fitness_size ≥ 1` and any
valid tape the operator returns (no exception). -/
theorem double_total_size_first (pop : Pop) (fs : Nat) (hfs : 0 < fs) (ps : Rat) (hps : 1 ≤ ps ∧ ps ≤ 2)
    (trace : List (List (Nat × Nat × Rat)))
    (hv : ∀ trips ∈ trace, trips.length = fs ∧ ∀ d ∈ trips, Valid3 pop.length d) (t : Tape) :
    ∃ res, selDoubleTournament pop trace.length fs ps false
      (trace.flatMap (fun trips => trips.flatMap enc3) ++ t) = some (res, t) := by
  obtain ⟨res, hres⟩ := forall₂_exists (R := fun win (trips : List (Nat × Nat × Rat)) =>
      trips.length = fs ∧ (∀ d ∈ trips, Valid3 pop.length d) ∧
      pyMax (fitGt pop) (trips.map (fun d => parsimonyPick pop ps d.1 d.2.1 d.2.2)) = some win) trace (by
    intro trips ht
    obtain ⟨hl, hd⟩ := hv trips ht
    have hne : trips.map (fun d => parsimonyPick pop ps d.1 d.2.1 d.2.2) ≠ [] := by
      intro h0
      have : trips = [] := by simpa using h0
      rw [this] at hl; simp at hl; omega
    obtain ⟨w, hw⟩ := pyMax_isSome pop hne
    exact ⟨w, hl, hd, hw⟩)
  exact ⟨res, (double_size_first_iff pop _ fs ps _ t res).2 ⟨hps, trace, rfl, rfl, hres⟩⟩

/-- Totality, fitness tournament first. -/
theorem double_total_fitness_first (pop : Pop) (fs : Nat) (hfs : 0 < fs) (ps : Rat) (hps : 1 ≤ ps ∧ ps ≤ 2)
    (trace : List (List Nat × List Nat × Rat))
    (hv : ∀ d ∈ trace, d.1.length = fs ∧ d.2.1.length = fs ∧ (∀ a ∈ d.1, a < pop.length) ∧
      (∀ a ∈ d.2.1, a < pop.length) ∧ 0 ≤ d.2.2 ∧ d.2.2 < 1) (t : Tape) :
    ∃ res, selDoubleTournament pop trace.length fs ps true (trace.flatMap encF ++ t) = some (res, t) := by
  obtain ⟨res, hres⟩ := forall₂_exists (R := fun win (d : List Nat × List Nat × Rat) =>
      d.1.length = fs ∧ d.2.1.length = fs ∧
      (∀ a ∈ d.1, a < pop.length) ∧ (∀ a ∈ d.2.1, a < pop.length) ∧ 0 ≤ d.2.2 ∧ d.2.2 < 1 ∧
      ∃ w1 w2, pyMax (fitGt pop) d.1 = some w1 ∧ pyMax (fitGt pop) d.2.1 = some w2 ∧
        win = parsimonyPick pop ps w1 w2 d.2.2) trace (by
    intro d hd
    obtain ⟨h1, h2, h3, h4, h5, h6⟩ := hv d hd
    have hne : ∀ g : List Nat, g.length = fs → g ≠ [] := by
      intro g hg h0; rw [h0] at hg; simp at hg; omega
    obtain ⟨w1, hw1⟩ := pyMax_isSome pop (hne _ h1)
    obtain ⟨w2, hw2⟩ := pyMax_isSome pop (hne _ h2)
    exact ⟨_, h1, h2, h3, h4, h5, h6, w1, w2, hw1, hw2, rfl⟩)
  exact ⟨res, (double_fitness_first_iff pop _ fs ps _ t res).2 ⟨hps, trace, rfl, rfl, hres⟩⟩

example : (∀ trips ∈ [[((0 : Nat), (1 : Nat), (1 / 4 : Rat))]], trips.length = 1 ∧ ∀ d ∈ trips, Valid3 2 d) ∧
    (∀ d ∈ [(([0] : List Nat), ([1] : List Nat), (3 / 4 : Rat))], d.1.length = 1 ∧ d.2.1.length = 1 ∧
      (∀ a ∈ d.1, a < 2) ∧ (∀ a ∈ d.2.1, a < 2) ∧ 0 ≤ d.2.2 ∧ d.2.2 < 1) := by
  constructor
  · intro trips ht
    simp only [List.mem_singleton] at ht
    subst ht
    refine ⟨rfl, ?_⟩
    intro d hd
    simp only [List.mem_singleton] at hd
    subst hd
    refine ⟨by decide, by decide, ?_, ?_⟩ <;> norm_num
  · intro d hd
    simp only [List.mem_singleton] at hd
    subst hd
    refine ⟨rfl, rfl, by decide, by decide, ?_, ?_⟩ <;> norm_num

example : selDoubleTournament [⟨[1], 2, 0⟩, ⟨[3], 1, 0⟩, ⟨[2], 1, 0⟩] 1 2 (7 / 5) true
    [Draw.choice 0, Draw.choice 2, Draw.choice 1, Draw.choice 1, Draw.random 0] = some ([2], []) := by
  have e1 : fitGt [⟨[1], 2, 0⟩, ⟨[3], 1, 0⟩, ⟨[2], 1, 0⟩] 2 0 = true := by decide
  have e2 : fitGt [⟨[1], 2, 0⟩, ⟨[3], 1, 0⟩, ⟨[2], 1, 0⟩] 1 1 = false := by decide
  simp [selDoubleTournament, sizeTournament, fitTournament, Selection.repeatM, sizeTournStep, fitTournStep,
    selRandom, popChoice, pyMax, popRandom, sizeAt, e1, e2]
  norm_num

/-! ### Roulette: each individual is picked over its share of the unit interval

`fs` are the first-objective values (`firstVals`), all strictly positive; the wheel is laid out in
the order `o = sorted(individuals, reverse=True)`.  `sumOn fs pre` is the total of the individuals
placed before a given one. -/

/-- `selRoulette` reads `k` draws `r ∈ [0,1)` and returns `k` individuals; for every individual
`j` (at its place `o = pre ++ j :: post` on the wheel) the draw `r` selects `j` **iff**
`r ∈ [c/S, (c + fⱼ)/S)` with `c = sumOn fs pre` — an interval of length `fⱼ/S`. -/
theorem roulette_share (w : List Rat) (pop : Pop) (k : Nat) (t t' : Tape) (res : List Nat) (fs : List Rat)
    (hfs : firstVals w pop = some fs) (hne : pop ≠ []) (hpos : ∀ f ∈ fs, 0 < f)
    (h : selRoulette w pop k t = some (res, t')) :
    ∃ rs : List Rat, t = rs.map Draw.random ++ t' ∧ rs.length = k ∧
      List.Forall₂ (fun r i => 0 ≤ r ∧ r < 1 ∧ i < pop.length ∧
        ∀ j pre post, sortedDesc (fitLt pop) (List.range pop.length) = pre ++ j :: post →
          (i = j ↔ sumOn fs pre / fs.sum ≤ r ∧ r < (sumOn fs pre + fs.getD j 0) / fs.sum)) rs res := by
  obtain ⟨hnd, hpo, hsum, hpy⟩ := wheel_facts hfs hpos
  obtain ⟨l, hl, rfl⟩ := (selRoulette_some_iff hfs).1 h
  obtain ⟨rs, rfl, hlen, rfl, hrs⟩ := roulette_repeat _ _ _ hl
  refine ⟨rs, rfl, hlen, ?_⟩
  have hone : sortedDesc (fitLt pop) (List.range pop.length) ≠ [] := by
    intro h0
    have := (sortedDesc_perm (fitLt pop) (List.range pop.length)).length_eq
    rw [h0] at this; simp at this; exact hne (List.eq_nil_of_length_eq_zero this.symm)
  have hS : 0 < fs.sum := by rw [← hsum]; exact sumOn_pos hpo hone
  clear hl hlen h
  induction rs with
  | nil => exact List.Forall₂.nil
  | cons r rs ih =>
    obtain ⟨hr0, hr1⟩ := hrs r (by simp)
    have hu0 : (0 : ℚ) ≤ r * pySum fs := by rw [hpy]; positivity
    have hu1 : r * pySum fs < 0 + sumOn fs (sortedDesc (fitLt pop) (List.range pop.length)) := by
      rw [hpy, hsum, zero_add]; nlinarith
    obtain ⟨i, hi⟩ := spin_isSome fs _ _ 0 hu0 hu1
    rw [List.map_cons, hi, List.filterMap_cons_some (by rfl)]
    refine List.Forall₂.cons ⟨hr0, hr1, ?_, ?_⟩ (ih (fun q hq => hrs q (by simp [hq])))
    · obtain ⟨pre, post, ho, _, _⟩ := (spin_some_iff fs _ _ 0 hpo hu0 i).1 hi
      exact (mem_sortedDesc_range pop _ i).1 (by rw [ho]; simp)
    · intro j pre post ho
      have key := spin_some_iff fs (r * pySum fs) _ 0 hpo hu0 j
      rw [hi, hpy] at key
      simp only [Option.some.injEq, zero_add] at key
      rw [key, div_le_iff₀ hS, lt_div_iff₀ hS]
      constructor
      · rintro ⟨pre', post', ho', h1, h2⟩
        obtain ⟨rfl, rfl⟩ := nodup_decomp_unique hnd ho ho'
        exact ⟨h1, h2⟩
      · rintro ⟨h1, h2⟩
        exact ⟨pre, post, ho, h1, h2⟩

example : firstVals [1] [⟨[3], 0, 0⟩, ⟨[1], 0, 0⟩] = some [3, 1] ∧ ∀ f ∈ [(3 : Rat), 1], 0 < f := by
  norm_num [firstVals, values]

/-- Every tape of draws from `[0,1)` yields a result (on evaluated individuals). -/
theorem roulette_total (w : List Rat) (pop : Pop) (fs : List Rat) (hfs : firstVals w pop = some fs)
    (rs : List Rat) (hv : ∀ r ∈ rs, 0 ≤ r ∧ r < 1) (t : Tape) :
    ∃ res, selRoulette w pop rs.length (rs.map Draw.random ++ t) = some (res, t) :=
  ⟨_, (selRoulette_some_iff hfs).2 ⟨_, roulette_repeat_total fs _ _ rs t hv, rfl⟩⟩

example : ∀ r ∈ [(0 : Rat), 7 / 8], 0 ≤ r ∧ r < 1 := by norm_num

/-- On strictly positive fitnesses every turn of the wheel stops: exactly `k` individuals. -/
theorem length_roulette (w : List Rat) (pop : Pop) (k : Nat) (t t' : Tape) (res : List Nat) (fs : List Rat)
    (hfs : firstVals w pop = some fs) (hne : pop ≠ []) (hpos : ∀ f ∈ fs, 0 < f)
    (h : selRoulette w pop k t = some (res, t')) : res.length = k := by
  obtain ⟨rs, _, hlen, hall⟩ := roulette_share w pop k t t' res fs hfs hne hpos h
  rw [← hall.length_eq]; exact hlen

/-- Whatever the fitness values, roulette returns input individuals only. -/
theorem refs_roulette (w : List Rat) (pop : Pop) (k : Nat) (t t' : Tape) (res : List Nat)
    (h : selRoulette w pop k t = some (res, t')) : ∀ i ∈ res, i < pop.length := by
  cases hfs : firstVals w pop with
  | none => simp [selRoulette, hfs] at h
  | some fs =>
    obtain ⟨l, hl, rfl⟩ := (selRoulette_some_iff hfs).1 h
    intro i hi
    rw [List.mem_filterMap] at hi
    obtain ⟨x, hx, hxi⟩ := hi
    simp only [id] at hxi
    have := repeatM_forall _ (fun (x : Option Nat) => ∀ i, x = some i → i < pop.length) ?_ hl x hx i hxi
    · exact this
    · intro t1 y t2 hy i hyi
      unfold rouletteStep at hy
      cases hr : popRandom t1 with
      | none => simp [hr] at hy
      | some p =>
        simp only [hr, Option.some.injEq, Prod.mk.injEq] at hy
        rw [← hy.1] at hyi
        exact (mem_sortedDesc_range pop _ i).1 (spin_mem hyi)

/-! ### Stochastic universal sampling: floor or ceil of `k` times the share -/

/-- Universal sampling returns exactly `k` input individuals whenever it returns. -/
theorem length_refs_sus (w : List Rat) (pop : Pop) (k : Nat) (t t' : Tape) (res : List Nat)
    (h : selSUS w pop k t = some (res, t')) : res.length = k ∧ ∀ i ∈ res, i < pop.length := by
  by_cases hk : k = 0
  · subst hk; simp [selSUS] at h; simp [h.1]
  cases hfs : firstVals w pop with
  | none => simp [selSUS, hk, hfs] at h
  | some fs =>
    obtain ⟨r, _, hres⟩ := (selSUS_some_iff hk hfs).1 h
    refine ⟨by rw [mapM_length _ _ _ hres]; simp [susPoints], ?_⟩
    intro i hi
    obtain ⟨p, _, hp⟩ := mapM_mem _ _ _ hres i hi
    exact (mem_sortedDesc_range pop _ i).1 (susPoint_mem hp)


/-- On strictly positive fitnesses the walk `while sum_ < p` never runs past the end of the
list: for every draw `r ∈ [0,1)` the operator has a result, of length `k`, of input indices. -/
theorem sus_total (w : List Rat) (pop : Pop) (k : Nat) (t : Tape) (fs : List Rat) (r : Rat)
    (hfs : firstVals w pop = some fs) (hne : pop ≠ []) (hpos : ∀ f ∈ fs, 0 < f) (hk0 : 0 < k)
    (hr0 : 0 ≤ r) (hr1 : r < 1) :
    ∃ res, selSUS w pop k (Draw.random r :: t) = some (res, t) ∧ res.length = k ∧
      ∀ i ∈ res, i < pop.length := by
  have hk : k ≠ 0 := Nat.pos_iff_ne_zero.1 hk0
  obtain ⟨hnd, hpo, hsum, hpy⟩ := wheel_facts hfs hpos
  have hone : sortedDesc (fitLt pop) (List.range pop.length) ≠ [] := by
    intro h0
    have := (sortedDesc_perm (fitLt pop) (List.range pop.length)).length_eq
    rw [h0] at this; simp at this; exact hne (List.eq_nil_of_length_eq_zero this.symm)
  have hS : 0 < fs.sum := by rw [← hsum]; exact sumOn_pos hpo hone
  have hkq : (0 : ℚ) < (k : ℚ) := by exact_mod_cast Nat.pos_of_ne_zero hk
  have hsome : ∃ res, (susPoints (0 + (pySum fs / (k : ℚ) - 0) * r) (pySum fs / (k : ℚ)) k).mapM
      (susPoint fs (sortedDesc (fitLt pop) (List.range pop.length))) = some res := by
    apply mapM_isSome
    intro p hp
    unfold susPoints at hp
    obtain ⟨m, hm, rfl⟩ := List.mem_map.1 hp
    apply susPoint_isSome _ _ _ hone
    rw [hsum, hpy]
    have hm' : (m : ℚ) + 1 ≤ (k : ℚ) := by exact_mod_cast (List.mem_range.1 hm)
    have hd : 0 < fs.sum / (k : ℚ) := div_pos hS hkq
    have : fs.sum = (k : ℚ) * (fs.sum / (k : ℚ)) := by field_simp
    nlinarith
  obtain ⟨res, hres⟩ := hsome
  refine ⟨res, (selSUS_some_iff hk hfs).2 ⟨r, popRandom_some.2 ⟨rfl, hr0, hr1⟩, hres⟩, ?_, ?_⟩
  · rw [mapM_length _ _ _ hres]; simp [susPoints]
  · intro i hi
    obtain ⟨p, _, hp⟩ := mapM_mem _ _ _ hres i hi
    obtain ⟨pre, post, ho, _, _⟩ := (susPoint_iff fs _ p hpo i).1 hp
    exact (mem_sortedDesc_range pop _ i).1 (by rw [ho]; simp)

/-- For an interior draw `0 < r < 1` every individual `i` is selected `⌊k·fᵢ/S⌋` or `⌈k·fᵢ/S⌉`
times. -/
theorem sus_counts (w : List Rat) (pop : Pop) (k : Nat) (t t' : Tape) (res : List Nat) (fs : List Rat)
    (r : Rat) (hfs : firstVals w pop = some fs) (hpos : ∀ f ∈ fs, 0 < f) (hk : 0 < k) (hr : 0 < r)
    (h : selSUS w pop k (Draw.random r :: t) = some (res, t')) :
    ∀ i, i < pop.length →
      ((res.count i : ℕ) : ℤ) = ⌊(k : ℚ) * fs.getD i 0 / fs.sum⌋ ∨
      ((res.count i : ℕ) : ℤ) = ⌈(k : ℚ) * fs.getD i 0 / fs.sum⌉ := by
  intro i hi
  obtain ⟨hnd, hpo, hsum, hpy⟩ := wheel_facts hfs hpos
  obtain ⟨r', hr', hres⟩ := (selSUS_some_iff (Nat.pos_iff_ne_zero.1 hk) hfs).1 h
  obtain ⟨heq, hr0, hr1⟩ := popRandom_some.1 hr'
  simp only [List.cons.injEq, Draw.random.injEq] at heq
  obtain ⟨rfl, rfl⟩ := heq
  have hmem := (mem_sortedDesc_range pop _ i).2 hi
  obtain ⟨pre, post, ho⟩ := List.append_of_mem hmem
  have hS : 0 < fs.sum := by
    rw [← hsum]; exact sumOn_pos hpo (by rw [ho]; simp)
  have hkq : (0 : ℚ) < (k : ℚ) := by exact_mod_cast hk
  have hd : 0 < fs.sum / (k : ℚ) := div_pos hS hkq
  have hfi : 0 < fs.getD i 0 := hpo i hmem
  have hpre : 0 ≤ sumOn fs pre := sumOn_nonneg (fun j hj => hpo j (by rw [ho]; simp [hj]))
  have hpost : 0 ≤ sumOn fs post := sumOn_nonneg (fun j hj => hpo j (by rw [ho]; simp [hj]))
  have htot : sumOn fs pre + fs.getD i 0 + sumOn fs post = fs.sum := by
    rw [← hsum, ho, sumOn_append, sumOn_cons]; ring
  rw [hpy] at hres
  rw [sus_count_eq fs _ pre post i k r _ hpo hnd ho res hres,
    sus_count_floor k r _ (sumOn fs pre) (fs.getD i 0) pre hk hd hr hr1 hpre hfi
      (by rw [mul_div_cancel₀ _ (ne_of_gt hkq)]; linarith) (by rintro rfl; rfl)]
  have hq : fs.getD i 0 / (fs.sum / (k : ℚ)) = (k : ℚ) * fs.getD i 0 / fs.sum := by
    field_simp
  rw [hq]
  exact floor_add_sub_floor _ _

/-- The boundary draw `r = 0` (F13: `start = 0.0`, a pointer exactly on a wheel boundary goes to the
earlier individual, and pointer 0 goes to the first): the first individual of the sorted order
receives `⌊q⌋ + 1` pointers, the last `⌈q⌉ - 1`, every other one `⌊q⌋` or `⌈q⌉`
(`q = k·fᵢ/S`); a single individual receives all `k`. -/
theorem sus_counts_r0 (w : List Rat) (pop : Pop) (k : Nat) (t t' : Tape) (res : List Nat) (fs : List Rat)
    (hfs : firstVals w pop = some fs) (hpos : ∀ f ∈ fs, 0 < f) (hk : 0 < k)
    (h : selSUS w pop k (Draw.random 0 :: t) = some (res, t')) :
    ∀ i pre post, sortedDesc (fitLt pop) (List.range pop.length) = pre ++ i :: post →
      (pre ≠ [] → post ≠ [] →
        ((res.count i : ℕ) : ℤ) = ⌊(k : ℚ) * fs.getD i 0 / fs.sum⌋ ∨
        ((res.count i : ℕ) : ℤ) = ⌈(k : ℚ) * fs.getD i 0 / fs.sum⌉) ∧
      (pre = [] → post ≠ [] → ((res.count i : ℕ) : ℤ) = ⌊(k : ℚ) * fs.getD i 0 / fs.sum⌋ + 1) ∧
      (pre ≠ [] → post = [] → ((res.count i : ℕ) : ℤ) = ⌈(k : ℚ) * fs.getD i 0 / fs.sum⌉ - 1) ∧
      (pre = [] → post = [] → res.count i = k) := by
  intro i pre post ho
  obtain ⟨hnd, hpo, hsum, hpy⟩ := wheel_facts hfs hpos
  obtain ⟨r', hr', hres⟩ := (selSUS_some_iff (Nat.pos_iff_ne_zero.1 hk) hfs).1 h
  obtain ⟨heq, _, _⟩ := popRandom_some.1 hr'
  simp only [List.cons.injEq, Draw.random.injEq] at heq
  obtain ⟨rfl, rfl⟩ := heq
  have hmem : i ∈ sortedDesc (fitLt pop) (List.range pop.length) := by rw [ho]; simp
  have hS : 0 < fs.sum := by
    rw [← hsum]; exact sumOn_pos hpo (by rw [ho]; simp)
  have hkq : (0 : ℚ) < (k : ℚ) := by exact_mod_cast hk
  have hd : 0 < fs.sum / (k : ℚ) := div_pos hS hkq
  have hfi : 0 < fs.getD i 0 := hpo i hmem
  have hpre : 0 ≤ sumOn fs pre := sumOn_nonneg (fun j hj => hpo j (by rw [ho]; simp [hj]))
  have hpost : 0 ≤ sumOn fs post := sumOn_nonneg (fun j hj => hpo j (by rw [ho]; simp [hj]))
  have htot : sumOn fs pre + fs.getD i 0 + sumOn fs post = fs.sum := by
    rw [← hsum, ho, sumOn_append, sumOn_cons]; ring
  have hkd : (k : ℚ) * (fs.sum / (k : ℚ)) = fs.sum := mul_div_cancel₀ _ (ne_of_gt hkq)
  rw [hpy] at hres
  have hcount := sus_count_floor_r0 k (fs.sum / (k : ℚ)) (sumOn fs pre) (fs.getD i 0) pre hk hd hpre hfi
      (by rw [hkd]; linarith)
      (fun hp => sumOn_pos (fun j hj => hpo j (by rw [ho]; simp [hj])) hp)
  rw [← sus_count_eq fs _ pre post i k 0 _ hpo hnd ho res hres] at hcount
  have hq : fs.getD i 0 / (fs.sum / (k : ℚ)) = (k : ℚ) * fs.getD i 0 / fs.sum := by
    field_simp
  have hsplit : (sumOn fs pre + fs.getD i 0) / (fs.sum / (k : ℚ))
      = sumOn fs pre / (fs.sum / (k : ℚ)) + (k : ℚ) * fs.getD i 0 / fs.sum := by
    rw [add_div, hq]
  -- the two possible shapes of the upper end
  have hupper_lt : post ≠ [] →
      min (k : ℤ) (⌊(sumOn fs pre + fs.getD i 0) / (fs.sum / (k : ℚ))⌋ + 1)
        = ⌊(sumOn fs pre + fs.getD i 0) / (fs.sum / (k : ℚ))⌋ + 1 := by
    intro hp
    have : 0 < sumOn fs post := sumOn_pos (fun j hj => hpo j (by rw [ho]; simp [hj])) hp
    apply min_eq_right
    rw [Int.add_one_le_iff, Int.floor_lt, div_lt_iff₀ hd]
    push_cast; rw [hkd]; linarith
  have hupper_eq : post = [] →
      min (k : ℤ) (⌊(sumOn fs pre + fs.getD i 0) / (fs.sum / (k : ℚ))⌋ + 1) = (k : ℤ) := by
    intro hp
    have h0 : sumOn fs post = 0 := by rw [hp]; rfl
    have : (sumOn fs pre + fs.getD i 0) / (fs.sum / (k : ℚ)) = ((k : ℤ) : ℚ) := by
      rw [div_eq_iff (ne_of_gt hd)]; push_cast; rw [hkd]; linarith
    rw [this, Int.floor_intCast]; apply min_eq_left; omega
  refine ⟨?_, ?_, ?_, ?_⟩
  · intro hp1 hp2
    rw [hupper_lt hp2, if_neg hp1, hsplit] at hcount
    have := floor_add_sub_floor (sumOn fs pre / (fs.sum / (k : ℚ))) ((k : ℚ) * fs.getD i 0 / fs.sum)
    rcases this with h1 | h1
    · left; rw [hcount, ← h1]; ring
    · right; rw [hcount, ← h1]; ring
  · intro hp1 hp2
    rw [hupper_lt hp2, if_pos hp1, hsplit, hp1] at hcount
    simpa using hcount
  · intro hp1 hp2
    rw [hupper_eq hp2, if_neg hp1] at hcount
    have h0 : sumOn fs post = 0 := by rw [hp2]; rfl
    have hC : sumOn fs pre / (fs.sum / (k : ℚ)) = ((k : ℤ) : ℚ) + -((k : ℚ) * fs.getD i 0 / fs.sum) := by
      rw [← hq, ← sub_eq_add_neg, eq_sub_iff_add_eq, ← add_div, div_eq_iff (ne_of_gt hd)]
      push_cast; rw [hkd]; linarith
    rw [hC, Int.floor_intCast_add, Int.floor_neg] at hcount
    rw [hcount]; ring
  · intro hp1 hp2
    rw [hupper_eq hp2, if_pos hp1, sub_zero] at hcount
    exact_mod_cast hcount

example : firstVals [1] [⟨[2], 0, 0⟩, ⟨[2], 0, 0⟩] = some [2, 2] ∧ (∀ f ∈ [(2 : Rat), 2], 0 < f) ∧
    selSUS [1] [⟨[2], 0, 0⟩, ⟨[2], 0, 0⟩] 2 [Draw.random (1 / 2)] = some ([0, 1], []) := by
  refine ⟨by norm_num [firstVals, values], by norm_num, ?_⟩
  rw [selSUS_some_iff (fs := [2, 2]) (by decide) (by norm_num [firstVals, values])]
  refine ⟨1 / 2, by norm_num [popRandom], ?_⟩
  have ho : sortedDesc (fitLt [⟨[2], 0, 0⟩, ⟨[2], 0, 0⟩]) (List.range 2) = [0, 1] := by
    simp [sortedDesc, List.range, List.range.loop, List.mergeSort, List.MergeSort.Internal.splitInTwo, List.merge]
    decide
  simp only [List.length_cons, List.length_nil, zero_add, Nat.reduceAdd, ho]
  norm_num [pySum, susPoints, List.range, List.range.loop, susPoint, susWalk]

example : selSUS [1] [⟨[2], 0, 0⟩, ⟨[2], 0, 0⟩] 2 [Draw.random 0] = some ([0, 0], []) := by
  rw [selSUS_some_iff (fs := [2, 2]) (by decide) (by norm_num [firstVals, values])]
  refine ⟨0, by norm_num [popRandom], ?_⟩
  have ho : sortedDesc (fitLt [⟨[2], 0, 0⟩, ⟨[2], 0, 0⟩]) (List.range 2) = [0, 1] := by
    simp [sortedDesc, List.range, List.range.loop, List.mergeSort, List.MergeSort.Internal.splitInTwo, List.merge]
    decide
  simp only [List.length_cons, List.length_nil, zero_add, Nat.reduceAdd, ho]
  norm_num [pySum, susPoints, List.range, List.range.loop, susPoint, susWalk]

/-! ### Lexicase: the winner is never dominated case-by-case

Vocabulary (`Lemmas/C06Lex.lean`): `geqOn w vals c x y` — `x` is at least as good as `y` on case
`c` in the direction of the weight's sign; `betterBy w vals c x y tol` — `x` is better than `y` on
case `c` by more than `tol`; `lexTrace` — the processed cases with the candidate lists they were
applied to; `tolAt rule vals c cands` — the tolerance the rule uses there (0, ε, or the median
absolute deviation of the candidates' values); `nCases` — `len(individuals[0].fitness.values)`. -/

/-- Generic form for the three operators.  Every selected individual `win` is an input individual;
it was chosen with some shuffle `cases` of the fitness cases, and for every individual `x` that is
at least as good as `win` on every case: at every processed case `x` is still a candidate and does
*not* beat `win` by more than the tolerance used at that case; moreover, unless `x` is `win` itself,
no case was skipped. -/
theorem lexicase_tol (rule : Rule) (w : List Rat) (pop : Pop) (k : Nat) (t t' : Tape) (res : List Nat)
    (h : selLexicaseWith rule w pop k t = some (res, t')) :
    ∀ win ∈ res, win < pop.length ∧ ∃ cases : List Nat, cases.Perm (List.range (nCases w pop)) ∧
      ∀ x, x < pop.length → (∀ c, c < nCases w pop → geqOn w (pop.map (values w)) c x win) →
        (∀ p ∈ lexTrace rule w (pop.map (values w)) cases (List.range pop.length),
          x ∈ p.2 ∧ win ∈ p.2 ∧
          ¬ betterBy w (pop.map (values w)) p.1 x win (tolAt rule (pop.map (values w)) p.1 p.2)) ∧
        (x ≠ win → (lexTrace rule w (pop.map (values w)) cases (List.range pop.length)).map Prod.fst = cases) := by
  refine repeatM_forall _ _ ?_ h
  intro t1 win t2 hstep
  obtain ⟨cases, j, _, hperm, hwin⟩ := lexStep_spec hstep
  have hwn : win < pop.length := List.mem_range.1 (lexLoop_sub _ _ _ _ _ win hwin)
  refine ⟨hwn, cases, hperm, ?_⟩
  intro x hx hg
  exact lexTrace_spec hwin (List.mem_range.2 hx)
    (fun c hc => hg c (List.mem_range.1 ((hperm.mem_iff).1 hc)))

theorem length_refs_lexicase (rule : Rule) (w : List Rat) (pop : Pop) (k : Nat) (t t' : Tape) (res : List Nat)
    (h : selLexicaseWith rule w pop k t = some (res, t')) : res.length = k ∧ ∀ i ∈ res, i < pop.length :=
  ⟨repeatM_length _ h, fun i hi => (lexicase_tol rule w pop k t t' res h i hi).1⟩

/-- Plain lexicase: the winner is Pareto non-dominated — an individual that is at least as good on
every case is equal to it on every case (so none is also strictly better somewhere). -/
theorem lexicase_pareto (w : List Rat) (pop : Pop) (k : Nat) (t t' : Tape) (res : List Nat)
    (h : selLexicaseWith Rule.exact w pop k t = some (res, t')) :
    ∀ win ∈ res, ∀ x, x < pop.length →
      (∀ c, c < nCases w pop → geqOn w (pop.map (values w)) c x win) →
      ∀ c, c < nCases w pop → valAt (pop.map (values w)) x c = valAt (pop.map (values w)) win c := by
  intro win hwin x hx hg c hc
  by_cases hne : x = win
  · rw [hne]
  obtain ⟨_, cases, hperm, hspec⟩ := lexicase_tol _ w pop k t t' res h win hwin
  obtain ⟨h1, h2⟩ := hspec x hx hg
  have hcm : c ∈ (lexTrace Rule.exact w (pop.map (values w)) cases (List.range pop.length)).map Prod.fst := by
    rw [h2 hne, hperm.mem_iff]; exact List.mem_range.2 hc
  obtain ⟨p, hp, rfl⟩ := List.mem_map.1 hcm
  have hb := (h1 p hp).2.2
  have hgc := hg p.1 hc
  unfold betterBy tolAt at hb
  unfold geqOn at hgc
  simp only [tolOf, add_zero] at hb
  by_cases hw : w.getD p.1 0 > 0
  · simp only [hw, ↓reduceIte] at hb hgc; exact le_antisymm (not_lt.1 hb) hgc
  · simp only [hw, ↓reduceIte] at hb hgc; exact le_antisymm hgc (not_lt.1 hb)

/-- ε-lexicase (`ε ≥ 0`): no individual that is at least as good as the winner on every case is
better than it by more than `ε` on any case. -/
theorem epsilon_lexicase_tol (e : Rat) (he : 0 ≤ e) (w : List Rat) (pop : Pop) (k : Nat) (t t' : Tape)
    (res : List Nat) (h : selLexicaseWith (Rule.eps e) w pop k t = some (res, t')) :
    ∀ win ∈ res, ∀ x, x < pop.length →
      (∀ c, c < nCases w pop → geqOn w (pop.map (values w)) c x win) →
      ∀ c, c < nCases w pop → ¬ betterBy w (pop.map (values w)) c x win e := by
  intro win hwin x hx hg c hc
  by_cases hne : x = win
  · rw [hne]; unfold betterBy; split <;> (intro h; linarith)
  obtain ⟨_, cases, hperm, hspec⟩ := lexicase_tol _ w pop k t t' res h win hwin
  obtain ⟨h1, h2⟩ := hspec x hx hg
  have hcm : c ∈ (lexTrace (Rule.eps e) w (pop.map (values w)) cases (List.range pop.length)).map Prod.fst := by
    rw [h2 hne, hperm.mem_iff]; exact List.mem_range.2 hc
  obtain ⟨p, hp, rfl⟩ := List.mem_map.1 hcm
  exact (h1 p hp).2.2

/-- Automatic-ε lexicase, spelled out: an individual that is at least as good as the winner on every
case is, at every case the loop processed, still a candidate and not better than the winner by more
than the median absolute deviation of the candidates' values on that case; and unless it is the
winner itself every case was processed. -/
theorem auto_lexicase_tol (w : List Rat) (pop : Pop) (k : Nat) (t t' : Tape) (res : List Nat)
    (h : selLexicaseWith Rule.auto w pop k t = some (res, t')) :
    ∀ win ∈ res, ∃ cases : List Nat, cases.Perm (List.range (nCases w pop)) ∧
      ∀ x, x < pop.length → (∀ c, c < nCases w pop → geqOn w (pop.map (values w)) c x win) →
        (∀ p ∈ lexTrace Rule.auto w (pop.map (values w)) cases (List.range pop.length),
          x ∈ p.2 ∧ win ∈ p.2 ∧
          ¬ betterBy w (pop.map (values w)) p.1 x win
            (median ((p.2.map (fun i => valAt (pop.map (values w)) i p.1)).map
              (fun v => absRat (v - median (p.2.map (fun i => valAt (pop.map (values w)) i p.1))))))) ∧
        (x ≠ win → (lexTrace Rule.auto w (pop.map (values w)) cases (List.range pop.length)).map Prod.fst = cases) := by
  intro win hwin
  obtain ⟨_, cases, hperm, hspec⟩ := lexicase_tol Rule.auto w pop k t t' res h win hwin
  exact ⟨cases, hperm, hspec⟩

/-- With a non-negative tolerance (`RuleOK`: `ε ≥ 0`; plain and automatic always) on a non-empty
population of evaluated individuals of one fitness class, the candidate list never becomes empty
and every shuffle of the cases followed by any valid choice yields a selection (no exception). -/
theorem lexicase_step_total (rule : Rule) (hr : RuleOK rule) (w : List Rat) (pop : Pop) (hne : pop ≠ [])
    (hwf : ∀ x ∈ pop, (values w x).length = nCases w pop) (cases : List Nat)
    (hperm : cases.Perm (List.range (nCases w pop))) :
    lexLoop rule w (pop.map (values w)) cases (List.range pop.length) ≠ [] ∧
    ∀ j, j < (lexLoop rule w (pop.map (values w)) cases (List.range pop.length)).length → ∀ t,
      lexStep rule w pop (Draw.shuffle cases :: Draw.choice j :: t) =
        some ((lexLoop rule w (pop.map (values w)) cases (List.range pop.length)).getD j 0, t) := by
  have hrange : List.range pop.length ≠ [] := by
    cases pop with
    | nil => exact absurd rfl hne
    | cons a l => simp [List.range_succ]
  refine ⟨lexLoop_ne_nil hr _ _ _ hrange, ?_⟩
  intro j hj t
  unfold lexStep
  simp only
  unfold nCases at hwf hperm
  cases hv : pop.map (values w) with
  | nil => simp at hv; exact absurd hv hne
  | cons v0 rest =>
    rw [hv] at hwf hperm hj
    simp only [List.headD_cons] at hwf hperm
    have hall : (v0 :: rest).all (fun v => decide (v.length = v0.length)) = true := by
      rw [List.all_eq_true]
      intro v hvm
      rw [← hv] at hvm
      obtain ⟨x, hx, rfl⟩ := List.mem_map.1 hvm
      simpa using hwf x hx
    simp only [hall, ↓reduceIte]
    have hs : popShuffle v0.length (Draw.shuffle cases :: Draw.choice j :: t) = some (cases, Draw.choice j :: t) :=
      popShuffle_some.2 ⟨rfl, hperm⟩
    simp only [hs]
    have hc : popChoice (lexLoop rule w (v0 :: rest) cases (List.range pop.length)).length (Draw.choice j :: t)
        = some (j, t) := popChoice_some.2 ⟨rfl, hj⟩
    simp only [hc]

example : RuleOK (Rule.eps (1 / 2)) ∧ RuleOK Rule.auto ∧ RuleOK Rule.exact := by
  refine ⟨?_, trivial, trivial⟩; show (0 : ℚ) ≤ 1 / 2; norm_num
example : (∀ x ∈ [(⟨[1, -2], 0, 0⟩ : Ind), ⟨[1, -3], 0, 0⟩], (values [1, -1] x).length = nCases [1, -1] [⟨[1, -2], 0, 0⟩, ⟨[1, -3], 0, 0⟩])
    ∧ [1, 0].Perm (List.range (nCases [1, -1] [⟨[1, -2], 0, 0⟩, ⟨[1, -3], 0, 0⟩])) := by
  refine ⟨by simp [values, nCases], ?_⟩
  simp [values, nCases, List.range, List.range.loop]
  exact List.Perm.swap 0 1 []

/-- The tolerance of the automatic variant is the median absolute deviation of the candidates'
values on the case (numpy's median: mean of the two middle elements). -/
theorem tolAt_auto (vals : List (List Rat)) (c : Nat) (cands : List Nat) :
    tolAt Rule.auto vals c cands =
      median ((cands.map (fun i => valAt vals i c)).map
        (fun x => absRat (x - median (cands.map (fun i => valAt vals i c))))) := rfl

example : selLexicaseWith Rule.exact [1, -1] [⟨[1, -2], 0, 0⟩, ⟨[1, -3], 0, 0⟩, ⟨[0, 0], 0, 0⟩] 1
    [Draw.shuffle [0, 1], Draw.choice 0] = some ([0], []) := by
  simp [selLexicaseWith, Selection.repeatM, lexStep, values, popShuffle, List.range, List.range.loop,
    List.isPerm, lexLoop, filterCase, valAt, listMax, listMin, popChoice]
  norm_num

/-! ### The dominance / crowding tournament -/

/-- For `k` a multiple of four the tournament returns exactly `k` individuals. -/
theorem length_dcd (pop : Pop) (k : Nat) (t t' : Tape) (res : List Nat) (hk : 4 ∣ k)
    (h : selTournamentDCD pop k t = some (res, t')) : res.length = k := by
  obtain ⟨_, p1, p2, t2, _, _, _, hloop⟩ := selTournamentDCD_some h
  rw [(dcdLoop_spec hloop).1]
  omega

theorem refs_dcd (pop : Pop) (k : Nat) (t t' : Tape) (res : List Nat)
    (h : selTournamentDCD pop k t = some (res, t')) : ∀ i ∈ res, i < pop.length := by
  obtain ⟨_, p1, p2, t2, _, hp1, hp2, hloop⟩ := selTournamentDCD_some h
  intro i hi
  rcases (dcdLoop_spec hloop).2.2 i hi with h' | h'
  · exact List.mem_range.1 (hp1.mem_iff.1 h')
  · exact List.mem_range.1 (hp2.mem_iff.1 h')

/-- No individual (= position of the duplicate-free input list) is selected more than twice. -/
theorem dcd_twice (pop : Pop) (k : Nat) (t t' : Tape) (res : List Nat)
    (h : selTournamentDCD pop k t = some (res, t')) : ∀ i, res.count i ≤ 2 := by
  obtain ⟨_, p1, p2, t2, _, hp1, hp2, hloop⟩ := selTournamentDCD_some h
  intro i
  have h1 : p1.count i ≤ 1 := List.nodup_iff_count_le_one.1 (hp1.nodup_iff.2 List.nodup_range) i
  have h2 : p2.count i ≤ 1 := List.nodup_iff_count_le_one.1 (hp2.nodup_iff.2 List.nodup_range) i
  have := (dcdLoop_spec hloop).2.1 i
  omega

/-- For `k ≤ n`, `4 ∣ k`, two valid sample draws and a supply of `k` valid coins the tournament
returns (no `IndexError` / `ValueError`). -/
theorem dcd_total (pop : Pop) (k : Nat) (hk : k ≤ pop.length) (h4 : 4 ∣ k) (p1 p2 : List Nat)
    (hp1 : p1.Perm (List.range pop.length)) (hp2 : p2.Perm (List.range pop.length))
    (coins : List Rat) (hc : k ≤ coins.length) (hv : ∀ r ∈ coins, 0 ≤ r ∧ r < 1) (t : Tape) :
    ∃ res t', selTournamentDCD pop k (Draw.sample p1 :: Draw.sample p2 :: (coins.map Draw.random ++ t))
      = some (res, t') := by
  unfold selTournamentDCD
  simp only
  have hnk : ¬ k > pop.length := by omega
  have hmod : ¬ (k = pop.length ∧ k % 4 ≠ 0) := by
    rintro ⟨_, h⟩; exact h (Nat.mod_eq_zero_of_dvd h4)
  simp only [hnk, hmod, ↓reduceIte]
  have hs1 : popSample pop.length (Draw.sample p1 :: Draw.sample p2 :: (coins.map Draw.random ++ t))
      = some (p1, Draw.sample p2 :: (coins.map Draw.random ++ t)) := popSample_some.2 ⟨rfl, hp1⟩
  rw [hs1]
  simp only
  have hs2 : popSample pop.length (Draw.sample p2 :: (coins.map Draw.random ++ t))
      = some (p2, coins.map Draw.random ++ t) := popSample_some.2 ⟨rfl, hp2⟩
  rw [hs2]
  simp only
  have hm : 4 * ((k + 3) / 4) = k := by omega
  have hl1 : p1.length = pop.length := by rw [hp1.length_eq]; simp
  have hl2 : p2.length = pop.length := by rw [hp2.length_eq]; simp
  obtain ⟨res, coins', h⟩ := dcdLoop_total pop ((k + 3) / 4) p1 p2 coins t (by omega) (by omega) (by omega) hv
  exact ⟨res, _, h⟩

example : [2, 0, 3, 1].Perm (List.range 4) ∧ (4 : ℕ) ∣ 4 := by decide

example : selTournamentDCD [⟨[1], 0, 0⟩, ⟨[2], 0, 0⟩, ⟨[1], 0, 1⟩, ⟨[0], 0, 0⟩] 4
    [Draw.sample [0, 1, 2, 3], Draw.sample [2, 0, 3, 1]] = some ([1, 2, 2, 1], []) := by
  decide

/-! ### Populations with repeated object references

A population is a list of positions; two positions may hold the very same object (a mating pool made by a
selector with replacement).  Nothing above assumes the entries of `pop` distinct: every theorem is about
positions.  What identity (`is`) can observe of an object is the set `obj` of positions holding it; the two
theorems below state the roulette and universal-sampling clauses for such a set — every position keeps its own
sector of the wheel, and the total is taken over positions, not over distinct objects. -/

/-- Roulette over positions: the draw `r` returns a position of `obj` iff it falls in the sector of one of the
positions of `obj` (each of length `fⱼ/S`, `S` the total over all positions). -/
theorem roulette_shares_positions (w : List Rat) (pop : Pop) (k : Nat) (t t' : Tape) (res : List Nat)
    (fs : List Rat) (hfs : firstVals w pop = some fs) (hne : pop ≠ []) (hpos : ∀ f ∈ fs, 0 < f)
    (h : selRoulette w pop k t = some (res, t')) (obj : List Nat) :
    ∃ rs : List Rat, t = rs.map Draw.random ++ t' ∧ rs.length = k ∧
      List.Forall₂ (fun r i => i < pop.length ∧
        (i ∈ obj ↔ ∃ j ∈ obj, ∃ pre post,
          sortedDesc (fitLt pop) (List.range pop.length) = pre ++ j :: post ∧
          sumOn fs pre / fs.sum ≤ r ∧ r < (sumOn fs pre + fs.getD j 0) / fs.sum)) rs res := by
  obtain ⟨rs, ht, hlen, hall⟩ := roulette_share w pop k t t' res fs hfs hne hpos h
  refine ⟨rs, ht, hlen, hall.imp ?_⟩
  intro r i hri
  obtain ⟨_, _, hi, hiff⟩ := hri
  refine ⟨hi, ?_, ?_⟩
  · intro hio
    obtain ⟨pre, post, hpp⟩ := List.append_of_mem ((mem_sortedDesc_range pop _ i).2 hi)
    exact ⟨i, hio, pre, post, hpp, (hiff i pre post hpp).1 rfl⟩
  · rintro ⟨j, hj, pre, post, hpp, hr⟩
    rw [(hiff j pre post hpp).2 hr]
    exact hj

/-- A wheel with the same object at positions 0 and 2 (equal entries, fitnesses 1, 2, 1: total 4). -/
example : ([⟨[1], 0, 0⟩, ⟨[2], 0, 0⟩, ⟨[1], 0, 0⟩] : Pop) ≠ [] ∧ (∀ f ∈ [(1 : Rat), 2, 1], 0 < f) := by
  refine ⟨by simp, by norm_num⟩

/-- Universal sampling over positions: the positions `obj` of one object are returned, together, between the
sum of the floors and the sum of the ceilings of `k·fᵢ/S` (each position `⌊·⌋` or `⌈·⌉` times, `sus_counts`);
for a duplicate-free `obj` that sum is the number of returned elements lying in `obj`. -/
theorem sus_counts_positions (w : List Rat) (pop : Pop) (k : Nat) (t t' : Tape) (res : List Nat) (fs : List Rat)
    (r : Rat) (hfs : firstVals w pop = some fs) (hpos : ∀ f ∈ fs, 0 < f) (hk : 0 < k) (hr : 0 < r)
    (h : selSUS w pop k (Draw.random r :: t) = some (res, t')) (obj : List Nat)
    (hobj : ∀ i ∈ obj, i < pop.length) :
    (obj.map (fun i => ⌊(k : ℚ) * fs.getD i 0 / fs.sum⌋)).sum ≤ (obj.map (fun i => ((res.count i : ℕ) : ℤ))).sum ∧
    (obj.map (fun i => ((res.count i : ℕ) : ℤ))).sum ≤ (obj.map (fun i => ⌈(k : ℚ) * fs.getD i 0 / fs.sum⌉)).sum ∧
    (obj.Nodup → (obj.map (fun i => ((res.count i : ℕ) : ℤ))).sum =
      ((res.countP (fun x => decide (x ∈ obj)) : ℕ) : ℤ)) := by
  refine ⟨?_, ?_, ?_⟩
  · induction obj with
    | nil => simp
    | cons a l ih =>
      have h1 := sus_counts w pop k t t' res fs r hfs hpos hk hr h a (hobj a (by simp))
      have h2 := ih (fun i hi => hobj i (by simp [hi]))
      have h3 := Int.floor_le_ceil ((k : ℚ) * fs.getD a 0 / fs.sum)
      simp only [List.map_cons, List.sum_cons]
      rcases h1 with h1 | h1 <;> omega
  · induction obj with
    | nil => simp
    | cons a l ih =>
      have h1 := sus_counts w pop k t t' res fs r hfs hpos hk hr h a (hobj a (by simp))
      have h2 := ih (fun i hi => hobj i (by simp [hi]))
      have h3 := Int.floor_le_ceil ((k : ℚ) * fs.getD a 0 / fs.sum)
      simp only [List.map_cons, List.sum_cons]
      rcases h1 with h1 | h1 <;> omega
  · intro hnd
    rw [← sum_count_eq_countP obj res hnd]
    clear hnd hobj
    induction obj with
    | nil => simp
    | cons a l ih => simp only [List.map_cons, List.sum_cons, Nat.cast_add, ih]

example : (∀ f ∈ [(1 : Rat), 2, 1], 0 < f) ∧ (∀ i ∈ [0, 2], i < 3) ∧ [0, 2].Nodup := by
  refine ⟨by norm_num, by decide, by decide⟩

/-! ### Sessions: a selector keeps nothing between calls

`Core/SelectionHist.lean`: a session is a list of class statements and selector calls, one tape threaded through
all of them; a call reads the weights its population's class resolves to *now* (MRO lookup) and nothing else of
the world. -/

/-- A call made after any session `hist` gives exactly what the same call gives when it is the first thing ever
done (in the initial world `tbl`), on the tape the session left: earlier selector calls — on the same or on other
populations, classes (base or derived, weights inherited or overridden, in any order of first use), parameters —
and later class statements change neither its result nor the world it leaves. -/
theorem sel_history_independent (tbl : Fitness.ClassTable Rat) (hwf : C01.TableWF tbl) (hist : List Event)
    (cls : Nat) (hc : cls < tbl.length) (pop : Pop) (sel : Sel) (t t1 t' : Tape)
    (tbl1 tbl' : Fitness.ClassTable Rat) (outs1 outs : List (List Nat))
    (hh : runHistory tbl hist t = some (tbl1, outs1, t1)) :
    runHistory tbl (hist ++ [Event.call cls pop sel]) t = some (tbl', outs, t') ↔
      ∃ r, runEvent tbl (Event.call cls pop sel) t1 = some (tbl, some r, t') ∧
        outs = outs1 ++ [r] ∧ tbl' = tbl1 := by
  have htab := runHistory_table tbl hist t t1 tbl1 outs1 hh
  have hlw : Fitness.lookupWeights tbl1 cls = Fitness.lookupWeights tbl cls := by
    rw [htab]; exact C01.lookupWeights_append tbl _ hwf cls hc
  rw [runHistory_append, hh]
  simp only [runHistory, runEvent, hlw]
  cases hl : Fitness.lookupWeights tbl cls with
  | none => simp
  | some wts =>
    simp only
    cases hs : runSel wts pop sel t1 with
    | none => simp
    | some x =>
      obtain ⟨r, tx⟩ := x
      constructor
      · intro h1
        simp only [Option.some.injEq, Prod.mk.injEq] at h1
        obtain ⟨h1, h2, h3⟩ := h1
        exact ⟨r, by rw [h3], h2.symm, h1.symm⟩
      · rintro ⟨r', h1, ho, htb⟩
        simp only [Option.some.injEq, Prod.mk.injEq, true_and] at h1
        obtain ⟨hr', ht'⟩ := h1
        subst hr'
        rw [ho, htb, ht']

/-- The result of a call is a function of the weights of the population's class, the positions of the population
passed now, the parameters and the tape: the only thing read of the world is `lookupWeights`. -/
theorem sel_reads_weights_only (tbl tbl2 : Fitness.ClassTable Rat) (c c2 : Nat) (pop : Pop) (sel : Sel) (t : Tape)
    (hw : Fitness.lookupWeights tbl c = Fitness.lookupWeights tbl2 c2) :
    (runEvent tbl (Event.call c pop sel) t).map (fun x => x.2) =
      (runEvent tbl2 (Event.call c2 pop sel) t).map (fun x => x.2) := by
  simp only [runEvent, hw]
  cases Fitness.lookupWeights tbl2 c2 with
  | none => rfl
  | some w =>
    simp only
    cases runSel w pop sel t with
    | none => rfl
    | some x => rfl

/-- A class derived from a maximising class with its own, minimising weights; lexicase on the base class first,
then on the derived class: each call follows the weights of its own class. -/
example : runHistory [] [Event.defclass ⟨some [1, 1], none⟩, Event.defclass ⟨some [-1, -1], some 0⟩,
      Event.call 0 [⟨[1, 0], 0, 0⟩, ⟨[2, 0], 0, 0⟩] (Sel.lex Rule.exact 1),
      Event.call 1 [⟨[-1, 0], 0, 0⟩, ⟨[-2, 0], 0, 0⟩] (Sel.lex Rule.exact 1)]
    [Draw.shuffle [0, 1], Draw.choice 0, Draw.shuffle [0, 1], Draw.choice 0]
    = some ([⟨some [1, 1], none⟩, ⟨some [-1, -1], some 0⟩], [[1], [0]], []) := by
  simp [runHistory, runEvent, Fitness.defClass, Fitness.lookupWeights, Fitness.mro, Fitness.mroFuel, runSel,
    selLexicaseWith, Selection.repeatM, lexStep, values, popShuffle, List.range, List.range.loop,
    List.isPerm, lexLoop, filterCase, valAt, listMax, listMin, popChoice]

example : C01.TableWF ([⟨some [1, 1], none⟩, ⟨some [-1, -1], some 0⟩] : Fitness.ClassTable Rat) ∧
    (1 : Nat) < ([⟨some [1, 1], none⟩, ⟨some [-1, -1], some 0⟩] : Fitness.ClassTable Rat).length := by
  refine ⟨?_, by decide⟩
  exact C01.tableWF_append _ _ (C01.tableWF_append _ _ C01.tableWF_nil (by intro p hp; cases hp))
    (by intro p hp; cases hp; decide)

end C06
