/-
C17 — Runs are reproducible, resumable from any checkpoint, and independent of the completion
schedule of the map.  Property theorems; the model is `DeapModel/Core/Resume.lean`, the lemmas about the result buffer
of `pmap` are in `DeapModel/Lemmas/C17Buf.lean`.

What is proved here is the algebra: *if* the checkpoint round-trips the complete loop state and
*if* the map is order-preserving, then the three equations hold.  The premises themselves
(the real objects pickle their whole state, no operator keeps state elsewhere) are checked on
the implementation by `harness/props/c17.py`.
-/
import DeapModel.Core.Resume
import DeapModel.Lemmas.C17Buf

namespace C17
open Resume

/-! ### Determinism -/

section Run
variable {S B : Type}

theorem run_zero (r : Run S B) (s : S) : run r 0 s = s := rfl

theorem run_succ (r : Run S B) (n : Nat) (s : S) : run r (n + 1) s = run r n (r.step s) := rfl

/-- The other unfolding: the last generation can be split off as well. -/
theorem run_succ' (r : Run S B) (n : Nat) (s : S) : run r (n + 1) s = r.step (run r n s) := by
  induction n generalizing s with
  | zero => rfl
  | succ n ih => rw [run_succ, ih (r.step s), run_succ]

/-- `a + b` generations are `a` generations followed by `b` generations. -/
theorem run_add (r : Run S B) (a b : Nat) (s : S) : run r (a + b) s = run r b (run r a s) := by
  induction a generalizing s with
  | zero => simp [run]
  | succ a ih => rw [Nat.succ_add, run_succ, ih, run_succ]

/-- Two executions of the same run from equal states agree after every number of generations. -/
theorem deterministic_state (r : Run S B) (n : Nat) (s₁ s₂ : S) (h : s₁ = s₂) :
    run r n s₁ = run r n s₂ := by rw [h]

/-- Reproducibility: a second process executing the same code (a run whose step function is
extensionally the same; its checkpoint format may even differ) goes through the same states. -/
theorem deterministic {B' : Type} (r₁ : Run S B) (r₂ : Run S B')
    (h : ∀ s, r₁.step s = r₂.step s) : ∀ n s, run r₁ n s = run r₂ n s := by
  intro n
  induction n with
  | zero => intro s; rfl
  | succ n ih => intro s; rw [run_succ, run_succ, h, ih]

/-- The same with agreement only demanded on the states the run actually visits. -/
theorem deterministic_on {B' : Type} (r₁ : Run S B) (r₂ : Run S B') (s : S)
    (h : ∀ i, r₁.step (run r₁ i s) = r₂.step (run r₁ i s)) : ∀ n, run r₁ n s = run r₂ n s := by
  intro n
  induction n with
  | zero => rfl
  | succ n ih => rw [run_succ', run_succ', ← ih, h]

example : ∀ s, (toyRun false).step s = (toyRun true).step s := fun _ => rfl

/-! ### Resuming from a checkpoint -/

/-- Pointwise form: the round trip is only needed at the state that is checkpointed. -/
theorem resume_at (r : Run S B) (n k : Nat) (hk : k ≤ n) (s : S)
    (h : r.dec (r.enc (run r k s)) = some (run r k s)) :
    (r.dec (r.enc (run r k s))).map (run r (n - k)) = some (run r n s) := by
  rw [h, Option.map_some, ← run_add, Nat.add_sub_cancel' hk]

/-- If checkpoints round-trip the complete state, then killing the process after any
generation `k ≤ n` and resuming from the checkpoint ends in the state of the uninterrupted run. -/
theorem resume (r : Run S B) (h : ∀ s, r.dec (r.enc s) = some s) :
    ∀ n k, k ≤ n → ∀ s, (r.dec (r.enc (run r k s))).map (run r (n - k)) = some (run r n s) :=
  fun n k hk s => resume_at r n k hk s (h _)

/-- The same in terms of `resumeFrom`. -/
theorem resumeFrom_eq (r : Run S B) (h : ∀ s, r.dec (r.enc s) = some s) (n k : Nat)
    (hk : k ≤ n) (s : S) : resumeFrom r k n s = some (run r n s) :=
  resume r h n k hk s

example : ∀ s, (toyRun false).dec ((toyRun false).enc s) = some s := fun _ => rfl
example : resumeFrom (toyRun false) 2 5 (1, 1) = some (16, 6) ∧
    run (toyRun false) 5 (1, 1) = (16, 6) := by decide

/-- Any number of crashes: the process is at generation `g`, is killed at the generations
`ks` (non-decreasing, between `g` and `n`) and resumed after each; the final state is that of
the uninterrupted run. -/
theorem resume_many_from (r : Run S B) (h : ∀ s, r.dec (r.enc s) = some s) (n : Nat) :
    ∀ (ks : List Nat) (g : Nat), (g :: ks).Pairwise (· ≤ ·) → (∀ k ∈ g :: ks, k ≤ n) →
      ∀ s, resumeMany r ks g n s = some (run r (n - g) s) := by
  intro ks
  induction ks with
  | nil => intro g _ _ s; rfl
  | cons k ks ih =>
    intro g hp hn s
    have hgk : g ≤ k := (List.pairwise_cons.1 hp).1 k (List.mem_cons_self ..)
    have hkn : k ≤ n := hn k (List.mem_cons_of_mem _ (List.mem_cons_self ..))
    have hp' : (k :: ks).Pairwise (· ≤ ·) := (List.pairwise_cons.1 hp).2
    have hn' : ∀ j ∈ k :: ks, j ≤ n := fun j hj => hn j (List.mem_cons_of_mem _ hj)
    have e : n - g = (k - g) + (n - k) := by omega
    simp only [resumeMany, reload]
    rw [h, Option.bind_some, ih k hp' hn', e, run_add]

/-- Multi-crash version from generation 0. -/
theorem resume_many (r : Run S B) (h : ∀ s, r.dec (r.enc s) = some s) (n : Nat)
    (ks : List Nat) (hs : ks.Pairwise (· ≤ ·)) (hn : ∀ k ∈ ks, k ≤ n) (s : S) :
    resumeMany r ks 0 n s = some (run r n s) := by
  have := resume_many_from r h n ks 0
    (List.pairwise_cons.2 ⟨fun _ _ => Nat.zero_le _, hs⟩)
    (fun k hk => by
      rcases List.mem_cons.1 hk with rfl | hk
      · exact Nat.zero_le _
      · exact hn k hk) s
  simpa using this

example : [0, 2, 2, 3, 5].Pairwise (· ≤ ·) ∧ (∀ k ∈ [0, 2, 2, 3, 5], k ≤ 5) := by decide
example : resumeMany (toyRun false) [0, 2, 2, 3, 5] 0 5 (1, 1) = some (16, 6) := by decide

end Run

/-- The round-trip hypothesis is not decorative: a checkpoint that drops one component of the
state (`toyRun true` forgets `b`) breaks resumption, although the encoded run is the same code. -/
theorem resume_needs_complete_state :
    (toyRun true).dec ((toyRun true).enc (4, 3)) ≠ some (4, 3) ∧
    run (toyRun true) 5 (1, 1) = (16, 6) ∧
    resumeFrom (toyRun true) 2 5 (1, 1) = some (7, 3) ∧
    resumeFrom (toyRun true) 2 5 (1, 1) ≠ some (run (toyRun true) 5 (1, 1)) := by decide

/-! ### Schedule independence of the order-preserving map -/

section PMap
variable {α β : Type}

/-- General form: every schedule in which each submitted task completes at least once — repeats
and indices that were never submitted are harmless — yields the sequential result, in
submission order. -/
theorem schedule_covering (f : α → β) (xs : List α) (sched : List Nat)
    (h : ∀ i, i < xs.length → i ∈ sched) : pmap f xs sched = some (xs.map f) := by
  have : pmapBuf f xs sched = (xs.map f).map some := by
    apply List.ext_getElem?
    intro i
    rw [getElem?_pmapBuf]
    by_cases hi : i < xs.length
    · simp [h i hi, List.getElem?_eq_getElem hi]
    · have hx : xs[i]? = none := List.getElem?_eq_none_iff.2 (Nat.le_of_not_lt hi)
      by_cases hm : i ∈ sched
      · simp [hm, hx]
      · simp [hm, hi]
  rw [pmap, this, collect_map_some]

/-- `Pool.map` is schedule independent: whatever the order in which the tasks complete, the
caller sees `map f xs`. -/
theorem schedule_independent (f : α → β) (xs : List α) (sched : List Nat)
    (h : sched.Perm (List.range xs.length)) : pmap f xs sched = some (xs.map f) :=
  schedule_covering f xs sched (fun _ hi => h.mem_iff.2 (List.mem_range.2 hi))

/-- Conversely, if a submitted task never completes there is no result at all. -/
theorem schedule_missing (f : α → β) (xs : List α) (sched : List Nat) (i : Nat)
    (hi : i < xs.length) (hm : i ∉ sched) : pmap f xs sched = none := by
  apply collect_eq_none_of_mem
  have : (pmapBuf f xs sched)[i]? = some none := by
    rw [getElem?_pmapBuf]; simp [hm, hi]
  exact List.mem_of_getElem? this

/-- Together: `pmap` answers iff every submitted task completed, and then with `map f xs`. -/
theorem pmap_eq_some_iff (f : α → β) (xs : List α) (sched : List Nat) (ys : List β) :
    pmap f xs sched = some ys ↔ (∀ i, i < xs.length → i ∈ sched) ∧ ys = xs.map f := by
  constructor
  · intro h
    have hc : ∀ i, i < xs.length → i ∈ sched := by
      intro i hi
      apply Classical.byContradiction
      intro hm
      rw [schedule_missing f xs sched i hi hm] at h
      cases h
    refine ⟨hc, ?_⟩
    rw [schedule_covering f xs sched hc] at h
    exact (Option.some.inj h).symm
  · rintro ⟨hc, rfl⟩; exact schedule_covering f xs sched hc

example : [2, 0, 3, 1].Perm (List.range [10, 20, 30, 40].length) := by decide
example : pmap (fun x : Int => 3 * x + 1) [10, 20, 30, 40] [2, 0, 3, 1] = some [31, 61, 91, 121] := by
  decide
example : ∀ i, i < [10, 20, 30].length → i ∈ [7, 2, 2, 0, 1, 0] := by decide
example : pmap (fun x : Int => 3 * x + 1) [10, 20, 30] [7, 2, 2, 0, 1, 0] = some [31, 61, 91] := by
  decide
example : 1 < [10, 20, 30].length ∧ 1 ∉ [2, 0, 2] ∧
    pmap (fun x : Int => 3 * x + 1) [10, 20, 30] [2, 0, 2] = none := by decide

end PMap

/-! ### The generation loop only sees the map through `zip` in submission order -/

section Loop
variable {σ α β : Type}

/-- A mapper that returns `map f xs` gives the evaluated population `[(x, f x)]`. -/
theorem evalStep_eq (mapper : (α → β) → List α → List β) (f : α → β) (pop : List α)
    (h : mapper f pop = pop.map f) : evalStep mapper f pop = pop.map (fun x => (x, f x)) := by
  rw [evalStep, h]
  clear h
  induction pop with
  | nil => rfl
  | cons x xs ih => simp [ih]

/-- Any two families of mappers that return the same lists drive the loop through the same
states. -/
theorem genLoop_congr (m₁ m₂ : Nat → (α → β) → List α → List β) (L : Loop σ α β)
    (h : ∀ g f xs, m₁ g f xs = m₂ g f xs) :
    ∀ n st, genLoop m₁ L n st = genLoop m₂ L n st := by
  have hs : ∀ st, genStep m₁ L st = genStep m₂ L st := by
    intro st; simp only [genStep, evaluated, evalStep, h]
  intro n
  induction n with
  | zero => intro st; rfl
  | succ n ih => intro st; simp only [genLoop, hs, ih]

/-- Any mapper that behaves like `map` — whatever it does internally, and it may be a different
one in every generation — yields the state of the sequential loop after every generation. -/
theorem loop_mapper_independent (m : Nat → (α → β) → List α → List β) (L : Loop σ α β)
    (h : ∀ g f xs, m g f xs = xs.map f) :
    ∀ n st, genLoop m L n st = genLoop seqMapper L n st :=
  genLoop_congr m seqMapper L h

/-- The same for the initial evaluation. -/
theorem init_mapper_independent (m : Nat → (α → β) → List α → List β) (L : Loop σ α β)
    (h : ∀ g f xs, m g f xs = xs.map f) (aux : σ) (pop : List α) :
    genInit m L aux pop = genInit seqMapper L aux pop := by
  simp only [genInit, evaluated, evalStep, h, seqMapper]

/-- A parallel map whose every call completes in some permutation of the submission order is
such a mapper. -/
theorem schedMapper_eq_map (sch : Nat → Nat → List Nat)
    (h : ∀ g n, (sch g n).Perm (List.range n)) (g : Nat) (f : α → β) (xs : List α) :
    schedMapper sch g f xs = xs.map f := by
  rw [schedMapper, schedule_independent f xs _ (h g xs.length), Option.getD_some]

/-- The generation loop is schedule independent: with `toolbox.map` a parallel map under any
family of completion permutations (one per generation and task count) the state after `n`
generations — population, fitnesses, generator states, everything in `aux` — is that of the
loop run with the builtin `map`. -/
theorem loop_schedule_independent (sch : Nat → Nat → List Nat)
    (h : ∀ g n, (sch g n).Perm (List.range n)) (L : Loop σ α β) (n : Nat) (aux : σ)
    (pop : List α) :
    genLoop (schedMapper sch) L n (genInit (schedMapper sch) L aux pop) =
      genLoop seqMapper L n (genInit seqMapper L aux pop) := by
  rw [init_mapper_independent _ L (schedMapper_eq_map sch h),
    loop_mapper_independent _ L (schedMapper_eq_map sch h)]

/-- The loop is itself a `Run` (with the identity checkpoint), so `deterministic`, `run_add` and
`resume` apply to it. -/
theorem genLoop_eq_run (m : Nat → (α → β) → List α → List β) (L : Loop σ α β) (n : Nat)
    (st : LoopState σ α β) :
    genLoop m L n st = run (⟨genStep m L, id, some⟩ : Run _ (LoopState σ α β)) n st := by
  induction n generalizing st with
  | zero => rfl
  | succ n ih => simp only [genLoop, run, ih]

example : ∀ g n, (flipSched g n).Perm (List.range n) := by
  intro g n; unfold flipSched; split
  · exact List.Perm.refl _
  · exact List.reverse_perm _

example : genLoop (schedMapper flipSched) toyLoop 3 (genInit (schedMapper flipSched) toyLoop 0 [1, -2, 5])
    = genLoop seqMapper toyLoop 3 (genInit seqMapper toyLoop 0 [1, -2, 5]) ∧
    (genLoop seqMapper toyLoop 3 (genInit seqMapper toyLoop 0 [1, -2, 5])).pop = [91, -101, 347] := by
  decide

/-- Not decorative either: a mapper that returns results in *completion* order (not order
preserving) changes the state. -/
example : genLoop (fun _ f xs => (xs.map f).reverse) toyLoop 1 (genInit seqMapper toyLoop 0 [1, -2, 5])
    ≠ genLoop seqMapper toyLoop 1 (genInit seqMapper toyLoop 0 [1, -2, 5]) := by decide

end Loop

end C17
