/-
C17 — Runs are reproducible, resumable from any checkpoint, and independent of the completion
schedule of the map.  Property theorems; the model is `DeapModel/Core/Resume.lean`, the lemmas about the result buffer
of `pmap` are in `DeapModel/Lemmas/C17Buf.lean`.

What is proved here is the algebra: *if* the checkpoint round-trips the complete loop state and
*if* the map is order-preserving, then the three equations hold.  The premises themselves
(the real objects pickle their whole state, no operator keeps state elsewhere) are checked on
the implementation by `harness/props/c17.py`.

Three later sections: hidden state (`HRun`: `resume_of_hidden_constant`, `resume_iff_hidden_irrelevant`,
`hidden_state_breaks_resume`, `c03_resume_hidden_constant`) and `tools.migRing` (`migRing_deterministic`, `migRing_shape`,
`migRing_conserves`).

The section `C03` instantiates the algebra on the loop model of property C03
(`DeapModel/Core/Loops.lean`): the machine state (generation counter, tape, `LState`) is complete
(`state_complete`), `Loops.runGens` is the iterate of the machine step (`runGens_eq_run`), killing and
resuming `runGens` / `eaSimple` / … from a round-tripping checkpoint gives the uninterrupted run
(`c03_resume…`), and the evaluation block is independent of the completion schedule of the map
(`c03_schedule_independent`, `c03_evalPhase_…`, `c03_runGens_…`).  Helpers: `DeapModel/Lemmas/C17Loops.lean`.
-/
import DeapModel.Core.Resume
import DeapModel.Core.Loops
import DeapModel.Core.Migration
import DeapModel.Lemmas.C17Buf
import DeapModel.Lemmas.C17Loops
import DeapModel.Lemmas.C17Hidden
import DeapModel.Lemmas.C17Mig

namespace C17
open Resume

/-! ### Determinism -/

section Run
variable {S B : Type}



/-- The other unfolding: the last generation can be split off as well. -/
theorem run_succ' (r : Run S B) (n : Nat) (s : S) : run r (n + 1) s = r.step (run r n s) := by
  induction n generalizing s with
  | zero => rfl
  | succ n ih => rw [run_succ, ih (r.step s), run_succ]

/-- `a + b` generations are `a` generations followed by `b` generations. -/
theorem run_add (r : Run S B) (a b : Nat) (s : S) : run r (a + b) s = run r b (run r a s) := by
  induction a generalizing s with
  | zero => simp [run]
  | succ a ih => rw [Nat.succ_add, run_succ, ih, run_succ]


/-- Reproducibility: a second process executing the same code (a run whose step function is
extensionally the same; its checkpoint format may even differ) goes through the same states. -/
theorem deterministic {B' : Type} (r₁ : Run S B) (r₂ : Run S B')
    (h : ∀ s, r₁.step s = r₂.step s) : ∀ n s, run r₁ n s = run r₂ n s := by
  intro n
  induction n with
  | zero => intro s; rfl
  | succ n ih => intro s; rw [run_succ, run_succ, h, ih]

/-- The same with agreement only demanded on the states the run actually visits. -/
theorem deterministic_on {B' : Type} (r₁ : Run S B) (r₂ : Run S B') (s : S)
    (h : ∀ i, r₁.step (run r₁ i s) = r₂.step (run r₁ i s)) : ∀ n, run r₁ n s = run r₂ n s := by
  intro n
  induction n with
  | zero => rfl
  | succ n ih => rw [run_succ', run_succ', ← ih, h]

example : ∀ s, (toyRun false).step s = (toyRun true).step s := fun _ => rfl

/-! ### Resuming from a checkpoint -/

/-- Pointwise form: the round trip is only needed at the state that is checkpointed. -/
theorem resume_at (r : Run S B) (n k : Nat) (hk : k ≤ n) (s : S)
    (h : r.dec (r.enc (run r k s)) = some (run r k s)) :
    (r.dec (r.enc (run r k s))).map (run r (n - k)) = some (run r n s) := by
  rw [h, Option.map_some, ← run_add, Nat.add_sub_cancel' hk]

/-- If checkpoints round-trip the complete state, then killing the process after any
generation `k ≤ n` and resuming from the checkpoint ends in the state of the uninterrupted run. -/
theorem resume (r : Run S B) (h : ∀ s, r.dec (r.enc s) = some s) :
    ∀ n k, k ≤ n → ∀ s, (r.dec (r.enc (run r k s))).map (run r (n - k)) = some (run r n s) :=
  fun n k hk s => resume_at r n k hk s (h _)

/-- The same in terms of `resumeFrom`. -/
theorem resumeFrom_eq (r : Run S B) (h : ∀ s, r.dec (r.enc s) = some s) (n k : Nat)
    (hk : k ≤ n) (s : S) : resumeFrom r k n s = some (run r n s) :=
  resume r h n k hk s

example : ∀ s, (toyRun false).dec ((toyRun false).enc s) = some s := fun _ => rfl
example : resumeFrom (toyRun false) 2 5 (1, 1) = some (16, 6) ∧
    run (toyRun false) 5 (1, 1) = (16, 6) := by decide

/-- Any number of crashes: the process is at generation `g`, is killed at the generations
`ks` (non-decreasing, between `g` and `n`) and resumed after each; the final state is that of
the uninterrupted run. -/
theorem resume_many_from (r : Run S B) (h : ∀ s, r.dec (r.enc s) = some s) (n : Nat) :
    ∀ (ks : List Nat) (g : Nat), (g :: ks).Pairwise (· ≤ ·) → (∀ k ∈ g :: ks, k ≤ n) →
      ∀ s, resumeMany r ks g n s = some (run r (n - g) s) := by
  intro ks
  induction ks with
  | nil => intro g _ _ s; rfl
  | cons k ks ih =>
    intro g hp hn s
    have hgk : g ≤ k := (List.pairwise_cons.1 hp).1 k (List.mem_cons_self ..)
    have hkn : k ≤ n := hn k (List.mem_cons_of_mem _ (List.mem_cons_self ..))
    have hp' : (k :: ks).Pairwise (· ≤ ·) := (List.pairwise_cons.1 hp).2
    have hn' : ∀ j ∈ k :: ks, j ≤ n := fun j hj => hn j (List.mem_cons_of_mem _ hj)
    have e : n - g = (k - g) + (n - k) := by omega
    simp only [resumeMany, reload]
    rw [h, Option.bind_some, ih k hp' hn', e, run_add]

/-- Multi-crash version from generation 0. -/
theorem resume_many (r : Run S B) (h : ∀ s, r.dec (r.enc s) = some s) (n : Nat)
    (ks : List Nat) (hs : ks.Pairwise (· ≤ ·)) (hn : ∀ k ∈ ks, k ≤ n) (s : S) :
    resumeMany r ks 0 n s = some (run r n s) := by
  have := resume_many_from r h n ks 0
    (List.pairwise_cons.2 ⟨fun _ _ => Nat.zero_le _, hs⟩)
    (fun k hk => by
      rcases List.mem_cons.1 hk with rfl | hk
      · exact Nat.zero_le _
      · exact hn k hk) s
  simpa using this

example : [0, 2, 2, 3, 5].Pairwise (· ≤ ·) ∧ (∀ k ∈ [0, 2, 2, 3, 5], k ≤ 5) := by decide
example : resumeMany (toyRun false) [0, 2, 2, 3, 5] 0 5 (1, 1) = some (16, 6) := by decide

end Run

/-- The round-trip hypothesis is not decorative: a checkpoint that drops one component of the
state (`toyRun true` forgets `b`) breaks resumption, although the encoded run is the same code. -/
theorem resume_needs_complete_state :
    (toyRun true).dec ((toyRun true).enc (4, 3)) ≠ some (4, 3) ∧
    run (toyRun true) 5 (1, 1) = (16, 6) ∧
    resumeFrom (toyRun true) 2 5 (1, 1) = some (7, 3) ∧
    resumeFrom (toyRun true) 2 5 (1, 1) ≠ some (run (toyRun true) 5 (1, 1)) := by decide

/-! ### Schedule independence of the order-preserving map -/

section PMap
variable {α β : Type}

/-- General form: every schedule in which each submitted task completes at least once — repeats
and indices that were never submitted are harmless — yields the sequential result, in
submission order. -/
theorem schedule_covering (f : α → β) (xs : List α) (sched : List Nat)
    (h : ∀ i, i < xs.length → i ∈ sched) : pmap f xs sched = some (xs.map f) := by
  have : pmapBuf f xs sched = (xs.map f).map some := by
    apply List.ext_getElem?
    intro i
    rw [getElem?_pmapBuf]
    by_cases hi : i < xs.length
    · simp [h i hi, List.getElem?_eq_getElem hi]
    · have hx : xs[i]? = none := List.getElem?_eq_none_iff.2 (Nat.le_of_not_lt hi)
      by_cases hm : i ∈ sched
      · simp [hm, hx]
      · simp [hm, hi]
  rw [pmap, this, collect_map_some]

/-- `Pool.map` is schedule independent: whatever the order in which the tasks complete, the
caller sees `map f xs`. -/
theorem schedule_independent (f : α → β) (xs : List α) (sched : List Nat)
    (h : sched.Perm (List.range xs.length)) : pmap f xs sched = some (xs.map f) :=
  schedule_covering f xs sched (fun _ hi => h.mem_iff.2 (List.mem_range.2 hi))

/-- Conversely, if a submitted task never completes there is no result at all. -/
theorem schedule_missing (f : α → β) (xs : List α) (sched : List Nat) (i : Nat)
    (hi : i < xs.length) (hm : i ∉ sched) : pmap f xs sched = none := by
  apply collect_eq_none_of_mem
  have : (pmapBuf f xs sched)[i]? = some none := by
    rw [getElem?_pmapBuf]; simp [hm, hi]
  exact List.mem_of_getElem? this

/-- Together: `pmap` answers iff every submitted task completed, and then with `map f xs`. -/
theorem pmap_eq_some_iff (f : α → β) (xs : List α) (sched : List Nat) (ys : List β) :
    pmap f xs sched = some ys ↔ (∀ i, i < xs.length → i ∈ sched) ∧ ys = xs.map f := by
  constructor
  · intro h
    have hc : ∀ i, i < xs.length → i ∈ sched := by
      intro i hi
      apply Classical.byContradiction
      intro hm
      rw [schedule_missing f xs sched i hi hm] at h
      cases h
    refine ⟨hc, ?_⟩
    rw [schedule_covering f xs sched hc] at h
    exact (Option.some.inj h).symm
  · rintro ⟨hc, rfl⟩; exact schedule_covering f xs sched hc

example : [2, 0, 3, 1].Perm (List.range [10, 20, 30, 40].length) := by decide
example : pmap (fun x : Int => 3 * x + 1) [10, 20, 30, 40] [2, 0, 3, 1] = some [31, 61, 91, 121] := by
  decide
example : ∀ i, i < [10, 20, 30].length → i ∈ [7, 2, 2, 0, 1, 0] := by decide
example : pmap (fun x : Int => 3 * x + 1) [10, 20, 30] [7, 2, 2, 0, 1, 0] = some [31, 61, 91] := by
  decide
example : 1 < [10, 20, 30].length ∧ 1 ∉ [2, 0, 2] ∧
    pmap (fun x : Int => 3 * x + 1) [10, 20, 30] [2, 0, 2] = none := by decide

end PMap

/-! ### The generation loop only sees the map through `zip` in submission order -/

section Loop
variable {σ α β : Type}


/-- Any two families of mappers that return the same lists drive the loop through the same
states. -/
theorem genLoop_congr (m₁ m₂ : Nat → (α → β) → List α → List β) (L : Loop σ α β)
    (h : ∀ g f xs, m₁ g f xs = m₂ g f xs) :
    ∀ n st, genLoop m₁ L n st = genLoop m₂ L n st := by
  have hs : ∀ st, genStep m₁ L st = genStep m₂ L st := by
    intro st; simp only [genStep, evaluated, evalStep, h]
  intro n
  induction n with
  | zero => intro st; rfl
  | succ n ih => intro st; simp only [genLoop, hs, ih]

/-- Any mapper that behaves like `map` — whatever it does internally, and it may be a different
one in every generation — yields the state of the sequential loop after every generation. -/
theorem loop_mapper_independent (m : Nat → (α → β) → List α → List β) (L : Loop σ α β)
    (h : ∀ g f xs, m g f xs = xs.map f) :
    ∀ n st, genLoop m L n st = genLoop seqMapper L n st :=
  genLoop_congr m seqMapper L h

/-- The same for the initial evaluation. -/
theorem init_mapper_independent (m : Nat → (α → β) → List α → List β) (L : Loop σ α β)
    (h : ∀ g f xs, m g f xs = xs.map f) (aux : σ) (pop : List α) :
    genInit m L aux pop = genInit seqMapper L aux pop := by
  simp only [genInit, evaluated, evalStep, h, seqMapper]

/-- A parallel map whose every call completes in some permutation of the submission order is
such a mapper. -/
theorem schedMapper_eq_map (sch : Nat → Nat → List Nat)
    (h : ∀ g n, (sch g n).Perm (List.range n)) (g : Nat) (f : α → β) (xs : List α) :
    schedMapper sch g f xs = xs.map f := by
  rw [schedMapper, schedule_independent f xs _ (h g xs.length), Option.getD_some]

/-- The generation loop is schedule independent: with `toolbox.map` a parallel map under any
family of completion permutations (one per generation and task count) the state after `n`
generations — population, fitnesses, generator states, everything in `aux` — is that of the
loop run with the builtin `map`. -/
theorem loop_schedule_independent (sch : Nat → Nat → List Nat)
    (h : ∀ g n, (sch g n).Perm (List.range n)) (L : Loop σ α β) (n : Nat) (aux : σ)
    (pop : List α) :
    genLoop (schedMapper sch) L n (genInit (schedMapper sch) L aux pop) =
      genLoop seqMapper L n (genInit seqMapper L aux pop) := by
  rw [init_mapper_independent _ L (schedMapper_eq_map sch h),
    loop_mapper_independent _ L (schedMapper_eq_map sch h)]

/-- The loop is itself a `Run` (with the identity checkpoint), so `deterministic`, `run_add` and
`resume` apply to it. -/
theorem genLoop_eq_run (m : Nat → (α → β) → List α → List β) (L : Loop σ α β) (n : Nat)
    (st : LoopState σ α β) :
    genLoop m L n st = run (⟨genStep m L, id, some⟩ : Run _ (LoopState σ α β)) n st := by
  induction n generalizing st with
  | zero => rfl
  | succ n ih => simp only [genLoop, run, ih]

example : ∀ g n, (flipSched g n).Perm (List.range n) := by
  intro g n; unfold flipSched; split
  · exact List.Perm.refl _
  · exact List.reverse_perm _

example : genLoop (schedMapper flipSched) toyLoop 3 (genInit (schedMapper flipSched) toyLoop 0 [1, -2, 5])
    = genLoop seqMapper toyLoop 3 (genInit seqMapper toyLoop 0 [1, -2, 5]) ∧
    (genLoop seqMapper toyLoop 3 (genInit seqMapper toyLoop 0 [1, -2, 5])).pop = [91, -101, 347] := by
  decide

/-- Not decorative either: a mapper that returns results in *completion* order (not order
preserving) changes the state. -/
example : genLoop (fun _ f xs => (xs.map f).reverse) toyLoop 1 (genInit seqMapper toyLoop 0 [1, -2, 5])
    ≠ genLoop seqMapper toyLoop 1 (genInit seqMapper toyLoop 0 [1, -2, 5]) := by decide

end Loop

/-! ### C17 on the loop model of C03 (`DeapModel/Core/Loops.lean`)

The theorems above are about an abstract step function.  Here the step is the ACTUAL generation of the packaged
loops, `Loops.generation` (eaSimple, eaMuPlusLambda, eaMuCommaLambda, harm, eaGenerateUpdate), and the statements
are about `Loops.runGens` / `Loops.eaSimple` … themselves.  Helper definitions (`MState`, `genCore`, `loopStep`,
`loopRun`, `assignZip`, `evalPhaseWith`, `generationWith`, `runGensWith`, …) and lemmas (`generation_eq_core`,
`run_loopRun`, `assignFits_eq_zip`, …) are in `DeapModel/Lemmas/C17Loops.lean`. -/

section C03
open Variation Loops
variable {σ B : Type}

/-! #### The machine state is complete -/

/-- One generation is a function of (generation number, tape, `st`, `pop`): `genCore` reads the tape, `st` and
`pop` only, the generation number only labels the appended records, and the ghost records `log`, `shown`,
`shownObj`, `evals` are only appended to. -/
theorem state_complete_core (ev : List Int → List Int) (stp : Step σ) (g : Nat) (t : σ) (s : LState) :
    generation ev stp g t s =
      (genCore ev stp t s.st s.pop).map (fun c =>
        (c.tape, { st := c.st, pop := c.pop, log := s.log ++ [(g, c.nevals)],
                   shown := s.shown ++ c.offspring,
                   shownObj := s.shownObj ++ c.offspringObj,
                   evals := s.evals ++ c.evaluated.map (fun o => (g, o)) })) :=
  generation_eq_core ev stp g t s

/-- The non-ghost part of a generation (new tape, heap and oid counter, population; success or failure) does not
read the ghost records, and the ghost records are extended by the same suffixes — `(g, nevals)`, the offspring,
the offspring with their content when shown, `(g, o)` for the evaluated `o`, all computed by `genCore` from `(t, s.st, s.pop)` — whatever they held. -/
theorem state_complete (ev : List Int → List Int) (stp : Step σ) (g : Nat) (t : σ) (s s' : LState)
    (hst : s.st = s'.st) (hpop : s.pop = s'.pop) :
    (generation ev stp g t s).map (fun r => (r.1, r.2.st, r.2.pop)) =
      (generation ev stp g t s').map (fun r => (r.1, r.2.st, r.2.pop)) ∧
    ∀ r, generation ev stp g t s = some r →
      ∃ r', generation ev stp g t s' = some r' ∧
      ∃ c, genCore ev stp t s.st s.pop = some c ∧
        r.2.log = s.log ++ [(g, c.nevals)] ∧ r'.2.log = s'.log ++ [(g, c.nevals)] ∧
        r.2.shown = s.shown ++ c.offspring ∧ r'.2.shown = s'.shown ++ c.offspring ∧
        r.2.shownObj = s.shownObj ++ c.offspringObj ∧ r'.2.shownObj = s'.shownObj ++ c.offspringObj ∧
        r.2.evals = s.evals ++ c.evaluated.map (fun o => (g, o)) ∧
        r'.2.evals = s'.evals ++ c.evaluated.map (fun o => (g, o)) := by
  rw [generation_eq_core ev stp g t s, generation_eq_core ev stp g t s', ← hst, ← hpop]
  cases genCore ev stp t s.st s.pop with
  | none => simp
  | some c =>
    refine ⟨rfl, ?_⟩
    intro r hr
    simp only [Option.map_some, Option.some.injEq] at hr
    subst hr
    exact ⟨_, rfl, c, rfl, rfl, rfl, rfl, rfl, rfl, rfl, rfl, rfl⟩

/-- two loop states with the same heap and population and different ghost records -/
example : tapeState.st = tapeStateG.st ∧ tapeState.pop = tapeStateG.pop ∧
    tapeState.log ≠ tapeStateG.log ∧ tapeState.shown ≠ tapeStateG.shown ∧
    tapeState.shownObj ≠ tapeStateG.shownObj ∧ tapeState.evals ≠ tapeStateG.evals :=
  ⟨rfl, rfl, by decide, by decide, by decide, by decide⟩

example : (generation tapeEv (simpleStep tapeOps ⟨[1, 0], [false], [true, true]⟩) 1 5
      tapeStateG).map observe =
    some ⟨7, [2, 3], [⟨[5], some [5], none⟩, ⟨[6], some [6], none⟩], 4, [(0, 1), (1, 2)], [0, 1, 2, 3],
      [(0, ⟨[1, 2, 3], some [6], none⟩), (1, ⟨[4, 5, 6], some [15], none⟩), (2, ⟨[5], some [5], none⟩), (3, ⟨[6], some [6], none⟩)],
      [(0, 1), (1, 2), (1, 3)]⟩ := by decide

/-! #### The loop is a `Run` -/

/-- `runGens` is the n-fold machine step (`n` = number of decision records): final tape and loop state agree. -/
theorem runGens_eq_run (ev : List Int → List Int) (enc : MState σ → B) (dec : B → Option (MState σ))
    (steps : List (Step σ)) (g : Nat) (t : σ) (s : LState) :
    runGens ev steps g t s =
      (run (loopRun ev enc dec) steps.length (some ((g, t, s), steps))).map
        (fun m => (m.1.2.1, m.1.2.2)) := by
  rw [run_loopRun ev enc dec steps.length steps g t s, List.take_length]
  cases runGens ev steps g t s with
  | none => rfl
  | some r => rfl

/-- … and the machine ends with the counter advanced by the number of records and no record left. -/
theorem run_loopRun_all (ev : List Int → List Int) (enc : MState σ → B) (dec : B → Option (MState σ))
    (steps : List (Step σ)) (g : Nat) (t : σ) (s : LState) :
    run (loopRun ev enc dec) steps.length (some ((g, t, s), steps)) =
      (runGens ev steps g t s).map (fun r => ((g + steps.length, r.1, r.2), [])) := by
  rw [run_loopRun ev enc dec steps.length steps g t s, List.take_length, List.drop_length, Nat.min_self]

/-! #### Resuming the C03 loops from a checkpoint -/

/-- `resume` for the machine: if the checkpoint round-trips (counter, generator state, loop state), killing the
machine after any `k ≤ n` steps and resuming ends in the state of the uninterrupted machine. -/
theorem c03_resume_machine (ev : List Int → List Int) (enc : MState σ → B) (dec : B → Option (MState σ))
    (h : ∀ m, dec (enc m) = some m) (n k : Nat) (hk : k ≤ n) (x : Option (MState σ × List (Step σ))) :
    resumeFrom (loopRun ev enc dec) k n x = some (run (loopRun ev enc dec) n x) :=
  resumeFrom_eq (loopRun ev enc dec) (loopRun_roundtrip ev enc dec h) n k hk x

/-- The same about `runGens` itself, for every `k` (also beyond the end): run `k` generations, pickle
(counter, generator state, loop state), get killed, unpickle, continue with the remaining decision records =
the uninterrupted run (same tape, heap, population, logbook, hall-of-fame feed, evaluation calls; a failing run
fails in both). -/
theorem c03_resume (ev : List Int → List Int) (enc : MState σ → B) (dec : B → Option (MState σ))
    (h : ∀ m, dec (enc m) = some m) (steps : List (Step σ)) (k g : Nat) (t : σ) (s : LState) :
    runGens ev steps g t s =
      (runGens ev (steps.take k) g t s).bind (fun r =>
        (dec (enc (g + min k steps.length, r.1, r.2))).bind (fun m =>
          runGens ev (steps.drop k) m.1 m.2.1 m.2.2)) := by
  have e := runGens_append ev (steps.take k) (steps.drop k) g t s
  rw [List.take_append_drop] at e
  rw [e]
  cases runGens ev (steps.take k) g t s with
  | none => rfl
  | some r => simp [h, List.length_take]

/-- The same equation for `k ≤ steps.length` obtained from the abstract theorem `resume` applied to `loopRun`
(i.e. `c03_resume_machine`) and read back through `run_loopRun`: the statement about `runGens` IS the instance of
`resume` for the machine. -/
theorem c03_resume_via_run (ev : List Int → List Int) (enc : MState σ → B) (dec : B → Option (MState σ))
    (h : ∀ m, dec (enc m) = some m) (steps : List (Step σ)) (k : Nat) (hk : k ≤ steps.length) (g : Nat) (t : σ)
    (s : LState) :
    runGens ev steps g t s =
      (runGens ev (steps.take k) g t s).bind (fun r =>
        (dec (enc (g + min k steps.length, r.1, r.2))).bind (fun m =>
          runGens ev (steps.drop k) m.1 m.2.1 m.2.2)) := by
  have e := resume (loopRun ev enc dec) (loopRun_roundtrip ev enc dec h) steps.length k hk
    (some ((g, t, s), steps))
  rw [loopRun_roundtrip ev enc dec h, Option.map_some, Option.some.injEq, run_loopRun_all,
    run_loopRun ev enc dec k] at e
  cases hr : runGens ev (steps.take k) g t s with
  | none =>
    rw [hr, Option.map_none, run_loopRun_none] at e
    cases hs : runGens ev steps g t s with
    | none => rfl
    | some r => rw [hs] at e; cases e
  | some r =>
    have hl : steps.length - k = (steps.drop k).length := by simp
    rw [hr, Option.map_some, hl, run_loopRun_all] at e
    simp only [h, Option.bind_some]
    cases hs : runGens ev steps g t s with
    | none =>
      rw [hs] at e
      cases hd : runGens ev (List.drop k steps) (g + min k steps.length) r.1 r.2 with
      | none => rfl
      | some r' => rw [hd] at e; cases e
    | some r2 =>
      rw [hs] at e
      cases hd : runGens ev (List.drop k steps) (g + min k steps.length) r.1 r.2 with
      | none => rw [hd] at e; cases e
      | some r' =>
        rw [hd] at e
        simp only [Option.map_some, Option.some.injEq, Prod.mk.injEq] at e
        obtain ⟨⟨-, e1, e2⟩, -⟩ := e
        exact congrArg some (Prod.ext e1 e2).symm
/-- a checkpoint format that is not the identity: the components in another order -/
example : ∀ m : MState Nat,
    (fun b : LState × Nat × Nat => some (b.2.2, b.2.1, b.1)) ((fun m => (m.2.2, m.2.1, m.1)) m) = some m :=
  fun _ => rfl

/-- The population-based loops (generation 0, then `for gen in range(1, ngen+1)`): a checkpoint after
generation `k` (`k = 0`: right after the initial evaluation) holds the counter `1 + k`. -/
theorem c03_resume_runPop (ev : List Int → List Int) (enc : MState σ → B) (dec : B → Option (MState σ))
    (h : ∀ m, dec (enc m) = some m) (steps : List (Step σ)) (k : Nat) (t : σ) (s : LState) :
    runPop ev steps t s =
      (runPop ev (steps.take k) t s).bind (fun r =>
        (dec (enc (1 + min k steps.length, r.1, r.2))).bind (fun m =>
          runGens ev (steps.drop k) m.1 m.2.1 m.2.2)) :=
  c03_resume ev enc dec h steps k 1 t (gen0 ev s)

/-- `eaSimple` with `ngen = decs.length`, interrupted after generation `k`. -/
theorem c03_resume_eaSimple (ops : Ops σ) (ev : List Int → List Int) (enc : MState σ → B)
    (dec : B → Option (MState σ)) (h : ∀ m, dec (enc m) = some m) (decs : List SimpleDec) (k : Nat) (t : σ)
    (s : LState) :
    eaSimple ops ev decs t s =
      (eaSimple ops ev (decs.take k) t s).bind (fun r =>
        (dec (enc (1 + min k decs.length, r.1, r.2))).bind (fun m =>
          runGens ev ((decs.drop k).map (simpleStep ops)) m.1 m.2.1 m.2.2)) := by
  have e := c03_resume_runPop ev enc dec h (decs.map (simpleStep ops)) k t s
  simpa only [eaSimple, List.map_take, List.map_drop, List.length_map] using e

theorem c03_resume_eaMuPlusLambda (ops : Ops σ) (ev : List Int → List Int) (mu lam : Nat) (enc : MState σ → B)
    (dec : B → Option (MState σ)) (h : ∀ m, dec (enc m) = some m) (decs : List MuLamDec) (k : Nat) (t : σ)
    (s : LState) :
    eaMuPlusLambda ops ev mu lam decs t s =
      (eaMuPlusLambda ops ev mu lam (decs.take k) t s).bind (fun r =>
        (dec (enc (1 + min k decs.length, r.1, r.2))).bind (fun m =>
          runGens ev ((decs.drop k).map (plusStep ops mu lam)) m.1 m.2.1 m.2.2)) := by
  have e := c03_resume_runPop ev enc dec h (decs.map (plusStep ops mu lam)) k t s
  simpa only [eaMuPlusLambda, List.map_take, List.map_drop, List.length_map] using e

theorem c03_resume_eaMuCommaLambda (ops : Ops σ) (ev : List Int → List Int) (mu lam : Nat) (enc : MState σ → B)
    (dec : B → Option (MState σ)) (h : ∀ m, dec (enc m) = some m) (decs : List MuLamDec) (k : Nat) (t : σ)
    (s : LState) :
    eaMuCommaLambda ops ev mu lam decs t s =
      (eaMuCommaLambda ops ev mu lam (decs.take k) t s).bind (fun r =>
        (dec (enc (1 + min k decs.length, r.1, r.2))).bind (fun m =>
          runGens ev ((decs.drop k).map (commaStep ops mu lam)) m.1 m.2.1 m.2.2)) := by
  have e := c03_resume_runPop ev enc dec h (decs.map (commaStep ops mu lam)) k t s
  unfold eaMuCommaLambda
  cases commaAssert mu lam with
  | false => rfl
  | true => simpa only [List.map_take, List.map_drop, List.length_map, if_true] using e

theorem c03_resume_harm (ops : Ops σ) (ev : List Int → List Int) (nbr : Nat) (enc : MState σ → B)
    (dec : B → Option (MState σ)) (h : ∀ m, dec (enc m) = some m) (decs : List (HarmDec Bool)) (k : Nat) (t : σ)
    (s : LState) :
    harm ops ev nbr decs t s =
      (harm ops ev nbr (decs.take k) t s).bind (fun r =>
        (dec (enc (1 + min k decs.length, r.1, r.2))).bind (fun m =>
          runGens ev ((decs.drop k).map (harmStep ops nbr)) m.1 m.2.1 m.2.2)) := by
  have e := c03_resume_runPop ev enc dec h (decs.map (harmStep ops nbr)) k t s
  simpa only [harm, List.map_take, List.map_drop, List.length_map] using e

/-- `eaGenerateUpdate` (`for gen in range(ngen)`, no generation 0): the counter after `k` generations is `k`. -/
theorem c03_resume_eaGenerateUpdate (ev : List Int → List Int) (enc : MState σ → B)
    (dec : B → Option (MState σ)) (h : ∀ m, dec (enc m) = some m) (gens : List (List (Nat × Obj) × List Nat))
    (k : Nat) (t : σ) (st : St) :
    eaGenerateUpdate ev gens t st =
      (eaGenerateUpdate ev (gens.take k) t st).bind (fun r =>
        (dec (enc (min k gens.length, r.1, r.2))).bind (fun m =>
          runGens ev ((gens.drop k).map (fun g => guStep (σ := σ) g.1 g.2)) m.1 m.2.1 m.2.2)) := by
  have e := c03_resume ev enc dec h (gens.map (fun g => guStep (σ := σ) g.1 g.2)) k 0 t { st := st, pop := [] }
  simpa only [eaGenerateUpdate, runGU, List.map_take, List.map_drop, List.length_map, Nat.zero_add] using e

/-- `eaSimple` with operators that draw from the tape, three generations, interrupted after the first, with the
identity checkpoint: equal to the uninterrupted run. -/
example : ((eaSimple tapeOps tapeEv (tapeDecs.take 1) 5 tapeState).bind (fun r =>
      (some (1 + min 1 tapeDecs.length, r.1, r.2)).bind (fun m =>
        runGens tapeEv ((tapeDecs.drop 1).map (simpleStep tapeOps)) m.1 m.2.1 m.2.2))).map observe =
    (eaSimple tapeOps tapeEv tapeDecs 5 tapeState).map observe := by decide +kernel

/-- The round-trip hypothesis is not decorative for the real loop either: a checkpoint that forgets the generator
state (`encNoTape` restarts the tape at 0, the rest is kept) resumes into a different run — the individual mutated
in generation 3 gets the genome `[0]` instead of `[7]` (and is shown to the hall of fame with it). -/
theorem c03_resume_needs_tape :
    encNoTape (2, 7, tapeState) ≠ (2, 7, tapeState) ∧
    (eaSimple tapeOps tapeEv tapeDecs 5 tapeState).map observe =
      some ⟨8, [6, 7], [⟨[7], some [7], none⟩, ⟨[5], some [5], none⟩], 8, [(0, 1), (1, 2), (2, 0), (3, 1)],
        [0, 1, 2, 3, 4, 5, 6, 7],
        [(0, ⟨[1, 2, 3], some [6], none⟩), (1, ⟨[4, 5, 6], some [15], none⟩), (2, ⟨[5], some [5], none⟩), (3, ⟨[6], some [6], none⟩),
         (4, ⟨[5], some [5], none⟩), (5, ⟨[5], some [5], none⟩), (6, ⟨[7], some [7], none⟩), (7, ⟨[5], some [5], none⟩)],
        [(0, 1), (1, 2), (1, 3), (3, 6)]⟩ ∧
    ((eaSimple tapeOps tapeEv (tapeDecs.take 1) 5 tapeState).bind (fun r =>
      (some (encNoTape (1 + min 1 tapeDecs.length, r.1, r.2))).bind (fun m =>
        runGens tapeEv ((tapeDecs.drop 1).map (simpleStep tapeOps)) m.1 m.2.1 m.2.2))).map observe =
      some ⟨1, [6, 7], [⟨[0], some [0], none⟩, ⟨[5], some [5], none⟩], 8, [(0, 1), (1, 2), (2, 0), (3, 1)],
        [0, 1, 2, 3, 4, 5, 6, 7],
        [(0, ⟨[1, 2, 3], some [6], none⟩), (1, ⟨[4, 5, 6], some [15], none⟩), (2, ⟨[5], some [5], none⟩), (3, ⟨[6], some [6], none⟩),
         (4, ⟨[5], some [5], none⟩), (5, ⟨[5], some [5], none⟩), (6, ⟨[0], some [0], none⟩), (7, ⟨[5], some [5], none⟩)],
        [(0, 1), (1, 2), (1, 3), (3, 6)]⟩ := by
  refine ⟨fun e => ?_, by decide +kernel, by decide +kernel⟩
  have : (0 : Nat) = 7 := congrArg (fun m : MState Nat => m.2.1) e
  exact absurd this (by decide)

/-! #### Schedule independence of the evaluation block -/

/-- `fitnesses = pool.map(toolbox.evaluate, invalid_ind)` under ANY completion permutation, then
`for ind, fit in zip(invalid_ind, fitnesses): ind.fitness.values = fit` = the sequential evaluate-and-assign
loop of the model (`inv` may list an individual more than once). -/
theorem c03_schedule_independent (ev : List Int → List Int) (h : Heap) (inv : List Nat) (sched : List Nat)
    (hs : sched.Perm (List.range inv.length)) :
    (pmap (fun o => ev (h o).genome) inv sched).map (assignZip h inv) = some (assignFits ev h inv) := by
  rw [schedule_independent _ inv sched hs, Option.map_some, assignFits_eq_zip]

example : [2, 0, 1].Perm (List.range [1, 0, 1].length) := by decide
example : ((pmap (fun o => tapeEv (tapeHeap o).genome) [1, 0, 1] [2, 0, 1]).map
      (fun fits => [0, 1].map (assignZip tapeHeap [1, 0, 1] fits))) =
    some [⟨[1, 2, 3], some [6], none⟩, ⟨[4, 5, 6], some [15], none⟩] ∧
    [0, 1].map (assignFits tapeEv tapeHeap [1, 0, 1]) = [⟨[1, 2, 3], some [6], none⟩, ⟨[4, 5, 6], some [15], none⟩] := by
  decide

/-- `evalPhaseWith` with the builtin `map` is `Loops.evalPhase`. -/
theorem c03_evalPhase_seq (ev : List Int → List Int) (all : Bool) (g : Nat) (s : LState) (l : List Nat) :
    evalPhaseWith (fun f xs => xs.map f) ev all g s l = evalPhase ev all g s l :=
  evalPhaseWith_map ev all g s l

/-- Any `toolbox.map` that returns what `map` returns — whatever it does internally — gives the evaluation block
of the model: heap, hall-of-fame feed, evaluation records and `nevals`. -/
theorem c03_evalPhase_mapper_independent (mapper : (Nat → List Int) → List Nat → List (List Int))
    (hm : ∀ f xs, mapper f xs = xs.map f) (ev : List Int → List Int) (all : Bool) (g : Nat) (s : LState)
    (l : List Nat) : evalPhaseWith mapper ev all g s l = evalPhase ev all g s l := by
  rw [evalPhaseWith_congr mapper (fun f xs => xs.map f) hm, evalPhaseWith_map]

/-- In particular the parallel map under any family of completion permutations (`schedMapper`). -/
theorem c03_evalPhase_schedule_independent (sch : Nat → Nat → List Nat)
    (h : ∀ g n, (sch g n).Perm (List.range n)) (ev : List Int → List Int) (all : Bool) (g : Nat) (s : LState)
    (l : List Nat) : evalPhaseWith (schedMapper sch g) ev all g s l = evalPhase ev all g s l :=
  c03_evalPhase_mapper_independent _ (schedMapper_eq_map sch h g) ev all g s l

/-- Pointwise form: one call, one schedule — a permutation of the submission indices of the individuals this
very call evaluates. -/
theorem c03_evalPhase_schedule_at (ev : List Int → List Int) (all : Bool) (g : Nat) (s : LState) (l : List Nat)
    (sched : List Nat)
    (hs : sched.Perm (List.range (if all then l else invalidOf s.st.heap l).length)) :
    evalPhaseWith (fun f xs => (pmap f xs sched).getD []) ev all g s l = evalPhase ev all g s l := by
  simp only [evalPhaseWith, evalPhase, schedule_independent _ _ sched hs, Option.getD_some, assignFits_eq_zip]

example : ∀ g n, (flipSched g n).Perm (List.range n) := by
  intro g n; unfold flipSched; split
  · exact List.Perm.refl _
  · exact List.reverse_perm _

example : [1, 0].Perm (List.range (if false then [0, 1, 2] else invalidOf
    (fun o => if o = 0 then ⟨[1], some [1], none⟩ else ⟨[2], none, none⟩) [0, 1, 2]).length) := by decide

/-- Not decorative: a map that hands the results back in completion order gives other fitnesses. -/
example : [0, 1].map (evalPhaseWith (fun f xs => (xs.map f).reverse) tapeEv true 7 tapeState [1, 0]).1.st.heap =
      [⟨[1, 2, 3], some [15], none⟩, ⟨[4, 5, 6], some [6], none⟩] ∧
    [0, 1].map (evalPhase tapeEv true 7 tapeState [1, 0]).1.st.heap =
      [⟨[1, 2, 3], some [6], none⟩, ⟨[4, 5, 6], some [15], none⟩] := by decide

/-! #### … lifted to the generation and to the runs -/

theorem c03_generation_schedule_independent (sch : Nat → Nat → List Nat)
    (h : ∀ g n, (sch g n).Perm (List.range n)) (ev : List Int → List Int) (stp : Step σ) (g : Nat) (t : σ)
    (s : LState) : generationWith (schedMapper sch g) ev stp g t s = generation ev stp g t s :=
  generationWith_eq _ (schedMapper_eq_map sch h g) ev stp g t s

/-- Any family of maps (one per generation) that return what `map` returns drives `runGens` through the same
states. -/
theorem c03_runGens_mapper_independent (m : Nat → (Nat → List Int) → List Nat → List (List Int))
    (hm : ∀ g f xs, m g f xs = xs.map f) (ev : List Int → List Int) (steps : List (Step σ)) (g : Nat) (t : σ)
    (s : LState) : runGensWith m ev steps g t s = runGens ev steps g t s :=
  runGensWith_eq m hm ev steps g t s

/-- The run of the C03 loops with `toolbox.map` a parallel map under any family of completion permutations (one
per generation and task count) = the run with the builtin `map`: same tape, heap, population, records. -/
theorem c03_runGens_schedule_independent (sch : Nat → Nat → List Nat)
    (h : ∀ g n, (sch g n).Perm (List.range n)) (ev : List Int → List Int) (steps : List (Step σ)) (g : Nat)
    (t : σ) (s : LState) : runGensWith (schedMapper sch) ev steps g t s = runGens ev steps g t s :=
  runGensWith_eq _ (schedMapper_eq_map sch h) ev steps g t s

theorem c03_runPop_schedule_independent (sch : Nat → Nat → List Nat)
    (h : ∀ g n, (sch g n).Perm (List.range n)) (ev : List Int → List Int) (steps : List (Step σ)) (t : σ)
    (s : LState) : runPopWith (schedMapper sch) ev steps t s = runPop ev steps t s := by
  rw [runPopWith, runPop, gen0With_eq _ (schedMapper_eq_map sch h 0),
    runGensWith_eq _ (schedMapper_eq_map sch h)]

theorem c03_eaSimple_schedule_independent (sch : Nat → Nat → List Nat)
    (h : ∀ g n, (sch g n).Perm (List.range n)) (ops : Ops σ) (ev : List Int → List Int) (decs : List SimpleDec)
    (t : σ) (s : LState) :
    runPopWith (schedMapper sch) ev (decs.map (simpleStep ops)) t s = eaSimple ops ev decs t s :=
  c03_runPop_schedule_independent sch h ev _ t s

example : (runPopWith (schedMapper flipSched) tapeEv (tapeDecs.map (simpleStep tapeOps)) 5 tapeState).map observe =
    (eaSimple tapeOps tapeEv tapeDecs 5 tapeState).map observe := by decide +kernel

end C03

/-! ### Hidden state: what a checkpoint does not save -/

section Hidden
variable {V H B : Type}

/-- The premise the harness's hidden-state detector checks on the implementation: if no step changes the hidden
component (it may be READ: constant tables, registries) and the visible part round-trips, a run killed after any
generation `k ≤ n` and resumed in a new process — where importing the library gives the same hidden value `h` the
first process started with — ends in the state of the uninterrupted run. -/
theorem resume_of_hidden_constant (r : HRun V H B) (hrt : ∀ v, r.dec (r.enc v) = some v)
    (hc : HiddenConstant r) (n k : Nat) (hk : k ≤ n) (v : V) (h : H) :
    hresumeFrom r h k n (v, h) = some (hrun r n (v, h)) := by
  have e : hrun r k (v, h) = ((hrun r k (v, h)).1, h) := by
    have := hrun_snd_of_hiddenConstant r hc k (v, h)
    exact Prod.ext rfl this
  rw [hresumeFrom, hrt, Option.map_some, ← e, ← hrun_add, Nat.add_sub_cancel' hk]

example : HiddenConstant toyConst ∧ ∀ v, toyConst.dec (toyConst.enc v) = some v := ⟨fun _ => rfl, fun _ => rfl⟩
example : hresumeFrom toyConst 3 2 5 (1, 3) = some (16, 3) ∧ hrun toyConst 5 (1, 3) = (16, 3) := by decide

/-- … and a second run in the same process, and a checkpoint restored in the same process, agree with it too. -/
theorem rerun_of_hidden_constant (r : HRun V H B) (hc : HiddenConstant r) (n : Nat) (v : V) (h : H) :
    hrerun r n v h = hrun r n (v, h) := by
  rw [hrerun, hrun_snd_of_hiddenConstant r hc n (v, h)]

/-- (i)  When the step DOES write the hidden component, resumption is correct exactly when the hidden component never
reaches the visible output: for a round-tripping checkpoint, "for every start state, every hidden value `h0` the new
process may come up with, every `n` and every crash point `k ≤ n` the resumed run shows the visible state of the
uninterrupted run" is equivalent to non-interference of the step. -/
theorem resume_iff_hidden_irrelevant (r : HRun V H B) (hrt : ∀ v, r.dec (r.enc v) = some v) :
    (∀ (h0 : H) (s : V × H) (n k : Nat), k ≤ n →
        (hresumeFrom r h0 k n s).map Prod.fst = some (hrun r n s).1) ↔ NonInterfering r := by
  constructor
  · intro hres v h h'
    have := hres h' (v, h) 1 0 (Nat.zero_le _)
    simp only [hresumeFrom, hrun, hrt, Option.map_some, Nat.sub_zero, Option.some.injEq] at this
    exact this.symm
  · intro hni h0 s n k hk
    rw [hresumeFrom, hrt, Option.map_some, Option.map_some]
    have e : hrun r n s = hrun r (n - k) ((hrun r k s).1, (hrun r k s).2) := by
      rw [← Nat.add_sub_cancel' hk, hrun_add, Nat.add_sub_cancel' hk]
    rw [e, hrun_fst_of_nonInterfering r hni (n - k) (hrun r k s).1 h0 (hrun r k s).2]

/-- The direction the check relies on, spelled out for one crash point. -/
theorem resume_of_hidden_irrelevant (r : HRun V H B) (hrt : ∀ v, r.dec (r.enc v) = some v)
    (hni : NonInterfering r) (h0 : H) (s : V × H) (n k : Nat) (hk : k ≤ n) :
    (hresumeFrom r h0 k n s).map Prod.fst = some (hrun r n s).1 :=
  (resume_iff_hidden_irrelevant r hrt).2 hni h0 s n k hk

/-- The same for the two in-process histories of the harness: the run started a second time, and a checkpoint
restored after the uninterrupted run has finished, show the same visible states. -/
theorem rerun_of_hidden_irrelevant (r : HRun V H B) (hni : NonInterfering r) (n : Nat) (v : V) (h : H) :
    (hrerun r n v h).1 = (hrun r n (v, h)).1 :=
  hrun_fst_of_nonInterfering r hni n v _ _

theorem restoreSame_of_hidden_irrelevant (r : HRun V H B) (hrt : ∀ v, r.dec (r.enc v) = some v)
    (hni : NonInterfering r) (s : V × H) (n k : Nat) (hk : k ≤ n) :
    (hrestoreSame r k n s).map Prod.fst = some (hrun r n s).1 := by
  have := resume_of_hidden_irrelevant r hrt hni (hrun r n s).2 s n k hk
  simpa [hrestoreSame, hresumeFrom] using this

/-- a machine that WRITES its hidden state in every step and never reads it: non-interfering, not hidden-constant —
the detector reports it, and no failing history exists -/
example : NonInterfering (toyHidden false) ∧ ¬ HiddenConstant (toyHidden false) ∧
    ∀ v, (toyHidden false).dec ((toyHidden false).enc v) = some v := by
  refine ⟨fun v h h' => rfl, fun hc => ?_, fun _ => rfl⟩
  have := hc (0, false)
  simp [toyHidden] at this

/-- (ii)  The converse witness (the module-level cycle of seeded change C17-r4m3): the step reads the hidden
component, the checkpoint round-trips everything it is given, and still the run killed after generation 1 and
resumed in a new process (cycle at its start position) differs from the uninterrupted run; so does the run started a
second time in the same process; the checkpoint of generation 1 restored in the same process after a 3-generation
run happens to agree (the cycle is back in step) and after a 4-generation run it does not — which is why the harness
varies the run lengths. -/
theorem hidden_state_breaks_resume :
    (∀ v, (toyHidden true).dec ((toyHidden true).enc v) = some v) ∧
    ¬ NonInterfering (toyHidden true) ∧
    hrun (toyHidden true) 3 (1, false) = (10, true) ∧
    hresumeFrom (toyHidden true) false 1 3 (1, false) = some (9, false) ∧
    (hresumeFrom (toyHidden true) false 1 3 (1, false)).map Prod.fst ≠ some (hrun (toyHidden true) 3 (1, false)).1 ∧
    (hrerun (toyHidden true) 3 1 false).1 ≠ (hrun (toyHidden true) 3 (1, false)).1 ∧
    (hrestoreSame (toyHidden true) 1 3 (1, false)).map Prod.fst = some (hrun (toyHidden true) 3 (1, false)).1 ∧
    (hrestoreSame (toyHidden true) 1 4 (1, false)).map Prod.fst ≠ some (hrun (toyHidden true) 4 (1, false)).1 := by
  refine ⟨fun _ => rfl, fun hni => ?_, by decide, by decide, by decide, by decide, by decide, by decide⟩
  have := hni 0 true false
  simp [toyHidden] at this

/-- A run without hidden state is a `Run`: the two notions of "n generations" agree. -/
theorem hrun_unit (r : HRun V Unit B) (n : Nat) (v : V) : (hrun r n (v, ())).1 = run r.toRun n v := by
  induction n generalizing v with
  | zero => rfl
  | succ n ih =>
    rw [hrun_succ]
    show (hrun r n ((r.step (v, ())).1, (r.step (v, ())).2)).1 = run r.toRun n ((r.step (v, ())).1)
    exact ih _

end Hidden

/-! #### … on the C03 machine -/

section C03Hidden
open Variation Loops
variable {τ H B : Type}

/-- The hidden-state premise on the C03 machine itself.  The tape of the generational machine of `Core/Loops.lean` is
a pair (generator states, hidden component); the checkpoint saves counter, GENERATOR states and loop state only
(`hideEnc`), the new process comes up with the import-time hidden value `h0` (`hideDec`).  If every generation leaves
the hidden component as it found it, then killing `runGens` after any number `k` of generations and resuming gives
the uninterrupted run — for every loop of C03 (each is `runGens` over its decision records). -/
theorem c03_resume_hidden_constant (ev : List Int → List Int) (enc : MState τ → B) (dec : B → Option (MState τ))
    (hrt : ∀ m, dec (enc m) = some m) (steps : List (Step (τ × H))) (hk : ∀ stp ∈ steps, KeepsHidden stp)
    (k g : Nat) (t : τ) (h0 : H) (s : LState) :
    runGens ev steps g (t, h0) s =
      (runGens ev (steps.take k) g (t, h0) s).bind (fun r =>
        (hideDec dec h0 (hideEnc enc (g + min k steps.length, r.1, r.2))).bind (fun m =>
          runGens ev (steps.drop k) m.1 m.2.1 m.2.2)) := by
  have e := runGens_append ev (steps.take k) (steps.drop k) g (t, h0) s
  rw [List.take_append_drop] at e
  rw [e]
  cases hr : runGens ev (steps.take k) g (t, h0) s with
  | none => rfl
  | some r =>
    have hh : r.1.2 = h0 :=
      runGens_keeps_hidden ev (steps.take k) (fun x hx => hk x (List.mem_of_mem_take hx)) g (t, h0) s r hr
    obtain ⟨⟨t1, h1⟩, s1⟩ := r
    simp only at hh
    subst hh
    simp [hideDec, hideEnc, hrt, List.length_take]

example (stp : Step τ) : KeepsHidden (liftHidden (H := H) stp) := liftHidden_keeps stp

end C03Hidden

/-! ### Migration between demes (`tools.migRing`) -/

open Migration

section Mig
variable {α κ : Type} [DecidableEq κ]

/-- `migRing` is the second loop applied to the results of the selection / replacement calls of the first loop. -/
theorem migRing_eq_with (key : α → κ) (pops : List (List α)) (k : Nat) (sel : List α → Nat → List α)
    (rep : Option (List α → Nat → List α)) (ma : Option (List Nat)) :
    migRing key pops k sel rep ma =
      migRingWith key pops (pops.map (fun p => sel p k))
        (match rep with
         | none => pops.map (fun p => sel p k)
         | some f => pops.map (fun p => f p k)) ma := by
  cases rep <;> rfl

/-- Determinism of a migration given its inputs: the result is a function of the populations, `k`, the migration
array and of what the selection and replacement callables return ON THESE DEMES — nothing else (no hidden state,
no dependence on the callables beyond their results). -/
theorem migRing_deterministic (key : α → κ) (pops : List (List α)) (k : Nat)
    (sel₁ sel₂ : List α → Nat → List α) (rep₁ rep₂ : Option (List α → Nat → List α)) (ma : Option (List Nat))
    (hs : ∀ p ∈ pops, sel₁ p k = sel₂ p k)
    (hr : ∀ p ∈ pops, rep₁.map (fun f => f p k) = rep₂.map (fun f => f p k)) :
    migRing key pops k sel₁ rep₁ ma = migRing key pops k sel₂ rep₂ ma := by
  have es : pops.map (fun p => sel₁ p k) = pops.map (fun p => sel₂ p k) := List.map_congr_left hs
  rw [migRing_eq_with, migRing_eq_with, es]
  cases rep₁ with
  | none =>
    cases rep₂ with
    | none => rfl
    | some g =>
      cases pops with
      | nil => rfl
      | cons p ps => have := hr p (List.mem_cons_self ..); simp at this
  | some f =>
    cases rep₂ with
    | none =>
      cases pops with
      | nil => rfl
      | cons p ps => have := hr p (List.mem_cons_self ..); simp at this
    | some g =>
      have er : pops.map (fun p => f p k) = pops.map (fun p => g p k) :=
        List.map_congr_left (fun p hp => by simpa using hr p hp)
      simp only [er]

example : ∀ p ∈ [[1, 2, 3], [4, 5, 6]], selFirst p 2 = (fun (q : List Nat) k => (q.take 5).take k) p 2 := by decide

/-- A migration keeps the number of demes and the size of every deme. -/
theorem migRing_shape (key : α → κ) (pops : List (List α)) (k : Nat) (sel : List α → Nat → List α)
    (rep : Option (List α → Nat → List α)) (ma : Option (List Nat)) (pops' : List (List α))
    (h : migRing key pops k sel rep ma = some pops') :
    pops'.map List.length = pops.map List.length := by
  rw [migRing_eq_with] at h
  exact migrate_shape key _ _ _ pops pops' h

/-- three demes of three, the two best of each move on along the ring and replace the emigrants there -/
example : migRing (fun x : Nat => x) [[1, 2, 3], [4, 5, 6], [7, 8, 9]] 2 selFirst none none =
    some [[7, 8, 3], [1, 2, 6], [4, 5, 9]] := by decide

/-- with a replacement strategy (the worst leave) and an explicit migration array -/
example : migRing (fun x : Nat => x) [[1, 2, 3], [4, 5, 6], [7, 8, 9]] 1 selFirst (some selLast) (some [2, 0, 1]) =
    some [[1, 2, 4], [4, 5, 7], [7, 8, 1]] := by decide

/-- the documented pitfall: a replacement strategy that names the same individual twice makes `index` fail
(`ValueError`) as soon as no equal individual is left -/
example : migRing (fun x : Nat => x) [[1, 2], [3, 4]] 2 selFirst (some (fun p _ => [p.headD 0, p.headD 0])) none =
    none := by decide

/-- Conservation: with no replacement strategy (immigrants take the places of the emigrants), a selection that
returns the same number of emigrants for every deme, and a migration array that is a permutation of the deme indices
(or the default ring), a migration only MOVES genomes: the genomes of all demes together are the same multiset before
and after (`index` works with `==`, so this is a statement about genomes, not objects). -/
theorem migRing_conserves (key : α → κ) (pops : List (List α)) (k : Nat) (sel : List α → Nat → List α)
    (ma : Option (List Nat)) (hma : ∀ m, ma = some m → m.Perm (List.range pops.length))
    (hlen : ∀ p ∈ pops, ∀ q ∈ pops, (sel p k).length = (sel q k).length) (pops' : List (List α))
    (h : migRing key pops k sel none ma = some pops') :
    (pops'.flatten.map key).Perm (pops.flatten.map key) := by
  have hE : (pops.map (fun p => sel p k)).length = pops.length := by simp
  have hn : 0 < pops.length ∨ ma ≠ none := by
    cases ma with
    | some m => exact Or.inr (by simp)
    | none =>
      left
      cases pops with
      | nil => simp [migRing, migRingWith, defaultRing, enumFrom', migrate] at h
      | cons p ps => simp
  have hm : (ma.getD (defaultRing pops.length)).Perm (List.range (pops.map (fun p => sel p k)).length) := by
    rw [hE]
    cases ma with
    | some m => exact hma m rfl
    | none =>
      rcases hn with hn | hn
      · exact defaultRing_perm _ hn
      · exact absurd rfl hn
  have hl : ∀ a ∈ pops.map (fun p => sel p k), ∀ b ∈ pops.map (fun p => sel p k), a.length = b.length := by
    intro a ha b hb
    obtain ⟨p, hp, rfl⟩ := List.mem_map.1 ha
    obtain ⟨q, hq, rfl⟩ := List.mem_map.1 hb
    exact hlen p hp q hq
  have hp := migrate_perm key _ _ _ pops pops' h
  exact (List.perm_append_right_iff _).1
    (hp.trans (List.Perm.append_left _ (leaving_perm_arriving key _ _ hm hl).symm))

example : [2, 0, 1].Perm (List.range [[1, 2, 3], [4, 5, 6], [7, 8, 9]].length) ∧
    (∀ p ∈ [[1, 2, 3], [4, 5, 6], [7, 8, 9]], ∀ q ∈ [[1, 2, 3], [4, 5, 6], [7, 8, 9]],
      (selFirst p 2).length = (selFirst q 2).length) ∧
    migRing (fun x : Nat => x) [[1, 2, 3], [4, 5, 6], [7, 8, 9]] 2 selFirst none (some [2, 0, 1]) =
      some [[4, 5, 3], [7, 8, 6], [1, 2, 9]] := by decide

/-- Not decorative: with a replacement strategy genomes are overwritten (7 and 9 … are lost, 1 is doubled). -/
example : migRing (fun x : Nat => x) [[1, 2, 3], [4, 5, 6], [7, 8, 9]] 1 selFirst (some selLast) none =
    some [[1, 2, 7], [4, 5, 1], [7, 8, 4]] := by decide

end Mig
end C17
