/-
C08 — Hall of fame and Pareto archive always equal the best of everything seen.
Property theorems only; the model is `DeapModel/Core/Archive.lean`, helper lemmas are in
`DeapModel/Lemmas/C08*.lean`.

Every theorem is about the archive `h` reached from the empty archive by an arbitrary history
`hist : List (List (Ind G α))` of `update` calls (so also about the archive after every prefix of
a history), for an arbitrary genome type `G`, an arbitrary linearly ordered scalar type `α`,
an arbitrary capacity `m ≥ 1` and an arbitrary first copy identity `base`.

* `hist.flatten` is the list of all individuals ever shown (an object that was modified in place
  and shown again occurs twice, with the same `oid` and its two contents).
* Fitnesses are compared through their weighted value tuples; `a.fit.wvalues < b.fit.wvalues` is
  the lexicographic order, which `C01.lt_iff_lex` / `C01.gt_iff_swap` prove to be what DEAP's
  `<` / `>` compute.
* The hypotheses of the reading (DESIGN §6) are explicit and every clause carries only what it needs:
  `SimSym` (similarity symmetric, ignores object identity) for `pairwise_dissimilar` / `pf_no_twins`;
  `SimBase` (… and reflexive) for `all_kept_while_room`; `SimHyp` (… and similar shown individuals
  have equal fitness) only for `best_of_seen`, which is false without it (`best_of_seen_needs_fit`);
  `pf_antichain` needs only equal numbers of objectives; `pf_exact` needs `PfHyp` (`SimBase` + equal
  numbers of objectives).  Transitivity of the similarity is never needed.
* `copies_fresh` / `copies_frame` / `pf_copies` are true by construction of the pure model (`insert`
  allocates a fresh id): they state what "deep copy" means for that model.  The deep-copy clause itself is
  proved in the last section for the *heap-level* archive `Core/ArchiveHeap.lean`, whose `insert` is
  `copy.deepcopy` as modelled (and proved faithful and disjoint) for C16 in `Core/Heap.lean`:
  `hof_members_fresh` / `pf_members_fresh` (every member reaches only objects allocated by the archive's
  own `deepcopy` call for it, or immutable ones), `hof_unaffected_by_writes` / `pf_unaffected_by_writes`
  (no sequence of in-place modifications of the caller's objects, interleaved with further updates,
  changes what a member denotes; `keys` are the members' own fitness objects), and
  `heap_hof_refines` / `heap_pf_refines` (the heap-level archive denotes, after every history, the pure
  archive run on the individuals as they were when shown — so every theorem above transfers,
  e.g. `heap_hof_best_of_seen`, `heap_pf_exact`).
  The structural theorems (`mirror`, `sorted_desc`, `size_le`, `worst_monotone`, `members_shown`,
  `copies_*`, `never_raises`) hold for *every* similarity operator.
* `insert` runs CPython's binary search; `C08L.bisectRight_eq` proves it equal to the linear scan on
  the (always ascending) key list.
-/
import DeapModel.Lemmas.C08Worst
import DeapModel.Lemmas.C08Batch
import DeapModel.Lemmas.C08HeapProps
import DeapModel.Lemmas.C08Gen

set_option linter.unusedSectionVars false
set_option linter.unusedSimpArgs false
set_option linter.unusedVariables false

namespace C08
open Archive C08L

variable {G α : Type} [LinearOrder α]
variable (sim : Ind G α → Ind G α → Bool) {m base : Nat} {hist more : List (List (Ind G α))} {h h₂ : HoF G α}

/-! ## HallOfFame: what holds for every similarity operator -/

/-- With capacity ≥ 1 no `update` of any history raises (`self[-1]`, `remove(-1)` are always in range). -/
theorem never_raises (hm : 1 ≤ m) (base : Nat) (hist : List (List (Ind G α))) :
    ∃ h, run sim (empty m base) hist = some h := by
  obtain ⟨h, e, _⟩ := run_str sim hm hist [] (empty m base) (hstr_empty m base)
  exact ⟨h, e⟩

/-- The parallel lists never drift: `keys` is the list of the members' fitnesses, reversed. -/
theorem mirror (hm : 1 ≤ m) (hr : run sim (empty m base) hist = some h) :
    h.keys = (h.items.map (·.fit)).reverse :=
  (hof_hstr sim hm hr).mirror

/-- … index form: `len(keys) = len(items)` and `keys[j] = items[n-1-j].fitness`. -/
theorem mirror_index (hm : 1 ≤ m) (hr : run sim (empty m base) hist = some h) :
    h.keys.length = h.items.length ∧
    ∀ j, j < h.items.length → h.keys[j]? = (h.items[h.items.length - 1 - j]?).map (·.fit) := by
  have hk := mirror sim hm hr
  refine ⟨by rw [hk]; simp, fun j hj => ?_⟩
  rw [hk, List.getElem?_reverse (by simpa using hj)]
  simp

/-- Members are kept best first: an earlier member's fitness is never lexicographically smaller
than a later one's. -/
theorem sorted_desc (hm : 1 ≤ m) (hr : run sim (empty m base) hist = some h) :
    h.items.Pairwise (fun a b => b.fit.wvalues ≤ a.fit.wvalues) :=
  (hof_hstr sim hm hr).toStr.sorted

/-- The key list is ascending (what `bisect_right` relies on). -/
theorem keys_sorted (hm : 1 ≤ m) (hr : run sim (empty m base) hist = some h) :
    h.keys.Pairwise (fun a b => a.wvalues ≤ b.wvalues) :=
  (hof_hstr sim hm hr).asc

/-- At most `m` members. -/
theorem size_le (hm : 1 ≤ m) (hr : run sim (empty m base) hist = some h) : h.items.length ≤ m :=
  (hof_hstr sim hm hr).size

/-- Once the hall of fame is full it stays full and its worst member never gets worse: every
member of every later archive is at least as good as the worst member now. -/
theorem worst_monotone (hm : 1 ≤ m) (hr : run sim (empty m base) hist = some h)
    (hr₂ : run sim (empty m base) (hist ++ more) = some h₂) (hfull : h.items.length = m)
    (w : Ind G α) (hw : h.items.getLast? = some w) :
    h₂.items.length = m ∧ ∀ it ∈ h₂.items, w.fit.wvalues ≤ it.fit.wvalues := by
  have hs := hof_hstr sim hm hr
  rw [run_append, hr] at hr₂
  exact run_lb sim hm w.fit.wvalues more hist.flatten h h₂ hs hfull (hs.toStr.last_le w hw) hr₂

/-- Every member has the genome and the fitness of an individual that was shown. -/
theorem members_shown (hm : 1 ≤ m) (hr : run sim (empty m base) hist = some h) :
    ∀ it ∈ h.items, ∃ x ∈ hist.flatten, it.genome = x.genome ∧ it.fit = x.fit :=
  (hof_hstr sim hm hr).origin

/-- Deep copies: every member is an object allocated by the archive (`oid ≥ base`), no two members
are the same object; hence no member is one of the submitted objects (`oid < base`). -/
theorem copies_fresh (hm : 1 ≤ m) (hr : run sim (empty m base) hist = some h) :
    (∀ it ∈ h.items, base ≤ it.oid) ∧ (h.items.map (·.oid)).Nodup ∧
    ∀ x ∈ hist.flatten, x.oid < base → ∀ it ∈ h.items, it.oid ≠ x.oid := by
  obtain ⟨_, f2, f3⟩ := (hof_hstr sim hm hr).fresh
  refine ⟨fun it hit => (f2 it hit).1, f3, fun x _ hx it hit => ?_⟩
  have := (f2 it hit).1; omega

/-- An in-place modification of object `o`, seen through a reference `x`. -/
def write (o : Nat) (g : G) (f : Fitness.Fit α) (x : Ind G α) : Ind G α :=
  if x.oid = o then ⟨o, g, f⟩ else x

/-- Deep copies: modifying any submitted object (`o < base`) in place, to any genome and fitness,
leaves the archive's content unchanged. -/
theorem copies_frame (hm : 1 ≤ m) (hr : run sim (empty m base) hist = some h)
    (o : Nat) (ho : o < base) (g : G) (f : Fitness.Fit α) :
    h.items.map (write o g f) = h.items := by
  have := (copies_fresh sim hm hr).1
  conv => rhs; rw [← List.map_id h.items]
  apply List.map_congr_left
  intro it hit
  have := this it hit
  simp only [write, id]
  rw [if_neg (by omega)]

/-! ## HallOfFame: the statement's clauses, under the reading's hypotheses -/

variable {sim}

/-- Members are pairwise distinct under the similarity operator. -/
theorem pairwise_dissimilar (hm : 1 ≤ m) (hh : SimSym sim)
    (hr : run sim (empty m base) hist = some h) :
    h.items.Pairwise (fun a b => sim a b = false) :=
  hof_dissim hm hh hr

/-- While at most `m` distinct individuals exist (every list of pairwise dissimilar shown
individuals has length ≤ `m`), every individual shown is kept (has a similar member). -/
theorem all_kept_while_room (hm : 1 ≤ m) (hh : SimBase sim)
    (hr : run sim (empty m base) hist = some h)
    (hroom : ∀ l : List (Ind G α), (∀ y ∈ l, y ∈ hist.flatten) →
      l.Pairwise (fun a b => sim a b = false) → l.length ≤ m) :
    ∀ x ∈ hist.flatten, ∃ it ∈ h.items, sim x it = true :=
  (hof_semk hm hh hr).kept hroom

/-- Best of everything seen: every individual ever shown is either kept (has a similar member), or
the archive is full and the individual is not strictly better than the worst (= last) member. -/
theorem best_of_seen (hm : 1 ≤ m) (hh : SimHyp sim hist.flatten)
    (hr : run sim (empty m base) hist = some h) :
    ∀ x ∈ hist.flatten, (∃ it ∈ h.items, sim x it = true) ∨
      (h.items.length = m ∧ ∀ w, h.items.getLast? = some w → ¬ (w.fit.wvalues < x.fit.wvalues)) := by
  intro x hx
  rcases hof_best hm hh hr x hx with hrep | ⟨hl, hw⟩
  · exact Or.inl hrep
  · exact Or.inr ⟨hl, fun w hw' => not_lt.2 (hw w hw')⟩

/-- … in DEAP's own operator: `x.fitness > hof[-1].fitness` is `False` for every shown `x` that is
not kept. -/
theorem best_of_seen_gt (hm : 1 ≤ m) (hh : SimHyp sim hist.flatten)
    (hr : run sim (empty m base) hist = some h) :
    ∀ x ∈ hist.flatten, (∀ it ∈ h.items, sim x it = false) →
      h.items.length = m ∧ ∀ w, h.items.getLast? = some w → Fitness.gt x.fit w.fit = false := by
  intro x hx hno
  rcases hof_best hm hh hr x hx with ⟨it, hit, hs⟩ | ⟨hl, hw⟩
  · rw [hno it hit] at hs; exact absurd hs (by simp)
  · exact ⟨hl, fun w hw' => (gt_false_iff _ _).2 (hw w hw')⟩

/-! ## ParetoFront -/

variable (sim)

/-- No `ParetoFront.update` ever raises: the recorded positions are valid when deleted in reverse. -/
theorem pf_never_raises (m base : Nat) (hist : List (List (Ind G α))) :
    ∃ h, pfRun sim (empty m base) hist = some h := by
  obtain ⟨h, e, _⟩ := pfRun_str sim hist [] (empty m base) (str_empty m base)
  exact ⟨h, e⟩

/-- The parallel lists never drift (multi-removal included). -/
theorem pf_mirror (hr : pfRun sim (empty m base) hist = some h) :
    h.keys = (h.items.map (·.fit)).reverse :=
  (pf_str sim hr).mirror

/-- The archive is kept in lexicographic fitness order (best first; `keys` ascending). -/
theorem pf_sorted (hr : pfRun sim (empty m base) hist = some h) :
    h.items.Pairwise (fun a b => b.fit.wvalues ≤ a.fit.wvalues) ∧
    h.keys.Pairwise (fun a b => a.wvalues ≤ b.wvalues) :=
  ⟨(pf_str sim hr).sorted, (pf_str sim hr).asc⟩

/-- Members are deep copies: allocated by the archive, pairwise different objects, untouched by an
in-place modification of a submitted object. -/
theorem pf_copies (hr : pfRun sim (empty m base) hist = some h) :
    (∀ it ∈ h.items, base ≤ it.oid) ∧ (h.items.map (·.oid)).Nodup ∧
    ∀ o, o < base → ∀ (g : G) (f : Fitness.Fit α), h.items.map (write o g f) = h.items := by
  obtain ⟨_, f2, f3⟩ := (pf_str sim hr).fresh
  refine ⟨fun it hit => (f2 it hit).1, f3, fun o ho g f => ?_⟩
  conv => rhs; rw [← List.map_id h.items]
  apply List.map_congr_left
  intro it hit
  have := (f2 it hit).1
  simp only [write, id]
  rw [if_neg (by omega)]

/-- What `dominates` means on two fitnesses: nowhere worse and somewhere better (positions present
in both tuples). -/
theorem dom_meaning (a b : Fitness.Fit α) :
    dom a b = true ↔
      (∀ i (h1 : i < a.wvalues.length) (h2 : i < b.wvalues.length), b.wvalues[i] ≤ a.wvalues[i]) ∧
      ∃ i, ∃ (h1 : i < a.wvalues.length) (h2 : i < b.wvalues.length), b.wvalues[i] < a.wvalues[i] :=
  dom_iff a b

variable {sim}

/-- Members are mutually non-dominated — for every similarity operator, as soon as all fitnesses
shown have the same number of objectives. -/
theorem pf_antichain {n : Nat} (hlen : ∀ x ∈ hist.flatten, x.fit.wvalues.length = n)
    (hr : pfRun sim (empty m base) hist = some h) :
    ∀ a ∈ h.items, ∀ b ∈ h.items, dom a.fit b.fit = false :=
  pf_anti hlen hr

/-- No two members have equal fitness and are similar (symmetric identity-blind similarity suffices). -/
theorem pf_no_twins {n : Nat} (hlen : ∀ x ∈ hist.flatten, x.fit.wvalues.length = n) (hh : SimSym sim)
    (hr : pfRun sim (empty m base) hist = some h) :
    h.items.Pairwise (fun a b => ¬ (a.fit = b.fit ∧ sim a b = true)) :=
  pf_notwin hlen hh hr

/-- The archive holds exactly one copy of every distinct individual ever shown whose fitness is not
dominated by any fitness ever shown:
(a) every member is a copy of a shown individual that no shown fitness dominates;
(b) every shown individual that no shown fitness dominates has a member with equal fitness similar to it;
(c) no two members have equal fitness and are similar. -/
theorem pf_exact {n : Nat} (hh : PfHyp sim n hist.flatten)
    (hr : pfRun sim (empty m base) hist = some h) :
    (∀ it ∈ h.items, ∃ x ∈ hist.flatten, (it.genome = x.genome ∧ it.fit = x.fit) ∧
        ∀ y ∈ hist.flatten, dom y.fit x.fit = false) ∧
    (∀ x ∈ hist.flatten, (∀ y ∈ hist.flatten, dom y.fit x.fit = false) →
        ∃ it ∈ h.items, it.fit = x.fit ∧ sim x it = true) ∧
    h.items.Pairwise (fun a b => ¬ (a.fit = b.fit ∧ sim a b = true)) := by
  have hs := pf_str sim hr
  have hanti := pf_anti hh.len hr
  have hcover := pf_cover hh hr
  have hlen_it : ∀ it ∈ h.items, it.fit.wvalues.length = n := by
    intro it hit
    obtain ⟨x, hx, sx⟩ := hs.origin it hit
    rw [sx.2]; exact hh.len x hx
  refine ⟨?_, ?_, pf_notwin hh.len hh.toSimSym hr⟩
  · intro it hit
    obtain ⟨x, hx, sx⟩ := hs.origin it hit
    refine ⟨x, hx, sx, ?_⟩
    intro y hy
    cases hq : dom y.fit x.fit with
    | false => rfl
    | true =>
      exfalso
      rcases hcover y hy with ⟨z, hz, hd⟩ | ⟨z, hz, ht⟩
      · have := dom_trans (hlen_it z hz) (hh.len y hy) (hh.len x hx) hd hq
        rw [← sx.2, hanti z hz it hit] at this; exact absurd this (by simp)
      · rw [ht.1, ← sx.2, hanti z hz it hit] at hq; exact absurd hq (by simp)
  · intro x hx hnd
    rcases hcover x hx with ⟨it, hit, hd⟩ | ⟨it, hit, ht⟩
    · obtain ⟨x', hx', sx'⟩ := hs.origin it hit
      rw [sx'.2, hnd x' hx'] at hd; exact absurd hd (by simp)
    · exact ⟨it, hit, ht.1.symm, ht.2⟩

/-! ## How a history is cut into `update` calls, and the order inside it -/

variable (sim)

/-- Showing `xs ++ ys` in one `ParetoFront.update` is showing `xs`, then `ys` — for every archive state `h`
(the loop carries no state from one individual to the next except the archive itself). -/
theorem pf_update_batch_split (h : HoF G α) (xs ys : List (Ind G α)) :
    pfUpdate sim h (xs ++ ys) = (pfUpdate sim h xs).bind (fun h' => pfUpdate sim h' ys) :=
  pfUpdate_append sim h xs ys

/-- A whole history is one update with the concatenation of its batches: the archive (members, keys, even the
identities of the copies) depends only on the sequence of individuals shown, not on where the batches end. -/
theorem pf_history_flatten (h : HoF G α) (hist : List (List (Ind G α))) :
    pfRun sim h hist = pfUpdate sim h hist.flatten :=
  pfRun_eq_flatten sim h hist

/-- … so two histories showing the same individuals in the same order leave the same archive. -/
theorem pf_batch_split_invariant (h : HoF G α) {hist hist' : List (List (Ind G α))}
    (e : hist.flatten = hist'.flatten) : pfRun sim h hist = pfRun sim h hist' := by
  rw [pf_history_flatten, pf_history_flatten, e]

/-- The same for `HallOfFame.update`, for every archive state and every capacity: `population[0]` is read
only while the archive is empty, and then it is the individual of the current iteration. -/
theorem hof_update_batch_split (h : HoF G α) (xs ys : List (Ind G α)) :
    update sim h (xs ++ ys) = (update sim h xs).bind (fun h' => update sim h' ys) :=
  update_append sim h xs ys

theorem hof_history_flatten (h : HoF G α) (hist : List (List (Ind G α))) :
    run sim h hist = update sim h hist.flatten :=
  run_eq_flatten sim h hist

theorem hof_batch_split_invariant (h : HoF G α) {hist hist' : List (List (Ind G α))}
    (e : hist.flatten = hist'.flatten) : run sim h hist = run sim h hist' := by
  rw [hof_history_flatten, hof_history_flatten, e]

variable {sim}

/-- The member SET of the Pareto archive does not depend on the order in which the individuals were shown
(nor on how often): two histories showing the same set of individuals leave archives such that every member of
one has a member of the other with equal fitness similar to it — so the sets of member fitnesses are equal — and,
when similar individuals have equal genomes (the default `operator.eq`), the sets of (genome, fitness) contents
are equal. -/
theorem pf_members_order_invariant {n m' base' : Nat} {hist' : List (List (Ind G α))} {h' : HoF G α}
    (hh : PfHyp sim n hist.flatten) (hset : ∀ x, x ∈ hist.flatten ↔ x ∈ hist'.flatten)
    (hr : pfRun sim (empty m base) hist = some h) (hr' : pfRun sim (empty m' base') hist' = some h') :
    (∀ it ∈ h.items, ∃ it' ∈ h'.items, it'.fit = it.fit ∧ sim it it' = true) ∧
    (∀ it' ∈ h'.items, ∃ it ∈ h.items, it.fit = it'.fit ∧ sim it' it = true) ∧
    ((∀ a b : Ind G α, sim a b = true → a.genome = b.genome) →
      ∀ (g : G) (f : Fitness.Fit α), (∃ it ∈ h.items, it.genome = g ∧ it.fit = f) ↔
        (∃ it' ∈ h'.items, it'.genome = g ∧ it'.fit = f)) := by
  have hh' : PfHyp sim n hist'.flatten := ⟨hh.toSimBase, fun x hx => hh.len x ((hset x).2 hx)⟩
  have key : ∀ {m₁ b₁ m₂ b₂ : Nat} {H₁ H₂ : List (List (Ind G α))} {a₁ a₂ : HoF G α},
      PfHyp sim n H₁.flatten → PfHyp sim n H₂.flatten →
      (∀ x, x ∈ H₁.flatten → x ∈ H₂.flatten) → (∀ x, x ∈ H₂.flatten → x ∈ H₁.flatten) →
      pfRun sim (empty m₁ b₁) H₁ = some a₁ → pfRun sim (empty m₂ b₂) H₂ = some a₂ →
      ∀ it ∈ a₁.items, ∃ it' ∈ a₂.items, it'.fit = it.fit ∧ sim it it' = true := by
    intro m₁ b₁ m₂ b₂ H₁ H₂ a₁ a₂ p₁ p₂ s₁₂ s₂₁ r₁ r₂ it hit
    obtain ⟨x, hx, sx, hnd⟩ := (pf_exact p₁ r₁).1 it hit
    obtain ⟨it', hit', hf, hs⟩ := (pf_exact p₂ r₂).2.1 x (s₁₂ x hx) (fun y hy => hnd y (s₂₁ y hy))
    refine ⟨it', hit', by rw [hf, sx.2], ?_⟩
    rw [p₁.same it x it' it' sx (same_refl it')]; exact hs
  have k₁ := key hh hh' (fun x => (hset x).1) (fun x => (hset x).2) hr hr'
  have k₂ := key hh' hh (fun x => (hset x).2) (fun x => (hset x).1) hr' hr
  refine ⟨k₁, k₂, fun hg g f => ⟨?_, ?_⟩⟩
  · rintro ⟨it, hit, rfl, rfl⟩
    obtain ⟨it', hit', hf, hs⟩ := k₁ it hit
    exact ⟨it', hit', (hg it it' hs).symm, hf⟩
  · rintro ⟨it', hit', rfl, rfl⟩
    obtain ⟨it, hit, hf, hs⟩ := k₂ it' hit'
    exact ⟨it, hit, (hg it' it hs).symm, hf⟩

/-- … in particular under every permutation of everything shown (any order inside a batch, any order of the
batches, any cutting). -/
theorem pf_members_perm_invariant {n m' base' : Nat} {hist' : List (List (Ind G α))} {h' : HoF G α}
    (hh : PfHyp sim n hist.flatten) (hperm : hist.flatten.Perm hist'.flatten)
    (hr : pfRun sim (empty m base) hist = some h) (hr' : pfRun sim (empty m' base') hist' = some h') :
    (∀ f : Fitness.Fit α, (∃ it ∈ h.items, it.fit = f) ↔ (∃ it' ∈ h'.items, it'.fit = f)) ∧
    ((∀ a b : Ind G α, sim a b = true → a.genome = b.genome) →
      ∀ (g : G) (f : Fitness.Fit α), (∃ it ∈ h.items, it.genome = g ∧ it.fit = f) ↔
        (∃ it' ∈ h'.items, it'.genome = g ∧ it'.fit = f)) := by
  obtain ⟨k₁, k₂, k₃⟩ := pf_members_order_invariant hh (fun x => hperm.mem_iff) hr hr'
  refine ⟨fun f => ⟨?_, ?_⟩, k₃⟩
  · rintro ⟨it, hit, rfl⟩
    obtain ⟨it', hit', hf, _⟩ := k₁ it hit
    exact ⟨it', hit', hf⟩
  · rintro ⟨it', hit', rfl⟩
    obtain ⟨it, hit, hf, _⟩ := k₂ it' hit'
    exact ⟨it, hit, hf⟩

/-! ## Non-vacuity: a concrete history satisfying all hypotheses at once -/

section Examples

/-- similarity = equal genomes (the default `operator.eq` on list individuals) -/
def genomeEq : Ind Nat Int → Ind Nat Int → Bool := fun a b => decide (a.genome = b.genome)

/-- Genome equality is reflexive, symmetric and blind to object identity. -/
theorem simBase_genomeEq : SimBase genomeEq where
  refl := by simp [genomeEq]
  symm := by simp only [genomeEq, decide_eq_true_eq]; exact fun _ _ e => e.symm
  same := by
    intro x x' y y' h1 h2
    simp only [genomeEq, h1.1, h2.1]

/-- Genome equality satisfies the reading's hypotheses on every universe in which the fitness is a
function of the genome. -/
theorem simHyp_genomeEq (U : List (Ind Nat Int))
    (hU : ∀ x ∈ U, ∀ y ∈ U, x.genome = y.genome → x.fit = y.fit) : SimHyp genomeEq U where
  toSimBase := simBase_genomeEq
  fit := by
    intro x hx y hy hs
    exact hU x hx y hy (by simpa [genomeEq] using hs)

theorem pfHyp_genomeEq (n : Nat) (U : List (Ind Nat Int))
    (hU : ∀ x ∈ U, x.fit.wvalues.length = n) : PfHyp genomeEq n U where
  toSimBase := simBase_genomeEq
  len := hU

/-- objects 0,1,2; object 0 is modified in place (genome 7 → 9) and shown again; two objectives -/
def exHist : List (List (Ind Nat Int)) :=
  [[⟨0, 7, ⟨[1, -2]⟩⟩, ⟨1, 8, ⟨[1, -2]⟩⟩], [], [⟨2, 7, ⟨[1, -2]⟩⟩, ⟨0, 9, ⟨[3, -1]⟩⟩, ⟨1, 8, ⟨[1, -2]⟩⟩]]

def view (r : Option (HoF Nat Int)) : Option (List (Nat × Nat × List Int) × List (List Int)) :=
  r.map (fun h => (h.items.map (fun i => (i.oid, i.genome, i.fit.wvalues)), h.keys.map (·.wvalues)))

example : view (run genomeEq (empty 2 100) exHist) =
    some ([(102, 9, [3, -1]), (101, 8, [1, -2])], [[1, -2], [3, -1]]) := by decide

example : view (pfRun genomeEq (empty 0 100) exHist) = some ([(102, 9, [3, -1])], [[3, -1]]) := by decide

example : SimHyp genomeEq exHist.flatten := simHyp_genomeEq _ (by decide)
example : PfHyp genomeEq 2 exHist.flatten := pfHyp_genomeEq 2 _ (by decide)

/-- the concrete history cut differently (one batch / every individual alone) leaves the same archive -/
example : exHist.flatten = [exHist.flatten].flatten := by simp
example : pfRun genomeEq (empty 0 100) exHist = pfRun genomeEq (empty 0 100) [exHist.flatten] :=
  pf_batch_split_invariant genomeEq _ (by simp)
example : run genomeEq (empty 2 100) exHist = run genomeEq (empty 2 100) (exHist.flatten.map (fun x => [x])) :=
  hof_batch_split_invariant genomeEq _ rfl

/-- the hypotheses of `pf_members_order_invariant` / `pf_members_perm_invariant` hold for the concrete history and
the history that shows its batches in reverse order and everything in reverse order inside each batch;
genome equality has equal genomes on similar individuals, so the (genome, fitness) sets agree -/
example : exHist.flatten.Perm (exHist.map List.reverse).reverse.flatten := by
  have : (exHist.map List.reverse).reverse.flatten = exHist.flatten.reverse := rfl
  rw [this]; exact (List.reverse_perm _).symm
example : ∀ a b : Ind Nat Int, genomeEq a b = true → a.genome = b.genome := by
  intro a b e; simpa [genomeEq] using e
example : view (pfRun genomeEq (empty 0 50) (exHist.map List.reverse).reverse) =
    some ([(51, 9, [3, -1])], [[3, -1]]) := by decide

/-- all hypotheses of the hall-of-fame theorems hold together on the concrete history (capacity 2),
so their conclusions do: -/
example : ∃ h, run genomeEq (empty 2 100) exHist = some h ∧
    h.keys = (h.items.map (·.fit)).reverse ∧ h.items.length ≤ 2 ∧
    h.items.Pairwise (fun a b => genomeEq a b = false) ∧
    (∀ x ∈ exHist.flatten, (∃ it ∈ h.items, genomeEq x it = true) ∨
      (h.items.length = 2 ∧ ∀ w, h.items.getLast? = some w → ¬ (w.fit.wvalues < x.fit.wvalues))) := by
  obtain ⟨h, hr⟩ := never_raises genomeEq (by decide : 1 ≤ 2) 100 exHist
  have hh : SimHyp genomeEq exHist.flatten := simHyp_genomeEq _ (by decide)
  exact ⟨h, hr, mirror _ (by decide) hr, size_le _ (by decide) hr, pairwise_dissimilar (by decide) hh.toSimSym hr,
    best_of_seen (by decide) hh hr⟩

/-- `best_of_seen` needs "similar ⇒ equal fitness": object 0 (genome 1) is re-evaluated in place from
fitness 1 to 5 and shown again; it is rejected as similar to its old copy, the old copy is later
evicted by genome 3 (fitness 2), and the shown (genome 1, fitness 5) is neither represented nor
≤ the worst member.  This is DEAP's documented design ("a single copy of each individual is kept",
individuals are identified by `similar`), so the reading of DESIGN §6 keeps the hypothesis. -/
theorem best_of_seen_needs_fit :
    ∃ (hist : List (List (Ind Nat Int))) (h : HoF Nat Int) (x : Ind Nat Int),
      SimBase genomeEq ∧ run genomeEq (empty 2 100) hist = some h ∧ x ∈ hist.flatten ∧
      (∀ it ∈ h.items, genomeEq x it = false) ∧
      ∃ w, h.items.getLast? = some w ∧ w.fit.wvalues < x.fit.wvalues := by
  obtain ⟨h, hr⟩ := never_raises genomeEq (by decide : 1 ≤ 2) 100
    [[⟨0, 1, ⟨[1]⟩⟩, ⟨1, 2, ⟨[3]⟩⟩], [⟨0, 1, ⟨[5]⟩⟩], [⟨2, 3, ⟨[2]⟩⟩]]
  have hv : view (run genomeEq (empty 2 100)
      [[⟨0, 1, ⟨[1]⟩⟩, ⟨1, 2, ⟨[3]⟩⟩], [⟨0, 1, ⟨[5]⟩⟩], [⟨2, 3, ⟨[2]⟩⟩]]) =
      some ([(101, 2, [3]), (102, 3, [2])], [[2], [3]]) := by decide
  rw [hr] at hv
  simp only [view, Option.map_some, Option.some.injEq, Prod.mk.injEq] at hv
  obtain ⟨hi, _⟩ := hv
  have hlast : (h.items.getLast?).map (fun i => (i.oid, i.genome, i.fit.wvalues)) = some (102, 3, [2]) := by
    rw [← List.getLast?_map, hi]; rfl
  cases hw : h.items.getLast? with
  | none => rw [hw] at hlast; simp at hlast
  | some w =>
    rw [hw] at hlast
    simp only [Option.map_some, Option.some.injEq, Prod.mk.injEq] at hlast
    refine ⟨_, h, ⟨0, 1, ⟨[5]⟩⟩, simBase_genomeEq, hr, by simp, ?_, w, hw, ?_⟩
    · intro it hit
      have : (it.oid, it.genome, it.fit.wvalues) ∈ h.items.map (fun i => (i.oid, i.genome, i.fit.wvalues)) :=
        List.mem_map.2 ⟨it, hit, rfl⟩
      rw [hi] at this
      simp only [List.mem_cons, Prod.mk.injEq, List.not_mem_nil, or_false] at this
      rcases this with ⟨_, hg, _⟩ | ⟨_, hg, _⟩ <;> simp [genomeEq, hg]
    · rw [hlast.2.2]; decide

/-- the hypotheses of `worst_monotone` hold on the concrete history: after the first batch the
archive of capacity 2 is full (worst member: genome 7, fitness (1,-2)), and the rest of the history follows -/
example : ∃ h h₂ w, run genomeEq (empty 2 100) (exHist.take 1) = some h ∧
    run genomeEq (empty 2 100) (exHist.take 1 ++ exHist.drop 1) = some h₂ ∧ h.items.length = 2 ∧
    h.items.getLast? = some w ∧ h₂.items.length = 2 ∧ ∀ it ∈ h₂.items, w.fit.wvalues ≤ it.fit.wvalues := by
  obtain ⟨h, hr⟩ := never_raises genomeEq (by decide : 1 ≤ 2) 100 (exHist.take 1)
  obtain ⟨h₂, hr₂⟩ := never_raises genomeEq (by decide : 1 ≤ 2) 100 (exHist.take 1 ++ exHist.drop 1)
  have hl : h.items.length = 2 := by
    have : (run genomeEq (empty 2 100) (exHist.take 1)).map (·.items.length) = some 2 := by decide
    rw [hr] at this; simpa using this
  obtain ⟨w, hw⟩ : ∃ w, h.items.getLast? = some w := by
    cases hq : h.items.getLast? with
    | none => rw [List.getLast?_eq_none_iff] at hq; rw [hq] at hl; simp at hl
    | some w => exact ⟨w, rfl⟩
  exact ⟨h, h₂, w, hr, hr₂, hl, hw, worst_monotone genomeEq (by decide) hr hr₂ hl w hw⟩

/-- the room hypothesis of `all_kept_while_room` is satisfiable: with capacity 3 the three distinct
genomes of the concrete history all fit (any pairwise-dissimilar list has distinct genomes among 7, 8, 9). -/
example : ∀ l : List (Ind Nat Int), (∀ y ∈ l, y ∈ exHist.flatten) →
    l.Pairwise (fun a b => genomeEq a b = false) → l.length ≤ 3 := by
  intro l hl hp
  have hnd : (l.map (·.genome)).Nodup := by
    rw [List.Nodup, List.pairwise_map]
    exact hp.imp (fun {a b} hab => by simpa [genomeEq] using hab)
  have hsub : l.map (·.genome) ⊆ [7, 8, 9] := by
    intro g hg
    simp only [List.mem_map] at hg
    obtain ⟨y, hy, rfl⟩ := hg
    have := hl y hy
    simp [exHist] at this
    rcases this with rfl | rfl | rfl | rfl | rfl <;> simp
  have := hnd.length_le_of_subset hsub
  simpa using this

/-- all hypotheses of the Pareto theorems hold together on the concrete history -/
example : ∃ h, pfRun genomeEq (empty 0 100) exHist = some h ∧
    (∀ a ∈ h.items, ∀ b ∈ h.items, dom a.fit b.fit = false) ∧
    h.items.Pairwise (fun a b => ¬ (a.fit = b.fit ∧ genomeEq a b = true)) := by
  obtain ⟨h, hr⟩ := pf_never_raises genomeEq 0 100 exHist
  have hh : PfHyp genomeEq 2 exHist.flatten := pfHyp_genomeEq 2 _ (by decide)
  exact ⟨h, hr, pf_antichain hh.len hr, pf_no_twins hh.len hh.toSimSym hr⟩

end Examples

/-! ## The archive in the object heap: members are deep copies

Model: `Core/ArchiveHeap.lean` (`insert` = `Heap.clone` + the list bookkeeping; `keys` / `items` hold object
ids; every read goes through the heap).  A history is a list of events: `upd` (an `update` call), `write`
(an in-place modification of an object of the caller), `alloc` (a new object of the caller).
`Valid` says what the caller may do (`C08H.EvOK`): show individuals that `deepcopy` can copy and that have a
`fitness`, and write to / refer to objects outside the archive's own allocations only.  The copy mechanism
is C16's (`Heap.Copy.clone_facts`: the clone denotes the same pure value and is made of new objects and
immutable old ones). -/

section HeapLevel
open ArchiveHeap C08H Heap

variable {P : Params α} {pf : Bool} {cap next0 : Nat} {objs0 : Oid → Option Obj} {evs evs₂ : List Ev}
  {st st₂ : HState}

/-- Refinement (hall of fame): after every admissible history the heap-level archive denotes (`Rel`: same
capacity, `keys` hold the same fitness values, members have the same pure values and fitnesses) the pure
archive of `Core/Archive.lean` run on the populations *as they were when shown*; neither side raises
unless the other does. -/
theorem heap_hof_refines (hsim : SimErase P.sim) (hct : CTOk P.ct) (hcl : Closed objs0 next0) (b : Nat)
    (hv : Valid P false (emptyH cap objs0 next0) evs) :
    (∀ st, runH P false (emptyH cap objs0 next0) evs = some st →
      ∃ hp, run P.sim (empty cap b) (histOf P false (emptyH cap objs0 next0) evs) = some hp ∧ Rel P st hp) ∧
    (∀ hp, run P.sim (empty cap b) (histOf P false (emptyH cap objs0 next0) evs) = some hp →
      ∃ st, runH P false (emptyH cap objs0 next0) evs = some st ∧ Rel P st hp) := by
  have := run_from_empty hsim hct false hcl cap b evs hv
  rw [pureRun_false] at this
  constructor
  · intro st hr
    rw [hr] at this
    cases hq : run P.sim (empty cap b) (histOf P false (emptyH cap objs0 next0) evs) with
    | none => rw [hq] at this; exact this.elim
    | some hp => rw [hq] at this; exact ⟨hp, rfl, this.2.1⟩
  · intro hp hq
    rw [hq] at this
    cases hr : runH P false (emptyH cap objs0 next0) evs with
    | none => rw [hr] at this; exact this.elim
    | some st => rw [hr] at this; exact ⟨st, rfl, this.2.1⟩

/-- Refinement (Pareto archive). -/
theorem heap_pf_refines (hsim : SimErase P.sim) (hct : CTOk P.ct) (hcl : Closed objs0 next0) (b : Nat)
    (hv : Valid P true (emptyH cap objs0 next0) evs) :
    (∀ st, runH P true (emptyH cap objs0 next0) evs = some st →
      ∃ hp, pfRun P.sim (empty cap b) (histOf P true (emptyH cap objs0 next0) evs) = some hp ∧ Rel P st hp) ∧
    (∀ hp, pfRun P.sim (empty cap b) (histOf P true (emptyH cap objs0 next0) evs) = some hp →
      ∃ st, runH P true (emptyH cap objs0 next0) evs = some st ∧ Rel P st hp) := by
  have := run_from_empty hsim hct true hcl cap b evs hv
  rw [pureRun_true] at this
  constructor
  · intro st hr
    rw [hr] at this
    cases hq : pfRun P.sim (empty cap b) (histOf P true (emptyH cap objs0 next0) evs) with
    | none => rw [hq] at this; exact this.elim
    | some hp => rw [hq] at this; exact ⟨hp, rfl, this.2.1⟩
  · intro hp hq
    rw [hq] at this
    cases hr : runH P true (emptyH cap objs0 next0) evs with
    | none => rw [hr] at this; exact this.elim
    | some st => rw [hr] at this; exact ⟨st, rfl, this.2.1⟩

/-- No admissible history makes the heap-level archive raise (capacity ≥ 1; any capacity for the Pareto
archive): `deepcopy` succeeds on every submitted individual, `self[-1]` / `remove` stay in range. -/
theorem heap_never_raises (hsim : SimErase P.sim) (hct : CTOk P.ct) (hcl : Closed objs0 next0)
    (hcap : pf = false → 1 ≤ cap) (hv : Valid P pf (emptyH cap objs0 next0) evs) :
    ∃ st, runH P pf (emptyH cap objs0 next0) evs = some st := by
  cases pf with
  | false =>
    obtain ⟨hp, hq⟩ := never_raises P.sim (hcap rfl) 0 (histOf P false (emptyH cap objs0 next0) evs)
    obtain ⟨st, hr, _⟩ := (heap_hof_refines hsim hct hcl 0 hv).2 hp hq
    exact ⟨st, hr⟩
  | true =>
    obtain ⟨hp, hq⟩ := pf_never_raises P.sim cap 0 (histOf P true (emptyH cap objs0 next0) evs)
    obtain ⟨st, hr, _⟩ := (heap_pf_refines hsim hct hcl 0 hv).2 hp hq
    exact ⟨st, hr⟩

/-- Members are deep copies, for either kind of archive (`pf`).  After every admissible history:
1. `log` lists oid ranges allocated after the archive was created, one after the other (pairwise disjoint) —
   by definition of `insertH` each is what one `deepcopy` call of the archive allocated;
2. every member is the first object of a range of its own, and everything reachable from it lies in that
   range or is immutable (a GP node object, which `PrimitiveTree.__deepcopy__` shares); members are
   pairwise different objects;
3. nothing reachable from an individual that was ever submitted lies in any of the ranges;
4. hence no mutable object is reachable both from a member and from a submitted individual, or from two
   members. -/
theorem archive_members_fresh (hsim : SimErase P.sim) (hct : CTOk P.ct) (hcl : Closed objs0 next0)
    (hv : Valid P pf (emptyH cap objs0 next0) evs) (hr : runH P pf (emptyH cap objs0 next0) evs = some st) :
    (∀ r ∈ st.log, next0 ≤ r.1 ∧ r.1 < r.2 ∧ r.2 ≤ st.next) ∧ st.log.Pairwise (fun r s => r.2 ≤ s.1) ∧
    (∀ x ∈ st.items, ∃ hi, (x, hi) ∈ st.log ∧
      ∀ y, Reach st.objs (.ref x) y → (x ≤ y ∧ y < hi) ∨ Imm st.objs y) ∧
    st.items.Nodup ∧
    (∀ s ∈ submittedOf evs, ∀ y, Reach st.objs (.ref s) y → ¬ InLog st.log y) ∧
    (∀ x ∈ st.items, ∀ s ∈ submittedOf evs, ∀ y o, Reach st.objs (.ref x) y → Reach st.objs (.ref s) y →
      st.objs y = some o → o.mutable = false) ∧
    (∀ i j : Nat, i < j → ∀ xi xj, st.items[i]? = some xi → st.items[j]? = some xj →
      ∀ y o, Reach st.objs (.ref xi) y → Reach st.objs (.ref xj) y → st.objs y = some o →
        o.mutable = false) := by
  obtain ⟨_, _, hI, _, hsub⟩ := inv_of_run hsim hct pf hcl cap evs hv hr
  exact members_fresh_of_inv hI _ hsub

/-- … for the hall of fame … -/
theorem hof_members_fresh (hsim : SimErase P.sim) (hct : CTOk P.ct) (hcl : Closed objs0 next0)
    (hv : Valid P false (emptyH cap objs0 next0) evs)
    (hr : runH P false (emptyH cap objs0 next0) evs = some st) :
    (∀ x ∈ st.items, ∃ hi, (x, hi) ∈ st.log ∧ next0 ≤ x ∧
      ∀ y, Reach st.objs (.ref x) y → (x ≤ y ∧ y < hi) ∨ Imm st.objs y) ∧
    (∀ x ∈ st.items, ∀ s ∈ submittedOf evs, ∀ y o, Reach st.objs (.ref x) y → Reach st.objs (.ref s) y →
      st.objs y = some o → o.mutable = false) ∧
    (∀ i j : Nat, i < j → ∀ xi xj, st.items[i]? = some xi → st.items[j]? = some xj →
      ∀ y o, Reach st.objs (.ref xi) y → Reach st.objs (.ref xj) y → st.objs y = some o →
        o.mutable = false) := by
  obtain ⟨h1, _, h3, _, _, h6, h7⟩ := archive_members_fresh hsim hct hcl hv hr
  refine ⟨fun x hx => ?_, h6, h7⟩
  obtain ⟨hi, hm, hreach⟩ := h3 x hx
  exact ⟨hi, hm, (h1 _ hm).1, hreach⟩

/-- … and for the Pareto archive. -/
theorem pf_members_fresh (hsim : SimErase P.sim) (hct : CTOk P.ct) (hcl : Closed objs0 next0)
    (hv : Valid P true (emptyH cap objs0 next0) evs)
    (hr : runH P true (emptyH cap objs0 next0) evs = some st) :
    (∀ x ∈ st.items, ∃ hi, (x, hi) ∈ st.log ∧ next0 ≤ x ∧
      ∀ y, Reach st.objs (.ref x) y → (x ≤ y ∧ y < hi) ∨ Imm st.objs y) ∧
    (∀ x ∈ st.items, ∀ s ∈ submittedOf evs, ∀ y o, Reach st.objs (.ref x) y → Reach st.objs (.ref s) y →
      st.objs y = some o → o.mutable = false) ∧
    (∀ i j : Nat, i < j → ∀ xi xj, st.items[i]? = some xi → st.items[j]? = some xj →
      ∀ y o, Reach st.objs (.ref xi) y → Reach st.objs (.ref xj) y → st.objs y = some o →
        o.mutable = false) := by
  obtain ⟨h1, _, h3, _, _, h6, h7⟩ := archive_members_fresh hsim hct hcl hv hr
  refine ⟨fun x hx => ?_, h6, h7⟩
  obtain ⟨hi, hm, hreach⟩ := h3 x hx
  exact ⟨hi, hm, (h1 _ hm).1, hreach⟩

/-- Unaffected by later changes to the populations, for either kind of archive.  Let `st` be the archive
after an admissible history `evs` and `st₂` the archive after any admissible continuation `evs₂` — heap
writes through the caller's objects (in-place genome edits, `fitness.values = …`, `del fitness.values`,
attribute edits, new objects) interleaved with further updates.  Then
1. every member of `st` that is still a member denotes, at every depth, the pure value (genome, nested
   mutables, attributes, fitness) it denoted in `st`;
2. `keys[j] is items[n-1-j].fitness` (the key objects are the members' own fitness objects, not the
   caller's), and therefore
3. `keys[j].wvalues = items[n-1-j].fitness.wvalues` in the heap as it is now;
4. if the continuation contains no `update` at all, the archive has the same members and keys and denotes
   the same pure archive as before. -/
theorem archive_unaffected_by_writes (hsim : SimErase P.sim) (hct : CTOk P.ct) (hcl : Closed objs0 next0)
    (hv : Valid P pf (emptyH cap objs0 next0) (evs ++ evs₂))
    (hr : runH P pf (emptyH cap objs0 next0) evs = some st) (hr₂ : runH P pf st evs₂ = some st₂) :
    (∀ x ∈ st.items, x ∈ st₂.items → ∀ d, Heap.abs st₂.objs d (.ref x) = Heap.abs st.objs d (.ref x)) ∧
    st₂.keys.map some = (st₂.items.map (instFit P st₂.objs)).reverse ∧
    st₂.keys.map (fun k => some (fitAt P st₂.objs k))
      = (st₂.items.map (fun x => (viewInd P st₂.objs x).map (·.fit))).reverse ∧
    (CallerOnly evs₂ → st₂.items = st.items ∧ st₂.keys = st.keys ∧ ∀ hp, Rel P st hp → Rel P st₂ hp) := by
  obtain ⟨hp, _, hI, hR, _⟩ := inv_of_run hsim hct pf hcl cap evs hv.left hr
  have hv₂ := hv.right hr
  obtain ⟨hI₂, hS, hco⟩ := continuation_facts hsim hct pf hI hR hv₂ hr₂
  refine ⟨hS, hI₂.keyof, value_mirror_of_inv hI₂, fun hc => ?_⟩
  obtain ⟨e1, e2, _⟩ := hco hc
  exact ⟨e1, e2, fun hp' hR' => ((continuation_facts hsim hct pf hI hR' hv₂ hr₂).2.2 hc).2.2⟩

/-- … for the hall of fame … -/
theorem hof_unaffected_by_writes (hsim : SimErase P.sim) (hct : CTOk P.ct) (hcl : Closed objs0 next0)
    (hv : Valid P false (emptyH cap objs0 next0) (evs ++ evs₂))
    (hr : runH P false (emptyH cap objs0 next0) evs = some st) (hr₂ : runH P false st evs₂ = some st₂) :
    (∀ x ∈ st.items, x ∈ st₂.items → ∀ d, Heap.abs st₂.objs d (.ref x) = Heap.abs st.objs d (.ref x)) ∧
    st₂.keys.map some = (st₂.items.map (instFit P st₂.objs)).reverse ∧
    st₂.keys.map (fun k => some (fitAt P st₂.objs k))
      = (st₂.items.map (fun x => (viewInd P st₂.objs x).map (·.fit))).reverse ∧
    (CallerOnly evs₂ → st₂.items = st.items ∧ st₂.keys = st.keys ∧ ∀ hp, Rel P st hp → Rel P st₂ hp) :=
  archive_unaffected_by_writes hsim hct hcl hv hr hr₂

/-- … and for the Pareto archive. -/
theorem pf_unaffected_by_writes (hsim : SimErase P.sim) (hct : CTOk P.ct) (hcl : Closed objs0 next0)
    (hv : Valid P true (emptyH cap objs0 next0) (evs ++ evs₂))
    (hr : runH P true (emptyH cap objs0 next0) evs = some st) (hr₂ : runH P true st evs₂ = some st₂) :
    (∀ x ∈ st.items, x ∈ st₂.items → ∀ d, Heap.abs st₂.objs d (.ref x) = Heap.abs st.objs d (.ref x)) ∧
    st₂.keys.map some = (st₂.items.map (instFit P st₂.objs)).reverse ∧
    st₂.keys.map (fun k => some (fitAt P st₂.objs k))
      = (st₂.items.map (fun x => (viewInd P st₂.objs x).map (·.fit))).reverse ∧
    (CallerOnly evs₂ → st₂.items = st.items ∧ st₂.keys = st.keys ∧ ∀ hp, Rel P st hp → Rel P st₂ hp) :=
  archive_unaffected_by_writes hsim hct hcl hv hr hr₂

/-- What a member denotes is what a submitted individual denoted *when it was shown* (not what that
individual became later): its pure value and fitness are those of an entry of the history as the archive
saw it. -/
theorem heap_members_shown (hsim : SimErase P.sim) (hct : CTOk P.ct) (hcl : Closed objs0 next0)
    (hcap : pf = false → 1 ≤ cap) (hv : Valid P pf (emptyH cap objs0 next0) evs)
    (hr : runH P pf (emptyH cap objs0 next0) evs = some st) :
    ∀ x ∈ st.items, ∃ vx, viewInd P st.objs x = some vx ∧
      ∃ v ∈ (histOf P pf (emptyH cap objs0 next0) evs).flatten, vx.genome = v.genome ∧ vx.fit = v.fit := by
  intro x hx
  cases pf with
  | false =>
    obtain ⟨hp, hq, hR⟩ := (heap_hof_refines hsim hct hcl 0 hv).1 st hr
    obtain ⟨it, hit, vx, hvx, e⟩ := hR.mem_of_heap hx
    obtain ⟨v, hv', e'⟩ := members_shown P.sim (hcap rfl) hq it hit
    exact ⟨vx, hvx, v, hv', (congrArg Prod.fst e).trans e'.1, (congrArg Prod.snd e).trans e'.2⟩
  | true =>
    obtain ⟨hp, hq, hR⟩ := (heap_pf_refines hsim hct hcl 0 hv).1 st hr
    obtain ⟨it, hit, vx, hvx, e⟩ := hR.mem_of_heap hx
    obtain ⟨v, hv', e'⟩ := (pf_str P.sim hq).origin it hit
    exact ⟨vx, hvx, v, hv', (congrArg Prod.fst e).trans e'.1, (congrArg Prod.snd e).trans e'.2⟩

/-! ### The statement's clauses transferred to the heap-level archive -/

/-- Order and capacity at heap level: members are best first by the fitness values their own fitness
objects hold now, at most `cap` of them. -/
theorem heap_hof_order (hsim : SimErase P.sim) (hct : CTOk P.ct) (hcl : Closed objs0 next0) (hcap : 1 ≤ cap)
    (hv : Valid P false (emptyH cap objs0 next0) evs)
    (hr : runH P false (emptyH cap objs0 next0) evs = some st) :
    st.items.length ≤ cap ∧
    st.items.Pairwise (fun a b => ∀ va vb, viewInd P st.objs a = some va → viewInd P st.objs b = some vb →
      vb.fit.wvalues ≤ va.fit.wvalues) := by
  obtain ⟨hp, hq, hR⟩ := (heap_hof_refines hsim hct hcl 0 hv).1 st hr
  refine ⟨by rw [hR.len]; exact size_le P.sim hcap hq, ?_⟩
  exact hR.pairwise (fun a b => b.2.wvalues ≤ a.2.wvalues) (sorted_desc P.sim hcap hq)

/-- Best of everything seen, at heap level: every individual ever shown (as it was when shown) is similar
to a member (as it is now), or the archive is full and the individual is not strictly better than the
worst member. -/
theorem heap_hof_best_of_seen (hct : CTOk P.ct) (hcl : Closed objs0 next0) (hcap : 1 ≤ cap)
    (hv : Valid P false (emptyH cap objs0 next0) evs)
    (hh : SimHyp P.sim (histOf P false (emptyH cap objs0 next0) evs).flatten)
    (hr : runH P false (emptyH cap objs0 next0) evs = some st) :
    ∀ v ∈ (histOf P false (emptyH cap objs0 next0) evs).flatten,
      (∃ x ∈ st.items, ∃ vx, viewInd P st.objs x = some vx ∧ P.sim v vx = true) ∨
      (st.items.length = cap ∧ ∀ w, st.items.getLast? = some w →
        ∀ vw, viewInd P st.objs w = some vw → ¬ (vw.fit.wvalues < v.fit.wvalues)) := by
  have hsim : SimErase P.sim := simErase_of_same hh.same
  obtain ⟨hp, hq, hR⟩ := (heap_hof_refines hsim hct hcl 0 hv).1 st hr
  intro v hv'
  rcases best_of_seen hcap hh hq v hv' with ⟨it, hit, hs⟩ | ⟨hl, hw⟩
  · left
    obtain ⟨x, hx, vx, hvx, e⟩ := hR.mem_of_pure hit
    exact ⟨x, hx, vx, hvx, by rw [hsim v v vx it rfl e]; exact hs⟩
  · right
    refine ⟨by rw [hR.len]; exact hl, fun w hw' vw hvw => ?_⟩
    obtain ⟨it, hit, vw', hvw', e⟩ := hR.last hw'
    rw [hvw] at hvw'
    cases hvw'
    have : vw.fit = it.fit := congrArg Prod.snd e
    rw [this]
    exact hw it hit

/-- Pareto exactness at heap level: (a) every member has the pure value and fitness of a shown individual
that no shown fitness dominates; (b) every shown individual that no shown fitness dominates has a member with
equal fitness similar to it; (c) no two members have equal fitness and are similar; (d) members are kept in
lexicographic fitness order. -/
theorem heap_pf_exact {n : Nat} (hct : CTOk P.ct) (hcl : Closed objs0 next0)
    (hv : Valid P true (emptyH cap objs0 next0) evs)
    (hh : PfHyp P.sim n (histOf P true (emptyH cap objs0 next0) evs).flatten)
    (hr : runH P true (emptyH cap objs0 next0) evs = some st) :
    (∀ x ∈ st.items, ∃ vx, viewInd P st.objs x = some vx ∧
      ∃ v ∈ (histOf P true (emptyH cap objs0 next0) evs).flatten, (vx.genome = v.genome ∧ vx.fit = v.fit) ∧
        ∀ y ∈ (histOf P true (emptyH cap objs0 next0) evs).flatten, dom y.fit v.fit = false) ∧
    (∀ v ∈ (histOf P true (emptyH cap objs0 next0) evs).flatten,
      (∀ y ∈ (histOf P true (emptyH cap objs0 next0) evs).flatten, dom y.fit v.fit = false) →
      ∃ x ∈ st.items, ∃ vx, viewInd P st.objs x = some vx ∧ vx.fit = v.fit ∧ P.sim v vx = true) ∧
    st.items.Pairwise (fun a b => ∀ va vb, viewInd P st.objs a = some va → viewInd P st.objs b = some vb →
      ¬ (va.fit = vb.fit ∧ P.sim va vb = true)) ∧
    st.items.Pairwise (fun a b => ∀ va vb, viewInd P st.objs a = some va → viewInd P st.objs b = some vb →
      vb.fit.wvalues ≤ va.fit.wvalues) := by
  have hsim : SimErase P.sim := simErase_of_same hh.same
  obtain ⟨hp, hq, hR⟩ := (heap_pf_refines hsim hct hcl 0 hv).1 st hr
  obtain ⟨ha, hb, hc⟩ := pf_exact hh hq
  refine ⟨fun x hx => ?_, fun v hv' hnd => ?_, ?_, ?_⟩
  · obtain ⟨it, hit, vx, hvx, e⟩ := hR.mem_of_heap hx
    obtain ⟨v, hv', e', hnd⟩ := ha it hit
    exact ⟨vx, hvx, v, hv', ⟨(congrArg Prod.fst e).trans e'.1, (congrArg Prod.snd e).trans e'.2⟩, hnd⟩
  · obtain ⟨it, hit, hf, hs⟩ := hb v hv' hnd
    obtain ⟨x, hx, vx, hvx, e⟩ := hR.mem_of_pure hit
    exact ⟨x, hx, vx, hvx, (congrArg Prod.snd e).trans hf, by rw [hsim v v vx it rfl e]; exact hs⟩
  · have := hR.pairwise (fun a b => ∀ ia ib : Ind PV α, C08H.erase ia = a → C08H.erase ib = b →
        ¬ (ia.fit = ib.fit ∧ P.sim ia ib = true))
      (hc.imp (fun {a b} hab ia ib ea eb hcon => hab ⟨by
          have h1 : ia.fit = a.fit := congrArg Prod.snd ea
          have h2 : ib.fit = b.fit := congrArg Prod.snd eb
          rw [← h1, ← h2]; exact hcon.1, by rw [← hsim ia a ib b ea eb]; exact hcon.2⟩))
    exact this.imp (fun {a b} hab va vb hva hvb => hab va vb hva hvb va vb rfl rfl)
  · exact hR.pairwise (fun a b => b.2.wvalues ≤ a.2.wvalues) (pf_sorted P.sim hq).1

/-! ### Non-vacuity: a concrete admissible history

Class table and heap of `C16.Ex`; the individual at oid 1 is shown, then re-evaluated in place
(`wvalues` 2 → 9) and edited in place (genome `[5, 6]` → `[7]`), then shown again. -/

/-- All hypotheses of the heap-level theorems hold together for `C08H.Ex`. -/
example : SimErase C08H.Ex.P.sim ∧ CTOk C08H.Ex.P.ct ∧ Closed C16.Ex.heap 3 ∧
    Valid C08H.Ex.P false (emptyH 2 C16.Ex.heap 3) C08H.Ex.evs :=
  ⟨C08H.Ex.simErase, C16.Ex.ct_ok, C16.Ex.heap_closed, C08H.Ex.valid false⟩

/-- The run: the first `update` copies the individual to oid 3 and its fitness to oid 4, the second one (after
the in-place changes) copies it to 5 and 6; the new member is better (9 > 2) and goes first; the log holds the
two ranges; the key objects 4 and 6 are the members' own fitness objects. -/
example : (runH C08H.Ex.P false (emptyH 2 C16.Ex.heap 3) C08H.Ex.evs).map
      (fun s => (s.items, s.keys, s.log, s.next)) = some ([5, 3], [4, 6], [(3, 5), (5, 7)], 7) := by
  decide

/-- The first member still has the genome `[5, 6]` and the fitness `[2]` it was shown with, although the
submitted object now has the genome `[7]` and the fitness `[9]`. -/
example : (runH C08H.Ex.P false (emptyH 2 C16.Ex.heap 3) C08H.Ex.evs).map
      (fun s => (s.objs 3, s.objs 4, s.objs 1, s.objs 2)) =
    some (some ⟨1, [.atom 5, .atom 6], [(1, .ref 4)], true⟩, some ⟨0, [.atom 2], [], true⟩,
      some ⟨1, [.atom 7], [(1, .ref 2)], true⟩, some ⟨0, [.atom 9], [], true⟩) := by
  decide

/-- Instance of the hypotheses of `heap_never_raises` / `heap_hof_order` / `heap_members_shown` /
`hof_members_fresh` (capacity 2 ≥ 1, the admissible history, the run it yields). -/
example : ∃ s, runH C08H.Ex.P false (emptyH 2 C16.Ex.heap 3) C08H.Ex.evs = some s ∧ s.items.length ≤ 2 := by
  obtain ⟨s, hs⟩ := heap_never_raises (pf := false) C08H.Ex.simErase C16.Ex.ct_ok C16.Ex.heap_closed
    (fun _ => by decide) (C08H.Ex.valid false)
  exact ⟨s, hs, (heap_hof_order C08H.Ex.simErase C16.Ex.ct_ok C16.Ex.heap_closed (by decide)
    (C08H.Ex.valid false) hs).1⟩

/-- Instance of the hypotheses of `archive_unaffected_by_writes` / `hof_unaffected_by_writes`: the history
split after the first `update`; the continuation starts with two writes of the caller (`CallerOnly`) and
goes on with a further `update`. -/
example : ∃ s s₂, runH C08H.Ex.P false (emptyH 2 C16.Ex.heap 3) (C08H.Ex.evs.take 1) = some s ∧
    runH C08H.Ex.P false s (C08H.Ex.evs.drop 1) = some s₂ ∧
    Valid C08H.Ex.P false (emptyH 2 C16.Ex.heap 3) (C08H.Ex.evs.take 1 ++ C08H.Ex.evs.drop 1) ∧
    CallerOnly ((C08H.Ex.evs.drop 1).take 2) := by
  have hv : Valid C08H.Ex.P false (emptyH 2 C16.Ex.heap 3) (C08H.Ex.evs.take 1 ++ C08H.Ex.evs.drop 1) :=
    C08H.Ex.valid false
  obtain ⟨s, h1⟩ := heap_never_raises (pf := false) C08H.Ex.simErase C16.Ex.ct_ok C16.Ex.heap_closed
    (fun _ => by decide) hv.left
  obtain ⟨s2, h2⟩ := heap_never_raises (pf := false) C08H.Ex.simErase C16.Ex.ct_ok C16.Ex.heap_closed
    (fun _ => by decide) hv
  rw [runH_append, h1] at h2
  exact ⟨s, s2, h1, h2, hv, trivial⟩

/-- Instance of the hypotheses of `heap_hof_best_of_seen` (the reading's hypotheses on the history the archive
saw), and its conclusion. -/
example : ∃ s, runH C08H.Ex.P false (emptyH 2 C16.Ex.heap 3) C08H.Ex.evs = some s ∧
    SimHyp C08H.Ex.P.sim (histOf C08H.Ex.P false (emptyH 2 C16.Ex.heap 3) C08H.Ex.evs).flatten ∧
    ∀ v ∈ (histOf C08H.Ex.P false (emptyH 2 C16.Ex.heap 3) C08H.Ex.evs).flatten,
      (∃ x ∈ s.items, ∃ vx, viewInd C08H.Ex.P s.objs x = some vx ∧ C08H.Ex.P.sim v vx = true) ∨
      (s.items.length = 2 ∧ ∀ w, s.items.getLast? = some w →
        ∀ vw, viewInd C08H.Ex.P s.objs w = some vw → ¬ (vw.fit.wvalues < v.fit.wvalues)) := by
  obtain ⟨s, hr⟩ := heap_never_raises (pf := false) C08H.Ex.simErase C16.Ex.ct_ok C16.Ex.heap_closed
    (fun _ => by decide) (C08H.Ex.valid false)
  exact ⟨s, hr, C08H.Ex.simHyp _, heap_hof_best_of_seen C16.Ex.ct_ok C16.Ex.heap_closed (by decide)
    (C08H.Ex.valid false) (C08H.Ex.simHyp _) hr⟩

/-- Instance of the hypotheses of `heap_pf_exact` / `pf_members_fresh` / `pf_unaffected_by_writes` (the same
history shown to a Pareto archive; one objective), and the order clause of the conclusion. -/
example : ∃ s, runH C08H.Ex.P true (emptyH 2 C16.Ex.heap 3) C08H.Ex.evs = some s ∧
    PfHyp C08H.Ex.P.sim 1 (histOf C08H.Ex.P true (emptyH 2 C16.Ex.heap 3) C08H.Ex.evs).flatten ∧
    s.items.Pairwise (fun a b => ∀ va vb, viewInd C08H.Ex.P s.objs a = some va →
      viewInd C08H.Ex.P s.objs b = some vb → vb.fit.wvalues ≤ va.fit.wvalues) := by
  obtain ⟨s, hr⟩ := heap_never_raises (pf := true) C08H.Ex.simErase C16.Ex.ct_ok C16.Ex.heap_closed
    (fun h => by cases h) (C08H.Ex.valid true)
  exact ⟨s, hr, C08H.Ex.pfHyp true, (heap_pf_exact C16.Ex.ct_ok C16.Ex.heap_closed (C08H.Ex.valid true)
    (C08H.Ex.pfHyp true) hr).2.2.2⟩

/-- The Pareto archive on the same history: the re-evaluated individual (9) dominates the old copy (2),
which is removed; the member and the key are the objects of the second `deepcopy`. -/
example : (runH C08H.Ex.P true (emptyH 2 C16.Ex.heap 3) C08H.Ex.evs).map
      (fun s => (s.items, s.keys, s.log, s.next)) = some ([5], [6], [(3, 5), (5, 7)], 7) := by
  decide

end HeapLevel

end C08
