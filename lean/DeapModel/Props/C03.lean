/-
C03 — Packaged evolutionary loops keep fitnesses, counts and logs truthful.
Property theorems only; the model is `DeapModel/Core/Loops.lean` (eaSimple, eaMuPlusLambda,
eaMuCommaLambda, eaGenerateUpdate of `deap/algorithms.py`, `harm` of `deap/gp.py`), helper lemmas and the
per-loop `StepContract` proofs are in `DeapModel/Lemmas/C03.lean`.

All theorems hold for EVERY number of generations, EVERY decision tape (selections, variation decisions,
acceptance decisions), EVERY operator pair meeting C02's `OpContract`, EVERY pure `evaluate`.
They are stated for a run over an arbitrary list of generation steps; because a run over `a ++ b` is a run
over `a` followed by a run over `b` (`every_boundary`), every statement holds at EVERY generation boundary,
not only at the end.

Reading of the clauses:
* "every individual of the population carries a valid fitness equal to what evaluate returns"  → `truthful`
* "evaluate called exactly once for each individual new or changed, and for no other;
   that number is the nevals recorded"                     → `evals_exact`, `nevals_logged`
* "one record per generation 0..ngen in order"             → `log_shape` (0..ngen-1 for generate–update)
* "keeps its prescribed size"                              → `size_*`
* "updated in place"                                       → by construction: `LState.pop` IS the caller's list,
                                                             the only population variable of the machine
* "a hall of fame has been shown every evaluated individual" → `hof_fed`
* "μ+λ with truncation selection: best never gets worse"   → `plus_monotone`
* HARM-GP's acceptance arithmetic (not part of the statement, modelled for the replay): `harm_accept_prob_*`

Composition with the library components (`Core/LoopsCompose.lean`; second half of this file):
* the loops run with the C08 model of `HallOfFame(maxsize ≥ 1)`: "its best entry is at least as good as any
  fitness ever logged"                                     → `hof_best_ge_logged` (+`_gu`), `hof_best_never_worse`,
                                                             `hall_of_fame_never_blocks`
* the loops run with the C06 models of `selBest` / `selTournament` / `selRandom` as `toolbox.select`
                                                           → `eaSimpleC/eaMuPlusLambdaC/eaMuCommaLambdaC_correct`,
                                                             `plus_monotone_selBest`; the clause is FALSE for
                                                             μ,λ and for a tournament: `comma_not_monotone`,
                                                             `tournament_not_monotone`
* "the caller's population list is updated in place": list objects have identities
                                                           → `population_updated_in_place`,
                                                             `rebinding_is_not_in_place`
* eaGenerateUpdate's ask/tell protocol                     → `generate_update_protocol`
-/
import DeapModel.Lemmas.C03
import DeapModel.Lemmas.C03Harm
import DeapModel.Lemmas.C03Compose
import DeapModel.Lemmas.C03ComposeList
import DeapModel.Lemmas.C03ComposeSel
import Mathlib.Analysis.Complex.ExponentialBounds
import DeapModel.Lemmas.C03Gen

namespace C03
open Variation Loops

variable {σ : Type} {ops : Ops σ} {ev : List Int → List Int}

/-- What is assumed of the caller's arguments: the individuals exist, the ones that come with a fitness
carry the value `evaluate` gives for their genotype, the unevaluated ones are distinct objects, nothing has
been logged yet. -/
structure Init (ev : List Int → List Int) (s : LState) : Prop where
  alloc : ∀ p ∈ s.pop, p < s.st.next
  truthful : ∀ p ∈ s.pop, ∀ f, (s.st.heap p).fit = some f → f = ev (s.st.heap p).genome
  distinct : (invalidOf s.st.heap s.pop).Nodup
  log : s.log = []
  evals : s.evals = []
  shown : s.shown = []
  shownObj : s.shownObj = []

/-! ## Concrete instances for the `example`s -/

/-- evaluate = (sum of the genes) -/
def demoEv (g : List Int) : List Int := [g.foldl (· + ·) 0]

/-- three individuals; #0 pre-evaluated (truthfully: 1+2+3 = 6), #1 and #2 not evaluated -/
def demoHeap : Heap := fun o =>
  match o with
  | 0 => ⟨[1, 2, 3], some [6], none⟩
  | 1 => ⟨[4, 5, 6], none, none⟩
  | 2 => ⟨[7, 8, 9], none, none⟩
  | _ => ⟨[], none, none⟩

def demoState : LState := { st := { heap := demoHeap, next := 3 }, pop := [0, 1, 2] }

theorem demoInit : Init demoEv demoState where
  alloc := by decide
  truthful := by
    intro p hp f hf
    have hp' : p = 0 ∨ p = 1 ∨ p = 2 := by simpa [demoState] using hp
    rcases hp' with rfl | rfl | rfl
    · simp only [demoState, demoHeap, Option.some.injEq] at hf ⊢
      subst hf; decide
    · simp [demoState, demoHeap] at hf
    · simp [demoState, demoHeap] at hf
  distinct := by decide
  log := rfl
  evals := rfl
  shown := rfl
  shownObj := rfl

/-- two generations of eaSimple: selection picks positions 2,0,0; the first pair is mated, the third
offspring is an untouched copy in generation 1 and mutated in generation 2 -/
def demoSimple := eaSimple C02.demoOps demoEv
  [⟨[2, 0, 0], [true], [false, false, false]⟩, ⟨[0, 1, 2], [false], [false, false, true]⟩] () demoState

example : demoSimple.map (fun r => (r.2.pop, r.2.log, r.2.evals)) =
    some ([6, 7, 8], [(0, 2), (1, 2), (2, 1)], [(0, 1), (0, 2), (1, 3), (1, 4), (2, 8)]) := by decide
example : demoSimple.map (fun r => r.2.pop.map (fun o => (r.2.st.heap o).fit)) =
    some [some [12], some [18], some [-6]] := by decide +kernel

/-- one generation of μ+λ (μ = 2, λ = 3): crossover of positions 0,2, mutation of 1, reproduction of 2;
the selector picks candidates 2 and 5 (the old individual #2 and its untouched copy, both 24) -/
def demoPlusSel := eaMuPlusLambda C02.demoOps demoEv 2 3
  [⟨[Choice.cx 0 2, Choice.mutn 1, Choice.rep 2], [2, 5]⟩] () demoState

example : demoPlusSel.map (fun r => (r.2.pop, r.2.log, r.2.evals)) =
    some ([2, 6], [(0, 2), (1, 2)], [(0, 1), (0, 2), (1, 3), (1, 5)]) := by decide
example : demoPlusSel.map (fun r => r.2.pop.map (fun o => (r.2.st.heap o).fit)) =
    some [some [24], some [24]] := by decide

/-- the same generation with `toolbox.select = tools.selBest` -/
def demoPlus := eaMuPlusLambdaBest C02.demoOps demoEv 2 3
  [[Choice.cx 0 2, Choice.mutn 1, Choice.rep 2]] () demoState

/-! ## Generic theorems (any loop whose steps meet `StepContract`) -/

/-- The state before the first generation satisfies the run invariant: after generation 0 for the
population-based loops. -/
theorem gen0_establishes (s : LState) (hi : Init ev s) : Inv ev 1 (gen0 ev s) :=
  gen0_inv ev s hi.alloc hi.truthful hi.distinct hi.log hi.evals

example : Init demoEv demoState := demoInit

/-- … and trivially for generate–update, which starts from an empty population and no generation 0. -/
theorem empty_establishes (st : St) : Inv ev 0 { st := st, pop := [] } where
  alloc := by simp
  truthful := by simp
  shownPop := by simp
  shownEvals := by simp
  evalsLt := by simp
  evalsNodup := by simp
  logGens := by simp
  logCount := by simp

/-- **Every generation boundary.**  A run of `a ++ b` generations passes through the state reached by the
run of `a`; so what is proved below about the final state holds after each generation. -/
theorem every_boundary (a b : List (Step σ)) (g : Nat) (t t' : σ) (s s' : LState)
    (h : runGens ev (a ++ b) g t s = some (t', s')) :
    ∃ t1 s1, runGens ev a g t s = some (t1, s1) ∧ runGens ev b (g + a.length) t1 s1 = some (t', s') := by
  rw [runGens_append] at h
  split at h
  · simp at h
  next t1 s1 h1 => exact ⟨t1, s1, h1, h⟩

/-- **Truthful fitnesses.**  After every generation every individual of the population carries a valid
fitness equal to `evaluate` of its current genotype. -/
theorem truthful (steps : List (Step σ)) (hc : ∀ stp ∈ steps, StepContract stp) (g : Nat) (t t' : σ)
    (s s' : LState) (hinv : Inv ev g s) (h : runGens ev steps g t s = some (t', s')) :
    ∀ p ∈ s'.pop, (s'.st.heap p).fit = some (ev (s'.st.heap p).genome) :=
  (runGens_inv steps g t t' s s' hc hinv h).truthful

/-- **Exact evaluation set, one generation.**  With `r` the offspring produced in generation `g`:
`evaluate` is called on exactly the offspring without a valid fitness (all offspring for generate–update),
in order, each once; `nevals = ` their number is what is recorded; every other offspring already carries the
fitness of the population member it is an exact copy of; nothing else is evaluated. -/
theorem evals_exact (stp : Step σ) (hc : StepContract stp) (g : Nat) (t t' : σ) (s s' : LState)
    (hinv : Inv ev g s) (h : generation ev stp g t s = some (t', s')) :
    ∃ r, stp.produce t s.st s.pop = some r ∧
      s'.evals = s.evals ++ (evalSet stp r).map (fun o => (g, o)) ∧
      (evalSet stp r).Nodup ∧
      s'.log = s.log ++ [(g, (evalSet stp r).length)] ∧
      (stp.evalAll = false → evalSet stp r = r.off.filter (fun o => (r.st.heap o).fit.isNone)) ∧
      (stp.evalAll = true → evalSet stp r = r.off) ∧
      (stp.evalAll = false → ∀ o ∈ r.off, o ∉ evalSet stp r →
        ∃ p ∈ s.pop, r.st.heap o = s.st.heap p ∧ s'.st.heap o = r.st.heap o) := by
  obtain ⟨r, np, hr, _, _, _, hheap, _, hevals, hlog, _⟩ := generation_unfold h
  refine ⟨r, hr, hevals, evalSet_nodup stp r (hc.nodup t s.st s.pop r hinv.alloc hr), hlog, ?_, ?_, ?_⟩
  · intro hall; simp [evalSet, hall, invalidOf]
  · intro hall; simp [evalSet, hall]
  · intro hall o ho hnot
    have hvalid : (r.st.heap o).fit ≠ none := by
      intro hn
      apply hnot
      simp only [evalSet, hall]
      exact mem_invalidOf.2 ⟨ho, hn⟩
    rcases hc.copy_or_invalid hall t s.st s.pop r hinv.alloc hr o ho with hn | ⟨p, hp, hcopy⟩
    · exact absurd hn hvalid
    · exact ⟨p, hp, hcopy, by rw [hheap, assignFits_not_mem _ _ _ _ hnot]⟩

/-- **nevals.**  Every record `(gen, nevals)` of the logbook counts exactly the `evaluate` calls of its
generation, and no (generation, individual) pair is evaluated twice. -/
theorem nevals_logged (steps : List (Step σ)) (hc : ∀ stp ∈ steps, StepContract stp) (g : Nat) (t t' : σ)
    (s s' : LState) (hinv : Inv ev g s) (h : runGens ev steps g t s = some (t', s')) :
    (∀ rec ∈ s'.log, rec.2 = (s'.evals.filter (fun e => e.1 == rec.1)).length) ∧ s'.evals.Nodup :=
  ⟨(runGens_inv steps g t t' s s' hc hinv h).logCount, (runGens_inv steps g t t' s s' hc hinv h).evalsNodup⟩

/-- **Log shape**, population-based loops: one record per generation `0..ngen`, in order. -/
theorem log_shape (steps : List (Step σ)) (hc : ∀ stp ∈ steps, StepContract stp) (t t' : σ) (s s' : LState)
    (hi : Init ev s) (h : runPop ev steps t s = some (t', s')) :
    s'.log.map (·.1) = List.range (steps.length + 1) := by
  have := (runGens_inv steps 1 t t' _ s' hc (gen0_establishes s hi) h).logGens
  rw [this, Nat.add_comm]

/-- **Log shape**, generate–update: records `0..ngen-1` (no generation 0; DESIGN §6). -/
theorem log_shape_gu (steps : List (Step σ)) (hc : ∀ stp ∈ steps, StepContract stp) (t t' : σ) (st : St)
    (s' : LState) (h : runGU ev steps t { st := st, pop := [] } = some (t', s')) :
    s'.log.map (·.1) = List.range steps.length := by
  have := (runGens_inv steps 0 t t' _ s' hc (empty_establishes st) h).logGens
  rw [this, Nat.zero_add]

/-- **Hall of fame.**  Every individual `evaluate` was called on, and every member of the current
population, has been passed to `halloffame.update` (with C08: its best entry is at least as good as any
fitness ever present). -/
theorem hof_fed (steps : List (Step σ)) (hc : ∀ stp ∈ steps, StepContract stp) (g : Nat) (t t' : σ)
    (s s' : LState) (hinv : Inv ev g s) (h : runGens ev steps g t s = some (t', s')) :
    (∀ e ∈ s'.evals, e.2 ∈ s'.shown) ∧ (∀ p ∈ s'.pop, p ∈ s'.shown) :=
  ⟨(runGens_inv steps g t t' s s' hc hinv h).shownEvals, (runGens_inv steps g t t' s s' hc hinv h).shownPop⟩

/-- **The hall of fame is shown EVALUATED individuals** (population-based loops): every individual passed to
`halloffame.update` carried, at that moment, the fitness `evaluate` gives for the genotype it had then —
the evaluation block runs before the update, in generation 0 and in every later generation.  `shownObj` is
the same feed as `shown`, with the content of the individuals. -/
theorem hof_shown_evaluated (steps : List (Step σ)) (hc : ∀ stp ∈ steps, StepContract stp) (t t' : σ)
    (s s' : LState) (hi : Init ev s) (h : runPop ev steps t s = some (t', s')) :
    (∀ e ∈ s'.shownObj, e.2.fit = some (ev e.2.genome)) ∧ s'.shownObj.map (·.1) = s'.shown :=
  runGens_shown steps 1 t t' _ s' hc (gen0_establishes s hi)
    (gen0_shown ev s hi.truthful hi.shown hi.shownObj) h

/-- … and for generate–update. -/
theorem hof_shown_evaluated_gu (steps : List (Step σ)) (hc : ∀ stp ∈ steps, StepContract stp) (t t' : σ)
    (st : St) (s' : LState) (h : runGU ev steps t { st := st, pop := [] } = some (t', s')) :
    (∀ e ∈ s'.shownObj, e.2.fit = some (ev e.2.genome)) ∧ s'.shownObj.map (·.1) = s'.shown :=
  runGens_shown steps 0 t t' _ s' hc (empty_establishes st) ⟨by simp, rfl⟩ h

/-! ## The five loops -/

/-- eaSimple, any `ngen`, any selection/variation decisions: truthful, log 0..ngen, size kept, nevals, hof. -/
theorem eaSimple_correct (hc : OpContract ops) (decs : List SimpleDec) (t t' : σ) (s s' : LState)
    (hi : Init ev s) (h : eaSimple ops ev decs t s = some (t', s')) :
    (∀ p ∈ s'.pop, (s'.st.heap p).fit = some (ev (s'.st.heap p).genome)) ∧
    s'.log.map (·.1) = List.range (decs.length + 1) ∧
    s'.pop.length = s.pop.length ∧
    (∀ rec ∈ s'.log, rec.2 = (s'.evals.filter (fun e => e.1 == rec.1)).length) ∧ s'.evals.Nodup ∧
    (∀ e ∈ s'.evals, e.2 ∈ s'.shown) ∧ (∀ p ∈ s'.pop, p ∈ s'.shown) := by
  have hsc : ∀ stp ∈ decs.map (simpleStep ops), StepContract stp ∧ SizeIs stp id := by
    intro stp hm
    obtain ⟨d, _, rfl⟩ := List.mem_map.1 hm
    exact ⟨simpleStep_contract hc d, fun t st pop r h np _ hp hr => simpleStep_size hc d hp hr⟩
  have hsc' : ∀ stp ∈ decs.map (simpleStep ops), StepContract stp := fun x hx => (hsc x hx).1
  have h0 := gen0_establishes s hi
  have hn := nevals_logged _ hsc' 1 t t' _ s' h0 h
  have hh := hof_fed _ hsc' 1 t t' _ s' h0 h
  refine ⟨truthful _ hsc' 1 t t' _ s' h0 h, ?_, ?_, hn.1, hn.2, hh.1, hh.2⟩
  · simpa using log_shape _ hsc' t t' s s' hi h
  · exact runGens_size_id _ 1 t t' (gen0 ev s) s' hsc h0 h

example : OpContract C02.demoOps ∧ Init demoEv demoState ∧ demoSimple.isSome = true :=
  ⟨C02.demoOps_contract, demoInit, by decide⟩

/-- eaMuPlusLambda: truthful, log 0..ngen, size μ after at least one generation, nevals, hof. -/
theorem eaMuPlusLambda_correct (hc : OpContract ops) (mu lam : Nat) (decs : List MuLamDec) (t t' : σ)
    (s s' : LState) (hi : Init ev s) (h : eaMuPlusLambda ops ev mu lam decs t s = some (t', s')) :
    (∀ p ∈ s'.pop, (s'.st.heap p).fit = some (ev (s'.st.heap p).genome)) ∧
    s'.log.map (·.1) = List.range (decs.length + 1) ∧
    (decs ≠ [] → s'.pop.length = mu) ∧
    (∀ rec ∈ s'.log, rec.2 = (s'.evals.filter (fun e => e.1 == rec.1)).length) ∧ s'.evals.Nodup ∧
    (∀ e ∈ s'.evals, e.2 ∈ s'.shown) ∧ (∀ p ∈ s'.pop, p ∈ s'.shown) := by
  have hsc : ∀ stp ∈ decs.map (plusStep ops mu lam), StepContract stp ∧ SizeIs stp (fun _ => mu) := by
    intro stp hm
    obtain ⟨d, _, rfl⟩ := List.mem_map.1 hm
    exact ⟨plusStep_contract hc mu lam d, fun t st pop r h np _ _ hr => plusStep_size mu lam d hr⟩
  have hsc' : ∀ stp ∈ decs.map (plusStep ops mu lam), StepContract stp := fun x hx => (hsc x hx).1
  have h0 := gen0_establishes s hi
  have hn := nevals_logged _ hsc' 1 t t' _ s' h0 h
  have hh := hof_fed _ hsc' 1 t t' _ s' h0 h
  refine ⟨truthful _ hsc' 1 t t' _ s' h0 h, ?_, ?_, hn.1, hn.2, hh.1, hh.2⟩
  · simpa using log_shape _ hsc' t t' s s' hi h
  · intro hne
    exact runGens_size_const mu _ 1 t t' _ s' (by simpa using hne) hsc h0 h

/-- eaMuCommaLambda (a run exists only when `mu ≤ lambda_`): the same guarantees. -/
theorem eaMuCommaLambda_correct (hc : OpContract ops) (mu lam : Nat) (decs : List MuLamDec) (t t' : σ)
    (s s' : LState) (hi : Init ev s) (h : eaMuCommaLambda ops ev mu lam decs t s = some (t', s')) :
    mu ≤ lam ∧
    (∀ p ∈ s'.pop, (s'.st.heap p).fit = some (ev (s'.st.heap p).genome)) ∧
    s'.log.map (·.1) = List.range (decs.length + 1) ∧
    (decs ≠ [] → s'.pop.length = mu) ∧
    (∀ rec ∈ s'.log, rec.2 = (s'.evals.filter (fun e => e.1 == rec.1)).length) ∧ s'.evals.Nodup ∧
    (∀ e ∈ s'.evals, e.2 ∈ s'.shown) ∧ (∀ p ∈ s'.pop, p ∈ s'.shown) := by
  simp only [eaMuCommaLambda] at h
  split at h
  case isFalse => simp at h
  next hle =>
  have hsc : ∀ stp ∈ decs.map (commaStep ops mu lam), StepContract stp ∧ SizeIs stp (fun _ => mu) := by
    intro stp hm
    obtain ⟨d, _, rfl⟩ := List.mem_map.1 hm
    exact ⟨commaStep_contract hc mu lam d, fun t st pop r h np _ _ hr => commaStep_size mu lam d hr⟩
  have hsc' : ∀ stp ∈ decs.map (commaStep ops mu lam), StepContract stp := fun x hx => (hsc x hx).1
  have h0 := gen0_establishes s hi
  have hn := nevals_logged _ hsc' 1 t t' _ s' h0 h
  have hh := hof_fed _ hsc' 1 t t' _ s' h0 h
  refine ⟨by simpa [commaAssert] using hle, truthful _ hsc' 1 t t' _ s' h0 h, ?_, ?_, hn.1, hn.2, hh.1, hh.2⟩
  · simpa using log_shape _ hsc' t t' s s' hi h
  · intro hne
    exact runGens_size_const mu _ 1 t t' _ s' (by simpa using hne) hsc h0 h

/-- one generation of μ,λ (μ = 2, λ = 3): the selector picks offspring 1 and 2 -/
def demoComma := eaMuCommaLambda C02.demoOps demoEv 2 3
  [⟨[Choice.cx 0 2, Choice.mutn 1, Choice.rep 2], [1, 2]⟩] () demoState
example : OpContract C02.demoOps ∧ Init demoEv demoState ∧
    demoComma.map (fun r => (r.2.pop, r.2.log)) = some ([5, 6], [(0, 2), (1, 2)]) :=
  ⟨C02.demoOps_contract, demoInit, by decide⟩
/-- `lambda_ < mu`: the assertion, no run -/
example : (eaMuCommaLambda C02.demoOps demoEv 3 2 [] () demoState).isNone = true := by decide

/-- one HARM generation, `nbrindsmodel = 3`: the natural population is a mutant of #1, and the two children
of a crossover of #0 and #2; the second `_genpop` pops them from the end: the last is rejected, the other two
accepted, then a reproduction of #2 is generated and accepted -/
def demoHarm := harm C02.demoOps demoEv 3
  [⟨[HStep.mutn 1 true, HStep.cx 0 2 true true],
    [HStep.pick false, HStep.pick true, HStep.pick true, HStep.rep 2 true]⟩] () demoState
example : OpContract C02.demoOps ∧ Init demoEv demoState ∧
    demoHarm.map (fun r => (r.2.pop, r.2.log, r.2.evals)) =
      some ([4, 3, 6], [(0, 2), (1, 2)], [(0, 1), (0, 2), (1, 4), (1, 3)]) :=
  ⟨C02.demoOps_contract, demoInit, by decide⟩

/-- gp.harm (control flow; every `acceptfunc` result is a free decision): the same guarantees, with the
population keeping its initial size. -/
theorem harm_correct (hc : OpContract ops) (nbr : Nat) (decs : List (HarmDec Bool)) (t t' : σ) (s s' : LState)
    (hi : Init ev s) (h : harm ops ev nbr decs t s = some (t', s')) :
    (∀ p ∈ s'.pop, (s'.st.heap p).fit = some (ev (s'.st.heap p).genome)) ∧
    s'.log.map (·.1) = List.range (decs.length + 1) ∧
    s'.pop.length = s.pop.length ∧
    (∀ rec ∈ s'.log, rec.2 = (s'.evals.filter (fun e => e.1 == rec.1)).length) ∧ s'.evals.Nodup ∧
    (∀ e ∈ s'.evals, e.2 ∈ s'.shown) ∧ (∀ p ∈ s'.pop, p ∈ s'.shown) := by
  have hsc : ∀ stp ∈ decs.map (harmStep ops nbr), StepContract stp ∧ SizeIs stp id := by
    intro stp hm
    obtain ⟨d, _, rfl⟩ := List.mem_map.1 hm
    exact ⟨harmStep_contract hc nbr d, fun t st pop r h np hpop hp hr => harmStep_size hc nbr d hpop hp hr⟩
  have hsc' : ∀ stp ∈ decs.map (harmStep ops nbr), StepContract stp := fun x hx => (hsc x hx).1
  have h0 := gen0_establishes s hi
  have hn := nevals_logged _ hsc' 1 t t' _ s' h0 h
  have hh := hof_fed _ hsc' 1 t t' _ s' h0 h
  refine ⟨truthful _ hsc' 1 t t' _ s' h0 h, ?_, ?_, hn.1, hn.2, hh.1, hh.2⟩
  · simpa using log_shape _ hsc' t t' s s' hi h
  · exact runGens_size_id _ 1 t t' (gen0 ev s) s' hsc h0 h

/-- gp.harm with the acceptance test COMPUTED by the model (`acceptfunc` = recorded `random()` draw ≤ the
threshold derived from the natural population, for any scalar type — `Float` in the replay, `ℝ` in the
theorems below): the same guarantees.  They do not depend on the acceptance arithmetic at all. -/
theorem harmR_correct {α : Type} [RealLike α] (hc : OpContract ops) (nbr : Nat)
    (ps : List (HarmParams α × HarmDec α)) (t t' : σ) (s s' : LState)
    (hi : Init ev s) (h : harmR ops ev nbr ps t s = some (t', s')) :
    (∀ p ∈ s'.pop, (s'.st.heap p).fit = some (ev (s'.st.heap p).genome)) ∧
    s'.log.map (·.1) = List.range (ps.length + 1) ∧
    s'.pop.length = s.pop.length ∧
    (∀ rec ∈ s'.log, rec.2 = (s'.evals.filter (fun e => e.1 == rec.1)).length) ∧ s'.evals.Nodup ∧
    (∀ e ∈ s'.evals, e.2 ∈ s'.shown) ∧ (∀ p ∈ s'.pop, p ∈ s'.shown) := by
  have hsc : ∀ stp ∈ ps.map (fun pd => harmStepR ops nbr pd.1 pd.2), StepContract stp ∧ SizeIs stp id := by
    intro stp hm
    obtain ⟨d, _, rfl⟩ := List.mem_map.1 hm
    exact ⟨harmStepG_contract hc nbr _ d.2,
      fun t st pop r h np hpop hp hr => harmStepG_size hc nbr _ d.2 hpop hp hr⟩
  have hsc' : ∀ stp ∈ ps.map (fun pd => harmStepR ops nbr pd.1 pd.2), StepContract stp :=
    fun x hx => (hsc x hx).1
  have h0 := gen0_establishes s hi
  have hn := nevals_logged _ hsc' 1 t t' _ s' h0 h
  have hh := hof_fed _ hsc' 1 t t' _ s' h0 h
  refine ⟨truthful _ hsc' 1 t t' _ s' h0 h, ?_, ?_, hn.1, hn.2, hh.1, hh.2⟩
  · simpa using log_shape _ hsc' t t' s s' hi h
  · exact runGens_size_id _ 1 t t' (gen0 ev s) s' hsc h0 h

/-! ### HARM-GP acceptance arithmetic over ℝ (gp.py 1084-1122)

`acceptfunc(s) = random.random() <= probfunc(s)`.  What the code guarantees about the threshold
`probfunc(s)`, for `gamma ≥ 0` and a positive half-life `x·alpha + beta` (the division by
`halflifefunc(x)` is NOT guarded by the code: `alpha = beta = 0` raises `ZeroDivisionError`):
* it is never negative (`harm_accept_prob_nonneg`);
* for sizes up to the cutoff it is exactly 0 or 1 (`harm_accept_prob_unit_below_cutoff`);
* above the cutoff it is `targetfunc/naturalhist`, which the code does NOT clamp: it exceeds 1 whenever the
  target distribution asks for more individuals of a size than the natural one provides — then every
  aspirant of that size is accepted.  So "the threshold is a probability in [0,1]"
  (`harm_accept_prob_unit_Statement`) is false as stated; `harm_accept_prob_exceeds_one` is a witness.
* the division `val * len(population) / nbrindsmodel` is only reached with a non-empty natural population,
  i.e. `nbrindsmodel ≥ 1` (`harm_hist_needs_natural`); `t / n` is guarded by `n > 0` in the code
  (`probHist`). -/

/-- the acceptance threshold is never negative -/
theorem harm_accept_prob_nonneg (p : HarmParams ℝ) (npop nbr : Nat) (inds : List (List Int × Nat))
    (thr : Nat → ℝ) (h : acceptThreshold p npop nbr inds = some thr) (hg : 0 ≤ p.gamma)
    (hl : ∀ x, 0 < halflife p x) : ∀ s, 0 ≤ thr s := by
  simp only [acceptThreshold] at h
  split at h
  next nat cutoff hnat _ =>
    simp only [Option.some.injEq] at h
    subst h
    exact probFunc_nonneg p npop cutoff nat (naturalHist_nonneg _ _ _ _ hnat) hg hl
  · simp at h

example : ∀ x, (0 : ℝ) < halflife (α := ℝ) ⟨0.05, 10, 0.25, 20, 0⟩ x := by
  intro x
  simp only [halflife, RealLike.real_mul, RealLike.real_add, RealLike.real_ofNat]
  positivity

/-- up to the cutoff size the threshold is exactly 0 (no natural individual near that size) or 1 -/
theorem harm_accept_prob_unit_below_cutoff (p : HarmParams ℝ) (npop nbr : Nat) (sizes : List Nat)
    (nat : List ℝ) (hnat : naturalHist sizes npop nbr = some nat) (cutoff s : Nat) (hs : s ≤ cutoff)
    (hlen : s < nat.length) :
    probFunc p npop cutoff (probHist p npop cutoff nat) s = 0 ∨
    probFunc p npop cutoff (probHist p npop cutoff nat) s = 1 :=
  probFunc_below_cutoff p npop cutoff nat (naturalHist_nonneg _ _ _ _ hnat) s hs hlen

/-- the histogram normalisation `… / nbrindsmodel` is only reached with a non-empty natural population -/
theorem harm_hist_needs_natural (sizes : List Nat) (npop nbr : Nat) (nat : List ℝ)
    (h : naturalHist sizes npop nbr = some nat) : sizes ≠ [] :=
  naturalHist_nonempty sizes npop nbr nat h

/-- The full claim "the acceptance threshold is a probability in [0,1]" for every natural histogram — FALSE:
the code does not clamp the ratio `targetfunc / naturalhist` (nor `targetfunc` beyond the histogram). -/
def harm_accept_prob_unit_Statement : Prop :=
  ∀ (p : HarmParams ℝ) (npop cutoff s : Nat) (nat : List ℝ),
    AllNonneg nat → 0 ≤ p.gamma → (∀ x, 0 < halflife p x) →
    0 ≤ probFunc p npop cutoff (probHist p npop cutoff nat) s ∧
    probFunc p npop cutoff (probHist p npop cutoff nat) s ≤ 1

/-- the lower half of it holds … -/
theorem harm_accept_prob_unit_partial (p : HarmParams ℝ) (npop cutoff s : Nat) (nat : List ℝ)
    (hnat : AllNonneg nat) (hg : 0 ≤ p.gamma) (hl : ∀ x, 0 < halflife p x) :
    0 ≤ probFunc p npop cutoff (probHist p npop cutoff nat) s :=
  probFunc_nonneg p npop cutoff nat hnat hg hl s

/-- … the upper half does not: `gamma = 2`, `alpha = 0`, `beta = 1`, one individual, cutoff 20 (the default
`mincutoff`), an aspirant of size 20: the threshold is `2·ln 2 ≈ 1.39`.  (With the recommended parameters the
same happens whenever the natural histogram is thin at a size above the cutoff; the harness counts these runs.)
A threshold above 1 just means "always accept" for `random() <= threshold`. -/
theorem harm_accept_prob_exceeds_one : ¬ harm_accept_prob_unit_Statement := by
  intro hst
  have h := (hst ⟨0, 1, 2, 20, 0⟩ 1 20 20 [] (by intro x hx; simp at hx) (by norm_num)
    (by intro x; simp [halflife])).2
  have hlog := Real.log_two_gt_d9
  simp [probFunc, probHist, targetFunc, halflife] at h
  norm_num at h hlog
  linarith

/-- eaGenerateUpdate: every individual `generate()` hands back — brand-new or a persistent one moved in
place, whatever fitness it carried — is evaluated (nevals = their number), records `0..ngen-1`, the returned
population is the last generated one (whatever order `update` leaves it in). -/
theorem eaGenerateUpdate_correct (gens : List (List (Nat × Obj) × List Nat)) (t t' : σ) (st : St)
    (s' : LState)
    (h : eaGenerateUpdate ev gens t st = some (t', s')) :
    (∀ p ∈ s'.pop, (s'.st.heap p).fit = some (ev (s'.st.heap p).genome)) ∧
    s'.log.map (·.1) = List.range gens.length ∧
    (∀ last ∈ gens.getLast?, s'.pop.length = last.1.length) ∧
    (∀ rec ∈ s'.log, rec.2 = (s'.evals.filter (fun e => e.1 == rec.1)).length) ∧ s'.evals.Nodup ∧
    (∀ e ∈ s'.evals, e.2 ∈ s'.shown) ∧ (∀ p ∈ s'.pop, p ∈ s'.shown) := by
  have hsc' : ∀ stp ∈ gens.map (fun g => guStep (σ := σ) g.1 g.2), StepContract stp := by
    intro stp hm
    obtain ⟨d, _, rfl⟩ := List.mem_map.1 hm
    exact guStep_contract d.1 d.2
  have h0 : Inv ev 0 { st := st, pop := [] } := empty_establishes st
  have hn := nevals_logged _ hsc' 0 t t' _ s' h0 h
  have hh := hof_fed _ hsc' 0 t t' _ s' h0 h
  refine ⟨truthful _ hsc' 0 t t' _ s' h0 h, ?_, ?_, hn.1, hn.2, hh.1, hh.2⟩
  · simpa using log_shape_gu _ hsc' t t' st s' h
  · intro last hlast
    obtain ⟨ys, rfl⟩ := List.getLast?_eq_some_iff.1 hlast
    simp only [eaGenerateUpdate, runGU, List.map_append, List.map_cons, List.map_nil] at h
    obtain ⟨t1, s1, h1, h2⟩ := every_boundary _ _ 0 t t' _ s' h
    have hinv1 := runGens_inv _ 0 t t1 _ s1
      (fun x hx => hsc' x (by simp only [List.map_append, List.mem_append]; exact Or.inl hx)) h0 h1
    simp only [runGens] at h2
    split at h2
    · simp at h2
    next t2 s2 hgen =>
      simp only [Option.some.injEq, Prod.mk.injEq] at h2
      obtain ⟨_, rfl⟩ := h2
      obtain ⟨r, np, hr, hnp, _, hpop, _⟩ := generation_unfold hgen
      rw [hpop]
      exact guStep_size last.1 last.2 hr hnp

/-- two generations of an ask/tell strategy with two PERSISTENT individuals: in generation 1 `generate`
hands back the same objects, moved, still carrying their (now stale) fitness — they are evaluated again -/
def demoGU := eaGenerateUpdate (σ := Unit) demoEv
  [([(0, ⟨[1, 2], none, none⟩), (1, ⟨[3], none, none⟩)], [1, 0]),
   ([(1, ⟨[5, 5], some [3], none⟩), (0, ⟨[0], some [3], none⟩)], [0, 1])] () { heap := fun _ => ⟨[], none, none⟩, next := 0 }

example : demoGU.map (fun r => (r.2.pop, r.2.log, r.2.evals)) =
    some ([1, 0], [(0, 2), (1, 2)], [(0, 0), (0, 1), (1, 1), (1, 0)]) := by decide
example : demoGU.map (fun r => r.2.pop.map (fun o => (r.2.st.heap o).fit)) = some [some [10], some [0]] := by
  decide

/-- **μ+λ with truncation selection (`selBest`), μ ≥ 1: the best never gets worse.**  For every member of
the population before a sequence of generations there is a member afterwards whose weighted fitness is at
least as good (lexicographic order of `wvalues`, as `Fitness.__le__` compares). -/
theorem plus_monotone (hc : OpContract ops) (mu lam : Nat) (hmu : 0 < mu) (decs : List (List Choice))
    (g : Nat) (t t' : σ) (s s' : LState) (hinv : Inv ev g s)
    (h : runGens ev (decs.map (plusBestStep ops mu lam)) g t s = some (t', s')) :
    ∀ p ∈ s.pop, ∃ q ∈ s'.pop, keyLe (fitKey s.st.heap p) (fitKey s'.st.heap q) :=
  plusBest_run_monotone hc hmu decs g t t' s s' hinv h

/-- eaMuPlusLambda with `toolbox.select = tools.selBest` and μ ≤ λ: the model computes the selection itself
(no selection tape); truthful, log 0..ngen, size μ after at least one generation, nevals, hof. -/
theorem eaMuPlusLambdaBest_correct (hc : OpContract ops) (mu lam : Nat) (hle : mu ≤ lam)
    (decs : List (List Choice)) (t t' : σ) (s s' : LState) (hi : Init ev s)
    (h : eaMuPlusLambdaBest ops ev mu lam decs t s = some (t', s')) :
    (∀ p ∈ s'.pop, (s'.st.heap p).fit = some (ev (s'.st.heap p).genome)) ∧
    s'.log.map (·.1) = List.range (decs.length + 1) ∧
    (decs ≠ [] → s'.pop.length = mu) ∧
    (∀ rec ∈ s'.log, rec.2 = (s'.evals.filter (fun e => e.1 == rec.1)).length) ∧ s'.evals.Nodup ∧
    (∀ e ∈ s'.evals, e.2 ∈ s'.shown) ∧ (∀ p ∈ s'.pop, p ∈ s'.shown) := by
  have hsc : ∀ stp ∈ decs.map (plusBestStep ops mu lam), StepContract stp ∧ SizeIs stp (fun _ => mu) := by
    intro stp hm
    obtain ⟨d, _, rfl⟩ := List.mem_map.1 hm
    exact ⟨plusBestStep_contract hc mu lam d, plusBestStep_size hc mu lam hle d⟩
  have hsc' : ∀ stp ∈ decs.map (plusBestStep ops mu lam), StepContract stp := fun x hx => (hsc x hx).1
  have h0 := gen0_establishes s hi
  have hn := nevals_logged _ hsc' 1 t t' _ s' h0 h
  have hh := hof_fed _ hsc' 1 t t' _ s' h0 h
  refine ⟨truthful _ hsc' 1 t t' _ s' h0 h, ?_, ?_, hn.1, hn.2, hh.1, hh.2⟩
  · simpa using log_shape _ hsc' t t' s s' hi h
  · intro hne
    exact runGens_size_const mu _ 1 t t' _ s' (by simpa using hne) hsc h0 h

/-- … in particular over a whole `eaMuPlusLambda` run with `selBest`, from generation 0 on. -/
theorem eaMuPlusLambdaBest_monotone (hc : OpContract ops) (mu lam : Nat) (hmu : 0 < mu)
    (decs : List (List Choice)) (t t' : σ) (s s' : LState) (hi : Init ev s)
    (h : eaMuPlusLambdaBest ops ev mu lam decs t s = some (t', s')) :
    ∀ p ∈ s.pop, ∃ q ∈ s'.pop, keyLe (fitKey (gen0 ev s).st.heap p) (fitKey s'.st.heap q) :=
  plus_monotone hc mu lam hmu decs 1 t t' _ s' (gen0_establishes s hi) h

example : OpContract C02.demoOps ∧ (0 < 2) ∧ Init demoEv demoState ∧ demoPlus.isSome = true :=
  ⟨C02.demoOps_contract, by decide, demoInit, by decide⟩

/-- The truncation selection is `sorted(…, reverse=True)[:k]`: with fitnesses 6, 15, 15, 24 for the oids
0, 1, 2, 3 the three best of `[0, 1, 2, 3]` are 3, 1, 2 — ties keep their original order. -/
def demoFitHeap : Heap := fun o => ⟨[], some [[6, 15, 15, 24].getD o 0], none⟩
example : selBest demoFitHeap [0, 1, 2, 3] 3 = [3, 1, 2] := by
  simp +decide [selBest, List.mergeSort, List.MergeSort.Internal.splitInTwo, fitKey, demoFitHeap]

/-! # Composition with the library components

The machine of `Core/LoopsCompose.lean` runs the same generations (`Loops.generation`) with
* the C08 model of `tools.HallOfFame(maxsize)` (default similarity: equal genotypes) fed by every
  `halloffame.update` call of the loop,
* the C06 models of `tools.selBest / selWorst / selRandom / selTournament` as `toolbox.select`,
* list objects with identities (`population[:] = …` versus `population = …`),
* the ask/tell state of the strategy behind `toolbox.generate` / `toolbox.update`. -/

open LoopsC

/-- What is assumed of the caller's arguments in the composed machine: C03's `Init`, a fresh
`HallOfFame(m)` (its deep copies get identities from `base` on), and `population` refers to a list object
holding the population. -/
structure CInit (ev : List Int → List Int) (m base : Nat) (c : CState) : Prop where
  init : Init ev c.ls
  hof : c.hof = Archive.empty m base
  hist : c.hist = []
  refLt : c.popRef < c.nextL
  listPop : c.lists c.popRef = c.ls.pop

/-- the demo population, a `HallOfFame(2)`, the caller's list is list object 0 -/
def demoC : CState := initState demoState.st demoState.pop 2 100

theorem demoCInit : CInit demoEv 2 100 demoC where
  init := demoInit
  hof := rfl
  hist := rfl
  refLt := by decide
  listPop := rfl

/-- Generation 0 of the composed machine establishes the composed invariant. -/
theorem composed_gen0_establishes {m base : Nat} (c c0 : CState) (hi : CInit ev m base c)
    (h : cgen0 ev c = some c0) : CInv ev m base 1 c0 :=
  cgen0_inv ev m base c c0 hi.init.alloc hi.init.truthful hi.init.distinct hi.init.log hi.init.evals
    hi.init.shown hi.init.shownObj hi.hof hi.hist hi.refLt hi.listPop h

example : CInit demoEv 2 100 demoC ∧ (cgen0 demoEv demoC).isSome = true := ⟨demoCInit, by decide⟩

/-- **The composed run is a run of the machine the generic theorems are about**: projected on the loop
state it is `runPop` over the same steps — so `truthful`, `evals_exact`, `nevals_logged`, `log_shape`,
`hof_fed`, the sizes … hold for the loops run with the library components. -/
theorem composed_refines (steps : List (Step σ × Assign)) (t t' : σ) (c c' : CState)
    (h : crunPop ev steps t c = some (t', c')) :
    runPop ev (steps.map (·.1)) t c.ls = some (t', c'.ls) := by
  simp only [crunPop] at h
  split at h
  · simp at h
  next c0 h0 =>
    have := crunGens_ls steps 1 t t' c0 c' h
    rw [(hofUpdate_spec h0).1] at this
    exact this

/-- **A hall of fame of capacity ≥ 1 never makes a run fail**: the composed run succeeds exactly when the
plain run does (C08 `never_raises`, discharged from the invariant "the archive is the C08 model run on the
batches shown so far"). -/
theorem hall_of_fame_never_blocks {m base : Nat} (hm : 1 ≤ m) (steps : List (Step σ × Assign))
    (hc : ∀ x ∈ steps, StepContract x.1) (t : σ) (c : CState) (hi : CInit ev m base c) :
    (crunPop ev steps t c).isSome = (runPop ev (steps.map (·.1)) t c.ls).isSome := by
  obtain ⟨c0, h0⟩ := cgen0_total ev m base hm c hi.hof
  have hinv := composed_gen0_establishes c c0 hi h0
  simp only [crunPop, h0, runPop]
  rw [crunGens_isSome hm steps 1 t c0 hc hinv, (hofUpdate_spec h0).1]

example : (1 ≤ 2) ∧ CInit demoEv 2 100 demoC := ⟨by decide, demoCInit⟩

/-- **Hall of fame: the best entry is at least as good as any fitness ever logged**
(eaSimple / eaMuPlusLambda / eaMuCommaLambda / harm run with `HallOfFame(m)`, `m ≥ 1`, any steps meeting the
contract).  At the boundary reached after the generations `a ++ b`, the first member of the archive is at
least as good (lexicographic order of the weighted values, C01) as
* every individual `halloffame.update` was ever shown, with the fitness it carried then — that is every
  evaluated individual (`hof_fed`), and
* every member of the population at the EARLIER boundary reached after `a` (what the statistics of that
  generation logged); `b = []` is the current population.
C08 hypotheses used, all discharged from the loop invariant: capacity ≥ 1 (given); the similarity is
reflexive, symmetric and blind to object identity (`simBase_simEq`: equal genotypes); similar individuals
shown carry equal fitness (`hof_shown_evaluated`: every individual shown carries `evaluate` of its genotype,
so equal genotypes carry equal fitness); the archive is the result of `update` on the batches shown, starting
empty (composed invariant).  Transitivity, room, freshness are not needed. -/
theorem hof_best_ge_logged {m base : Nat} (hm : 1 ≤ m) (a b : List (Step σ × Assign))
    (hc : ∀ x ∈ a ++ b, StepContract x.1) (t t1 t' : σ) (c c1 c' : CState) (hi : CInit ev m base c)
    (h1 : crunPop ev a t c = some (t1, c1))
    (h2 : crunGens ev b (1 + a.length) t1 c1 = some (t', c')) :
    (∀ e ∈ c'.ls.shownObj, ∃ best, c'.hof.items.head? = some best ∧
        keyLe (e.2.fit.getD []) best.fit.wvalues) ∧
    (∀ p ∈ c1.ls.pop, ∃ best, c'.hof.items.head? = some best ∧
        keyLe (fitKey c1.ls.st.heap p) best.fit.wvalues) := by
  simp only [crunPop] at h1
  split at h1
  · simp at h1
  next c0 h0 =>
    have hinv0 := composed_gen0_establishes c c0 hi h0
    have hinv1 := crunGens_inv a 1 t t1 c0 c1 (fun x hx => hc x (by simp [hx])) hinv0 h1
    have hinv' := crunGens_inv b (1 + a.length) t1 t' c1 c' (fun x hx => hc x (by simp [hx])) hinv1 h2
    refine ⟨cinv_best_ge_shown hm hinv', ?_⟩
    intro p hp
    have hsh := crunGens_shown_mono b _ t1 t' c1 c' h2 _ (hinv1.popCur p hp)
    exact cinv_best_ge_shown hm hinv' _ hsh

example : (1 ≤ 2) ∧ CInit demoEv 2 100 demoC ∧
    (crunPop demoEv (inPlace [plusSelStep C02.demoOps 2 3 ⟨[Choice.cx 0 2, Choice.mutn 1, Choice.rep 2], .best⟩])
      () demoC).isSome = true :=
  ⟨by decide, demoCInit, by simp only [plusSelStep_best_eval]; decide +kernel⟩

/-- … in DEAP's own operator: `halloffame[0].fitness < f` is `False` for every fitness `f` logged. -/
theorem hof_best_not_lt_logged {m base : Nat} (hm : 1 ≤ m) (steps : List (Step σ × Assign))
    (hc : ∀ x ∈ steps, StepContract x.1) (t t' : σ) (c c' : CState) (hi : CInit ev m base c)
    (h : crunPop ev steps t c = some (t', c')) :
    ∀ p ∈ c'.ls.pop, ∃ best, c'.hof.items.head? = some best ∧
      Fitness.lt best.fit ⟨fitKey c'.ls.st.heap p⟩ = false := by
  intro p hp
  obtain ⟨best, hb, hle⟩ := (hof_best_ge_logged hm steps [] (by simpa using hc) t t' t' c c' c' hi h rfl).2 p hp
  refine ⟨best, hb, ?_⟩
  cases hlt : Fitness.lt best.fit ⟨fitKey c'.ls.st.heap p⟩ with
  | false => rfl
  | true =>
    exact absurd ((C08L.fitlt_iff best.fit ⟨fitKey c'.ls.st.heap p⟩).1 hlt) ((keyLe_iff_not_lt _ _).1 hle)

example : (1 ≤ 2) ∧ CInit demoEv 2 100 demoC ∧ (crunPop demoEv (inPlace [simpleStep C02.demoOps
    ⟨[2, 0, 0], [true], [false, false, false]⟩]) () demoC).isSome = true :=
  ⟨by decide, demoCInit, by decide +kernel⟩

/-- **The best entry never gets worse** from one boundary to a later one. -/
theorem hof_best_never_worse {m base : Nat} (hm : 1 ≤ m) (a b : List (Step σ × Assign))
    (hc : ∀ x ∈ a ++ b, StepContract x.1) (t t1 t' : σ) (c c1 c' : CState) (hi : CInit ev m base c)
    (h1 : crunPop ev a t c = some (t1, c1))
    (h2 : crunGens ev b (1 + a.length) t1 c1 = some (t', c')) :
    ∀ b1, c1.hof.items.head? = some b1 → ∃ b2, c'.hof.items.head? = some b2 ∧
      keyLe b1.fit.wvalues b2.fit.wvalues := by
  simp only [crunPop] at h1
  split at h1
  · simp at h1
  next c0 h0 =>
    have hinv0 := composed_gen0_establishes c c0 hi h0
    have hinv1 := crunGens_inv a 1 t t1 c0 c1 (fun x hx => hc x (by simp [hx])) hinv0 h1
    have hinv' := crunGens_inv b (1 + a.length) t1 t' c1 c' (fun x hx => hc x (by simp [hx])) hinv1 h2
    intro b1 hb1
    -- the old best is a copy of an individual shown, and everything shown stays shown
    obtain ⟨x, hx, _, hf⟩ := C08.members_shown simEq hm hinv1.hofRun b1 (List.mem_of_head? hb1)
    rw [hinv1.flat] at hx
    obtain ⟨e, he, rfl⟩ := List.mem_map.1 hx
    obtain ⟨b2, hb2, hle⟩ := cinv_best_ge_shown hm hinv' e (crunGens_shown_mono b _ t1 t' c1 c' h2 e he)
    exact ⟨b2, hb2, by rw [hf]; exact hle⟩

/-- a run of one generation followed by one more generation (the two boundaries of `hof_best_never_worse`) -/
example : (1 ≤ 2) ∧ CInit demoEv 2 100 demoC ∧
    ((crunPop demoEv (inPlace [simpleStep C02.demoOps ⟨[2, 0, 0], [true], [false, false, false]⟩]) () demoC).bind
      (fun r => crunGens demoEv (inPlace [simpleStep C02.demoOps ⟨[0, 1, 2], [false], [false, false, true]⟩])
        (1 + 1) r.1 r.2)).isSome = true :=
  ⟨by decide, demoCInit, by decide +kernel⟩

/-- … and for eaGenerateUpdate run with `HallOfFame(m)`: after every generation the best entry is at least as
good as every individual `generate` ever handed out, as evaluated, and as every member of the current
population. -/
theorem hof_best_ge_logged_gu {m base : Nat} (hm : 1 ≤ m) (gens : List (List (Nat × Obj) × List Nat))
    (t t' : σ) (st : St) (c' : CState) (h : eaGenerateUpdateC ev gens t st m base = some (t', c')) :
    (∀ e ∈ c'.ls.shownObj, ∃ best, c'.hof.items.head? = some best ∧
        keyLe (e.2.fit.getD []) best.fit.wvalues) ∧
    (∀ p ∈ c'.ls.pop, ∃ best, c'.hof.items.head? = some best ∧
        keyLe (fitKey c'.ls.st.heap p) best.fit.wvalues) := by
  obtain ⟨hi0, hp0⟩ := initState_inv ev st m base
  obtain ⟨hinv, _⟩ := crunGU_inv gens 0 t t' _ c' hi0 hp0 h
  exact ⟨cinv_best_ge_shown hm hinv, fun p hp => cinv_best_ge_shown hm hinv _ (hinv.popCur p hp)⟩

/-- two generations of an ask/tell strategy (as `demoGU`) with a `HallOfFame(1)` -/
def demoGUC := eaGenerateUpdateC (σ := Unit) demoEv
  [([(0, ⟨[1, 2], none, none⟩), (1, ⟨[3], none, none⟩)], [1, 0]),
   ([(1, ⟨[5, 5], some [3], none⟩), (0, ⟨[0], some [3], none⟩)], [0, 1])] () { heap := fun _ => ⟨[], none, none⟩, next := 0 } 1 100

example : (1 ≤ 1) ∧ demoGUC.isSome = true := ⟨by decide, by decide +kernel⟩
example : demoGUC.map (fun r => (r.2.ls.pop, r.2.hof.items.map (fun i => (i.genome, i.fit.wvalues)))) =
    some ([1, 0], [([5, 5], [10])]) := by decide +kernel

/-! ## The loops with the library selectors -/

/-- eaSimple with a library selector (`selBest`, `selWorst`, `selRandom`, `selTournament`: the C06 models)
and `HallOfFame(m)`: truthful, log 0..ngen, size kept, nevals, hall of fame shown every evaluated individual. -/
theorem eaSimpleC_correct (hc : OpContract ops) (decs : List SimpleSelDec) (t t' : σ) (c c' : CState)
    {m base : Nat} (hi : CInit ev m base c) (h : eaSimpleC ops ev decs t c = some (t', c')) :
    (∀ p ∈ c'.ls.pop, (c'.ls.st.heap p).fit = some (ev (c'.ls.st.heap p).genome)) ∧
    c'.ls.log.map (·.1) = List.range (decs.length + 1) ∧
    c'.ls.pop.length = c.ls.pop.length ∧
    (∀ rec ∈ c'.ls.log, rec.2 = (c'.ls.evals.filter (fun e => e.1 == rec.1)).length) ∧ c'.ls.evals.Nodup ∧
    (∀ e ∈ c'.ls.evals, e.2 ∈ c'.ls.shown) ∧ (∀ p ∈ c'.ls.pop, p ∈ c'.ls.shown) := by
  have hr := composed_refines _ t t' c c' h
  rw [inPlace_fst] at hr
  have hsc : ∀ stp ∈ decs.map (simpleSelStep ops), StepContract stp ∧ SizeIs stp id := by
    intro stp hm
    obtain ⟨d, _, rfl⟩ := List.mem_map.1 hm
    exact ⟨simpleSelStep_contract hc d, simpleSelStep_size hc d⟩
  have hsc' : ∀ stp ∈ decs.map (simpleSelStep ops), StepContract stp := fun x hx => (hsc x hx).1
  have h0 := gen0_establishes c.ls hi.init
  have hn := nevals_logged _ hsc' 1 t t' _ c'.ls h0 hr
  have hh := hof_fed _ hsc' 1 t t' _ c'.ls h0 hr
  refine ⟨truthful _ hsc' 1 t t' _ c'.ls h0 hr, ?_, ?_, hn.1, hn.2, hh.1, hh.2⟩
  · simpa using log_shape _ hsc' t t' c.ls c'.ls hi.init hr
  · exact runGens_size_id _ 1 t t' (gen0 ev c.ls) c'.ls hsc h0 hr

/-- two generations of eaSimple with `selTournament(tournsize=2)`: the six `random.choice` results of each
call are on the tape -/
def demoSimpleC := eaSimpleC C02.demoOps demoEv
  [⟨.tournament 2 [2, 0, 0, 1, 1, 1], [true], [false, false, false]⟩,
   ⟨.tournament 2 [0, 1, 1, 2, 0, 0], [false], [false, false, true]⟩] () demoC
example : OpContract C02.demoOps ∧ CInit demoEv 2 100 demoC ∧ demoSimpleC.isSome = true :=
  ⟨C02.demoOps_contract, demoCInit, by decide +kernel⟩

/-- eaMuPlusLambda with a library selector, μ ≤ λ. -/
theorem eaMuPlusLambdaC_correct (hc : OpContract ops) (mu lam : Nat) (hle : mu ≤ lam) (decs : List MuLamSelDec)
    (t t' : σ) (c c' : CState) {m base : Nat} (hi : CInit ev m base c)
    (h : eaMuPlusLambdaC ops ev mu lam decs t c = some (t', c')) :
    (∀ p ∈ c'.ls.pop, (c'.ls.st.heap p).fit = some (ev (c'.ls.st.heap p).genome)) ∧
    c'.ls.log.map (·.1) = List.range (decs.length + 1) ∧
    (decs ≠ [] → c'.ls.pop.length = mu) ∧
    (∀ rec ∈ c'.ls.log, rec.2 = (c'.ls.evals.filter (fun e => e.1 == rec.1)).length) ∧ c'.ls.evals.Nodup ∧
    (∀ e ∈ c'.ls.evals, e.2 ∈ c'.ls.shown) ∧ (∀ p ∈ c'.ls.pop, p ∈ c'.ls.shown) := by
  have hr := composed_refines _ t t' c c' h
  rw [inPlace_fst] at hr
  have hsc : ∀ stp ∈ decs.map (plusSelStep ops mu lam), StepContract stp ∧ SizeIs stp (fun _ => mu) := by
    intro stp hm
    obtain ⟨d, _, rfl⟩ := List.mem_map.1 hm
    exact ⟨plusSelStep_contract hc mu lam d, plusSelStep_size hc mu lam hle d⟩
  have hsc' : ∀ stp ∈ decs.map (plusSelStep ops mu lam), StepContract stp := fun x hx => (hsc x hx).1
  have h0 := gen0_establishes c.ls hi.init
  have hn := nevals_logged _ hsc' 1 t t' _ c'.ls h0 hr
  have hh := hof_fed _ hsc' 1 t t' _ c'.ls h0 hr
  refine ⟨truthful _ hsc' 1 t t' _ c'.ls h0 hr, ?_, ?_, hn.1, hn.2, hh.1, hh.2⟩
  · simpa using log_shape _ hsc' t t' c.ls c'.ls hi.init hr
  · intro hne
    exact runGens_size_const mu _ 1 t t' _ c'.ls (by simpa using hne) hsc h0 hr

/-- one generation of μ+λ (μ = 2 ≤ λ = 3) with `selTournament(tournsize=2)`: candidates 0,1,2,3,5,6 with
fitnesses 6, 15, 24, 18, −15, 24; the tournaments {2,4} and {1,0} are won by #2 and #1 -/
def demoPlusC := eaMuPlusLambdaC C02.demoOps demoEv 2 3
  [⟨[Choice.cx 0 2, Choice.mutn 1, Choice.rep 2], .tournament 2 [2, 4, 1, 0]⟩] () demoC
example : OpContract C02.demoOps ∧ (2 ≤ 3) ∧ CInit demoEv 2 100 demoC ∧
    demoPlusC.map (fun r => (r.2.ls.pop, r.2.ls.log)) = some ([2, 1], [(0, 2), (1, 2)]) :=
  ⟨C02.demoOps_contract, by decide, demoCInit, by decide +kernel⟩

/-- eaMuCommaLambda with a library selector (a run exists only when `mu ≤ lambda_`). -/
theorem eaMuCommaLambdaC_correct (hc : OpContract ops) (mu lam : Nat) (decs : List MuLamSelDec)
    (t t' : σ) (c c' : CState) {m base : Nat} (hi : CInit ev m base c)
    (h : eaMuCommaLambdaC ops ev mu lam decs t c = some (t', c')) :
    mu ≤ lam ∧
    (∀ p ∈ c'.ls.pop, (c'.ls.st.heap p).fit = some (ev (c'.ls.st.heap p).genome)) ∧
    c'.ls.log.map (·.1) = List.range (decs.length + 1) ∧
    (decs ≠ [] → c'.ls.pop.length = mu) ∧
    (∀ rec ∈ c'.ls.log, rec.2 = (c'.ls.evals.filter (fun e => e.1 == rec.1)).length) ∧ c'.ls.evals.Nodup ∧
    (∀ e ∈ c'.ls.evals, e.2 ∈ c'.ls.shown) ∧ (∀ p ∈ c'.ls.pop, p ∈ c'.ls.shown) := by
  simp only [eaMuCommaLambdaC] at h
  split at h
  case isFalse => simp at h
  next hle0 =>
  have hle : mu ≤ lam := by simpa [commaAssert] using hle0
  have hr := composed_refines _ t t' c c' h
  rw [inPlace_fst] at hr
  have hsc : ∀ stp ∈ decs.map (commaSelStep ops mu lam), StepContract stp ∧ SizeIs stp (fun _ => mu) := by
    intro stp hm
    obtain ⟨d, _, rfl⟩ := List.mem_map.1 hm
    exact ⟨commaSelStep_contract hc mu lam d, commaSelStep_size hc mu lam hle d⟩
  have hsc' : ∀ stp ∈ decs.map (commaSelStep ops mu lam), StepContract stp := fun x hx => (hsc x hx).1
  have h0 := gen0_establishes c.ls hi.init
  have hn := nevals_logged _ hsc' 1 t t' _ c'.ls h0 hr
  have hh := hof_fed _ hsc' 1 t t' _ c'.ls h0 hr
  refine ⟨hle, truthful _ hsc' 1 t t' _ c'.ls h0 hr, ?_, ?_, hn.1, hn.2, hh.1, hh.2⟩
  · simpa using log_shape _ hsc' t t' c.ls c'.ls hi.init hr
  · intro hne
    exact runGens_size_const mu _ 1 t t' _ c'.ls (by simpa using hne) hsc h0 hr

/-- one generation of μ,λ (μ = 2, λ = 3) with `selRandom` drawing offspring 2 and 0; `lambda_ < mu` is the
assertion -/
def demoCommaC := eaMuCommaLambdaC C02.demoOps demoEv 2 3
  [⟨[Choice.cx 0 2, Choice.mutn 1, Choice.rep 2], .random [2, 0]⟩] () demoC
example : OpContract C02.demoOps ∧ CInit demoEv 2 100 demoC ∧
    demoCommaC.map (fun r => (r.2.ls.pop, r.2.ls.log)) = some ([6, 3], [(0, 2), (1, 2)]) :=
  ⟨C02.demoOps_contract, demoCInit, by decide +kernel⟩
example : (eaMuCommaLambdaC C02.demoOps demoEv 3 2 [] () demoC).isNone = true := by decide

/-- **μ+λ with `tools.selBest` (the C06 model: stable descending sort on the C01 order, first μ), μ ≥ 1: the
best never gets worse**, for every variation tape: for every member of the population before a sequence of
generations there is a member afterwards whose fitness is at least as good.  (C06 `best_sorted`: no omitted
candidate is better than a kept one; the old population is among the candidates `population + offspring`.) -/
theorem plus_monotone_selBest (hc : OpContract ops) (mu lam : Nat) (hmu : 0 < mu) (decs : List (List Choice))
    (g : Nat) (t t' : σ) (s s' : LState) (hinv : Inv ev g s)
    (h : runGens ev (decs.map (fun ch => plusSelStep ops mu lam ⟨ch, .best⟩)) g t s = some (t', s')) :
    ∀ p ∈ s.pop, ∃ q ∈ s'.pop, keyLe (fitKey s.st.heap p) (fitKey s'.st.heap q) :=
  plusSelBest_run_monotone hc hmu decs g t t' s s' hinv h

/-- **The truncation selection of `plus_monotone` / `eaMuPlusLambdaBest` IS the C06 model of `tools.selBest`**:
the step with the abstract truncation selection of `Core/Loops.lean` and the step with `Selection.selBest`
reading the loop's heap are the same step (same individuals, same order, ties included). -/
theorem truncation_is_selBest (mu lam : Nat) (choices : List Choice) :
    plusBestStep ops mu lam choices = plusSelStep ops mu lam ⟨choices, .best⟩ :=
  plusBestStep_eq_plusSelStep ops mu lam choices

/-- the hypotheses of `plus_monotone_selBest` on the demo population after generation 0 -/
example : OpContract C02.demoOps ∧ (0 < 2) ∧ Inv demoEv 1 (gen0 demoEv demoState) ∧
    (runGens demoEv ([[Choice.cx 0 2, Choice.mutn 1, Choice.rep 2]].map
      (fun ch => plusSelStep C02.demoOps 2 3 ⟨ch, .best⟩)) 1 () (gen0 demoEv demoState)).isSome = true :=
  ⟨C02.demoOps_contract, by decide, gen0_establishes demoState demoInit,
    by simp only [List.map, plusSelStep_best_eval]; decide +kernel⟩

/-- … over a whole composed `eaMuPlusLambda` run with `selBest` and a hall of fame, from generation 0 on. -/
theorem eaMuPlusLambdaC_selBest_monotone (hc : OpContract ops) (mu lam : Nat) (hmu : 0 < mu)
    (decs : List (List Choice)) (t t' : σ) (c c' : CState) {m base : Nat} (hi : CInit ev m base c)
    (h : eaMuPlusLambdaC ops ev mu lam (decs.map (fun ch => ⟨ch, .best⟩)) t c = some (t', c')) :
    ∀ p ∈ c.ls.pop, ∃ q ∈ c'.ls.pop, keyLe (fitKey (gen0 ev c.ls).st.heap p) (fitKey c'.ls.st.heap q) := by
  have hr := composed_refines _ t t' c c' h
  rw [inPlace_fst, List.map_map] at hr
  exact plus_monotone_selBest hc mu lam hmu decs 1 t t' _ c'.ls (gen0_establishes c.ls hi.init) hr

example : OpContract C02.demoOps ∧ (0 < 2) ∧ CInit demoEv 2 100 demoC ∧
    (eaMuPlusLambdaC C02.demoOps demoEv 2 3
      ([[Choice.cx 0 2, Choice.mutn 1, Choice.rep 2]].map (fun ch => ⟨ch, .best⟩)) () demoC).isSome = true :=
  ⟨C02.demoOps_contract, by decide, demoCInit,
    by simp only [eaMuPlusLambdaC, List.map, plusSelStep_best_eval]; decide +kernel⟩

/-- the selection the composed machine computes: candidates `population + offspring` = oids 0,1,2,3,5,6
with fitnesses 6, 15, 24, 18, -15, 24; `selBest(…, 2)` keeps #2 and its copy #6 (ties in list order) -/
example : (eaMuPlusLambdaC C02.demoOps demoEv 2 3
      ([[Choice.cx 0 2, Choice.mutn 1, Choice.rep 2]].map (fun ch => ⟨ch, .best⟩)) () demoC).map
      (fun r => (r.2.ls.pop, r.2.hof.items.map (fun i => (i.genome, i.fit.wvalues)))) =
    some ([2, 6], [([7, 8, 9], [24]), ([1, 8, 9], [18])]) := by
  simp only [eaMuPlusLambdaC, List.map, plusSelStep_best_eval]
  decide +kernel

/-- **The clause needs "μ+λ" — with μ,λ it is false**: one generation of eaMuCommaLambda with `selBest`
(μ = λ = 1) on the demo population: the only offspring is a mutant of #2 (fitness −24), the population's best
falls from 24 to −24 although every guarantee of `eaMuCommaLambdaC_correct` holds. -/
theorem comma_not_monotone :
    ∃ (c' : CState), OpContract C02.demoOps ∧ CInit demoEv 2 100 demoC ∧
      eaMuCommaLambdaC C02.demoOps demoEv 1 1 [⟨[Choice.mutn 2], .best⟩] () demoC = some ((), c') ∧
      ∃ p ∈ demoC.ls.pop, ∀ q ∈ c'.ls.pop,
        ¬ keyLe (fitKey (gen0 demoEv demoC.ls).st.heap p) (fitKey c'.ls.st.heap q) := by
  have hsome : (eaMuCommaLambdaC C02.demoOps demoEv 1 1 [⟨[Choice.mutn 2], .best⟩] () demoC).isSome = true := by
    simp only [eaMuCommaLambdaC, List.map, commaSelStep_best_eval]
    decide +kernel
  obtain ⟨⟨u, c'⟩, hc'⟩ := Option.isSome_iff_exists.1 hsome
  have hview : (eaMuCommaLambdaC C02.demoOps demoEv 1 1 [⟨[Choice.mutn 2], .best⟩] () demoC).map
      (fun r => (r.2.ls.pop, r.2.ls.pop.map (fitKey r.2.ls.st.heap))) = some ([3], [[-24]]) := by
    simp only [eaMuCommaLambdaC, List.map, commaSelStep_best_eval]
    decide +kernel
  rw [hc'] at hview
  simp only [Option.map_some, Option.some.injEq, Prod.mk.injEq] at hview
  obtain ⟨hpop, hfit⟩ := hview
  refine ⟨c', C02.demoOps_contract, demoCInit, hc', 2, by decide, ?_⟩
  intro q hq
  rw [hpop] at hq hfit
  simp only [List.mem_singleton] at hq
  subst hq
  simp only [List.map_cons, List.map_nil, List.cons.injEq, and_true] at hfit
  have h24 : fitKey (gen0 demoEv demoC.ls).st.heap 2 = [24] := by decide +kernel
  rw [hfit, h24]
  unfold keyLe
  decide

/-- **… and "truncation selection" — with a tournament it is false** even for μ+λ: `selTournament` with
`tournsize = 1` whose draw picks candidate 0 (fitness 6) out of `population + offspring`: the best falls from
24 to 6. -/
theorem tournament_not_monotone :
    ∃ (c' : CState), OpContract C02.demoOps ∧ CInit demoEv 2 100 demoC ∧
      eaMuPlusLambdaC C02.demoOps demoEv 1 1 [⟨[Choice.rep 0], .tournament 1 [0]⟩] () demoC = some ((), c') ∧
      ∃ p ∈ demoC.ls.pop, ∀ q ∈ c'.ls.pop,
        ¬ keyLe (fitKey (gen0 demoEv demoC.ls).st.heap p) (fitKey c'.ls.st.heap q) := by
  have hsome : (eaMuPlusLambdaC C02.demoOps demoEv 1 1 [⟨[Choice.rep 0], .tournament 1 [0]⟩] () demoC).isSome = true := by
    decide +kernel
  obtain ⟨⟨u, c'⟩, hc'⟩ := Option.isSome_iff_exists.1 hsome
  have hview : (eaMuPlusLambdaC C02.demoOps demoEv 1 1 [⟨[Choice.rep 0], .tournament 1 [0]⟩] () demoC).map
      (fun r => (r.2.ls.pop, r.2.ls.pop.map (fitKey r.2.ls.st.heap))) = some ([0], [[6]]) := by decide +kernel
  rw [hc'] at hview
  simp only [Option.map_some, Option.some.injEq, Prod.mk.injEq] at hview
  obtain ⟨hpop, hfit⟩ := hview
  refine ⟨c', C02.demoOps_contract, demoCInit, hc', 2, by decide, ?_⟩
  intro q hq
  rw [hpop] at hq hfit
  simp only [List.mem_singleton] at hq
  subst hq
  simp only [List.map_cons, List.map_nil, List.cons.injEq, and_true] at hfit
  have h24 : fitKey (gen0 demoEv demoC.ls).st.heap 2 = [24] := by decide +kernel
  rw [hfit, h24]
  unfold keyLe
  decide

/-! ## The caller's list object -/

/-- **The caller's population list is updated in place.**  In eaSimple, eaMuPlusLambda, eaMuCommaLambda and
harm (every loop whose generations store the next population with `population[:] = …`; `inPlace steps`), at
every boundary: the variable `population` — what the loop returns — still refers to the list object the
caller passed, that object holds the current population, and no other list object the caller could hold has
been written. -/
theorem population_updated_in_place {m base : Nat} (steps : List (Step σ)) (hc : ∀ stp ∈ steps, StepContract stp)
    (t t' : σ) (c c' : CState) (hi : CInit ev m base c)
    (h : crunPop ev (inPlace steps) t c = some (t', c')) :
    c'.popRef = c.popRef ∧ c'.lists c.popRef = c'.ls.pop ∧
    ∀ i, i < c.nextL → i ≠ c.popRef → c'.lists i = c.lists i := by
  simp only [crunPop] at h
  split at h
  · simp at h
  next c0 h0 =>
    obtain ⟨_, _, _, hlists, hnextL, hpopRef, _⟩ := hofUpdate_spec h0
    have hinv0 := composed_gen0_establishes c c0 hi h0
    have hinv' := crunGens_inv (inPlace steps) 1 t t' c0 c'
      (fun x hx => by
        obtain ⟨s, hs, rfl⟩ := List.mem_map.1 hx
        exact hc s hs) hinv0 h
    obtain ⟨hp, _, hf⟩ := crunGens_inPlace steps 1 t t' c0 c' hinv0.refLt h
    refine ⟨by rw [hp, hpopRef], ?_, ?_⟩
    · have := hinv'.listPop
      rw [hp, hpopRef] at this
      exact this
    · intro i hi1 hne
      rw [hf i (by rw [hnextL]; exact hi1) (by rw [hpopRef]; exact hne), hlists]

example : CInit demoEv 2 100 demoC ∧ (crunPop demoEv (inPlace [simpleStep C02.demoOps
    ⟨[2, 0, 0], [true], [false, false, false]⟩]) () demoC).isSome = true := ⟨demoCInit, by decide +kernel⟩

/-- **`population = offspring` would not do**: a generation that rebinds the variable leaves the caller's
list object as it was — the machine distinguishes the two assignments.  (`eaGenerateUpdate`, which has no
caller list, is the one loop that rebinds: `population = toolbox.generate()`.) -/
theorem rebinding_is_not_in_place (stp : Step σ) (g : Nat) (t t' : σ) (c c' : CState)
    (hlt : c.popRef < c.nextL) (h : cgeneration ev stp .rebind g t c = some (t', c')) :
    c'.popRef ≠ c.popRef ∧ c'.lists c.popRef = c.lists c.popRef :=
  cgeneration_rebind hlt h

/-- a concrete generation of eaSimple stored with a plain assignment: the caller's list still holds the
initial individuals 0, 1, 2 while the loop's population is 6, 7, 8 -/
example : ((cgen0 demoEv demoC).bind (fun c0 => cgeneration demoEv (simpleStep C02.demoOps
      ⟨[2, 0, 0], [true], [false, false, false]⟩) .rebind 1 () c0)).map
      (fun r => (r.2.lists 0, r.2.ls.pop, r.2.popRef)) = some ([0, 1, 2], [3, 4, 5], 1) := by decide +kernel
/-- … and with the slice assignment of the real code the caller's list holds the new population -/
example : ((cgen0 demoEv demoC).bind (fun c0 => cgeneration demoEv (simpleStep C02.demoOps
      ⟨[2, 0, 0], [true], [false, false, false]⟩) .slice 1 () c0)).map
      (fun r => (r.2.lists 0, r.2.ls.pop, r.2.popRef)) = some ([3, 4, 5], [3, 4, 5], 0) := by decide +kernel

/-! ## The ask/tell protocol of eaGenerateUpdate -/

/-- **Generate–update protocol.**  In every run of eaGenerateUpdate (any `generate` results — new or
persistent individuals, whatever fitness they carry —, any reordering by `update`, with a hall of fame):
one `toolbox.update` call per generation `0..ngen-1`, in order; every individual handed to `update` in
generation `g` was produced by the `generate` call of that generation (the strategy was waiting for exactly
these objects, in this order; `asks` lists the same), it carries the fitness `evaluate` gives for its
genotype, and the `evaluate` calls of generation `g` are exactly these individuals, in order, each once.
Between generations the strategy is waiting for nothing. -/
theorem generate_update_protocol {m base : Nat} (gens : List (List (Nat × Obj) × List Nat)) (t t' : σ)
    (st : St) (c' : CState) (h : eaGenerateUpdateC ev gens t st m base = some (t', c')) :
    c'.strat.pending = none ∧
    c'.strat.tells.map (·.1) = List.range gens.length ∧
    c'.strat.asks = c'.strat.tells.map (fun x => (x.1, x.2.2.map (·.1))) ∧
    ∀ x ∈ c'.strat.tells,
      x.2.1 = some (x.2.2.map (·.1)) ∧
      (∀ e ∈ x.2.2, e.2.fit = some (ev e.2.genome)) ∧
      c'.ls.evals.filter (fun e => e.1 == x.1) = (x.2.2.map (·.1)).map (fun o => (x.1, o)) ∧
      (x.2.2.map (·.1)).Nodup := by
  obtain ⟨hi0, hp0⟩ := initState_inv ev st m base
  obtain ⟨_, hp⟩ := crunGU_inv gens 0 t t' _ c' hi0 hp0 h
  refine ⟨hp.idle, by simpa using hp.tellsGen, hp.asks, ?_⟩
  intro x hx
  have := hp.tellsOk x hx
  exact ⟨this.pending, this.evaluated, this.once, this.nodup⟩

/-- the two generations of `demoGUC`: generation 1 hands back the persistent objects 1 and 0, moved; `update`
receives them re-evaluated -/
example : demoGUC.map (fun r => r.2.strat.asks) = some [(0, [0, 1]), (1, [1, 0])] := by decide +kernel
example : demoGUC.map (fun r => r.2.strat.tells.map (fun x => (x.1, x.2.2.map (fun e => (e.1, e.2.fit.getD []))))) =
    some [(0, [(0, [3]), (1, [3])]), (1, [(1, [10]), (0, [0])])] := by decide +kernel

/-- the composed eaGenerateUpdate, projected on the loop state, is the `eaGenerateUpdate` of the generic
theorems (`eaGenerateUpdate_correct` applies) -/
theorem eaGenerateUpdateC_refines {m base : Nat} (gens : List (List (Nat × Obj) × List Nat)) (t t' : σ)
    (st : St) (c' : CState) (h : eaGenerateUpdateC ev gens t st m base = some (t', c')) :
    eaGenerateUpdate ev gens t st = some (t', c'.ls) := by
  have key : ∀ (gens : List (List (Nat × Obj) × List Nat)) (g : Nat) (t t' : σ) (c c' : CState),
      crunGU ev gens g t c = some (t', c') →
      runGens ev (gens.map (fun x => guStep (σ := σ) x.1 x.2)) g t c.ls = some (t', c'.ls) := by
    intro gens
    induction gens with
    | nil =>
      intro g t t' c c' h
      simp only [crunGU, Option.some.injEq, Prod.mk.injEq] at h
      obtain ⟨rfl, rfl⟩ := h
      rfl
    | cons x rest ih =>
      intro g t t' c c' h
      simp only [crunGU] at h
      split at h
      · simp at h
      next t1 c1 hgen =>
        obtain ⟨c2, hc2, hls, _⟩ := guGeneration_unfold hgen
        obtain ⟨ls', c3, hg, hu, rfl⟩ := cgeneration_unfold hc2
        have hls' : c1.ls = ls' := by rw [hls, (assignPop_ls _ c3).1, (hofUpdate_spec hu).1]
        simp only [List.map_cons, runGens, hg]
        rw [← hls']
        exact ih (g + 1) t1 t' c1 c' h
  exact key gens 0 t t' _ c' h

end C03
