/-
C03 — Packaged evolutionary loops keep fitnesses, counts and logs truthful.
Property theorems only; the model is `DeapModel/Core/Loops.lean` (eaSimple, eaMuPlusLambda,
eaMuCommaLambda, eaGenerateUpdate of `deap/algorithms.py`, `harm` of `deap/gp.py`), helper lemmas and the
per-loop `StepContract` proofs are in `DeapModel/Lemmas/C03.lean`.

All theorems hold for EVERY number of generations, EVERY decision tape (selections, variation decisions,
acceptance decisions), EVERY operator pair meeting C02's `OpContract`, EVERY pure `evaluate`.
They are stated for a run over an arbitrary list of generation steps; because a run over `a ++ b` is a run
over `a` followed by a run over `b` (`every_boundary`), every statement holds at EVERY generation boundary,
not only at the end.

Reading of the clauses:
* "every individual of the population carries a valid fitness equal to what evaluate returns"  → `truthful`
* "evaluate called exactly once for each individual new or changed, and for no other;
   that number is the nevals recorded"                     → `evals_exact`, `nevals_logged`
* "one record per generation 0..ngen in order"             → `log_shape` (0..ngen-1 for generate–update)
* "keeps its prescribed size"                              → `size_*`
* "updated in place"                                       → by construction: `LState.pop` IS the caller's list,
                                                             the only population variable of the machine
* "a hall of fame has been shown every evaluated individual" → `hof_fed`
* "μ+λ with truncation selection: best never gets worse"   → `plus_monotone`
* HARM-GP's acceptance arithmetic (not part of the statement, modelled for the replay): `harm_accept_prob_*`
-/
import DeapModel.Lemmas.C03
import DeapModel.Lemmas.C03Harm
import Mathlib.Analysis.Complex.ExponentialBounds

namespace C03
open Variation Loops

variable {σ : Type} {ops : Ops σ} {ev : List Int → List Int}

/-- What is assumed of the caller's arguments: the individuals exist, the ones that come with a fitness
carry the value `evaluate` gives for their genotype, the unevaluated ones are distinct objects, nothing has
been logged yet. -/
structure Init (ev : List Int → List Int) (s : LState) : Prop where
  alloc : ∀ p ∈ s.pop, p < s.st.next
  truthful : ∀ p ∈ s.pop, ∀ f, (s.st.heap p).fit = some f → f = ev (s.st.heap p).genome
  distinct : (invalidOf s.st.heap s.pop).Nodup
  log : s.log = []
  evals : s.evals = []
  shown : s.shown = []
  shownObj : s.shownObj = []

/-! ## Concrete instances for the `example`s -/

/-- evaluate = (sum of the genes) -/
def demoEv (g : List Int) : List Int := [g.foldl (· + ·) 0]

/-- three individuals; #0 pre-evaluated (truthfully: 1+2+3 = 6), #1 and #2 not evaluated -/
def demoHeap : Heap := fun o =>
  match o with
  | 0 => ⟨[1, 2, 3], some [6]⟩
  | 1 => ⟨[4, 5, 6], none⟩
  | 2 => ⟨[7, 8, 9], none⟩
  | _ => ⟨[], none⟩

def demoState : LState := { st := { heap := demoHeap, next := 3 }, pop := [0, 1, 2] }

theorem demoInit : Init demoEv demoState where
  alloc := by decide
  truthful := by
    intro p hp f hf
    have hp' : p = 0 ∨ p = 1 ∨ p = 2 := by simpa [demoState] using hp
    rcases hp' with rfl | rfl | rfl
    · simp only [demoState, demoHeap, Option.some.injEq] at hf ⊢
      subst hf; decide
    · simp [demoState, demoHeap] at hf
    · simp [demoState, demoHeap] at hf
  distinct := by decide
  log := rfl
  evals := rfl
  shown := rfl
  shownObj := rfl

/-- two generations of eaSimple: selection picks positions 2,0,0; the first pair is mated, the third
offspring is an untouched copy in generation 1 and mutated in generation 2 -/
def demoSimple := eaSimple C02.demoOps demoEv
  [⟨[2, 0, 0], [true], [false, false, false]⟩, ⟨[0, 1, 2], [false], [false, false, true]⟩] () demoState

example : demoSimple.map (fun r => (r.2.pop, r.2.log, r.2.evals)) =
    some ([6, 7, 8], [(0, 2), (1, 2), (2, 1)], [(0, 1), (0, 2), (1, 3), (1, 4), (2, 8)]) := by decide
example : demoSimple.map (fun r => r.2.pop.map (fun o => (r.2.st.heap o).fit)) =
    some [some [12], some [18], some [-6]] := by decide +kernel

/-- one generation of μ+λ (μ = 2, λ = 3): crossover of positions 0,2, mutation of 1, reproduction of 2;
the selector picks candidates 2 and 5 (the old individual #2 and its untouched copy, both 24) -/
def demoPlusSel := eaMuPlusLambda C02.demoOps demoEv 2 3
  [⟨[Choice.cx 0 2, Choice.mutn 1, Choice.rep 2], [2, 5]⟩] () demoState

example : demoPlusSel.map (fun r => (r.2.pop, r.2.log, r.2.evals)) =
    some ([2, 6], [(0, 2), (1, 2)], [(0, 1), (0, 2), (1, 3), (1, 5)]) := by decide
example : demoPlusSel.map (fun r => r.2.pop.map (fun o => (r.2.st.heap o).fit)) =
    some [some [24], some [24]] := by decide

/-- the same generation with `toolbox.select = tools.selBest` -/
def demoPlus := eaMuPlusLambdaBest C02.demoOps demoEv 2 3
  [[Choice.cx 0 2, Choice.mutn 1, Choice.rep 2]] () demoState

/-! ## Generic theorems (any loop whose steps meet `StepContract`) -/

/-- The state before the first generation satisfies the run invariant: after generation 0 for the
population-based loops. -/
theorem gen0_establishes (s : LState) (hi : Init ev s) : Inv ev 1 (gen0 ev s) :=
  gen0_inv ev s hi.alloc hi.truthful hi.distinct hi.log hi.evals

example : Init demoEv demoState := demoInit

/-- … and trivially for generate–update, which starts from an empty population and no generation 0. -/
theorem empty_establishes (st : St) : Inv ev 0 { st := st, pop := [] } where
  alloc := by simp
  truthful := by simp
  shownPop := by simp
  shownEvals := by simp
  evalsLt := by simp
  evalsNodup := by simp
  logGens := by simp
  logCount := by simp

/-- **Every generation boundary.**  A run of `a ++ b` generations passes through the state reached by the
run of `a`; so what is proved below about the final state holds after each generation. -/
theorem every_boundary (a b : List (Step σ)) (g : Nat) (t t' : σ) (s s' : LState)
    (h : runGens ev (a ++ b) g t s = some (t', s')) :
    ∃ t1 s1, runGens ev a g t s = some (t1, s1) ∧ runGens ev b (g + a.length) t1 s1 = some (t', s') := by
  rw [runGens_append] at h
  split at h
  · simp at h
  next t1 s1 h1 => exact ⟨t1, s1, h1, h⟩

/-- **Truthful fitnesses.**  After every generation every individual of the population carries a valid
fitness equal to `evaluate` of its current genotype. -/
theorem truthful (steps : List (Step σ)) (hc : ∀ stp ∈ steps, StepContract stp) (g : Nat) (t t' : σ)
    (s s' : LState) (hinv : Inv ev g s) (h : runGens ev steps g t s = some (t', s')) :
    ∀ p ∈ s'.pop, (s'.st.heap p).fit = some (ev (s'.st.heap p).genome) :=
  (runGens_inv steps g t t' s s' hc hinv h).truthful

/-- **Exact evaluation set, one generation.**  With `r` the offspring produced in generation `g`:
`evaluate` is called on exactly the offspring without a valid fitness (all offspring for generate–update),
in order, each once; `nevals = ` their number is what is recorded; every other offspring already carries the
fitness of the population member it is an exact copy of; nothing else is evaluated. -/
theorem evals_exact (stp : Step σ) (hc : StepContract stp) (g : Nat) (t t' : σ) (s s' : LState)
    (hinv : Inv ev g s) (h : generation ev stp g t s = some (t', s')) :
    ∃ r, stp.produce t s.st s.pop = some r ∧
      s'.evals = s.evals ++ (evalSet stp r).map (fun o => (g, o)) ∧
      (evalSet stp r).Nodup ∧
      s'.log = s.log ++ [(g, (evalSet stp r).length)] ∧
      (stp.evalAll = false → evalSet stp r = r.off.filter (fun o => (r.st.heap o).fit.isNone)) ∧
      (stp.evalAll = true → evalSet stp r = r.off) ∧
      (stp.evalAll = false → ∀ o ∈ r.off, o ∉ evalSet stp r →
        ∃ p ∈ s.pop, r.st.heap o = s.st.heap p ∧ s'.st.heap o = r.st.heap o) := by
  obtain ⟨r, np, hr, _, _, _, hheap, _, hevals, hlog, _⟩ := generation_unfold h
  refine ⟨r, hr, hevals, evalSet_nodup stp r (hc.nodup t s.st s.pop r hinv.alloc hr), hlog, ?_, ?_, ?_⟩
  · intro hall; simp [evalSet, hall, invalidOf]
  · intro hall; simp [evalSet, hall]
  · intro hall o ho hnot
    have hvalid : (r.st.heap o).fit ≠ none := by
      intro hn
      apply hnot
      simp only [evalSet, hall]
      exact mem_invalidOf.2 ⟨ho, hn⟩
    rcases hc.copy_or_invalid hall t s.st s.pop r hinv.alloc hr o ho with hn | ⟨p, hp, hcopy⟩
    · exact absurd hn hvalid
    · exact ⟨p, hp, hcopy, by rw [hheap, assignFits_not_mem _ _ _ _ hnot]⟩

/-- **nevals.**  Every record `(gen, nevals)` of the logbook counts exactly the `evaluate` calls of its
generation, and no (generation, individual) pair is evaluated twice. -/
theorem nevals_logged (steps : List (Step σ)) (hc : ∀ stp ∈ steps, StepContract stp) (g : Nat) (t t' : σ)
    (s s' : LState) (hinv : Inv ev g s) (h : runGens ev steps g t s = some (t', s')) :
    (∀ rec ∈ s'.log, rec.2 = (s'.evals.filter (fun e => e.1 == rec.1)).length) ∧ s'.evals.Nodup :=
  ⟨(runGens_inv steps g t t' s s' hc hinv h).logCount, (runGens_inv steps g t t' s s' hc hinv h).evalsNodup⟩

/-- **Log shape**, population-based loops: one record per generation `0..ngen`, in order. -/
theorem log_shape (steps : List (Step σ)) (hc : ∀ stp ∈ steps, StepContract stp) (t t' : σ) (s s' : LState)
    (hi : Init ev s) (h : runPop ev steps t s = some (t', s')) :
    s'.log.map (·.1) = List.range (steps.length + 1) := by
  have := (runGens_inv steps 1 t t' _ s' hc (gen0_establishes s hi) h).logGens
  rw [this, Nat.add_comm]

/-- **Log shape**, generate–update: records `0..ngen-1` (no generation 0; DESIGN §6). -/
theorem log_shape_gu (steps : List (Step σ)) (hc : ∀ stp ∈ steps, StepContract stp) (t t' : σ) (st : St)
    (s' : LState) (h : runGU ev steps t { st := st, pop := [] } = some (t', s')) :
    s'.log.map (·.1) = List.range steps.length := by
  have := (runGens_inv steps 0 t t' _ s' hc (empty_establishes st) h).logGens
  rw [this, Nat.zero_add]

/-- **Hall of fame.**  Every individual `evaluate` was called on, and every member of the current
population, has been passed to `halloffame.update` (with C08: its best entry is at least as good as any
fitness ever present). -/
theorem hof_fed (steps : List (Step σ)) (hc : ∀ stp ∈ steps, StepContract stp) (g : Nat) (t t' : σ)
    (s s' : LState) (hinv : Inv ev g s) (h : runGens ev steps g t s = some (t', s')) :
    (∀ e ∈ s'.evals, e.2 ∈ s'.shown) ∧ (∀ p ∈ s'.pop, p ∈ s'.shown) :=
  ⟨(runGens_inv steps g t t' s s' hc hinv h).shownEvals, (runGens_inv steps g t t' s s' hc hinv h).shownPop⟩

/-- **The hall of fame is shown EVALUATED individuals** (population-based loops): every individual passed to
`halloffame.update` carried, at that moment, the fitness `evaluate` gives for the genotype it had then —
the evaluation block runs before the update, in generation 0 and in every later generation.  `shownObj` is
the same feed as `shown`, with the content of the individuals. -/
theorem hof_shown_evaluated (steps : List (Step σ)) (hc : ∀ stp ∈ steps, StepContract stp) (t t' : σ)
    (s s' : LState) (hi : Init ev s) (h : runPop ev steps t s = some (t', s')) :
    (∀ e ∈ s'.shownObj, e.2.fit = some (ev e.2.genome)) ∧ s'.shownObj.map (·.1) = s'.shown :=
  runGens_shown steps 1 t t' _ s' hc (gen0_establishes s hi)
    (gen0_shown ev s hi.truthful hi.shown hi.shownObj) h

/-- … and for generate–update. -/
theorem hof_shown_evaluated_gu (steps : List (Step σ)) (hc : ∀ stp ∈ steps, StepContract stp) (t t' : σ)
    (st : St) (s' : LState) (h : runGU ev steps t { st := st, pop := [] } = some (t', s')) :
    (∀ e ∈ s'.shownObj, e.2.fit = some (ev e.2.genome)) ∧ s'.shownObj.map (·.1) = s'.shown :=
  runGens_shown steps 0 t t' _ s' hc (empty_establishes st) ⟨by simp, rfl⟩ h

/-! ## The five loops -/

/-- eaSimple, any `ngen`, any selection/variation decisions: truthful, log 0..ngen, size kept, nevals, hof. -/
theorem eaSimple_correct (hc : OpContract ops) (decs : List SimpleDec) (t t' : σ) (s s' : LState)
    (hi : Init ev s) (h : eaSimple ops ev decs t s = some (t', s')) :
    (∀ p ∈ s'.pop, (s'.st.heap p).fit = some (ev (s'.st.heap p).genome)) ∧
    s'.log.map (·.1) = List.range (decs.length + 1) ∧
    s'.pop.length = s.pop.length ∧
    (∀ rec ∈ s'.log, rec.2 = (s'.evals.filter (fun e => e.1 == rec.1)).length) ∧ s'.evals.Nodup ∧
    (∀ e ∈ s'.evals, e.2 ∈ s'.shown) ∧ (∀ p ∈ s'.pop, p ∈ s'.shown) := by
  have hsc : ∀ stp ∈ decs.map (simpleStep ops), StepContract stp ∧ SizeIs stp id := by
    intro stp hm
    obtain ⟨d, _, rfl⟩ := List.mem_map.1 hm
    exact ⟨simpleStep_contract hc d, fun t st pop r h np _ hp hr => simpleStep_size hc d hp hr⟩
  have hsc' : ∀ stp ∈ decs.map (simpleStep ops), StepContract stp := fun x hx => (hsc x hx).1
  have h0 := gen0_establishes s hi
  have hn := nevals_logged _ hsc' 1 t t' _ s' h0 h
  have hh := hof_fed _ hsc' 1 t t' _ s' h0 h
  refine ⟨truthful _ hsc' 1 t t' _ s' h0 h, ?_, ?_, hn.1, hn.2, hh.1, hh.2⟩
  · simpa using log_shape _ hsc' t t' s s' hi h
  · exact runGens_size_id _ 1 t t' (gen0 ev s) s' hsc h0 h

example : OpContract C02.demoOps ∧ Init demoEv demoState ∧ demoSimple.isSome = true :=
  ⟨C02.demoOps_contract, demoInit, by decide⟩

/-- eaMuPlusLambda: truthful, log 0..ngen, size μ after at least one generation, nevals, hof. -/
theorem eaMuPlusLambda_correct (hc : OpContract ops) (mu lam : Nat) (decs : List MuLamDec) (t t' : σ)
    (s s' : LState) (hi : Init ev s) (h : eaMuPlusLambda ops ev mu lam decs t s = some (t', s')) :
    (∀ p ∈ s'.pop, (s'.st.heap p).fit = some (ev (s'.st.heap p).genome)) ∧
    s'.log.map (·.1) = List.range (decs.length + 1) ∧
    (decs ≠ [] → s'.pop.length = mu) ∧
    (∀ rec ∈ s'.log, rec.2 = (s'.evals.filter (fun e => e.1 == rec.1)).length) ∧ s'.evals.Nodup ∧
    (∀ e ∈ s'.evals, e.2 ∈ s'.shown) ∧ (∀ p ∈ s'.pop, p ∈ s'.shown) := by
  have hsc : ∀ stp ∈ decs.map (plusStep ops mu lam), StepContract stp ∧ SizeIs stp (fun _ => mu) := by
    intro stp hm
    obtain ⟨d, _, rfl⟩ := List.mem_map.1 hm
    exact ⟨plusStep_contract hc mu lam d, fun t st pop r h np _ _ hr => plusStep_size mu lam d hr⟩
  have hsc' : ∀ stp ∈ decs.map (plusStep ops mu lam), StepContract stp := fun x hx => (hsc x hx).1
  have h0 := gen0_establishes s hi
  have hn := nevals_logged _ hsc' 1 t t' _ s' h0 h
  have hh := hof_fed _ hsc' 1 t t' _ s' h0 h
  refine ⟨truthful _ hsc' 1 t t' _ s' h0 h, ?_, ?_, hn.1, hn.2, hh.1, hh.2⟩
  · simpa using log_shape _ hsc' t t' s s' hi h
  · intro hne
    exact runGens_size_const mu _ 1 t t' _ s' (by simpa using hne) hsc h0 h

/-- eaMuCommaLambda (a run exists only when `mu ≤ lambda_`): the same guarantees. -/
theorem eaMuCommaLambda_correct (hc : OpContract ops) (mu lam : Nat) (decs : List MuLamDec) (t t' : σ)
    (s s' : LState) (hi : Init ev s) (h : eaMuCommaLambda ops ev mu lam decs t s = some (t', s')) :
    mu ≤ lam ∧
    (∀ p ∈ s'.pop, (s'.st.heap p).fit = some (ev (s'.st.heap p).genome)) ∧
    s'.log.map (·.1) = List.range (decs.length + 1) ∧
    (decs ≠ [] → s'.pop.length = mu) ∧
    (∀ rec ∈ s'.log, rec.2 = (s'.evals.filter (fun e => e.1 == rec.1)).length) ∧ s'.evals.Nodup ∧
    (∀ e ∈ s'.evals, e.2 ∈ s'.shown) ∧ (∀ p ∈ s'.pop, p ∈ s'.shown) := by
  simp only [eaMuCommaLambda] at h
  split at h
  case isFalse => simp at h
  next hle =>
  have hsc : ∀ stp ∈ decs.map (commaStep ops mu lam), StepContract stp ∧ SizeIs stp (fun _ => mu) := by
    intro stp hm
    obtain ⟨d, _, rfl⟩ := List.mem_map.1 hm
    exact ⟨commaStep_contract hc mu lam d, fun t st pop r h np _ _ hr => commaStep_size mu lam d hr⟩
  have hsc' : ∀ stp ∈ decs.map (commaStep ops mu lam), StepContract stp := fun x hx => (hsc x hx).1
  have h0 := gen0_establishes s hi
  have hn := nevals_logged _ hsc' 1 t t' _ s' h0 h
  have hh := hof_fed _ hsc' 1 t t' _ s' h0 h
  refine ⟨by simpa [commaAssert] using hle, truthful _ hsc' 1 t t' _ s' h0 h, ?_, ?_, hn.1, hn.2, hh.1, hh.2⟩
  · simpa using log_shape _ hsc' t t' s s' hi h
  · intro hne
    exact runGens_size_const mu _ 1 t t' _ s' (by simpa using hne) hsc h0 h

/-- one generation of μ,λ (μ = 2, λ = 3): the selector picks offspring 1 and 2 -/
def demoComma := eaMuCommaLambda C02.demoOps demoEv 2 3
  [⟨[Choice.cx 0 2, Choice.mutn 1, Choice.rep 2], [1, 2]⟩] () demoState
example : OpContract C02.demoOps ∧ Init demoEv demoState ∧
    demoComma.map (fun r => (r.2.pop, r.2.log)) = some ([5, 6], [(0, 2), (1, 2)]) :=
  ⟨C02.demoOps_contract, demoInit, by decide⟩
/-- `lambda_ < mu`: the assertion, no run -/
example : (eaMuCommaLambda C02.demoOps demoEv 3 2 [] () demoState).isNone = true := by decide

/-- one HARM generation, `nbrindsmodel = 3`: the natural population is a mutant of #1, and the two children
of a crossover of #0 and #2; the second `_genpop` pops them from the end: the last is rejected, the other two
accepted, then a reproduction of #2 is generated and accepted -/
def demoHarm := harm C02.demoOps demoEv 3
  [⟨[HStep.mutn 1 true, HStep.cx 0 2 true true],
    [HStep.pick false, HStep.pick true, HStep.pick true, HStep.rep 2 true]⟩] () demoState
example : OpContract C02.demoOps ∧ Init demoEv demoState ∧
    demoHarm.map (fun r => (r.2.pop, r.2.log, r.2.evals)) =
      some ([4, 3, 6], [(0, 2), (1, 2)], [(0, 1), (0, 2), (1, 4), (1, 3)]) :=
  ⟨C02.demoOps_contract, demoInit, by decide⟩

/-- gp.harm (control flow; every `acceptfunc` result is a free decision): the same guarantees, with the
population keeping its initial size. -/
theorem harm_correct (hc : OpContract ops) (nbr : Nat) (decs : List (HarmDec Bool)) (t t' : σ) (s s' : LState)
    (hi : Init ev s) (h : harm ops ev nbr decs t s = some (t', s')) :
    (∀ p ∈ s'.pop, (s'.st.heap p).fit = some (ev (s'.st.heap p).genome)) ∧
    s'.log.map (·.1) = List.range (decs.length + 1) ∧
    s'.pop.length = s.pop.length ∧
    (∀ rec ∈ s'.log, rec.2 = (s'.evals.filter (fun e => e.1 == rec.1)).length) ∧ s'.evals.Nodup ∧
    (∀ e ∈ s'.evals, e.2 ∈ s'.shown) ∧ (∀ p ∈ s'.pop, p ∈ s'.shown) := by
  have hsc : ∀ stp ∈ decs.map (harmStep ops nbr), StepContract stp ∧ SizeIs stp id := by
    intro stp hm
    obtain ⟨d, _, rfl⟩ := List.mem_map.1 hm
    exact ⟨harmStep_contract hc nbr d, fun t st pop r h np hpop hp hr => harmStep_size hc nbr d hpop hp hr⟩
  have hsc' : ∀ stp ∈ decs.map (harmStep ops nbr), StepContract stp := fun x hx => (hsc x hx).1
  have h0 := gen0_establishes s hi
  have hn := nevals_logged _ hsc' 1 t t' _ s' h0 h
  have hh := hof_fed _ hsc' 1 t t' _ s' h0 h
  refine ⟨truthful _ hsc' 1 t t' _ s' h0 h, ?_, ?_, hn.1, hn.2, hh.1, hh.2⟩
  · simpa using log_shape _ hsc' t t' s s' hi h
  · exact runGens_size_id _ 1 t t' (gen0 ev s) s' hsc h0 h

/-- gp.harm with the acceptance test COMPUTED by the model (`acceptfunc` = recorded `random()` draw ≤ the
threshold derived from the natural population, for any scalar type — `Float` in the replay, `ℝ` in the
theorems below): the same guarantees.  They do not depend on the acceptance arithmetic at all. -/
theorem harmR_correct {α : Type} [RealLike α] (hc : OpContract ops) (nbr : Nat)
    (ps : List (HarmParams α × HarmDec α)) (t t' : σ) (s s' : LState)
    (hi : Init ev s) (h : harmR ops ev nbr ps t s = some (t', s')) :
    (∀ p ∈ s'.pop, (s'.st.heap p).fit = some (ev (s'.st.heap p).genome)) ∧
    s'.log.map (·.1) = List.range (ps.length + 1) ∧
    s'.pop.length = s.pop.length ∧
    (∀ rec ∈ s'.log, rec.2 = (s'.evals.filter (fun e => e.1 == rec.1)).length) ∧ s'.evals.Nodup ∧
    (∀ e ∈ s'.evals, e.2 ∈ s'.shown) ∧ (∀ p ∈ s'.pop, p ∈ s'.shown) := by
  have hsc : ∀ stp ∈ ps.map (fun pd => harmStepR ops nbr pd.1 pd.2), StepContract stp ∧ SizeIs stp id := by
    intro stp hm
    obtain ⟨d, _, rfl⟩ := List.mem_map.1 hm
    exact ⟨harmStepG_contract hc nbr _ d.2,
      fun t st pop r h np hpop hp hr => harmStepG_size hc nbr _ d.2 hpop hp hr⟩
  have hsc' : ∀ stp ∈ ps.map (fun pd => harmStepR ops nbr pd.1 pd.2), StepContract stp :=
    fun x hx => (hsc x hx).1
  have h0 := gen0_establishes s hi
  have hn := nevals_logged _ hsc' 1 t t' _ s' h0 h
  have hh := hof_fed _ hsc' 1 t t' _ s' h0 h
  refine ⟨truthful _ hsc' 1 t t' _ s' h0 h, ?_, ?_, hn.1, hn.2, hh.1, hh.2⟩
  · simpa using log_shape _ hsc' t t' s s' hi h
  · exact runGens_size_id _ 1 t t' (gen0 ev s) s' hsc h0 h

/-! ### HARM-GP acceptance arithmetic over ℝ (gp.py 1084-1122)

`acceptfunc(s) = random.random() <= probfunc(s)`.  What the code guarantees about the threshold
`probfunc(s)`, for `gamma ≥ 0` and a positive half-life `x·alpha + beta` (the division by
`halflifefunc(x)` is NOT guarded by the code: `alpha = beta = 0` raises `ZeroDivisionError`):
* it is never negative (`harm_accept_prob_nonneg`);
* for sizes up to the cutoff it is exactly 0 or 1 (`harm_accept_prob_unit_below_cutoff`);
* above the cutoff it is `targetfunc/naturalhist`, which the code does NOT clamp: it exceeds 1 whenever the
  target distribution asks for more individuals of a size than the natural one provides — then every
  aspirant of that size is accepted.  So "the threshold is a probability in [0,1]"
  (`harm_accept_prob_unit_Statement`) is false as stated; `harm_accept_prob_exceeds_one` is a witness.
* the division `val * len(population) / nbrindsmodel` is only reached with a non-empty natural population,
  i.e. `nbrindsmodel ≥ 1` (`harm_hist_needs_natural`); `t / n` is guarded by `n > 0` in the code
  (`probHist`). -/

/-- the acceptance threshold is never negative -/
theorem harm_accept_prob_nonneg (p : HarmParams ℝ) (npop nbr : Nat) (inds : List (List Int × Nat))
    (thr : Nat → ℝ) (h : acceptThreshold p npop nbr inds = some thr) (hg : 0 ≤ p.gamma)
    (hl : ∀ x, 0 < halflife p x) : ∀ s, 0 ≤ thr s := by
  simp only [acceptThreshold] at h
  split at h
  next nat cutoff hnat _ =>
    simp only [Option.some.injEq] at h
    subst h
    exact probFunc_nonneg p npop cutoff nat (naturalHist_nonneg _ _ _ _ hnat) hg hl
  · simp at h

example : ∀ x, (0 : ℝ) < halflife (α := ℝ) ⟨0.05, 10, 0.25, 20, 0⟩ x := by
  intro x
  simp only [halflife, RealLike.real_mul, RealLike.real_add, RealLike.real_ofNat]
  positivity

/-- up to the cutoff size the threshold is exactly 0 (no natural individual near that size) or 1 -/
theorem harm_accept_prob_unit_below_cutoff (p : HarmParams ℝ) (npop nbr : Nat) (sizes : List Nat)
    (nat : List ℝ) (hnat : naturalHist sizes npop nbr = some nat) (cutoff s : Nat) (hs : s ≤ cutoff)
    (hlen : s < nat.length) :
    probFunc p npop cutoff (probHist p npop cutoff nat) s = 0 ∨
    probFunc p npop cutoff (probHist p npop cutoff nat) s = 1 :=
  probFunc_below_cutoff p npop cutoff nat (naturalHist_nonneg _ _ _ _ hnat) s hs hlen

/-- the histogram normalisation `… / nbrindsmodel` is only reached with a non-empty natural population -/
theorem harm_hist_needs_natural (sizes : List Nat) (npop nbr : Nat) (nat : List ℝ)
    (h : naturalHist sizes npop nbr = some nat) : sizes ≠ [] :=
  naturalHist_nonempty sizes npop nbr nat h

/-- The full claim "the acceptance threshold is a probability in [0,1]" for every natural histogram — FALSE:
the code does not clamp the ratio `targetfunc / naturalhist` (nor `targetfunc` beyond the histogram). -/
def harm_accept_prob_unit_Statement : Prop :=
  ∀ (p : HarmParams ℝ) (npop cutoff s : Nat) (nat : List ℝ),
    AllNonneg nat → 0 ≤ p.gamma → (∀ x, 0 < halflife p x) →
    0 ≤ probFunc p npop cutoff (probHist p npop cutoff nat) s ∧
    probFunc p npop cutoff (probHist p npop cutoff nat) s ≤ 1

/-- the lower half of it holds … -/
theorem harm_accept_prob_unit_partial (p : HarmParams ℝ) (npop cutoff s : Nat) (nat : List ℝ)
    (hnat : AllNonneg nat) (hg : 0 ≤ p.gamma) (hl : ∀ x, 0 < halflife p x) :
    0 ≤ probFunc p npop cutoff (probHist p npop cutoff nat) s :=
  probFunc_nonneg p npop cutoff nat hnat hg hl s

/-- … the upper half does not: `gamma = 2`, `alpha = 0`, `beta = 1`, one individual, cutoff 20 (the default
`mincutoff`), an aspirant of size 20: the threshold is `2·ln 2 ≈ 1.39`.  (With the recommended parameters the
same happens whenever the natural histogram is thin at a size above the cutoff; the harness counts these runs.)
A threshold above 1 just means "always accept" for `random() <= threshold`. -/
theorem harm_accept_prob_exceeds_one : ¬ harm_accept_prob_unit_Statement := by
  intro hst
  have h := (hst ⟨0, 1, 2, 20, 0⟩ 1 20 20 [] (by intro x hx; simp at hx) (by norm_num)
    (by intro x; simp [halflife])).2
  have hlog := Real.log_two_gt_d9
  simp [probFunc, probHist, targetFunc, halflife] at h
  norm_num at h hlog
  linarith

/-- eaGenerateUpdate: every individual `generate()` hands back — brand-new or a persistent one moved in
place, whatever fitness it carried — is evaluated (nevals = their number), records `0..ngen-1`, the returned
population is the last generated one (whatever order `update` leaves it in). -/
theorem eaGenerateUpdate_correct (gens : List (List (Nat × Obj) × List Nat)) (t t' : σ) (st : St)
    (s' : LState)
    (h : eaGenerateUpdate ev gens t st = some (t', s')) :
    (∀ p ∈ s'.pop, (s'.st.heap p).fit = some (ev (s'.st.heap p).genome)) ∧
    s'.log.map (·.1) = List.range gens.length ∧
    (∀ last ∈ gens.getLast?, s'.pop.length = last.1.length) ∧
    (∀ rec ∈ s'.log, rec.2 = (s'.evals.filter (fun e => e.1 == rec.1)).length) ∧ s'.evals.Nodup ∧
    (∀ e ∈ s'.evals, e.2 ∈ s'.shown) ∧ (∀ p ∈ s'.pop, p ∈ s'.shown) := by
  have hsc' : ∀ stp ∈ gens.map (fun g => guStep (σ := σ) g.1 g.2), StepContract stp := by
    intro stp hm
    obtain ⟨d, _, rfl⟩ := List.mem_map.1 hm
    exact guStep_contract d.1 d.2
  have h0 : Inv ev 0 { st := st, pop := [] } := empty_establishes st
  have hn := nevals_logged _ hsc' 0 t t' _ s' h0 h
  have hh := hof_fed _ hsc' 0 t t' _ s' h0 h
  refine ⟨truthful _ hsc' 0 t t' _ s' h0 h, ?_, ?_, hn.1, hn.2, hh.1, hh.2⟩
  · simpa using log_shape_gu _ hsc' t t' st s' h
  · intro last hlast
    obtain ⟨ys, rfl⟩ := List.getLast?_eq_some_iff.1 hlast
    simp only [eaGenerateUpdate, runGU, List.map_append, List.map_cons, List.map_nil] at h
    obtain ⟨t1, s1, h1, h2⟩ := every_boundary _ _ 0 t t' _ s' h
    have hinv1 := runGens_inv _ 0 t t1 _ s1
      (fun x hx => hsc' x (by simp only [List.map_append, List.mem_append]; exact Or.inl hx)) h0 h1
    simp only [runGens] at h2
    split at h2
    · simp at h2
    next t2 s2 hgen =>
      simp only [Option.some.injEq, Prod.mk.injEq] at h2
      obtain ⟨_, rfl⟩ := h2
      obtain ⟨r, np, hr, hnp, _, hpop, _⟩ := generation_unfold hgen
      rw [hpop]
      exact guStep_size last.1 last.2 hr hnp

/-- two generations of an ask/tell strategy with two PERSISTENT individuals: in generation 1 `generate`
hands back the same objects, moved, still carrying their (now stale) fitness — they are evaluated again -/
def demoGU := eaGenerateUpdate (σ := Unit) demoEv
  [([(0, ⟨[1, 2], none⟩), (1, ⟨[3], none⟩)], [1, 0]),
   ([(1, ⟨[5, 5], some [3]⟩), (0, ⟨[0], some [3]⟩)], [0, 1])] () { heap := fun _ => ⟨[], none⟩, next := 0 }

example : demoGU.map (fun r => (r.2.pop, r.2.log, r.2.evals)) =
    some ([1, 0], [(0, 2), (1, 2)], [(0, 0), (0, 1), (1, 1), (1, 0)]) := by decide
example : demoGU.map (fun r => r.2.pop.map (fun o => (r.2.st.heap o).fit)) = some [some [10], some [0]] := by
  decide

/-- **μ+λ with truncation selection (`selBest`), μ ≥ 1: the best never gets worse.**  For every member of
the population before a sequence of generations there is a member afterwards whose weighted fitness is at
least as good (lexicographic order of `wvalues`, as `Fitness.__le__` compares). -/
theorem plus_monotone (hc : OpContract ops) (mu lam : Nat) (hmu : 0 < mu) (decs : List (List Choice))
    (g : Nat) (t t' : σ) (s s' : LState) (hinv : Inv ev g s)
    (h : runGens ev (decs.map (plusBestStep ops mu lam)) g t s = some (t', s')) :
    ∀ p ∈ s.pop, ∃ q ∈ s'.pop, keyLe (fitKey s.st.heap p) (fitKey s'.st.heap q) :=
  plusBest_run_monotone hc hmu decs g t t' s s' hinv h

/-- eaMuPlusLambda with `toolbox.select = tools.selBest` and μ ≤ λ: the model computes the selection itself
(no selection tape); truthful, log 0..ngen, size μ after at least one generation, nevals, hof. -/
theorem eaMuPlusLambdaBest_correct (hc : OpContract ops) (mu lam : Nat) (hle : mu ≤ lam)
    (decs : List (List Choice)) (t t' : σ) (s s' : LState) (hi : Init ev s)
    (h : eaMuPlusLambdaBest ops ev mu lam decs t s = some (t', s')) :
    (∀ p ∈ s'.pop, (s'.st.heap p).fit = some (ev (s'.st.heap p).genome)) ∧
    s'.log.map (·.1) = List.range (decs.length + 1) ∧
    (decs ≠ [] → s'.pop.length = mu) ∧
    (∀ rec ∈ s'.log, rec.2 = (s'.evals.filter (fun e => e.1 == rec.1)).length) ∧ s'.evals.Nodup ∧
    (∀ e ∈ s'.evals, e.2 ∈ s'.shown) ∧ (∀ p ∈ s'.pop, p ∈ s'.shown) := by
  have hsc : ∀ stp ∈ decs.map (plusBestStep ops mu lam), StepContract stp ∧ SizeIs stp (fun _ => mu) := by
    intro stp hm
    obtain ⟨d, _, rfl⟩ := List.mem_map.1 hm
    exact ⟨plusBestStep_contract hc mu lam d, plusBestStep_size hc mu lam hle d⟩
  have hsc' : ∀ stp ∈ decs.map (plusBestStep ops mu lam), StepContract stp := fun x hx => (hsc x hx).1
  have h0 := gen0_establishes s hi
  have hn := nevals_logged _ hsc' 1 t t' _ s' h0 h
  have hh := hof_fed _ hsc' 1 t t' _ s' h0 h
  refine ⟨truthful _ hsc' 1 t t' _ s' h0 h, ?_, ?_, hn.1, hn.2, hh.1, hh.2⟩
  · simpa using log_shape _ hsc' t t' s s' hi h
  · intro hne
    exact runGens_size_const mu _ 1 t t' _ s' (by simpa using hne) hsc h0 h

/-- … in particular over a whole `eaMuPlusLambda` run with `selBest`, from generation 0 on. -/
theorem eaMuPlusLambdaBest_monotone (hc : OpContract ops) (mu lam : Nat) (hmu : 0 < mu)
    (decs : List (List Choice)) (t t' : σ) (s s' : LState) (hi : Init ev s)
    (h : eaMuPlusLambdaBest ops ev mu lam decs t s = some (t', s')) :
    ∀ p ∈ s.pop, ∃ q ∈ s'.pop, keyLe (fitKey (gen0 ev s).st.heap p) (fitKey s'.st.heap q) :=
  plus_monotone hc mu lam hmu decs 1 t t' _ s' (gen0_establishes s hi) h

example : OpContract C02.demoOps ∧ (0 < 2) ∧ Init demoEv demoState ∧ demoPlus.isSome = true :=
  ⟨C02.demoOps_contract, by decide, demoInit, by decide⟩

/-- The truncation selection is `sorted(…, reverse=True)[:k]`: with fitnesses 6, 15, 15, 24 for the oids
0, 1, 2, 3 the three best of `[0, 1, 2, 3]` are 3, 1, 2 — ties keep their original order. -/
def demoFitHeap : Heap := fun o => ⟨[], some [[6, 15, 15, 24].getD o 0]⟩
example : selBest demoFitHeap [0, 1, 2, 3] 3 = [3, 1, 2] := by
  simp +decide [selBest, List.mergeSort, List.MergeSort.Internal.splitInTwo, fitKey, demoFitHeap]

end C03
