/-
C05 — NSGA-II selection: exact size, references only, rank- then crowding-elitist.
Property theorems only.  Model: `DeapModel/Core/Crowding.lean` (on top of the C04 models);
lemmas: `DeapModel/Lemmas/C05*.lean`.

Reading guide
* `FrontsSpec pop k fronts` is C04's specification of what a sorting back-end answers for `(pop, k)`:
  front by front (up to the order inside a front) the leading fronts of the Pareto ranking needed to
  reach `k`.  Every theorem about the selection is stated for **any** `fronts` with `FrontsSpec`
  (back-end agnostic); `selNSGA2_standard` instantiates it with the quadratic sort and `selNSGA2_log`
  with the log-time sort (both proved correct in C04).
* `selFromFronts weights fronts k` is emo.py:41-50; distances are `Option α`, `none` = `inf`.
-/
import DeapModel.Lemmas.C05Cut
import DeapModel.Lemmas.C05Crowd
import DeapModel.Lemmas.C05Gen
import DeapModel.Props.C04
import Mathlib.Algebra.Order.Field.Rat
import Mathlib.Tactic.NormNum

set_option linter.unusedSectionVars false
set_option linter.unusedSimpArgs false
set_option linter.unusedVariables false

namespace C05
open NDSort Crowding C04L C05L

variable {α : Type} [Field α] [LinearOrder α] [IsStrictOrderedRing α] [Inhabited α]

abbrev exPop : List (Ind ℚ) := [⟨0, [1, 2]⟩, ⟨1, [2, 1]⟩, ⟨2, [0, 0]⟩, ⟨3, [1, 2]⟩, ⟨4, [1, 1]⟩]

/-- the distances `selNSGA2` uses for the cut: those of the last front -/
abbrev lastDist (weights : List α) (fronts : List (List (Ind α))) : List (Dist α) :=
  assignCrowdingDist (((fronts.getLast?).getD []).map (values weights))

theorem lastDist_length (weights : List α) (fronts : List (List (Ind α))) :
    (lastDist weights fronts).length = ((fronts.getLast?).getD []).length := by
  simp [lastDist, assignCrowdingDist_length]

/-- **size.**  The selection has exactly `min k n` individuals. -/
theorem selection_size (m : Nat) (pop : List (Ind α)) (hlen : ∀ x ∈ pop, x.w.length = m) (k : Nat)
    (fronts : List (List (Ind α))) (hspec : FrontsSpec pop k fronts) (weights : List α) :
    (selFromFronts weights fronts k).length = min k pop.length :=
  cut_length m pop hlen k fronts hspec _ (lastDist_length weights fronts)

example : (∀ x ∈ exPop, x.w.length = 2) ∧
    FrontsSpec exPop 4 [[⟨0, [1, 2]⟩, ⟨3, [1, 2]⟩, ⟨1, [2, 1]⟩], [⟨4, [1, 1]⟩]] := by
  refine ⟨by decide, ?_⟩
  have : leading (peel domI exPop) 4 = [[⟨0, [1, 2]⟩, ⟨1, [2, 1]⟩, ⟨3, [1, 2]⟩], [⟨4, [1, 1]⟩]] := by decide
  unfold FrontsSpec; rw [this]
  exact .cons (by decide) (.cons (List.Perm.refl _) .nil)

/-- **references only, none twice.**  The selection is a sub-permutation of the input: every
selected individual is an input individual (same identity), none occurs more often than it is
listed, so none twice when the individuals are distinct. -/
theorem selection_subperm (m : Nat) (pop : List (Ind α)) (hlen : ∀ x ∈ pop, x.w.length = m) (k : Nat)
    (fronts : List (List (Ind α))) (hspec : FrontsSpec pop k fronts) (weights : List α) :
    (selFromFronts weights fronts k).Subperm pop ∧
    (pop.Nodup → (selFromFronts weights fronts k).Nodup) :=
  ⟨cut_subperm m pop hlen k fronts hspec _ (lastDist_length weights fronts),
   cut_nodup m pop hlen k fronts hspec _ (lastDist_length weights fronts)⟩

example : (∀ x ∈ exPop, x.w.length = 2) ∧ exPop.Nodup := by decide

/-- **rank-elitist.**  No individual left out belongs to a strictly better non-domination front
than a selected one. -/
theorem front_priority (m : Nat) (pop : List (Ind α)) (hlen : ∀ x ∈ pop, x.w.length = m) (k : Nat)
    (fronts : List (List (Ind α))) (hspec : FrontsSpec pop k fronts) (weights : List α)
    (x y : Ind α) (hx : x ∈ selFromFronts weights fronts k) (hy : y ∈ pop)
    (hyn : y ∉ selFromFronts weights fronts k) : depth domI pop x ≤ depth domI pop y :=
  cut_front_priority m pop hlen k fronts hspec _ (lastDist_length weights fronts) x y hx hy hyn

example : (⟨4, [1, 1]⟩ : Ind ℚ) ∈ selFromFronts [1, 1] [[⟨0, [1, 2]⟩, ⟨3, [1, 2]⟩, ⟨1, [2, 1]⟩], [⟨4, [1, 1]⟩]] 4 ∧
    (⟨2, [0, 0]⟩ : Ind ℚ) ∉ selFromFronts [1, 1] [[⟨0, [1, 2]⟩, ⟨3, [1, 2]⟩, ⟨1, [2, 1]⟩], [⟨4, [1, 1]⟩]] 4 := by
  simp [selFromFronts, cutWith, assignCrowdingDist, objStep, sortCrowd, sortByDistDesc, values, List.range,
    List.range.loop, List.zipIdx]

/-- **one partial front, crowding-elitist.**  All fronts but the last are taken completely; the
last front is split into `kept` and `dropped` (pairs of an individual and the crowding distance
`assignCrowdingDist` gave it, together a permutation of the last front with its distances), the
selection is the whole fronts followed by `kept`, and every kept distance is at least as large as
every dropped one. -/
theorem one_partial_front_crowding_cut (m : Nat) (pop : List (Ind α)) (hlen : ∀ x ∈ pop, x.w.length = m)
    (k : Nat) (fronts : List (List (Ind α))) (hspec : FrontsSpec pop k fronts) (weights : List α) :
    fronts = [] ∨ ∃ (init : List (List (Ind α))) (last : List (Ind α)) (kept dropped : List (Ind α × Dist α)),
      fronts = init ++ [last] ∧
      selFromFronts weights fronts k = init.flatten ++ kept.map (·.1) ∧
      (kept ++ dropped).Perm (last.zip (assignCrowdingDist (last.map (values weights)))) ∧
      (∀ p ∈ kept, ∀ q ∈ dropped, Dist.lt p.2 q.2 = false) ∧
      (∀ f ∈ init, ∀ x ∈ f, x ∈ selFromFronts weights fronts k) := by
  rcases cut_crowding m pop hlen k fronts hspec _ (lastDist_length weights fronts) with h | h
  · exact Or.inl h
  · obtain ⟨init, last, kept, dropped, h1, h2, h3, h4, h5⟩ := h
    refine Or.inr ⟨init, last, kept, dropped, h1, h2, ?_, h4, h5⟩
    have : lastDist weights fronts = assignCrowdingDist (last.map (values weights)) := by
      simp [lastDist, h1]
    rw [← this]; exact h3

/-- the hypotheses hold in a situation where the cut really drops somebody: one front of five mutually
non-dominated individuals, `k = 4`; the distances are `∞, 7/16, 9/16, 9/16, ∞`, the two extremes and the two
individuals at `9/16` are kept, the individual at `7/16` is dropped -/
example :
    let pop5 : List (Ind ℚ) := [⟨0, [0, 8]⟩, ⟨1, [1, 6]⟩, ⟨2, [2, 3]⟩, ⟨3, [5, 1]⟩, ⟨4, [8, 0]⟩]
    (∀ x ∈ pop5, x.w.length = 2) ∧ FrontsSpec pop5 4 [pop5] ∧
    assignCrowdingDist (pop5.map (values [1, 1])) = [none, some (7/16), some (9/16), some (9/16), none] ∧
    selFromFronts [1, 1] [pop5] 4 = [⟨0, [0, 8]⟩, ⟨4, [8, 0]⟩, ⟨2, [2, 3]⟩, ⟨3, [5, 1]⟩] := by
  intro pop5
  have hd5 : assignCrowdingDist (pop5.map (values [1, 1])) =
      [none, some (7/16), some (9/16), some (9/16), none] := by
    simp (config := { decide := true }) [pop5, assignCrowdingDist, objStep, sortCrowd, values, List.range,
      List.range.loop, List.zipIdx, List.mergeSort, List.MergeSort.Internal.splitInTwo, val, triples, tripleStep,
      Dist.add]
    norm_num
  refine ⟨by decide, ?_, hd5, ?_⟩
  · have : leading (peel domI pop5) 4 = [pop5] := by decide
    unfold FrontsSpec; rw [this]
    exact .cons (List.Perm.refl _) .nil
  · have e : selFromFronts [1, 1] [pop5] 4 =
        cutWith [pop5] (assignCrowdingDist (pop5.map (values [1, 1]))) 4 := rfl
    rw [e, hd5]
    norm_num [pop5, cutWith, sortByDistDesc, Dist.lt, List.mergeSort, List.MergeSort.Internal.splitInTwo, List.merge]

/-- `Dist.lt p q = false` means `q ≤ p` with `none` (= `inf`) on top. -/
theorem distLt_false_iff (p q : Dist α) :
    Dist.lt p q = false ↔ (p = none ∨ ∃ a b, p = some a ∧ q = some b ∧ b ≤ a) := by
  cases p <;> cases q <;> simp [Dist.lt]

/-- **standard back-end.**  `selNSGA2(pop, k, nd='standard')` is the cut applied to fronts that
meet the specification (C04.sortStd_eq_peel), so all theorems above apply to it. -/
theorem selNSGA2_standard (weights : List α) (pop : List (Ind α)) (hne : pop ≠ []) (m : Nat)
    (hlen : ∀ x ∈ pop, x.w.length = m) (k : Nat) :
    ∃ fronts, FrontsSpec pop k fronts ∧
      selNSGA2 weights pop k false = some (selFromFronts weights fronts k) := by
  obtain ⟨fronts, h1, h2⟩ := C04.sortStd_eq_peel pop hne m hlen k
  exact ⟨fronts, h2, by simp [selNSGA2, h1]⟩

example : exPop ≠ [] ∧ (∀ x ∈ exPop, x.w.length = 2) ∧
    selNSGA2 [1, -1] exPop 4 false = some [⟨0, [1, 2]⟩, ⟨3, [1, 2]⟩, ⟨1, [2, 1]⟩, ⟨4, [1, 1]⟩] := by
  have h : sortStd exPop 4 false = some [[⟨0, [1, 2]⟩, ⟨3, [1, 2]⟩, ⟨1, [2, 1]⟩], [⟨4, [1, 1]⟩]] := by decide
  refine ⟨by decide, by decide, ?_⟩
  simp [selNSGA2, h, selFromFronts, cutWith, assignCrowdingDist, objStep, sortCrowd, sortByDistDesc, values,
    List.range, List.range.loop, List.zipIdx]

/-- **log-time back-end (unfolding).**  `selNSGA2(pop, k, nd='log')` is the same cut applied to the
answer of `sortLogNondominated`. -/
theorem selNSGA2_log_partial (weights : List α) (pop : List (Ind α)) (k : Nat)
    (fronts : List (List (Ind α))) (h : sortLog pop k = some fronts) :
    selNSGA2 weights pop k true = some (selFromFronts weights fronts k) := by
  simp [selNSGA2, h]

example : sortLog ([⟨0, [1, 2]⟩, ⟨1, [0, 0]⟩] : List (Ind ℚ)) 2 = some [[⟨0, [1, 2]⟩], [⟨1, [0, 0]⟩]] := by
  simp [sortLog, logRanks, dset, dget, dkeys, dvalues, helperA, logFronts, logTruncate, logTruncate.go,
    List.modify, List.mergeSort, Py.tupleLt, isDominated, isDominatedLoop, bump]

/-- **log-time back-end.**  With at least two objectives `selNSGA2(pop, k, nd='log')` is the cut
applied to fronts that meet the specification (C04.sortLog_eq_peel), so all theorems above apply to
it as well: both back-ends give a selection satisfying the same contract. -/
theorem selNSGA2_log (weights : List α) (pop : List (Ind α)) (hne : pop ≠ []) (m : Nat) (hm : 2 ≤ m)
    (hlen : ∀ x ∈ pop, x.w.length = m) (k : Nat) :
    ∃ fronts, FrontsSpec pop k fronts ∧
      selNSGA2 weights pop k true = some (selFromFronts weights fronts k) := by
  obtain ⟨fronts, h1, h2⟩ := C04.sortLog_eq_peel pop m hm hne hlen k
  exact ⟨fronts, h2, by simp [selNSGA2, h1]⟩

example : exPop ≠ [] ∧ (2 : Nat) ≤ 2 ∧ (∀ x ∈ exPop, x.w.length = 2) := by decide

/-- **back-end agnostic contract**, in one statement: for any fronts meeting C04's specification the
selection has `min k n` members, is a sub-permutation of the input without repetition, and leaves
out nobody of a strictly better front than a selected individual. -/
theorem backend_agnostic (m : Nat) (pop : List (Ind α)) (hlen : ∀ x ∈ pop, x.w.length = m) (hnd : pop.Nodup)
    (k : Nat) (fronts : List (List (Ind α))) (hspec : FrontsSpec pop k fronts) (weights : List α) :
    (selFromFronts weights fronts k).length = min k pop.length ∧
    (selFromFronts weights fronts k).Subperm pop ∧ (selFromFronts weights fronts k).Nodup ∧
    (∀ x ∈ selFromFronts weights fronts k, ∀ y ∈ pop, y ∉ selFromFronts weights fronts k →
      depth domI pop x ≤ depth domI pop y) :=
  ⟨selection_size m pop hlen k fronts hspec weights,
   (selection_subperm m pop hlen k fronts hspec weights).1,
   (selection_subperm m pop hlen k fronts hspec weights).2 hnd,
   fun x hx y hy hyn => front_priority m pop hlen k fronts hspec weights x y hx hy hyn⟩

example : (∀ x ∈ exPop, x.w.length = 2) ∧ exPop.Nodup := by decide

/-! ### the crowding distance itself -/

/-- What the neighbour / range functions of the specification mean: `predOf col v` is the greatest
value of the column strictly below `v`, `succOf col v` the least one strictly above, `minOf` /
`maxOf` the extremes of the column. -/
theorem neighbours_spec (col : List α) (v x : α) :
    (predOf col v = some x ↔ x ∈ col ∧ x < v ∧ ∀ u ∈ col, u < v → u ≤ x) ∧
    (succOf col v = some x ↔ x ∈ col ∧ v < x ∧ ∀ u ∈ col, v < u → x ≤ u) ∧
    (minOf col = some x ↔ x ∈ col ∧ ∀ u ∈ col, x ≤ u) ∧
    (maxOf col = some x ↔ x ∈ col ∧ ∀ u ∈ col, u ≤ x) :=
  ⟨predOf_eq_some_iff col v x, succOf_eq_some_iff col v x, minOf_eq_some_iff col x, maxOf_eq_some_iff col x⟩

/-- **crowding formula.**  On a front whose objective values are pairwise distinct in every
objective, `assignCrowdingDist` gives individual `j` the distance `d` with: `d = ∞` when `j` is an
extreme (least or greatest value) of some objective; otherwise `d` is the sum over the objectives of
(least larger value − greatest smaller value) / (nobj · (max − min)).  Nothing in the right-hand
sides depends on the order of the front. -/
theorem crowding_spec (vals : List (List α))
    (hdist : ∀ i < (vals.headD []).length, (vals.map (fun v => val v i)).Nodup)
    (j : Nat) (hj : j < vals.length) :
    ∃ d, (assignCrowdingDist vals)[j]? = some d ∧
      ((∃ i < (vals.headD []).length,
          (∀ u ∈ vals.map (fun v => val v i), val (vals.getD j []) i ≤ u) ∨
          (∀ u ∈ vals.map (fun v => val v i), u ≤ val (vals.getD j []) i)) → d = none) ∧
      ((∀ i < (vals.headD []).length,
          (∃ u ∈ vals.map (fun v => val v i), u < val (vals.getD j []) i) ∧
          (∃ u ∈ vals.map (fun v => val v i), val (vals.getD j []) i < u)) →
        d = some (((List.range (vals.headD []).length).map (fun i =>
          ((succOf (vals.map (fun v => val v i)) (val (vals.getD j []) i)).getD (val (vals.getD j []) i) -
           (predOf (vals.map (fun v => val v i)) (val (vals.getD j []) i)).getD (val (vals.getD j []) i)) /
          (((vals.headD []).length : α) *
            ((maxOf (vals.map (fun v => val v i))).getD (val (vals.getD j []) i) -
             (minOf (vals.map (fun v => val v i))).getD (val (vals.getD j []) i))))).sum)) := by
  refine ⟨crowdSpec vals j, assignCrowdingDist_spec vals hdist j hj, ?_, ?_⟩
  · rintro ⟨i, hi, hext⟩
    have hmem : val (vals.getD j []) i ∈ vals.map (fun v => val v i) := by
      have e : vals.getD j [] = vals[j] := by simp [List.getD_eq_getElem?_getD, hj]
      rw [e]; exact List.mem_map_of_mem (List.getElem_mem hj)
    exact crowdPartial_none vals _ j _ ⟨i, hi, (contrib_eq_none_iff _ _ _ hmem).2 hext⟩
  · intro hint
    have hmem : ∀ i, val (vals.getD j []) i ∈ vals.map (fun v => val v i) := by
      intro i
      have e : vals.getD j [] = vals[j] := by simp [List.getD_eq_getElem?_getD, hj]
      rw [e]; exact List.mem_map_of_mem (List.getElem_mem hj)
    have := crowdPartial_some vals (vals.headD []).length j (vals.headD []).length (by
      intro i hi hc
      obtain ⟨⟨u, hu, hlt⟩, ⟨u', hu', hlt'⟩⟩ := hint i hi
      rcases (contrib_eq_none_iff _ _ _ (hmem i)).1 hc with h | h
      · exact absurd (h u hu) (not_le.2 hlt)
      · exact absurd (h u' hu') (not_le.2 hlt'))
    simpa [crowdSpec, gap] using this

example : (∀ i < (([[0, 4], [1, 3], [2, 1], [4, 0]] : List (List ℚ)).headD []).length,
    (([[0, 4], [1, 3], [2, 1], [4, 0]] : List (List ℚ)).map (fun v => val v i)).Nodup) ∧
    (1 : Nat) < ([[0, 4], [1, 3], [2, 1], [4, 0]] : List (List ℚ)).length := by
  refine ⟨?_, by decide⟩
  intro i hi
  have : i = 0 ∨ i = 1 := by simp at hi; omega
  rcases this with rfl | rfl <;> decide

end C05
