/-
C14 — Elitist and multi-objective CMA-ES never lose the best and keep factors exact.
Property theorems only; the model is `DeapModel/Core/CmaElitist.lean`, helper lemmas are in
`DeapModel/Lemmas/C14*.lean`.

Status: **partial**.  `numpy.linalg.cholesky`, `numpy.linalg.inv` and IEEE rounding are parameters /
trusted (validated numerically by the harness); the non-dominated sort and the hypervolume
indicator are parameters of the Float model of `update` but are the proved C04 / C15 models in the
exact composition of section 7; everything stated here is proved for all inputs over ℝ (matrix part) or over an arbitrary
totally pre-ordered fitness type (elitism, bookkeeping).  Whole-history invariants:
`elitist_never_worse`, `active_elitist_never_worse`, `psucc_sigma_history`,
`active_psucc_sigma_history`, `mo_psucc_sigma_history`, `onepl_factor_history`,
`active_inverse_history`, `mo_inverse_history`.

Composition (sections 7, 8): `mo_select_library` instantiates `_select` with the C04 model of
`sortLogNondominated` and the C15 model of the hypervolume indicator (`Core/CmaSelectLib.lean`) and
proves ranks-then-least-contributor from `C04.sortLog_eq_peel` and `C15.indicator_least`, exact
regime, without any contract hypothesis on the two components; `elitist_never_worse_lex` /
`active_elitist_never_worse_lex` / `active_elitist_never_worse_constrained` are the whole-history
elitism theorems with C01's models of `Fitness` / `ConstrainedFitness` comparison (lexicographic order
of weighted values, any number of objectives) in place of an abstract total preorder.
-/
import DeapModel.Core.CmaElitist
import DeapModel.RealInst
import DeapModel.Lemmas.C14Elitist
import DeapModel.Lemmas.C14Select
import DeapModel.Lemmas.C14Align
import DeapModel.Lemmas.C14Bridge
import DeapModel.Lemmas.C14Matrix
import DeapModel.Lemmas.C14Update
import DeapModel.Lemmas.C14Shapes
import DeapModel.Lemmas.C14Compose
import DeapModel.Props.C01
import Mathlib.LinearAlgebra.Matrix.DotProduct

set_option linter.unusedSectionVars false
set_option linter.unusedVariables false
set_option linter.unusedSimpArgs false
set_option linter.unnecessarySeqFocus false

namespace C14
open CmaElitist C14Elitist

/-! ## 1. Elitism of the (1+λ) strategies (exact; any fitness type with a total preorder) -/
section Elitism
variable {φ α : Type} [RealLike α]

/-- One `StrategyOnePlusLambda.update` on a non-empty evaluated population: it succeeds; the new
parent is at least as good as the old parent and as every offspring; the parent is replaced only
by an offspring (genome and fitness together) that is at least as good as it, and kept only when
every offspring is strictly worse (the code's `<=` rule). -/
theorem elitist_step {ord : FitOrd φ} (h : TotalPre ord) (chol : List (List α) → List (List α))
    (s : OnePlus.State φ α) (pop : List (Ind φ α)) (hne : pop ≠ []) :
    ∃ o, OnePlus.update ord chol s pop = some o ∧
      ord.le s.parent.fit o.st.parent.fit = true ∧
      (∀ i ∈ pop, ord.le i.fit o.st.parent.fit = true) ∧
      (o.replaced = true → o.st.parent ∈ pop) ∧
      (o.replaced = false → o.st.parent = s.parent ∧ ∀ i ∈ pop, ord.le s.parent.fit i.fit = false) := by
  obtain ⟨o, h1, h2, h3, h4, h5, _⟩ := update_parent h chol s pop hne
  exact ⟨o, h1, h2, h3, h4, h5⟩

/-- Over ANY sequence of update rounds (every prefix of a history is itself such a sequence): the
run succeeds, the parent's fitness never got worse, it is at least as good as every fitness
evaluated so far, and the parent — id, genome and fitness together — is the initial parent or one
of the evaluated individuals, i.e. its fitness *is* the best evaluated so far and its genome is the
one that obtained it. -/
theorem elitist_never_worse {ord : FitOrd φ} (h : TotalPre ord) (chol : List (List α) → List (List α))
    (s : OnePlus.State φ α) (rounds : List (List (Ind φ α))) (hne : ∀ p ∈ rounds, p ≠ []) :
    ∃ s', OnePlus.run ord chol s rounds = some s' ∧
      ord.le s.parent.fit s'.parent.fit = true ∧
      (∀ p ∈ rounds, ∀ i ∈ p, ord.le i.fit s'.parent.fit = true) ∧
      (s'.parent = s.parent ∨ ∃ p ∈ rounds, s'.parent ∈ p) := by
  obtain ⟨s', h1, h2, h3, h4, _⟩ := run_invariant h chol s rounds hne
  exact ⟨s', h1, h2, h3, h4⟩

/-- The same for one `StrategyActiveOnePlusLambda.update`: only valid (evaluated) individuals
compete; without any the parent is untouched; otherwise the parent has a fitness at least as good
as every valid offspring and as the old parent's, and it is the old parent or one of the valid
offspring (id, genome, fitness together). -/
theorem active_elitist_step {ord : FitOrd φ} (h : TotalPre ord)
    (inv : Nat → List (List α) → Option (List (List α))) (s : Active.State φ α)
    (pop : List (Active.AInd φ α)) :
    ((∀ i ∈ pop, i.fit = none) → triple (Active.update ord inv s pop).st = triple s) ∧
    ((∃ i ∈ pop, i.fit.isSome = true) → ∃ f, (Active.update ord inv s pop).st.parentFit = some f ∧
      (∀ i ∈ pop, ∀ fi, i.fit = some fi → ord.le fi f = true) ∧
      (∀ pf, s.parentFit = some pf → ord.le pf f = true) ∧
      (triple (Active.update ord inv s pop).st = triple s ∨
        ∃ i ∈ pop, i.fit = some f ∧ triple (Active.update ord inv s pop).st = (i.id, i.x, i.fit))) := by
  obtain ⟨u1, u2⟩ := active_update_parent h inv s pop
  constructor
  · intro hall
    apply u1
    apply List.eq_nil_iff_forall_not_mem.2
    rintro ⟨i, f⟩ hm
    have := mem_validOf.1 hm
    rw [hall i this.1] at this; cases this.2
  · rintro ⟨i, hi, hs⟩
    obtain ⟨fi, hfi⟩ := Option.isSome_iff_exists.1 hs
    have hne : Active.validOf pop ≠ [] := List.ne_nil_of_mem (mem_validOf.2 ⟨hi, hfi⟩)
    obtain ⟨f, f1, f2, f3, f4⟩ := u2 hne
    exact ⟨f, f1, fun j hj fj hfj => f2 j fj (mem_validOf.2 ⟨hj, hfj⟩), f3, f4⟩

/-- Over any sequence of rounds of the active strategy. -/
theorem active_elitist_never_worse {ord : FitOrd φ} (h : TotalPre ord)
    (inv : Nat → List (List α) → Option (List (List α))) (s : Active.State φ α)
    (rounds : List (List (Active.AInd φ α))) :
    (∀ pf, s.parentFit = some pf →
      ∃ f, (Active.run ord inv s rounds).parentFit = some f ∧ ord.le pf f = true) ∧
    (∀ p ∈ rounds, ∀ i ∈ p, ∀ fi, i.fit = some fi →
      ∃ f, (Active.run ord inv s rounds).parentFit = some f ∧ ord.le fi f = true) ∧
    (triple (Active.run ord inv s rounds) = triple s ∨
      ∃ p ∈ rounds, ∃ i ∈ p, i.fit.isSome = true ∧
        triple (Active.run ord inv s rounds) = (i.id, i.x, i.fit)) :=
  active_run_invariant h inv s rounds

end Elitism

/-- A concrete total preorder: integers with `≤`/`<` (the hypotheses `TotalPre` are satisfiable). -/
def intOrd : FitOrd Int := ⟨fun a b => decide (a ≤ b), fun a b => decide (a < b)⟩

theorem intOrd_total : TotalPre intOrd :=
  ⟨fun a b => by simp [intOrd]; omega, fun a b c => by simp [intOrd]; omega,
   fun a b => by simp [intOrd]; by_cases h : a < b <;> simp [h] <;> omega⟩

/-! ## 2. Multi-objective selection and per-parent bookkeeping (exact, list-indexing) -/
section MOBook
open MO C14Select C14Align
variable {ι : Type}

/-- With at most `mu` candidates everything is kept (cma.py:434-435). -/
theorem mo_select_small (mu : Nat) (fronts : List (List ι)) (indicator : List ι → Nat)
    (cands : List ι) (h : cands.length ≤ mu) :
    selectFronts mu fronts indicator cands = some (cands, []) := by
  simp [selectFronts, h]

/-- `_select` in closed form, for more than `mu` candidates sorted into fronts that hold more than
`mu` individuals in total, and an indicator that answers an index inside the front it is given
(`numpy.argmax` always does): with `j` = the number of leading fronts that fit entirely,
* if they fill `mu` exactly, they are the chosen ones and everything else is not chosen;
* otherwise front `j` is the mid front, it is longer than the `k = mu - |whole|` free places, and the
  chosen individuals are the whole fronts followed by what the least-contributor loop
  (`dropLeast`: remove the indicator's pick, `|mid| - k` times) leaves of it; the not-chosen ones
  are the later fronts followed by the discarded individuals in the order of their removal. -/
theorem mo_rank_then_hv (mu : Nat) (fronts : List (List ι)) (indicator : List ι → Nat)
    (cands : List ι) (hc : mu < cands.length) (hf : mu < fronts.flatten.length)
    (hind : ∀ l, l ≠ [] → indicator l < l.length) :
    let j := wholeCount mu fronts 0
    let whole := (fronts.take j).flatten
    whole.length ≤ mu ∧
    (whole.length = mu → selectFronts mu fronts indicator cands = some (whole, (fronts.drop j).flatten)) ∧
    (whole.length < mu → ∃ mid rest mid' removed,
        fronts.drop j = mid :: rest ∧ mu - whole.length < mid.length ∧
        dropLeast indicator (mid.length - (mu - whole.length)) mid rest.flatten
          = some (mid', rest.flatten ++ removed) ∧
        mid'.length = mu - whole.length ∧ (mid' ++ removed).Perm mid ∧
        selectFronts mu fronts indicator cands = some (whole ++ mid', rest.flatten ++ removed)) := by
  intro j whole
  have hfit : whole.length ≤ mu := by
    have := whole_fit mu fronts 0 (Nat.zero_le _)
    rw [Nat.zero_add] at this; exact this
  have hspec := fill_spec mu fronts [] [] (Nat.zero_le _)
  simp only [List.length_nil, List.nil_append] at hspec
  have hnc : ¬ cands.length ≤ mu := by omega
  refine ⟨hfit, ?_, ?_⟩
  · intro heq
    unfold selectFronts
    rw [if_neg hnc]
    cases hd : fronts.drop j with
    | nil =>
      have : fillFronts mu fronts [] none [] false = (whole, none, []) := by rw [hspec]; simp [j, whole, hd]
      simp [this, heq, whole]
    | cons f rest =>
      have : fillFronts mu fronts [] none [] false = (whole, none, (f :: rest).flatten) := by
        rw [hspec]; simp only [j] at hd; simp only [hd]
        have : ¬ (whole.length < mu) := by omega
        simp only [whole, j] at this; rw [if_neg this]
      simp [this, heq]
  · intro hlt
    cases hd : fronts.drop j with
    | nil =>
      exfalso
      have hj : fronts.length ≤ j := by
        by_contra hcon
        have : (fronts.drop j).length = fronts.length - j := List.length_drop
        rw [hd] at this; simp at this; omega
      have : whole = fronts.flatten := by simp [whole, List.take_of_length_le hj]
      rw [this] at hlt; omega
    | cons mid rest =>
      have hnext := whole_next mu fronts 0 mid rest hd
      simp only [Nat.zero_add] at hnext
      have hfill : fillFronts mu fronts [] none [] false = (whole, some mid, rest.flatten) := by
        rw [hspec]; simp only [j] at hd; simp only [hd]
        have : whole.length < mu := hlt
        simp only [whole, j] at this; rw [if_pos this]
      have hk : mu - whole.length < mid.length := by
        have : mu < whole.length + mid.length := hnext
        omega
      obtain ⟨mid', removed, d1, d2, d3, d4⟩ :=
        dropLeast_spec indicator hind (mid.length - (mu - whole.length)) mid rest.flatten (by omega)
      refine ⟨mid, rest, mid', removed, rfl, hk, d1, by omega, d4, ?_⟩
      unfold selectFronts
      rw [if_neg hnc]
      simp only [hfill]
      have hpos : 0 < mu - whole.length := by omega
      rw [if_pos hpos]
      simp only [d1]

/-- `_select` keeps exactly `mu` parents and loses nobody: chosen and not-chosen together are a
permutation of the individuals in the fronts. -/
theorem mo_select_count (mu : Nat) (fronts : List (List ι)) (indicator : List ι → Nat)
    (cands : List ι) (hc : mu < cands.length) (hf : mu < fronts.flatten.length)
    (hind : ∀ l, l ≠ [] → indicator l < l.length) :
    ∃ chosen notChosen, selectFronts mu fronts indicator cands = some (chosen, notChosen) ∧
      chosen.length = mu ∧ (chosen ++ notChosen).Perm fronts.flatten := by
  obtain ⟨h1, h2, h3⟩ := mo_rank_then_hv mu fronts indicator cands hc hf hind
  rcases Nat.lt_or_ge ((fronts.take (wholeCount mu fronts 0)).flatten.length) mu with hlt | hge
  · obtain ⟨mid, rest, mid', removed, e1, e2, e3, e4, e5, e6⟩ := h3 hlt
    refine ⟨_, _, e6, by rw [List.length_append, e4]; omega, ?_⟩
    have : fronts.flatten = (fronts.take (wholeCount mu fronts 0)).flatten ++ (mid ++ rest.flatten) := by
      conv_lhs => rw [← List.take_append_drop (wholeCount mu fronts 0) fronts]
      rw [List.flatten_append, e1, List.flatten_cons]
    rw [this, List.append_assoc]
    apply List.Perm.append_left
    have p1 : (mid' ++ (rest.flatten ++ removed)).Perm ((mid' ++ removed) ++ rest.flatten) := by
      rw [List.append_assoc]; exact List.Perm.append_left _ List.perm_append_comm
    exact p1.trans (List.Perm.append_right _ e5)
  · have heq : (fronts.take (wholeCount mu fronts 0)).flatten.length = mu := Nat.le_antisymm h1 hge
    refine ⟨_, _, h2 heq, heq, ?_⟩
    rw [← List.flatten_append, List.take_append_drop]

/-- One step of the least-contributor loop is exactly: ask the indicator, discard that individual
(cma.py:467-468). -/
theorem mo_drop_step (indicator : List ι → Nat) (cnt : Nat) (mid nc : List ι)
    (h : indicator mid < mid.length) :
    dropLeast indicator (cnt + 1) mid nc =
      dropLeast indicator cnt (mid.eraseIdx (indicator mid)) (nc ++ [mid[indicator mid]]) := by
  simp [dropLeast, List.getElem?_eq_getElem h]

end MOBook

section MOAlign
open MO C14Align
variable {α : Type} [RealLike α]

/-- Alignment after `update` (cma.py:545-550): the new parents are the chosen individuals, all
five per-parent lists have one entry per new parent, and entry `i` belongs to new parent `i`:
* a surviving old parent (tag `("p", j)`) keeps parent `j`'s own `A`, `invCholesky`, `pc` and gets
  parent `j`'s success/failure-adjusted `psucc` and `sigma`;
* an offspring (tag `("o", j)`) gets the values `offspringTmp` derives from parent `j`'s
  *pre-update* `sigma`, `A`, `invCholesky`, `pc`, `psucc` (see `mo_offspring_values`). -/
theorem mo_alignment (s : State α) (chosen notChosen : List (MInd α)) (i : Nat) (hi : i < chosen.length) :
    let s' := realign s chosen notChosen
    let adj := adjustAll s.prm chosen notChosen s.psucc s.sigmas
    s'.parents = chosen ∧
    s'.sigmas.length = chosen.length ∧ s'.A.length = chosen.length ∧ s'.invCh.length = chosen.length ∧
    s'.pc.length = chosen.length ∧ s'.psucc.length = chosen.length ∧
    (chosen[i].off = false →
      s'.sigmas[i]? = some (adj.2.getD chosen[i].pidx 0) ∧
      s'.psucc[i]? = some (adj.1.getD chosen[i].pidx 0) ∧
      s'.A[i]? = some (s.A.getD chosen[i].pidx []) ∧
      s'.invCh[i]? = some (s.invCh.getD chosen[i].pidx []) ∧
      s'.pc[i]? = some (s.pc.getD chosen[i].pidx [])) ∧
    (chosen[i].off = true →
      s'.sigmas[i]? = some (offspringTmp s chosen[i]).sigma ∧
      s'.psucc[i]? = some (offspringTmp s chosen[i]).psucc ∧
      s'.A[i]? = some (offspringTmp s chosen[i]).A ∧
      s'.invCh[i]? = some (offspringTmp s chosen[i]).invCh ∧
      s'.pc[i]? = some (offspringTmp s chosen[i]).pc) := by
  dsimp only [realign]
  refine ⟨rfl, pick_length _ _ _ _, pick_length _ _ _ _, pick_length _ _ _ _, pick_length _ _ _ _,
    pick_length _ _ _ _, ?_, ?_⟩
  · intro hoff
    refine ⟨?_, ?_, ?_, ?_, ?_⟩ <;>
    · show (pick chosen (chosen.map _) _ _)[i]? = _
      rw [pick_getElem? _ _ _ _ i hi]; simp [hoff]
  · intro hoff
    refine ⟨?_, ?_, ?_, ?_, ?_⟩ <;>
    · show (pick chosen (chosen.map _) _ _)[i]? = _
      rw [pick_getElem? _ _ _ _ i hi]; simp [hoff]

/-- What an entering offspring of parent `j` receives: the success-updated `psucc` and `sigma` of
parent `j`'s pre-update values, the evolution path built from parent `j`'s path, genome and step
size, and the rank-one update of parent `j`'s factor pair (cma.py:517-528). -/
theorem mo_offspring_values (s : State α) (ind : MInd α) :
    let p := s.prm
    let j := ind.pidx
    let ps := (1 - p.cp) * s.psucc.getD j 0 + p.cp
    (offspringTmp s ind).psucc = ps ∧
    (offspringTmp s ind).sigma
      = s.sigmas.getD j 0 * RealLike.exp ((ps - p.ptarg) / (p.d * (1 - p.ptarg))) ∧
    (ps < p.pthresh →
      (offspringTmp s ind).pc
        = LA.vadd (LA.vscale (1 - p.cc) (s.pc.getD j []))
            (LA.vdivs (LA.vscale (RealLike.sqrt (p.cc * (2 - p.cc)))
              (LA.vsub ind.x (s.parents.getD j ⟨0, [], [], false, 0⟩).x)) (s.sigmas.getD j 0)) ∧
      ((offspringTmp s ind).invCh, (offspringTmp s ind).A)
        = rankOneUpdate s.dim (s.invCh.getD j []) (s.A.getD j []) (1 - p.ccov) p.ccov
            (offspringTmp s ind).pc) ∧
    (¬ ps < p.pthresh →
      (offspringTmp s ind).pc = LA.vscale (1 - p.cc) (s.pc.getD j []) ∧
      ((offspringTmp s ind).invCh, (offspringTmp s ind).A)
        = rankOneUpdate s.dim (s.invCh.getD j []) (s.A.getD j []) (1 - p.ccov + p.cc * (2 - p.cc)) p.ccov
            (offspringTmp s ind).pc) := by
  intro p j ps
  unfold offspringTmp
  by_cases h : ps < p.pthresh
  · simp only [p, j, ps] at h ⊢
    rw [if_pos h]
    exact ⟨rfl, rfl, fun _ => ⟨rfl, rfl⟩, fun hn => absurd h hn⟩
  · simp only [p, j, ps] at h ⊢
    rw [if_neg h]
    exact ⟨rfl, rfl, fun hp => absurd hp h, fun _ => ⟨rfl, rfl⟩⟩

/-- The adjusted `psucc`/`sigma` of old parent `j` are the scalar success rule folded over exactly
the offspring of `j`: first the chosen ones (success), then the not-chosen ones (failure). -/
theorem mo_adjust_spec (p : Params α) (chosen notChosen : List (MInd α)) (psucc sigmas : List α)
    (j : Nat) (h1 : j < psucc.length) (h2 : j < sigmas.length) :
    ((adjustAll p chosen notChosen psucc sigmas).1.getD j 0,
     (adjustAll p chosen notChosen psucc sigmas).2.getD j 0)
      = adjFold p j (chosen.map (fun c => (c, true)) ++ notChosen.map (fun c => (c, false)))
          (psucc.getD j 0, sigmas.getD j 0) := by
  rw [adjustAll_eq]; exact (adjLists_spec p j _ psucc sigmas h1 h2).2

/-- `update` is `_select` on offspring + old parents followed by the realignment; its result
therefore has the alignment of `mo_alignment` for the selected individuals. -/
theorem mo_update_alignment (s : State α) (nobj : Nat) (sortND : List (MInd α) → List (List (MInd α)))
    (indicator : List (MInd α) → List α → Nat) (population : List (MInd α)) (s' : State α)
    (nc : List (MInd α)) (h : update s nobj sortND indicator population = some (s', nc)) :
    ∃ chosen, select s.prm.mu nobj sortND indicator (population ++ s.parents) = some (chosen, nc) ∧
      s' = realign s chosen nc ∧ s'.parents = chosen := by
  unfold update at h
  cases hs : select s.prm.mu nobj sortND indicator (population ++ s.parents) with
  | none => rw [hs] at h; cases h
  | some r =>
    obtain ⟨chosen, notChosen⟩ := r
    rw [hs] at h
    simp only [Option.some.injEq, Prod.mk.injEq] at h
    obtain ⟨rfl, rfl⟩ := h
    exact ⟨chosen, rfl, rfl, rfl⟩

end MOAlign

section MOTags
open MO C14Align
variable {α : Type} [RealLike α]

/-! ### Alignment by identity, for arbitrary `_ps` tags on the initial population

`mo_alignment` speaks through the tags the chosen individuals carry.  The theorems below close the
loop through `generate`: because it overwrites the tag of EVERY parent (`retag`), the tags that
`update` reads are the positions of the parents in the strategy's own list, whatever `_ps` the
individuals carried when they were handed to `__init__` (a restart from the parents or the last
offspring of another `StrategyMultiObjective`).  A `generate` that only tags the individuals
lacking `_ps` falsifies `retag_setTags`, hence `mo_alignment_any_initial_tags`. -/

/-- What one generate/update round selects (any scalar type): members of the offspring list or
re-tagged parents, provided the non-dominated sort only returns individuals it was given. -/
theorem update_chosen_mem' (s : State α) (nobj : Nat) (sortND : List (MInd α) → List (List (MInd α)))
    (indicator : List (MInd α) → List α → Nat) (pop : List (MInd α))
    (hsort : ∀ l, ∀ f ∈ sortND l, ∀ x ∈ f, x ∈ l) (s' : State α) (nc : List (MInd α))
    (h : update s nobj sortND indicator pop = some (s', nc)) :
    ∃ chosen, s' = realign s chosen nc ∧ ∀ c ∈ chosen, c ∈ pop ∨ c ∈ s.parents := by
  obtain ⟨chosen, hsel, hre, _⟩ := mo_update_alignment s nobj sortND indicator pop s' nc h
  refine ⟨chosen, hre, fun c hc => ?_⟩
  unfold select at hsel
  have := C14Shapes.selectFronts_mem _ _ _ _ _ _ hsel c hc
  have hcand : c ∈ pop ++ s.parents := by
    rcases this with h1 | h1
    · exact h1
    · obtain ⟨f, hf, hcf⟩ := List.mem_flatten.1 h1
      exact hsort _ f hf c hcf
  exact List.mem_append.1 hcand

/-- **Alignment by identity, arbitrary initial tags** (cma.py:412-413 with 497-550).  Let the parents
of `s` carry ANY tags (`setTags s tags`: stale `("p", j)` / `("o", j)` of an earlier strategy, in or
out of range).  One generate/update round gives exactly the result it gives without those tags, all
five per-parent lists have one entry per new parent, and entry `i` is derived from the history of the
`i`-th surviving individual itself:
* a new parent that is old parent `k` (the same individual: position `k` of the strategy's own list)
  keeps position `k`'s `A`, `invCholesky`, `pc`, and its `psucc` / `sigma` are position `k`'s values
  folded with the success rule over exactly the offspring of `k` (chosen = success, not chosen =
  failure);
* a new parent that is an offspring (tag `("o", j)` written by `generate`) carries
  `offspringTmp s` of it: the values derived from position `j`'s pre-update state
  (`mo_offspring_values`, `mo_offspring_factors`), which reads no parent tag. -/
theorem mo_alignment_any_initial_tags (s : State α) (tags : List (Bool × Nat)) (nobj : Nat)
    (sortND : List (MInd α) → List (List (MInd α))) (indicator : List (MInd α) → List α → Nat)
    (hsort : ∀ l, ∀ f ∈ sortND l, ∀ x ∈ f, x ∈ l)
    (pop : List (MInd α)) (hpop : ∀ o ∈ pop, o.off = true)
    (hl1 : s.psucc.length = s.parents.length) (hl2 : s.sigmas.length = s.parents.length)
    (s' : State α) (nc : List (MInd α))
    (h : MO.round (setTags s tags) nobj sortND indicator pop = some (s', nc)) :
    MO.round s nobj sortND indicator pop = some (s', nc) ∧
    s'.sigmas.length = s'.parents.length ∧ s'.A.length = s'.parents.length ∧
    s'.invCh.length = s'.parents.length ∧ s'.pc.length = s'.parents.length ∧
    s'.psucc.length = s'.parents.length ∧
    ∀ i (hi : i < s'.parents.length),
      (s'.parents[i] ∈ pop ∧
        s'.sigmas[i]? = some (offspringTmp s s'.parents[i]).sigma ∧
        s'.psucc[i]? = some (offspringTmp s s'.parents[i]).psucc ∧
        s'.A[i]? = some (offspringTmp s s'.parents[i]).A ∧
        s'.invCh[i]? = some (offspringTmp s s'.parents[i]).invCh ∧
        s'.pc[i]? = some (offspringTmp s s'.parents[i]).pc) ∨
      (∃ k, ∃ hk : k < s.parents.length,
        s'.parents[i] = { s.parents[k] with off := false, pidx := k } ∧
        s'.A[i]? = some (s.A.getD k []) ∧ s'.invCh[i]? = some (s.invCh.getD k []) ∧
        s'.pc[i]? = some (s.pc.getD k []) ∧
        ∃ ps sg, s'.psucc[i]? = some ps ∧ s'.sigmas[i]? = some sg ∧
          (ps, sg) = adjFold s.prm k (s'.parents.map (fun c => (c, true)) ++ nc.map (fun c => (c, false)))
            (s.psucc.getD k 0, s.sigmas.getD k 0)) := by
  unfold MO.round at h ⊢
  rw [retag_setTags] at h
  refine ⟨h, ?_⟩
  obtain ⟨chosen, hre, hmem⟩ := update_chosen_mem' (retag s) nobj sortND indicator pop hsort s' nc h
  subst hre
  have hpar : (realign (retag s) chosen nc).parents = chosen := rfl
  have hlen : ∀ i (hi : i < chosen.length), _ := fun i hi => mo_alignment (retag s) chosen nc i hi
  refine ⟨?_, ?_, ?_, ?_, ?_, ?_⟩
  · rw [hpar]; dsimp only [realign]; exact pick_length _ _ _ _
  · rw [hpar]; dsimp only [realign]; exact pick_length _ _ _ _
  · rw [hpar]; dsimp only [realign]; exact pick_length _ _ _ _
  · rw [hpar]; dsimp only [realign]; exact pick_length _ _ _ _
  · rw [hpar]; dsimp only [realign]; exact pick_length _ _ _ _
  intro i hi
  have hi' : i < chosen.length := hi
  obtain ⟨_, _, _, _, _, _, hp, ho⟩ := hlen i hi'
  show ((chosen[i] ∈ pop ∧ _) ∨ _)
  rcases hmem _ (List.getElem_mem hi') with hin | hin
  · left
    obtain ⟨e1, e2, e3, e4, e5⟩ := ho (hpop _ hin)
    rw [offspringTmp_retag] at e1 e2 e3 e4 e5
    exact ⟨hin, e1, e2, e3, e4, e5⟩
  · right
    obtain ⟨k, hk, hke⟩ := List.getElem_of_mem hin
    have hk' : k < s.parents.length := by rw [retag_parents_length] at hk; exact hk
    rw [retag_getElem s k hk'] at hke
    have hoff : chosen[i].off = false := by rw [← hke]
    have hpidx : chosen[i].pidx = k := by rw [← hke]
    obtain ⟨e1, e2, e3, e4, e5⟩ := hp hoff
    rw [hpidx] at e1 e2 e3 e4 e5
    refine ⟨k, hk', hke.symm, e3, e4, e5, _, _, e2, e1, ?_⟩
    exact mo_adjust_spec (retag s).prm chosen nc (retag s).psucc (retag s).sigmas k
      (by show k < s.psucc.length; omega) (by show k < s.sigmas.length; omega)

/-- **Whole histories, any initial tags**: the state after one or more generate/update rounds does not depend on the tags
the initial parents carried. -/
theorem mo_run_tag_independent (s : State α) (tags : List (Bool × Nat)) (nobj : Nat)
    (sortND : List (MInd α) → List (List (MInd α))) (indicator : List (MInd α) → List α → Nat)
    (pop : List (MInd α)) (rest : List (List (MInd α))) :
    run (setTags s tags) nobj sortND indicator (pop :: rest) = run s nobj sortND indicator (pop :: rest) := by
  simp only [run, retag_setTags]

/-- `__init__` satisfies the length hypotheses of `mo_alignment_any_initial_tags`, for any tags. -/
example (population : List (MInd α)) (sigma : α) (dim : Nat) (prm : Params α) :
    (init population sigma dim prm).psucc.length = (init population sigma dim prm).parents.length ∧
    (init population sigma dim prm).sigmas.length = (init population sigma dim prm).parents.length := by
  simp [init]

/-- The hypotheses of `mo_alignment_any_initial_tags` are satisfiable: one parent carrying the stale
tag `("o", 5)` of an earlier strategy, an identity sort, one tagged offspring, `mu = 2`. -/
example :
    (MO.round (setTags (⟨2, [⟨0, [0, 0], [1, 1], false, 0⟩], [1], [[[1, 0], [0, 1]]], [[[1, 0], [0, 1]]],
        [[0, 0]], [1 / 2], ⟨2, 1, 2, 1 / 5, 1 / 10, 1 / 2, 1 / 5, 11 / 25⟩⟩ : State ℝ) [(true, 5)]) 2
      (fun l => [l]) (fun _ _ => 0) [⟨1, [1, 0], [2, 1], true, 0⟩]).isSome = true ∧
    (∀ l : List (MInd ℝ), ∀ f ∈ (fun l => [l]) l, ∀ x ∈ f, x ∈ l) ∧
    (∀ o ∈ ([⟨1, [1, 0], [2, 1], true, 0⟩] : List (MInd ℝ)), o.off = true) := by
  refine ⟨?_, ?_, ?_⟩
  · simp [MO.round, update, select, selectFronts, retag, setTags]
  · intro l f hf x hx; simp at hf; subst hf; exact hx
  · intro o ho; simp at ho; subst ho; rfl

end MOTags

/-! ## 3. Success rate in `[0,1]`, step size positive (over ℝ) -/
section Rates
variable {φ : Type}

theorem unit_convex (cp ps q : ℝ) (h0 : 0 ≤ cp) (h1 : cp ≤ 1) (p0 : 0 ≤ ps) (p1 : ps ≤ 1)
    (q0 : 0 ≤ q) (q1 : q ≤ 1) : 0 ≤ (1 - cp) * ps + cp * q ∧ (1 - cp) * ps + cp * q ≤ 1 := by
  constructor
  · have := mul_nonneg (sub_nonneg.2 h1) p0; have := mul_nonneg h0 q0; linarith
  · have : (1 - cp) * ps ≤ (1 - cp) * 1 := mul_le_mul_of_nonneg_left p1 (sub_nonneg.2 h1)
    have : cp * q ≤ cp * 1 := mul_le_mul_of_nonneg_left q1 h0
    linarith

theorem ratio_unit (k m : Nat) (hk : k ≤ m) (hm : 0 < m) :
    (0 : ℝ) ≤ (k : ℝ) / (m : ℝ) ∧ (k : ℝ) / (m : ℝ) ≤ 1 := by
  have hm' : (0 : ℝ) < m := by exact_mod_cast hm
  exact ⟨div_nonneg (Nat.cast_nonneg k) hm'.le, (div_le_one hm').2 (by exact_mod_cast hk)⟩

/-- `psucc` stays in `[0,1]` and `sigma` positive through one (1+λ) `update`, for a learning rate
`cp ∈ [0,1]` and a population of at most `lambda_` individuals (what `generate` produces). -/
theorem psucc_unit (ord : FitOrd φ) (chol : List (List ℝ) → List (List ℝ))
    (s : OnePlus.State φ ℝ) (pop : List (Ind φ ℝ)) (o : OnePlus.UpdOut φ ℝ)
    (h : OnePlus.update ord chol s pop = some o)
    (hcp0 : 0 ≤ s.prm.cp) (hcp1 : s.prm.cp ≤ 1) (hps0 : 0 ≤ s.psucc) (hps1 : s.psucc ≤ 1)
    (hlen : pop.length ≤ s.prm.lambda) :
    0 ≤ o.st.psucc ∧ o.st.psucc ≤ 1 := by
  obtain ⟨e1, _, e3, _, hne⟩ := update_numeric ord chol s pop o h
  have hpos : 0 < pop.length := List.length_pos_iff.2 hne
  rw [e1]
  unfold OnePlus.psuccUpdate
  simp only [RealLike.real_add, RealLike.real_mul, RealLike.real_div, RealLike.real_sub,
    RealLike.real_ofNat, C14Bridge.rl_one]
  obtain ⟨q0, q1⟩ := ratio_unit o.lambdaSucc s.prm.lambda (Nat.le_trans e3 hlen) (Nat.lt_of_lt_of_le hpos hlen)
  exact unit_convex _ _ _ hcp0 hcp1 hps0 hps1 q0 q1

/-- `sigma` stays positive through one (1+λ) `update` (no hypothesis on the parameters). -/
theorem sigma_pos (ord : FitOrd φ) (chol : List (List ℝ) → List (List ℝ))
    (s : OnePlus.State φ ℝ) (pop : List (Ind φ ℝ)) (o : OnePlus.UpdOut φ ℝ)
    (h : OnePlus.update ord chol s pop = some o) (hs : 0 < s.sigma) : 0 < o.st.sigma := by
  obtain ⟨_, e2, _, _, _⟩ := update_numeric ord chol s pop o h
  rw [e2]
  unfold OnePlus.sigmaUpdate
  simp only [RealLike.real_mul, RealLike.real_exp]
  exact mul_pos hs (Real.exp_pos _)

/-- Over any history of (1+λ) rounds with populations of 1..`lambda_` individuals. -/
theorem psucc_sigma_history (ord : FitOrd φ) (chol : List (List ℝ) → List (List ℝ))
    (s : OnePlus.State φ ℝ) (rounds : List (List (Ind φ ℝ))) (s' : OnePlus.State φ ℝ)
    (h : OnePlus.run ord chol s rounds = some s')
    (hcp0 : 0 ≤ s.prm.cp) (hcp1 : s.prm.cp ≤ 1) (hps0 : 0 ≤ s.psucc) (hps1 : s.psucc ≤ 1)
    (hs : 0 < s.sigma) (hlen : ∀ p ∈ rounds, p.length ≤ s.prm.lambda) :
    0 ≤ s'.psucc ∧ s'.psucc ≤ 1 ∧ 0 < s'.sigma := by
  induction rounds generalizing s with
  | nil => simp only [OnePlus.run, Option.some.injEq] at h; subst h; exact ⟨hps0, hps1, hs⟩
  | cons pop rest ih =>
    simp only [OnePlus.run] at h
    cases hu : OnePlus.update ord chol s pop with
    | none => rw [hu] at h; cases h
    | some o =>
      rw [hu] at h
      obtain ⟨_, _, _, e4, _⟩ := update_numeric ord chol s pop o hu
      obtain ⟨a, b⟩ := psucc_unit ord chol s pop o hu hcp0 hcp1 hps0 hps1 (hlen pop (by simp))
      exact ih o.st h (e4 ▸ hcp0) (e4 ▸ hcp1) a b (sigma_pos ord chol s pop o hu hs)
        (fun p hp => e4 ▸ hlen p (by simp [hp]))

/-- The same for one `update` of the active strategy (`p_succ = lambda_succ / len(valid)` is a
ratio in `[0,1]` by construction; constraint updates do not touch `psucc`/`sigma`). -/
theorem active_psucc_sigma (ord : FitOrd φ) (inv : Nat → List (List ℝ) → Option (List (List ℝ)))
    (s : Active.State φ ℝ) (pop : List (Active.AInd φ ℝ))
    (hcp0 : 0 ≤ s.prm.cp) (hcp1 : s.prm.cp ≤ 1) (hps0 : 0 ≤ s.psucc) (hps1 : s.psucc ≤ 1)
    (hs : 0 < s.sigma) :
    0 ≤ (Active.update ord inv s pop).st.psucc ∧ (Active.update ord inv s pop).st.psucc ≤ 1 ∧
    0 < (Active.update ord inv s pop).st.sigma ∧ (Active.update ord inv s pop).st.prm = s.prm := by
  obtain ⟨_, k2, k3, k4⟩ := update_keeps ord inv s pop
  obtain ⟨r1, r2⟩ := rankStep_numeric ord s pop
  have k2' : (Active.update ord inv s pop).st.psucc = (Active.rankStep ord s pop).1.psucc := k2
  have k3' : (Active.update ord inv s pop).st.sigma = (Active.rankStep ord s pop).1.sigma := k3
  have k4' : (Active.update ord inv s pop).st.prm = (Active.rankStep ord s pop).1.prm := k4
  rw [k2', k3', k4']
  by_cases hv : Active.validOf pop = []
  · rw [r1 hv]; exact ⟨hps0, hps1, hs, rfl⟩
  · obtain ⟨k, m, hk, hm, e1, e2, e3⟩ := r2 hv
    rw [e1, e2, e3]
    simp only [RealLike.real_add, RealLike.real_mul, RealLike.real_div, RealLike.real_sub,
      RealLike.real_ofNat, RealLike.real_exp, C14Bridge.rl_one]
    obtain ⟨q0, q1⟩ := ratio_unit k m hk hm
    obtain ⟨a, b⟩ := unit_convex _ _ _ hcp0 hcp1 hps0 hps1 q0 q1
    exact ⟨a, b, mul_pos hs (Real.exp_pos _), trivial⟩

/-- Over any history of rounds of the active strategy. -/
theorem active_psucc_sigma_history (ord : FitOrd φ) (inv : Nat → List (List ℝ) → Option (List (List ℝ)))
    (s : Active.State φ ℝ) (rounds : List (List (Active.AInd φ ℝ)))
    (hcp0 : 0 ≤ s.prm.cp) (hcp1 : s.prm.cp ≤ 1) (hps0 : 0 ≤ s.psucc) (hps1 : s.psucc ≤ 1)
    (hs : 0 < s.sigma) :
    0 ≤ (Active.run ord inv s rounds).psucc ∧ (Active.run ord inv s rounds).psucc ≤ 1 ∧
    0 < (Active.run ord inv s rounds).sigma := by
  induction rounds generalizing s with
  | nil => exact ⟨hps0, hps1, hs⟩
  | cons pop rest ih =>
    obtain ⟨a, b, c, d⟩ := active_psucc_sigma ord inv s pop hcp0 hcp1 hps0 hps1 hs
    exact ih (Active.update ord inv s pop).st (d ▸ hcp0) (d ▸ hcp1) a b c

/-- The scalar success/failure rule keeps `psucc ∈ [0,1]` and `sigma > 0`. -/
theorem adjScalar_range (p : MO.Params ℝ) (succ : Bool) (ps sg : ℝ) (hcp0 : 0 ≤ p.cp) (hcp1 : p.cp ≤ 1)
    (h0 : 0 ≤ ps) (h1 : ps ≤ 1) (hs : 0 < sg) :
    0 ≤ (C14Align.adjScalar p succ ps sg).1 ∧ (C14Align.adjScalar p succ ps sg).1 ≤ 1 ∧
    0 < (C14Align.adjScalar p succ ps sg).2 := by
  unfold C14Align.adjScalar
  simp only [RealLike.real_add, RealLike.real_mul, RealLike.real_div, RealLike.real_sub,
    RealLike.real_exp, C14Bridge.rl_one]
  refine ⟨?_, ?_, mul_pos hs (Real.exp_pos _)⟩
  · cases succ
    · simpa using (unit_convex p.cp ps 0 hcp0 hcp1 h0 h1 le_rfl zero_le_one).1
    · simpa using (unit_convex p.cp ps 1 hcp0 hcp1 h0 h1 zero_le_one le_rfl).1
  · cases succ
    · simpa using (unit_convex p.cp ps 0 hcp0 hcp1 h0 h1 le_rfl zero_le_one).2
    · simpa using (unit_convex p.cp ps 1 hcp0 hcp1 h0 h1 zero_le_one le_rfl).2

theorem adjFold_range (p : MO.Params ℝ) (j : Nat) (l : List (MO.MInd ℝ × Bool)) (init : ℝ × ℝ)
    (hcp0 : 0 ≤ p.cp) (hcp1 : p.cp ≤ 1) (h0 : 0 ≤ init.1) (h1 : init.1 ≤ 1) (hs : 0 < init.2) :
    0 ≤ (C14Align.adjFold p j l init).1 ∧ (C14Align.adjFold p j l init).1 ≤ 1 ∧
    0 < (C14Align.adjFold p j l init).2 := by
  induction l generalizing init with
  | nil => exact ⟨h0, h1, hs⟩
  | cons it l ih =>
    simp only [C14Align.adjFold, List.foldl_cons]
    by_cases hc : it.1.off = true ∧ it.1.pidx = j
    · rw [if_pos hc]
      obtain ⟨a, b, c⟩ := adjScalar_range p it.2 init.1 init.2 hcp0 hcp1 h0 h1 hs
      exact ih _ a b c
    · rw [if_neg hc]; exact ih init h0 h1 hs

/-- **MO**: after the realignment of `update` every per-parent success rate is in `[0,1]` and every
per-parent step size is positive, if that held before, for `cp ∈ [0,1]` and parent tags inside the
old lists (what `generate` writes). -/
theorem mo_psucc_sigma (s : MO.State ℝ) (chosen notChosen : List (MO.MInd ℝ))
    (hcp0 : 0 ≤ s.prm.cp) (hcp1 : s.prm.cp ≤ 1)
    (hps : ∀ x ∈ s.psucc, 0 ≤ x ∧ x ≤ 1) (hsg : ∀ x ∈ s.sigmas, 0 < x)
    (htag : ∀ c ∈ chosen, c.pidx < s.psucc.length ∧ c.pidx < s.sigmas.length) :
    (∀ x ∈ (MO.realign s chosen notChosen).psucc, 0 ≤ x ∧ x ≤ 1) ∧
    (∀ x ∈ (MO.realign s chosen notChosen).sigmas, 0 < x) := by
  have entry : ∀ i (hi : i < chosen.length),
      (∀ x, (MO.realign s chosen notChosen).psucc[i]? = some x → 0 ≤ x ∧ x ≤ 1) ∧
      (∀ x, (MO.realign s chosen notChosen).sigmas[i]? = some x → 0 < x) := by
    intro i hi
    obtain ⟨_, _, _, _, _, _, hp, ho⟩ := mo_alignment s chosen notChosen i hi
    simp only [C14Bridge.rl_zero] at hp ho
    obtain ⟨t1, t2⟩ := htag chosen[i] (List.getElem_mem hi)
    have g1 : 0 ≤ s.psucc.getD chosen[i].pidx 0 ∧ s.psucc.getD chosen[i].pidx 0 ≤ 1 := by
      rw [List.getD_eq_getElem _ _ t1]; exact hps _ (List.getElem_mem t1)
    have g2 : 0 < s.sigmas.getD chosen[i].pidx 0 := by
      rw [List.getD_eq_getElem _ _ t2]; exact hsg _ (List.getElem_mem t2)
    cases hoff : chosen[i].off with
    | false =>
      obtain ⟨e1, e2, _⟩ := hp hoff
      have sp := mo_adjust_spec s.prm chosen notChosen s.psucc s.sigmas chosen[i].pidx t1 t2
      simp only [C14Bridge.rl_zero] at sp
      have r := adjFold_range s.prm chosen[i].pidx
        (chosen.map (fun c => (c, true)) ++ notChosen.map (fun c => (c, false)))
        (s.psucc.getD chosen[i].pidx 0, s.sigmas.getD chosen[i].pidx 0) hcp0 hcp1 g1.1 g1.2 g2
      rw [← sp] at r
      constructor
      · intro x hx; rw [e2] at hx; cases hx; exact ⟨r.1, r.2.1⟩
      · intro x hx; rw [e1] at hx; cases hx; exact r.2.2
    | true =>
      obtain ⟨e1, e2, _⟩ := ho hoff
      obtain ⟨v1, v2, _⟩ := mo_offspring_values s chosen[i]
      simp only [C14Bridge.rl_zero] at v1 v2
      constructor
      · intro x hx; rw [e2] at hx; cases hx
        rw [v1]
        simp only [RealLike.real_add, RealLike.real_mul, RealLike.real_sub, C14Bridge.rl_one]
        simpa using unit_convex s.prm.cp _ 1 hcp0 hcp1 g1.1 g1.2 zero_le_one le_rfl
      · intro x hx; rw [e1] at hx; cases hx
        rw [v2]
        simp only [RealLike.real_mul, RealLike.real_exp]
        exact mul_pos g2 (Real.exp_pos _)
  constructor
  · intro x hx
    obtain ⟨i, hi, rfl⟩ := List.getElem_of_mem hx
    have hi' : i < chosen.length := by
      have := (C14Align.realign_lengths s chosen notChosen).1
      omega
    exact (entry i hi').1 _ (List.getElem?_eq_getElem hi)
  · intro x hx
    obtain ⟨i, hi, rfl⟩ := List.getElem_of_mem hx
    have hi' : i < chosen.length := by
      have := (C14Align.realign_lengths s chosen notChosen).2
      omega
    exact (entry i hi').2 _ (List.getElem?_eq_getElem hi)

end Rates

/-! ## 4. Factors and inverse factors (Mathlib matrices over ℝ)

`matOf n M` / `vecOf n v` read a list of rows / a list as an `n × n` matrix / a vector on `Fin n`
(`Lemmas/C14Bridge.lean` proves that the model's list operations are the Mathlib ones). -/
section Factors
open C14Bridge C14Update Matrix LA

/-- **Rank-one identity** of `StrategyMultiObjective._rankOneUpdate`: for a stored inverse that is
the inverse (`invCh·A = I`), `α > 0`, any `β` with `1 + β/α‖w‖² ≥ 0` where `w = invCh·v`, and any `v`
that passes the magnitude guard `max|w| > 1e-20` — whatever the signs of its components (F9) — the
new factor satisfies `A'A'ᵀ = α·AAᵀ + β·vvᵀ`. -/
theorem rank_one_identity (n : Nat) (invCh A : List (List ℝ)) (α β : ℝ) (v : List ℝ)
    (hI : IsMat n invCh) (hA : IsMat n A) (hv : v.length = n)
    (hinv : matOf n invCh * matOf n A = 1) (hα : 0 < α)
    (hg : RealLike.ofRatio 1 100000000000000000000 < maxAbs (matVec invCh v))
    (ht : 0 ≤ 1 + β / α * normSq (matVec invCh v)) :
    matOf n (MO.rankOneUpdate n invCh A α β v).2 * (matOf n (MO.rankOneUpdate n invCh A α β v).2)ᵀ
      = α • (matOf n A * (matOf n A)ᵀ) + β • vecMulVec (vecOf n v) (vecOf n v) :=
  (rankOne_main n invCh A α β v hI hA hv hinv hα hg ht).1

/-- **Inverse update** (Sherman–Morrison) of `_rankOneUpdate`: whether or not the guard fires, the
returned `invCholesky'` is the inverse of the returned `A'` (and both keep their shape), provided
`1 + β/α‖w‖² > 0` (automatic for the strategy's `β = ccov > 0`). -/
theorem inverse_update (n : Nat) (invCh A : List (List ℝ)) (α β : ℝ) (v : List ℝ)
    (hI : IsMat n invCh) (hA : IsMat n A) (hv : v.length = n)
    (hinv : matOf n invCh * matOf n A = 1) (hα : 0 < α)
    (ht : 0 < 1 + β / α * normSq (matVec invCh v)) :
    IsMat n (MO.rankOneUpdate n invCh A α β v).1 ∧ IsMat n (MO.rankOneUpdate n invCh A α β v).2 ∧
    matOf n (MO.rankOneUpdate n invCh A α β v).1 * matOf n (MO.rankOneUpdate n invCh A α β v).2 = 1 := by
  by_cases hg : RealLike.ofRatio 1 100000000000000000000 < maxAbs (matVec invCh v)
  · obtain ⟨s1, s2, _, _⟩ := rankOne_mat n invCh A α β v hI hA hv hg
    exact ⟨s1, s2, (rankOne_main n invCh A α β v hI hA hv hinv hα hg ht.le).2 ht⟩
  · rw [rankOne_skip n invCh A α β v hg]; exact ⟨hI, hA, hinv⟩

/-- The guard of `_rankOneUpdate` is on the magnitude of `w`, with the code's threshold: it fires
exactly when some component satisfies `|x| > 1e-20`, whatever its sign (the F9 defect skipped
vectors all of whose components are negative). -/
theorem guard_sign_free (w : List ℝ) :
    RealLike.ofRatio 1 100000000000000000000 < maxAbs w ↔
      ∃ x ∈ w, (1 : ℝ) / 100000000000000000000 < |x| := by
  have hp : ∀ a b : ℝ, a ≤ RealLike.pmax a b ∧ b ≤ RealLike.pmax a b ∧
      (RealLike.pmax a b = a ∨ RealLike.pmax a b = b) := by
    intro a b; unfold RealLike.pmax
    by_cases hab : a < b
    · rw [if_pos hab]; exact ⟨hab.le, le_rfl, Or.inr rfl⟩
    · rw [if_neg hab]; exact ⟨le_rfl, not_lt.1 hab, Or.inl rfl⟩
  have lower : ∀ (l : List ℝ) (m x : ℝ), (x ∈ l ∨ |x| ≤ m) →
      |x| ≤ l.foldl (fun m y => RealLike.pmax m (RealLike.abs y)) m := by
    intro l
    induction l with
    | nil => intro m x h; rcases h with h | h; simp at h; exact h
    | cons y l ih =>
      intro m x h
      simp only [List.foldl_cons]
      apply ih
      rcases h with h | h
      · rcases List.mem_cons.1 h with rfl | h
        · right; exact (hp m (RealLike.abs x)).2.1
        · left; exact h
      · right; exact le_trans h (hp m _).1
  have upper : ∀ (l : List ℝ) (m : ℝ),
      l.foldl (fun m y => RealLike.pmax m (RealLike.abs y)) m = m ∨
      ∃ x ∈ l, l.foldl (fun m y => RealLike.pmax m (RealLike.abs y)) m = |x| := by
    intro l
    induction l with
    | nil => intro m; exact Or.inl rfl
    | cons y l ih =>
      intro m
      simp only [List.foldl_cons]
      rcases ih (RealLike.pmax m (RealLike.abs y)) with h | ⟨x, hx, h⟩
      · rcases (hp m (RealLike.abs y)).2.2 with h2 | h2
        · left; rw [h, h2]
        · right; exact ⟨y, by simp, by rw [h, h2]; rfl⟩
      · right; exact ⟨x, by simp [hx], h⟩
  have hthr : (RealLike.ofRatio 1 100000000000000000000 : ℝ) = 1 / 100000000000000000000 := by
    simp only [RealLike.real_ofRatio]; norm_num
  unfold maxAbs
  rw [rl_zero, hthr]
  constructor
  · intro h
    rcases upper w 0 with h0 | ⟨x, hx, h0⟩
    · rw [h0] at h; norm_num at h
    · exact ⟨x, hx, h0 ▸ h⟩
  · rintro ⟨x, hx, h⟩
    exact lt_of_lt_of_le h (lower w 0 x (Or.inl hx))

/-- The two `_rankOneUpdate` calls of `update` (cma.py:524, 528) on an offspring of parent `j`:
when parent `j`'s stored inverse is the inverse of its factor, so is the offspring's pair, and if
the guard fires the offspring's factor is the rank-one update of parent `j`'s factor with the
offspring's evolution path: `A'A'ᵀ = α·A_j A_jᵀ + ccov·pc pcᵀ`, `α = 1 - ccov` (path updated) or
`1 - ccov + cc(2 - cc)` (stalled). -/
theorem mo_offspring_factors (s : MO.State ℝ) (ind : MO.MInd ℝ) (n : Nat) (hdim : s.dim = n)
    (hI : IsMat n (s.invCh.getD ind.pidx [])) (hA : IsMat n (s.A.getD ind.pidx []))
    (hinv : matOf n (s.invCh.getD ind.pidx []) * matOf n (s.A.getD ind.pidx []) = 1)
    (hpc : (MO.offspringTmp s ind).pc.length = n)
    (hc0 : 0 < s.prm.ccov) (hc1 : s.prm.ccov < 1) (hcc : 0 ≤ s.prm.cc * (2 - s.prm.cc)) :
    let t := MO.offspringTmp s ind
    let α := if (1 - s.prm.cp) * s.psucc.getD ind.pidx 0 + s.prm.cp < s.prm.pthresh then 1 - s.prm.ccov
             else 1 - s.prm.ccov + s.prm.cc * (2 - s.prm.cc)
    IsMat n t.invCh ∧ IsMat n t.A ∧ matOf n t.invCh * matOf n t.A = 1 ∧
    (RealLike.ofRatio 1 100000000000000000000 < maxAbs (matVec (s.invCh.getD ind.pidx []) t.pc) →
      matOf n t.A * (matOf n t.A)ᵀ
        = α • (matOf n (s.A.getD ind.pidx []) * (matOf n (s.A.getD ind.pidx []))ᵀ)
          + s.prm.ccov • vecMulVec (vecOf n t.pc) (vecOf n t.pc)) := by
  dsimp only
  obtain ⟨_, _, v1, v2⟩ := mo_offspring_values s ind
  simp only [rl_zero, rl_one, rl_two, RealLike.real_lt, RealLike.real_sub, RealLike.real_mul, RealLike.real_add] at v1 v2
  have hnn := normSq_nonneg (matVec (s.invCh.getD ind.pidx []) (MO.offspringTmp s ind).pc)
  by_cases hb : (1 - s.prm.cp) * s.psucc.getD ind.pidx 0 + s.prm.cp < s.prm.pthresh
  · obtain ⟨_, e⟩ := v1 hb
    have eI : (MO.offspringTmp s ind).invCh = _ := congrArg Prod.fst e
    have eA : (MO.offspringTmp s ind).A = _ := congrArg Prod.snd e
    have hα : (0 : ℝ) < 1 - s.prm.ccov := by linarith
    have ht : 0 < 1 + s.prm.ccov / (1 - s.prm.ccov)
        * normSq (matVec (s.invCh.getD ind.pidx []) (MO.offspringTmp s ind).pc) := by
      have : 0 ≤ s.prm.ccov / (1 - s.prm.ccov) := div_nonneg hc0.le hα.le
      nlinarith [mul_nonneg this hnn]
    rw [if_pos hb, eI, eA, hdim]
    obtain ⟨a1, a2, a3⟩ := inverse_update n _ _ (1 - s.prm.ccov) s.prm.ccov _ hI hA hpc hinv hα ht
    exact ⟨a1, a2, a3, fun hg => rank_one_identity n _ _ _ _ _ hI hA hpc hinv hα hg ht.le⟩
  · obtain ⟨_, e⟩ := v2 hb
    have eI : (MO.offspringTmp s ind).invCh = _ := congrArg Prod.fst e
    have eA : (MO.offspringTmp s ind).A = _ := congrArg Prod.snd e
    have hα : (0 : ℝ) < 1 - s.prm.ccov + s.prm.cc * (2 - s.prm.cc) := by linarith
    have ht : 0 < 1 + s.prm.ccov / (1 - s.prm.ccov + s.prm.cc * (2 - s.prm.cc))
        * normSq (matVec (s.invCh.getD ind.pidx []) (MO.offspringTmp s ind).pc) := by
      have : 0 ≤ s.prm.ccov / (1 - s.prm.ccov + s.prm.cc * (2 - s.prm.cc)) := div_nonneg hc0.le hα.le
      nlinarith [mul_nonneg this hnn]
    rw [if_neg hb, eI, eA, hdim]
    obtain ⟨a1, a2, a3⟩ := inverse_update n _ _ (1 - s.prm.ccov + s.prm.cc * (2 - s.prm.cc)) s.prm.ccov _
      hI hA hpc hinv hα ht
    exact ⟨a1, a2, a3, fun hg => rank_one_identity n _ _ _ _ _ hI hA hpc hinv hα hg ht.le⟩

/-- **Active strategy, successful update** (cma.py:750-770, 791-794): both branches are rank-one
updates with the new evolution path, `A'A'ᵀ = α·AAᵀ + ccovp·pc' pc'ᵀ` with `α = 1 - ccovp` resp.
`1 - ccovp(1 + cc(2 - cc)) > 0`, and the coded `invA'` is the inverse of `A'`. -/
theorem active_rank_one_positive (n : Nat) (p : Active.Params ℝ) (psucc : ℝ) (pc y : List ℝ)
    (A invA : List (List ℝ)) (hA : IsMat n A) (hI : IsMat n invA) (hpc : pc.length = n)
    (hy : y.length = n) (hinv : matOf n invA * matOf n A = 1)
    (h0 : 0 < p.ccovp) (h1 : p.ccovp < 1) (hd : p.ccovp * (1 + p.cc * (2 - p.cc)) < 1)
    (hn : normSq (Active.positiveABW p psucc pc invA y).2.w ≠ 0) :
    let r := Active.positiveABW p psucc pc invA y
    let m := Active.applyAB n A invA r.2.a r.2.b r.2.nrm r.2.w
    let α := if (psucc < p.pthresh ∨ Active.allClose0 pc = true) then 1 - p.ccovp
             else 1 - p.ccovp * (1 + p.cc * (2 - p.cc))
    IsMat n m.1 ∧ IsMat n m.2 ∧ r.1.length = n ∧
    matOf n m.1 * (matOf n m.1)ᵀ
      = α • (matOf n A * (matOf n A)ᵀ) + p.ccovp • vecMulVec (vecOf n r.1) (vecOf n r.1) ∧
    matOf n m.2 * matOf n m.1 = 1 :=
  positive_main n p psucc pc y A invA hA hI hpc hy hinv h0 h1 hd hn

/-- **Active strategy, negative update** (cma.py:778-794): with the capped `c` the update is
`A'A'ᵀ = (1 + c)·AAᵀ - c·(Az)(Az)ᵀ` (`Az` is the stored mutation step `_y`), `c > 0`, and the coded
`invA'` is the inverse of `A'` — the cap keeps `1 - c/(1+c)‖z‖² ≥ 1/2`, so no hypothesis on `‖z‖`
beyond `z ≠ 0` is needed. -/
theorem active_rank_one_negative (n : Nat) (p : Active.Params ℝ) (z : List ℝ) (A invA : List (List ℝ))
    (hA : IsMat n A) (hI : IsMat n invA) (hz : z.length = n)
    (hinv : matOf n invA * matOf n A = 1) (hc0 : 0 < p.ccovn) (hn : normSq z ≠ 0) :
    let r := Active.negativeABW p z
    let m := Active.applyAB n A invA r.a r.b r.nrm r.w
    let c := if 1 < p.ccovn * (2 * normSq z - 1) then 1 / (2 * normSq z - 1) else p.ccovn
    IsMat n m.1 ∧ IsMat n m.2 ∧ 0 < c ∧
    matOf n m.1 * (matOf n m.1)ᵀ
      = (1 + c) • (matOf n A * (matOf n A)ᵀ)
        + (-c) • vecMulVec (matOf n A *ᵥ vecOf n z) (matOf n A *ᵥ vecOf n z) ∧
    matOf n m.2 * matOf n m.1 = 1 :=
  negative_main n p z A invA hA hI hz hinv hc0 hn

/-- **Constraint update** (`_infeasible_update`): given the contract of `numpy.linalg.inv`
(`inv M = some N → N·M = I`; `none` = `LinAlgError`, update ignored), the stored inverse is the
inverse of the factor afterwards whenever it was before. -/
theorem infeasible_inv {φ : Type} (inv : List (List ℝ) → Option (List (List ℝ)))
    (s : Active.State φ ℝ) (ind : Active.AInd φ ℝ) (n : Nat)
    (hcontract : ∀ M N, inv M = some N → matOf n N * matOf n M = 1)
    (hinv : matOf n s.invA * matOf n s.A = 1) :
    matOf n (Active.infeasibleUpdate inv s ind).invA * matOf n (Active.infeasibleUpdate inv s ind).A = 1 := by
  unfold Active.infeasibleUpdate
  simp only
  split
  · exact hinv
  cases h1 : Active.aPrime s.prm.beta s.A s.invA (Active.constraintVecsUpdate s ind) ind.cv with
  | none => exact hinv
  | some A' =>
    cases h2 : inv A' with
    | none => simp only [h2]; exact hinv
    | some iA => simp only [h2]; exact hcontract A' iA h2

/-- **Active strategy, `_rank1update` as a whole**: whichever of its branches runs (successful
update with or without path accumulation, negative update, or no covariance update), the stored
`invA` is the inverse of `A` afterwards if it was before, and shapes are kept.  Hypotheses: the
parameter ranges of `__init__` (`0 < ccovp < 1`, `ccovp(1 + cc(2 - cc)) < 1`, `ccovn > 0`) and the
non-zero norms the code divides by. -/
theorem active_inverse_update {φ : Type} (ord : FitOrd φ) (s : Active.State φ ℝ) (ind : Active.AInd φ ℝ)
    (fit : φ) (pS : ℝ) (n : Nat) (hdim : s.dim = n) (hA : IsMat n s.A) (hI : IsMat n s.invA)
    (hinv : matOf n s.invA * matOf n s.A = 1) (hpc : s.pc.length = n)
    (hy : ind.y.length = n) (hz : ind.z.length = n)
    (h0 : 0 < s.prm.ccovp) (h1 : s.prm.ccovp < 1)
    (hd : s.prm.ccovp * (1 + s.prm.cc * (2 - s.prm.cc)) < 1) (hcn : 0 < s.prm.ccovn)
    (hnp : ∀ ps, normSq (Active.positiveABW s.prm ps s.pc s.invA ind.y).2.w ≠ 0)
    (hnn : normSq ind.z ≠ 0) :
    IsMat n (Active.rank1update ord s ind fit pS).A ∧ IsMat n (Active.rank1update ord s ind fit pS).invA ∧
    matOf n (Active.rank1update ord s ind fit pS).invA * matOf n (Active.rank1update ord s ind fit pS).A = 1 ∧
    (Active.rank1update ord s ind fit pS).pc.length = n ∧ (Active.rank1update ord s ind fit pS).dim = n := by
  have pos := fun ps => positive_main n s.prm ps s.pc ind.y s.A s.invA hA hI hpc hy hinv h0 h1 hd (hnp ps)
  have neg := negative_main n s.prm ind.z s.A s.invA hA hI hz hinv hcn hnn
  dsimp only at pos neg
  have hdim' : (Active.rank1update ord s ind fit pS).dim = n := by rw [rank1update_dim]; exact hdim
  have h4 : IsMat n (Active.rank1update ord s ind fit pS).A ∧ IsMat n (Active.rank1update ord s ind fit pS).invA ∧
      matOf n (Active.rank1update ord s ind fit pS).invA * matOf n (Active.rank1update ord s ind fit pS).A = 1 ∧
      (Active.rank1update ord s ind fit pS).pc.length = n := by
    unfold Active.rank1update
    rw [hdim]
    cases hp : s.parentFit with
    | none =>
      simp only [↓reduceIte]
      exact ⟨(pos _).1, (pos _).2.1, (pos _).2.2.2.2, (pos _).2.2.1⟩
    | some pf =>
      cases hle : ord.le pf fit with
      | true =>
        simp only [hle, ↓reduceIte]
        exact ⟨(pos _).1, (pos _).2.1, (pos _).2.2.2.2, (pos _).2.2.1⟩
      | false =>
        simp only [hle, Bool.false_eq_true, ↓reduceIte]
        split
        · exact ⟨hA, hI, hinv, hpc⟩
        · split
          · obtain ⟨b1, b2, _, _, b5⟩ := neg
            exact ⟨b1, b2, b5, hpc⟩
          · exact ⟨hA, hI, hinv, hpc⟩
  exact ⟨h4.1, h4.2.1, h4.2.2.1, h4.2.2.2, hdim'⟩

/-- **Active strategy, one whole `update`** (rank-one step on the best valid individual, then one
constraint update per invalid individual): the stored `invA` is the inverse of `A` afterwards if it
was before, given the `inv` contract for every call. -/
theorem active_update_inverse {φ : Type} (ord : FitOrd φ)
    (inv : Nat → List (List ℝ) → Option (List (List ℝ))) (s : Active.State φ ℝ)
    (pop : List (Active.AInd φ ℝ)) (n : Nat) (hdim : s.dim = n) (hA : IsMat n s.A) (hI : IsMat n s.invA)
    (hinv : matOf n s.invA * matOf n s.A = 1) (hpc : s.pc.length = n)
    (hshape : ∀ i ∈ pop, i.y.length = n ∧ i.z.length = n)
    (h0 : 0 < s.prm.ccovp) (h1 : s.prm.ccovp < 1)
    (hd : s.prm.ccovp * (1 + s.prm.cc * (2 - s.prm.cc)) < 1) (hcn : 0 < s.prm.ccovn)
    (hnorm : ∀ i ∈ pop, normSq i.z ≠ 0 ∧ ∀ ps, normSq (Active.positiveABW s.prm ps s.pc s.invA i.y).2.w ≠ 0)
    (hcontract : ∀ k M N, inv k M = some N → matOf n N * matOf n M = 1) :
    matOf n (Active.update ord inv s pop).st.invA * matOf n (Active.update ord inv s pop).st.A = 1 := by
  have hstep : matOf n (Active.rankStep ord s pop).1.invA * matOf n (Active.rankStep ord s pop).1.A = 1 := by
    unfold Active.rankStep
    cases hs : (Active.validOf pop).mergeSort (fun a b => !ord.lt a.2 b.2) with
    | nil => exact hinv
    | cons best rest =>
      have hmem : best ∈ Active.validOf pop :=
        (List.mergeSort_perm (Active.validOf pop) _).subset (hs ▸ List.mem_cons_self)
      have hb := (mem_validOf (i := best.1) (f := best.2)).1 hmem
      obtain ⟨hy, hz⟩ := hshape best.1 hb.1
      obtain ⟨hn1, hn2⟩ := hnorm best.1 hb.1
      exact (active_inverse_update ord s best.1 best.2 _ n hdim hA hI hinv hpc hy hz h0 h1 hd hcn hn2 hn1).2.2.1
  have hfold : ∀ (l : List (Active.AInd φ ℝ × Nat)) (st : Active.State φ ℝ),
      matOf n st.invA * matOf n st.A = 1 →
      matOf n (l.foldl (fun st ik => Active.infeasibleUpdate (inv ik.2) st ik.1) st).invA
        * matOf n (l.foldl (fun st ik => Active.infeasibleUpdate (inv ik.2) st ik.1) st).A = 1 := by
    intro l
    induction l with
    | nil => intro st h; exact h
    | cons x xs ih =>
      intro st h
      exact ih _ (infeasible_inv (inv x.2) st x.1 n (hcontract x.2) h)
  exact hfold _ _ hstep

/-! ### (1+λ): the published success rule and the Cholesky contract -/

/-- **Success rule** (Igel, Hansen, Roth 2007) as coded in cma.py:309-314: with the smoothed
success rate below the threshold the path accumulates the step and `C' = (1-ccov)C + ccov·pc' pc'ᵀ`;
otherwise the path decays and `C' = (1-ccov)C + ccov(pc' pc'ᵀ + cc(2-cc)C)`. -/
theorem onepl_cov_rule (prm : OnePlus.Params ℝ) (psucc : ℝ) (pc : List ℝ) (C : List (List ℝ))
    (xStep : List ℝ) (n : Nat) (hC : IsMat n C) (hpc : pc.length = n) (hx : xStep.length = n) :
    IsMat n (OnePlus.covUpdate prm psucc pc C xStep).2 ∧ (OnePlus.covUpdate prm psucc pc C xStep).1.length = n ∧
    (psucc < prm.pthresh →
      vecOf n (OnePlus.covUpdate prm psucc pc C xStep).1
        = (1 - prm.cc) • vecOf n pc + Real.sqrt (prm.cc * (2 - prm.cc)) • vecOf n xStep ∧
      matOf n (OnePlus.covUpdate prm psucc pc C xStep).2
        = (1 - prm.ccov) • matOf n C
          + prm.ccov • vecMulVec (vecOf n (OnePlus.covUpdate prm psucc pc C xStep).1)
                                 (vecOf n (OnePlus.covUpdate prm psucc pc C xStep).1)) ∧
    (¬ psucc < prm.pthresh →
      vecOf n (OnePlus.covUpdate prm psucc pc C xStep).1 = (1 - prm.cc) • vecOf n pc ∧
      matOf n (OnePlus.covUpdate prm psucc pc C xStep).2
        = (1 - prm.ccov) • matOf n C
          + prm.ccov • (vecMulVec (vecOf n (OnePlus.covUpdate prm psucc pc C xStep).1)
                                  (vecOf n (OnePlus.covUpdate prm psucc pc C xStep).1)
                        + (prm.cc * (2 - prm.cc)) • matOf n C)) := by
  unfold OnePlus.covUpdate
  by_cases h : psucc < prm.pthresh
  · have h' : @LT.lt ℝ RealLike.toLT psucc prm.pthresh := h
    rw [if_pos h']
    simp only [rl_one, rl_two, RealLike.real_sqrt, RealLike.real_sub, RealLike.real_mul]
    have hl : (vadd (vscale (1 - prm.cc) pc) (vscale (Real.sqrt (prm.cc * (2 - prm.cc))) xStep)).length = n := by
      simp [hpc, hx]
    have hO := isMat_outer hl hl
    refine ⟨isMat_madd (isMat_mscale _ hC) (isMat_mscale _ hO), hl, fun _ => ⟨?_, ?_⟩, fun hn => absurd h hn⟩
    · rw [vecOf_vadd n _ _ (by simp [hpc, hx]), vecOf_vscale, vecOf_vscale]
    · rw [matOf_madd n _ _ (isMat_mscale _ hC) (isMat_mscale _ hO), matOf_mscale, matOf_mscale,
        matOf_outer n _ _ hl]
  · have h' : ¬ @LT.lt ℝ RealLike.toLT psucc prm.pthresh := h
    rw [if_neg h']
    simp only [rl_one, rl_two, RealLike.real_sqrt, RealLike.real_sub, RealLike.real_mul]
    have hl : (vscale (1 - prm.cc) pc).length = n := by simp [hpc]
    have hO := isMat_outer hl hl
    have hS := isMat_madd hO (isMat_mscale (prm.cc * (2 - prm.cc)) hC)
    refine ⟨isMat_madd (isMat_mscale _ hC) (isMat_mscale _ hS), hl, fun hp => absurd hp h, fun _ => ⟨?_, ?_⟩⟩
    · rw [vecOf_vscale]
    · rw [matOf_madd n _ _ (isMat_mscale _ hC) (isMat_mscale _ hS), matOf_mscale, matOf_mscale,
        matOf_madd n _ _ hO (isMat_mscale _ hC), matOf_mscale, matOf_outer n _ _ hl]

/-- How `update` uses the rule, and the sampling factor: on replacement `(pc, C)` are the success
rule applied to the normalised step `(x_new - x_old)/sigma_old` and the *new* `psucc`; otherwise they
are unchanged; in both cases `A = cholesky(C)`, so under the Cholesky contract at that matrix
(`chol C · (chol C)ᵀ = C`) the sampling factor satisfies `A·Aᵀ = C`. -/
theorem onepl_factor {φ : Type} (ord : FitOrd φ) (chol : List (List ℝ) → List (List ℝ))
    (s : OnePlus.State φ ℝ) (pop : List (Ind φ ℝ)) (o : OnePlus.UpdOut φ ℝ)
    (h : OnePlus.update ord chol s pop = some o) (n : Nat) :
    (o.replaced = true →
      (o.st.pc, o.st.C) = OnePlus.covUpdate s.prm o.st.psucc s.pc s.C
        (vdivs (vsub o.st.parent.x s.parent.x) s.sigma)) ∧
    (o.replaced = false → o.st.pc = s.pc ∧ o.st.C = s.C) ∧
    o.st.A = chol o.st.C ∧
    (matOf n (chol o.st.C) * (matOf n (chol o.st.C))ᵀ = matOf n o.st.C →
      matOf n o.st.A * (matOf n o.st.A)ᵀ = matOf n o.st.C) := by
  unfold OnePlus.update at h
  cases hs : sortDesc ord pop with
  | nil => rw [hs] at h; cases h
  | cons best rest =>
    rw [hs] at h
    simp only at h
    split at h
    · cases h
      exact ⟨fun _ => rfl, fun hc => by simp at hc, rfl, fun hc => hc⟩
    · cases h
      exact ⟨fun hc => by simp at hc, fun _ => ⟨rfl, rfl⟩, rfl, fun hc => hc⟩

/-- **MO, one whole realignment**: if every old parent's stored inverse is the inverse of its factor
(with `n × n` shapes), the same holds for every new parent — survivors keep their pair, entering
offspring get the Sherman–Morrison pair of `_rankOneUpdate`. -/
theorem mo_update_inverse (s : MO.State ℝ) (chosen notChosen : List (MO.MInd ℝ)) (n : Nat)
    (hdim : s.dim = n)
    (hpairs : ∀ j, j < s.A.length → IsMat n (s.invCh.getD j []) ∧ IsMat n (s.A.getD j []) ∧
      matOf n (s.invCh.getD j []) * matOf n (s.A.getD j []) = 1)
    (htag : ∀ c ∈ chosen, c.pidx < s.A.length)
    (hpcs : ∀ c ∈ chosen, c.off = true → (MO.offspringTmp s c).pc.length = n)
    (hc0 : 0 < s.prm.ccov) (hc1 : s.prm.ccov < 1) (hcc : 0 ≤ s.prm.cc * (2 - s.prm.cc))
    (i : Nat) (hi : i < chosen.length) :
    ∃ I A, (MO.realign s chosen notChosen).invCh[i]? = some I ∧
      (MO.realign s chosen notChosen).A[i]? = some A ∧
      IsMat n I ∧ IsMat n A ∧ matOf n I * matOf n A = 1 := by
  obtain ⟨_, _, _, _, _, _, hp, ho⟩ := mo_alignment s chosen notChosen i hi
  have hmem := List.getElem_mem hi
  obtain ⟨p1, p2, p3⟩ := hpairs _ (htag _ hmem)
  cases hoff : chosen[i].off with
  | false =>
    obtain ⟨_, _, e3, e4, _⟩ := hp hoff
    exact ⟨_, _, e4, e3, p1, p2, p3⟩
  | true =>
    obtain ⟨_, _, e3, e4, _⟩ := ho hoff
    obtain ⟨f1, f2, f3, _⟩ := mo_offspring_factors s chosen[i] n hdim p1 p2 p3 (hpcs _ hmem hoff) hc0 hc1 hcc
    exact ⟨_, _, e4, e3, f1, f2, f3⟩

end Factors

/-! ## 5. Positive definiteness is preserved; whole-history invariants of the factors -/
section Open
open C14Bridge C14Update LA Matrix

theorem quad_rank_one (n : Nat) (C : Matrix (Fin n) (Fin n) ℝ) (p u : Fin n → ℝ) (a b : ℝ) :
    u ⬝ᵥ ((a • C + b • vecMulVec p p) *ᵥ u) = a * (u ⬝ᵥ (C *ᵥ u)) + b * ((p ⬝ᵥ u) * (p ⬝ᵥ u)) := by
  have h : vecMulVec p p *ᵥ u = (p ⬝ᵥ u) • p := by
    ext i; simp only [mulVec, dotProduct, vecMulVec_apply, Pi.smul_apply, smul_eq_mul, Finset.sum_mul]
    apply Finset.sum_congr rfl; intro j _; ring
  rw [add_mulVec, smul_mulVec, smul_mulVec, h, dotProduct_add, dotProduct_smul,
    dotProduct_smul, dotProduct_smul, smul_eq_mul, smul_eq_mul, smul_eq_mul, dotProduct_comm u p]

/-- The covariance the (1+λ) strategy hands to `cholesky` stays positive definite (as a quadratic
form) under the success rule, for `0 < ccov < 1` and `cc(2 - cc) ≥ 0` — so the precondition of the
Cholesky contract used in `onepl_factor` is met at every round. -/
theorem onepl_posdef (prm : OnePlus.Params ℝ) (psucc : ℝ) (pc : List ℝ) (C : List (List ℝ))
    (xStep : List ℝ) (n : Nat) (hC : IsMat n C) (hpc : pc.length = n) (hx : xStep.length = n)
    (h0 : 0 < prm.ccov) (h1 : prm.ccov < 1) (hcc : 0 ≤ prm.cc * (2 - prm.cc))
    (hpd : ∀ u : Fin n → ℝ, u ≠ 0 → 0 < u ⬝ᵥ (matOf n C *ᵥ u)) (u : Fin n → ℝ) (hu : u ≠ 0) :
    0 < u ⬝ᵥ (matOf n (OnePlus.covUpdate prm psucc pc C xStep).2 *ᵥ u) := by
  obtain ⟨_, _, r1, r2⟩ := onepl_cov_rule prm psucc pc C xStep n hC hpc hx
  have hq := hpd u hu
  by_cases h : psucc < prm.pthresh
  · rw [(r1 h).2, quad_rank_one]
    have : 0 ≤ prm.ccov * ((vecOf n (OnePlus.covUpdate prm psucc pc C xStep).1 ⬝ᵥ u)
        * (vecOf n (OnePlus.covUpdate prm psucc pc C xStep).1 ⬝ᵥ u)) :=
      mul_nonneg h0.le (mul_self_nonneg _)
    have : 0 < (1 - prm.ccov) * (u ⬝ᵥ (matOf n C *ᵥ u)) := mul_pos (by linarith) hq
    linarith
  · rw [(r2 h).2, smul_add, ← add_assoc, add_right_comm, smul_smul, ← add_smul, quad_rank_one]
    have : 0 ≤ prm.ccov * ((vecOf n (OnePlus.covUpdate prm psucc pc C xStep).1 ⬝ᵥ u)
        * (vecOf n (OnePlus.covUpdate prm psucc pc C xStep).1 ⬝ᵥ u)) :=
      mul_nonneg h0.le (mul_self_nonneg _)
    have : 0 < (1 - prm.ccov + prm.ccov * (prm.cc * (2 - prm.cc))) * (u ⬝ᵥ (matOf n C *ᵥ u)) :=
      mul_pos (by nlinarith [mul_nonneg h0.le hcc]) hq
    linarith

/-- The success rule keeps the covariance symmetric (both branches). -/
theorem onepl_sym (prm : OnePlus.Params ℝ) (psucc : ℝ) (pc : List ℝ) (C : List (List ℝ))
    (xStep : List ℝ) (n : Nat) (hC : IsMat n C) (hpc : pc.length = n) (hx : xStep.length = n)
    (hs : (matOf n C)ᵀ = matOf n C) :
    (matOf n (OnePlus.covUpdate prm psucc pc C xStep).2)ᵀ = matOf n (OnePlus.covUpdate prm psucc pc C xStep).2 := by
  obtain ⟨_, _, r1, r2⟩ := onepl_cov_rule prm psucc pc C xStep n hC hpc hx
  by_cases h : psucc < prm.pthresh
  · rw [(r1 h).2, transpose_add, transpose_smul, transpose_smul, hs, transpose_vecMulVec]
  · rw [(r2 h).2, transpose_add, transpose_smul, transpose_smul, transpose_add, transpose_smul, hs,
      transpose_vecMulVec]

/-- The contract of `numpy.linalg.cholesky`, on SYMMETRIC positive definite input only: an `n × n`
lower-triangular factor with `A·Aᵀ = C`.  (Without symmetry no function could meet it:
`A·Aᵀ` is always symmetric.) -/
def CholOK (n : Nat) (chol : List (List ℝ) → List (List ℝ)) : Prop :=
  ∀ C, IsMat n C → (matOf n C)ᵀ = matOf n C →
    (∀ u : Fin n → ℝ, u ≠ 0 → 0 < u ⬝ᵥ (matOf n C *ᵥ u)) →
    IsMat n (chol C) ∧ matOf n (chol C) * (matOf n (chol C))ᵀ = matOf n C ∧
    ∀ i j : Fin n, i < j → matOf n (chol C) i j = 0

/-- The invariant of the (1+λ) strategy's covariance and sampling factor: `C` is an `n × n`
symmetric positive definite matrix, `A` a lower-triangular factor with `A·Aᵀ = C`. -/
structure OPInv {φ : Type} (n : Nat) (s : OnePlus.State φ ℝ) : Prop where
  hC : IsMat n s.C
  sym : (matOf n s.C)ᵀ = matOf n s.C
  pd : ∀ u : Fin n → ℝ, u ≠ 0 → 0 < u ⬝ᵥ (matOf n s.C *ᵥ u)
  pc : s.pc.length = n
  px : s.parent.x.length = n
  fac : matOf n s.A * (matOf n s.A)ᵀ = matOf n s.C
  low : ∀ i j : Fin n, i < j → matOf n s.A i j = 0

theorem opInv_update {φ : Type} (ord : FitOrd φ) (chol : List (List ℝ) → List (List ℝ))
    (s : OnePlus.State φ ℝ) (pop : List (Ind φ ℝ)) (o : OnePlus.UpdOut φ ℝ)
    (h : OnePlus.update ord chol s pop = some o) (n : Nat) (hi : OPInv n s)
    (h0 : 0 < s.prm.ccov) (h1 : s.prm.ccov < 1) (hcc : 0 ≤ s.prm.cc * (2 - s.prm.cc))
    (hshape : ∀ i ∈ pop, i.x.length = n) (hchol : CholOK n chol) :
    OPInv n o.st ∧ o.st.prm = s.prm := by
  obtain ⟨f1, f2, f3, _⟩ := onepl_factor ord chol s pop o h n
  obtain ⟨_, _, _, eprm, _⟩ := update_numeric ord chol s pop o h
  have hpar : o.st.parent = s.parent ∨ o.st.parent ∈ pop := by
    unfold OnePlus.update at h
    cases hs : sortDesc ord pop with
    | nil => rw [hs] at h; cases h
    | cons best rest =>
      have hmem : best ∈ pop := (List.mergeSort_perm pop _).subset (by
        unfold sortDesc at hs; rw [hs]; exact List.mem_cons_self)
      rw [hs] at h
      simp only at h
      split at h
      · cases h; exact Or.inr hmem
      · cases h; exact Or.inl rfl
  have hpx : o.st.parent.x.length = n := by
    rcases hpar with e | e
    · rw [e]; exact hi.px
    · exact hshape _ e
  have hCpd : IsMat n o.st.C ∧ (matOf n o.st.C)ᵀ = matOf n o.st.C ∧
      (∀ u : Fin n → ℝ, u ≠ 0 → 0 < u ⬝ᵥ (matOf n o.st.C *ᵥ u)) ∧ o.st.pc.length = n := by
    cases hr : o.replaced with
    | true =>
      have e := f1 hr
      have hxs : (vdivs (vsub o.st.parent.x s.parent.x) s.sigma).length = n := by simp [hpx, hi.px]
      obtain ⟨c1, c2, _, _⟩ := onepl_cov_rule s.prm o.st.psucc s.pc s.C _ n hi.hC hi.pc hxs
      have eC : o.st.C = _ := congrArg Prod.snd e
      have ep : o.st.pc = _ := congrArg Prod.fst e
      rw [eC, ep]
      exact ⟨c1, onepl_sym s.prm o.st.psucc s.pc s.C _ n hi.hC hi.pc hxs hi.sym,
        fun u hu => onepl_posdef s.prm o.st.psucc s.pc s.C _ n hi.hC hi.pc hxs h0 h1 hcc hi.pd u hu, c2⟩
    | false =>
      obtain ⟨e1, e2⟩ := f2 hr
      rw [e1, e2]; exact ⟨hi.hC, hi.sym, hi.pd, hi.pc⟩
  obtain ⟨g1, gs, g2, g3⟩ := hCpd
  obtain ⟨_, k2, k3⟩ := hchol o.st.C g1 gs g2
  exact ⟨⟨g1, gs, g2, g3, hpx, by rw [f3]; exact k2, by rw [f3]; exact k3⟩, eprm⟩

/-- **(1+λ), whole histories**: under the Cholesky contract (symmetric positive definite input),
after every round of any history the sampling factor is lower triangular with `A·Aᵀ = C`, and `C`
(which follows the success rule, `onepl_cov_rule`) is symmetric positive definite — so the
contract's precondition is re-established for the next round. -/
theorem onepl_factor_history {φ : Type} (ord : FitOrd φ) (chol : List (List ℝ) → List (List ℝ))
    (s : OnePlus.State φ ℝ) (rounds : List (List (Ind φ ℝ))) (s' : OnePlus.State φ ℝ)
    (h : OnePlus.run ord chol s rounds = some s') (n : Nat) (hi : OPInv n s)
    (h0 : 0 < s.prm.ccov) (h1 : s.prm.ccov < 1) (hcc : 0 ≤ s.prm.cc * (2 - s.prm.cc))
    (hshape : ∀ p ∈ rounds, ∀ i ∈ p, i.x.length = n) (hchol : CholOK n chol) :
    matOf n s'.A * (matOf n s'.A)ᵀ = matOf n s'.C ∧ (∀ i j : Fin n, i < j → matOf n s'.A i j = 0) ∧
    IsMat n s'.C ∧ (matOf n s'.C)ᵀ = matOf n s'.C ∧
    (∀ u : Fin n → ℝ, u ≠ 0 → 0 < u ⬝ᵥ (matOf n s'.C *ᵥ u)) := by
  induction rounds generalizing s with
  | nil =>
    simp only [OnePlus.run, Option.some.injEq] at h; subst h
    exact ⟨hi.fac, hi.low, hi.hC, hi.sym, hi.pd⟩
  | cons pop rest ih =>
    simp only [OnePlus.run] at h
    cases hu : OnePlus.update ord chol s pop with
    | none => rw [hu] at h; cases h
    | some o =>
      rw [hu] at h
      obtain ⟨i1, i2⟩ := opInv_update ord chol s pop o hu n hi h0 h1 hcc (hshape pop (by simp)) hchol
      exact ih o.st h i1 (i2 ▸ h0) (i2 ▸ h1) (i2 ▸ hcc) (fun p hp => hshape p (by simp [hp]))

/-- `__init__` establishes the invariant: `C = A = I`, `pc = 0`. -/
theorem opInv_init {φ : Type} (parent : Ind φ ℝ) (sigma : ℝ) (prm : OnePlus.Params ℝ) :
    OPInv parent.x.length (OnePlus.init parent sigma prm) := by
  have hI := matOf_identity parent.x.length
  refine ⟨isMat_identity _, ?_, ?_, by simp [OnePlus.init, vzero], rfl, ?_, ?_⟩
  · show (matOf _ (identity _))ᵀ = matOf _ (identity _); rw [hI, transpose_one]
  · intro u hu
    show 0 < u ⬝ᵥ (matOf _ (identity _) *ᵥ u)
    rw [hI, one_mulVec]
    have h0 : 0 ≤ u ⬝ᵥ u := by
      simp only [dotProduct]; exact Finset.sum_nonneg (fun i _ => mul_self_nonneg (u i))
    rcases h0.lt_or_eq with h | h
    · exact h
    · exact absurd (dotProduct_self_eq_zero.1 h.symm) hu
  · show matOf _ (identity _) * (matOf _ (identity _))ᵀ = matOf _ (identity _)
    rw [hI, transpose_one, one_mul]
  · intro i j hij
    show matOf _ (identity _) i j = 0
    rw [hI, one_apply_ne (ne_of_lt hij)]

/-- The norms `_rank1update` divides by are non-zero at every round of a run. -/
def NormsOk {φ : Type} (ord : FitOrd φ) (inv : Nat → List (List ℝ) → Option (List (List ℝ))) :
    Active.State φ ℝ → List (List (Active.AInd φ ℝ)) → Prop
  | _, [] => True
  | s, pop :: rest =>
    (∀ i ∈ pop, normSq i.z ≠ 0 ∧ ∀ ps, normSq (Active.positiveABW s.prm ps s.pc s.invA i.y).2.w ≠ 0) ∧
    NormsOk ord inv (Active.update ord inv s pop).st rest

/-- The inverse invariant of the active strategy chained through whole histories (proved below as
`active_inverse_history`). -/
def active_inverse_history_Statement : Prop :=
  ∀ {φ : Type} (ord : FitOrd φ) (inv : Nat → List (List ℝ) → Option (List (List ℝ)))
    (s : Active.State φ ℝ) (rounds : List (List (Active.AInd φ ℝ))) (n : Nat),
    s.dim = n → IsMat n s.A → IsMat n s.invA → matOf n s.invA * matOf n s.A = 1 → s.pc.length = n →
    (∀ vs, s.constraintVecs = some vs → ∀ v ∈ vs, v.length = n) →
    0 < s.prm.ccovp → s.prm.ccovp < 1 → s.prm.ccovp * (1 + s.prm.cc * (2 - s.prm.cc)) < 1 →
    0 < s.prm.ccovn →
    (∀ k M N, inv k M = some N → IsMat n N ∧ matOf n N * matOf n M = 1) →
    (∀ p ∈ rounds, ∀ i ∈ p, i.y.length = n ∧ i.z.length = n) →
    NormsOk ord inv s rounds →
    matOf n (Active.run ord inv s rounds).invA * matOf n (Active.run ord inv s rounds).A = 1

/-- The invariant of the active strategy's factor pair: shapes, `invA·A = I`, and the shapes the
constraint update relies on. -/
structure ActInv {φ : Type} (n : Nat) (s : Active.State φ ℝ) : Prop where
  dim : s.dim = n
  hA : IsMat n s.A
  hI : IsMat n s.invA
  inv : matOf n s.invA * matOf n s.A = 1
  pc : s.pc.length = n
  cv : ∀ vs, s.constraintVecs = some vs → ∀ v ∈ vs, v.length = n

theorem actInv_infeasible {φ : Type} (inv : List (List ℝ) → Option (List (List ℝ)))
    (s : Active.State φ ℝ) (ind : Active.AInd φ ℝ) (n : Nat) (h : ActInv n s) (hy : ind.y.length = n)
    (hcontract : ∀ M N, inv M = some N → IsMat n N ∧ matOf n N * matOf n M = 1) :
    ActInv n (Active.infeasibleUpdate inv s ind) := by
  have hv := C14Shapes.cvecs_shape s ind n h.dim hy h.cv
  unfold Active.infeasibleUpdate
  simp only
  split
  · exact h
  cases h1 : Active.aPrime s.prm.beta s.A s.invA (Active.constraintVecsUpdate s ind) ind.cv with
  | none => exact ⟨h.dim, h.hA, h.hI, h.inv, h.pc, fun vs e => by cases e; exact hv⟩
  | some A' =>
    have hA' := C14Shapes.aPrime_shape _ _ _ _ _ n h.hA h.hI hv A' h1
    cases h2 : inv A' with
    | none => simp only [h2]; exact ⟨h.dim, h.hA, h.hI, h.inv, h.pc, fun vs e => by cases e; exact hv⟩
    | some iA =>
      simp only [h2]
      obtain ⟨c1, c2⟩ := hcontract A' iA h2
      exact ⟨h.dim, hA', c1, c2, h.pc, fun vs e => by cases e; exact hv⟩

theorem actInv_update {φ : Type} (ord : FitOrd φ) (inv : Nat → List (List ℝ) → Option (List (List ℝ)))
    (s : Active.State φ ℝ) (pop : List (Active.AInd φ ℝ)) (n : Nat) (h : ActInv n s)
    (hshape : ∀ i ∈ pop, i.y.length = n ∧ i.z.length = n)
    (h0 : 0 < s.prm.ccovp) (h1 : s.prm.ccovp < 1)
    (hd : s.prm.ccovp * (1 + s.prm.cc * (2 - s.prm.cc)) < 1) (hcn : 0 < s.prm.ccovn)
    (hnorm : ∀ i ∈ pop, normSq i.z ≠ 0 ∧ ∀ ps, normSq (Active.positiveABW s.prm ps s.pc s.invA i.y).2.w ≠ 0)
    (hcontract : ∀ k M N, inv k M = some N → IsMat n N ∧ matOf n N * matOf n M = 1) :
    ActInv n (Active.update ord inv s pop).st ∧ (Active.update ord inv s pop).st.prm = s.prm := by
  have hstep : ActInv n (Active.rankStep ord s pop).1 := by
    unfold Active.rankStep
    cases hs : (Active.validOf pop).mergeSort (fun a b => !ord.lt a.2 b.2) with
    | nil => exact h
    | cons best rest =>
      have hmem : best ∈ Active.validOf pop :=
        (List.mergeSort_perm (Active.validOf pop) _).subset (hs ▸ List.mem_cons_self)
      have hb := (mem_validOf (i := best.1) (f := best.2)).1 hmem
      obtain ⟨hy, hz⟩ := hshape best.1 hb.1
      obtain ⟨hn1, hn2⟩ := hnorm best.1 hb.1
      obtain ⟨a1, a2, a3, a4, a5⟩ := active_inverse_update ord s best.1 best.2
        (RealLike.ofNat (match s.parentFit with
          | none => (best :: rest).length
          | some pf => ((best :: rest).filter (fun i => ord.le pf i.2)).length) /
        RealLike.ofNat (best :: rest).length) n h.dim h.hA h.hI h.inv h.pc hy hz h0 h1 hd hcn hn2 hn1
      exact ⟨a5, a1, a2, a3, a4, by rw [rank1update_cvecs]; exact h.cv⟩
  have hfold : ∀ (l : List (Active.AInd φ ℝ × Nat)) (st : Active.State φ ℝ), (∀ x ∈ l, x.1.y.length = n) →
      ActInv n st → ActInv n (l.foldl (fun st ik => Active.infeasibleUpdate (inv ik.2) st ik.1) st) := by
    intro l
    induction l with
    | nil => intro st _ h; exact h
    | cons x xs ih =>
      intro st hl h
      exact ih _ (fun y hy => hl y (by simp [hy]))
        (actInv_infeasible (inv x.2) st x.1 n h (hl x (by simp)) (hcontract x.2))
  have hinvalid : ∀ x ∈ List.zipIdx (pop.filter (fun i => i.fit.isNone)), x.1.y.length = n := by
    intro x hx
    have : x.1 ∈ pop.filter (fun i => i.fit.isNone) := by
      obtain ⟨a, k⟩ := x
      exact (List.mem_zipIdx hx).2.2 ▸ List.getElem_mem _
    exact (hshape x.1 (List.mem_filter.1 this).1).1
  have h2 := hfold _ _ hinvalid hstep
  obtain ⟨_, _, _, k4⟩ := update_keeps ord inv s pop
  obtain ⟨r1, r2⟩ := rankStep_numeric ord s pop
  refine ⟨⟨h2.dim, h2.hA, h2.hI, h2.inv, h2.pc, h2.cv⟩, ?_⟩
  have k4' : (Active.update ord inv s pop).st.prm = (Active.rankStep ord s pop).1.prm := k4
  rw [k4']
  by_cases hv : Active.validOf pop = []
  · rw [r1 hv]
  · obtain ⟨_, _, _, _, _, _, e⟩ := r2 hv; exact e

/-- **Active strategy, whole histories**: over any sequence of `update` rounds — rank-one steps in
every branch and constraint updates included — the stored `invA` is the inverse of `A`, given it is
initially, the parameter ranges of `__init__`, the `inv` contract for every call, individuals of the
right dimension and the non-zero norms the code divides by at every round (`NormsOk`). -/
theorem active_inverse_history : active_inverse_history_Statement := by
  intro φ ord inv s rounds n hdim hA hI hinv hpc hcv h0 h1 hd hcn hcontract hshape hnorm
  have key : ∀ (rounds : List (List (Active.AInd φ ℝ))) (s : Active.State φ ℝ), ActInv n s →
      0 < s.prm.ccovp → s.prm.ccovp < 1 → s.prm.ccovp * (1 + s.prm.cc * (2 - s.prm.cc)) < 1 →
      0 < s.prm.ccovn → (∀ p ∈ rounds, ∀ i ∈ p, i.y.length = n ∧ i.z.length = n) →
      NormsOk ord inv s rounds → ActInv n (Active.run ord inv s rounds) := by
    intro rounds
    induction rounds with
    | nil => intro s h _ _ _ _ _ _; exact h
    | cons pop rest ih =>
      intro s h h0 h1 hd hcn hshape hnorm
      obtain ⟨u1, u2⟩ := actInv_update ord inv s pop n h (hshape pop (by simp)) h0 h1 hd hcn hnorm.1 hcontract
      exact ih _ u1 (u2 ▸ h0) (u2 ▸ h1) (u2 ▸ hd) (u2 ▸ hcn)
        (fun p hp => hshape p (by simp [hp])) hnorm.2
  exact (key rounds s ⟨hdim, hA, hI, hinv, hpc, hcv⟩ h0 h1 hd hcn hshape hnorm).inv

/-! ### MO: whole histories -/

/-- The per-parent invariant of the MO strategy: aligned lists, `n × n` factor pairs with
`invCholesky_j · A_j = I`, paths and genomes of dimension `n`. -/
structure MOInv (n : Nat) (s : MO.State ℝ) : Prop where
  dim : s.dim = n
  lA : s.A.length = s.parents.length
  lI : s.invCh.length = s.parents.length
  lpc : s.pc.length = s.parents.length
  pair : ∀ j, j < s.parents.length →
    IsMat n (s.invCh.getD j []) ∧ IsMat n (s.A.getD j []) ∧
    matOf n (s.invCh.getD j []) * matOf n (s.A.getD j []) = 1 ∧ (s.pc.getD j []).length = n
  px : ∀ p ∈ s.parents, p.x.length = n

/-- Side conditions of a run that depend on the evolving state: in every round each offspring's
tag points at an existing parent (what `generate` writes) and satisfies `P`. -/
def MORoundsOk (P : MO.MInd ℝ → Prop) (nobj : Nat) (sortND : List (MO.MInd ℝ) → List (List (MO.MInd ℝ)))
    (indicator : List (MO.MInd ℝ) → List ℝ → Nat) : MO.State ℝ → List (List (MO.MInd ℝ)) → Prop
  | _, [] => True
  | s, pop :: rest =>
    (∀ o ∈ pop, o.pidx < s.parents.length ∧ P o) ∧
    (match MO.update (MO.retag s) nobj sortND indicator pop with
     | none => True
     | some r => MORoundsOk P nobj sortND indicator r.1 rest)

theorem retag_mem (s : MO.State ℝ) (p : MO.MInd ℝ) (hp : p ∈ (MO.retag s).parents) :
    p.pidx < s.parents.length ∧ ∃ q ∈ s.parents, p.x = q.x := by
  unfold MO.retag at hp
  simp only [List.mem_map] at hp
  obtain ⟨⟨q, k⟩, hq, rfl⟩ := hp
  obtain ⟨_, hk, hqe⟩ := List.mem_zipIdx hq
  simp only [Nat.zero_add] at hk
  exact ⟨hk, q, hqe ▸ List.getElem_mem _, rfl⟩

theorem retag_length (s : MO.State ℝ) : (MO.retag s).parents.length = s.parents.length := by
  simp [MO.retag]

theorem moInv_retag (n : Nat) (s : MO.State ℝ) (h : MOInv n s) : MOInv n (MO.retag s) := by
  have hl := retag_length s
  refine ⟨h.dim, ?_, ?_, ?_, ?_, ?_⟩
  · show s.A.length = _; rw [hl]; exact h.lA
  · show s.invCh.length = _; rw [hl]; exact h.lI
  · show s.pc.length = _; rw [hl]; exact h.lpc
  · intro j hj; rw [hl] at hj; exact h.pair j hj
  · intro p hp
    obtain ⟨_, q, hq, e⟩ := retag_mem s p hp
    rw [e]; exact h.px q hq

theorem offspringTmp_pc_length (n : Nat) (s : MO.State ℝ) (ind : MO.MInd ℝ) (h : MOInv n s)
    (hj : ind.pidx < s.parents.length) (hx : ind.x.length = n) :
    (MO.offspringTmp s ind).pc.length = n := by
  obtain ⟨_, _, _, hpc⟩ := h.pair _ hj
  have hpx : (s.parents.getD ind.pidx ⟨0, [], [], false, 0⟩).x.length = n := by
    rw [List.getD_eq_getElem _ _ hj]; exact h.px _ (List.getElem_mem hj)
  unfold MO.offspringTmp
  simp only [List.getD_eq_getElem?_getD] at hpc hpx ⊢
  split
  · simp [hpc, hpx, hx]
  · simp [hpc]

theorem moInv_realign (n : Nat) (s : MO.State ℝ) (chosen notChosen : List (MO.MInd ℝ)) (h : MOInv n s)
    (hch : ∀ c ∈ chosen, c.pidx < s.parents.length ∧ c.x.length = n)
    (hc0 : 0 < s.prm.ccov) (hc1 : s.prm.ccov < 1) (hcc : 0 ≤ s.prm.cc * (2 - s.prm.cc)) :
    MOInv n (MO.realign s chosen notChosen) := by
  have hpar : (MO.realign s chosen notChosen).parents = chosen := rfl
  have lens : ∀ i (hi : i < chosen.length), _ := fun i hi => mo_alignment s chosen notChosen i hi
  have hl : (MO.realign s chosen notChosen).A.length = chosen.length ∧
      (MO.realign s chosen notChosen).invCh.length = chosen.length ∧
      (MO.realign s chosen notChosen).pc.length = chosen.length := by
    dsimp only [MO.realign]
    exact ⟨C14Align.pick_length _ _ _ _, C14Align.pick_length _ _ _ _, C14Align.pick_length _ _ _ _⟩
  refine ⟨h.dim, by rw [hpar]; exact hl.1, by rw [hpar]; exact hl.2.1, by rw [hpar]; exact hl.2.2, ?_,
    by rw [hpar]; exact fun p hp => (hch p hp).2⟩
  intro i hi
  rw [hpar] at hi
  have hmem := List.getElem_mem hi
  obtain ⟨I, A, e1, e2, p1, p2, p3⟩ := mo_update_inverse s chosen notChosen n h.dim
    (fun j hj => by
      rw [h.lA] at hj
      obtain ⟨a, b, c, _⟩ := h.pair j hj; exact ⟨a, b, c⟩)
    (fun c hc => by rw [h.lA]; exact (hch c hc).1)
    (fun c hc _ => offspringTmp_pc_length n s c h (hch c hc).1 (hch c hc).2) hc0 hc1 hcc i hi
  have gI : (MO.realign s chosen notChosen).invCh.getD i [] = I := by
    rw [List.getD_eq_getElem?_getD, e1]; rfl
  have gA : (MO.realign s chosen notChosen).A.getD i [] = A := by
    rw [List.getD_eq_getElem?_getD, e2]; rfl
  rw [gI, gA]
  refine ⟨p1, p2, p3, ?_⟩
  obtain ⟨_, _, _, _, _, _, hp, ho⟩ := lens i hi
  obtain ⟨tj, tx⟩ := hch _ hmem
  cases hoff : chosen[i].off with
  | false =>
    obtain ⟨_, _, _, _, e5⟩ := hp hoff
    rw [List.getD_eq_getElem?_getD, e5]
    exact (h.pair _ tj).2.2.2
  | true =>
    obtain ⟨_, _, _, _, e5⟩ := ho hoff
    rw [List.getD_eq_getElem?_getD, e5]
    exact offspringTmp_pc_length n s _ h tj tx

/-- What one generate/update round selects: members of the offspring list or re-tagged parents,
provided the non-dominated sort only returns individuals it was given. -/
theorem update_chosen_mem (s : MO.State ℝ) (nobj : Nat) (sortND : List (MO.MInd ℝ) → List (List (MO.MInd ℝ)))
    (indicator : List (MO.MInd ℝ) → List ℝ → Nat) (pop : List (MO.MInd ℝ))
    (hsort : ∀ l, ∀ f ∈ sortND l, ∀ x ∈ f, x ∈ l) (s' : MO.State ℝ) (nc : List (MO.MInd ℝ))
    (h : MO.update s nobj sortND indicator pop = some (s', nc)) :
    ∃ chosen, s' = MO.realign s chosen nc ∧ ∀ c ∈ chosen, c ∈ pop ∨ c ∈ s.parents := by
  obtain ⟨chosen, hsel, hre, _⟩ := mo_update_alignment s nobj sortND indicator pop s' nc h
  refine ⟨chosen, hre, fun c hc => ?_⟩
  unfold MO.select at hsel
  have := C14Shapes.selectFronts_mem _ _ _ _ _ _ hsel c hc
  have hcand : c ∈ pop ++ s.parents := by
    rcases this with h1 | h1
    · exact h1
    · obtain ⟨f, hf, hcf⟩ := List.mem_flatten.1 h1
      exact hsort _ f hf c hcf
  exact List.mem_append.1 hcand

/-- **MO, whole histories**: after any sequence of generate/update rounds every parent's stored
`invCholesky_i` is the inverse of its factor `A_i` (and all per-parent lists stay aligned with the
parents), given this holds initially, `0 < ccov < 1`, `cc(2 - cc) ≥ 0`, offspring of dimension `n`
whose tags point at existing parents (`MORoundsOk`), and a sort that returns its own input. -/
theorem mo_inverse_history (n nobj : Nat) (sortND : List (MO.MInd ℝ) → List (List (MO.MInd ℝ)))
    (indicator : List (MO.MInd ℝ) → List ℝ → Nat) (hsort : ∀ l, ∀ f ∈ sortND l, ∀ x ∈ f, x ∈ l)
    (rounds : List (List (MO.MInd ℝ))) (s s' : MO.State ℝ)
    (h : MO.run s nobj sortND indicator rounds = some s') (hi : MOInv n s)
    (hc0 : 0 < s.prm.ccov) (hc1 : s.prm.ccov < 1) (hcc : 0 ≤ s.prm.cc * (2 - s.prm.cc))
    (hok : MORoundsOk (fun o => o.x.length = n) nobj sortND indicator s rounds) :
    MOInv n s' ∧ ∀ j, j < s'.parents.length →
      matOf n (s'.invCh.getD j []) * matOf n (s'.A.getD j []) = 1 := by
  suffices hs : MOInv n s' from ⟨hs, fun j hj => (hs.pair j hj).2.2.1⟩
  induction rounds generalizing s with
  | nil => simp only [MO.run, Option.some.injEq] at h; subst h; exact hi
  | cons pop rest ih =>
    simp only [MO.run] at h
    obtain ⟨hpop, hnext⟩ := hok
    cases hu : MO.update (MO.retag s) nobj sortND indicator pop with
    | none => rw [hu] at h; cases h
    | some r =>
      obtain ⟨s1, nc⟩ := r
      rw [hu] at h hnext
      simp only at h hnext
      obtain ⟨chosen, hre, hmem⟩ := update_chosen_mem (MO.retag s) nobj sortND indicator pop hsort s1 nc hu
      have hir := moInv_retag n s hi
      have hch : ∀ c ∈ chosen, c.pidx < (MO.retag s).parents.length ∧ c.x.length = n := by
        intro c hc
        rw [retag_length]
        rcases hmem c hc with h1 | h1
        · exact hpop c h1
        · obtain ⟨t, q, hq, e⟩ := retag_mem s c h1
          exact ⟨t, by rw [e]; exact hi.px q hq⟩
      have h1 : MOInv n s1 := by
        rw [hre]; exact moInv_realign n (MO.retag s) chosen nc hir hch hc0 hc1 hcc
      have hprm : s1.prm = s.prm := by rw [hre]; rfl
      exact ih s1 h h1 (hprm ▸ hc0) (hprm ▸ hc1) (hprm ▸ hcc) hnext

/-- **MO, whole histories**: every per-parent success rate stays in `[0,1]` and every per-parent
step size positive over any sequence of generate/update rounds (and both lists stay aligned with
the parents), for `cp ∈ [0,1]` and offspring tags pointing at existing parents. -/
theorem mo_psucc_sigma_history (nobj : Nat) (sortND : List (MO.MInd ℝ) → List (List (MO.MInd ℝ)))
    (indicator : List (MO.MInd ℝ) → List ℝ → Nat) (hsort : ∀ l, ∀ f ∈ sortND l, ∀ x ∈ f, x ∈ l)
    (rounds : List (List (MO.MInd ℝ))) (s s' : MO.State ℝ)
    (h : MO.run s nobj sortND indicator rounds = some s')
    (hl1 : s.psucc.length = s.parents.length) (hl2 : s.sigmas.length = s.parents.length)
    (hcp0 : 0 ≤ s.prm.cp) (hcp1 : s.prm.cp ≤ 1)
    (hps : ∀ x ∈ s.psucc, 0 ≤ x ∧ x ≤ 1) (hsg : ∀ x ∈ s.sigmas, 0 < x)
    (hok : MORoundsOk (fun _ => True) nobj sortND indicator s rounds) :
    (∀ x ∈ s'.psucc, 0 ≤ x ∧ x ≤ 1) ∧ (∀ x ∈ s'.sigmas, 0 < x) ∧
    s'.psucc.length = s'.parents.length ∧ s'.sigmas.length = s'.parents.length := by
  induction rounds generalizing s with
  | nil => simp only [MO.run, Option.some.injEq] at h; subst h; exact ⟨hps, hsg, hl1, hl2⟩
  | cons pop rest ih =>
    simp only [MO.run] at h
    obtain ⟨hpop, hnext⟩ := hok
    cases hu : MO.update (MO.retag s) nobj sortND indicator pop with
    | none => rw [hu] at h; cases h
    | some r =>
      obtain ⟨s1, nc⟩ := r
      rw [hu] at h hnext
      simp only at h hnext
      obtain ⟨chosen, hre, hmem⟩ := update_chosen_mem (MO.retag s) nobj sortND indicator pop hsort s1 nc hu
      have htag : ∀ c ∈ chosen, c.pidx < (MO.retag s).psucc.length ∧ c.pidx < (MO.retag s).sigmas.length := by
        intro c hc
        have : c.pidx < s.parents.length := by
          rcases hmem c hc with h1 | h1
          · exact (hpop c h1).1
          · exact (retag_mem s c h1).1
        exact ⟨by show c.pidx < s.psucc.length; omega, by show c.pidx < s.sigmas.length; omega⟩
      obtain ⟨a, b⟩ := mo_psucc_sigma (MO.retag s) chosen nc hcp0 hcp1 hps hsg htag
      obtain ⟨l1, l2⟩ := C14Align.realign_lengths (MO.retag s) chosen nc
      have hprm : s1.prm = s.prm := by rw [hre]; rfl
      have hpar : s1.parents = chosen := by rw [hre]; rfl
      exact ih s1 h (by rw [hpar, hre]; exact l1) (by rw [hpar, hre]; exact l2) (hprm ▸ hcp0) (hprm ▸ hcp1)
        (by rw [hre]; exact a) (by rw [hre]; exact b) hnext

end Open

/-! ## 6. Non-vacuity: concrete instances of the hypotheses used above -/
section Examples
open C14Bridge C14Update LA Matrix

/-- `intOrd` is a total preorder; a history of two non-empty rounds. -/
example : TotalPre intOrd ∧
    (∀ p ∈ ([[⟨1, [], 3, [], []⟩], [⟨2, [], 5, [], []⟩, ⟨3, [], 4, [], []⟩]] : List (List (Ind Int Float))),
      p ≠ []) := ⟨intOrd_total, by simp⟩

/-- Hypotheses of `mo_rank_then_hv` / `mo_select_count`: more than `mu` candidates in the fronts and
an in-range indicator; and the closed form on a concrete input (mid front `[1,2,3]`, one place). -/
example : (2 : Nat) < ([0, 1, 2, 3, 4] : List Nat).length ∧
    2 < ([[0], [1, 2, 3], [4]] : List (List Nat)).flatten.length ∧
    (∀ l : List Nat, l ≠ [] → (fun _ : List Nat => 0) l < l.length) ∧
    MO.selectFronts 2 [[0], [1, 2, 3], [4]] (fun _ => 0) [0, 1, 2, 3, 4] = some ([0, 3], [4, 1, 2]) :=
  ⟨by decide, by decide, fun l hl => List.length_pos_iff.2 hl, by decide⟩

/-- Alignment on a concrete tag list: index in range, one survivor and one offspring. -/
example : (1 : Nat) < ([⟨0, [], [], false, 0⟩, ⟨1, [], [], true, 0⟩] : List (MO.MInd Float)).length := by decide

/-- Rate hypotheses (`cp ∈ [0,1]`, `psucc ∈ [0,1]`, `sigma > 0`, at most `lambda_` offspring). -/
example : (0 : ℝ) ≤ 1 / 12 ∧ (1 / 12 : ℝ) ≤ 1 ∧ (0 : ℝ) ≤ 2 / 11 ∧ (2 / 11 : ℝ) ≤ 1 ∧ (0 : ℝ) < 1 / 2 ∧
    ([⟨1, [], 3, [], []⟩] : List (Ind Int ℝ)).length ≤ 1 := by
  refine ⟨by norm_num, by norm_num, by norm_num, by norm_num, by norm_num, by simp⟩

/-- The default learning rate of the (1+λ) strategies, `cp = ptarg·λ/(2 + ptarg·λ)` with
`ptarg = 1/(5 + √λ/2)`, is in `[0,1]` for every `λ`: the hypotheses of `psucc_unit` hold for the
parameters DEAP computes. -/
theorem default_cp_unit (dim lambda : Nat) :
    0 ≤ (OnePlus.defaultParams dim lambda : OnePlus.Params ℝ).cp ∧
    (OnePlus.defaultParams dim lambda : OnePlus.Params ℝ).cp ≤ 1 := by
  unfold OnePlus.defaultParams
  simp only [RealLike.real_add, RealLike.real_mul, RealLike.real_div, RealLike.real_sqrt,
    RealLike.real_ofNat, RealLike.real_lit]
  simp only [Nat.cast_ofNat, Nat.cast_one]
  have hs : 0 ≤ Real.sqrt (lambda : ℝ) := Real.sqrt_nonneg _
  have hl : (0 : ℝ) ≤ lambda := Nat.cast_nonneg _
  have hp : 0 < 1 / ((5 : ℝ) + Real.sqrt (lambda : ℝ) / 2) := by
    have : (0 : ℝ) < (5 : ℝ) + Real.sqrt (lambda : ℝ) / 2 := by linarith
    exact one_div_pos.2 this
  have hx : 0 ≤ 1 / ((5 : ℝ) + Real.sqrt (lambda : ℝ) / 2) * (lambda : ℝ) := mul_nonneg hp.le hl
  have hden : 0 < 2 + 1 / ((5 : ℝ) + Real.sqrt (lambda : ℝ) / 2) * (lambda : ℝ) := by linarith
  exact ⟨div_nonneg hx hden.le, (div_le_one hden).2 (by linarith)⟩

/-- A concrete inverse pair, an all-negative vector that passes the guard (the F9 case), `α > 0`
and the sign condition: every hypothesis of `rank_one_identity` / `inverse_update` at once. -/
example : IsMat 2 ([[1, 0], [0, 1]] : List (List ℝ)) ∧ ([-2, -3] : List ℝ).length = 2 ∧
    matOf 2 ([[1, 0], [0, 1]] : List (List ℝ)) * matOf 2 ([[1, 0], [0, 1]] : List (List ℝ)) = 1 ∧
    (0 : ℝ) < 4 / 5 ∧
    RealLike.ofRatio 1 100000000000000000000 < maxAbs (matVec ([[1, 0], [0, 1]] : List (List ℝ)) [-2, -3]) ∧
    0 < 1 + (1 / 5 : ℝ) / (4 / 5) * normSq (matVec ([[1, 0], [0, 1]] : List (List ℝ)) [-2, -3]) := by
  have hmv : matVec ([[1, 0], [0, 1]] : List (List ℝ)) [-2, -3] = [-2, -3] := by
    simp [matVec, dot_eq_list]
  have hI : matOf 2 ([[1, 0], [0, 1]] : List (List ℝ)) = 1 := by
    ext i j; fin_cases i <;> fin_cases j <;> simp [matOf]
  refine ⟨⟨rfl, by simp⟩, rfl, by rw [hI, one_mul], by norm_num, ?_, ?_⟩
  · rw [hmv]; exact (guard_sign_free _).2 ⟨-2, by simp, by norm_num⟩
  · have := normSq_nonneg (matVec ([[1, 0], [0, 1]] : List (List ℝ)) [-2, -3]); positivity

/-- Parameter ranges of the active strategy at its defaults for `N = 2`
(`ccovp = 2/(N²+6) = 1/5`, `cc = 2/(N+2) = 1/2`), a non-zero `z`, and an `inv` meeting the contract. -/
example : (0 : ℝ) < 1 / 5 ∧ (1 / 5 : ℝ) < 1 ∧ (1 / 5 : ℝ) * (1 + 1 / 2 * (2 - 1 / 2)) < 1 ∧
    normSq ([1, 0] : List ℝ) ≠ 0 ∧
    (∀ M N : List (List ℝ),
      (fun M => if matOf 2 M = 1 then some M else none) M = some N → matOf 2 N * matOf 2 M = 1) := by
  refine ⟨by norm_num, by norm_num, by norm_num, ?_, ?_⟩
  · simp [normSq_cons, normSq_nil]
  · intro M N h
    by_cases hM : matOf 2 M = 1
    · simp only [hM, if_true, Option.some.injEq] at h; subst h; rw [hM, one_mul]
    · simp [hM] at h

/-- The Cholesky contract holds at the identity for `chol = id` (hypothesis of `onepl_factor`). -/
example : matOf 2 ((fun c => c) ([[1, 0], [0, 1]] : List (List ℝ)))
      * (matOf 2 ((fun c => c) ([[1, 0], [0, 1]] : List (List ℝ))))ᵀ
    = matOf 2 ([[1, 0], [0, 1]] : List (List ℝ)) := by
  have hI : matOf 2 ([[1, 0], [0, 1]] : List (List ℝ)) = 1 := by
    ext i j; fin_cases i <;> fin_cases j <;> simp [matOf]
  simp [hI]

/-- The identity covariance (the initial `C`) is positive definite: hypothesis `hpd` of
`onepl_posdef` at `__init__`. -/
example : ∀ u : Fin 2 → ℝ, u ≠ 0 → 0 < u ⬝ᵥ (matOf 2 ([[1, 0], [0, 1]] : List (List ℝ)) *ᵥ u) := by
  have hI : matOf 2 ([[1, 0], [0, 1]] : List (List ℝ)) = 1 := by
    ext i j; fin_cases i <;> fin_cases j <;> simp [matOf]
  intro u hu
  rw [hI, one_mulVec]
  have h0 : 0 ≤ u ⬝ᵥ u := by
    simp only [dotProduct]; exact Finset.sum_nonneg (fun i _ => mul_self_nonneg (u i))
  rcases h0.lt_or_eq with h | h
  · exact h
  · exact absurd (dotProduct_self_eq_zero.1 h.symm) hu

/-- `NormsOk` on a one-round history with `pc = 0`, identity factors and `y = z = [1, 0]`. -/
example : normSq ([1, 0] : List ℝ) ≠ 0 := by simp [normSq_cons, normSq_nil]

/-- The Cholesky contract is satisfiable in dimension 2: the closed-form factor
`[[√a, 0], [b/√a, √(d - b²/a)]]` of `[[a, b], [b, d]]` meets it for EVERY symmetric positive
definite input (so the hypothesis `CholOK` of `onepl_factor_history` is not vacuous for `n ≥ 2`). -/
noncomputable def chol2 (C : List (List ℝ)) : List (List ℝ) :=
  let a := (C.getD 0 []).getD 0 0
  let b := (C.getD 1 []).getD 0 0
  let d := (C.getD 1 []).getD 1 0
  [[Real.sqrt a, 0], [b / Real.sqrt a, Real.sqrt (d - b * b / a)]]

theorem cholOK_two : CholOK 2 chol2 := by
  intro C hC hsym hpd
  have e00 : matOf 2 C 0 0 = (C.getD 0 []).getD 0 0 := rfl
  have e01 : matOf 2 C 0 1 = (C.getD 0 []).getD 1 0 := rfl
  have e10 : matOf 2 C 1 0 = (C.getD 1 []).getD 0 0 := rfl
  have e11 : matOf 2 C 1 1 = (C.getD 1 []).getD 1 0 := rfl
  have hs01 : matOf 2 C 0 1 = matOf 2 C 1 0 := by
    have := congrFun (congrFun hsym 0) 1; simpa [transpose_apply] using this.symm
  generalize ha : (C.getD 0 []).getD 0 0 = a at e00
  generalize hb : (C.getD 1 []).getD 0 0 = b at e10
  generalize hd : (C.getD 1 []).getD 1 0 = d at e11
  have quad : ∀ u : Fin 2 → ℝ, u ⬝ᵥ (matOf 2 C *ᵥ u)
      = a * u 0 * u 0 + 2 * b * u 0 * u 1 + d * u 1 * u 1 := by
    intro u
    simp only [dotProduct, mulVec, Fin.sum_univ_two, e00, e10, e11, hs01]
    ring
  have hapos : 0 < a := by
    have := hpd ![1, 0] (by intro h; have := congrFun h 0; simp at this)
    rw [quad] at this; simpa using this
  have hdpos : 0 < d - b * b / a := by
    have := hpd ![-b / a, 1] (by intro h; have := congrFun h 1; simp at this)
    rw [quad] at this
    simp only [Matrix.cons_val_zero, Matrix.cons_val_one] at this
    have e : a * (-b / a) * (-b / a) + 2 * b * (-b / a) * 1 + d * 1 * 1 = d - b * b / a := by
      field_simp; ring
    rw [e] at this; exact this
  have hsa : Real.sqrt a * Real.sqrt a = a := Real.mul_self_sqrt hapos.le
  have hsd : Real.sqrt (d - b * b / a) * Real.sqrt (d - b * b / a) = d - b * b / a :=
    Real.mul_self_sqrt hdpos.le
  have hsa0 : Real.sqrt a ≠ 0 := (Real.sqrt_pos.2 hapos).ne'
  have hmat : ∀ i j : Fin 2, matOf 2 (chol2 C) i j =
      ![![Real.sqrt a, 0], ![b / Real.sqrt a, Real.sqrt (d - b * b / a)]] i j := by
    intro i j
    simp only [List.getD_eq_getElem?_getD] at ha hb hd
    fin_cases i <;> fin_cases j <;> simp [matOf, chol2, ha, hb, hd]
  refine ⟨⟨rfl, by simp [chol2]⟩, ?_, ?_⟩
  · ext i j
    simp only [mul_apply, transpose_apply, Fin.sum_univ_two, hmat]
    fin_cases i <;> fin_cases j
    · simp [e00, hsa]
    · simp [hs01, e10]; field_simp
    · simp [e10]; field_simp
    · simp [e11]
      have : b / Real.sqrt a * (b / Real.sqrt a) = b * b / a := by
        rw [div_mul_div_comm, hsa]
      rw [this, hsd]; ring
  · intro i j hij
    rw [hmat]
    fin_cases i <;> fin_cases j <;> simp_all

/-- `MOInv` for one parent with identity factors, and `MORoundsOk` for a round whose single
offspring descends from parent 0. -/
example : MOInv 2 (⟨2, [⟨0, [0, 0], [], false, 0⟩], [1], [[[1, 0], [0, 1]]], [[[1, 0], [0, 1]]],
    [[0, 0]], [1 / 5], MO.defaultParams 2 1 1⟩ : MO.State ℝ) := by
  have hI : matOf 2 ([[1, 0], [0, 1]] : List (List ℝ)) = 1 := by
    ext i j; fin_cases i <;> fin_cases j <;> simp [matOf]
  refine ⟨rfl, rfl, rfl, rfl, ?_, by simp⟩
  intro j hj
  have : j = 0 := by simpa using hj
  subst this
  exact ⟨⟨rfl, by simp⟩, ⟨rfl, by simp⟩, by simp [hI], rfl⟩

example (s : MO.State ℝ) (hs : s.parents.length = 1) (nobj : Nat)
    (sortND : List (MO.MInd ℝ) → List (List (MO.MInd ℝ))) (ind : List (MO.MInd ℝ) → List ℝ → Nat) :
    (∀ o ∈ ([⟨1, [1, 2], [], true, 0⟩] : List (MO.MInd ℝ)), o.pidx < s.parents.length ∧ o.x.length = 2) := by
  intro o ho; simp at ho; subst ho; simp [hs]

/-- `NormsOk` / `MORoundsOk` hold for the empty history (and recursively need only the per-round
conditions shown above). -/
example {φ : Type} (ord : FitOrd φ) (inv : Nat → List (List ℝ) → Option (List (List ℝ)))
    (s : Active.State φ ℝ) : NormsOk ord inv s [] ∧ NormsOk ord inv s [[]] := by
  simp [NormsOk]

/-! ### defaults and `__init__` establish the hypotheses used above -/

/-- Defaults of the active strategy (`__init__`, cma.py:630-666) lie in the ranges the theorems
assume, for every dimension and `lambda_`: `cp, ptarg ∈ [0,1]`, `0 < ccovp < 1`,
`ccovp(1 + cc(2 - cc)) < 1`, `ccovn > 0`. -/
theorem active_default_ranges (dim lambda : Nat) :
    0 ≤ (Active.defaultParams dim lambda : Active.Params ℝ).cp ∧
    (Active.defaultParams dim lambda : Active.Params ℝ).cp ≤ 1 ∧
    0 ≤ (Active.defaultParams dim lambda : Active.Params ℝ).ptarg ∧
    (Active.defaultParams dim lambda : Active.Params ℝ).ptarg ≤ 1 ∧
    0 < (Active.defaultParams dim lambda : Active.Params ℝ).ccovp ∧
    (Active.defaultParams dim lambda : Active.Params ℝ).ccovp < 1 ∧
    (Active.defaultParams dim lambda : Active.Params ℝ).ccovp
      * (1 + (Active.defaultParams dim lambda : Active.Params ℝ).cc
          * (2 - (Active.defaultParams dim lambda : Active.Params ℝ).cc)) < 1 ∧
    0 < (Active.defaultParams dim lambda : Active.Params ℝ).ccovn := by
  unfold Active.defaultParams
  simp only [RealLike.real_add, RealLike.real_mul, RealLike.real_div, RealLike.real_sub, RealLike.real_sqrt,
    RealLike.real_ofNat, RealLike.real_lit, RealLike.real_ofRatio, RealLike.real_pow]
  simp only [Nat.cast_ofNat, Nat.cast_one, Int.cast_ofNat]
  have hs : 0 ≤ Real.sqrt (lambda : ℝ) := Real.sqrt_nonneg _
  have hl : (0 : ℝ) ≤ lambda := Nat.cast_nonneg _
  have hn : (0 : ℝ) ≤ dim := Nat.cast_nonneg _
  have hnn : (0 : ℝ) ≤ ((dim * dim : ℕ) : ℝ) := Nat.cast_nonneg _
  have hden5 : (0 : ℝ) < 5 + Real.sqrt (lambda : ℝ) / 2 := by linarith
  have hp : 0 < 1 / ((5 : ℝ) + Real.sqrt (lambda : ℝ) / 2) := one_div_pos.2 hden5
  have hp1 : 1 / ((5 : ℝ) + Real.sqrt (lambda : ℝ) / 2) ≤ 1 := by
    rw [div_le_one hden5]; linarith
  have hx : 0 ≤ 1 / ((5 : ℝ) + Real.sqrt (lambda : ℝ) / 2) * (lambda : ℝ) := mul_nonneg hp.le hl
  have hden : 0 < 2 + 1 / ((5 : ℝ) + Real.sqrt (lambda : ℝ) / 2) * (lambda : ℝ) := by linarith
  have hc0 : (0 : ℝ) < 2 / (((dim * dim : ℕ) : ℝ) + 6) := by positivity
  have hc1 : (2 : ℝ) / (((dim * dim : ℕ) : ℝ) + 6) ≤ 1 / 3 := by
    rw [div_le_div_iff₀ (by positivity) (by norm_num)]; linarith
  have hk0 : (0 : ℝ) < 2 / ((dim : ℝ) + 2) := by positivity
  have hk1 : (2 : ℝ) / ((dim : ℝ) + 2) ≤ 1 := by
    rw [div_le_one (by positivity)]; linarith
  refine ⟨div_nonneg hx hden.le, (div_le_one hden).2 (by linarith), hp.le, hp1, hc0, by linarith, ?_, ?_⟩
  · nlinarith [mul_self_nonneg ((2 : ℝ) / ((dim : ℝ) + 2) - 1)]
  · have : (0 : ℝ) ≤ (dim : ℝ) ^ ((16 : ℝ) / 10) := Real.rpow_nonneg hn _
    positivity

/-- Defaults of the MO strategy (cma.py:373-384): `cp, ptarg ∈ [0,1]`, `0 < ccov < 1`,
`cc(2 - cc) ≥ 0`. -/
theorem mo_default_ranges (dim mu lambda : Nat) :
    0 ≤ (MO.defaultParams dim mu lambda : MO.Params ℝ).cp ∧
    (MO.defaultParams dim mu lambda : MO.Params ℝ).cp ≤ 1 ∧
    0 ≤ (MO.defaultParams dim mu lambda : MO.Params ℝ).ptarg ∧
    (MO.defaultParams dim mu lambda : MO.Params ℝ).ptarg ≤ 1 ∧
    0 < (MO.defaultParams dim mu lambda : MO.Params ℝ).ccov ∧
    (MO.defaultParams dim mu lambda : MO.Params ℝ).ccov < 1 ∧
    0 ≤ (MO.defaultParams dim mu lambda : MO.Params ℝ).cc
      * (2 - (MO.defaultParams dim mu lambda : MO.Params ℝ).cc) := by
  unfold MO.defaultParams
  simp only [RealLike.real_add, RealLike.real_mul, RealLike.real_div, RealLike.real_sub,
    RealLike.real_ofNat, RealLike.real_lit, RealLike.real_ofRatio]
  simp only [Nat.cast_ofNat, Nat.cast_one, Int.cast_one]
  have hn : (0 : ℝ) ≤ dim := Nat.cast_nonneg _
  have hnn : (0 : ℝ) ≤ ((dim * dim : ℕ) : ℝ) := Nat.cast_nonneg _
  have hc1 : (2 : ℝ) / (((dim * dim : ℕ) : ℝ) + 6) ≤ 1 / 3 := by
    rw [div_le_div_iff₀ (by positivity) (by norm_num)]; linarith
  have hk0 : (0 : ℝ) < 2 / ((dim : ℝ) + 2) := by positivity
  have hk1 : (2 : ℝ) / ((dim : ℝ) + 2) ≤ 1 := by
    rw [div_le_one (by positivity)]; linarith
  refine ⟨by norm_num, by norm_num, by norm_num, by norm_num, by positivity, by linarith, ?_⟩
  exact mul_nonneg hk0.le (by linarith)

/-- `__init__` of the three strategies starts the success rate at `ptarg`, which is in `[0,1]` for
the defaults — so the rate invariants (`psucc_sigma_history`, `active_psucc_sigma_history`,
`mo_psucc_sigma_history`) start from a state that satisfies their hypotheses. -/
theorem init_psucc_unit {φ : Type} (parent : Ind φ ℝ) (sigma : ℝ) (dim lambda mu : Nat)
    (steps : List ℝ) (pid : Nat) (px : List ℝ) (pfit : Option φ) (pop : List (MO.MInd ℝ)) :
    (0 ≤ (OnePlus.init parent sigma (OnePlus.defaultParams dim lambda)).psucc ∧
      (OnePlus.init parent sigma (OnePlus.defaultParams dim lambda)).psucc ≤ 1) ∧
    (0 ≤ (Active.init pid px pfit sigma steps (Active.defaultParams dim lambda)).psucc ∧
      (Active.init pid px pfit sigma steps (Active.defaultParams dim lambda)).psucc ≤ 1) ∧
    (∀ x ∈ (MO.init pop sigma dim (MO.defaultParams dim mu lambda)).psucc, 0 ≤ x ∧ x ≤ 1) ∧
    (0 < sigma → ∀ x ∈ (MO.init pop sigma dim (MO.defaultParams dim mu lambda)).sigmas, 0 < x) ∧
    (MO.init pop sigma dim (MO.defaultParams dim mu lambda)).psucc.length = pop.length ∧
    (MO.init pop sigma dim (MO.defaultParams dim mu lambda)).sigmas.length = pop.length := by
  obtain ⟨_, _, a3, a4, _⟩ := active_default_ranges dim lambda
  obtain ⟨_, _, m3, m4, _⟩ := mo_default_ranges dim mu lambda
  refine ⟨?_, ⟨a3, a4⟩, ?_, ?_, by simp [MO.init], by simp [MO.init]⟩
  · -- the (1+λ) default `ptarg` is the same expression as the active one
    have : (OnePlus.defaultParams dim lambda : OnePlus.Params ℝ).ptarg
        = (Active.defaultParams dim lambda : Active.Params ℝ).ptarg := rfl
    show 0 ≤ (OnePlus.defaultParams dim lambda : OnePlus.Params ℝ).ptarg ∧ _ ≤ 1
    rw [this]; exact ⟨a3, a4⟩
  · intro x hx
    simp only [MO.init, List.mem_replicate] at hx
    rw [hx.2]; exact ⟨m3, m4⟩
  · intro hs x hx
    simp only [MO.init, List.mem_replicate] at hx
    rw [hx.2]; exact hs

/-- The per-round side condition of `MORoundsOk` is what `generate` produces: every offspring tag
points at an existing parent and every offspring genome has dimension `n`, for a first-front
function that returns members of its input, at least one parent, and (when `lambda_ == mu`) at
least `mu` parents.  (`MORoundsOk` itself stays a hypothesis of the history theorems because it
speaks about the states *reached* during the run; this lemma discharges it round by round for
populations that come from `generate`.) -/
theorem generate_round_ok (n : Nat) (s : MO.State ℝ) (h : MOInv n s) (arz : List (List ℝ))
    (firstFront : List (MO.MInd ℝ) → List (MO.MInd ℝ)) (draws : List Nat)
    (hff : ∀ l, ∀ x ∈ firstFront l, x ∈ l) (hne : s.parents ≠ [])
    (hmu : s.prm.lambda = s.prm.mu → s.prm.mu ≤ s.parents.length) :
    ∀ o ∈ (MO.generate s arz firstFront draws).2, o.2 < s.parents.length ∧ o.1.length = n := by
  have hxlen : ∀ p z, p < s.parents.length → (MO.offspringX (MO.retag s) p z).length = n := by
    intro p z hp
    have hp' : p < (MO.retag s).parents.length := by rw [retag_length]; exact hp
    have hr := moInv_retag n s h
    have hx : ((MO.retag s).parents.getD p ⟨0, [], [], false, 0⟩).x.length = n := by
      rw [List.getD_eq_getElem _ _ hp']; exact hr.px _ (List.getElem_mem hp')
    have hA : ((MO.retag s).A.getD p []).length = n := (h.pair p hp).2.1.1
    unfold MO.offspringX
    simp only [List.getD_eq_getElem?_getD] at hx hA ⊢
    simp [hx, hA]
  unfold MO.generate
  simp only
  split
  · next heq =>
    intro o ho
    simp only [List.mem_map] at ho
    obtain ⟨⟨z, k⟩, hz, rfl⟩ := ho
    obtain ⟨_, hk, _⟩ := List.mem_zipIdx hz
    simp only [Nat.zero_add, List.length_take] at hk
    have hk' : k < s.parents.length := by
      have := hmu heq; omega
    exact ⟨hk', hxlen k z hk'⟩
  · intro o ho
    simp only [List.mem_map] at ho
    obtain ⟨⟨z, j⟩, _, rfl⟩ := ho
    have hp : ((firstFront (MO.retag s).parents).getD j ⟨0, [], [], false, 0⟩).pidx < s.parents.length := by
      by_cases hj : j < (firstFront (MO.retag s).parents).length
      · rw [List.getD_eq_getElem _ _ hj]
        exact (retag_mem s _ (hff _ _ (List.getElem_mem hj))).1
      · rw [List.getD_eq_default _ _ (not_lt.1 hj)]
        exact List.length_pos_iff.2 hne
    exact ⟨hp, hxlen _ z hp⟩

/-- `NormsOk` on a real round: identity factors, `pc = 0` (as after `__init__`), `cc = 1/2`, and one
offspring with `_y = _z = [1, 0]`: both norms the code divides by are non-zero. -/
example : NormsOk intOrd (fun _ _ => none)
    (⟨2, 0, [1, 1], none, 1 / 2, [[1, 0], [0, 1]], [[1, 0], [0, 1]], [0, 0], 1 / 5, [0, 0], [], none, [],
      ⟨1, 1 / 2, 1 / 5, 1 / 10, 1 / 4, 11 / 25, 2, 1 / 5, 1 / 12, 1 / 40⟩⟩ : Active.State Int ℝ)
    [[⟨1, [2, 1], some 5, [], [1, 0], [1, 0], true⟩]] := by
  refine ⟨?_, trivial⟩
  intro i hi
  simp only [List.mem_singleton] at hi
  subst hi
  refine ⟨by simp [normSq_cons, normSq_nil], fun ps => ?_⟩
  obtain ⟨e1, _, e3, _⟩ := positiveABW_spec
    (⟨1, 1 / 2, 1 / 5, 1 / 10, 1 / 4, 11 / 25, 2, 1 / 5, 1 / 12, 1 / 40⟩ : Active.Params ℝ) ps [0, 0]
    [[1, 0], [0, 1]] [1, 0]
  have hclose : Active.allClose0 ([0, 0] : List ℝ) = true := by
    simp [Active.allClose0, RealLike.real_ofRatio]
  obtain ⟨e, _, _⟩ := e3 (Or.inr hclose)
  rw [e1, e]
  have hk : ¬ Real.sqrt ((2 : ℝ) - 2⁻¹) = 0 := by
    apply (Real.sqrt_pos.2 _).ne'; norm_num
  simp [matVec, dot_eq_list, vadd_eq, vscale_eq, normSq_cons, normSq_nil, hk]

end Examples

/-! ## 7. `_select` composed with the library's own sort (C04) and hypervolume indicator (C15) -/
section Compose
open CmaElitist CmaElitist.MO CmaElitist.MOLib NDSort Hypervolume C14Select C14Compose

/-- With at most `mu` candidates the composed `_select` keeps everything (cma.py:434-435). -/
theorem mo_select_library_small (mu m : Nat) (cands : List Cand) (h : cands.length ≤ mu) :
    MOLib.select mu m cands = some (cands, []) := by
  simp [MOLib.select, h]

/-- **`_select` with the library's own components — no contract hypothesis left.**
`MOLib.select` is `_select` (cma.py:433-472) with the C04 model of
`sortLogNondominated(candidates, len(candidates))` as the ranking and the C15 model of
`tools.hypervolume(front, ref=ref)` (`leastContributor` over exact scalars) as the indicator.  For
more than `mu` candidates whose fitnesses have `m ≥ 2` objectives:
* the sort finishes and its fronts `F` are, front by front, the Pareto ranking by peeling: front `i`
  holds exactly the candidates of dominance depth `i` (`C04.sortLog_eq_peel`,
  `C04.sortLog_front_iff_depth`), so the number `j` of leading fronts that fit entirely is the
  number of leading depth classes that fit;
* if these fill `mu` exactly, they are the chosen ones, every later front is discarded;
* otherwise front `j` is split: `|mid| - k` times (`k = mu - |whole|` free places) ONE individual is
  removed whose removal loses the LEAST hypervolume — hypervolume of the negated weighted values
  w.r.t. the reference point "worst + 1 over all candidates", measured by `hvCells`
  (= Lebesgue measure of the dominated region, `C15.hvCells_eq_volume`); the first such individual
  (`C15.indicator_least`) — this is `LeastDrops`; the chosen ones are the whole fronts followed by
  the `k` survivors, the discarded ones the later fronts followed by the removed individuals. -/
theorem mo_select_library (mu m : Nat) (cands : List Cand) (hm : 2 ≤ m)
    (hlen : ∀ c ∈ cands, c.w.length = m) (hc : mu < cands.length) :
    ∃ F, sortLog cands cands.length = some F ∧ List.Forall₂ List.Perm F (peel domI cands) ∧
      (∀ i f, F[i]? = some f → ∀ c, c ∈ f ↔ c ∈ cands ∧ depth domI cands c = i) ∧
      wholeCount mu F 0 = wholeCount mu (peel domI cands) 0 ∧
      (let j := wholeCount mu F 0
       let whole := (F.take j).flatten
       whole.length ≤ mu ∧
       (whole.length = mu → MOLib.select mu m cands = some (whole, (F.drop j).flatten)) ∧
       (whole.length < mu → ∃ mid rest mid' removed,
          F.drop j = mid :: rest ∧ mu - whole.length < mid.length ∧
          LeastDrops (refPoint cands) (mid.length - (mu - whole.length)) mid mid' removed ∧
          mid'.length = mu - whole.length ∧
          MOLib.select mu m cands = some (whole ++ mid', rest.flatten ++ removed))) := by
  have hne : cands ≠ [] := by intro e; subst e; simp at hc
  obtain ⟨F, hF, hP, hperm, hdepth⟩ := sort_all m cands hm hne hlen
  have hsel : MOLib.select mu m cands = selectFronts mu F (indicator m (refPoint cands)) cands := by
    unfold MOLib.select; rw [if_neg (by omega), hF]
  have hf : mu < F.flatten.length := by rw [hperm.length_eq]; exact hc
  have hind : ∀ l, l ≠ [] → indicator m (refPoint cands) l < l.length :=
    fun l hl => indicator_lt m _ l hl
  obtain ⟨r1, r2, r3⟩ := mo_rank_then_hv mu F (indicator m (refPoint cands)) cands hc hf hind
  refine ⟨F, hF, hP, hdepth, wholeCount_congr mu F _ 0 hP, ?_⟩
  intro j whole
  refine ⟨r1, fun h => by rw [hsel]; exact r2 h, fun h => ?_⟩
  obtain ⟨mid, rest, mid', removed, e1, e2, e3, e4, e5, e6⟩ := r3 h
  have hmid : ∀ c ∈ mid, c.w.length = m := by
    intro c hcm
    have h1 : mid ∈ F.drop j := by rw [e1]; simp
    have h2 : mid ∈ F := List.mem_of_mem_drop h1
    exact hlen c (hperm.mem_iff.1 (List.mem_flatten.2 ⟨mid, h2, hcm⟩))
  obtain ⟨mid'', removed'', d1, d2⟩ := dropLeast_least m (refPoint cands)
    (mid.length - (mu - whole.length)) mid rest.flatten (by omega) hmid
  rw [e3] at d1
  simp only [Option.some.injEq, Prod.mk.injEq, List.append_cancel_left_eq] at d1
  obtain ⟨rfl, rfl⟩ := d1
  exact ⟨mid, rest, mid', removed, e1, e2, d2, e4, by rw [hsel]; exact e6⟩

/-- The composed `_select` keeps exactly `mu` parents and loses nobody. -/
theorem mo_select_library_count (mu m : Nat) (cands : List Cand) (hm : 2 ≤ m)
    (hlen : ∀ c ∈ cands, c.w.length = m) (hc : mu < cands.length) :
    ∃ chosen notChosen, MOLib.select mu m cands = some (chosen, notChosen) ∧
      chosen.length = mu ∧ (chosen ++ notChosen).Perm cands := by
  have hne : cands ≠ [] := by intro e; subst e; simp at hc
  obtain ⟨F, hF, hP, hperm, hdepth⟩ := sort_all m cands hm hne hlen
  have hsel : MOLib.select mu m cands = selectFronts mu F (indicator m (refPoint cands)) cands := by
    unfold MOLib.select; rw [if_neg (by omega), hF]
  obtain ⟨ch, nc, h1, h2, h3⟩ := mo_select_count mu F (indicator m (refPoint cands)) cands hc
    (by rw [hperm.length_eq]; exact hc) (fun l hl => indicator_lt m _ l hl)
  exact ⟨ch, nc, by rw [hsel]; exact h1, h2, h3.trans hperm⟩

/-- **Ranks first.**  With `j` = the number of leading Pareto-depth classes that fit into `mu`
entirely: every chosen candidate has depth `≤ j`, every discarded one depth `≥ j`; hence every
candidate of depth `< j` is kept and every candidate of depth `> j` is discarded — only the class
of depth `j` is split (by the hypervolume indicator, `mo_select_library`). -/
theorem mo_select_library_ranks (mu m : Nat) (cands : List Cand) (hm : 2 ≤ m)
    (hlen : ∀ c ∈ cands, c.w.length = m) (hc : mu < cands.length) :
    ∃ chosen notChosen, MOLib.select mu m cands = some (chosen, notChosen) ∧
      (let j := wholeCount mu (peel domI cands) 0
       (∀ c ∈ chosen, depth domI cands c ≤ j) ∧ (∀ c ∈ notChosen, j ≤ depth domI cands c) ∧
       (∀ c ∈ cands, depth domI cands c < j → c ∈ chosen) ∧
       (∀ c ∈ cands, j < depth domI cands c → c ∈ notChosen)) := by
  obtain ⟨F, hF, hP, hdepth, hj, hsel⟩ := mo_select_library mu m cands hm hlen hc
  obtain ⟨ch, nc, hs, _, hperm⟩ := mo_select_library_count mu m cands hm hlen hc
  refine ⟨ch, nc, hs, ?_⟩
  intro j
  have key : (∀ c ∈ ch, depth domI cands c ≤ j) ∧ (∀ c ∈ nc, j ≤ depth domI cands c) := by
    simp only at hsel
    obtain ⟨s1, s2, s3⟩ := hsel
    rw [hj] at s1 s2 s3
    rcases Nat.lt_or_ge ((F.take j).flatten.length) mu with hlt | hge
    · obtain ⟨mid, rest, mid', removed, e1, e2, e3, e4, e5⟩ := s3 hlt
      rw [hs] at e5
      simp only [Option.some.injEq, Prod.mk.injEq] at e5
      obtain ⟨rfl, rfl⟩ := e5
      obtain ⟨g1, g2⟩ := drop_cons_getElem? F j mid rest e1
      have hmidd : ∀ c ∈ mid, depth domI cands c = j := fun c hcm => ((hdepth j mid g1 c).1 hcm).2
      obtain ⟨pm, _, _⟩ := e3.perm
      constructor
      · intro c hcm
        rcases List.mem_append.1 hcm with h1 | h1
        · obtain ⟨i, f, hi, hf, hcf⟩ := mem_take_flatten F j c h1
          have := ((hdepth i f hf c).1 hcf).2
          omega
        · exact Nat.le_of_eq (hmidd c (pm.subset (List.mem_append_left _ h1)))
      · intro c hcm
        rcases List.mem_append.1 hcm with h1 | h1
        · rw [← g2] at h1
          obtain ⟨i, f, hi, hf, hcf⟩ := mem_drop_flatten F (j + 1) c h1
          have := ((hdepth i f hf c).1 hcf).2
          omega
        · exact Nat.le_of_eq (hmidd c (pm.subset (List.mem_append_right _ h1))).symm
    · have heq := s2 (Nat.le_antisymm s1 hge)
      rw [hs] at heq
      simp only [Option.some.injEq, Prod.mk.injEq] at heq
      obtain ⟨rfl, rfl⟩ := heq
      constructor
      · intro c hcm
        obtain ⟨i, f, hi, hf, hcf⟩ := mem_take_flatten F j c hcm
        have := ((hdepth i f hf c).1 hcf).2
        omega
      · intro c hcm
        obtain ⟨i, f, hi, hf, hcf⟩ := mem_drop_flatten F j c hcm
        have := ((hdepth i f hf c).1 hcf).2
        omega
  refine ⟨key.1, key.2, fun c hcc hd => ?_, fun c hcc hd => ?_⟩
  · rcases List.mem_append.1 (hperm.mem_iff.2 hcc) with h1 | h1
    · exact h1
    · have := key.2 c h1; omega
  · rcases List.mem_append.1 (hperm.mem_iff.2 hcc) with h1 | h1
    · have := key.1 c h1; omega
    · exact h1

/-- The indicator of the composed model IS C15's `leastContributor`, whatever weights and raw values
produced the weighted values the front carries (`indicator.py` reads `fitness.wvalues` only). -/
theorem mo_indicator_is_library (m : Nat) (ref : List ℚ) (front : List Cand)
    (hlen : ∀ c ∈ front, c.w.length = m) (weights : List ℚ) (vals : List (List ℚ))
    (h : vals.map (wvalues weights) = front.map (fun c => c.w)) :
    leastContributor weights vals (some ref) = indicator m ref front :=
  indicator_any_weights m ref front hlen weights vals h

/-- The reference point of `_select` (cma.py:463-464): in every objective the worst negated weighted
value over ALL candidates (not only the mid front) plus one. -/
theorem mo_ref_point (m : Nat) (cands : List Cand) (hne : cands ≠ []) (hlen : ∀ c ∈ cands, c.w.length = m) :
    (refPoint cands).length = m ∧
    ∀ j < m, (∀ q ∈ negW cands, q.getD j 0 + 1 ≤ (refPoint cands).getD j 0) ∧
      (∃ q ∈ negW cands, (refPoint cands).getD j 0 = q.getD j 0 + 1) :=
  refPoint_spec m cands hne hlen

/-- The hypotheses of the composition theorems are satisfiable: five bi-objective candidates, two
places. -/
example : (2 : Nat) ≤ 2 ∧
    (∀ c ∈ mkCands [[-1, -3], [-2, -2], [-3, -1], [-2, -5/2], [0, 0]], c.w.length = 2) ∧
    2 < (mkCands [[-1, -3], [-2, -2], [-3, -1], [-2, -5/2], [0, 0]]).length := by
  refine ⟨Nat.le_refl 2, ?_, by decide⟩
  intro c hc
  simp [mkCands, List.zipIdx] at hc
  rcases hc with rfl | rfl | rfl | rfl | rfl <;> rfl

end Compose

/-! ## 8. Elitism composed with C01's order on multi-valued fitnesses -/
section Lex
variable {α β : Type} [LinearOrder α] [RealLike β]

/-- The comparison operators of `deap.base.Fitness` as modelled for C01 (`Core/Fitness.lean`):
`__le__` / `__lt__` = Python tuple comparison of the weighted values, any number of objectives. -/
def fitOrd (α : Type) [LinearOrder α] : FitOrd (Fitness.Fit α) := ⟨Fitness.le, Fitness.lt⟩

/-- C01 ⇒ the hypothesis of the elitism theorems: the library's fitness comparison is a total
preorder whose `<` is the strict part of `<=` — for tuples of ANY length (single-objective,
multi-objective, even tuples of different lengths), by `C01.lt_trichotomy`, `C01.lt_trans`,
`C01.le_iff_lt_or_eq`, `C01.gt_iff_swap`. -/
theorem fitOrd_total : TotalPre (fitOrd α) := by
  have hle : ∀ a b : Fitness.Fit α, Fitness.le a b = true ↔ a.wvalues ≤ b.wvalues := by
    intro a b
    rw [C01.le_iff_lt_or_eq, C01.lt_iff_lex, C01.eq_iff]
    exact (_root_.le_iff_lt_or_eq).symm
  refine ⟨fun a b => ?_, fun a b c h1 h2 => ?_, fun a b => ?_⟩
  · show Fitness.le a b = true ∨ Fitness.le b a = true
    rw [hle, hle]; exact le_total _ _
  · show Fitness.le a c = true
    have h1' : Fitness.le a b = true := h1
    have h2' : Fitness.le b c = true := h2
    rw [hle] at h1' h2' ⊢; exact le_trans h1' h2'
  · show Fitness.lt a b = !Fitness.le b a
    exact (C01.gt_iff_swap b a).symm

/-- In terms of the weighted values: `<=` of the fitness class is the lexicographic order. -/
theorem fitOrd_le_iff (a b : Fitness.Fit α) : (fitOrd α).le a b = true ↔ a.wvalues ≤ b.wvalues := by
  show Fitness.le a b = true ↔ _
  rw [C01.le_iff_lt_or_eq, C01.lt_iff_lex, C01.eq_iff]
  exact (_root_.le_iff_lt_or_eq).symm

/-- **(1+λ), whole histories, multi-valued fitness.**  `elitist_never_worse` with the library's
own fitness comparison (C01's model) in place of an abstract total preorder — no hypothesis on the
order is left: over any sequence of non-empty evaluated populations whose individuals carry
fitnesses of any number of objectives, the run succeeds; the parent's weighted-value tuple never
decreases in the lexicographic order; it is at least every tuple evaluated so far; and the parent
(id, genome, fitness together) is the initial parent or one of the evaluated individuals. -/
theorem elitist_never_worse_lex (chol : List (List β) → List (List β))
    (s : OnePlus.State (Fitness.Fit α) β) (rounds : List (List (Ind (Fitness.Fit α) β)))
    (hne : ∀ p ∈ rounds, p ≠ []) :
    ∃ s', OnePlus.run (fitOrd α) chol s rounds = some s' ∧
      s.parent.fit.wvalues ≤ s'.parent.fit.wvalues ∧
      (∀ p ∈ rounds, ∀ i ∈ p, i.fit.wvalues ≤ s'.parent.fit.wvalues) ∧
      (s'.parent = s.parent ∨ ∃ p ∈ rounds, s'.parent ∈ p) := by
  obtain ⟨s', h1, h2, h3, h4⟩ := elitist_never_worse (fitOrd_total (α := α)) chol s rounds hne
  exact ⟨s', h1, (fitOrd_le_iff _ _).1 h2, fun p hp i hi => (fitOrd_le_iff _ _).1 (h3 p hp i hi), h4⟩

/-- **Active (1+λ), whole histories, multi-valued fitness**: the same for
`StrategyActiveOnePlusLambda` (only valid individuals compete; among valid fitnesses
`ConstrainedFitness` compares like `Fitness`, `C01.constrained_neither`). -/
theorem active_elitist_never_worse_lex (inv : Nat → List (List β) → Option (List (List β)))
    (s : Active.State (Fitness.Fit α) β) (rounds : List (List (Active.AInd (Fitness.Fit α) β))) :
    (∀ pf, s.parentFit = some pf →
      ∃ f, (Active.run (fitOrd α) inv s rounds).parentFit = some f ∧ pf.wvalues ≤ f.wvalues) ∧
    (∀ p ∈ rounds, ∀ i ∈ p, ∀ fi, i.fit = some fi →
      ∃ f, (Active.run (fitOrd α) inv s rounds).parentFit = some f ∧ fi.wvalues ≤ f.wvalues) ∧
    (triple (Active.run (fitOrd α) inv s rounds) = triple s ∨
      ∃ p ∈ rounds, ∃ i ∈ p, i.fit.isSome = true ∧
        triple (Active.run (fitOrd α) inv s rounds) = (i.id, i.x, i.fit)) := by
  obtain ⟨h1, h2, h3⟩ := active_elitist_never_worse (fitOrd_total (α := α)) inv s rounds
  refine ⟨fun pf hpf => ?_, fun p hp i hi fi hfi => ?_, h3⟩
  · obtain ⟨f, e1, e2⟩ := h1 pf hpf; exact ⟨f, e1, (fitOrd_le_iff _ _).1 e2⟩
  · obtain ⟨f, e1, e2⟩ := h2 p hp i hi fi hfi; exact ⟨f, e1, (fitOrd_le_iff _ _).1 e2⟩

/-- The comparison operators of `deap.base.ConstrainedFitness` as modelled for C01 (what the
constrained tests give the individuals of the active strategy). -/
def cfitOrd (α : Type) [LinearOrder α] : FitOrd (Fitness.CFit α) := ⟨Fitness.cle, Fitness.clt⟩

/-- C01 ⇒ `ConstrainedFitness` comparison is a total preorder too: violating fitnesses are equal to
each other and below every non-violating one (`C01.constrained_table`, `constrained_both`), the
non-violating ones compare lexicographically (`C01.constrained_neither`). -/
theorem cfitOrd_total : TotalPre (cfitOrd α) := by
  have hp := fitOrd_total (α := α)
  refine ⟨fun a b => ?_, fun a b c h1 h2 => ?_, fun a b => ?_⟩
  · show Fitness.cle a b = true ∨ Fitness.cle b a = true
    cases ha : Fitness.violates a <;> cases hb : Fitness.violates b
    · rw [(C01.constrained_neither a b ha hb).2.1, (C01.constrained_neither b a hb ha).2.1]
      exact hp.total a.base b.base
    · right; exact (C01.constrained_table b a hb ha).2.2.2.2.2.1
    · left; exact (C01.constrained_table a b ha hb).2.2.2.2.2.1
    · left; exact (C01.constrained_both a b ha hb).2.2.2.2.1
  · show Fitness.cle a c = true
    have h1' : Fitness.cle a b = true := h1
    have h2' : Fitness.cle b c = true := h2
    cases ha : Fitness.violates a
    · cases hb : Fitness.violates b
      · cases hc : Fitness.violates c
        · rw [(C01.constrained_neither a b ha hb).2.1] at h1'
          rw [(C01.constrained_neither b c hb hc).2.1] at h2'
          rw [(C01.constrained_neither a c ha hc).2.1]
          exact hp.trans a.base b.base c.base h1' h2'
        · rw [(C01.constrained_table c b hc hb).2.2.2.2.2.2.2.2.2.2.2.2] at h2'; cases h2'
      · rw [(C01.constrained_table b a hb ha).2.2.2.2.2.2.2.2.2.2.2.2] at h1'; cases h1'
    · cases hc : Fitness.violates c
      · exact (C01.constrained_table a c ha hc).2.2.2.2.2.1
      · exact (C01.constrained_both a c ha hc).2.2.2.2.1
  · show Fitness.clt a b = !Fitness.cle b a
    cases ha : Fitness.violates a <;> cases hb : Fitness.violates b
    · rw [(C01.constrained_neither a b ha hb).1, (C01.constrained_neither b a hb ha).2.1]
      exact hp.lt_iff a.base b.base
    · rw [(C01.constrained_table b a hb ha).2.2.2.2.2.2.2.2.2.2.2.1,
        (C01.constrained_table b a hb ha).2.2.2.2.2.1]; rfl
    · rw [(C01.constrained_table a b ha hb).2.2.2.2.1,
        (C01.constrained_table a b ha hb).2.2.2.2.2.2.2.2.2.2.2.2]; rfl
    · rw [(C01.constrained_both a b ha hb).2.1, (C01.constrained_both b a hb ha).2.2.2.2.1]; rfl

/-- Among non-violating constrained fitnesses `<=` is the lexicographic order of the weighted values. -/
theorem cfitOrd_le_iff (a b : Fitness.CFit α) (ha : Fitness.violates a = false) (hb : Fitness.violates b = false) :
    (cfitOrd α).le a b = true ↔ a.wvalues ≤ b.wvalues := by
  show Fitness.cle a b = true ↔ _
  rw [(C01.constrained_neither a b ha hb).2.1]
  exact fitOrd_le_iff a.base b.base

/-- **Active (1+λ), whole histories, `ConstrainedFitness`**: `active_elitist_never_worse` with the
library's constrained fitness comparison (C01's model) — no hypothesis on the order. -/
theorem active_elitist_never_worse_constrained (inv : Nat → List (List β) → Option (List (List β)))
    (s : Active.State (Fitness.CFit α) β) (rounds : List (List (Active.AInd (Fitness.CFit α) β))) :
    (∀ pf, s.parentFit = some pf →
      ∃ f, (Active.run (cfitOrd α) inv s rounds).parentFit = some f ∧ (cfitOrd α).le pf f = true) ∧
    (∀ p ∈ rounds, ∀ i ∈ p, ∀ fi, i.fit = some fi →
      ∃ f, (Active.run (cfitOrd α) inv s rounds).parentFit = some f ∧ (cfitOrd α).le fi f = true) ∧
    (triple (Active.run (cfitOrd α) inv s rounds) = triple s ∨
      ∃ p ∈ rounds, ∃ i ∈ p, i.fit.isSome = true ∧
        triple (Active.run (cfitOrd α) inv s rounds) = (i.id, i.x, i.fit)) :=
  active_elitist_never_worse (cfitOrd_total (α := α)) inv s rounds

/-- Non-vacuity: a two-round history of bi-objective fitnesses (ties in the first objective). -/
example : ∀ p ∈ ([[⟨1, [0.0], ⟨[-1, -2]⟩, [], []⟩, ⟨2, [1.0], ⟨[-1, -1]⟩, [], []⟩], [⟨3, [2.0], ⟨[0, -5]⟩, [], []⟩]] :
    List (List (Ind (Fitness.Fit Int) Float))), p ≠ [] := by
  intro p hp
  simp only [List.mem_cons, List.not_mem_nil, or_false] at hp
  rcases hp with rfl | rfl <;> simp

end Lex

end C14
