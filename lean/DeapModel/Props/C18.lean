/-
C18 — Logbook and statistics record every entry once, in order, chapters aligned.
Property theorems only; the model is `DeapModel/Core/Logbook.lean`, helper lemmas are in
`DeapModel/Lemmas/C18*.lean`.

Histories are lists of `Logbook.Op` of ANY length.  `specRun ops` is the list of surviving
records computed by plain list semantics (append / erase a position / remove a set of positions);
the theorems say that the logbook, its chapters, its selections and its stream are the image of
that list.

Premises (DESIGN §6), all visible as hypotheses:
* `Valid C [] ops` — every record of the history carries exactly the chapter names `C` with
  distinct keys, its dictionaries holding scalars only (no sub-chapters); the index list of a
  slice is what `slice.indices` yields (distinct, in range).  `pop`, `del [i]`, `del [slice]` are
  all admitted on logbooks WITH chapters (since the repair F18 `pop` removes the row from every
  chapter too); out-of-range integer indices are allowed (they raise and change nothing).
* sub-chapters: `pop_exact_deep` / `del_exact_deep` hold for every logbook whose chapters are
  aligned at every depth (`DeepAligned`), however deep; that `record` builds such logbooks from
  records with sub-dictionaries is checked by the correspondence harness only.
* stream theorems: `stream_positional` needs only `Valid`; `stream_at_most_once` /
  `stream_exactly_once` speak about the delivered rows as VALUES and additionally need the recorded
  rows to be pairwise different (each record carries its
  own id), so that "delivered once" is observable.  (Alignment matters since F18: on a logbook
  with a misaligned chapter `pop` moves `buffindex` and then raises.)
* `header_once` holds at full strength, for every history, since the repair of F5 (the stream
  keeps `header_streamed`); `old_rule_header_twice` records what the former rule did.
* the TEXT (`Core/LogbookText.lean`, the complete `__txt__`): `txt_shape`, `str_all_rows`, `row_line_cells`,
  `chapter_text_aligned` hold for every logbook aligned at every depth (`DeepAligned`, any depth of
  sub-chapters), every rendering `fmt` of names and values, every `columns_len` state; `stream_text_once`
  lifts `stream_exactly_once` and `header_once` to the returned lines for valid histories, `stream_text_deep`
  is the positional form for histories over records with sub-dictionaries.
-/
import DeapModel.Lemmas.C18Aux
import DeapModel.Lemmas.C18Text
import DeapModel.Lemmas.C18Stats
import DeapModel.Lemmas.C18Gen   -- helper lemmas of the translator tie (GenEq/C18.lean.tmpl), built by lake through this import

set_option linter.unusedSectionVars false
set_option linter.unusedSimpArgs false
set_option linter.unusedVariables false

namespace C18
open Logbook C18L

/-! ### Records in order -/

/-- A logbook returns its records in the order they were entered: after any valid history the
rows are the scalar parts of the surviving records, in order. -/
theorem rows_in_order (C : List Name) (ops : List Op) (hv : Valid C [] ops) :
    (run ops).rows = (specRun ops).map Entry.scalars :=
  (history_rep ops (Rep.empty C) hv).rows

/-- Without any premise: a history of `record` calls alone yields exactly the recorded scalar
parts, chronologically (whatever the chapters of the records are). -/
theorem rows_in_order_records (es : List Entry) :
    (run (es.map Op.record)).rows = es.map Entry.scalars := by
  have key : ∀ (lb : LB), (runFrom lb (es.map Op.record)).rows = lb.rows ++ es.map Entry.scalars := by
    induction es with
    | nil => intro lb; simp [runFrom]
    | cons e es ih =>
      intro lb
      have : runFrom lb ((e :: es).map Op.record) = runFrom (record e lb) (es.map Op.record) := rfl
      rw [this, ih]
      simp [record, recordAux_rows]
  simpa [run, LB.empty] using key LB.empty

/-! ### Selection -/

/-- Selecting one name returns the chronological column of that name, `none` where a record
lacks it; several names (or none) return the tuple of such columns. -/
theorem select_column (lb : LB) (n : Name) (ns : List Name) (hns : ns.length ≠ 1) :
    select [n] lb = .single (lb.rows.map (dictGet · n)) ∧
    select ns lb = .multi (ns.map fun m => lb.rows.map (dictGet · m)) := by
  refine ⟨rfl, ?_⟩
  match ns, hns with
  | [], _ => rfl
  | [_], h => exact absurd rfl h
  | _ :: _ :: _, _ => rfl

/-- … and, along a valid history, that column is the column of the surviving records. -/
theorem select_history (C : List Name) (ops : List Op) (hv : Valid C [] ops) (n : Name) :
    select [n] (run ops) = .single ((specRun ops).map fun e => dictGet e.scalars n) := by
  simp only [select, column, rows_in_order C ops hv, List.map_map, Function.comp_def]

/-- Selection in a chapter: the column over what the records contributed to that chapter. -/
theorem select_chapter (C : List Name) (ops : List Op) (hv : Valid C [] ops) (c : Name) (hc : c ∈ C)
    (ch : LB) (hch : getChapter c (run ops).chapters = some ch) (n : Name) :
    (match select [n] ch with | .single col => col.map some | .multi _ => []) =
      (specRun ops).map fun e => (chapterRow c e).map (dictGet · n) := by
  have h := (history_rep ops (Rep.empty C) hv).chapters c hc
  simp only [chRows, run] at h hch
  simp only [run, hch, Option.map_some, Option.getD_some] at h
  simp only [select, column]
  have := congrArg (List.map (Option.map (dictGet · n))) h
  simpa [List.map_map, Function.comp_def, specRun] using this

/-! ### Chapters -/

/-- Dictionary-valued entries go to the chapter of that name, which receives the record's scalar
fields too: along a valid history chapter `c` holds, in order, for every surviving record the
dictionary's scalar entries updated with the record's scalar fields (`chapterRow`). -/
theorem chapter_fields (C : List Name) (ops : List Op) (hv : Valid C [] ops) (c : Name) (hc : c ∈ C) :
    (chRows c (run ops)).map some = (specRun ops).map (chapterRow c) :=
  (history_rep ops (Rep.empty C) hv).chapters c hc

/-- what `chapterRow` is, spelled out -/
theorem chapterRow_eq (c : Name) (e : Entry) (sub : Entry) (h : e.dicts.lookup c = some sub) :
    chapterRow c e = some (dictUpdate sub.scalars e.scalars) := by
  simp [chapterRow, h]

/-- the scalar fields of the record are in the chapter row (they win over equal keys of the
dictionary); keys of the dictionary that are not scalar fields of the record keep their value -/
theorem chapter_row_get (sub e : Row) (he : (e.map (·.1)).Nodup) (k : Name) :
    dictGet (dictUpdate sub e) k = (dictGet e k).or (dictGet sub k) := by
  induction e generalizing sub with
  | nil => simp [dictGet, List.lookup]
  | cons p ps ih =>
    obtain ⟨a, b⟩ := p
    simp only [List.map_cons, List.nodup_cons] at he
    have hu : dictUpdate sub ((a, b) :: ps) = dictUpdate (dictSet sub a b) ps := rfl
    rw [hu]
    by_cases h : k = a
    · subst h
      rw [dictGet_dictUpdate_of_not_mem _ _ _ he.1, dictGet_dictSet]
      simp [dictGet, List.lookup]
    · have hb : (k == a) = false := by simpa using h
      rw [ih _ he.2, dictGet_dictSet, if_neg h]
      simp [dictGet, List.lookup, hb]

/-- A chapter always has as many records as the logbook — after any valid history of records,
index deletions, slice deletions, streams, selections, pickling — and there are no chapters
other than those the records name. -/
theorem chapters_aligned (C : List Name) (ops : List Op) (hv : Valid C [] ops) :
    (∀ q ∈ (run ops).chapters, q.2.rows.length = (run ops).rows.length) ∧
    (∀ q ∈ (run ops).chapters, q.1 ∈ C) ∧
    (∀ c ∈ C, (chRows c (run ops)).length = (run ops).rows.length) := by
  have h := history_rep ops (Rep.empty C) hv
  refine ⟨h.aligned, fun q hq => h.keys q.1 (List.mem_map_of_mem hq), ?_⟩
  intro c hc
  have := congrArg List.length (h.chapters c hc)
  simpa [run, h.rows] using this

/-! ### Deletion removes exactly the addressed records -/

/-- `del logbook[i]` and `logbook.pop(i)` with an in-range index (positive or negative) on a
logbook — with or without chapters — that is the image of records `es`: nothing is raised, `pop`
returns the addressed record, position `p` (the normalised index) leaves the logbook and every
chapter, everything else stays in order. -/
theorem del_exact_index (C : List Name) (lb : LB) (es : List Entry) (h : Rep C lb es) (i : Int)
    (p : Nat) (hp : pos? lb.rows.length i = some p) :
    (delIndex i lb).2 = false ∧ (delIndex i lb).1.rows = lb.rows.eraseIdx p ∧
    (∀ c ∈ C, chRows c (delIndex i lb).1 = (chRows c lb).eraseIdx p) ∧
    Rep C (delIndex i lb).1 (es.eraseIdx p) ∧
    (pop i lb).1 = lb.rows[p]? ∧ (pop i lb).2 = (delIndex i lb).1 := by
  have hlen : lb.rows.length = es.length := by rw [h.rows, List.length_map]
  obtain ⟨h1, h2, h3⟩ := h.delIndex i p (hlen ▸ hp)
  refine ⟨h2, by rw [h1.rows, h.rows, eraseIdx_map], ?_, h1, by rw [h3], (delIndex_eq_pop lb i).symm⟩
  intro c hc
  apply map_some_inj
  rw [h1.chapters c hc, ← eraseIdx_map, ← eraseIdx_map, h.chapters c hc]

/-- an out-of-range index raises and changes nothing -/
theorem del_out_of_range (C : List Name) (lb : LB) (es : List Entry) (h : Rep C lb es) (i : Int)
    (hp : pos? lb.rows.length i = none) :
    delIndex i lb = (lb, true) ∧ pop i lb = (none, lb) :=
  ⟨delIndex_out lb i h.deep hp, pop_out_deep i lb h.deep hp⟩

/-- `del logbook[slice]`, `idx` being the positions `range(*slice.indices(len))` of any slice
(any start/stop, positive or negative step): nothing is raised and exactly the addressed
positions leave the logbook and every chapter. -/
theorem del_exact_slice (C : List Name) (lb : LB) (es : List Entry) (h : Rep C lb es)
    (idx : List Nat) (hn : idx.Nodup) (hr : ∀ i ∈ idx, i < lb.rows.length) :
    (delSlice idx lb).2 = false ∧ (delSlice idx lb).1.rows = removeIdx idx lb.rows ∧
    (∀ c ∈ C, chRows c (delSlice idx lb).1 = removeIdx idx (chRows c lb)) ∧
    Rep C (delSlice idx lb).1 (removeIdx idx es) := by
  have hlen : lb.rows.length = es.length := by rw [h.rows, List.length_map]
  obtain ⟨h1, h2⟩ := h.delSlice idx hn (hlen ▸ hr)
  refine ⟨h2, by rw [h1.rows, h.rows, removeIdx_map], ?_, h1⟩
  intro c hc
  apply map_some_inj
  rw [h1.chapters c hc, ← removeIdx_map, ← removeIdx_map, h.chapters c hc]

/-- every logbook reached by a valid history is such an image, so the two theorems above apply
at every point of every valid history -/
theorem history_is_image (C : List Name) (ops : List Op) (hv : Valid C [] ops) :
    Rep C (run ops) (specRun ops) := history_rep ops (Rep.empty C) hv

/-- Sub-chapters.  On a logbook whose chapters are aligned at every depth, `pop(i)` / `del [i]`
with an in-range index raise nothing, return the addressed row and remove position `p` from the
logbook and from the chapter at EVERY path (`eraseDeep`), which stays aligned at every depth; an
out-of-range index raises and changes nothing. -/
theorem pop_exact_deep (lb : LB) (hd : DeepAligned lb) (i : Int) :
    (∀ p, pos? lb.rows.length i = some p →
      pop i lb = (lb.rows[p]?, eraseDeep p lb) ∧ delIndex i lb = (eraseDeep p lb, false) ∧
      DeepAligned (eraseDeep p lb) ∧
      ∀ path ch, chapterAt path lb = some ch →
        ∃ ch', chapterAt path (eraseDeep p lb) = some ch' ∧ ch'.rows = ch.rows.eraseIdx p) ∧
    (pos? lb.rows.length i = none → pop i lb = (none, lb) ∧ delIndex i lb = (lb, true)) := by
  refine ⟨fun p hp => ⟨pop_deep i p lb hd hp, delIndex_deep lb i p hd hp, eraseDeep_aligned p lb hd, ?_⟩,
    fun hp => ⟨pop_out_deep i lb hd hp, delIndex_out lb i hd hp⟩⟩
  intro path ch hch
  exact ⟨eraseDeep p ch, by rw [chapterAt_eraseDeep, hch]; rfl, eraseDeep_rows p ch⟩

/-- … and `del [slice]` removes exactly the addressed positions from the chapter at every path. -/
theorem del_exact_deep (lb : LB) (hd : DeepAligned lb) (idx : List Nat) (hn : idx.Nodup)
    (hr : ∀ i ∈ idx, i < lb.rows.length) :
    (delSlice idx lb).2 = false ∧ DeepAligned (delSlice idx lb).1 ∧
    ∀ path ch, chapterAt path lb = some ch →
      ∃ ch', chapterAt path (delSlice idx lb).1 = some ch' ∧ ch'.rows = removeIdx idx ch.rows := by
  obtain ⟨h1, h2⟩ := delEach_deep (sortDesc idx) (sortDesc_strict idx hn) lb hd
    (fun i hi => hr i ((mem_sortDesc i idx).1 hi))
  have he : delSlice idx lb = (eraseAllDeep (sortDesc idx) lb, false) := h1
  rw [he]
  refine ⟨rfl, h2, ?_⟩
  intro path ch hch
  refine ⟨eraseAllDeep (sortDesc idx) ch, by rw [chapterAt_eraseAllDeep, hch]; rfl, ?_⟩
  rw [eraseAllDeep_rows, eraseAll_sortDesc idx hn]

/-- Chapters with sub-chapters, any depth.  `ValidDeep sh [] ops`: every record of the history
carries the same tree `sh` of dictionary names at every level (`Fits`: after the inherited scalar
fields replaced equally named dictionaries); slices as in `Valid`; any integer index for `pop` /
`del`.  Then after the whole history — records, pops, index and slice deletions, streams,
header settings, pickling — the logbook is aligned at every depth: the chapter at EVERY path has
as many rows as the logbook, and the rows are the surviving records in order. -/
theorem record_deep_aligned (sh : Shape) (ops : List Op) (hv : ValidDeep sh [] ops) :
    DeepAligned (run ops) ∧
    (∀ path ch, chapterAt path (run ops) = some ch → ch.rows.length = (run ops).rows.length) ∧
    (run ops).rows = (specRun ops).map Entry.scalars := by
  have h := history_repDeep ops (lb := LB.empty) (es := []) ⟨shaped_empty sh, rfl⟩ hv
  have hd := shaped_deep sh _ h.shaped
  exact ⟨hd, fun path ch hch => deep_path_length path _ ch hd hch, h.rows⟩

/-- the flat premise is the special case of a tree of height one -/
theorem valid_is_validDeep (C : List Name) (e : Entry) (he : EntryOk C e) :
    Fits [] (.mk (C.map fun c => (c, Shape.mk []))) e := by
  rw [fits_iff]
  have hf : effDicts [] e.dicts = e.dicts := by simp [effDicts, dictHas]
  rw [hf]
  refine ⟨he.1.1, ?_, ?_⟩
  · intro c; rw [he.1.2 c]; simp [Shape.kids, List.map_map, Function.comp_def]
  · rw [fitsAll_iff]
    intro q hq _ shk hk
    simp only [Shape.kids, List.mem_map] at hk
    obtain ⟨c, _, hc⟩ := hk
    have : shk = Shape.mk [] := by injection hc with _ h2; exact h2.symm
    subst this
    rw [fits_iff]
    simp [he.2 q hq, effDicts, Shape.kids, FitsAll]

/-- `removeIdx` is "the items whose position is not addressed" -/
theorem removeIdx_spec {α : Type} (S : List Nat) (l : List α) :
    removeIdx S l = (l.zipIdx.filter fun p => decide (p.2 ∉ S)).map (·.1) := rfl

/-! ### The stream delivers every record exactly once -/

/-- what one reading of the stream delivers and does -/
theorem stream_spec (lb : LB) :
    (stream lb).1.rows = lb.rows.drop lb.buffindex ∧ (stream lb).2.buffindex = lb.rows.length ∧
    (stream lb).2.rows = lb.rows := by
  obtain ⟨h1, _, h3, _, h5⟩ := stream_state lb
  refine ⟨?_, h3, h1⟩
  rw [h5]; simp only [txt]
  split
  · next hz => simp [List.length_eq_zero_iff.1 hz]
  · rfl

/-- Reading the stream repeatedly, interleaved with any records, pops, index and slice deletions
(in range or raising) of a valid history, never delivers a record twice. -/
theorem stream_at_most_once (C : List Name) (ops : List Op) (hv : Valid C [] ops)
    (hd : (recordedOf ops).Nodup) :
    (delivered ops).Nodup ∧ ∀ r ∈ delivered ops, r ∈ recordedOf ops := by
  obtain ⟨h1, h2, _⟩ := stream_inv ops LB.empty [] [] (Rep.empty C) hv Inv.empty hd (by simp [LB.empty])
  obtain ⟨A, B, _, _, _, h3, _⟩ := h1
  refine ⟨by simpa [delivered, streams] using h3, ?_⟩
  intro r hr
  rcases h2 r (by simpa [delivered, streams] using hr) with h | h
  · simp [LB.empty] at h
  · exact h

/-- … and after a final reading every record still in the logbook has been delivered exactly
once (it is in the duplicate-free list of deliveries). -/
theorem stream_exactly_once (C : List Name) (ops : List Op) (hv : Valid C [] ops)
    (hd : (recordedOf ops).Nodup) :
    (delivered (ops ++ [.stream])).Nodup ∧
    (∀ r ∈ (run ops).rows, r ∈ delivered (ops ++ [.stream])) ∧
    (∀ r ∈ delivered (ops ++ [.stream]), r ∈ recordedOf ops) := by
  have hrec : recordedOf (ops ++ [Op.stream]) = recordedOf ops := by
    rw [recordedOf_append]; simp [recordedOf]
  have hd' : (recordedOf (ops ++ [Op.stream])).Nodup := by rw [hrec]; exact hd
  have hv' : Valid C [] (ops ++ [Op.stream]) := by
    rw [valid_append]; exact ⟨hv, by simp [Valid, OpOk]⟩
  obtain ⟨g1, g2⟩ := stream_at_most_once C (ops ++ [.stream]) hv' hd'
  refine ⟨g1, ?_, fun r hr => hrec ▸ g2 r hr⟩
  obtain ⟨h1, _, _⟩ := stream_inv (ops ++ [.stream]) LB.empty [] [] (Rep.empty C) hv' Inv.empty hd' (by simp [LB.empty])
  obtain ⟨A, B, a1, a2, _, _, a5, _⟩ := h1
  have hrun : runFrom LB.empty (ops ++ [Op.stream]) = (stream (run ops)).2 := by
    rw [runFrom_append]; rfl
  obtain ⟨e1, _, e3, _⟩ := stream_state (run ops)
  rw [hrun] at a1 a2
  rw [e1] at a1; rw [e3, a1] at a2
  have hB : B = [] := by
    have : (A ++ B).length = A.length := a2
    rw [List.length_append] at this
    exact List.length_eq_zero_iff.1 (by omega)
  intro r hr
  rw [a1, hB, List.append_nil] at hr
  simpa [delivered, streams] using a5 r hr

/-- The positional form, which needs NO premise on the rows' contents (equal rows allowed).
`counts ops` keeps, for every surviving record position, how often the stream has delivered it
(a stream delivers exactly the positions from `buffindex` on, `stream_spec`; a deletion removes
the counters of the positions it removes).  After any valid history the counters are 1 for the
first `buffindex` positions and 0 for the rest: no surviving record was ever delivered twice, the
not yet delivered ones are exactly the suffix from `buffindex` on — which is what the next stream
delivers — and after a stream every surviving record has been delivered exactly once. -/
theorem stream_positional (C : List Name) (ops : List Op) (hv : Valid C [] ops) :
    counts ops = List.replicate (run ops).buffindex 1 ++
      List.replicate ((run ops).rows.length - (run ops).buffindex) 0 ∧
    (∀ c ∈ counts ops, c ≤ 1) ∧
    counts (ops ++ [.stream]) = List.replicate (run ops).rows.length 1 := by
  have h := history_counts ops (Rep.empty C) hv (cs := []) ⟨by simp [LB.empty], by simp [LB.empty]⟩
  have hv' : Valid C [] (ops ++ [Op.stream]) := by
    rw [valid_append]; exact ⟨hv, by simp [Valid, OpOk]⟩
  have h' := history_counts (ops ++ [.stream]) (Rep.empty C) hv' (cs := [])
    ⟨by simp [LB.empty], by simp [LB.empty]⟩
  refine ⟨h.1, ?_, ?_⟩
  · intro c hc
    have : c ∈ List.replicate (run ops).buffindex 1 ++
        List.replicate ((run ops).rows.length - (run ops).buffindex) 0 := h.1 ▸ hc
    rcases List.mem_append.1 this with hm | hm
    · rw [List.eq_of_mem_replicate hm]; exact Nat.le_refl _
    · rw [List.eq_of_mem_replicate hm]; exact Nat.zero_le _
  · have hrun : runFrom LB.empty (ops ++ [Op.stream]) = (stream (run ops)).2 := by
      rw [runFrom_append]; rfl
    obtain ⟨e1, _, e3, _⟩ := stream_state (run ops)
    have := h'.1
    rw [hrun, e3, e1] at this
    simpa [counts] using this

/-! ### The header -/

/-- Reading the stream repeatedly delivers the header at most once — for EVERY history (any
records, deletions, pops, header settings, `log_header` switches, pickling in between): the
stream remembers in `header_streamed` that it has delivered the header (repair of F5). -/
theorem header_once (ops : List Op) : headerCount ops ≤ 1 := by
  induction ops using List.reverseRecOn with
  | nil => decide
  | append_singleton pre o ih =>
    rw [headerCount_snoc]
    by_cases h0 : headerCount pre = 0
    · split <;> omega
    · have hs := headerStreamed_of_count pre (by omega)
      have : (stream (run pre)).1.header = false := by
        rw [(stream_header (run pre)).1, hs]; rfl
      simp [this]; exact ih

/-- … and it is delivered with the first streamed row when `log_header` is on: the first stream
of a non-empty logbook that has not streamed the header yet carries it. -/
theorem header_first (lb : LB) (h0 : lb.buffindex = 0) (hn : 0 < lb.rows.length)
    (hl : lb.logHeader = true) (hs : lb.headerStreamed = false) :
    (stream lb).1.header = true ∧ (stream lb).2.headerStreamed = true := by
  obtain ⟨h1, h2⟩ := stream_header lb
  rw [h1, h2, h0, hl, hs]; simp [hn]

/-- the witness history of the former defect F5: record a; stream; del [0]; record b; stream -/
def f5Witness : List Op :=
  [.record (.mk [(0, 1)] []), .stream, .delIndex 0, .record (.mk [(0, 2)] []), .stream]

/-- the rule of the code BEFORE the repair (header whenever `startindex == 0 and log_header`),
counted along a history -/
def oldHeadersFrom : LB → List Op → Nat
  | _, [] => 0
  | lb, .stream :: os =>
      (if lb.rows.length ≠ 0 ∧ lb.buffindex = 0 ∧ lb.logHeader = true then 1 else 0) +
        oldHeadersFrom (stream lb).2 os
  | lb, o :: os => oldHeadersFrom (step lb o).1 os

/-- under the old rule the witness history got the header twice; now once -/
theorem old_rule_header_twice :
    oldHeadersFrom LB.empty f5Witness = 2 ∧ headerCount f5Witness = 1 := by decide

/-- `buffindex = 0` says exactly that no delivered row is left in the logbook (for histories with
pairwise different records), which is the observable form of the premise above. -/
theorem buffindex_zero_iff (C : List Name) (ops : List Op) (hv : Valid C [] ops)
    (hd : (recordedOf ops).Nodup) :
    (run ops).buffindex = 0 ↔ ∀ r ∈ (run ops).rows, r ∉ delivered ops := by
  obtain ⟨h1, _, _⟩ := stream_inv ops LB.empty [] [] (Rep.empty C) hv Inv.empty hd (by simp [LB.empty])
  obtain ⟨A, B, a1, a2, a3, _, a5, a6⟩ := h1
  simp only [List.nil_append] at a5 a6
  have hrun : runFrom LB.empty ops = run ops := rfl
  rw [hrun] at a1 a2
  constructor
  · intro h0
    have hA : A = [] := List.length_eq_zero_iff.1 (by omega)
    intro r hr
    rw [a1, hA, List.nil_append] at hr
    simpa [delivered, streams] using a6 r hr
  · intro h
    have hA : A = [] := by
      cases hA : A with
      | nil => rfl
      | cons x xs =>
        have hx : x ∈ (run ops).rows := by rw [a1, hA]; simp
        exact absurd (by simpa [delivered, streams] using a5 x (by simp [hA])) (h x hx)
    rw [a2, hA]; rfl


/-! ### The text that `stream` and `str()` return

`Logbook.txtT` is the complete `__txt__` (column discovery, chapter blocks, widths as state, header block,
template); `rowLine fmt i lb W` is the line of record `i`: its cells in column order, a chapter column holding
the chapter's line of the same record, left-justified to the widths `W` and joined by tabs
(`row_line_cells`).  Everything below holds for EVERY rendering `fmt` of names and values and EVERY previous
`columns_len` state `cl`. -/

/-- `__txt__` on a logbook aligned at every depth never raises; the text is a header block followed by
exactly one line per row from `startindex` on, in order, each being the formatted row; the header block is
there iff the abstract model `Logbook.txt` says so (`header and startindex == 0 and log_header`, non-empty
logbook), and the number of data lines is the number of rows `Logbook.txt` delivers. -/
theorem txt_shape (fmt : Fmt) (si : Nat) (hdr : Bool) (lb : LB) (cl : CL) (hd : DeepAligned lb) :
    ∃ Hd, (txtT fmt si hdr lb cl).1 = some (Hd ++ dataLines fmt si lb (txtT fmt si hdr lb cl).2) ∧
      (Hd ≠ [] ↔ (txt si hdr lb).header = true) ∧
      (dataLines fmt si lb (txtT fmt si hdr lb cl).2).length = (txt si hdr lb).rows.length := by
  obtain ⟨Hd, h1, h2⟩ := txtT_ok fmt si hdr lb cl hd
  refine ⟨Hd, h1, h2, ?_⟩
  rw [dataLines_length]
  simp only [txt]
  split
  · next hz => simp [hz]
  · simp

/-- the cells of a line, in column (header) order: `columns` is the explicit header or, without one, the
sorted keys of the first record followed by the sorted chapter names; a chapter column holds the chapter's
own line of the same record, any other column the formatted field (`""` when the record lacks it) -/
theorem row_line_cells (fmt : Fmt) (i : Nat) (lb : LB) (W : CL) :
    rowLine fmt i lb W = formatLine (W.len.getD [])
      ((columnsOf fmt lb.header lb.rows (lb.chapters.map (·.1))).map fun name =>
        (chapterLine fmt i name lb.chapters W.chapters).getD (cellVal fmt (lb.rows.getD i []) name)) ∧
    (∀ name ch, getChapter name lb.chapters = some ch →
      ∃ Wc, chapterLine fmt i name lb.chapters W.chapters = some (rowLine fmt i ch Wc)) ∧
    (∀ name, getChapter name lb.chapters = none → chapterLine fmt i name lb.chapters W.chapters = none) := by
  refine ⟨by cases lb; rfl, fun name ch h => chapterLine_of_getChapter fmt i name _ _ ch h,
    fun name h => chapterLine_none fmt i name _ _ h⟩

/-- A logbook without chapters, spelled out completely: `__txt__` does not raise, the header block is the single
line of the column names (there iff `header and startindex == 0 and log_header`), followed by one line per row
from `startindex` on, every cell the formatted field of that row (`""` for a missing one), all lines
left-justified to the `columns_len` the call leaves behind. -/
theorem txt_plain (fmt : Fmt) (si : Nat) (hdr : Bool) (lb : LB) (cl : CL) (hc : lb.chapters = [])
    (hn : lb.rows.length ≠ 0) :
    (txtT fmt si hdr lb cl).1 =
      some ((if (hdr && si == 0 && lb.logHeader) = true
            then [formatLine ((txtT fmt si hdr lb cl).2.len.getD []) ((columnsOf fmt lb.header lb.rows []).map fmt.name)]
            else []) ++
        (List.range' si (lb.rows.length - si)).map (fun i =>
          formatLine ((txtT fmt si hdr lb cl).2.len.getD [])
            ((columnsOf fmt lb.header lb.rows []).map fun name => cellVal fmt (lb.rows.getD i []) name))) := by
  cases lb with
  | mk rows chs b h lh hs =>
    simp only [chapters_mk] at hc
    subst hc
    exact txtT_plain fmt si hdr rows b h lh hs cl hn

/-- `str(logbook)` = header block ++ one line per record, in order, each line being the formatted row
(cells in header order, `row_line_cells`); the header block is there iff the logbook is not empty and
`log_header` is on; the logbook itself is unchanged. -/
theorem str_all_rows (fmt : Fmt) (lb : LB) (cl : CL) (hd : DeepAligned lb) :
    ∃ Hd, (strT fmt (lb, cl)).1 =
        some (Hd ++ (List.range lb.rows.length).map fun i => rowLine fmt i lb (strT fmt (lb, cl)).2.2) ∧
      (Hd ≠ [] ↔ (lb.rows.length ≠ 0 ∧ lb.logHeader = true)) ∧ (strT fmt (lb, cl)).2.1 = lb := by
  obtain ⟨Hd, h1, h2⟩ := txtT_ok fmt 0 true lb cl hd
  refine ⟨Hd, ?_, ?_, rfl⟩
  · simpa [strT, dataLines, List.range_eq_range'] using h1
  · rw [h2]; simp only [txt]
    split
    · next hz => simp [hz]
    · next hz => simp [hz]

/-- … along a valid history: `str()` of the logbook shows exactly one line per surviving record, in the
order of entry (line `i` is the line of `specRun ops` number `i`, whose scalar cells are that record's
scalar fields, `rows_in_order`). -/
theorem str_history (fmt : Fmt) (C : List Name) (ops : List Op) (hv : Valid C [] ops) :
    ∃ Hd, (strT fmt (runT fmt ops)).1 =
        some (Hd ++ (List.range (specRun ops).length).map fun i =>
          rowLine fmt i (run ops) (strT fmt (runT fmt ops)).2.2) ∧
      (runT fmt ops).1 = run ops ∧ (run ops).rows = (specRun ops).map Entry.scalars := by
  have hrep := history_rep ops (Rep.empty C) hv
  have hlb : (runT fmt ops).1 = run ops := runT_lb fmt ops
  have hlen : (run ops).rows.length = (specRun ops).length := by
    rw [show (run ops).rows = _ from hrep.rows, List.length_map]; rfl
  generalize runT fmt ops = s at hlb
  obtain ⟨Hd, h1, _, _⟩ := str_all_rows fmt s.1 s.2 (hlb ▸ hrep.deep)
  refine ⟨Hd, ?_, hlb, hrep.rows⟩
  have h1' : (strT fmt s).1 =
      some (Hd ++ (List.range s.1.rows.length).map fun i => rowLine fmt i s.1 (strT fmt s).2.2) := h1
  rw [hlb, hlen] at h1'
  exact h1'

/-- Every chapter block has exactly as many data lines as the logbook: in the same call, the text of every
chapter is its own header block followed by as many lines as the logbook's text has data lines (and line `k`
of the chapter is the cell of line `k` of the logbook, `row_line_cells`). -/
theorem chapter_text_aligned (fmt : Fmt) (si : Nat) (hdr : Bool) (lb : LB) (cl : CL) (hd : DeepAligned lb)
    (q : Name × LB) (hq : q ∈ lb.chapters) (c : CL) :
    ∃ Hd D Hk Dk, (txtT fmt si hdr lb cl).1 = some (Hd ++ D) ∧ (txtT fmt si hdr q.2 c).1 = some (Hk ++ Dk) ∧
      D.length = lb.rows.length - si ∧ Dk.length = D.length ∧
      Dk = dataLines fmt si q.2 (txtT fmt si hdr q.2 c).2 := by
  obtain ⟨hlen, hdq⟩ := ((deepAligned_iff lb).1 hd).2 q hq
  obtain ⟨Hd, h1, _⟩ := txtT_ok fmt si hdr lb cl hd
  obtain ⟨Hk, h2, _⟩ := txtT_ok fmt si hdr q.2 c hdq
  exact ⟨Hd, _, Hk, _, h1, h2, dataLines_length _ _ _ _, by rw [dataLines_length, dataLines_length, hlen], rfl⟩

/-- Reading the stream repeatedly, at text level.  Over any valid history with pairwise different records,
ended by a reading of the stream: every reading returns a text (never raises); taken apart (`blocks`: per
reading a header block and the delivered rows next to their lines) the concatenation of everything the stream
ever returned consists of the header blocks and, for the rows `delivered` by `Logbook.stream` in that order,
one line each; that list of delivered rows has no duplicate and contains every surviving record — so every
surviving record has EXACTLY ONE data line, in record order within each reading —; each line is the formatted
row of its record in the logbook of some moment of the history; and at most one reading carries a header
block. -/
theorem stream_text_once (fmt : Fmt) (C : List Name) (ops : List Op) (hv : Valid C [] ops)
    (hd : (recordedOf ops).Nodup) :
    ∃ blocks : List (List String × List (Row × String)),
      streamTexts fmt (ops ++ [.stream]) = blocks.map (fun b => some (b.1 ++ b.2.map (·.2))) ∧
      blocks.flatMap (fun b => b.2.map (·.1)) = delivered (ops ++ [.stream]) ∧
      (delivered (ops ++ [.stream])).Nodup ∧ (∀ r ∈ (run ops).rows, r ∈ delivered (ops ++ [.stream])) ∧
      (blocks.filter fun b => decide (b.1 ≠ [])).length ≤ 1 ∧
      ∀ b ∈ blocks, ∀ p ∈ b.2, ∃ pre W i, pre <+: ops ++ [.stream] ∧
        (run pre).rows[i]? = some p.1 ∧ p.2 = rowLineOf fmt i p.1 (run pre) W := by
  have hv' : Valid C [] (ops ++ [Op.stream]) := by
    rw [valid_append]; exact ⟨hv, by simp [Valid, OpOk]⟩
  obtain ⟨b1, b2, b3, b4⟩ := blocks_history fmt (ops ++ [.stream]) (LB.empty, CL.empty)
    (valid_prefix_deep (ops ++ [.stream]) LB.empty [] (Rep.empty C) hv')
  obtain ⟨g1, g2, _⟩ := stream_exactly_once C ops hv hd
  refine ⟨blocksFrom fmt (LB.empty, CL.empty) (ops ++ [Op.stream]), b1, ?_, g1, g2, ?_, b4⟩
  · have := congrArg List.flatten b2
    simpa [delivered, streams, List.flatMap_def] using this
  · have hc := header_once (ops ++ [.stream])
    have : (List.filter (fun b => decide (b.1 ≠ [])) (blocksFrom fmt (LB.empty, CL.empty) (ops ++ [Op.stream]))).length =
        headerCount (ops ++ [.stream]) := by
      have h := congrArg (fun l => (l.filter id).length) b3
      simp only [List.filter_map, List.length_map] at h
      simpa [headerCount, streams, Function.comp_def] using h
    omega

/-- The same for histories over records with sub-dictionaries (chapters with sub-chapters, any depth), in
positional form: every reading of the stream returns a text = header block ++ one line per row that
`Logbook.stream` delivers at that reading, in order (`stream_positional` counts those); at most one reading
carries a header block. -/
theorem stream_text_deep (fmt : Fmt) (sh : Shape) (ops : List Op) (hv : ValidDeep sh [] ops) :
    ∃ blocks : List (List String × List (Row × String)),
      streamTexts fmt ops = blocks.map (fun b => some (b.1 ++ b.2.map (·.2))) ∧
      blocks.map (fun b => b.2.map (·.1)) = (streams ops).map (·.rows) ∧
      (blocks.filter fun b => decide (b.1 ≠ [])).length ≤ 1 ∧
      ∀ b ∈ blocks, ∀ p ∈ b.2, ∃ pre W i, pre <+: ops ∧
        (run pre).rows[i]? = some p.1 ∧ p.2 = rowLineOf fmt i p.1 (run pre) W := by
  obtain ⟨b1, b2, b3, b4⟩ := blocks_history fmt ops (LB.empty, CL.empty)
    (validDeep_prefix_deep ops LB.empty [] ⟨shaped_empty sh, rfl⟩ hv)
  refine ⟨blocksFrom fmt (LB.empty, CL.empty) ops, b1, b2, ?_, b4⟩
  have hc := header_once ops
  have : (List.filter (fun b => decide (b.1 ≠ [])) (blocksFrom fmt (LB.empty, CL.empty) ops)).length =
      headerCount ops := by
    have h := congrArg (fun l => (l.filter id).length) b3
    simp only [List.filter_map, List.length_map] at h
    simpa [headerCount, streams, Function.comp_def] using h
  omega

/-- Pickling at text level: the round trip restores rows, chapters, stream position, header settings,
`header_streamed` AND every `columns_len`, so a history with a pickle round trip anywhere returns the same
texts and reaches the same state as the history without it.  (That the real `pickle` does restore all of
that is established by the correspondence harness, protocols 0–5, on the copy and on the original.) -/
theorem pickle_transparent (fmt : Fmt) (xs ys : List Op) :
    runT fmt (xs ++ .pickle :: ys) = runT fmt (xs ++ ys) ∧
    streamTexts fmt (xs ++ .pickle :: ys) = streamTexts fmt (xs ++ ys) := by
  have hstep : ∀ s : LB × CL, (stepT fmt s .pickle).1 = s := by
    intro s; simp only [stepT, step, pickle_eq]
  have key : ∀ (xs : List Op) (s : LB × CL),
      runFromT fmt s (xs ++ .pickle :: ys) = runFromT fmt s (xs ++ ys) ∧
      streamTextsFrom fmt s (xs ++ .pickle :: ys) = streamTextsFrom fmt s (xs ++ ys) := by
    intro xs
    induction xs with
    | nil =>
      intro s
      have e1 : runFromT fmt s (Op.pickle :: ys) = runFromT fmt (stepT fmt s .pickle).1 ys := rfl
      have e2 : streamTextsFrom fmt s (Op.pickle :: ys) = streamTextsFrom fmt (stepT fmt s .pickle).1 ys := rfl
      simp only [List.nil_append, e1, e2, hstep, and_self]
    | cons o os ih =>
      intro s
      obtain ⟨i1, i2⟩ := ih (stepT fmt s o).1
      have e1 : ∀ zs, runFromT fmt s (o :: zs) = runFromT fmt (stepT fmt s o).1 zs := fun _ => rfl
      refine ⟨by simp only [List.cons_append, e1, i1], ?_⟩
      by_cases hs : o = .stream
      · subst hs
        have e2 : ∀ zs, streamTextsFrom fmt s (Op.stream :: zs) =
            (streamT fmt s).1 :: streamTextsFrom fmt (stepT fmt s .stream).1 zs := fun _ => rfl
        simp only [List.cons_append, e2, i2]
      · simp only [List.cons_append, streamTextsFrom_other fmt s o _ hs, i2]
  exact key xs (LB.empty, CL.empty)

/-! ### Pickling

Not a theorem: the model's `pickle` is the identity on the state (rows, chapters, buffindex,
header, log_header, header_streamed), so a Lean statement about it would say `id = id`.  That a
logbook survives `pickle.dumps` / `loads` with all chapters is established by the correspondence
harness only (every history may pickle between any two operations, protocols 0–5, and the
complete state and all later behaviour are compared). -/

/-! ### Statistics -/

section Statistics
open Stats
variable {δ κ φ ρ : Type}

/-- Compiling applies every registered function, with its frozen arguments, to the tuple of key
values of the data: under each registered name the result is `fn args (data.map key)` for the
latest registration of that name, and there is nothing under other names. -/
theorem compile_spec (key : δ → κ) (regs : List (Reg κ φ ρ)) (data : List δ) (n : Name) :
    (Stats.compile (registerAll (Stats.new key) regs) data).lookup n =
      (regs.reverse.find? (fun r => r.1 == n)).map fun r => r.2.1 r.2.2 (data.map key) := by
  have hl := registerAll_lookup (Stats.new key : Statistics δ κ φ ρ) regs n
  have hk := registerAll_key (Stats.new key : Statistics δ κ φ ρ) regs
  generalize registerAll (Stats.new key : Statistics δ κ φ ρ) regs = s at hl hk
  have hmap : ∀ (fs : List (Name × (φ × (φ → List κ → ρ)))) (vals : List κ),
      (fs.map fun p => (p.1, p.2.2 p.2.1 vals)).lookup n =
        (fs.lookup n).map fun w => w.2 w.1 vals := by
    intro fs vals
    induction fs with
    | nil => rfl
    | cons p ps ih =>
      by_cases h : n = p.1
      · subst h; simp [List.lookup]
      · have hb : (n == p.1) = false := by simpa using h
        simp [List.lookup, hb, ih]
  simp only [Stats.compile, hmap, hl, hk]
  cases regs.reverse.find? (fun r => r.1 == n) with
  | none => simp [Stats.new, List.lookup]
  | some r => simp [Stats.new]

/-- the compiled record has exactly the registered names (each once) -/
theorem compile_keys (s : Statistics δ κ φ ρ) (data : List δ) :
    (Stats.compile s data).map (·.1) = s.functions.map (·.1) := by
  simp [Stats.compile, List.map_map, Function.comp_def]

/-- Multi-statistics return one such record per named statistics object, under its name and in
the order of the objects. -/
theorem multi_compile_spec (m : Multi δ κ φ ρ) (data : List δ) :
    (Multi.compile m data).map (·.1) = Multi.names m ∧
    Multi.compile m data = m.map (fun p => (p.1, Stats.compile p.2 data)) ∧
    ∀ sname s, (sname, s) ∈ m → (sname, Stats.compile s data) ∈ Multi.compile m data := by
  refine ⟨by simp [Multi.compile, Multi.names, List.map_map, Function.comp_def], rfl, ?_⟩
  intro sname s h
  exact List.mem_map.2 ⟨(sname, s), h, rfl⟩

/-- `MultiStatistics.register` registers the function, with its frozen arguments, in every
statistics object -/
theorem multi_register_spec (m : Multi δ κ φ ρ) (name : Name) (fn : φ → List κ → ρ) (args : φ) :
    Multi.register m name fn args = m.map (fun p => (p.1, Stats.register p.2 name fn args)) ∧
    Multi.names (Multi.register m name fn args) = Multi.names m := by
  refine ⟨rfl, ?_⟩
  simp [Multi.register, Multi.names, List.map_map, Function.comp_def]

end Statistics

/-! ### MultiStatistics and its Statistics objects as mutable state (`Core/StatsHist.lean`)

A history is any list of `Stats.MOp`: objects are created, registered on (directly or through the
`MultiStatistics`, names re-registered), stored / replaced / removed with EVERY mutator of the dict
(`ms[k] = s`, `del`, `update`, `|=`, `setdefault`, `pop`, `popitem`, `clear`), and `fields` / `compile` are
evaluated in between. -/

section StatsHistories
open Stats
variable {δ κ φ ρ : Type}

/-- `compile` after a history is a function of the CURRENT mapping and the data only:
* the evaluations of `fields` / `compile` (and of an object's `fields`) that happened during the history can be
  struck out of it without changing the state it ends in (nothing is remembered from one evaluation to the next),
* `compile` leaves the state as it is and returns `Multi.compile` of the resolved current mapping
  (`view`: the `items()` of the dict, name → statistics object), i.e. one `Stats.compile` record per item,
* so two histories (from any two states) that end in the same resolved mapping compile to the same record. -/
theorem compile_after_history (st : MS δ κ φ ρ) (h : List (MOp δ κ φ ρ)) (data : List δ) :
    Stats.runFrom st (h.filter fun op => !op.isObs) = Stats.runFrom st h ∧
    Stats.step (Stats.runFrom st h) (.compile data) =
      (Stats.runFrom st h, .record (Multi.compile (view (Stats.runFrom st h)) data)) ∧
    ∀ (st' : MS δ κ φ ρ) (h' : List (MOp δ κ φ ρ)),
      view (Stats.runFrom st' h') = view (Stats.runFrom st h) →
        (Stats.step (Stats.runFrom st' h') (.compile data)).2 =
          (Stats.step (Stats.runFrom st h) (.compile data)).2 := by
  refine ⟨?_, rfl, ?_⟩
  · induction h generalizing st with
    | nil => rfl
    | cons op ops ih =>
      by_cases ho : op.isObs = true
      · have hs := step_obs st op ho
        simp only [List.filter_cons, ho, Bool.not_true, Bool.false_eq_true, if_false]
        rw [ih st]
        simp only [Stats.runFrom, List.foldl_cons, hs]
      · have ho' : op.isObs = false := by simpa using ho
        simp only [List.filter_cons, ho', Bool.not_false, if_true]
        simp only [Stats.runFrom, List.foldl_cons]
        exact ih _
  · intro st' h' hv
    simp only [Stats.step, compileOf, hv]

/-- The keys of the compiled record are the keys of the mapping, in its order and each exactly once — after
every history on a fresh `MultiStatistics()`: exactly one sub-record per statistics object currently in the
mapping, and that sub-record is the object's own `compile`. -/
theorem multi_compile_keys (h : List (MOp δ κ φ ρ)) (data : List δ) :
    (compileOf (Stats.run h) data).map (·.1) = dKeys (Stats.run h).map ∧
    (dKeys (Stats.run h).map).Nodup ∧
    ∀ k id, (k, id) ∈ (Stats.run h).map →
      ∃ s, (Stats.run h).heap[id]? = some s ∧ (k, Stats.compile s data) ∈ compileOf (Stats.run h) data := by
  have hi : MInv (Stats.run h) := minv_runFrom _ h minv_empty
  refine ⟨?_, hi.2, ?_⟩
  · rw [← view_keys _ hi.1]
    simp [compileOf, Multi.compile, List.map_map, Function.comp_def]
  · intro k id hm
    have hlt := hi.1 (k, id) hm
    refine ⟨(Stats.run h).heap[id], List.getElem?_eq_getElem hlt, ?_⟩
    simp only [compileOf, Multi.compile, view, List.mem_map, List.mem_filterMap]
    exact ⟨(k, (Stats.run h).heap[id]), ⟨(k, id), hm, by simp [List.getElem?_eq_getElem hlt]⟩, rfl⟩

/-- A registration overrides: after `register(name, fn, *args)` the compiled record holds, under `name`,
`fn` with the NEW frozen arguments applied to the tuple of key values, whatever was registered under that name
before; every other name compiles as before. -/
theorem register_overrides (s : Statistics δ κ φ ρ) (name : Name) (fn : φ → List κ → ρ) (args : φ)
    (data : List δ) (n : Name) :
    (Stats.compile (Stats.register s name fn args) data).lookup n =
      if n = name then some (fn args (data.map s.key)) else (Stats.compile s data).lookup n := by
  have hmap : ∀ (fs : List (Name × (φ × (φ → List κ → ρ)))) (vals : List κ),
      (fs.map fun p => (p.1, p.2.2 p.2.1 vals)).lookup n =
        (fs.lookup n).map fun w => w.2 w.1 vals := by
    intro fs vals
    induction fs with
    | nil => rfl
    | cons p ps ih =>
      by_cases h : n = p.1
      · subst h; simp [List.lookup]
      · have hb : (n == p.1) = false := by simpa using h
        simp [List.lookup, hb, ih]
  simp only [Stats.compile, hmap, Stats.register, lookup_setFn]
  by_cases h : n = name <;> simp [h]

/-- … and through the `MultiStatistics`: after `ms.register(name, fn, *args)` every object that is stored in the
mapping (under whatever name, also when stored twice) compiles `name` to `fn args (key values)`, keeps its key
and compiles every other name as before; objects that are not in the mapping are untouched. -/
theorem register_overrides_multi (st : MS δ κ φ ρ) (name : Name) (fn : φ → List κ → ρ) (args : φ)
    (id : Nat) (s : Statistics δ κ φ ρ) (hs : st.heap[id]? = some s) (data : List δ) :
    ∃ s', (Stats.step st (.register name fn args)).1.heap[id]? = some s' ∧
      (Stats.step st (.register name fn args)).1.map = st.map ∧
      ∀ n, (Stats.compile s' data).lookup n =
        if n = name ∧ id ∈ st.map.map (·.2) then some (fn args (data.map s.key))
        else (Stats.compile s data).lookup n := by
  obtain ⟨s', e1, e2, e3⟩ := registerHeap_get st.heap (st.map.map (·.2)) name fn args id s hs
  refine ⟨s', e1, rfl, ?_⟩
  intro n
  have hmap : ∀ (fs : List (Name × (φ × (φ → List κ → ρ)))) (vals : List κ),
      (fs.map fun p => (p.1, p.2.2 p.2.1 vals)).lookup n =
        (fs.lookup n).map fun w => w.2 w.1 vals := by
    intro fs vals
    induction fs with
    | nil => rfl
    | cons p ps ih =>
      by_cases h : n = p.1
      · subst h; simp [List.lookup]
      · have hb : (n == p.1) = false := by simpa using h
        simp [List.lookup, hb, ih]
  simp only [Stats.compile, hmap, e3 n, e2]
  split <;> simp

/-- `fields` is the sorted list of the names CURRENTLY in the mapping (after any history, from any state):
ascending, a permutation of the dict's keys, and reading it changes nothing. -/
theorem fields_sorted_current (st : MS δ κ φ ρ) (h : List (MOp δ κ φ ρ)) :
    Stats.step (Stats.runFrom st h) .fields = (Stats.runFrom st h, .names (fieldsOf (Stats.runFrom st h))) ∧
    (fieldsOf (Stats.runFrom st h)).Pairwise (· ≤ ·) ∧
    (fieldsOf (Stats.runFrom st h)).Perm (dKeys (Stats.runFrom st h).map) ∧
    ∀ n, n ∈ fieldsOf (Stats.runFrom st h) ↔ dHas (Stats.runFrom st h).map n = true := by
  refine ⟨rfl, pairwise_sortNames _, perm_sortNames _, ?_⟩
  intro n
  rw [dHas_iff]
  exact (perm_sortNames _).mem_iff

end StatsHistories

/-! ### Non-vacuity: concrete instances of the hypotheses above -/

/-- records with the chapter `10`, a stream, a negative-index deletion, a `pop` on the logbook
with its chapter, a slice deletion -/
def demoOps : List Op :=
  [.record (.mk [(0, 1), (1, 0)] [(10, .mk [(5, 7)] [])]),
   .record (.mk [(0, 2), (1, 1)] [(10, .mk [(5, 9), (1, 4)] [])]),
   .stream,
   .record (.mk [(0, 3)] [(10, .mk [] [])]),
   .record (.mk [(0, 4)] [(10, .mk [(5, 8)] [])]),
   .record (.mk [(0, 5)] [(10, .mk [(5, 6)] [])]),
   .delIndex (-4),
   .pop (-1),
   .delSlice [1],
   .stream]

example : Valid [10] [] demoOps := by
  simp [demoOps, Valid, OpOk, EntryOk, specStep, Entry.dicts, pos?, position, removeIdx]
example : (run demoOps).rows = [[(0, 1), (1, 0)], [(0, 4)]] ∧
    chRows 10 (run demoOps) = [[(5, 7), (0, 1), (1, 0)], [(5, 8), (0, 4)]] ∧
    (run demoOps).buffindex = 2 ∧
    delivered demoOps = [[(0, 1), (1, 0)], [(0, 2), (1, 1)], [(0, 4)]] ∧ headerCount demoOps = 1 := by
  decide
example : (recordedOf demoOps).Nodup := by decide
-- the delivery counters of `demoOps` (two surviving records, both delivered once); with EQUAL rows
-- the value-based theorems do not apply but the positional one does
example : counts demoOps = [1, 1] ∧
    counts [.record (.mk [(1, 5)] []), .record (.mk [(1, 5)] []), .stream, .record (.mk [(1, 5)] [])] = [1, 1, 0] := by
  decide
-- a logbook with chapter 10 and sub-chapter 20, aligned at every depth; `pop(-1)` and a slice
-- deletion reach the sub-chapter
def deepLB : LB := run [.record (.mk [(0, 1)] [(10, .mk [(5, 7)] [(20, .mk [(6, 1)] [])])]),
                        .record (.mk [(0, 2)] [(10, .mk [(5, 8)] [(20, .mk [(6, 2)] [])])]),
                        .record (.mk [(0, 3)] [(10, .mk [(5, 9)] [(20, .mk [(6, 3)] [])])])]
/-- the tree of `deepLB`'s records: chapter 10 with sub-chapter 20 -/
def deepShape : Shape := .mk [(10, .mk [(20, .mk [])])]
example : ValidDeep deepShape []
    [.record (.mk [(0, 1)] [(10, .mk [(5, 7)] [(20, .mk [(6, 1)] [])])]),
     .record (.mk [(0, 2)] [(10, .mk [(5, 8)] [(20, .mk [(6, 2)] [])])]),
     .pop (-1), .delSlice [0], .stream] := by
  simp [ValidDeep, OpOkDeep, deepShape, Fits, FitsAll, effDicts, dictHas, Shape.kids, specStep,
    pos?, position, dictUpdate, dictSet, removeIdx]
example : DeepAligned deepLB := by
  simp [deepLB, run, runFrom, step, record, recordAux, recordDicts, modifyChapter, dictHas, dictUpdate,
    dictSet, LB.empty, DeepAligned, AllAligned]
example : ((chapterAt [10, 20] (pop (-1) deepLB).2).map LB.rows) =
      some [[(6, 1), (5, 7), (0, 1)], [(6, 2), (5, 8), (0, 2)]] ∧
    ((chapterAt [10, 20] (delSlice [2, 0] deepLB).1).map LB.rows) = some [[(6, 2), (5, 8), (0, 2)]] := by
  decide
-- hypotheses of the text theorems: the logbook after `demoOps` is aligned at every depth, `deepLB` too
example : DeepAligned (run demoOps) :=
  (history_is_image [10] demoOps (by
    simp [demoOps, Valid, OpOk, EntryOk, specStep, Entry.dicts, pos?, position, removeIdx])).deep
-- hypotheses of `txt_plain`: a logbook without chapters that is not empty
example : (run [.record (.mk [(0, 1)] []), .record (.mk [(0, 2), (1, 5)] [])]).chapters = [] ∧
    (run [.record (.mk [(0, 1)] []), .record (.mk [(0, 2), (1, 5)] [])]).rows.length ≠ 0 := by decide
-- hypotheses of `header_first`
example : (run [.record (.mk [(0, 1)] [])]).buffindex = 0 ∧ 0 < (run [.record (.mk [(0, 1)] [])]).rows.length ∧
    (run [.record (.mk [(0, 1)] [])]).logHeader = true ∧ (run [.record (.mk [(0, 1)] [])]).headerStreamed = false := by
  decide
-- the scalar fields win over equal keys of the dictionary (key 1 above: 4 is replaced by 1)
example : chapterRow 10 (.mk [(0, 2), (1, 1)] [(10, .mk [(5, 9), (1, 4)] [])]) = some [(5, 9), (1, 1), (0, 2)] := by
  decide
example : pos? 3 (-1) = some 2 ∧ pos? 3 2 = some 2 ∧ pos? 3 3 = none ∧ pos? 3 (-4) = none := by decide
example : select [1] (run demoOps) = .single [some 0, none] ∧
    select [0, 1] (run demoOps) = .multi [[some 1, some 4], [some 0, none]] := by
  decide
-- statistics: `lin a values b = a * sum + b` registered with frozen (2, 3); re-registration of name 1
example : Stats.compile (registerAll (Stats.new (fun (l : List Int) => (l.length : Int)))
      [(1, fun _ v => v.foldl (· + ·) 0, ([] : List Int)),
       (2, fun a v => a.headD 0 * v.foldl (· + ·) 0 + (a.drop 1).headD 0, [2, 3]),
       (1, fun _ v => v.foldl max 0, [])])
    [[1, 2], [3], [4, 5, 6]] = [(1, 3), (2, 15)] := by decide

-- MultiStatistics histories: two objects, `fields` and `compile` evaluated, then `update` / `setdefault` / `pop`
-- (the mutators that are not `__setitem__` / `__delitem__`), a re-registration through the MultiStatistics
def demoMOps : List (Stats.MOp (List Int) Int (List Int) Int) :=
  [.alloc (fun l => (l.length : Int)), .regObj 0 1 (fun _ v => v.foldl (· + ·) 0) [],
   .alloc (fun l => l.headD 0), .regObj 1 1 (fun _ v => v.foldl max 0) [],
   .setItem 10 0, .fields, .compile [[1, 2], [3]],
   .update [(11, 1)], .setDefault 12 1, .setDefault 10 1, .pop 10,
   .register 1 (fun a v => a.headD 0 * v.foldl (· + ·) 0) [2]]
example : (Stats.run demoMOps).map = [(11, 1), (12, 1)] ∧
    Stats.fieldsOf (Stats.run demoMOps) = [11, 12] ∧
    Stats.compileOf (Stats.run demoMOps) [[1, 2], [3]] = [(11, [(1, 8)]), (12, [(1, 8)])] ∧
    Stats.compileOf (Stats.run (demoMOps.take 7)) [[1, 2], [3]] = [(10, [(1, 3)])] := by decide
-- hypothesis of `register_overrides_multi`: object 1 is on the heap of that state
example : ∃ s, (Stats.run demoMOps).heap[1]? = some s := ⟨_, rfl⟩
-- hypothesis of `compile_after_history` (third part): two different histories ending in the same resolved mapping
example : Stats.view (Stats.run [Stats.MOp.alloc (fun (l : List Int) => (l.length : Int)), .setItem 10 0,
      (.fields : Stats.MOp (List Int) Int (List Int) Int), .pop 10]) =
    Stats.view (Stats.run [Stats.MOp.alloc (fun (l : List Int) => (l.length : Int)),
      (.clear : Stats.MOp (List Int) Int (List Int) Int)]) := rfl

end C18
