/-
C12 — Compiled GP trees compute what the prefix tree denotes; printing round-trips.
Property theorems only; models `DeapModel/Core/GpCompile.lean` (printer, `from_string`, `evalTree`, `compile`,
`compileADF`) and `DeapModel/Core/PyExpr.lean` (tokenizer, parser and evaluator of the Python expression
sub-language the generated source lives in); helper lemmas `DeapModel/Lemmas/C12*.lean`.

What `eval` does with the source text is no longer assumed: `parse_compileSrc` proves that the model's parser reads
`lambda a,b: <render t>` back as `Lambda [a, b] (exprOfTree t)` for every tree, `evalPy_compile` / `evalSrc_compile`
that evaluating that AST in the namespace is `evalTree`, and `pyCompileADF_eq` lifts it through `compileADF`.

TRUSTED (not modelled): that CPython's tokenizer / parser / evaluator of `Name`, `Constant`, `Call`, `UnaryOp(USub)` and
`Lambda` nodes agree with `PyLang.parseExpr` / `PyLang.evalPy`.  The correspondence run compares, for every source DEAP
really hands to `eval`, the model's AST with `ast.parse` of CPython and the model's values with the compiled callable.
-/
import DeapModel.Lemmas.C12Str
import DeapModel.Lemmas.C12Tok
import DeapModel.Lemmas.C12Parse
import DeapModel.Lemmas.C12Adf
import DeapModel.Lemmas.C12PyTree
import DeapModel.Lemmas.C12Graph
import DeapModel.Lemmas.C12Sem
import DeapModel.Lemmas.C12Rename
import DeapModel.Lemmas.C11Semantic
import Mathlib.Analysis.SpecialFunctions.Log.Basic

namespace C12
open GpTree GpCompile
open PyLang (PyExpr PyEnv PyObj parseExpr evalPy callPy evalSrc isIdent dump)

/-! ### fixtures for the `example`s -/
def pAdd : Prim := ⟨"add", 0, [0, 0], .prim, ""⟩
def pNeg : Prim := ⟨"neg", 0, [0], .prim, ""⟩
def pX : Prim := ⟨"ARG0", 0, [], .term, "x"⟩          -- a renamed argument prints its new name
def pE : Prim := ⟨"E", 0, [], .eph, "-3"⟩             -- an ephemeral prints its value
def exTree : Tree := .node pAdd [.node pNeg [.node pX []], .node pE []]
def exEnv : ParseEnv where
  mapping := fun k => if k = "add".toList then some pAdd else if k = "neg".toList then some pNeg
    else if k = "x".toList then some pX else none
  sub := fun _ _ => true
  ev := fun k => if k = "-3".toList then some (0, "-3".toList) else none

/-! ## Printing -/

/-- The stack machine of `PrimitiveTree.__str__` applied to the prefix form of a well-formed tree
(any arities, incl. zero-argument primitives) yields the recursive text `name(a1, a2, …)` /
terminal text. -/
theorem str_eq_render (t : Tree) (hw : wf t = true) : strBuilder (flatten t) = render t :=
  strBuilder_flatten hw

example : wf exTree = true ∧ String.ofList (strBuilder (flatten exTree)) = "add(neg(x), -3)" := by decide

/-- the source `compile` evaluates is `lambda <args>: <render t>` (just `<render t>` for a
zero-argument set) -/
theorem compileSrc_eq (arguments : List Str) (t : Tree) (hw : wf t = true) :
    compileSrc arguments (flatten t) =
      if arguments.length > 0 then "lambda ".toList ++ joinComma arguments ++ ": ".toList ++ render t
      else render t := by
  simp only [compileSrc, strBuilder_flatten hw]

example : String.ofList (compileSrc ["x".toList, "y".toList] (flatten exTree)) = "lambda x,y: add(neg(x), -3)" := by
  decide

/-! ## Tokenizing -/

/-- The tokenizer of `from_string` applied to the printed tree returns exactly the node texts in
prefix order, provided no node text is empty or contains a separator character. -/
theorem tokens_render (t : Tree) (hw : wf t = true) (hn : ∀ p ∈ flatten t, NameOK p) :
    tokens (render t) = (flatten t).map tok :=
  tokens_render_flatten hw hn

example : (tokens (render exTree)).map String.ofList = ["add", "neg", "x", "-3"] := by decide

example : ∀ p ∈ flatten exTree, NameOK p := by
  intro p hp
  simp [exTree, flatten, flattenF] at hp
  rcases hp with rfl | rfl | rfl | rfl <;> (refine ⟨⟨by decide, ?_⟩, by decide⟩; decide)

/-! ## Parsing -/

/-- The token loop of `from_string` with its type queue (`extendleft(reversed(args))`), run on the
printed tree, is the tree recursion `reparse`: whenever the latter relabels `t` to `t'`, the
former returns `flatten t'`. -/
theorem fromString_eq_reparse (E : ParseEnv) (t t' : Tree) (hw : wf t = true)
    (hn : ∀ p ∈ flatten t, NameOK p) (h : reparse E none t = some t') :
    fromString E (render t) = some (flatten t') := by
  unfold fromString
  rw [tokens_render t hw hn]
  have := fromStringGo_tree E t t' [] [] (by simpa using h)
  simpa [fromStringGo] using this

/-- **Round trip.**  For a well-typed tree whose nodes are known to the primitive set (see
`Registered`), `from_string(str(tree), pset)` succeeds and returns the prefix form of a tree `t'`
with the same node count and the same arities node by node, which prints identically (through the
very string builder) and denotes the same value in every environment.

NOTE: `evalTree` reads only the kind, the name and the text of a node, so in the MODEL the last clause ("computes
the same function") follows from "prints identically with the same shape" and adds no content of its own; the clause
gets its content from the correspondence run, where the re-parsed tree is compiled by the real code and compared
value by value. -/
theorem roundtrip (E : ParseEnv) (refl : ∀ a, E.sub a a = true)
    (trans : ∀ a b c, E.sub a b = true → E.sub b c = true → E.sub a c = true)
    (t : Tree) (σ : Nat) (hwt : wt E.sub σ t = true)
    (hn : ∀ p ∈ flatten t, NameOK p) (hreg : ∀ p ∈ flatten t, Registered E p) :
    ∃ t', fromString E (strBuilder (flatten t)) = some (flatten t') ∧
      (flatten t').length = (flatten t).length ∧
      (flatten t').map (·.arity) = (flatten t).map (·.arity) ∧
      strBuilder (flatten t') = strBuilder (flatten t) ∧
      ∀ env, evalTree env t' = evalTree env t := by
  have hw := wf_of_wt hwt
  obtain ⟨t', hre, hsame⟩ := reparse_ok E refl trans t none
    (fun p hp => ⟨hreg p hp, (hn p hp).2⟩) (wt_mono hwt (refl _)) (by intro σ h; cases h)
  have hw' := sameTree_wf t t' hsame hw
  have har := sameTree_arities t t' hsame
  refine ⟨t', ?_, ?_, ?_, ?_, fun env => sameTree_eval env t t' hsame⟩
  · rw [str_eq_render t hw]; exact fromString_eq_reparse E t t' hw hn hre
  · have := congrArg List.length har; simpa using this
  · have := congrArg (List.map List.length) har
    simpa [List.map_map, Function.comp_def, Prim.arity] using this
  · rw [str_eq_render t hw, str_eq_render t' hw', sameTree_render t t' hsame]

/-- the hypotheses of `roundtrip` hold for a tree with a renamed argument and an ephemeral value -/
example : wt exEnv.sub 0 exTree = true ∧ (∀ p ∈ flatten exTree, Registered exEnv p) ∧
    (fromString exEnv (strBuilder (flatten exTree))).map (·.map (·.name)) = some ["add", "neg", "ARG0", "-3"] := by
  refine ⟨by decide, ?_, by decide⟩
  intro p hp
  simp [exTree, flatten, flattenF] at hp
  rcases hp with rfl | rfl | rfl | rfl
  · exact Or.inl (by decide)
  · exact Or.inl (by decide)
  · exact Or.inl (by decide)
  · exact Or.inr ⟨by decide, Or.inr ⟨by decide, 0, by decide, rfl⟩⟩

/-- evaluation only: whatever list `from_string(str(t))` returns is the prefix form of a tree that
computes the same function as `t` -/
theorem eval_roundtrip (E : ParseEnv) (refl : ∀ a, E.sub a a = true)
    (trans : ∀ a b c, E.sub a b = true → E.sub b c = true → E.sub a c = true)
    (t : Tree) (σ : Nat) (hwt : wt E.sub σ t = true)
    (hn : ∀ p ∈ flatten t, NameOK p) (hreg : ∀ p ∈ flatten t, Registered E p)
    (l' : List Prim) (h : fromString E (strBuilder (flatten t)) = some l') :
    ∃ t', flatten t' = l' ∧ wf t' = true ∧ ∀ env, evalTree env t' = evalTree env t := by
  have hw := wf_of_wt hwt
  obtain ⟨t', hre, hsame⟩ := reparse_ok E refl trans t none
    (fun p hp => ⟨hreg p hp, (hn p hp).2⟩) (wt_mono hwt (refl _)) (by intro σ h; cases h)
  have := fromString_eq_reparse E t t' hw hn hre
  rw [str_eq_render t hw, this] at h
  exact ⟨t', by simpa using h, sameTree_wf t t' hsame hw, fun env => sameTree_eval env t t' hsame⟩

/-! ## Automatically defined functions -/

theorem adf_fold (pts : List (CPset × Tree)) :
    pts.foldr (fun pt st => adfStep st pt) ([], none) =
      (semADF pts, ((semADF pts).head?).map (·.2)) := by
  induction pts with
  | nil => simp [semADF]
  | cons pt pts ih =>
    obtain ⟨ps, t⟩ := pt
    simp only [List.foldr_cons]
    rw [ih]
    simp [adfStep, semADF]

/-- `compileADF` (the loop over the reversed `zip(psets, expr)` with its growing `adfdict`)
returns the meaning of the first tree in which every later set's name denotes — recursively, the
innermost (last) set first — the meaning of the corresponding later tree. -/
theorem adf_eval (pts : List (CPset × Tree)) :
    compileADF pts = ((semADF pts).head?).map (·.2) := by
  unfold compileADF
  rw [List.foldl_reverse, adf_fold]

/-- two-level unfolding: the main tree is evaluated with `ADF1` bound to the evaluator of the
second tree, which itself is evaluated with `ADF2` bound to the evaluator of the third tree -/
theorem adf_eval_two (main a1 a2 : CPset) (t0 t1 t2 : Tree) :
    compileADF [(main, t0), (a1, t1), (a2, t2)] =
      some (compile (withAdfs main.env
        [(a1.name, compile (withAdfs a1.env [(a2.name, compile (withAdfs a2.env []) a2.arguments t2)]) a1.arguments t1),
         (a2.name, compile (withAdfs a2.env []) a2.arguments t2)]) main.arguments t0) := by
  rw [adf_eval]; simp [semADF]

/-! ## One individual's meaning does not depend on what else was compiled -/

/-- the callable of the session model is the head of its `adfdict` -/
theorem sessGo_func (items : List (PSig × Env × Tree)) :
    (sessGo items).2.2 = ((sessGo items).1.head?).map (·.2) := by
  cases items with
  | nil => rfl
  | cons x rest => obtain ⟨sg, c, t⟩ := x; simp [sessGo]

/-- **What F20 fixed, at statement level.**  `sessGo` models a session in which every primitive set
carries its current `context` and each `compileADF` call rebinds it (`pset.context = dict(pset.context,
**adfdict)`).  Compile individual `A`, then individual `B` against the same sets:
(i) the callable obtained for `A` is the pure meaning of `A`'s own trees in the sets' original contexts
    (`compileADF`, i.e. `adf_eval`) — it is a value of the model and nothing `B` does can change it;
(ii) the callable obtained for `B`, although compiled in the contexts left behind by `A`, is the pure
    meaning of `B`'s own trees: every ADF name is bound again, so nothing of `A` leaks into `B`. -/
theorem compile_adf_independent (sigs : List PSig) (cs : List Env) (A B : List Tree)
    (h1 : sigs.length = cs.length) (h2 : cs.length = A.length) (h3 : A.length = B.length) :
    (sessGo (mkItems sigs cs A)).2.2 =
      compileADF ((mkItems sigs cs A).map (fun x => (⟨x.1.name, x.1.arguments, x.2.1⟩, x.2.2))) ∧
    (sessGo (mkItems sigs (sessGo (mkItems sigs cs A)).2.1 B)).2.2 =
      compileADF ((mkItems sigs cs B).map (fun x => (⟨x.1.name, x.1.arguments, x.2.1⟩, x.2.2))) := by
  refine ⟨?_, ?_⟩
  · rw [adf_eval, sessGo_func, sessGo_eq_sem]
  · rw [(sessGo_independent sigs cs A B h1 h2 h3).2, adf_eval, sessGo_func, sessGo_eq_sem]

example : ([⟨"MAIN".toList, ["x".toList]⟩, ⟨"ADF1".toList, []⟩] : List PSig).length = [exTree, exTree].length := by decide

/-! ## The source text means what the tree denotes (CPython's `eval` of the generated lambda, modelled) -/

/-- **The parser inverts the printer.**  For every well-formed tree whose primitive names are identifiers and whose
terminals print as names or literals (`SrcOK`), and distinct identifier argument names (`ArgsOK`), the source text
`gp.compile` hands to `eval` — `lambda a,b: <str(tree)>`, or just `<str(tree)>` for a set without arguments — is read
by the tokenizer + parser of the Python expression model as exactly `Lambda [a, b] (exprOfTree t)` (resp.
`exprOfTree t`): every call has its arguments in the right positions, for all arities and depths. -/
theorem parse_compileSrc (arguments : List Str) (t : Tree) (hw : wf t = true)
    (ha : ArgsOK arguments = true) (hs : ∀ p ∈ flatten t, SrcOK p = true) :
    parseExpr (compileSrc arguments (flatten t)) =
      some (if arguments.length > 0 then PyExpr.lam arguments (exprOfTree t) else exprOfTree t) := by
  rw [compileSrc_eq arguments t hw]
  by_cases hl : arguments.length > 0
  · have hne : arguments ≠ [] := by intro h; simp [h] at hl
    simp only [hl, if_true, parseExpr, lex_lambda arguments t hne (argsOK_ident ha) hs, Option.bind_some]
    simp only [PyLang.parseToks, pTop_lambda, pParams_ok arguments _ hne (argsOK_ident ha), argsOK_nodup ha,
      if_true, pTop_tree t hs, Option.map_some]
  · simp only [hl, if_false, parseExpr, lex_tree t hs, Option.bind_some, PyLang.parseToks, pTop_tree t hs]

/-- the hypotheses hold for a tree with a renamed argument and a negative ephemeral; the parser returns the AST -/
example : wf exTree = true ∧ ArgsOK ["x".toList, "y".toList] = true ∧ (∀ p ∈ flatten exTree, SrcOK p = true) ∧
    (parseExpr (compileSrc ["x".toList, "y".toList] (flatten exTree))).map dump =
      some "Lx,y(Cadd(Cneg(Nx);M(I3)))" := by decide

/-- literals as `repr` prints them are atoms of the language: negative ints, floats in exponent form, booleans,
`None`, quoted strings -/
example : (["-3", "1e-17", "-2.5e+16", "0.1", "True", "None", "'ab'", "\"it's\"", "x_1"].map
    (fun s => PyLang.isAtomText s.toList)) = [true, true, true, true, true, true, true, true, true] := by decide

/-- **The hypothesis `SrcOK` in explicit, character-level form.**  A primitive whose name is an identifier, and a terminal
whose text is an identifier (argument, named terminal), a decimal integer literal without leading zeros, or a minus
sign followed by one (what `repr` prints for an int), can be written into the source.  So for trees over names and
integer constants `parse_compileSrc` … `pyCompileADF_eq` hold with no reference to the tokenizer in their premises;
for float, bool, `None` and string constants the premise is the computable check `isAtomText` (see the `example`s). -/
theorem srcOK_names_ints (p : Prim)
    (hp : p.kind = .prim → isIdent p.name.toList = true)
    (ht : p.kind ≠ .prim → isIdent p.text.toList = true ∨ PyLang.isIntLit p.text.toList = true ∨
      ∃ r, p.text.toList = '-' :: r ∧ PyLang.isIntLit r = true) :
    SrcOK p = true := by
  by_cases hk : p.kind = .prim
  · simp [SrcOK, hk, hp hk]
  · simp only [SrcOK, hk, if_false, PyLang.isAtomText]
    rcases ht hk with h | h | ⟨r, hr, h⟩
    · rw [PyLang.atomOf_ident h]; rfl
    · rw [PyLang.atomOf_int h]; rfl
    · rw [hr, PyLang.atomOf_negInt h]; rfl

example : (pAdd.kind = .prim → isIdent pAdd.name.toList = true) ∧
    (pE.kind ≠ .prim → isIdent pE.text.toList = true ∨ PyLang.isIntLit pE.text.toList = true ∨
      ∃ r, pE.text.toList = '-' :: r ∧ PyLang.isIntLit r = true) :=
  ⟨fun _ => by decide, fun _ => Or.inr (Or.inr ⟨['3'], by decide, by decide⟩)⟩

/-- **Python's evaluation of that AST is the tree's evaluation.**  Applying the lambda `Lambda args (exprOfTree t)` to
`vals` in the namespace `P` (parameters shadow the globals; a call looks up the callee, evaluates the arguments left to
right and applies) gives `compile (envOfPy P) args t vals`, i.e. `evalTree` of the prefix tree in the environment
extended by the arguments. -/
theorem evalPy_compile (P : PyEnv) (arguments : List Str) (t : Tree) (vals : List Val)
    (ha : ∀ a ∈ arguments, isIdent a = true) (hs : ∀ p ∈ flatten t, SrcOK p = true) :
    callPy P (PyExpr.lam arguments (exprOfTree t)) vals = compile (envOfPy P) arguments t vals ∧
    compile (envOfPy P) arguments t vals =
      (if vals.length ≠ arguments.length then none
       else evalTree { envOfPy P with vars := bindArgs arguments vals (envOfPy P).vars,
                                      funs := shadowFuns arguments vals (envOfPy P).funs } t) := by
  refine ⟨?_, rfl⟩
  simp only [callPy, compile]
  by_cases hl : vals.length ≠ arguments.length
  · rw [if_pos hl, if_pos hl]
  · rw [if_neg hl, if_neg hl]
    exact evalPy_tree P arguments vals ha t hs

example : (∀ a ∈ ["x".toList, "y".toList], isIdent a = true) ∧ (∀ p ∈ flatten exTree, SrcOK p = true) := by decide

/-- **From the text to the value.**  `pyCompile` is `gp.compile` as coded: build the source, parse it, evaluate the
AST in `pset.context` (`eval(code, pset.context, {})`), call the result.  It computes what the prefix tree denotes. -/
theorem evalSrc_compile (P : PyEnv) (arguments : List Str) (t : Tree) (vals : List Val) (hw : wf t = true)
    (ha : ArgsOK arguments = true) (hs : ∀ p ∈ flatten t, SrcOK p = true) :
    pyCompile P arguments (flatten t) vals = compile (envOfPy P) arguments t vals := by
  unfold pyCompile evalSrc
  rw [parse_compileSrc arguments t hw ha hs]
  by_cases hl : arguments.length > 0
  · simp only [hl, if_true, decide_true]
    exact (evalPy_compile P arguments t vals (argsOK_ident ha) hs).1
  · have hnil : arguments = [] := by
      cases arguments with
      | nil => rfl
      | cons a as => simp at hl
    subst hnil
    simp only [List.length_nil, Nat.lt_irrefl, decide_false, if_false, Bool.false_eq_true]
    have := evalPy_tree P [] vals (by simp) t hs
    cases vals with
    | nil =>
      simp only [List.isEmpty_nil, if_true]
      simpa [compile, bodyEnv, bodyTreeEnv] using this
    | cons v vs => simp [compile]

example : wf exTree = true ∧ ArgsOK ([] : List Str) = true := by decide

/-! ### … including trees that call automatically defined functions -/

/-- the tree-level view of a primitive set given with its Python namespace -/
def toCPset (ps : PyCPset) : CPset := ⟨ps.name, ps.arguments, envOfPy ps.ctx⟩

/-- what `pyCompileADF_eq` asks of one (set, tree) pair -/
def AdfOK (pt : PyCPset × Tree) : Prop :=
  wf pt.2 = true ∧ ArgsOK pt.1.arguments = true ∧ isIdent pt.1.name = true ∧ ∀ p ∈ flatten pt.2, SrcOK p = true

/-- one step of `compileADF`: compiling a tree through its source text in the namespace extended by the ADFs
compiled so far is compiling the tree in the extended tree environment -/
theorem pyCompile_withAdfs (pt : PyCPset × Tree) (d : List (Str × (List Val → Option Val)))
    (hd : ∀ e ∈ d, isIdent e.1 = true) (hok : AdfOK pt) :
    pyCompile (withAdfsPy pt.1.ctx d) pt.1.arguments (flatten pt.2) =
      compile (withAdfs (envOfPy pt.1.ctx) d) pt.1.arguments pt.2 := by
  obtain ⟨hw, ha, _, hs⟩ := hok
  funext vals
  rw [evalSrc_compile _ _ _ _ hw ha hs, envOfPy_withAdfs _ _ hd]

example : AdfOK ((⟨"ADF1".toList, ["x".toList, "y".toList], ⟨fun _ => none, []⟩⟩ : PyCPset), exTree) :=
  ⟨by decide, by decide, by decide, by decide⟩

theorem pyAdfStep_eq (st : List (Str × (List Val → Option Val)) × Option (List Val → Option Val))
    (hd : ∀ e ∈ st.1, isIdent e.1 = true) (pt : PyCPset × Tree) (hok : AdfOK pt) :
    pyAdfStep st (pt.1, flatten pt.2) = adfStep st (toCPset pt.1, pt.2) := by
  have := pyCompile_withAdfs pt _ hd hok
  simp only [pyAdfStep, pyAdfStepSrc, adfStep, toCPset]
  rw [← this]
  rfl

example : ∀ e ∈ (([], none) : List (Str × (List Val → Option Val)) × Option (List Val → Option Val)).1,
    isIdent e.1 = true := by simp

theorem pyAdf_fold (pts : List (PyCPset × Tree)) (h : ∀ pt ∈ pts, AdfOK pt) :
    (pts.map (fun pt => (pt.1, flatten pt.2))).foldr (fun pt st => pyAdfStep st pt) ([], none) =
      (pts.map (fun pt => (toCPset pt.1, pt.2))).foldr (fun pt st => adfStep st pt) ([], none) ∧
    ∀ e ∈ ((pts.map (fun pt => (toCPset pt.1, pt.2))).foldr (fun pt st => adfStep st pt) ([], none)).1,
      isIdent e.1 = true := by
  induction pts with
  | nil => simp
  | cons pt pts ih =>
    obtain ⟨ih1, ih2⟩ := ih (fun q hq => h q (by simp [hq]))
    have hok := h pt (by simp)
    simp only [List.map_cons, List.foldr_cons]
    rw [ih1]
    refine ⟨?_, ?_⟩
    · exact pyAdfStep_eq _ ih2 pt hok
    · intro e he
      simp only [adfStep, toCPset, List.mem_cons] at he
      rcases he with rfl | he
      · exact hok.2.2.1
      · exact ih2 e he

example : ∀ pt ∈ ([] : List (PyCPset × Tree)), AdfOK pt := by simp

/-- **ADFs.**  `compileADF` as coded — every tree compiled THROUGH its source text, innermost set first, the callables
compiled so far put into the globals of the next lambda (`dict(pset.context, **adfdict)`) — returns the same callable
as the tree-level `compileADF`, whose meaning `adf_eval` gives: the main tree evaluated with every ADF name bound to
the evaluator of the corresponding tree. -/
theorem pyCompileADF_eq (pts : List (PyCPset × Tree)) (h : ∀ pt ∈ pts, AdfOK pt) :
    pyCompileADF (pts.map (fun pt => (pt.1, flatten pt.2))) =
      compileADF (pts.map (fun pt => (toCPset pt.1, pt.2))) := by
  unfold pyCompileADF compileADF
  rw [List.foldl_reverse, List.foldl_reverse, (pyAdf_fold pts h).1]

/-- compiling the source texts is compiling the sources built from the trees (`pyCompileADFSrc` is what the
correspondence run evaluates on the texts DEAP really handed to `eval`) -/
theorem pyCompileADFSrc_eq (pts : List (PyCPset × List Prim)) :
    pyCompileADFSrc (pts.map (fun pt => (pt.1, compileSrc pt.1.arguments pt.2))) = pyCompileADF pts := by
  unfold pyCompileADFSrc pyCompileADF
  rw [← List.map_reverse, List.foldl_map]
  rfl

/-- a two-set instance of the hypotheses: `MAIN(x)` calling `ADF1`, both trees over identifiers and literals -/
example : ∀ pt ∈ [((⟨"MAIN".toList, ["x".toList, "y".toList], ⟨fun _ => none, []⟩⟩ : PyCPset), exTree),
                  (⟨"ADF1".toList, [], ⟨fun _ => none, []⟩⟩, exTree)], AdfOK pt := by
  intro pt hpt
  simp only [List.mem_cons, List.not_mem_nil, or_false] at hpt
  rcases hpt with rfl | rfl <;> exact ⟨by decide, by decide, by decide, by decide⟩

/-! ## `gp.graph`: nodes, labels and the parent → child edges of the prefix tree -/

/-- `nodes` is `range(len(expr))`, and `labels` maps every index to the node's name (a primitive) or value
(a terminal / ephemeral constant; the text the model carries for it) -/
theorem graph_nodes_labels (l : List Prim) :
    graphNodes l = List.range l.length ∧ (graphLabels l).length = l.length ∧
    ∀ i (hi : i < l.length), (graphLabels l)[i]? = some (if l[i].kind = .prim then l[i].name else l[i].text) := by
  refine ⟨rfl, by simp [graphLabels], ?_⟩
  intro i hi
  simp [graphLabels, labelOf, hi]

/-- **The edges are exactly the parent → child relation of the tree the prefix list denotes.**  For every well-formed
tree `t` (any arities and depths), the stack loop of `graph` run on `flatten t` returns an edge `(i, j)` iff the node
with index `j` is a child of the node with index `i` (`IsChild`: the subtree rooted at `i` has a child whose root sits
at `j`); the list is the depth-first listing `edgesT 0 t`; there are `len − 1` edges; and the targets of the edges
are `1, 2, …, len − 1`, each once and in this order — every node but the root has exactly one parent. -/
theorem graph_edges_tree (t : Tree) (hw : wf t = true) :
    (∀ i j, (i, j) ∈ graphEdges (flatten t) ↔ IsChild t i j) ∧
    graphEdges (flatten t) = edgesT 0 t ∧
    (graphEdges (flatten t)).length = (flatten t).length - 1 ∧
    (graphEdges (flatten t)).map Prod.snd = List.range' 1 ((flatten t).length - 1) := by
  have e := graphEdges_flatten t hw
  have hs := edgesT_snd 0 t
  rw [flatten_length, e]
  refine ⟨fun i j => mem_edgesT_zero t i j, rfl, ?_, by simpa using hs⟩
  have := congrArg List.length hs
  simpa using this

example : wf exTree = true ∧ graphEdges (flatten exTree) = [(0, 1), (1, 2), (0, 3)] ∧
    graphLabels (flatten exTree) = ["add", "neg", "x", "-3"] := by decide

/-- every node other than the root has exactly one parent, and it precedes the node; the root has none -/
theorem graph_unique_parent (t : Tree) (hw : wf t = true) (j : Nat) :
    (0 < j ∧ j < (flatten t).length →
      ∃ i, (i, j) ∈ graphEdges (flatten t) ∧ ∀ i', (i', j) ∈ graphEdges (flatten t) → i' = i) ∧
    (∀ i, (i, j) ∈ graphEdges (flatten t) → 0 < j ∧ j < (flatten t).length) := by
  obtain ⟨_, _, _, hs⟩ := graph_edges_tree t hw
  have hmem : ∀ i, (i, j) ∈ graphEdges (flatten t) → j ∈ List.range' 1 ((flatten t).length - 1) := by
    intro i hi
    rw [← hs]
    exact List.mem_map.2 ⟨(i, j), hi, rfl⟩
  have hnd : ((graphEdges (flatten t)).map Prod.snd).Nodup := by rw [hs]; exact List.nodup_range' 1
  constructor
  · rintro ⟨h0, hlt⟩
    have hj : j ∈ (graphEdges (flatten t)).map Prod.snd := by
      rw [hs, List.mem_range'_1]; omega
    obtain ⟨⟨i, j'⟩, hin, rfl⟩ := List.mem_map.1 hj
    refine ⟨i, hin, ?_⟩
    intro i' hi'
    have := List.inj_on_of_nodup_map hnd hi' hin rfl
    exact (Prod.mk.inj this).1
  · intro i hi
    have := hmem i hi
    rw [List.mem_range'_1] at this
    omega

example : 0 < 2 ∧ 2 < (flatten exTree).length := by decide

/-! ## What the geometric semantic operators compute -/

/-- the compile model's `evalTree` is the value-generic denotation `evalG` at the carrier of Python values: the
denotation theorems below, stated for any carrier, are statements about what `gp.compile` makes of the offspring
(`evalSrc_compile`: compiled callable = `evalTree`) -/
theorem evalTree_is_evalG (env : Env) (t : Tree) : evalTree env t = evalG (toEnvG env) t :=
  evalTree_eq_evalG env t

/-- **Denotation of a semantic mutant, any carrier.**  Let the operator return `out` for the parent `flatten ti`.
Then `out` is the prefix form of `add(ti, mul(ms, sub(lf(t1), lf(t2))))` for the two generated trees `t1`, `t2`, and
in every environment that binds the four names to functions `fadd`, `fmul`, `fsub`, `flf` and reads the constant's
text as the value `msv`, it denotes `fadd a (fmul msv (fsub (flf b) (flf c)))` where `a`, `b`, `c` are the values of
the parent and of the two random trees. -/
theorem semantic_mut_denotes {α : Type} {env : EnvG α} {mapping : String → Option Prim} {reprF : Float → String}
    {ti : Tree} {out : List Prim} {gen : Tape → R (List Prim × Tape)} {ms : Option Float} {tp tp' : Tape}
    (hgen : ∀ tp o tp', gen tp = .ok (o, tp') → ∃ t, wf t = true ∧ flatten t = o)
    (h : mutSemantic mapping reprF (flatten ti) gen ms tp = .ok (out, tp')) :
    ∃ pc t1 t2 text, semPieces mapping = some pc ∧ wf t1 = true ∧ wf t2 = true ∧
      out = flatten (semMutTree pc (constNode text) ti t1 t2) ∧
      ∀ (fadd fmul fsub : α → α → α) (flf : α → α) (msv a b c : α),
        SemEnv env pc fadd fmul fsub flf → ConstDenotes env text msv →
        evalG env ti = some a → evalG env t1 = some b → evalG env t2 = some c →
        evalG env (semMutTree pc (constNode text) ti t1 t2) = some (fadd a (fmul msv (fsub (flf b) (flf c)))) := by
  obtain ⟨pc, tr1, tp1, tr2, tp2, v, hpc, h1, h2, _, rfl⟩ := mutSemantic_ok h
  obtain ⟨t1, hw1, rfl⟩ := hgen _ _ _ h1
  obtain ⟨t2, hw2, rfl⟩ := hgen _ _ _ h2
  refine ⟨pc, t1, t2, reprF v, hpc, hw1, hw2, semMutList_flatten _ _ _ _ _, ?_⟩
  intro fadd fmul fsub flf msv a b c he hc ha hb hcc
  exact evalG_semMutTree he hc ha hb hcc

/-- the logistic function the GSGP papers (and the docstrings) use for `lf` -/
noncomputable def logistic (x : ℝ) : ℝ := 1 / (1 + Real.exp (-x))

theorem logistic_unit (x : ℝ) : 0 < logistic x ∧ logistic x < 1 := by
  have h := Real.exp_pos (-x)
  unfold logistic
  constructor
  · positivity
  · rw [div_lt_one (by positivity)]; linarith

/-- a real-valued environment for a GSGP set: `add`, `mul`, `sub` are the field operations, `lf` the logistic function -/
def RealGsgp (env : EnvG ℝ) (pc : SemPieces) : Prop :=
  SemEnv env pc (· + ·) (· * ·) (· - ·) logistic

/-- **Over the reals: `mutSemantic(ind)` denotes `ind + ms · (lf(tr1) − lf(tr2))`**, a perturbation of the parent's
value by less than `|ms|` (the two logistic values lie in `(0, 1)`). -/
theorem semantic_mut_denotes_real {env : EnvG ℝ} {pc : SemPieces} (he : RealGsgp env pc) {text : String} {ms : ℝ}
    (hc : ConstDenotes env text ms) {ti t1 t2 : Tree} {a b c : ℝ}
    (ha : evalG env ti = some a) (hb : evalG env t1 = some b) (hcc : evalG env t2 = some c) :
    evalG env (semMutTree pc (constNode text) ti t1 t2) = some (a + ms * (logistic b - logistic c)) ∧
    |a + ms * (logistic b - logistic c) - a| ≤ |ms| := by
  refine ⟨evalG_semMutTree he hc ha hb hcc, ?_⟩
  have hb' := logistic_unit b
  have hc' := logistic_unit c
  have : a + ms * (logistic b - logistic c) - a = ms * (logistic b - logistic c) := by ring
  rw [this, abs_mul]
  have h1 : |logistic b - logistic c| ≤ 1 := by
    rw [abs_le]; constructor <;> linarith [hb'.1, hb'.2, hc'.1, hc'.2]
  calc |ms| * |logistic b - logistic c| ≤ |ms| * 1 := mul_le_mul_of_nonneg_left h1 (abs_nonneg _)
    _ = |ms| := mul_one _

/-- a concrete real environment satisfying the hypotheses: names `add mul sub lf`, the variable `ARG0 = 3`, every other
text reads as the constant `1/2` -/
noncomputable def exRealEnv : EnvG ℝ where
  funs := fun k =>
    if k = "add".toList then some (fun vs => match vs with | [a, b] => some (a + b) | _ => none)
    else if k = "mul".toList then some (fun vs => match vs with | [a, b] => some (a * b) | _ => none)
    else if k = "sub".toList then some (fun vs => match vs with | [a, b] => some (a - b) | _ => none)
    else if k = "lf".toList then some (fun vs => match vs with | [a] => some (logistic a) | _ => none)
    else none
  vars := fun k => if k = "ARG0".toList then some 3 else none
  lit := fun _ => some (1 / 2)

example : RealGsgp exRealEnv ⟨gsLf, gsMul, gsAdd, gsSub⟩ ∧ ConstDenotes exRealEnv "0.5" (1 / 2) ∧
    evalG exRealEnv (.node gsX []) = some 3 := by
  refine ⟨⟨rfl, rfl, rfl, rfl, ?_, ?_, ?_, ?_⟩, ⟨?_, ?_⟩, ?_⟩
  all_goals simp [exRealEnv, gsAdd, gsMul, gsSub, gsLf, gsX, evalG]
  all_goals (funext vs; rcases vs with _ | ⟨a, _ | ⟨b, _ | ⟨c, _⟩⟩⟩ <;> rfl)

/-- **Denotation of the semantic offspring, any carrier.**  For parents `flatten ta`, `flatten tb` the operator
returns `child1 = add(mul(ta, lf(tr)), mul(sub(1.0, lf(tr)), tb))` and — because the first parent object has already
become the first child when the second child is assembled — `child2 = add(mul(tb, lf(tr)), mul(sub(1.0, lf(tr)),
child1))`; their values are `fadd (fmul a r') (fmul (fsub one r') b)` and `fadd (fmul b r') (fmul (fsub one r') v1)`
with `r' = flf r` and `v1` the value of child 1. -/
theorem semantic_cx_denotes {α : Type} {env : EnvG α} {mapping : String → Option Prim} {reprF : Float → String}
    {ta tb : Tree} {o1 o2 : List Prim} {gen : Tape → R (List Prim × Tape)} {tp tp' : Tape}
    (hgen : ∀ tp o tp', gen tp = .ok (o, tp') → ∃ t, wf t = true ∧ flatten t = o)
    (h : cxSemantic mapping reprF (flatten ta) (flatten tb) gen tp = .ok (o1, o2, tp')) :
    ∃ pc tr text, semPieces mapping = some pc ∧ wf tr = true ∧
      o1 = flatten (semCxTree pc (constNode text) ta tb tr) ∧
      o2 = flatten (semCxTree pc (constNode text) tb (semCxTree pc (constNode text) ta tb tr) tr) ∧
      ∀ (fadd fmul fsub : α → α → α) (flf : α → α) (one a b r : α),
        SemEnv env pc fadd fmul fsub flf → ConstDenotes env text one →
        evalG env ta = some a → evalG env tb = some b → evalG env tr = some r →
        evalG env (semCxTree pc (constNode text) ta tb tr) = some (fadd (fmul a (flf r)) (fmul (fsub one (flf r)) b)) ∧
        evalG env (semCxTree pc (constNode text) tb (semCxTree pc (constNode text) ta tb tr) tr) =
          some (fadd (fmul b (flf r)) (fmul (fsub one (flf r)) (fadd (fmul a (flf r)) (fmul (fsub one (flf r)) b)))) := by
  obtain ⟨pc, l, hpc, hg, e1, e2⟩ := cxSemantic_ok h
  obtain ⟨tr, hwr, rfl⟩ := hgen _ _ _ hg
  rw [semCxList_flatten] at e1
  subst e1
  rw [semCxList_flatten] at e2
  subst e2
  refine ⟨pc, tr, reprF 1.0, hpc, hwr, rfl, rfl, ?_⟩
  intro fadd fmul fsub flf one a b r he hc ha hb hr
  have v1 := evalG_semCxTree he hc ha hb hr
  exact ⟨v1, evalG_semCxTree he hc hb v1 hr⟩

/-- **Over the reals: the first child denotes `tr'·ind1 + (1 − tr')·ind2` with `tr' = lf(tr) ∈ (0, 1)`** — a convex
combination, so its value lies between the parents' values (the geometric property of the crossover).  The second
child denotes `tr'·ind2 + (1 − tr')·child1` (NOT `tr'·ind2 + (1 − tr')·ind1`, which is what the docstring announces):
still a convex combination of the parents' values, with weight `tr'·(1 − tr')` on `ind1`. -/
theorem semantic_cx_denotes_real {env : EnvG ℝ} {pc : SemPieces} (he : RealGsgp env pc) {text : String}
    (hc : ConstDenotes env text 1) {ta tb tr : Tree} {a b r : ℝ}
    (ha : evalG env ta = some a) (hb : evalG env tb = some b) (hr : evalG env tr = some r) :
    evalG env (semCxTree pc (constNode text) ta tb tr) = some (logistic r * a + (1 - logistic r) * b) ∧
    evalG env (semCxTree pc (constNode text) tb (semCxTree pc (constNode text) ta tb tr) tr) =
      some (logistic r * b + (1 - logistic r) * (logistic r * a + (1 - logistic r) * b)) ∧
    min a b ≤ logistic r * a + (1 - logistic r) * b ∧ logistic r * a + (1 - logistic r) * b ≤ max a b := by
  have v1 := evalG_semCxTree he hc ha hb hr
  have v2 := evalG_semCxTree he hc hb v1 hr
  have hl := logistic_unit r
  refine ⟨by rw [v1]; congr 1; ring, by rw [v2]; congr 1; ring, ?_, ?_⟩
  · have h1 : min a b ≤ a := min_le_left _ _
    have h2 : min a b ≤ b := min_le_right _ _
    nlinarith [hl.1, hl.2]
  · have h1 : a ≤ max a b := le_max_left _ _
    have h2 : b ≤ max a b := le_max_right _ _
    nlinarith [hl.1, hl.2]

example : ConstDenotes exRealEnv "0.5" (1 / 2) ∧ evalG exRealEnv (.node gsX []) = some 3 := by
  refine ⟨⟨?_, ?_⟩, ?_⟩ <;> simp [exRealEnv, gsX, evalG]

/-! ## Renaming histories

A tree object holds REFERENCES to the argument terminals of its set; `renameArguments` mutates them in place.  The tree
(`t`, with `argIx` telling which nodes are references and to which position) is constant through a history; the
state is the list of current names. -/

/-- fixtures: `sub(<arg0>, <arg1>)`, references recognised by the marker names `@0`, `@1` -/
def hA0 : Prim := ⟨"@0", 0, [], .term, "stale"⟩
def hA1 : Prim := ⟨"@1", 0, [], .term, "stale"⟩
def hSub : Prim := ⟨"sub", 0, [0, 0], .prim, ""⟩
def hTree : Tree := .node hSub [.node hA0 [], .node hA1 []]
def hIx (p : Prim) : Option Nat := if p = hA0 then some 0 else if p = hA1 then some 1 else none
def hNames0 : List Str := ["ARG0".toList, "ARG1".toList]
/-- swap, then a chained renaming of one of the two -/
def hKs : List (List (Str × Str)) :=
  [[("ARG0".toList, "ARG1".toList), ("ARG1".toList, "ARG0".toList)], [("ARG1".toList, "x".toList)]]

/-- **Compile after any history of renamings.**  For every sequence `ks` of `renameArguments` calls on a set whose
arguments were `names0`, compiling the (unchanged) tree object under the FINAL names and calling the result on `vals`
gives the direct, name-free interpretation of the tree: the terminal of argument position `i` denotes `vals[i]` —
provided the final names are distinct and none of them is the text of another node of the tree (a lambda parameter
shadows the context).  Nothing of what was printed or compiled before the last renaming enters. -/
theorem compile_after_rename_history (env : Env) (argIx : Prim → Option Nat) (names0 : List Str)
    (ks : List (List (Str × Str))) (t : Tree) (vals : List Val)
    (hnd : (renameHistory names0 ks).Nodup) (hlen : vals.length = names0.length)
    (hix : ∀ p ∈ flatten t, ∀ i, argIx p = some i → i < names0.length)
    (hfr : ∀ p ∈ flatten t, argIx p = none → tok p ∉ renameHistory names0 ks) :
    compile env (renameHistory names0 ks) (viewTree argIx (renameHistory names0 ks) t) vals =
      evalRef env argIx vals t := by
  have hl : (renameHistory names0 ks).length = names0.length := renameHistory_length ks names0
  unfold compile viewTree
  rw [if_neg (by rw [hl]; exact fun h => h hlen)]
  exact evalTree_view env argIx _ vals hnd (by rw [hl]; exact hlen) t (by rw [hl]; exact hix) hfr

example : renameHistory hNames0 hKs = ["x".toList, "ARG0".toList] ∧ (renameHistory hNames0 hKs).Nodup ∧
    ([.int 10, .int 1] : List Val).length = hNames0.length ∧
    (∀ p ∈ flatten hTree, ∀ i, hIx p = some i → i < hNames0.length) ∧
    (∀ p ∈ flatten hTree, hIx p = none → tok p ∉ renameHistory hNames0 hKs) ∧
    String.ofList (compileSrc (renameHistory hNames0 hKs) (flatten (viewTree hIx (renameHistory hNames0 hKs) hTree))) =
      "lambda x,ARG0: sub(x, ARG0)" := by decide

/-- the same through the TEXT, as `gp.compile` does it (source string, `eval` in `pset.context`, call): the source built
from the tree's nodes as they print under the final names evaluates to the name-free interpretation. -/
theorem pyCompile_after_rename_history (P : PyEnv) (argIx : Prim → Option Nat) (names0 : List Str)
    (ks : List (List (Str × Str))) (t : Tree) (vals : List Val) (hw : wf t = true)
    (ha : ArgsOK (renameHistory names0 ks) = true) (hlen : vals.length = names0.length)
    (hs : ∀ p ∈ flatten t, SrcOK (viewNode argIx (renameHistory names0 ks) p) = true)
    (hix : ∀ p ∈ flatten t, ∀ i, argIx p = some i → i < names0.length)
    (hfr : ∀ p ∈ flatten t, argIx p = none → tok p ∉ renameHistory names0 ks) :
    pyCompile P (renameHistory names0 ks) ((flatten t).map (viewNode argIx (renameHistory names0 ks))) vals =
      evalRef (envOfPy P) argIx vals t := by
  have hwv : wf (viewTree argIx (renameHistory names0 ks) t) = true := by
    unfold viewTree; rw [wf_mapTree _ (viewNode_args argIx _)]; exact hw
  have hsv : ∀ p ∈ flatten (viewTree argIx (renameHistory names0 ks) t), SrcOK p = true := by
    unfold viewTree; rw [flatten_mapTree]
    intro p hp
    obtain ⟨q, hq, rfl⟩ := List.mem_map.mp hp
    exact hs q hq
  have := evalSrc_compile P (renameHistory names0 ks) (viewTree argIx (renameHistory names0 ks) t) vals hwv ha hsv
  unfold viewTree at this
  rw [flatten_mapTree] at this
  rw [this]
  exact compile_after_rename_history (envOfPy P) argIx names0 ks t vals (nodupStr_nodup (argsOK_nodup ha)) hlen hix hfr

example : wf hTree = true ∧ ArgsOK (renameHistory hNames0 hKs) = true ∧
    (∀ p ∈ flatten hTree, SrcOK (viewNode hIx (renameHistory hNames0 hKs) p) = true) := by decide

/-- the renamings of a session, in order -/
def renamesOf : List HStep → List (List (Str × Str))
  | [] => []
  | .rename k :: rest => k :: renamesOf rest
  | _ :: rest => renamesOf rest

/-- **What a session observes last depends on the node list and the final names only.**  Whatever was printed, compiled
or renamed before (`steps`), a `compile` at the end hands `eval` the source built from the node list as it prints under
`renameHistory cur (renamesOf steps)`, a `str` returns that text: `str` is a function of the current node names, there
is no state of earlier observations in it (what a cache of the printed text would add). -/
theorem session_last_observation (argIx : Prim → Option Nat) (l : List Prim) (steps : List HStep) (cur : List Str) :
    (runSession argIx l cur steps).2 = renameHistory cur (renamesOf steps) ∧
    (runSession argIx l cur (steps ++ [.compile])).1 = (runSession argIx l cur steps).1 ++
      [compileSrc (renameHistory cur (renamesOf steps))
        (l.map (viewNode argIx (renameHistory cur (renamesOf steps))))] ∧
    (runSession argIx l cur (steps ++ [.str])).1 = (runSession argIx l cur steps).1 ++
      [strBuilder (l.map (viewNode argIx (renameHistory cur (renamesOf steps))))] := by
  induction steps generalizing cur with
  | nil => simp [runSession, renamesOf, renameHistory]
  | cons s rest ih =>
    cases s with
    | rename k =>
      have := ih (renameArgs cur k)
      simpa [runSession, renamesOf, renameHistory] using this
    | compile =>
      have := ih cur
      simp only [List.cons_append, runSession, renamesOf]
      exact ⟨this.1, by rw [this.2.1], by rw [this.2.2]⟩
    | str =>
      have := ih cur
      simp only [List.cons_append, runSession, renamesOf]
      exact ⟨this.1, by rw [this.2.1], by rw [this.2.2]⟩

/-- the printed tree after a history is the recursive text of the tree under the final names -/
theorem str_after_rename_history (argIx : Prim → Option Nat) (names0 : List Str) (ks : List (List (Str × Str)))
    (t : Tree) (hw : wf t = true) :
    strBuilder ((flatten t).map (viewNode argIx (renameHistory names0 ks))) =
      render (viewTree argIx (renameHistory names0 ks) t) := by
  have hwv : wf (viewTree argIx (renameHistory names0 ks) t) = true := by
    unfold viewTree; rw [wf_mapTree _ (viewNode_args argIx _)]; exact hw
  have := str_eq_render _ hwv
  unfold viewTree at this ⊢
  rw [flatten_mapTree] at this
  exact this

example : wf hTree = true ∧
    String.ofList (render (viewTree hIx (renameHistory hNames0 hKs) hTree)) = "sub(x, ARG0)" := by decide

/-- renaming back: a renaming followed by its inverse restores the names (so the tree prints as at the start) -/
theorem rename_back (names : List Str) (k k' : List (Str × Str))
    (hinv : ∀ a ∈ names, (kwLookup k' ((kwLookup k a).getD a)).getD ((kwLookup k a).getD a) = a) :
    renameHistory names [k, k'] = names := by
  simp only [renameHistory, List.foldl, renameArgs, List.map_map]
  conv_rhs => rw [← List.map_id names]
  exact List.map_congr_left (fun a ha => by simpa using hinv a ha)

example : ∀ a ∈ hNames0,
    (kwLookup [("ARG1".toList, "ARG0".toList), ("ARG0".toList, "ARG1".toList)]
      ((kwLookup (hKs.headD []) a).getD a)).getD ((kwLookup (hKs.headD []) a).getD a) = a := by decide

end C12
