/-
C12 — Compiled GP trees compute what the prefix tree denotes; printing round-trips.
Property theorems only; model `DeapModel/Core/GpCompile.lean`, helper lemmas `DeapModel/Lemmas/C12*.lean`.

TRUSTED (not modelled): CPython's `eval` of the source text.  `compile` hands `compileSrc` — by
`compileSrc_eq` the text `lambda a,b: <render t>` — to `eval`; that a nested call expression
`f(g(x), y)` evaluates to the callable bound to `f` applied to the values of its arguments (the
meaning `evalTree` gives to `render t`) is Python's semantics and is only exercised by the
correspondence run, as is `repr`/`eval` round-tripping of numeric literals (hypothesis on `E.ev`).
-/
import DeapModel.Lemmas.C12Str
import DeapModel.Lemmas.C12Tok
import DeapModel.Lemmas.C12Parse
import DeapModel.Lemmas.C12Adf

namespace C12
open GpTree GpCompile

/-! ### fixtures for the `example`s -/
def pAdd : Prim := ⟨"add", 0, [0, 0], .prim, ""⟩
def pNeg : Prim := ⟨"neg", 0, [0], .prim, ""⟩
def pX : Prim := ⟨"ARG0", 0, [], .term, "x"⟩          -- a renamed argument prints its new name
def pE : Prim := ⟨"E", 0, [], .eph, "-3"⟩             -- an ephemeral prints its value
def exTree : Tree := .node pAdd [.node pNeg [.node pX []], .node pE []]
def exEnv : ParseEnv where
  mapping := fun k => if k = "add".toList then some pAdd else if k = "neg".toList then some pNeg
    else if k = "x".toList then some pX else none
  sub := fun _ _ => true
  ev := fun k => if k = "-3".toList then some (0, "-3".toList) else none

/-! ## Printing -/

/-- The stack machine of `PrimitiveTree.__str__` applied to the prefix form of a well-formed tree
(any arities, incl. zero-argument primitives) yields the recursive text `name(a1, a2, …)` /
terminal text. -/
theorem str_eq_render (t : Tree) (hw : wf t = true) : strBuilder (flatten t) = render t :=
  strBuilder_flatten hw

example : wf exTree = true ∧ String.ofList (strBuilder (flatten exTree)) = "add(neg(x), -3)" := by decide

/-- the source `compile` evaluates is `lambda <args>: <render t>` (just `<render t>` for a
zero-argument set) -/
theorem compileSrc_eq (arguments : List Str) (t : Tree) (hw : wf t = true) :
    compileSrc arguments (flatten t) =
      if arguments.length > 0 then "lambda ".toList ++ joinComma arguments ++ ": ".toList ++ render t
      else render t := by
  simp only [compileSrc, strBuilder_flatten hw]

example : String.ofList (compileSrc ["x".toList, "y".toList] (flatten exTree)) = "lambda x,y: add(neg(x), -3)" := by
  decide

/-! ## Tokenizing -/

/-- The tokenizer of `from_string` applied to the printed tree returns exactly the node texts in
prefix order, provided no node text is empty or contains a separator character. -/
theorem tokens_render (t : Tree) (hw : wf t = true) (hn : ∀ p ∈ flatten t, NameOK p) :
    tokens (render t) = (flatten t).map tok :=
  tokens_render_flatten hw hn

example : (tokens (render exTree)).map String.ofList = ["add", "neg", "x", "-3"] := by decide

example : ∀ p ∈ flatten exTree, NameOK p := by
  intro p hp
  simp [exTree, flatten, flattenF] at hp
  rcases hp with rfl | rfl | rfl | rfl <;> (refine ⟨⟨by decide, ?_⟩, by decide⟩; decide)

/-! ## Parsing -/

/-- The token loop of `from_string` with its type queue (`extendleft(reversed(args))`), run on the
printed tree, is the tree recursion `reparse`: whenever the latter relabels `t` to `t'`, the
former returns `flatten t'`. -/
theorem fromString_eq_reparse (E : ParseEnv) (t t' : Tree) (hw : wf t = true)
    (hn : ∀ p ∈ flatten t, NameOK p) (h : reparse E none t = some t') :
    fromString E (render t) = some (flatten t') := by
  unfold fromString
  rw [tokens_render t hw hn]
  have := fromStringGo_tree E t t' [] [] (by simpa using h)
  simpa [fromStringGo] using this

/-- **Round trip.**  For a well-typed tree whose nodes are known to the primitive set (see
`Registered`), `from_string(str(tree), pset)` succeeds and returns the prefix form of a tree `t'`
with the same node count and the same arities node by node, which prints identically (through the
very string builder) and denotes the same value in every environment.

NOTE: `evalTree` reads only the kind, the name and the text of a node, so in the MODEL the last clause ("computes
the same function") follows from "prints identically with the same shape" and adds no content of its own; the clause
gets its content from the correspondence run, where the re-parsed tree is compiled by the real code and compared
value by value. -/
theorem roundtrip (E : ParseEnv) (refl : ∀ a, E.sub a a = true)
    (trans : ∀ a b c, E.sub a b = true → E.sub b c = true → E.sub a c = true)
    (t : Tree) (σ : Nat) (hwt : wt E.sub σ t = true)
    (hn : ∀ p ∈ flatten t, NameOK p) (hreg : ∀ p ∈ flatten t, Registered E p) :
    ∃ t', fromString E (strBuilder (flatten t)) = some (flatten t') ∧
      (flatten t').length = (flatten t).length ∧
      (flatten t').map (·.arity) = (flatten t).map (·.arity) ∧
      strBuilder (flatten t') = strBuilder (flatten t) ∧
      ∀ env, evalTree env t' = evalTree env t := by
  have hw := wf_of_wt hwt
  obtain ⟨t', hre, hsame⟩ := reparse_ok E refl trans t none
    (fun p hp => ⟨hreg p hp, (hn p hp).2⟩) (wt_mono hwt (refl _)) (by intro σ h; cases h)
  have hw' := sameTree_wf t t' hsame hw
  have har := sameTree_arities t t' hsame
  refine ⟨t', ?_, ?_, ?_, ?_, fun env => sameTree_eval env t t' hsame⟩
  · rw [str_eq_render t hw]; exact fromString_eq_reparse E t t' hw hn hre
  · have := congrArg List.length har; simpa using this
  · have := congrArg (List.map List.length) har
    simpa [List.map_map, Function.comp_def, Prim.arity] using this
  · rw [str_eq_render t hw, str_eq_render t' hw', sameTree_render t t' hsame]

/-- the hypotheses of `roundtrip` hold for a tree with a renamed argument and an ephemeral value -/
example : wt exEnv.sub 0 exTree = true ∧ (∀ p ∈ flatten exTree, Registered exEnv p) ∧
    (fromString exEnv (strBuilder (flatten exTree))).map (·.map (·.name)) = some ["add", "neg", "ARG0", "-3"] := by
  refine ⟨by decide, ?_, by decide⟩
  intro p hp
  simp [exTree, flatten, flattenF] at hp
  rcases hp with rfl | rfl | rfl | rfl
  · exact Or.inl (by decide)
  · exact Or.inl (by decide)
  · exact Or.inl (by decide)
  · exact Or.inr ⟨by decide, Or.inr ⟨by decide, 0, by decide, rfl⟩⟩

/-- evaluation only: whatever list `from_string(str(t))` returns is the prefix form of a tree that
computes the same function as `t` -/
theorem eval_roundtrip (E : ParseEnv) (refl : ∀ a, E.sub a a = true)
    (trans : ∀ a b c, E.sub a b = true → E.sub b c = true → E.sub a c = true)
    (t : Tree) (σ : Nat) (hwt : wt E.sub σ t = true)
    (hn : ∀ p ∈ flatten t, NameOK p) (hreg : ∀ p ∈ flatten t, Registered E p)
    (l' : List Prim) (h : fromString E (strBuilder (flatten t)) = some l') :
    ∃ t', flatten t' = l' ∧ wf t' = true ∧ ∀ env, evalTree env t' = evalTree env t := by
  have hw := wf_of_wt hwt
  obtain ⟨t', hre, hsame⟩ := reparse_ok E refl trans t none
    (fun p hp => ⟨hreg p hp, (hn p hp).2⟩) (wt_mono hwt (refl _)) (by intro σ h; cases h)
  have := fromString_eq_reparse E t t' hw hn hre
  rw [str_eq_render t hw, this] at h
  exact ⟨t', by simpa using h, sameTree_wf t t' hsame hw, fun env => sameTree_eval env t t' hsame⟩

/-! ## Automatically defined functions -/

theorem adf_fold (pts : List (CPset × Tree)) :
    pts.foldr (fun pt st => adfStep st pt) ([], none) =
      (semADF pts, ((semADF pts).head?).map (·.2)) := by
  induction pts with
  | nil => simp [semADF]
  | cons pt pts ih =>
    obtain ⟨ps, t⟩ := pt
    simp only [List.foldr_cons]
    rw [ih]
    simp [adfStep, semADF]

/-- `compileADF` (the loop over the reversed `zip(psets, expr)` with its growing `adfdict`)
returns the meaning of the first tree in which every later set's name denotes — recursively, the
innermost (last) set first — the meaning of the corresponding later tree. -/
theorem adf_eval (pts : List (CPset × Tree)) :
    compileADF pts = ((semADF pts).head?).map (·.2) := by
  unfold compileADF
  rw [List.foldl_reverse, adf_fold]

/-- two-level unfolding: the main tree is evaluated with `ADF1` bound to the evaluator of the
second tree, which itself is evaluated with `ADF2` bound to the evaluator of the third tree -/
theorem adf_eval_two (main a1 a2 : CPset) (t0 t1 t2 : Tree) :
    compileADF [(main, t0), (a1, t1), (a2, t2)] =
      some (compile (withAdfs main.env
        [(a1.name, compile (withAdfs a1.env [(a2.name, compile (withAdfs a2.env []) a2.arguments t2)]) a1.arguments t1),
         (a2.name, compile (withAdfs a2.env []) a2.arguments t2)]) main.arguments t0) := by
  rw [adf_eval]; simp [semADF]

/-! ## One individual's meaning does not depend on what else was compiled -/

/-- the callable of the session model is the head of its `adfdict` -/
theorem sessGo_func (items : List (PSig × Env × Tree)) :
    (sessGo items).2.2 = ((sessGo items).1.head?).map (·.2) := by
  cases items with
  | nil => rfl
  | cons x rest => obtain ⟨sg, c, t⟩ := x; simp [sessGo]

/-- **What F20 fixed, at statement level.**  `sessGo` models a session in which every primitive set
carries its current `context` and each `compileADF` call rebinds it (`pset.context = dict(pset.context,
**adfdict)`).  Compile individual `A`, then individual `B` against the same sets:
(i) the callable obtained for `A` is the pure meaning of `A`'s own trees in the sets' original contexts
    (`compileADF`, i.e. `adf_eval`) — it is a value of the model and nothing `B` does can change it;
(ii) the callable obtained for `B`, although compiled in the contexts left behind by `A`, is the pure
    meaning of `B`'s own trees: every ADF name is bound again, so nothing of `A` leaks into `B`. -/
theorem compile_adf_independent (sigs : List PSig) (cs : List Env) (A B : List Tree)
    (h1 : sigs.length = cs.length) (h2 : cs.length = A.length) (h3 : A.length = B.length) :
    (sessGo (mkItems sigs cs A)).2.2 =
      compileADF ((mkItems sigs cs A).map (fun x => (⟨x.1.name, x.1.arguments, x.2.1⟩, x.2.2))) ∧
    (sessGo (mkItems sigs (sessGo (mkItems sigs cs A)).2.1 B)).2.2 =
      compileADF ((mkItems sigs cs B).map (fun x => (⟨x.1.name, x.1.arguments, x.2.1⟩, x.2.2))) := by
  refine ⟨?_, ?_⟩
  · rw [adf_eval, sessGo_func, sessGo_eq_sem]
  · rw [(sessGo_independent sigs cs A B h1 h2 h3).2, adf_eval, sessGo_func, sessGo_eq_sem]

example : ([⟨"MAIN".toList, ["x".toList]⟩, ⟨"ADF1".toList, []⟩] : List PSig).length = [exTree, exTree].length := by decide

end C12
